import FlowRecord.Drive.Util
import FlowRecord.Model.Readers
/-!
Driver handlers for C10. Records travel as their index (`Nat`); the matcher is the table of outcomes measured on the
real engine (`"t"`, `"f"`, or an exception class name), errors are class names.
-/
open Lean
namespace FlowRecord.Drive
open FlowRecord.Readers

namespace C10

def outcomeOf (s : String) : Except String Bool :=
  if s == "t" then .ok true else if s == "f" then .ok false else .error s

def tableMatcher (tbl : Array String) : Matcher Nat String := fun i =>
  match tbl[i]? with
  | some s => outcomeOf s
  | none => .error "model:no-outcome"

def strAt (a : Array Json) (i : Nat) : Except String String :=
  match a[i]? with
  | some j => j.getStr?
  | none => throw "short item"

def natAt (a : Array Json) (i : Nat) : Except String Nat :=
  match a[i]? with
  | some j => j.getNat?
  | none => throw "short item"

def frameOf (j : Json) : Except String (Frame Nat Nat Nat String) := do
  let a ← j.getArr?
  let k ← strAt a 0
  if k == "magic" then pure .magic
  else if k == "desc" then pure (.desc (← natAt a 1) (← natAt a 1))
  else if k == "rec" then do
    let nested ← match a[3]? with
      | some j => j.getArr? >>= fun xs => xs.toList.mapM (·.getNat?)
      | none => pure []
    pure (.record (← natAt a 1) nested (← natAt a 2))
  else if k == "broken" then pure (.broken (← strAt a 1))
  else throw s!"bad frame {k}"

def jsonLineOf (j : Json) : Except String (JsonLine Nat Nat String) := do
  let a ← j.getArr?
  let k ← strAt a 0
  if k == "rec" then pure (.record (← natAt a 2) (← natAt a 1))
  else if k == "desc" then pure (.descriptor (← natAt a 1))
  else if k == "plain" then pure (.plain (.ok (← natAt a 1)))
  else if k == "plainerr" then pure (.plain (.error (← strAt a 1)))
  else if k == "bad" then pure (.bad (← strAt a 1))
  else throw s!"bad line {k}"

/-- a row: `["row", idx]` or `["rowerr", class]` -/
def rowOf (j : Json) : Except String (Except String Nat) := do
  let a ← j.getArr?
  let k ← strAt a 0
  if k == "row" then pure (.ok (← natAt a 1))
  else if k == "rowerr" then pure (.error (← strAt a 1))
  else throw s!"bad row {k}"

def decoders : Decoders Nat Nat (Except String Nat) Nat String :=
  ⟨fun _ p => p, id, id, id, "RecordDescriptorNotFound", "model:header-yielded"⟩

def runJson (r : Run Nat String) : Json :=
  Json.mkObj [("out", Json.arr (r.out.map (fun (n : Nat) => toJson n)).toArray),
              ("err", match r.err with | some e => Json.str e | none => Json.null)]

def selJson : Option Sel → Json
  | none => Json.null
  | some (.interp e) => Json.arr #[Json.str "interp", Json.str e]
  | some (.compiled (some e)) => Json.arr #[Json.str "compiled", Json.str e]
  | some (.compiled none) => Json.arr #[Json.str "compiled", Json.null]

def outcomeJson (o : Except String Bool) : Json :=
  match o with
  | .ok true => Json.str "t"
  | .ok false => Json.str "f"
  | .error e => Json.str e

end C10

open C10 in
def handleC10 : Handler := fun op j =>
  match op with
  | "c10.read" => some do
      let adapter ← getStr j "adapter"
      let items ← getArr j "items"
      let useSel ← getBool j "sel"
      let tbl ← j.getObjValAs? (Array String) "outcomes"
      let sel : Option (Matcher Nat String) := if useSel then some (tableMatcher tbl) else none
      let src : Src Nat Nat Nat (Except String Nat) Nat String ←
        if adapter == "stream" then do pure (.stream (← items.toList.mapM frameOf))
        else if adapter == "jsonfile" then do pure (.json (← items.toList.mapM jsonLineOf))
        else if adapter == "avro" then do pure (.avro (← items.toList.mapM rowOf))
        else if adapter == "csvfile" then do pure (.csv (← items.toList.mapM rowOf))
        else if adapter == "sqlite" then do
          let tables ← items.toList.mapM fun t => do
            let batches ← t.getArr?
            batches.toList.mapM fun b => do
              let rows ← b.getArr?
              rows.toList.mapM rowOf
          pure (.sqlite tables)
        else throw s!"bad adapter {adapter}"
      let plain := Readers.read genCfg decoders none src
      pure (Json.mkObj [("plain", runJson plain), ("withsel", runJson (Readers.read genCfg decoders sel src)),
                        ("post", runJson (match sel with | some m => filterRun m plain | none => plain))])
  | "c10.mksel" => some do
      let kind ← getStr j "kind"
      let s ← getStr j "s"
      let force ← getBool j "force"
      let a : SelArg ←
        if kind == "absent" then pure SelArg.absent
        else if kind == "text" then pure (SelArg.text s)
        else if kind == "interp" then pure (SelArg.interp s)
        else if kind == "compiled" then pure (SelArg.compiled s)
        else throw s!"bad kind {kind}"
      pure (Json.mkObj [("sel", selJson (makeSelector a force))])
  | "c10.thread" => some do
      -- one reused selector object over `order`; the evaluation reads the namespace slot and leaves garbage behind
      let tbl ← j.getObjValAs? (Array String) "fresh"
      let order ← j.getObjValAs? (Array Nat) "order"
      let engine ← getStr j "engine"
      if engine == "interp" then
        let eval : Nat → MState Nat → Except String Bool × MState Nat := fun _ st =>
          (tableMatcher tbl (st "data"), fun f => if f == "data" || f == "selector_backtrace" then st f + 1000003 else st f)
        let res := runThreaded Gen.matcherResetFields (fun r _ => r) eval (fun _ => 999999999) order.toList
        pure (Json.mkObj [("results", Json.arr (res.map outcomeJson).toArray)])
      else
        let eval : Nat → Nat → Except String Bool × Nat := fun r ns =>
          (if ns == 0 then tableMatcher tbl r else .error "model:polluted-namespace", ns + 1)
        let res := runCompiled Gen.compiledMatchCopiesNamespace eval 0 order.toList
        pure (Json.mkObj [("results", Json.arr (res.map outcomeJson).toArray)])
  | _ => none

end FlowRecord.Drive
