import Lean.Data.Json
/-!
Helpers shared by the per-property driver handlers (`FlowRecord/Drive/Cxx.lean`).
Byte strings travel as lowercase hex, big integers as decimal strings, text as utf-32-be hex
(so lone surrogates survive JSON).
-/
open Lean

namespace FlowRecord.Drive

abbrev Handler := String → Json → Option (Except String Json)

def hexVal (c : Char) : Option Nat :=
  if '0' ≤ c ∧ c ≤ '9' then some (c.toNat - '0'.toNat)
  else if 'a' ≤ c ∧ c ≤ 'f' then some (c.toNat - 'a'.toNat + 10)
  else if 'A' ≤ c ∧ c ≤ 'F' then some (c.toNat - 'A'.toNat + 10)
  else none

def unhexList : List Char → Option (List UInt8)
  | [] => some []
  | [_] => none
  | a :: b :: rest => do
    let x ← hexVal a
    let y ← hexVal b
    let r ← unhexList rest
    pure (UInt8.ofNat (x * 16 + y) :: r)

def unhex (s : String) : Option (List UInt8) := unhexList s.toList

def hexDigit (n : Nat) : Char := if n < 10 then Char.ofNat (48 + n) else Char.ofNat (87 + n)

def hex (bs : List UInt8) : String :=
  String.ofList (bs.foldr (fun b acc => hexDigit (b.toNat / 16) :: hexDigit (b.toNat % 16) :: acc) [])

/-- utf-32-be hex -> code points -/
def codePointsOfBytes : List UInt8 → Option (List Nat)
  | [] => some []
  | a :: b :: c :: d :: rest => do
    let r ← codePointsOfBytes rest
    pure ((a.toNat * 16777216 + b.toNat * 65536 + c.toNat * 256 + d.toNat) :: r)
  | _ => none

def bytesOfCodePoints (cps : List Nat) : List UInt8 :=
  cps.flatMap fun n => [UInt8.ofNat (n / 16777216), UInt8.ofNat (n / 65536 % 256), UInt8.ofNat (n / 256 % 256),
                        UInt8.ofNat (n % 256)]

def err (msg : String) : Json := Json.mkObj [("error", Json.str msg)]

def getStr (j : Json) (k : String) : Except String String := j.getObjValAs? String k
def getNat (j : Json) (k : String) : Except String Nat := j.getObjValAs? Nat k
def getInt (j : Json) (k : String) : Except String Int := j.getObjValAs? Int k
def getBool (j : Json) (k : String) : Except String Bool := j.getObjValAs? Bool k
def getArr (j : Json) (k : String) : Except String (Array Json) := j.getObjValAs? (Array Json) k
def getObj (j : Json) (k : String) : Except String Json := j.getObjVal? k

def getHex (j : Json) (k : String) : Except String (List UInt8) := do
  let s ← getStr j k
  match unhex s with
  | some b => pure b
  | none => throw s!"bad hex in {k}"

/-- decimal string (possibly negative) -> Int -/
def intOfString (s : String) : Except String Int :=
  match s.toInt? with
  | some i => pure i
  | none => throw s!"bad integer {s}"

def getBigInt (j : Json) (k : String) : Except String Int := do
  let s ← getStr j k
  intOfString s

/-- text field (utf-32-be hex) -> code points -/
def getText (j : Json) (k : String) : Except String (List Nat) := do
  let b ← getHex j k
  match codePointsOfBytes b with
  | some cps => pure cps
  | none => throw s!"bad utf-32 in {k}"

def textJson (cps : List Nat) : Json := Json.str (hex (bytesOfCodePoints cps))
def hexJson (bs : List UInt8) : Json := Json.str (hex bs)
def intJson (i : Int) : Json := Json.str (toString i)

end FlowRecord.Drive
