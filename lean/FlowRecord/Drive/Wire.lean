import FlowRecord.Drive.Util
import FlowRecord.Model.Stream
import FlowRecord.Spec.Wire
/-! Driver handlers for the wire layer: msgpack, UTF-8/surrogateescape, packer envelopes, stream writer/reader. -/
open Lean
namespace FlowRecord.Drive
open FlowRecord FlowRecord.Msgpack FlowRecord.Wire FlowRecord.Stream

def wireHexNat (s : String) : Except String Nat :=
  match unhex s with
  | some bs => pure (beDec bs)
  | none => throw "bad hex number"

def wireNatHex (k n : Nat) : Json := Json.str (hex (beEnc k n))

def wireTextOfHex (s : String) : Except String (List Nat) :=
  match unhex s with
  | some b => match codePointsOfBytes b with
    | some c => pure c
    | none => throw "bad utf-32"
  | none => throw "bad hex"

def wireBytesOfHex (s : String) : Except String Bytes :=
  match unhex s with
  | some b => pure b
  | none => throw "bad hex"

def wireJStr (j : Json) : Except String String := j.getStr?
def wireJArr (j : Json) : Except String (Array Json) := j.getArr?

def descOfJson (j : Json) : Except String Desc := do
  let a ← wireJArr j
  if a.size < 3 then throw "desc: need [name, fields, hash]"
  let name ← wireTextOfHex (← wireJStr a[0]!)
  let fs ← wireJArr a[1]!
  let fields ← fs.toList.mapM fun f => do
    let p ← wireJArr f
    if p.size != 2 then throw "desc field: need [type, name]"
    let t ← wireTextOfHex (← wireJStr p[0]!)
    let n ← wireTextOfHex (← wireJStr p[1]!)
    pure (t, n)
  let h ← a[2]!.getNat?
  pure { name := name, fields := fields, hash := h }

def descToJson (d : Desc) : Json :=
  Json.arr #[textJson d.name, Json.arr (d.fields.map fun (t, n) => Json.arr #[textJson t, textJson n]).toArray,
             Json.num d.hash]

partial def pvOfJson (j : Json) : Except String PV := do
  let a ← wireJArr j
  if a.size == 0 then throw "pv: empty"
  let tag ← wireJStr a[0]!
  match tag with
  | "N" => pure .none
  | "B" => pure (.bool (← a[1]!.getBool?))
  | "I" => pure (.int (← intOfString (← wireJStr a[1]!)))
  | "F" => pure (.float (← wireHexNat (← wireJStr a[1]!)))
  | "S" => pure (.str (← wireTextOfHex (← wireJStr a[1]!)))
  | "Y" => pure (.bytes (← wireBytesOfHex (← wireJStr a[1]!)))
  | "L" => pure (.seq (← (← wireJArr a[1]!).toList.mapM pvOfJson))
  | "D" => pure (.dict (← (← wireJArr a[1]!).toList.mapM pvOfJson))
  | "TU" => pure (.dtUtc (← (← wireJArr a[1]!).toList.mapM (fun x => x.getNat?)))
  | "TI" => pure (.dtIso (← wireTextOfHex (← wireJStr a[1]!)))
  | "R" => pure (.record (← descOfJson a[1]!) (← (← wireJArr a[2]!).toList.mapM pvOfJson))
  | "G" => pure (.grouped (← wireTextOfHex (← wireJStr a[1]!)) (← (← wireJArr a[2]!).toList.mapM pvOfJson))
  | "DESC" => pure (.desc (← descOfJson a[1]!))
  | t => throw s!"pv: unknown tag {t}"

partial def rvToJson : RV → Json
  | .none => Json.arr #["N"]
  | .bool b => Json.arr #["B", Json.bool b]
  | .int i => Json.arr #["I", intJson i]
  | .float x => Json.arr #["F", wireNatHex 8 x]
  | .float32 x => Json.arr #["F32", wireNatHex 4 x]
  | .str s => Json.arr #["S", textJson s]
  | .bytes b => Json.arr #["Y", hexJson b]
  | .tuple xs => Json.arr #["T", Json.arr (xs.map rvToJson).toArray]
  | .dict xs => Json.arr #["D", Json.arr (xs.map rvToJson).toArray]
  | .dt xs => Json.arr #["DT", Json.arr (xs.map rvToJson).toArray]
  | .record d vals => Json.arr #["R", descToJson d, Json.arr (vals.map rvToJson).toArray]
  | .grouped n ms => Json.arr #["G", textJson n, Json.arr (ms.map rvToJson).toArray]
  | .desc n fs => Json.arr #["DESC", textJson n,
      Json.arr (fs.map fun (t, f) => Json.arr #[textJson t, textJson f]).toArray]

partial def mvOfJson (j : Json) : Except String MVal := do
  let a ← wireJArr j
  if a.size == 0 then throw "mv: empty"
  match (← wireJStr a[0]!) with
  | "nil" => pure .nil
  | "b" => pure (.bool (← a[1]!.getBool?))
  | "i" => pure (.int (← intOfString (← wireJStr a[1]!)))
  | "f64" => pure (.f64 (← wireHexNat (← wireJStr a[1]!)))
  | "f32" => pure (.f32 (← wireHexNat (← wireJStr a[1]!)))
  | "s" => pure (.str (← wireBytesOfHex (← wireJStr a[1]!)))
  | "y" => pure (.bin (← wireBytesOfHex (← wireJStr a[1]!)))
  | "a" => pure (.arr (← (← wireJArr a[1]!).toList.mapM mvOfJson))
  | "m" => pure (.map (← (← wireJArr a[1]!).toList.mapM mvOfJson))
  | "x" => pure (.ext (← a[1]!.getNat?) (← wireBytesOfHex (← wireJStr a[2]!)))
  | t => throw s!"mv: unknown tag {t}"

partial def mvToJson : MVal → Json
  | .nil => Json.arr #["nil"]
  | .bool b => Json.arr #["b", Json.bool b]
  | .int i => Json.arr #["i", intJson i]
  | .f64 x => Json.arr #["f64", wireNatHex 8 x]
  | .f32 x => Json.arr #["f32", wireNatHex 4 x]
  | .str p => Json.arr #["s", hexJson p]
  | .bin p => Json.arr #["y", hexJson p]
  | .arr xs => Json.arr #["a", Json.arr (xs.map mvToJson).toArray]
  | .map xs => Json.arr #["m", Json.arr (xs.map mvToJson).toArray]
  | .ext t p => Json.arr #["x", Json.num t, hexJson p]

def wireErrName : Wire.Err → String
  | .incomplete => "incomplete"
  | .invalid => "invalid"
  | .unknownExt => "unknownExt"
  | .unknownSub => "unknownSub"
  | .noDescriptor => "noDescriptor"
  | .badShape => "badShape"

def wireEndName : Stream.End → String
  | .eof => "eof"
  | .error e => "error:" ++ wireErrName e
  | .notAStream => "notastream"

def handleWire : Handler := fun op j =>
  match op with
  | "mp_enc" => some do
      let v ← mvOfJson (← getObj j "v")
      pure (Json.mkObj [("hex", hexJson (enc v))])
  | "mp_dec" => some do
      let bs ← getHex j "hex"
      match decode bs with
      | .ok v => pure (Json.mkObj [("v", mvToJson v)])
      | .incomplete => pure (Json.mkObj [("res", "incomplete")])
      | .invalid => pure (Json.mkObj [("res", "invalid")])
  | "utf8_enc" => some do
      let s ← getText j "s"
      match Utf8.encodeSE s with
      | some b => pure (Json.mkObj [("hex", hexJson b)])
      | none => pure (Json.mkObj [("res", "encode-error")])
  | "utf8_dec" => some do
      let bs ← getHex j "hex"
      pure (Json.mkObj [("s", textJson (Utf8.decodeSE bs))])
  | "wire_write" => some do
      let objs ← (← getArr j "objs").toList.mapM pvOfJson
      -- optional "fails": per object `null` (the write succeeds) or k (it raises after k descriptors were met)
      let fails : List (Option Nat) := match j.getObjVal? "fails" with
        | .ok (Json.arr a) => a.toList.map (fun x => match x.getNat? with | .ok n => some n | .error _ => none)
        | _ => objs.map (fun _ => none)
      match writeHist WState.init (objs.zip fails) with
      | some (_, frames) =>
        pure (Json.mkObj [("stream", hexJson (streamOf frames)), ("frames", Json.num frames.length)])
      | none => pure (Json.mkObj [("res", "pack-error")])
  | "ident" => some do
      -- the published identifier rule, computed by the model's own SHA-256
      let name ← wireTextOfHex (← getStr j "name")
      let fs ← getArr j "fields"
      let fields ← fs.toList.mapM fun f => do
        let p ← wireJArr f
        if p.size != 2 then throw "field: need [type, name]"
        let t ← wireTextOfHex (← wireJStr p[0]!)
        let n ← wireTextOfHex (← wireJStr p[1]!)
        pure (t, n)
      pure (Json.mkObj [("hash", match Spec.descriptorHash name fields with | some h => Json.num h | none => Json.null)])
  | "wire_read" => some do
      let bs ← getHex j "hex"
      -- identifiers of received descriptors: from the table the caller supplies, or - when there is none - by the
      -- published rule itself (Spec.descriptorHash: SHA-256 computed by the model)
      let table ← match j.getObjVal? "hashes" with
        | .ok (Json.arr a) => a.toList.mapM descOfJson
        | _ => pure []
      let useSpec := match j.getObjVal? "hashes" with | .ok (Json.arr _) => false | _ => true
      let hashOf := fun (name : List Nat) (fields : List (List Nat × List Nat)) =>
        if useSpec then (Spec.descriptorHash name fields).getD 0
        else match table.find? (fun d => d.name == name && d.fields == fields) with
          | some d => d.hash
          | none => 0
      let (rs, e) := readAll hashOf bs
      pure (Json.mkObj [("records", Json.arr (rs.map rvToJson).toArray), ("end", Json.str (wireEndName e))])
  | "wire_cuts" => some do
      -- for every cut position k = 0..len: (records yielded, end kind) of the model reader on the first k bytes
      let bs ← getHex j "hex"
      let table ← match j.getObjVal? "hashes" with
        | .ok (Json.arr a) => a.toList.mapM descOfJson
        | _ => pure []
      let useSpec := match j.getObjVal? "hashes" with | .ok (Json.arr _) => false | _ => true
      let hashOf := fun (name : List Nat) (fields : List (List Nat × List Nat)) =>
        if useSpec then (Spec.descriptorHash name fields).getD 0
        else match table.find? (fun d => d.name == name && d.fields == fields) with
          | some d => d.hash
          | none => 0
      let isRec : RV → Bool := fun r => match r with | .record _ _ => true | .grouped _ _ => true | _ => false
      let out := (List.range (bs.length + 1)).map fun k =>
        let (rs, e) := readAll hashOf (bs.take k)
        Json.arr #[Json.num (rs.filter isRec).length, Json.str (wireEndName e)]
      pure (Json.mkObj [("cuts", Json.arr out.toArray)])
  | _ => none

end FlowRecord.Drive
