import FlowRecord.Drive.Util
import FlowRecord.Model.Compose
open Lean
namespace FlowRecord.Drive
open FlowRecord.Compose

def c15Text (j : Json) : Except String Str := do
  let s ← j.getStr?
  match unhex s with
  | some b => match codePointsOfBytes b with
    | some cps => pure cps
    | none => throw "bad utf-32"
  | none => throw "bad hex"

def c15Pairs (j : Json) : Except String (List (Str × Str)) := do
  let a ← j.getArr?
  a.toList.mapM fun f => do
    let p ← f.getArr?
    let t ← c15Text (p[0]?.getD Json.null)
    let n ← c15Text (p[1]?.getD Json.null)
    pure (t, n)

def c15Names (j : Json) : Except String (List Str) := do
  let a ← j.getArr?
  a.toList.mapM c15Text

def c15Slots (j : Json) : Except String (List (Str × Json)) := do
  let a ← j.getArr?
  a.toList.mapM fun f => do
    let p ← f.getArr?
    let k ← c15Text (p[0]?.getD Json.null)
    pure (k, p[1]?.getD Json.null)

def c15Rec (j : Json) : Except String (Rec Json) := do
  let name ← c15Text (← j.getObjVal? "name")
  let fields ← c15Pairs (← j.getObjVal? "fields")
  let slots ← c15Slots (← j.getObjVal? "slots")
  pure ⟨name, fields, slots⟩

def c15PairsJson (ps : List (Str × Str)) : Json :=
  Json.arr (ps.map fun p => Json.arr #[textJson p.1, textJson p.2]).toArray

def c15RecJson (r : Rec Json) : Json :=
  Json.mkObj [("name", textJson r.name), ("fields", c15PairsJson r.fields),
    ("slots", Json.arr (r.slots.map fun p => Json.arr #[textJson p.1, p.2]).toArray)]

def c15NameVal (n : Str) : Json := Json.mkObj [("fname", textJson n)]

/-- per-type defaults: {"none": tok, "defaults": [[type, tok], ...]} -/
def c15Dflt (j : Json) : Except String (Str → Json) := do
  let none ← getObj j "none"
  let ds ← (match j.getObjVal? "defaults" with
    | .ok d => c15Slots d
    | .error _ => pure [])
  pure fun t => (Descriptor.alGet ds t).getD none

def handleC15 : Handler := fun op j =>
  match op with
  | "c15_merge" => some do
      let replace ← getBool j "replace"
      let ds ← (← getArr j "descs").toList.mapM c15Pairs
      pure (Json.mkObj [("fields", c15PairsJson (mergeFields replace ds))])
  | "c15_extend" => some do
      let replace ← getBool j "replace"
      let nm ← getObj j "name"
      let name ← (if nm.isNull then pure none else (c15Text nm).map some : Except String (Option Str))
      let recs ← (← getArr j "records").toList.mapM c15Rec
      match recs with
      | [] => throw "no records"
      | r :: others =>
        pure (c15RecJson (extendRecord (← c15Dflt j) (← getObj j "ver") replace name r others))
  | "c15_ts" => some do
      let r ← c15Rec (← getObj j "record")
      let outs := tsExpand (← c15Dflt j) (← getObj j "ver") c15NameVal r
      pure (Json.mkObj [("records", Json.arr (outs.map c15RecJson).toArray)])
  | "c15_grouped" => some do
      let ms ← (← getArr j "members").toList.mapM c15Rec
      let ks ← c15Names (← getObj j "keys")
      pure (Json.mkObj [("fields", c15PairsJson (groupedFields ms)),
        ("values", Json.arr (ks.map fun k => match groupedGet ms k with
          | some v => Json.arr #[v]
          | none => Json.null).toArray),
        -- the dictionary view (`_asdict`), with a marker for a value that would be the group object's own attribute
        ("asdict", Json.arr (ks.map fun k => match groupedAsdictGet (fun _ => Json.str "<own attribute of the group>") ms k with
          | some v => Json.arr #[v]
          | none => Json.null).toArray)])
  | "c15_replace" => some do
      let r ← c15Rec (← getObj j "record")
      let kvs ← c15Slots (← getObj j "kvs")
      match replaceRec (← getObj j "ver") r kvs with
      | some r' => pure (Json.mkObj [("ok", Json.bool true), ("record", c15RecJson r')])
      | none => pure (Json.mkObj [("ok", Json.bool false)])
  | "c15_project" => some do
      let r ← c15Rec (← getObj j "record")
      let fields ← c15Names (← getObj j "fields")
      let exclude ← c15Names (← getObj j "exclude")
      pure (c15RecJson (rewrite (← c15Dflt j) (← getObj j "ver") fields exclude r))
  | "c15_initdict" => some do
      let name ← c15Text (← getObj j "name")
      let fields ← c15Pairs (← getObj j "fields")
      let kvs ← c15Slots (← getObj j "kvs")
      pure (c15RecJson (initFromDict (← c15Dflt j) (← getObj j "ver") name fields (Descriptor.alGet kvs)))
  | _ => none

end FlowRecord.Drive
