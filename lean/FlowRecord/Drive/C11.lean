import FlowRecord.Drive.Util
import FlowRecord.Model.Detect
open Lean
namespace FlowRecord.Drive

def handleC11 : Handler := fun op j =>
  match op with
  | "sniff" => some do
      let bs ← getHex j "hex"
      let codec := Detect.sniffCodec (fun _ => true) bs
      let container := Detect.sniffContainer (fun _ => true) bs
      pure (Json.mkObj [("codec", Json.str codec), ("container", Json.str container)])
  | "pathcodec" => some do
      let p ← getStr j "path"
      pure (Json.mkObj [("codec", Json.str (Detect.pathCodec p.toList))])
  | _ => none

end FlowRecord.Drive
