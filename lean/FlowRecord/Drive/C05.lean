import FlowRecord.Drive.Util
import FlowRecord.Model.Coerce
open Lean
namespace FlowRecord.Drive
open FlowRecord.Coerce

def c05Text (j : Json) : Except String Str := do
  let s ← j.getStr?
  match unhex s with
  | some b => match codePointsOfBytes b with
    | some cps => pure cps
    | none => throw "bad utf-32"
  | none => throw "bad hex"

def c05Bytes (j : Json) : Except String (List Nat) := do
  let s ← j.getStr?
  match unhex s with
  | some b => pure (b.map (·.toNat))
  | none => throw "bad hex"

def c05Int (j : Json) : Except String Int := do
  let s ← j.getStr?
  intOfString s

def c05Ints (j : Json) : Except String (List Int) := do
  (← j.getArr?).toList.mapM fun x => x.getInt?

def c05LibRes (j : Json) : Except String LibRes := do
  let a ← j.getArr?
  let tag ← (a[0]?.getD Json.null).getStr?
  match tag with
  | "tok" => pure (.tok (← (a[1]?.getD Json.null).getNat?))
  | "int" => pure (.int (← c05Int (a[1]?.getD Json.null)))
  | "str" => pure (.str (← c05Text (a[1]?.getD Json.null)))
  | "dt" => do
    let wall ← c05Ints (a[1]?.getD Json.null)
    let o := a[2]?.getD Json.null
    let off ← (if o.isNull then pure none else (c05Int o).map some : Except String (Option Int))
    pure (.dt wall off)
  | "err" => pure (.err (← (a[1]?.getD Json.null).getStr?))
  | t => throw s!"bad libres {t}"

def c05Ann (j : Json) : Except String Ann := do
  if j.isNull then return []
  let o ← j.getObj?
  o.toList.mapM fun (k, v) => do pure (k, ← c05LibRes v)

def c05Num (j : Json) : Except String Num := do
  let a ← j.getArr?
  let tag ← (a[0]?.getD Json.null).getStr?
  match tag with
  | "int" => pure (.int (← c05Int (a[1]?.getD Json.null)))
  | "bool" => pure (.bool ((← (a[1]?.getD Json.null).getNat?) != 0))
  | "rat" => pure (.rat (← c05Int (a[1]?.getD Json.null)) (← c05Int (a[2]?.getD Json.null)).toNat)
  | "nan" => pure .nan
  | "inf" => pure (.inf ((← (a[1]?.getD Json.null).getNat?) != 0))
  | t => throw s!"bad num {t}"

partial def c05Inp (j : Json) : Except String Inp := do
  let a ← j.getArr?
  let tag ← (a[0]?.getD Json.null).getStr?
  let last := a[a.size - 1]?.getD Json.null
  match tag with
  | "none" => pure (.none (← c05Ann (if a.size > 1 then last else Json.null)))
  | "num" => pure (.num (← c05Num (a[1]?.getD Json.null)) (← c05Ann last))
  | "str" => do
    let es ← (← (a[2]?.getD (Json.arr #[])).getArr?).toList.mapM c05Inp
    pure (.str (← c05Text (a[1]?.getD Json.null)) (← c05Ann last) es)
  | "bytes" => do
    let es ← (← (a[2]?.getD (Json.arr #[])).getArr?).toList.mapM c05Inp
    pure (.bytes (← c05Bytes (a[1]?.getD Json.null)) (← c05Ann last) es)
  | "dt" => do
    let wall ← c05Ints (a[1]?.getD Json.null)
    let o := a[2]?.getD Json.null
    let off ← (if o.isNull then pure none else (c05Int o).map some : Except String (Option Int))
    pure (.dt wall off (← c05Ann last))
  | "list" => pure (.list (← (← (a[1]?.getD Json.null).getArr?).toList.mapM c05Inp) (← c05Ann last))
  | "tuple" => pure (.tuple (← (← (a[1]?.getD Json.null).getArr?).toList.mapM c05Inp) (← c05Ann last))
  | "dict" => pure (.dict (← (← (a[1]?.getD Json.null).getArr?).toList.mapM c05Inp) (← c05Ann last))
  | "other" => do
    let it := a[3]?.getD Json.null
    let iter ← (if it.isNull || a.size < 5 then pure none
      else do pure (some (← (← it.getArr?).toList.mapM c05Inp)) : Except String (Option (List Inp)))
    pure (.other (← (a[1]?.getD Json.null).getStr?) (← (a[2]?.getD Json.null).getNat?) (← c05Ann last) iter)
  | t => throw s!"bad input {t}"

def c05FType (s : String) : Except String FType :=
  if s.endsWith "[]" then
    match btOfName (s.dropRight 2) with
    | some t => pure (.list t)
    | none => throw s!"unknown type {s}"
  else match btOfName s with
    | some t => pure (.scalar t)
    | none => throw s!"unknown type {s}"

def c05ErrName : Err → String
  | .typeError => "TypeError" | .valueError => "ValueError" | .overflowError => "OverflowError"
  | .attributeError => "AttributeError" | .notImplementedError => "NotImplementedError"
  | .unboundLocalError => "UnboundLocalError" | .lib n => n

def c05NumJson : Num → Json
  | .int n => Json.arr #["int", intJson n]
  | .bool b => Json.arr #["bool", Json.num (if b then 1 else 0)]
  | .rat p q => Json.arr #["rat", intJson p, intJson q]
  | .nan => Json.arr #["nan"]
  | .inf n => Json.arr #["inf", Json.num (if n then 1 else 0)]

def c05OptText : Option Str → Json
  | some s => textJson s
  | none => Json.null

def c05LibJson : LibRes → Json
  | .tok t => Json.arr #["tok", Json.num t]
  | .int n => Json.arr #["int", intJson n]
  | .str s => Json.arr #["str", textJson s]
  | .dt w o => Json.arr #["dt", Json.arr (w.map fun x => Json.num (JsonNumber.fromInt x)).toArray,
      match o with | some x => intJson x | none => Json.null]
  | .err e => Json.arr #["err", Json.str e]

partial def c05InpJson : Inp → Json
  | .none _ => Json.arr #["none"]
  | .num x _ => Json.arr #["num", c05NumJson x]
  | .str s _ _ => Json.arr #["str", textJson s]
  | .bytes b _ _ => Json.arr #["bytes", hexJson (b.map UInt8.ofNat)]
  | .dt w o _ => Json.arr #["dt", Json.arr (w.map fun x => Json.num (JsonNumber.fromInt x)).toArray,
      match o with | some x => intJson x | none => Json.null]
  | .list xs _ => Json.arr #["list", Json.arr (xs.map c05InpJson).toArray]
  | .tuple xs _ => Json.arr #["tuple", Json.arr (xs.map c05InpJson).toArray]
  | .dict xs _ => Json.arr #["dict", Json.arr (xs.map c05InpJson).toArray]
  | .other k t _ _ => Json.arr #["other", Json.str k, Json.num t]

def c05IntCls : IntCls → String | .varint => "varint" | .filesize => "filesize" | .unixFileMode => "unix_file_mode"
def c05UCls : UCls → String | .uint16 => "uint16" | .uint32 => "uint32" | .port => "port"
def c05ObjCls : ObjCls → String
  | .path => "path" | .command => "command" | .ipaddress => "ipaddress" | .ipnetwork => "ipnetwork"
  | .ipv4Address => "address" | .ipv4Subnet => "subnet"

partial def c05ValJson : FVal → Json
  | .unset => Json.arr #["unset"]
  | .boolean b => Json.arr #["boolean", Json.num (if b then 1 else 0)]
  | .int c n => Json.arr #["int", Json.str (c05IntCls c), intJson n]
  | .uint c n v => Json.arr #["uint", Json.str (c05UCls c), intJson n, c05NumJson v]
  | .float t => Json.arr #["float", Json.num t]
  | .str c s => Json.arr #["str", Json.str (match c with | .string => "string" | .uri => "uri"), textJson s]
  | .bytes b => Json.arr #["bytes", hexJson (b.map UInt8.ofNat)]
  | .dt w o => Json.arr #["dt", Json.arr (w.map fun x => Json.num (JsonNumber.fromInt x)).toArray, intJson o]
  | .digest a b c => Json.arr #["digest", c05OptText a, c05OptText b, c05OptText c]
  | .obj c r => Json.arr #["obj", Json.str (c05ObjCls c), c05LibJson r]
  | .typedList _ xs => Json.arr #["tlist", Json.arr (xs.map c05ValJson).toArray]
  | .plainList d xs => Json.arr #["plist", Json.bool d, Json.arr (xs.map c05InpJson).toArray]
  | .raw x => Json.arr #["raw", c05InpJson x]

def c05RecJson (r : Record) : Json :=
  Json.mkObj [("vals", Json.arr (r.vals.map c05ValJson).toArray), ("well_typed", Json.bool (wellTyped r)),
    ("serialisable", Json.bool (serialisable r))]

def c05Kvs (j : Json) : Except String (List (Str × Inp)) := do
  (← j.getArr?).toList.mapM fun p => do
    let a ← p.getArr?
    pure (← c05Text (a[0]?.getD Json.null), ← c05Inp (a[1]?.getD Json.null))

def handleC05 : Handler := fun op j =>
  match op with
  | "c05_coerce" => some do
      let t ← c05FType (← getStr j "type")
      let x ← c05Inp (← getObj j "inp")
      match coerce t x with
      | .ok v => pure (Json.mkObj [("ok", Json.bool true), ("val", c05ValJson v), ("has_type", Json.bool (hasType t v)),
          ("packable", Json.bool (packable v))])
      | .error e => pure (Json.mkObj [("ok", Json.bool false), ("err", Json.str (c05ErrName e))])
  | "c05_seq" => some do
      let ts ← (← getArr j "types").toList.mapM fun p => do
        let a ← p.getArr?
        pure (← c05Text (a[0]?.getD Json.null), ← c05FType (← (a[1]?.getD Json.null).getStr?))
      let args ← (← getArr j "args").toList.mapM c05Inp
      match construct ts args with
      | .error e => pure (Json.mkObj [("construct", Json.mkObj [("ok", Json.bool false), ("err", Json.str (c05ErrName e))]),
          ("steps", Json.arr #[])])
      | .ok r0 =>
        let ops ← (← getArr j "ops").toList.mapM fun o => do
          let a ← o.getArr?
          let tag ← (a[0]?.getD Json.null).getStr?
          match tag with
          | "assign" => pure (Op.assign (← c05Text (a[1]?.getD Json.null)) (← c05Inp (a[2]?.getD Json.null)))
          | "replace" => pure (Op.replace (← c05Kvs (a[1]?.getD Json.null)))
          | t => throw s!"bad op {t}"
        let (_, steps) := ops.foldl (fun (acc : Record × List Json) o =>
          let (r', e) := step acc.1 o
          (r', acc.2 ++ [Json.mkObj [("ok", Json.bool e.isNone),
            ("err", match e with | some x => Json.str (c05ErrName x) | none => Json.null), ("state", c05RecJson r')]])) (r0, [])
        pure (Json.mkObj [("construct", Json.mkObj [("ok", Json.bool true), ("state", c05RecJson r0)]),
          ("steps", Json.arr steps.toArray)])
  | _ => none

end FlowRecord.Drive
