import FlowRecord.Drive.Util
import FlowRecord.Model.Rdump
/-!
Driver handlers for C16. Values are symbolic tokens (`String`): `#i.f` = the value of field `f` of input record `i`;
`const:<text>` = a string constant (override value, `ts_description`). The selector is the table of outcomes measured
on the real engine, keyed by the record's `_generated` token.
-/
open Lean
namespace FlowRecord.Drive
open FlowRecord.Readers FlowRecord.Rdump

namespace C16

def optStr (j : Json) (k : String) : Option String :=
  match j.getObjVal? k with
  | .ok (Json.str s) => some s
  | _ => none

def optNat (j : Json) (k : String) : Option Nat :=
  match j.getObjVal? k with
  | .ok v => match v.getNat? with
    | .ok n => some n
    | _ => none
  | _ => none

def fieldOf (j : Json) : Except String (String × String × String) := do
  let a ← j.getArr?
  match a[0]?, a[1]?, a[2]? with
  | some t, some n, some v => pure (← t.getStr?, ← n.getStr?, ← v.getStr?)
  | _, _, _ => throw "bad field"

def recOf (j : Json) : Except String (Rec String) := do
  let name ← getStr j "name"
  let fs ← getArr j "fields"
  let fields ← fs.toList.mapM fieldOf
  let mt ← j.getObjValAs? (Array String) "meta"
  match mt[0]?, mt[1]?, mt[2]? with
  | some s, some c, some g => pure ⟨name, fields, s, c, g⟩
  | _, _, _ => throw "bad meta"

def kindOf (s : String) : ErrKind :=
  if s == "io" then .io else if s == "interrupt" then .interrupt else .other

def sourceOf (j : Json) : Except String (Source (Rec String)) := do
  let rs ← getArr j "records"
  let recs ← rs.toList.mapM recOf
  pure ⟨recs, (optStr j "fails").map kindOf⟩

def recJson (r : Rec String) : Json :=
  Json.mkObj [("name", Json.str r.name),
              ("fields", Json.arr (r.fields.map fun f => Json.arr #[Json.str f.1, Json.str f.2.1, Json.str f.2.2]).toArray),
              ("meta", Json.arr #[Json.str r.source, Json.str r.classification, Json.str r.generated])]

def kindJson : Option ErrKind → Json
  | none => Json.null
  | some .io => Json.str "io"
  | some .interrupt => Json.str "interrupt"
  | some .other => Json.str "other"

def descJson (d : Desc) : Json :=
  Json.arr #[Json.str d.1, Json.arr (d.2.map fun f => Json.arr #[Json.str f.1, Json.str f.2]).toArray]

def tableMatcher (tbl : List (String × String)) : Matcher (Rec String) ErrKind := fun r =>
  match tbl.lookup r.generated with
  | some "t" => .ok true
  | some "f" => .ok false
  | some e => .error (kindOf e)
  | none => .error .other

end C16

open C16 in
def handleC16 : Handler := fun op j =>
  match op with
  | "c16.pipeline" => some do
      let oj ← getObj j "opts"
      let fields ← oj.getObjValAs? (Array String) "fields"
      let exclude ← oj.getObjValAs? (Array String) "exclude"
      let o : Opts String :=
        { skip := (optNat oj "skip").getD 0, count := optNat oj "count", fields := fields.toList,
          exclude := exclude.toList, source := (optStr oj "source").map ("const:" ++ ·),
          classification := (optStr oj "classification").map ("const:" ++ ·),
          multiTs := (oj.getObjValAs? Bool "multits").toOption.getD false,
          list := (oj.getObjValAs? Bool "list").toOption.getD false }
      let srcs ← (← getArr j "sources").toList.mapM sourceOf
      let useSel ← getBool j "sel"
      let outcomes ← getObj j "outcomes"
      let tbl : List (String × String) ← match outcomes with
        | Json.obj kvs => pure (kvs.toList.filterMap fun (k, v) => match v with
            | Json.str s => some (k, s)
            | _ => none)
        | _ => throw "outcomes must be an object"
      let sel := if useSel then some (tableMatcher tbl) else none
      let out := pipeline ("const:" ++ ·) ("fresh:_source", "fresh:_classification", "fresh:_generated") o sel srcs
      let uri : Json := match j.getObjVal? "present" with
        | .ok pj =>
          let p : Present :=
            { mode := optStr pj "mode", writer := optStr pj "writer", split := optNat pj "split",
              suffixLen := (optNat pj "suffix").getD 2, format := optStr pj "format" }
          Json.str (String.ofList (writerUri p (writerFields o.multiTs (optStr pj "fields")) (optStr pj "exclude")))
        | .error _ => Json.null
      pure (Json.mkObj [("uri", uri), ("written", Json.arr (out.written.map recJson).toArray),
                        ("listed", Json.arr (out.listed.map descJson).toArray),
                        ("processed", toJson out.processed), ("crash", kindJson out.crash)])
  | "c16.uri" => some do
      let p : Present :=
        { mode := optStr j "mode", writer := optStr j "writer", split := optNat j "split",
          suffixLen := (optNat j "suffix").getD 2, format := optStr j "format" }
      pure (Json.mkObj [("uri", Json.str (String.ofList (writerUri p (optStr j "fields") (optStr j "exclude"))))])
  | _ => none

end FlowRecord.Drive
