import FlowRecord.Model.Sha256
import FlowRecord.Model.Utf8
/-!
The published RecordStream wire format, typed in by hand ONCE from the format description (property C02) and never
regenerated: magic, extension type 14, sub-types, big-endian 4-byte length, reserved metadata fields in slot order,
descriptor identifier = (name, first four bytes, big endian, of SHA-256 over name ++ concat(fieldname ++ fieldtype)).
`Props/C02.lean` proves that what `harness/extract.py` reads off the current source equals these constants; a
symmetric edit of writer and reader (invisible to every round-trip test) breaks that equality.
-/
namespace FlowRecord.Spec

def magic : List UInt8 := [82, 69, 67, 79, 82, 68, 83, 84, 82, 69, 65, 77, 10]   -- "RECORDSTREAM\n"
def extType : Nat := 14
def subRecord : Nat := 1
def subDescriptor : Nat := 2
def subFieldtype : Nat := 3
def subDatetime : Nat := 16
def subVarint : Nat := 17
def subGrouped : Nat := 18
def recordVersion : Nat := 1
def reservedFields : List (String × String) :=
  [("_source", "string"), ("_classification", "string"), ("_generated", "datetime"), ("_version", "varint")]
def lengthFormat : String := ">I"
def lengthBytes : Nat := 4
/-- header frame as bytes: length 15, bin8 marker, 13, magic -/
def headerFrame : List UInt8 := [0, 0, 0, 15, 0xC4, 13] ++ magic
def hashNameFirst : Bool := true          -- name ++ (fieldname ++ fieldtype)*
def hashDigestBytes : Nat := 4
def hashBigEndian : Bool := true
/-- The published identifier rule, executable: SHA-256 over the UTF-8 text `name ++ concat(fieldname ++ fieldtype)`
    (fields as `(type, name)` pairs, in declaration order), first four digest bytes read big endian.
    `none` when the text cannot be encoded (valid names are ASCII). -/
def descriptorHash (name : List Nat) (fields : List (List Nat × List Nat)) : Option Nat :=
  (FlowRecord.Utf8.encodeSE (name ++ fields.flatMap (fun f => f.2 ++ f.1))).map FlowRecord.Sha256.hash32

def packOptions : List (String × String) := [("unicode_errors", "'surrogateescape'"), ("use_bin_type", "True")]
def unpackOptions : List (String × String) := [("raw", "False"), ("unicode_errors", "'surrogateescape'")]

end FlowRecord.Spec
