import FlowRecord.Model.Descriptor
/-!
C15: record composition. Association-list models of `merge_record_descriptors`, `extend_record`,
`iter_timestamped_records`, the `GroupedRecord` flat view, `Record._replace`, `RecordDescriptor.init_from_dict`
and `RecordFieldRewriter.record_descriptor_for_fields`. Values are opaque (`V`): composition only moves them.

A record is its descriptor (name, `(type, name)` tuples as `get_field_tuples()` returns them) and the values of its
`__slots__` in slot order (declared fields, then the reserved metadata fields).
-/
namespace FlowRecord.Compose
open FlowRecord FlowRecord.Descriptor

structure Rec (V : Type) where
  name : Str
  fields : List (Str × Str)        -- (type, name)
  slots : List (Str × V)           -- slot name ↦ value, in `__slots__` order
  deriving Repr

/-- name ↦ type pairs of a descriptor, in tuple order -/
def nameTypes (fields : List (Str × Str)) : List (Str × Str) := fields.map fun f => (f.2, f.1)

/-- the loop body of `merge_record_descriptors`: `if not replace and fname in field_map: continue;
    field_map[fname] = ftype` -/
def mergeStep (replace : Bool) (m : List (Str × Str)) (p : Str × Str) : List (Str × Str) :=
  if !replace && (keys m).contains p.1 then m else odSet m p.1 p.2

/-- `merge_record_descriptors`: the nested loops over descriptors and their field tuples; result is the
    `OrderedDict` name ↦ type. -/
def mergeMap (replace : Bool) (descs : List (List (Str × Str))) : List (Str × Str) :=
  descs.foldl (fun m fs => (nameTypes fs).foldl (mergeStep replace) m) []

/-- `zip(field_map.values(), field_map.keys())` -/
def mergeFields (replace : Bool) (descs : List (List (Str × Str))) : List (Str × Str) :=
  (mergeMap replace descs).map fun p => (p.2, p.1)

/-- `ChainMap(*maps)[k]`: the first map that has the key -/
def chainGet {V : Type} (maps : List (List (Str × V))) (k : Str) : Option V := maps.findSome? (alGet · k)

/-- slot names of the class generated for a field-tuple list: distinct declared names, then the reserved ones -/
def slotNames (fields : List (Str × Str)) : List Str := slots ⟨[], fields⟩

def versionName : Str := cps "_version"

/-- name ↦ type of every slot of the class generated for a field-tuple list -/
def slotTypes (fields : List (Str × Str)) : List (Str × Str) := allFields ⟨[], fields⟩

/-- `init_from_dict(rdict)`: keep the keys that are slots, every other slot gets its type's default
    (`dflt type`: None, `[]` for typed lists, the empty digest); the generated `__init__` always stamps
    `_version = RECORD_VERSION` (`ver`). -/
def initFromDict {V : Type} (dflt : Str → V) (ver : V) (name : Str) (fields : List (Str × Str))
    (get : Str → Option V) : Rec V :=
  ⟨name, fields, (slotTypes fields).map fun p => (p.1, if p.1 = versionName then ver else (get p.1).getD (dflt p.2))⟩

/-- `extend_record(record, other_records, replace, name)` -/
def extendRecord {V : Type} (none : Str → V) (ver : V) (replace : Bool) (name : Option Str) (r : Rec V) (others : List (Rec V)) : Rec V :=
  let recs := r :: others
  let fields := mergeFields replace (recs.map (·.fields))
  let maps := recs.map (·.slots)
  let maps := if replace then maps.reverse else maps
  initFromDict none ver (name.getD r.name) fields (chainGet maps)

/-- `descriptor.fields`: OrderedDict name ↦ type of the declared fields (a repeated name keeps its first
    position and its last type) -/
def fieldMap (fields : List (Str × Str)) : List (Str × Str) := odOfList (nameTypes fields)

def dtType : Str := cps "datetime"
def tsName : Str := cps "ts"
def tsDescName : Str := cps "ts_description"

/-- `TimestampRecord` -/
def tsFields : List (Str × Str) := [(dtType, tsName), (cps "string", tsDescName)]

/-- the variable the loop reads the timestamp from is one the loop itself re-assigns -/
def tsReadsRebound : Bool := Gen.tsLoopAssigns.contains Gen.tsValueSource
/-- the metadata keyword arguments of `TimestampRecord(...)` and whether they read a re-assigned variable -/
def tsMetaFrom (k : String) : Option String := (Gen.tsMetaKwargs.find? (·.1 == k)).map (·.2)

/-- one round of the loop of `iter_timestamped_records`: build the timestamp record, extend it with the
    (re-bound) current record. `nameVal` embeds a field name as a (string) value. -/
def tsStep {V : Type} (none : Str → V) (ver : V) (nameVal : Str → V) (original current : Rec V) (fname : Str) : Rec V :=
  let src := if tsReadsRebound then current else original
  let metaOf (k : String) : V :=
    match tsMetaFrom k with
    | some v => (alGet (if Gen.tsLoopAssigns.contains v then current else original).slots (cps k)).getD (none [])
    | Option.none => none []
  let tsRec : Rec V := ⟨cps "record/timestamp", tsFields,
    [(tsName, (alGet src.slots fname).getD (none dtType)), (tsDescName, nameVal fname),
     (cps "_source", metaOf "_source"), (cps "_classification", metaOf "_classification"),
     (cps "_generated", metaOf "_generated"), (cps "_version", ver)]⟩
  extendRecord none ver false (some original.name) tsRec
    [if Gen.tsLoopAssigns.contains Gen.tsExtendArg then current else original]

def tsLoop {V : Type} (none : Str → V) (ver : V) (nameVal : Str → V) (original : Rec V) : Rec V → List Str → List (Rec V)
  | _, [] => []
  | current, f :: fs =>
    let out := tsStep none ver nameVal original current f
    out :: tsLoop none ver nameVal original out fs

/-- `iter_timestamped_records(record)` -/
def tsExpand {V : Type} (none : Str → V) (ver : V) (nameVal : Str → V) (r : Rec V) : List (Rec V) :=
  let dt := ((fieldMap r.fields).filter (·.2 == dtType)).map (·.1)
  if dt.isEmpty then [r] else tsLoop none ver nameVal r r dt

/-- `GroupedRecord(name, records)` over the flattened member list: flat descriptor fields (declared fields of the
    members, first member wins, reserved fields left out) and `getattr` routing (first member that has the slot). -/
def groupedFields {V : Type} (members : List (Rec V)) : List (Str × Str) :=
  let m := members.foldl (fun m r =>
    ((fieldMap r.fields) ++ reservedFields).foldl (fun m p => if (keys m).contains p.1 then m else m ++ [p]) m) []
  (m.filter fun p => !reservedNames.contains p.1).map fun p => (p.2, p.1)

def groupedGet {V : Type} (members : List (Rec V)) (k : Str) : Option V := chainGet (members.map (·.slots)) k

/-- the instance attributes `GroupedRecord.__init__` sets on the group object itself (regenerated): Python finds them by
    normal lookup, before `__getattr__` is ever asked -/
def groupOwnAttrs : List Str := Gen.groupedOwnAttrs.map cps

/-- `getattr(group, k)`: the group's OWN attribute when it has one of that name (`own k`: its type name, its member
    list, ...), else the first member that has the slot -/
def groupedGetattr {V : Type} (own : Str → V) (members : List (Rec V)) (k : Str) : Option V :=
  if groupOwnAttrs.contains k then some (own k) else groupedGet members k

/-- the value `GroupedRecord._asdict()` holds for a key of the flat view: read from the record that provides the
    field (`_field_value`) when the source does so (regenerated `Gen.groupedAsdictFromProvider`), else through
    `getattr(group, k)` -/
def groupedAsdictGet {V : Type} (own : Str → V) (members : List (Rec V)) (k : Str) : Option V :=
  if Gen.groupedAsdictFromProvider then groupedGet members k else groupedGetattr own members k

/-- `Record._replace(**kwds)`: `ValueError` when a keyword is not a slot -/
def replaceRec {V : Type} (ver : V) (r : Rec V) (kvs : List (Str × V)) : Option (Rec V) :=
  if kvs.any (fun p => !(keys r.slots).contains p.1) then Option.none
  else some { r with slots := r.slots.map fun p =>
    (p.1, if p.1 = versionName then ver else (alGet kvs p.1).getD p.2) }

/-- `RecordFieldRewriter.record_descriptor_for_fields(descriptor, fields, exclude)` (no new fields) -/
def projectFields (fields exclude : List Str) (desc : List (Str × Str)) : List (Str × Str) :=
  if fields.isEmpty && exclude.isEmpty then desc
  else if !fields.isEmpty then
    fields.filterMap fun n =>
      if exclude.contains n then Option.none
      else (alGet (fieldMap desc) n).map fun t => (t, n)
  else desc.filter fun f => !exclude.contains f.2

/-- `RecordFieldRewriter.rewrite(record)` without an expression -/
def rewrite {V : Type} (none : Str → V) (ver : V) (fields exclude : List Str) (r : Rec V) : Rec V :=
  if fields.isEmpty && exclude.isEmpty then r
  else initFromDict none ver r.name (projectFields fields exclude r.fields) (alGet r.slots)

end FlowRecord.Compose
