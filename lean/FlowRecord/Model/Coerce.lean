import FlowRecord.Model.Descriptor
import FlowRecord.Gen.Adapters
/-!
C05: field-type constructors and the type-coercing record object. Transcribes, per constructor of
`flow/record/fieldtypes/__init__.py` (and `net/ip.py`, `net/ipv4.py`), the order of operations that matters
(`int.__new__` runs before the range check; `bytes` accepts only bytes; a naive datetime gets UTC; typed lists convert
element-wise and default to `[]`; digests validate hex and length), and `Record.__setattr__`, the generated
`__init__`, `_replace` and `_unpack` of `flow/record/base.py` as a state machine over `Except Err Record`.

What CPython's builtins / stdlib compute (`int(str)`, `float(x)`, `str(obj)`, `fromisoformat`, `fromtimestamp`,
`ip_address`, `urlparse`, `shlex`, pathlib) is NOT modelled: every input value carries the answers of those functions
as annotations (`Ann`). The theorems quantify over all annotations, i.e. hold whatever the library answers.
-/
namespace FlowRecord.Coerce
open FlowRecord FlowRecord.Descriptor

/-- error classes (Python exception names, as far as the model produces them itself) -/
inductive Err where
  | typeError | valueError | overflowError | attributeError | notImplementedError | unboundLocalError
  | lib (name : String)         -- raised inside a builtin / stdlib call; the class name comes with the annotation
  deriving Repr, DecidableEq

/-- a Python number as it arrives: int, bool, finite float (exact ratio), nan, ±inf -/
inductive Num where
  | int (n : Int)
  | bool (b : Bool)
  | rat (num : Int) (den : Nat)       -- float.as_integer_ratio(), den > 0
  | nan
  | inf (neg : Bool)
  deriving Repr, DecidableEq

/-- answer of a builtin / stdlib function for one input -/
inductive LibRes where
  | tok (t : Nat)                                   -- an opaque result (content observed by the harness)
  | int (n : Int)
  | str (s : Str)
  | dt (wall : List Int) (off : Option Int)         -- datetime: wall fields, utcoffset in µs (none = naive)
  | err (name : String)
  deriving Repr, DecidableEq

abbrev Ann := List (String × LibRes)

def Ann.get (a : Ann) (fn : String) : LibRes :=
  match a.find? (·.1 == fn) with
  | some p => p.2
  | none => .err "KeyError"

/-- an input value (a candidate handed to a constructor / assignment) -/
inductive Inp where
  | none (ann : Ann)
  | num (x : Num) (ann : Ann)
  | str (s : Str) (ann : Ann) (elems : List Inp)         -- `elems`: what iterating over it yields (annotated)
  | bytes (b : List Nat) (ann : Ann) (elems : List Inp)
  | dt (wall : List Int) (off : Option Int) (ann : Ann)
  | list (xs : List Inp) (ann : Ann)
  | tuple (xs : List Inp) (ann : Ann)
  | dict (keys : List Inp) (ann : Ann)
  | other (kind : String) (tok : Nat) (ann : Ann) (iter : Option (List Inp))   -- record, path object, bytearray, …
  deriving Repr

def Inp.ann : Inp → Ann
  | .none a | .num _ a | .str _ a _ | .bytes _ a _ | .dt _ _ a | .list _ a | .tuple _ a | .dict _ a | .other _ _ a _ => a

inductive IntCls where | varint | filesize | unixFileMode deriving Repr, DecidableEq
inductive UCls where | uint16 | uint32 | port deriving Repr, DecidableEq
inductive StrCls where | string | uri deriving Repr, DecidableEq
inductive ObjCls where | path | command | ipaddress | ipnetwork | ipv4Address | ipv4Subnet deriving Repr, DecidableEq

/-- base (scalar) field types of the whitelist -/
inductive BT where
  | boolean | command | dynamic | datetime | intLike (c : IntCls) | uint (c : UCls) | float | string | uri
  | stringlist | dictlist | ipv4Address | ipv4Subnet | digest | bytes | record | ipaddress | ipnetwork | path
  deriving Repr, DecidableEq

inductive FType where
  | scalar (t : BT)
  | list (t : BT)
  deriving Repr, DecidableEq

/-- a stored field value, with its class -/
inductive FVal where
  | unset
  | boolean (b : Bool)
  | int (c : IntCls) (n : Int)
  | uint (c : UCls) (n : Int) (value : Num)      -- the int and the `.value` attribute (the original argument)
  | float (tok : Nat)
  | str (c : StrCls) (s : Str)
  | bytes (b : List Nat)
  | dt (wall : List Int) (off : Int)             -- always aware
  | digest (md5 sha1 sha256 : Option Str)
  | obj (c : ObjCls) (r : LibRes)
  | typedList (t : BT) (xs : List FVal)
  | plainList (dict : Bool) (xs : List Inp)      -- stringlist / dictlist: elements are kept as they come
  | raw (x : Inp)                                -- pass-through (`record`)
  deriving Repr

/-- the whitelist names → model types -/
def btOfName (s : String) : Option BT :=
  match s with
  | "boolean" => some .boolean | "command" => some .command | "dynamic" => some .dynamic
  | "datetime" => some .datetime | "filesize" => some (.intLike .filesize) | "uint16" => some (.uint .uint16)
  | "uint32" => some (.uint .uint32) | "float" => some .float | "string" => some .string
  | "stringlist" => some .stringlist | "dictlist" => some .dictlist
  | "unix_file_mode" => some (.intLike .unixFileMode) | "varint" => some (.intLike .varint)
  | "wstring" => some .string | "net.ipv4.Address" => some .ipv4Address | "net.ipv4.Subnet" => some .ipv4Subnet
  | "net.tcp.Port" => some (.uint .port) | "net.udp.Port" => some (.uint .port) | "uri" => some .uri
  | "digest" => some .digest | "bytes" => some .bytes | "record" => some .record
  | "net.ipaddress" => some .ipaddress | "net.ipnetwork" => some .ipnetwork | "net.IPAddress" => some .ipaddress
  | "net.IPNetwork" => some .ipnetwork | "path" => some .path
  | _ => none

/-- `int.__new__(cls, x)` -/
def intNew : Inp → Except Err Int
  | .num (.int n) _ => .ok n
  | .num (.bool b) _ => .ok (if b then 1 else 0)
  | .num (.rat p q) _ => .ok (p.tdiv q)
  | .num .nan _ => .error .valueError
  | .num (.inf _) _ => .error .overflowError
  | .str _ a _ | .bytes _ a _ | .other _ _ a _ =>
    match a.get "int" with
    | .int n => .ok n
    | .err e => .error (.lib e)
    | _ => .error .typeError
  | _ => .error .typeError

/-- `value < lo or value > hi [or value != int(value)]` on the ORIGINAL argument: `ok true` = in range;
    comparing a str / bytes with an int is a TypeError -/
def inRange (x : Inp) (lo hi : Int) (rejectFractions : Bool) : Except Err Bool :=
  match x with
  | .num (.int n) _ => .ok (decide (lo ≤ n) && decide (n ≤ hi))
  | .num (.bool b) _ => let n : Int := if b then 1 else 0; .ok (decide (lo ≤ n) && decide (n ≤ hi))
  | .num (.rat p q) _ =>
    -- lo ≤ p/q ≤ hi  ⇔  lo*q ≤ p ≤ hi*q (q > 0)
    .ok (decide (lo * q ≤ p) && decide (p ≤ hi * q) && (!rejectFractions || p % q == 0))
  | .num _ _ => .ok false
  | _ => .error .typeError

def uBounds : UCls → Int × Int × Bool
  | .uint16 | .port => (Gen.uint16Min, Gen.uint16Max, Gen.uint16RejectsFractions)
  | .uint32 => (Gen.uint32Min, Gen.uint32Max, Gen.uint32RejectsFractions)

def numOf : Inp → Num
  | .num x _ => x
  | _ => .nan

/-- `bool(x)` for the inputs that reach it -/
def truthy : Inp → Bool
  | .none _ => false
  | .num (.int n) _ => n != 0
  | .num (.bool b) _ => b
  | .num (.rat p _) _ => p != 0
  | .num _ _ => true
  | .str s _ _ => !s.isEmpty
  | .bytes b _ _ => !b.isEmpty
  | .list xs _ | .tuple xs _ | .dict xs _ => !xs.isEmpty
  | .dt .. => true
  | .other .. => true

def isHexStr (s : Str) : Bool :=
  s.all fun c => (48 ≤ c && c ≤ 57) || (65 ≤ c && c ≤ 70) || (97 ≤ c && c ≤ 102)

/-- one digest setter: `None` clears; otherwise `a2b_hex(val)` must succeed (str of hex digits, even length) and give
    `n` bytes; the stored text is the argument itself -/
def digestPart (n : Nat) : Inp → Except Err (Option Str)
  | .none _ => .ok none
  | .str s _ _ =>
    if !s.all (· < 128) then .error .valueError            -- "should contain only ASCII characters"
    else if s.length % 2 != 0 || !isHexStr s then .error .typeError   -- binascii.Error → TypeError
    else if s.length != 2 * n then .error .typeError       -- "Incorrect hash length"
    else .ok (some s)
  | _ => .error .typeError

/-- assigning to ONE hash of a digest that already holds `old` (`rec.d.md5 = x`): an accepted value replaces it; a
    refused one leaves `old` in place when the setter checks before it assigns (regenerated
    `Gen.digestSetterChecksFirst`) - otherwise a value that decodes but has the wrong length is stored all the same -/
def digestAssign (n : Nat) (old : Option Str) (x : Inp) : Option Str × Option Err :=
  match digestPart n x with
  | .ok v => (v, none)
  | .error e =>
    if Gen.digestSetterChecksFirst then (old, some e)
    else match x with
      | .str s _ _ => if s.all (· < 128) && s.length % 2 == 0 && isHexStr s then (some s, some e) else (old, some e)
      | _ => (old, some e)

/-- `string.__new__`: bytes are decoded with surrogateescape, a str is kept, anything else goes through `str()` -/
def strNew : Inp → Except Err Str
  | .str s _ _ => .ok s
  | .bytes _ a _ => match a.get "decode" with | .str s => .ok s | .err e => .error (.lib e) | _ => .error .typeError
  | x => match x.ann.get "str" with | .str s => .ok s | .err e => .error (.lib e) | _ => .error .typeError

/-- datetime from what a library call answered: a naive result is given UTC -/
def dtOfLib : LibRes → Except Err FVal
  | .dt wall off => .ok (.dt wall (off.getD 0))
  | .err e => .error (.lib e)
  | _ => .error .typeError

/-- the elements `list(x)` / iteration yields; `none` = not iterable -/
def iterElems : Inp → Option (List Inp)
  | .list xs _ | .tuple xs _ | .dict xs _ => some xs
  | .str _ _ es | .bytes _ _ es => some es
  | .other _ _ _ it => it
  | _ => Option.none

def objOfLib (c : ObjCls) (fn : String) (x : Inp) : Except Err FVal :=
  match x.ann.get fn with
  | .err e => .error (.lib e)
  | r => .ok (.obj c r)

/-- the constructor of a scalar field type applied to one argument -/
def coerceBT : BT → Inp → Except Err FVal
  | .boolean, x => do
    let _ ← intNew x
    let ok ← inRange x Gen.booleanMin Gen.booleanMax Gen.booleanRejectsFractions
    if ok then pure (.boolean (truthy x)) else throw .valueError
  | .uint c, x => do
    let n ← intNew x
    let (lo, hi, fr) := uBounds c
    let ok ← inRange x lo hi fr
    if ok then pure (.uint c n (numOf x)) else throw .valueError
  | .intLike c, x => do
    let n ← intNew x
    pure (.int c n)
  | .float, x =>
    match x with
    | .num .. | .str .. | .bytes .. | .other .. =>
      (match x.ann.get "float" with
       | .tok t => .ok (.float t)
       | .err e => .error (.lib e)
       | _ => .error .typeError)
    | _ => .error .typeError
  | .string, x => do
    let s ← strNew x
    pure (.str .string s)
  | .uri, x => do
    let s ← strNew x
    match x.ann.get "urlparse" with
    | .err e => throw (.lib e)
    | _ => pure (.str .uri s)
  | .bytes, x =>
    match x with
    | .bytes b _ _ => .ok (.bytes b)
    | x => (match x.ann.get "bytes_new" with          -- `bytes.__new__(cls, value)` runs before the isinstance test
      | .err e => .error (.lib e)
      | _ => .error .typeError)
  | .datetime, x =>
    match x with
    | .bytes .. | .str .. => dtOfLib (x.ann.get "fromisoformat")
    | .num .. => dtOfLib (x.ann.get "fromtimestamp")
    | .dt wall off _ => .ok (.dt wall (off.getD 0))          -- `tzinfo = arg.tzinfo or UTC`
    | _ => .error .unboundLocalError                          -- no branch assigns `obj`
  | .digest, x =>
    match x with
    | .list [a, b, c] _ | .tuple [a, b, c] _ => do
      let m ← digestPart 16 a
      let s1 ← digestPart 20 b
      let s2 ← digestPart 32 c
      pure (.digest m s1 s2)
    | .list .. | .tuple .. => .error .valueError               -- unpacking a sequence of the wrong length
    | .dict .. => .ok (.digest none none none)                  -- `value.get(...)`: a dict without the three keys
    | _ => .ok (.digest none none none)                        -- any other argument is ignored
  | .path, x => objOfLib .path "path" x
  | .command, x =>
    match x with
    | .str .. => objOfLib .command "command" x
    | _ => .error .valueError
  | .ipaddress, x => objOfLib .ipaddress "ip_address" x
  | .ipnetwork, x => objOfLib .ipnetwork "ip_network" x
  | .ipv4Address, x =>
    match x with
    | .num (.int n) _ => .ok (.obj .ipv4Address (.int n))      -- no range check in `addr_long`
    | .num (.bool b) _ => .ok (.obj .ipv4Address (.int (if b then 1 else 0)))
    | _ => objOfLib .ipv4Address "inet_aton" x
  | .ipv4Subnet, x =>
    match x with
    | .str .. => objOfLib .ipv4Subnet "subnet" x
    | _ => .error .typeError
  | .stringlist, x =>
    match iterElems x with
    | some xs => .ok (.plainList false xs)
    | Option.none => .error .typeError
  | .dictlist, x =>
    match iterElems x with
    | some xs => .ok (.plainList true xs)
    | Option.none => .error .typeError
  | .record, x => .ok (.raw x)
  | .dynamic, x =>
    match x with
    | .bytes b _ _ => .ok (.bytes b)
    | .str s _ _ => .ok (.str .string s)
    | .num (.bool b) _ => .ok (.boolean b)
    | .num (.int n) _ => .ok (.int .varint n)
    | .dt wall off _ => .ok (.dt wall (off.getD 0))
    | .list xs _ | .tuple xs _ => .ok (.plainList false xs)
    | .other "path" _ _ _ => objOfLib .path "path" x
    | _ => .error .notImplementedError

/-- element-wise conversion of a typed list, stopping at the first element that is refused -/
def coerceElems (t : BT) : List Inp → Except Err (List FVal)
  | [] => .ok []
  | x :: xs => do
    let v ← coerceBT t x
    let vs ← coerceElems t xs
    pure (v :: vs)

/-- `field_type(v)` for a declared type -/
def coerce : FType → Inp → Except Err FVal
  | .scalar t, x => coerceBT t x
  | .list t, x =>
    if !truthy x then .ok (.typedList t [])            -- `if not values: values = []`
    else match iterElems x with
      | some xs => (coerceElems t xs).map (.typedList t)
      | Option.none => .error .typeError

/-- `field.type.default()`: `[]` for typed lists, the empty digest, otherwise None -/
def default : FType → FVal
  | .list t => .typedList t []
  | .scalar .digest => .digest none none none
  | .scalar _ => .unset

/-- is `v` an instance of the class of the scalar type `t` (the `isinstance` test of `__setattr__`) -/
def hasTypeBT : BT → FVal → Bool
  | .boolean, .boolean _ => true
  | .intLike c, .int c' _ => c == c'
  | .uint c, .uint c' _ _ => c == c'
  | .float, .float _ => true
  | .string, .str .string _ => true
  | .uri, .str .uri _ => true
  | .bytes, .bytes _ => true
  | .datetime, .dt _ _ => true
  | .digest, .digest _ _ _ => true
  | .path, .obj .path _ => true
  | .command, .obj .command _ => true
  | .ipaddress, .obj .ipaddress _ => true
  | .ipnetwork, .obj .ipnetwork _ => true
  | .ipv4Address, .obj .ipv4Address _ => true
  | .ipv4Subnet, .obj .ipv4Subnet _ => true
  | .stringlist, .plainList false _ => true
  | .dictlist, .plainList true _ => true
  | .record, _ => true                                   -- documented pass-through
  | .dynamic, v =>                                        -- any field-type instance
    (match v with | .unset => false | .raw _ => false | .typedList .. => false | _ => true)
  | _, _ => false

/-- … of the declared type `t`: a typed list is a list of that element type whose elements all are instances -/
def hasType : FType → FVal → Bool
  | .scalar t, v => hasTypeBT t v
  | .list t, .typedList t' xs => t == t' && xs.all (hasTypeBT t)
  | .list _, _ => false

/-! ### the record object -/

structure Record where
  types : List (Str × FType)        -- `_field_types`, in slot order (declared fields, then reserved fields)
  vals : List FVal                  -- one per slot
  deriving Repr

/-- a slot value is acceptable for its declared type: unset, or an instance (list elements of the element type) -/
def okVal (t : FType) (v : FVal) : Bool :=
  match v with
  | .unset => true
  | v => hasType t v

/-- slot by slot: as many values as declared slots, each acceptable -/
def slotsOk : List (Str × FType) → List FVal → Bool
  | [], [] => true
  | (_, t) :: ts, v :: vs => okVal t v && slotsOk ts vs
  | _, _ => false

/-- every slot is unset or holds a value of its declared type (list elements of the element type) -/
def wellTyped (r : Record) : Bool := slotsOk r.types r.vals

def slotIndex (r : Record) (k : Str) : Option Nat := r.types.findIdx? (·.1 == k)

/-- `Record.__setattr__(k, v)` followed by `object.__setattr__`: coercion only when `v is not None` and `k` is a
    slot; a name that is not a slot cannot be stored (`__slots__`, AttributeError) -/
def assign (r : Record) (k : Str) (v : Inp) : Except Err Record :=
  match slotIndex r k with
  | Option.none => .error .attributeError
  | some i =>
    match v with
    | .none _ => .ok { r with vals := r.vals.set i .unset }
    | v =>
      match r.types[i]? with
      | Option.none => .error .attributeError
      | some (_, t) => (coerce t v).map fun fv => { r with vals := r.vals.set i fv }

/-- one `__self.f = f if f is not None else default()` of the generated `__init__` -/
def initSlot (t : FType) (v : Inp) : Except Err FVal :=
  match v with
  | .none _ => .ok (default t)
  | v => coerce t v

def initSlots : List (Str × FType) → List Inp → Except Err (List FVal)
  | [], _ => .ok []
  | (_, t) :: ts, [] => do
    let v ← initSlot t (.none [])
    let vs ← initSlots ts []
    pure (v :: vs)
  | (_, t) :: ts, x :: xs => do
    let v ← initSlot t x
    let vs ← initSlots ts xs
    pure (v :: vs)

/-- `recordType(*args)`: too many positional arguments are a TypeError; slots are filled in order and the first
    refused value aborts the construction (no record comes into existence) -/
def construct (types : List (Str × FType)) (args : List Inp) : Except Err Record :=
  if args.length > types.length then .error .typeError
  else (initSlots types args).map fun vs => ⟨types, vs⟩

/-- `_replace(**kwds)`: a NEW record from the named inputs and the current values of the other slots (which pass the
    `isinstance` test unchanged); unknown names are a ValueError -/
def replaceSlots : List (Str × FType) → List FVal → List (Str × Inp) → Except Err (List FVal)
  | (k, t) :: ts, v :: vs, kvs => do
    let nv ← (match kvs.find? (·.1 == k) with
      | some (_, x) => initSlot t x
      | Option.none => (match v with | .unset => .ok (default t) | v => .ok v))
    let rest ← replaceSlots ts vs kvs
    pure (nv :: rest)
  | _, _, _ => .ok []

def replace (r : Record) (kvs : List (Str × Inp)) : Except Err Record := do
  let vs ← replaceSlots r.types r.vals kvs
  if kvs.any (fun p => (slotIndex r p.1).isNone) then throw .valueError
  pure ⟨r.types, vs⟩

/-- operations of a history -/
inductive Op where
  | assign (k : Str) (v : Inp)
  | replace (kvs : List (Str × Inp))
  deriving Repr

/-- one step: on an error the state is the state before (the exception leaves the object alone) -/
def step (r : Record) : Op → Record × Option Err
  | .assign k v => match assign r k v with | .ok r' => (r', Option.none) | .error e => (r, some e)
  | .replace kvs => match replace r kvs with | .ok r' => (r', Option.none) | .error e => (r, some e)

def run (r : Record) : List Op → Record
  | [] => r
  | op :: ops => run (step r op).1 ops

/-! ### serialisability -/

/-- can `str.encode('utf-8', 'surrogateescape')` encode it: every code point is a scalar value or an escape
    surrogate U+DC80..U+DCFF -/
def encodable (s : Str) : Bool := s.all fun c => c < 0xD800 || (0xDC80 ≤ c && c ≤ 0xDCFF) || (0xE000 ≤ c && c < 0x110000)

mutual
/-- every text inside a raw input is encodable -/
def inpText : Inp → Bool
  | .str s _ _ => encodable s
  | .list xs _ | .tuple xs _ | .dict xs _ => inpsText xs
  | _ => true
def inpsText : List Inp → Bool
  | [] => true
  | x :: xs => inpText x && inpsText xs
end

/-- the packer accepts the value: texts must be encodable; library objects say so themselves (their text lives in the
    token); everything else always packs -/
def packable : FVal → Bool
  | .obj .ipv4Subnet _ => false                 -- the class has no `_pack`
  | .str _ s => encodable s
  | .typedList _ xs => xs.all (fun v => match v with | .str _ s => encodable s | .obj .ipv4Subnet _ => false | _ => true)
  | .plainList _ xs => inpsText xs
  | .raw x => inpText x
  | _ => true

def serialisable (r : Record) : Bool := r.vals.all packable

end FlowRecord.Coerce
