/-!
`str.format` templates as extracted from the source: literal text and named holes (`{name}` / `{name!r}`).
-/
namespace FlowRecord

inductive Piece where
  | lit (s : String)
  | hole (name : String) (repr : Bool)
  deriving Repr, DecidableEq

end FlowRecord
