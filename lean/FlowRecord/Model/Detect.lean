import FlowRecord.Gen.Base
/-!
C11: codec / container detection. Transcribes `open_stream`, `find_adapter_for_stream`, the suffix chain of
`open_path` and the extension table of `RecordAdapter`, all driven by the tables extracted into `Gen`.
Codecs themselves (gzip, bz2, lz4, zstd) are a parameter (`CodecLaws`), never an axiom.
-/
namespace FlowRecord.Detect
open FlowRecord

abbrev Bytes := List UInt8

/-- `avail flag`: the `HAS_*` module flags; the empty flag (gzip) is always available. -/
def flagOk (avail : String → Bool) (flag : String) : Bool := flag == "" || avail flag

/-- `open_stream`: the first row whose flag is set and whose slice `peek[:n]` equals the magic. -/
def sniffCodecIn (chain : List (String × Nat × Bytes × String)) (avail : String → Bool) (peek : Bytes) : String :=
  match chain.find? (fun row => flagOk avail row.1 && (peek.take row.2.1 == row.2.2.1)) with
  | some row => row.2.2.2
  | none => "none"

def sniffCodec := sniffCodecIn Gen.openStreamChain

/-- `needle in hay` for bytes. -/
def containsBytes (needle : Bytes) : Bytes → Bool
  | [] => needle.isEmpty
  | b :: hay => needle.isPrefixOf (b :: hay) || containsBytes needle hay

/-- `find_adapter_for_stream` on the (already decompressed) peeked bytes. -/
def sniffContainerIn (chain : List (String × String × Nat × Bytes × String)) (avail : String → Bool)
    (peek : Bytes) : String :=
  match chain.find? (fun row =>
      flagOk avail row.2.1 &&
      (if row.1 == "prefix" then peek.take row.2.2.1 == row.2.2.2.1
       else containsBytes row.2.2.2.1 (peek.take row.2.2.1))) with
  | some row => row.2.2.2.2
  | none => "none"

def sniffContainer := sniffContainerIn Gen.containerChain

/-- `str.endswith`, computed from the back so that it reduces on `base ++ suffix`. -/
def endsWith (sfx s : List Char) : Bool := sfx.reverse.isPrefixOf s.reverse

/-- `open_path`: codec chosen from the file name (first matching row). -/
def pathCodecIn (chain : List (List String × String)) (path : List Char) : String :=
  match chain.find? (fun row => row.1.any (fun sfx => endsWith sfx.toList path)) with
  | some row => row.2
  | none => "none"

def pathCodec := pathCodecIn Gen.openPathChain

/-- The record-stream header frame: 4-byte big-endian length, bin8 marker, length byte, magic. -/
def streamHeader : Bytes :=
  let n := Gen.RECORDSTREAM_MAGIC.length
  [0, 0, 0, UInt8.ofNat (n + 2), 0xC4, UInt8.ofNat n] ++ Gen.RECORDSTREAM_MAGIC

/-- What the codec library is assumed to do (hypotheses of the theorems, exercised by the harness). -/
structure CodecLaws where
  compress : String → Bytes → Bytes
  decompress : String → Bytes → Option Bytes
  none_id_c : ∀ x, compress "none" x = x
  none_id_d : ∀ x, decompress "none" x = some x
  roundtrip : ∀ c x, decompress c (compress c x) = some x
  magic : ∀ row ∈ Gen.openStreamChain, ∀ x, ∃ t, compress row.2.2.2 x = row.2.2.1 ++ t

inductive Opened where
  | records (container : String) (plain : Bytes)
  | adapterNotFound
  | codecError
  deriving Repr, DecidableEq

/-- Reading a file object / stdin: sniff the codec, decompress, sniff the container. -/
def openFileObj (L : CodecLaws) (avail : String → Bool) (bs : Bytes) : Opened :=
  match L.decompress (sniffCodec avail bs) bs with
  | none => .codecError
  | some plain =>
    let k := sniffContainer avail plain
    if k == "none" then .adapterNotFound else .records k plain

/-- Reading a path whose container is given by extension/scheme (`k`): the codec comes from the suffix when
    it has one, else from the leading bytes. -/
def openPathRead (L : CodecLaws) (avail : String → Bool) (path : List Char) (bs : Bytes) : Option Bytes :=
  let c := pathCodec path
  if c == "none" then L.decompress (sniffCodec avail bs) bs else L.decompress c bs

/-- Writing to a path: compressed according to the suffix. -/
def writePath (L : CodecLaws) (path : List Char) (plain : Bytes) : Bytes := L.compress (pathCodec path) plain

end FlowRecord.Detect
