import FlowRecord.Model.Readers
import FlowRecord.Gen.Adapters
import FlowRecord.Gen.Base
/-!
C16: `rdump` as a list pipeline.

  sources --record_stream(selector)--> one record stream --islice(skip, stop)--> per record:
  override _source/_classification, RecordFieldRewriter (-F / -X), then list mode or (multi-timestamp expansion and)
  writer.write

A source is what its reader yields (the intact prefix, C04) and how its iteration ends; the reader with a selector is
C10's `filterAfter`. Values are opaque (`V`): the pipeline never computes a value, it only moves them — except the
`ts_description` text (`strVal`) and the override constants. Order of the per-record steps, the `islice` stop rule,
`record_stream`'s exception handlers and the URI tables come from `Gen` (regenerated from the source on every run).
-/
namespace FlowRecord.Rdump
open FlowRecord FlowRecord.Readers

/-! ### records -/

/-- A record: descriptor name, fields `(type, name, value)` in descriptor order, and the metadata slots. -/
structure Rec (V : Type) where
  name : String
  fields : List (String × String × V)
  source : V
  classification : V
  generated : V
  deriving Repr, DecidableEq

abbrev Desc := String × List (String × String)

def Rec.desc {V : Type} (r : Rec V) : Desc := (r.name, r.fields.map fun f => (f.1, f.2.1))
def Rec.fieldNames {V : Type} (r : Rec V) : List String := r.fields.map (·.2.1)

/-! ### record_stream -/

/-- How iterating a source can end badly. `io`: IOError/OSError (missing file, not a record stream);
    `interrupt`: KeyboardInterrupt; `other`: any other Exception (corrupt frame, a raising selector, ...). -/
inductive ErrKind where
  | io | interrupt | other
  deriving Repr, DecidableEq

/-- does `except <cls>` catch the kind? -/
def catches (cls : String) (k : ErrKind) : Bool :=
  match k with
  | .io => cls == "IOError" || cls == "OSError" || cls == "Exception" || cls == "BaseException" || cls == "*"
  | .interrupt => cls == "KeyboardInterrupt" || cls == "BaseException" || cls == "*"
  | .other => cls == "Exception" || cls == "BaseException" || cls == "*"

/-- what `record_stream` does when a source ends with `k`: the first handler that catches it
    (`next` source, `raise`, `stop`); uncaught = raise. -/
def actionIn (handlers : List (String × String)) (k : ErrKind) : String :=
  match handlers.find? (fun h => catches h.1 k) with
  | some h => h.2
  | none => "raise"

def action := actionIn Gen.recordStreamHandlers

/-- One source: what its reader yields without selector, and how the iteration ends. A missing or unreadable
    source is `⟨[], some .io⟩`, a truncated one `⟨intact prefix, some .other⟩` (or a clean end). -/
structure Source (R : Type) where
  readable : List R
  fails : Option ErrKind
  deriving Repr

/-- The reader of one source, with the selector handed down by `record_stream` (C10: equals filtering after). -/
def readSource {R : Type} (sel : Option (Matcher R ErrKind)) (s : Source R) : Run R ErrKind :=
  match sel with
  | some m => filterAfter m s.readable s.fails
  | none => ⟨s.readable, s.fails⟩

def recordStreamIn {R : Type} (handlers : List (String × String)) (sel : Option (Matcher R ErrKind)) :
    List (Source R) → Run R ErrKind
  | [] => Run.done
  | s :: rest =>
    let run := readSource sel s
    let continue_ : Run R ErrKind :=
      let k := recordStreamIn handlers sel rest
      ⟨run.out ++ k.out, k.err⟩
    match run.err with
    | none => continue_
    | some e =>
      let a := actionIn handlers e
      if a == "next" then continue_
      else if a == "stop" then ⟨run.out, none⟩
      else ⟨run.out, some e⟩

def recordStream {R : Type} := @recordStreamIn R Gen.recordStreamHandlers

/-! ### islice -/

/-- `itertools.islice(it, start, stop)` -/
def islice {α : Type} (xs : List α) (start : Nat) (stop : Option Nat) : List α :=
  match stop with
  | none => xs.drop start
  | some s => (xs.take s).drop start

/-- `islice_stop = (args.count + args.skip) if args.count else None` (extracted: None when count is falsy) -/
def sliceStop (skip : Nat) (count : Option Nat) : Option Nat :=
  match count with
  | none => none
  | some c => if Gen.rdumpStopNoneWhenCountFalsy && c == 0 then none else some (c + skip)

/-! ### per-record steps -/

structure Opts (V : Type) where
  skip : Nat := 0
  count : Option Nat := none
  fields : List String := []
  exclude : List String := []
  source : Option V := none
  classification : Option V := none
  multiTs : Bool := false
  list : Bool := false
  deriving Repr

/-- Everything that only selects *where and how* records are written; `pipeline` does not take it. -/
structure Present where
  mode : Option String := none
  writer : Option String := none
  split : Option Nat := none
  suffixLen : Nat := 2
  noCompile : Bool := false
  format : Option String := none
  deriving Repr, DecidableEq

def overrideSource {V : Type} (o : Option V) (r : Rec V) : Rec V :=
  match o with
  | some v => { r with source := v }
  | none => r

def overrideClassification {V : Type} (o : Option V) (r : Rec V) : Rec V :=
  match o with
  | some v => { r with classification := v }
  | none => r

/-- `RecordFieldRewriter.rewrite` without `-E`: `-F` lists the fields to keep *in the requested order* (unknown and
    reserved names are skipped, excluded ones too), otherwise `-X` removes fields; values and metadata are carried
    over (`init_from_dict(ChainMap(.., record._asdict()))`). -/
def project {V : Type} (fields exclude : List String) (r : Rec V) : Rec V :=
  if fields.isEmpty && exclude.isEmpty then r
  else if !fields.isEmpty then
    { r with fields := (fields.filter (fun n => !exclude.contains n)).filterMap
                          (fun n => r.fields.find? (fun f => f.2.1 == n)) }
  else { r with fields := r.fields.filter (fun f => !exclude.contains f.2.1) }

/-- One statement of rdump's loop body, by the name the translator gives it. -/
def applyStep {V : Type} (o : Opts V) (step : String) (r : Rec V) : Rec V :=
  if step == "source" then overrideSource o.source r
  else if step == "classification" then overrideClassification o.classification r
  else if step == "rewrite" then project o.fields o.exclude r
  else r

/-- The loop body up to the point where the record is emitted, in the order found in the source. -/
def perRecordIn {V : Type} (order : List String) (o : Opts V) (r : Rec V) : Rec V :=
  order.foldl (fun acc step => applyStep o step acc) r

def perRecord {V : Type} := @perRecordIn V Gen.rdumpLoopOrder

def tsField : String × String := Gen.tsRecordFields.headD ("datetime", "ts")
def tsDescField : String × String := (Gen.tsRecordFields.drop 1).headD ("string", "ts_description")

/-- `iter_timestamped_records`: one record per `datetime` field (none: the record itself), `ts`/`ts_description`
    first, then the record's own fields (a field already called `ts`/`ts_description` is shadowed); metadata is the
    original's when `keepMeta` (extracted), else that of a freshly made timestamp record (`freshMeta`). -/
def tsExpandWith {V : Type} (keepMeta : Bool) (strVal : String → V) (freshMeta : V × V × V) (r : Rec V) :
    List (Rec V) :=
  let dts := r.fields.filter (fun f => f.1 == "datetime")
  if dts.isEmpty then [r]
  else dts.map fun f =>
    { name := r.name
      fields := (tsField.1, tsField.2, f.2.2) :: (tsDescField.1, tsDescField.2, strVal f.2.1) ::
                r.fields.filter (fun g => g.2.1 != tsField.2 && g.2.1 != tsDescField.2)
      source := if keepMeta then r.source else freshMeta.1
      classification := if keepMeta then r.classification else freshMeta.2.1
      generated := if keepMeta then r.generated else freshMeta.2.2 }

def tsExpand {V : Type} := @tsExpandWith V Gen.tsExpandKeepsMetadata

def emit {V : Type} (strVal : String → V) (freshMeta : V × V × V) (o : Opts V) (r : Rec V) : List (Rec V) :=
  if o.multiTs then tsExpand strVal freshMeta r else [r]

/-- first occurrences, in order (`seen_desc`) -/
def dedup {α : Type} [DecidableEq α] : List α → List α
  | [] => []
  | x :: xs => x :: (dedup xs).filter (· ≠ x)

/-- What one run produces. -/
structure Output (V : Type) where
  written : List (Rec V)   -- handed to `record_writer.write`, in order
  listed : List Desc       -- printed by `--list`
  processed : Nat          -- `count` of the loop
  crash : Option ErrKind   -- an exception `record_stream` re-raises
  deriving Repr

def pipeline {V : Type} (strVal : String → V) (freshMeta : V × V × V) (o : Opts V)
    (sel : Option (Matcher (Rec V) ErrKind)) (srcs : List (Source (Rec V))) : Output V :=
  let stream := recordStream sel srcs
  let ys := (islice stream.out o.skip (sliceStop o.skip o.count)).map (perRecord o)
  if o.list then ⟨[], dedup (ys.map Rec.desc), ys.length, stream.err⟩
  else ⟨ys.flatMap (emit strVal freshMeta o), [], ys.length, stream.err⟩

/-- `make_selector(args.selector, not args.no_compile)` and the engine that then evaluates it (C10's normal form). -/
def rdumpSelector {R : Type} (evalI evalC : String → Matcher R ErrKind) (selector : Option String)
    (noCompile : Bool) : Option (Matcher R ErrKind) :=
  (makeSelector (match selector with | none => SelArg.absent | some t => SelArg.text t) (!noCompile)).map
    (Sel.matcher evalI evalC)

/-- One invocation: where the records go (`writerUri`, defined below, is computed from `Present` alone) and which
    records go there. -/
def run {V : Type} (strVal : String → V) (freshMeta : V × V × V)
    (evalI evalC : String → Matcher (Rec V) ErrKind) (p : Present) (selector : Option String) (o : Opts V)
    (srcs : List (Source (Rec V))) : Output V :=
  pipeline strVal freshMeta o (rdumpSelector evalI evalC selector p.noCompile) srcs

/-- The specification: concatenate the readable prefixes, keep what matches, drop SKIP, keep COUNT (0/None: all),
    then project each record. -/
def sliceSpec {α : Type} (skip : Nat) (count : Option Nat) (xs : List α) : List α :=
  match count with
  | none => xs.drop skip
  | some 0 => xs.drop skip
  | some c => (xs.drop skip).take c

/-! ### writer URI (text functions over `List Char`) -/

abbrev Str := List Char

def isUnreserved (c : Char) : Bool := c.isAlphanum || c == '_' || c == '.' || c == '-' || c == '~'

def hexDigitUpper (n : Nat) : Char := if n < 10 then Char.ofNat (48 + n) else Char.ofNat (55 + n)

/-- UTF-8 encoding of a code point -/
def utf8Bytes (n : Nat) : List Nat :=
  if n < 0x80 then [n]
  else if n < 0x800 then [0xC0 + n / 64, 0x80 + n % 64]
  else if n < 0x10000 then [0xE0 + n / 4096, 0x80 + n / 64 % 64, 0x80 + n % 64]
  else [0xF0 + n / 262144, 0x80 + n / 4096 % 64, 0x80 + n / 64 % 64, 0x80 + n % 64]

/-- `urllib.parse.quote_plus` on the UTF-8 encoding. -/
def quotePlus (s : Str) : Str :=
  s.flatMap fun c =>
    if isUnreserved c then [c]
    else if c == ' ' then ['+']
    else (utf8Bytes c.toNat).flatMap fun b => ['%', hexDigitUpper (b / 16), hexDigitUpper (b % 16)]

def joinWith (sep : Str) : List Str → Str
  | [] => []
  | [x] => x
  | x :: rest => x ++ sep ++ joinWith sep rest

/-- `urllib.parse.urlencode` of an ordered dict -/
def urlencode (kvs : List (Str × Str)) : Str :=
  joinWith ['&'] (kvs.map fun kv => quotePlus kv.1 ++ ['='] ++ quotePlus kv.2)

/-- split at the first occurrence of `sep`: (before, after) or none -/
def splitOnce (sep : Str) : Str → Option (Str × Str)
  | [] => if sep.isEmpty then some ([], []) else none
  | c :: rest =>
    if sep.isPrefixOf (c :: rest) then some ([], (c :: rest).drop sep.length)
    else (splitOnce sep rest).map fun p => (c :: p.1, p.2)

def schemeSep : Str := [':', '/', '/']

/-- `urlparse(uri)` for `scheme://rest?query#fragment` shapes: (scheme, netloc+path, query). -/
def urlparse3 (uri : Str) : Str × Str × Str :=
  let (scheme, rest) := match splitOnce schemeSep uri with
    | some p => (p.1, p.2)
    | none => ([], uri)
  let rest := match splitOnce ['#'] rest with
    | some p => p.1
    | none => rest
  match splitOnce ['?'] rest with
  | some p => (scheme, p.1, p.2)
  | none => (scheme, rest, [])

def hasQuery (uri : Str) : Bool := !(urlparse3 uri).2.2.isEmpty

def lookupStr (tbl : List (String × String)) (k : String) : Option String := (tbl.find? (·.1 == k)).map (·.2)

/-- rdump's URI for the writer before `--split`: `-w` verbatim, else the mode's URI plus the query built from
    -F / -X / -f. The append is `uri += "&" if urlparse(uri).query else "?" + query`, which Python reads as
    `"&" if … else ("?" + query)` (shape extracted). -/
def baseUri (p : Present) (fields exclude : Option String) : Str :=
  match p.writer with
  | some w => w.toList
  | none =>
    let uri : Str := ((p.mode.bind (lookupStr Gen.modeToUri)).getD Gen.rdumpDefaultUri).toList
    let vals : List (Option String) := [fields, exclude, p.format]
    let q := urlencode ((Gen.rdumpQueryKeys.zip vals).filterMap fun kv =>
      match kv.2 with
      | some v => if v.isEmpty then none else some (kv.1.toList, v.toList)
      | none => none)
    if Gen.rdumpQueryAppendShape == "separator-plus-query" then
      uri ++ (if hasQuery uri then ['&'] else ['?']) ++ q
    else uri ++ (if hasQuery uri then ['&'] else '?' :: q)

/-- `parse_qsl` on text that needs no unquoting: pairs `k=v` with non-empty value; later duplicates replace the
    value of the first occurrence (dict semantics). -/
def parseQs (q : Str) : List (Str × Str) :=
  let rec pairs (q : Str) (fuel : Nat) : List Str :=
    match fuel with
    | 0 => [q]
    | fuel + 1 =>
      match splitOnce ['&'] q with
      | some p => p.1 :: pairs p.2 fuel
      | none => [q]
  (pairs q q.length).foldl (fun acc item =>
    match splitOnce ['='] item with
    | some (k, v) =>
      if v.isEmpty then acc
      else if acc.any (·.1 == k) then acc.map (fun kv => if kv.1 == k then (k, v) else kv)
      else acc ++ [(k, v)]
    | none => acc) []

def dictUpdate (d : List (Str × Str)) (k v : Str) : List (Str × Str) :=
  if d.any (·.1 == k) then d.map (fun kv => if kv.1 == k then (k, v) else kv) else d ++ [(k, v)]

def natStr (n : Nat) : Str := (toString n).toList

/-- `--split COUNT`: wrap the URI in the split adapter and add `count` / `suffix-length` (given as text) to its
    query. -/
def splitWrapS (uri cs ls : Str) : Str :=
  let wrapped : Str :=
    if (splitOnce schemeSep uri).isSome then "split+".toList ++ uri else "split://".toList ++ uri
  let (scheme, np, query) := urlparse3 wrapped
  let keys := Gen.rdumpSplitQueryKeys
  let d := dictUpdate (dictUpdate (parseQs query) (keys.headD "count").toList cs)
              ((keys.drop 1).headD "suffix-length").toList ls
  scheme ++ schemeSep ++ np ++ ['?'] ++ urlencode d

def splitWrap (uri : Str) (count suffixLen : Nat) : Str := splitWrapS uri (natStr count) (natStr suffixLen)

/-- The value of the writer's `fields` argument: `-F` itself, preceded - when `--multi-timestamp` expands the records
    after the projection - by the two fields the expansion adds (so that the writer's own selection keeps them). -/
def writerFields (multiTs : Bool) (fields : Option String) : Option String :=
  match fields with
  | some f => if Gen.rdumpWriterFieldsKeepTs && multiTs && !f.isEmpty then some ("ts,ts_description," ++ f) else some f
  | none => none

def writerUri (p : Present) (fields exclude : Option String) : Str :=
  let uri := baseUri p fields exclude
  match p.split with
  | some n => if n == 0 then uri else splitWrap uri n p.suffixLen
  | none => uri

/-- What `RecordAdapter` does with a `split+inner://path?query` URI: (adapter, sub-adapter URL, arguments). -/
def adapterOf (uri : Str) : Str × Str × List (Str × Str) :=
  let (scheme, np, query) := urlparse3 uri
  match splitOnce ['+'] scheme with
  | some (a, sub) => (a, sub ++ schemeSep ++ np, parseQs query)
  | none => (scheme, np, parseQs query)

end FlowRecord.Rdump
