import FlowRecord.Model.Descriptor
/-!
C06: the source text `_generate_record_class` hands to `exec`. The record class template and every format string
used to fill it are the ones extracted from the source (`Gen.tplClass`, `Gen.tplInitLine`, …); this file only says
how they are put together: per slot, in slot order, with the slot NAME at every hole.

`tmplOf n kw` is the shape-only template (literal text and numbered name holes) for a class with `n` slots;
`render d` instantiates it with the slot names of `d` and applies the final `.replace("\t", "    ")`.
-/
namespace FlowRecord.Render
open FlowRecord FlowRecord.Descriptor

/-- a token of the shape-only template -/
inductive Tok where
  | lit (s : Str)
  | name (i : Nat)          -- the i-th slot name
  | reprName (i : Nat)      -- `repr()` of the i-th slot name
  | cls                     -- the class name
  deriving Repr, DecidableEq

/-- Python `repr` of a str made of name characters, newline, quote or backslash (all a validated name can hold) -/
def pyRepr (s : Str) : Str :=
  [39] ++ s.flatMap (fun c => if c = 10 then [92, 110] else if c = 92 then [92, 92] else if c = 39 then [92, 39] else [c]) ++ [39]

/-- instantiate a shape-only template -/
def inst (env : Nat → Str) (cls : Str) : List Tok → Str
  | [] => []
  | .lit s :: ts => s ++ inst env cls ts
  | .name i :: ts => env i ++ inst env cls ts
  | .reprName i :: ts => pyRepr (env i) ++ inst env cls ts
  | .cls :: ts => cls ++ inst env cls ts

/-- the `_field_{field.name}.type.default()` call (the `None` branch of the source is dead: a bound classmethod of
    a subclass never compares equal to `FieldType.default`) -/
def defaultToks (i : Nat) : List Tok :=
  Gen.tplDefaultCall.map fun p => match p with
    | .lit s => .lit (cps s)
    | .hole _ _ => .name i

/-- one per-field line: `{field}` / `{field!r}` / `{}` are the slot name, `{default}` the default call -/
def lineToks (ps : List Piece) (i : Nat) : List Tok :=
  ps.flatMap fun p => match p with
    | .lit s => [.lit (cps s)]
    | .hole "default" _ => defaultToks i
    | .hole _ r => [if r then .reprName i else .name i]

def joinToks (sep : Str) : List (List Tok) → List Tok
  | [] => []
  | [x] => x
  | x :: xs => x ++ [.lit sep] ++ joinToks sep xs

/-- the shape-only template of the class source for `n` slots; `kw` = some field name is a Python keyword -/
def tmplOf (n : Nat) (kw : Bool) : List Tok :=
  let idx := List.range n
  let args : List Tok :=
    if kw then [.lit (cps Gen.tplKwArgs)] else joinToks (cps Gen.tplArgSep) (idx.map (lineToks Gen.tplArgItem))
  let initCode : List Tok :=
    (if kw then [.lit (cps Gen.tplKwInit)] else idx.flatMap (lineToks Gen.tplInitLine)) ++ [.lit (cps Gen.tplInitTail)]
  let unpackCode : List Tok :=
    if kw then [.lit (cps Gen.tplKwUnpack)]
    else [.lit (cps Gen.tplUnpackHead)] ++ idx.flatMap (lineToks Gen.tplUnpackLine) ++ [.lit (cps Gen.tplUnpackTail)]
  let fieldTypes : List Tok :=
    [.lit (cps Gen.tplFieldTypesHead)] ++ idx.flatMap (lineToks Gen.tplFieldTypesLine) ++ [.lit (cps Gen.tplFieldTypesTail)]
  let slotsTuple : List Tok := [.lit [40]] ++ joinToks (cps ", ") (idx.map fun i => [.reprName i]) ++ [.lit [41]]
  Gen.tplClass.flatMap fun p => match p with
    | .lit s => [.lit (cps s)]
    | .hole "name" _ => [.cls]
    | .hole "field_types" _ => fieldTypes
    | .hole "slots_tuple" _ => slotsTuple
    | .hole "args" _ => args
    | .hole "init_code" _ => initCode
    | .hole "unpack_code" _ => unpackCode
    | .hole _ _ => []

/-- `code.replace("\t", "    ")` (the arguments are the extracted ones) -/
def replaceTabs (s : Str) : Str :=
  match cps Gen.tplReplaceFrom with
  | [t] => s.flatMap fun c => if c = t then cps Gen.tplReplaceTo else [c]
  | _ => s

/-- `keyword.iskeyword(fieldname)` for some declared field -/
def containsKeyword (d : Desc) : Bool := d.fields.any fun f => pyKeywords.contains f.2

/-- slot name by index (a harmless identifier beyond the end, never referenced by `tmplOf`) -/
def envOf (names : List Str) (i : Nat) : Str := names.getD i [120]

/-- the source text handed to `exec` for the definition `d` -/
def render (d : Desc) : Str :=
  let names := slots d
  replaceTabs (inst (envOf names) (className d.name) (tmplOf names.length (containsKeyword d)))

/-- marker that stands for one maximal run of identifier characters -/
def MARK : Nat := 1

/-- skeleton of a source text: every maximal run of `[A-Za-z0-9_]` collapsed into one marker; `b` = the previous
    character was an identifier character -/
def skel : Bool → Str → Str
  | _, [] => []
  | b, c :: cs =>
    if isIdentChar c then (if b then skel true cs else MARK :: skel true cs)
    else c :: skel false cs

end FlowRecord.Render
