/-!
msgpack as used by flow.record (DESIGN.md 7.1/7.2).

* `enc`  — the bytes msgpack-python's C packer emits with `use_bin_type=True` (smallest class for every value).
* `dec`  — a total decoder for *every* class the format allows (non-minimal integers and lengths, float32),
           with a three-valued result: `ok`, `incomplete` (input ended inside a value), `invalid`.
The decoder is written as a non-recursive step iterated by fuel (`dec (f+1) = decStep (dec f)`); a value of
nesting depth d needs fuel ≥ d, and `decode` supplies `length + 1`.
-/
namespace FlowRecord

abbrev Bytes := List UInt8

/-- k-byte big-endian encoding of `n` (the low k bytes). -/
def beEnc : Nat → Nat → Bytes
  | 0, _ => []
  | k + 1, n => UInt8.ofNat (n / 256 ^ k % 256) :: beEnc k n

/-- big-endian value of a byte string (`int.from_bytes(·, 'big')`). -/
def beDec (bs : Bytes) : Nat := bs.foldl (fun acc b => acc * 256 + b.toNat) 0

inductive MVal where
  | nil : MVal
  | bool : Bool → MVal
  | int : Int → MVal
  | f64 : Nat → MVal              -- IEEE-754 bit pattern, < 2^64
  | f32 : Nat → MVal              -- only produced by the decoder (the packer never emits float32)
  | str : Bytes → MVal            -- payload bytes (UTF-8 is handled one layer up)
  | bin : Bytes → MVal
  | arr : List MVal → MVal
  | map : List MVal → MVal        -- flat: key₀, value₀, key₁, value₁, …
  | ext : Nat → Bytes → MVal      -- type byte (0..255 as written), payload
  deriving Repr, BEq, Inhabited

inductive Res (α : Type) where
  | ok : α → Res α
  | incomplete : Res α
  | invalid : Res α
  deriving Repr, BEq

namespace Msgpack

def encInt (i : Int) : Bytes :=
  if 0 ≤ i then
    let n := i.toNat
    if n < 128 then [UInt8.ofNat n]
    else if n < 256 then 0xcc :: beEnc 1 n
    else if n < 65536 then 0xcd :: beEnc 2 n
    else if n < 4294967296 then 0xce :: beEnc 4 n
    else 0xcf :: beEnc 8 n
  else
    if -32 ≤ i then [UInt8.ofNat (256 + i).toNat]
    else if -128 ≤ i then 0xd0 :: beEnc 1 (256 + i).toNat
    else if -32768 ≤ i then 0xd1 :: beEnc 2 (65536 + i).toNat
    else if -2147483648 ≤ i then 0xd2 :: beEnc 4 (4294967296 + i).toNat
    else 0xd3 :: beEnc 8 (18446744073709551616 + i).toNat

def strHead (n : Nat) : Bytes :=
  if n < 32 then [UInt8.ofNat (0xa0 + n)]
  else if n < 256 then 0xd9 :: beEnc 1 n
  else if n < 65536 then 0xda :: beEnc 2 n
  else 0xdb :: beEnc 4 n

def binHead (n : Nat) : Bytes :=
  if n < 256 then 0xc4 :: beEnc 1 n
  else if n < 65536 then 0xc5 :: beEnc 2 n
  else 0xc6 :: beEnc 4 n

def arrHead (n : Nat) : Bytes :=
  if n < 16 then [UInt8.ofNat (0x90 + n)]
  else if n < 65536 then 0xdc :: beEnc 2 n
  else 0xdd :: beEnc 4 n

def mapHead (n : Nat) : Bytes :=
  if n < 16 then [UInt8.ofNat (0x80 + n)]
  else if n < 65536 then 0xde :: beEnc 2 n
  else 0xdf :: beEnc 4 n

def extHead (t n : Nat) : Bytes :=
  if n = 1 then [0xd4, UInt8.ofNat t]
  else if n = 2 then [0xd5, UInt8.ofNat t]
  else if n = 4 then [0xd6, UInt8.ofNat t]
  else if n = 8 then [0xd7, UInt8.ofNat t]
  else if n = 16 then [0xd8, UInt8.ofNat t]
  else if n < 256 then 0xc7 :: beEnc 1 n ++ [UInt8.ofNat t]
  else if n < 65536 then 0xc8 :: beEnc 2 n ++ [UInt8.ofNat t]
  else 0xc9 :: beEnc 4 n ++ [UInt8.ofNat t]

mutual
  /-- The packer's output. -/
  def enc : MVal → Bytes
    | .nil => [0xc0]
    | .bool false => [0xc2]
    | .bool true => [0xc3]
    | .int i => encInt i
    | .f64 b => 0xcb :: beEnc 8 b
    | .f32 b => 0xca :: beEnc 4 b
    | .str p => strHead p.length ++ p
    | .bin p => binHead p.length ++ p
    | .arr xs => arrHead xs.length ++ encList xs
    | .map xs => mapHead (xs.length / 2) ++ encList xs
    | .ext t p => extHead t p.length ++ p
  def encList : List MVal → Bytes
    | [] => []
    | x :: xs => enc x ++ encList xs
end

mutual
  def depth : MVal → Nat
    | .arr xs => depthList xs + 1
    | .map xs => depthList xs + 1
    | _ => 1
  def depthList : List MVal → Nat
    | [] => 0
    | x :: xs => max (depth x) (depthList xs)
end

mutual
  /-- What the packer can represent: 64-bit integer range, 32-bit lengths, even flat maps. -/
  def WF : MVal → Prop
    | .int i => -9223372036854775808 ≤ i ∧ i < 18446744073709551616
    | .f64 b => b < 18446744073709551616
    | .f32 b => b < 4294967296
    | .str p => p.length < 4294967296
    | .bin p => p.length < 4294967296
    | .arr xs => xs.length < 4294967296 ∧ WFList xs
    | .map xs => xs.length % 2 = 0 ∧ xs.length / 2 < 4294967296 ∧ WFList xs
    | .ext t p => t < 256 ∧ p.length < 4294967296
    | _ => True
  def WFList : List MVal → Prop
    | [] => True
    | x :: xs => WF x ∧ WFList xs
end

/-- Split off exactly `k` bytes. -/
def takeN (k : Nat) (bs : Bytes) : Option (Bytes × Bytes) :=
  if k ≤ bs.length then some (bs.take k, bs.drop k) else none

/-- Decode `n` consecutive values with `self`. -/
def decN (self : Bytes → Res (MVal × Bytes)) : Nat → Bytes → Res (List MVal × Bytes)
  | 0, bs => .ok ([], bs)
  | n + 1, bs =>
    match self bs with
    | .ok (x, r) =>
      match decN self n r with
      | .ok (xs, r') => .ok (x :: xs, r')
      | .incomplete => .incomplete
      | .invalid => .invalid
    | .incomplete => .incomplete
    | .invalid => .invalid

/-- read a k-byte big-endian number, then continue -/
def withNum (k : Nat) (bs : Bytes) (f : Nat → Bytes → Res (MVal × Bytes)) : Res (MVal × Bytes) :=
  match takeN k bs with
  | some (h, t) => f (beDec h) t
  | none => .incomplete

def payload (n : Nat) (bs : Bytes) (mk : Bytes → MVal) : Res (MVal × Bytes) :=
  match takeN n bs with
  | some (p, t) => .ok (mk p, t)
  | none => .incomplete

def decArr (self : Bytes → Res (MVal × Bytes)) (n : Nat) (bs : Bytes) : Res (MVal × Bytes) :=
  match decN self n bs with
  | .ok (xs, r) => .ok (.arr xs, r)
  | .incomplete => .incomplete
  | .invalid => .invalid

def decMap (self : Bytes → Res (MVal × Bytes)) (n : Nat) (bs : Bytes) : Res (MVal × Bytes) :=
  match decN self (2 * n) bs with
  | .ok (xs, r) => .ok (.map xs, r)
  | .incomplete => .incomplete
  | .invalid => .invalid

def decExt (n : Nat) (bs : Bytes) : Res (MVal × Bytes) :=
  match bs with
  | [] => .incomplete
  | t :: rest => payload n rest (MVal.ext t.toNat)

def signed (k : Nat) (n : Nat) : Int :=
  if n < 256 ^ k / 2 then (n : Int) else (n : Int) - (256 ^ k : Nat)

def decStep (self : Bytes → Res (MVal × Bytes)) : Bytes → Res (MVal × Bytes)
  | [] => .incomplete
  | b :: rest =>
    let n := b.toNat
    if n < 0x80 then .ok (.int n, rest)
    else if n < 0x90 then decMap self (n - 0x80) rest
    else if n < 0xa0 then decArr self (n - 0x90) rest
    else if n < 0xc0 then payload (n - 0xa0) rest .str
    else if n = 0xc0 then .ok (.nil, rest)
    else if n = 0xc1 then .invalid
    else if n = 0xc2 then .ok (.bool false, rest)
    else if n = 0xc3 then .ok (.bool true, rest)
    else if n = 0xc4 then withNum 1 rest fun l r => payload l r .bin
    else if n = 0xc5 then withNum 2 rest fun l r => payload l r .bin
    else if n = 0xc6 then withNum 4 rest fun l r => payload l r .bin
    else if n = 0xc7 then withNum 1 rest fun l r => decExt l r
    else if n = 0xc8 then withNum 2 rest fun l r => decExt l r
    else if n = 0xc9 then withNum 4 rest fun l r => decExt l r
    else if n = 0xca then withNum 4 rest fun v r => .ok (.f32 v, r)
    else if n = 0xcb then withNum 8 rest fun v r => .ok (.f64 v, r)
    else if n = 0xcc then withNum 1 rest fun v r => .ok (.int v, r)
    else if n = 0xcd then withNum 2 rest fun v r => .ok (.int v, r)
    else if n = 0xce then withNum 4 rest fun v r => .ok (.int v, r)
    else if n = 0xcf then withNum 8 rest fun v r => .ok (.int v, r)
    else if n = 0xd0 then withNum 1 rest fun v r => .ok (.int (signed 1 v), r)
    else if n = 0xd1 then withNum 2 rest fun v r => .ok (.int (signed 2 v), r)
    else if n = 0xd2 then withNum 4 rest fun v r => .ok (.int (signed 4 v), r)
    else if n = 0xd3 then withNum 8 rest fun v r => .ok (.int (signed 8 v), r)
    else if n = 0xd4 then decExt 1 rest
    else if n = 0xd5 then decExt 2 rest
    else if n = 0xd6 then decExt 4 rest
    else if n = 0xd7 then decExt 8 rest
    else if n = 0xd8 then decExt 16 rest
    else if n = 0xd9 then withNum 1 rest fun l r => payload l r .str
    else if n = 0xda then withNum 2 rest fun l r => payload l r .str
    else if n = 0xdb then withNum 4 rest fun l r => payload l r .str
    else if n = 0xdc then withNum 2 rest fun l r => decArr self l r
    else if n = 0xdd then withNum 4 rest fun l r => decArr self l r
    else if n = 0xde then withNum 2 rest fun l r => decMap self l r
    else if n = 0xdf then withNum 4 rest fun l r => decMap self l r
    else .ok (.int ((n : Int) - 256), rest)

def dec : Nat → Bytes → Res (MVal × Bytes)
  | 0 => fun _ => .invalid
  | f + 1 => decStep (dec f)

/-- One complete document (what `unpackb` accepts): a value and nothing after it. -/
def decode (bs : Bytes) : Res MVal :=
  match dec (bs.length + 1) bs with
  | .ok (v, []) => .ok v
  | .ok (_, _ :: _) => .invalid      -- msgpack.ExtraData
  | .incomplete => .incomplete
  | .invalid => .invalid

end Msgpack
end FlowRecord
