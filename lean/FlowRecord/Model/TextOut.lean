import FlowRecord.Model.Csv
import FlowRecord.Gen.Base
/-!
C20 (line and text writers): block rendering of `LineWriter`, `Record.__repr__`, and the fragment of Python's
`str.format_map` that `TextWriter` relies on (`{{`, `}}`, `{name}`; `DefaultMissing` keeps unknown placeholders).
The text of every value (`format(value, "")`, `repr(value)`) is an input: per-type `str`/`repr` are CPython's and
the field types' own and are exercised by the harness, not modelled.
Format strings, separators and the replacement table come from `Gen.TextOut` (extracted from the source).
-/
namespace FlowRecord.TextOut
open FlowRecord.Csv (Ch Name Cell Rec Sel asdict ofString replaceAll)

def SPACE : Ch := 32
def LBRACE : Ch := 123
def RBRACE : Ch := 125

/-- `str(n)` for a natural number -/
def natText (n : Nat) : List Ch := ofString (toString n)

/-- `"{:>w}".format(s)` -/
def padLeft (w : Nat) (s : List Ch) : List Ch := List.replicate (w - s.length) SPACE ++ s

/-! ## line writer -/

/-- field name -> type name over declared and reserved fields (`field_types_for_record_descriptor`) -/
def typeOf (r : Rec) (k : Name) : List Ch :=
  match r.descFields.find? (fun p => p.2 == k) with
  | some p => p.1
  | none =>
    match Gen.RESERVED_FIELDS.find? (fun p => ofString p.1 == k) with
    | some p => ofString p.2
    | none => []

def keyText (verbose : Bool) (r : Rec) (k : Name) : List Ch :=
  if verbose then k ++ ofString Gen.lineVerboseOpen ++ typeOf r k ++ ofString Gen.lineVerboseClose else k

def maxList : List Nat → Nat
  | [] => 0
  | x :: xs => max x (maxList xs)

def width (verbose : Bool) (r : Rec) (rdict : List (Name × Cell)) : Nat :=
  if verbose then maxList (rdict.map fun p => (p.1 ++ typeOf r p.1).length) + Gen.lineVerboseWidthExtra
  else maxList (rdict.map fun p => p.1.length)

def lineHeader (count : Nat) : List Ch :=
  ofString Gen.lineHeaderPrefix ++ natText count ++ ofString Gen.lineHeaderSuffix

def lineEntry (w : Nat) (key : List Ch) (value : Cell) : List Ch :=
  padLeft w key ++ ofString Gen.lineEntrySep ++ value ++ ofString Gen.lineEntryEnd

/-- one block: the numbered header, then one entry per selected field in `_asdict` order -/
def lineBlock (sel : Sel) (verbose : Bool) (count : Nat) (r : Rec) : List Ch :=
  let rdict := asdict sel.fields sel.exclude r.slots
  let w := width verbose r rdict
  lineHeader count ++ rdict.flatMap (fun p => lineEntry w (keyText verbose r p.1) p.2)

/-- `LineWriter.write` iterated; the first argument is `self.count` before the call -/
def lineOut (sel : Sel) (verbose : Bool) : Nat → List Rec → List Ch
  | _, [] => []
  | n, r :: rs => lineBlock sel verbose (n + 1) r ++ lineOut sel verbose (n + 1) rs

/-! ## `Record.__repr__` -/

/-- fill the `{}` / `{!r}` placeholders of a positional format string with the given texts in order -/
def fillPositional : List Ch → Bool → List (List Ch) → List Ch
  | [], _, _ => []
  | c :: cs, true, args => if c = RBRACE then fillPositional cs false args else fillPositional cs true args
  | c :: cs, false, args =>
    if c = LBRACE then
      match args with
      | a :: rest => a ++ fillPositional cs true rest
      | [] => fillPositional cs true []
    else c :: fillPositional cs false args

def joinWith (sep : List Ch) : List (List Ch) → List Ch
  | [] => []
  | [x] => x
  | x :: y :: rest => x ++ sep ++ joinWith sep (y :: rest)

/-- `repr(record)`: `items` = (declared field name, `repr(value)`) in declaration order -/
def reprRecord (name : Name) (items : List (Name × Cell)) : List Ch :=
  fillPositional (ofString Gen.reprOuterFormat) false
    [name, joinWith (ofString Gen.reprSeparator)
      (items.map fun p => fillPositional (ofString Gen.reprItemFormat) false [p.1, p.2])]

/-! ## `str.format_map(DefaultMissing(...))` -/

inductive FErr where
  | valueError      -- malformed template, positional field
  | unmodelled      -- conversions, format specs, attribute/index access, nested braces
  deriving DecidableEq, Repr

inductive FMode where
  | text | afterOpen | name | afterClose
  deriving DecidableEq, Repr

structure FSt where
  mode : FMode
  name : List Ch        -- reversed
  out : List Ch         -- reversed
  err : Option FErr
  deriving DecidableEq, Repr

def isDigit (c : Ch) : Bool := 48 ≤ c && c ≤ 57

/-- characters that start a conversion (`!`), a spec (`:`), an attribute (`.`) or an index (`[`) inside `{...}` -/
def isSpecial (c : Ch) : Bool := c == 33 || c == 58 || c == 46 || c == 91

/-- `DefaultMissing.__missing__`: `key.join("{}")` -/
def missingText (k : Name) : List Ch :=
  match ofString Gen.textMissingWrap with
  | [a, b] => a :: (k ++ [b])
  | w => w

def expandName (lk : Name → Option Cell) (n : Name) : List Ch :=
  match lk n with
  | some v => v
  | none => missingText n

def closeName (lk : Name → Option Cell) (s : FSt) : FSt :=
  let n := s.name.reverse
  if n = [] || n.all isDigit then { s with err := some .valueError }
  else { s with mode := .text, name := [], out := (expandName lk n).reverse ++ s.out }

def inName (lk : Name → Option Cell) (s : FSt) (c : Ch) : FSt :=
  if c = RBRACE then closeName lk s
  else if c = LBRACE then { s with err := some .valueError }   -- "unexpected '{' in field name"
  else if isSpecial c then { s with err := some .unmodelled }
  else { s with mode := .name, name := c :: s.name }

def fstep (lk : Name → Option Cell) (s : FSt) (c : Ch) : FSt :=
  if s.err.isSome then s else
  match s.mode with
  | .text =>
    if c = LBRACE then { s with mode := .afterOpen }
    else if c = RBRACE then { s with mode := .afterClose }
    else { s with out := c :: s.out }
  | .afterOpen => if c = LBRACE then { s with mode := .text, out := LBRACE :: s.out } else inName lk s c
  | .name => inName lk s c
  | .afterClose =>
    if c = RBRACE then { s with mode := .text, out := RBRACE :: s.out } else { s with err := some .valueError }

def fstart : FSt := ⟨.text, [], [], none⟩

def frun (lk : Name → Option Cell) (s : FSt) (t : List Ch) : FSt := t.foldl (fstep lk) s

/-- `template.format_map(DefaultMissing(d))` where `lk k` is `format(d[k], "")` -/
def formatMap (lk : Name → Option Cell) (template : List Ch) : Except FErr (List Ch) :=
  let s := frun lk fstart template
  match s.err with
  | some e => .error e
  | none => if s.mode = .text then .ok s.out.reverse else .error .valueError

/-- a template as a sequence of pieces, and its canonical text (braces of literal text doubled) -/
inductive Piece where
  | lit (s : List Ch)
  | field (n : Name)
  deriving DecidableEq, Repr

def escapeLit : List Ch → List Ch
  | [] => []
  | c :: cs => if c = LBRACE then LBRACE :: LBRACE :: escapeLit cs
               else if c = RBRACE then RBRACE :: RBRACE :: escapeLit cs else c :: escapeLit cs

def unparse : List Piece → List Ch
  | [] => []
  | .lit s :: ps => escapeLit s ++ unparse ps
  | .field n :: ps => LBRACE :: (n ++ RBRACE :: unparse ps)

def expand (lk : Name → Option Cell) : Piece → List Ch
  | .lit s => s
  | .field n => expandName lk n

/-- `TextWriter.__init__`: the escape replacements applied to `format_spec` -/
def templateOf (spec : List Ch) : List Ch :=
  Gen.textReplaceList.foldl (fun acc p => replaceAll (ofString p.1) (ofString p.2) acc) spec

/-- one record through `TextWriter.write`: the template if one is set (non-empty), else `repr`; then `\n` -/
def textRecord (spec : Option (List Ch)) (lk : Name → Option Cell) (reprText : List Ch) : Except FErr (List Ch) :=
  match spec with
  | some (c :: cs) => (formatMap lk (templateOf (c :: cs))).map (· ++ [10])
  | _ => .ok (reprText ++ [10])

end FlowRecord.TextOut
