import FlowRecord.Gen.Base
import FlowRecord.Gen.Adapters
import FlowRecord.Gen.TextOut
/-!
C19: the Avro adapter. `descriptor_to_schema`, `schema_to_descriptor` (doc sniff + schema-derived fallback),
`avro_type_to_flow_type`, the one-descriptor-per-file writer, value admissibility per Avro type, reader conversion.
Tables (`AVRO_TYPE_MAP`, `RECORD_TYPE_MAP`, reserved fields, the sniffed prefix/suffix, the logical field type, the
reader's threshold) come from `Gen`. fastavro's byte encoder/decoder is not modelled: a written value is a *token*;
what fastavro is assumed to do with tokens is the hypothesis `AvroLaws` of the theorems (exercised by the harness).
JSON text of `doc` is modelled by its concrete shape around an abstract string quoting (`JsonTextLaws`).
-/
namespace FlowRecord.Avro

abbrev Text := List Char

structure Desc where
  name : String
  fields : List (String × String)      -- (type name, field name), as `RecordDescriptor._pack()` lists them
  deriving DecidableEq, Repr

def assoc (tbl : List (String × String)) (k : String) : Option String := (tbl.find? (·.1 == k)).map (·.2)

/-- the type of one schema field as the writer emits it -/
inductive AType where
  | prim (t : String)      -- `[t, "null"]`
  | tsMicros               -- `[{"type": "long", "logicalType": "timestamp-micros"}, {"type": "null"}]`
  deriving DecidableEq, Repr

structure Schema where
  ns : Option Text         -- "namespace"; absent once fastavro has normalised the schema
  name : Text
  doc : Option Text
  fields : List (String × AType)
  deriving DecidableEq, Repr

/-! ## text helpers -/

def startsWith (p s : Text) : Bool := p.isPrefixOf s
def endsWith (sfx s : Text) : Bool := sfx.reverse.isPrefixOf s.reverse

/-- `s.rpartition(sep)` as (head, tail); no separator: ("", s) -/
def rpartition (sep : Char) (s : Text) : Text × Text :=
  let r := s.reverse
  match r.dropWhile (· != sep) with
  | [] => ([], s)
  | _ :: before => (before.reverse, (r.takeWhile (· != sep)).reverse)

def replaceChar (a b : Char) (s : Text) : Text := s.map (fun c => if c = a then b else c)
def stripChar (a : Char) (s : Text) : Text := ((s.dropWhile (· == a)).reverse.dropWhile (· == a)).reverse

def joinWith (sep : Text) : List Text → Text
  | [] => []
  | [x] => x
  | x :: y :: rest => x ++ sep ++ joinWith sep (y :: rest)

/-- what the JSON library does to a string is abstract: `quote s` is its JSON text; the list/nesting syntax of
    `json.dumps` (separators `", "`) is concrete; `loads` inverts `dumps` (the hypothesis). -/
structure JsonTextLaws where
  esc : String → Text
  loads : Text → Option Desc
  dumpsShape : Unit := ()

def quote (J : JsonTextLaws) (s : String) : Text := '"' :: (J.esc s ++ ['"'])

/-- `json.dumps(desc._pack())` = `["name", [["type", "fname"], ...]]` -/
def dumps (J : JsonTextLaws) (d : Desc) : Text :=
  '[' :: (quote J d.name ++ [',', ' ', '['] ++
    joinWith [',', ' '] (d.fields.map fun f => '[' :: (quote J f.1 ++ [',', ' '] ++ quote J f.2 ++ [']'])) ++ [']', ']'])

def JsonTextLaws.Inverse (J : JsonTextLaws) : Prop := ∀ d : Desc, J.loads (dumps J d) = some d

/-! ## descriptor -> schema -/

inductive Err where
  | unsupportedType (t : String)     -- "Unsupported Avro type"
  | mixed                            -- "Mixed record types"
  | noWriter                         -- AttributeError: the writer was never created
  | refused (field : Nat)            -- fastavro refuses the value of this column (ValueError / UnicodeEncodeError ...)
  | typeError                        -- avro_type_to_flow_type: can't map
  | badDoc                           -- json.loads failed / wrong shape
  deriving DecidableEq, Repr

/-- all fields the schema lists: declared ones, then the reserved ones (`get_all_fields`) -/
def allFields (d : Desc) : List (String × String) :=
  d.fields ++ Gen.RESERVED_FIELDS.map (fun p => (p.2, p.1))

def fieldSchema (t : String) : Except Err AType :=
  if t = Gen.avroLogicalFieldType then .ok .tsMicros
  else match assoc Gen.AVRO_TYPE_MAP t with
    | some a => if a = "" then .error (.unsupportedType t) else .ok (.prim a)
    | none => .error (.unsupportedType t)

def fieldsSchema : List (String × String) → Except Err (List (String × AType))
  | [] => .ok []
  | (t, n) :: rest =>
    match fieldSchema t with
    | .error e => .error e
    | .ok a =>
      match fieldsSchema rest with
      | .error e => .error e
      | .ok l => .ok ((n, a) :: l)

def descriptorToSchema (J : JsonTextLaws) (d : Desc) : Except Err Schema :=
  let p := rpartition '/' d.name.toList
  match fieldsSchema (allFields d) with
  | .error e => .error e
  | .ok fs => .ok { ns := some p.1, name := p.2, doc := some (dumps J d), fields := fs }

/-- what `fastavro.parse_schema` + the container header keep: the full name, no namespace -/
def fastavroNorm (s : Schema) : Schema :=
  match s.ns with
  | some (c :: cs) => { s with ns := none, name := (c :: cs) ++ '.' :: s.name }
  | _ => { s with ns := none }

/-! ## schema -> descriptor -/

/-- a field type as JSON: a name, an object (`type`, `logicalType`), an array object, or a union list -/
inductive JType where
  | name (s : String)
  | obj (type : String) (logical : Option String)
  | array (items : JType)
  | union (ts : List JType)
  deriving Repr

def AType.toJ : AType → JType
  | .prim t => .union [.name t, .name "null"]
  | .tsMicros => .union [.obj "long" (some "timestamp-micros"), .obj "null" none]

def isInfix (p : Text) : Text → Bool
  | [] => p.isEmpty
  | c :: cs => p.isPrefixOf (c :: cs) || isInfix p cs

def logicalIsTime (l : Option String) : Bool :=
  match l with
  | some s => s != "" && (isInfix "time".toList s.toList || isInfix "date".toList s.toList)
  | none => false

mutual
/-- `avro_type_to_flow_type`: a non-list is treated as a one-element list -/
def avroTypeToFlowType : JType → Except Err String
  | .union ts => firstMapped ts
  | .array items =>                        -- the one-element loop `[ftype]`, case by case
    match avroTypeToFlowType items with
    | .ok s => .ok (s ++ "[]")
    | .error e => .error e
  | .obj _ l => if logicalIsTime l then .ok "datetime" else .error .typeError
  | .name s =>
    if s = "null" then .error .typeError
    else match assoc Gen.RECORD_TYPE_MAP s with
      | some ft => .ok ft
      | none => .error .typeError
/-- the `for t in ftypes` loop -/
def firstMapped : List JType → Except Err String
  | [] => .error .typeError
  | .array items :: _ =>
    match avroTypeToFlowType items with
    | .ok s => .ok (s ++ "[]")
    | .error e => .error e
  | .obj _ l :: _ => if logicalIsTime l then .ok "datetime" else .error .typeError   -- `t in RECORD_TYPE_MAP`: unhashable dict
  | .union _ :: _ => .error .typeError                                                 -- a list inside the list: unhashable
  | .name s :: rest =>
    if s = "null" then firstMapped rest
    else match assoc Gen.RECORD_TYPE_MAP s with
      | some ft => .ok ft
      | none => firstMapped rest
end

def fallbackName (s : Schema) : Text :=
  stripChar '/' (replaceChar '.' '/' ((s.ns.getD []) ++ '/' :: s.name))

def fallbackFields : List (String × AType) → Except Err (List (String × String))
  | [] => .ok []
  | (n, a) :: rest =>
    if n.toList.head? = some '_' then fallbackFields rest
    else match avroTypeToFlowType a.toJ with
      | .error e => .error e
      | .ok ft =>
        match fallbackFields rest with
        | .error e => .error e
        | .ok l => .ok ((ft, n) :: l)

/-- "Sketchy record descriptor detection" -/
def docSniff (doc : Text) : Bool :=
  !doc.isEmpty && startsWith Gen.avroDocPrefix.toList doc && endsWith Gen.avroDocSuffix.toList doc

def schemaToDescriptor (J : JsonTextLaws) (s : Schema) : Except Err Desc :=
  match s.doc with
  | some doc =>
    if docSniff doc then
      match J.loads doc with
      | some d => .ok d
      | none => .error .badDoc
    else
      match fallbackFields s.fields with
      | .error e => .error e
      | .ok fs => .ok ⟨String.ofList (fallbackName s), fs⟩
  | none =>
    match fallbackFields s.fields with
    | .error e => .error e
    | .ok fs => .ok ⟨String.ofList (fallbackName s), fs⟩

/-! ## values -/

/-- a packed field value as `_packdict` hands it to fastavro -/
inductive Val where
  | null
  | bool (b : Bool)
  | int (i : Int)
  | float (bits : UInt64)
  | str (cps : List Nat)
  | bytes (b : List UInt8)
  | dt (micros : Int)          -- an aware datetime, as microseconds since the epoch
  | tuple                      -- `digest._pack()`: a 3-tuple, which no Avro branch accepts
  | junk                       -- not a value: a union index left in the block by a write that failed after emitting it
  deriving DecidableEq, Repr

def isSurrogate (c : Nat) : Bool := 0xD800 ≤ c && c ≤ 0xDFFF

/-- which values fastavro writes under `[t, "null"]` -/
def admissible : AType → Val → Bool
  | _, .null => true
  | .prim "boolean", .bool _ => true
  | .prim "int", .int i => decide (-2147483648 ≤ i) && decide (i ≤ 2147483647)
  | .prim "long", .int i => decide (-9223372036854775808 ≤ i) && decide (i ≤ 9223372036854775807)
  | .prim "float", .float _ => true
  | .prim "string", .str s => !s.any isSurrogate
  | .prim "bytes", .bytes _ => true
  | .tsMicros, .dt m => decide (-9223372036854775808 ≤ m) && decide (m ≤ 9223372036854775807)
  | _, _ => false

/-- single-precision rounding is opaque -/
structure FloatLaws where
  toSingle : UInt64 → UInt64

/-- the value a standard reader gets back for an admissible value -/
def stored (F : FloatLaws) : Val → Val
  | .float b => .float (F.toSingle b)
  | v => v

/-- What fastavro's encoder/validator is assumed to do (the hypothesis of the value theorems; exercised against the
    real library by the harness): which packed values it writes under a `[t, "null"]` union — everything else
    raises — and that a token it wrote decodes, in the same column position, to the stored value. -/
structure AvroLaws where
  accepts : AType → Val → Bool
  null_ok : ∀ t, accepts t .null = true
  bool_ok : ∀ b, accepts (.prim "boolean") (.bool b) = true
  int32 : ∀ i, accepts (.prim "int") (.int i) = (decide (-2147483648 ≤ i) && decide (i ≤ 2147483647))
  int64 : ∀ i, accepts (.prim "long") (.int i) = (decide (-9223372036854775808 ≤ i) && decide (i ≤ 9223372036854775807))
  ts64 : ∀ m, accepts .tsMicros (.dt m) = (decide (-9223372036854775808 ≤ m) && decide (m ≤ 9223372036854775807))
  float_ok : ∀ b, accepts (.prim "float") (.float b) = true
  string_utf8 : ∀ s, accepts (.prim "string") (.str s) = !s.any isSurrogate
  bytes_ok : ∀ b, accepts (.prim "bytes") (.bytes b) = true
  tuple_never : ∀ t, accepts t .tuple = false
  junk_never : ∀ t, accepts t .junk = false
  /-- the value selects a union branch (so the branch index is emitted) but its encoding then raises -/
  leavesIndex : AType → Val → Bool
  leaves_string : ∀ s, leavesIndex (.prim "string") (.str s) = s.any isSurrogate
  leaves_refused : ∀ t v, leavesIndex t v = true → accepts t v = false
  stored_ok : ∀ (F : FloatLaws) t v, accepts t v = true → accepts t (stored F v) = true

/-- the concrete instance the driver runs: `admissible` -/
def fastavro : AvroLaws where
  accepts := admissible
  null_ok := by intro t; cases t <;> rfl
  bool_ok := by intro b; rfl
  int32 := by intro i; rfl
  int64 := by intro i; rfl
  ts64 := by intro m; rfl
  float_ok := by intro b; rfl
  string_utf8 := by intro s; rfl
  bytes_ok := by intro b; rfl
  tuple_never := by
    intro t
    unfold admissible
    split <;> simp_all
  junk_never := by
    intro t
    unfold admissible
    split <;> simp_all
  leavesIndex := fun t v =>
    match t, v with
    | .prim "string", .str s => s.any isSurrogate
    | _, _ => false
  leaves_string := by intro s; rfl
  leaves_refused := by
    intro t v h
    split at h
    · simp [admissible, h]
    · cases h
  stored_ok := by
    intro F t v h
    cases v <;> simp_all [stored]
    unfold admissible at h ⊢
    split at h <;> simp_all

/-! ## writer -/

structure Rec where
  desc : Desc
  values : List Val          -- one per `allFields desc`, in order
  deriving DecidableEq, Repr

/-- `AvroWriter` + the block buffer of `fastavro.write.Writer`: tokens are appended field by field; a value fastavro
    refuses raises *after* the record's earlier fields were appended, and the record count is not incremented. -/
structure WState where
  desc : Option Desc
  cols : Option (List (String × AType))     -- `self.writer` exists iff `some`
  buf : List Val
  count : Nat
  deriving DecidableEq, Repr

def WState.init : WState := ⟨none, none, [], 0⟩

/-- append the record's tokens up to the first refused one (plus the dangling union index if the refusal came after
    the branch was chosen) -/
def emitRow (L : AvroLaws) (F : FloatLaws) : List (String × AType) → List Val → Nat → List Val × Option Nat
  | (_, t) :: cols, v :: vs, i =>
    if L.accepts t v then
      let r := emitRow L F cols vs (i + 1)
      (stored F v :: r.1, r.2)
    else if L.leavesIndex t v then ([.junk], some i)
    else ([], some i)
  | [], [], _ => ([], none)
  | _, _, i => ([], some i)           -- a record whose value list does not fit its descriptor is refused

/-- `AvroWriter.write`. Returns the new state and the exception raised, if any. -/
def write (J : JsonTextLaws) (L : AvroLaws) (F : FloatLaws) (st : WState) (r : Rec) : WState × Option Err :=
  -- `if not self.desc:` (the descriptor is stored before the schema is built)
  let st1 : WState × Option Err :=
    match st.desc with
    | some _ => (st, none)
    | none =>
      match descriptorToSchema J r.desc with
      | .error e => ({ st with desc := some r.desc }, some e)
      | .ok s => ({ st with desc := some r.desc, cols := some s.fields }, none)
  match st1 with
  | (s1, some e) => (s1, some e)
  | (s1, none) =>
    if s1.desc ≠ some r.desc then (s1, some .mixed)
    else match s1.cols with
      | none => (s1, some .noWriter)
      | some cols =>
        match emitRow L F cols r.values 0 with
        | (toks, none) => ({ s1 with buf := s1.buf ++ toks, count := s1.count + 1 }, none)
        | (toks, some i) => ({ s1 with buf := s1.buf ++ toks }, some (.refused i))

/-- writes in sequence, the caller catching each exception and carrying on -/
def writeAll (J : JsonTextLaws) (L : AvroLaws) (F : FloatLaws) : WState → List Rec → WState × List (Option Err)
  | st, [] => (st, [])
  | st, r :: rs =>
    let (st', e) := write J L F st r
    let (st'', es) := writeAll J L F st' rs
    (st'', e :: es)

/-- the records a caller considers written: those whose `write` did not raise -/
def accepted (F : FloatLaws) : List Rec → List (Option Err) → List (List Val)
  | r :: rs, none :: es => r.values.map (stored F) :: accepted F rs es
  | _ :: rs, some _ :: es => accepted F rs es
  | _, _ => []

/-! ## reading the container back -/

/-- positional decoding of `count` records from the block: a token decodes under a column iff that column's
    union would have written it (`AvroLaws`: same bytes, same branch) -/
def takeRow (L : AvroLaws) : List (String × AType) → List Val → Option (List Val × List Val)
  | [], buf => some ([], buf)
  | (_, t) :: cols, v :: buf =>
    if L.accepts t v then
      match takeRow L cols buf with
      | some (row, rest) => some (v :: row, rest)
      | none => none
    else none
  | _ :: _, [] => none

def takeRows (L : AvroLaws) (cols : List (String × AType)) : Nat → List Val → Option (List (List Val))
  | 0, _ => some []
  | n + 1, buf =>
    match takeRow L cols buf with
    | some (row, rest) =>
      match takeRows L cols n rest with
      | some rows => some (row :: rows)
      | none => none
    | none => none

/-- what a standard reader sees after `close()` -/
def fileRows (L : AvroLaws) (st : WState) : Option (List (List Val)) :=
  match st.cols with
  | some cols => takeRows L cols st.count st.buf
  | none => some []                      -- the "empty" container `flush()` creates

/-- `AvroReader.__iter__`: a datetime field holding a number above the threshold is taken for raw microseconds;
    datetimes (what fastavro delivers for `timestamp-micros`) pass through. -/
def readerConv (isDatetimeField : Bool) (v : Val) : Val :=
  match v with
  | .int i => if isDatetimeField && decide (i > Gen.avroReaderTsThreshold) then .dt i else .int i
  | v => v

end FlowRecord.Avro
