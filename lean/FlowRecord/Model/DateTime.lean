import FlowRecord.Gen.Wire
import FlowRecord.Gen.Adapters
/-!
C13: timestamps. A datetime is its wall-clock fields plus what its `tzinfo` says about *this* wall time.
All offsets and instants are integers of microseconds. Text is a list of code points.

Transcribed from: `fieldtypes.datetime.__new__` (`construct`), CPython's `datetime.isoformat()` (`toIso`) and
`datetime.fromisoformat()` restricted to the language `isoformat()` prints (`parseIso`), `RecordPacker.pack_obj` /
`unpack_obj` (`packDt`/`unpackDt`), `JsonRecordPacker.pack_obj` and `sqlite.db_insert_record` (ISO text), fastavro's
`timestamp-micros` (`toMicros`/`fromMicros`), over a concrete proleptic-Gregorian day number.
`zoneinfo` is not modelled: a zone value carries the two offsets the zone assigns to this wall time
(`fold = 0` / `fold = 1`), as supplied by the caller.
-/
namespace FlowRecord.DateTime
open FlowRecord

abbrev Text := List Nat

/-- What `tzinfo` is, seen from one wall time. `fixed` is a `datetime.timezone` with a non-zero offset
    (`timezone(timedelta(0))` *is* `timezone.utc` in CPython); `zone` is any other tzinfo (ZoneInfo): the
    offset for `fold = 0`, the offset for `fold = 1`, and the value's `fold`. Offsets in microseconds. -/
inductive Tz where
  | naive
  | utc
  | fixed (off : Int)
  | zone (off0 off1 : Int) (fold : Bool)
  deriving DecidableEq, Repr

/-- `utcoffset()` in microseconds (0 for a naive value). -/
def Tz.off : Tz → Int
  | .naive => 0
  | .utc => 0
  | .fixed o => o
  | .zone o0 o1 f => if f then o1 else o0

/-- `datetime.timezone` / `utcoffset()` contract: strictly between -24 h and +24 h. -/
@[reducible] def OffInRange (o : Int) : Prop := -86400000000 < o ∧ o < 86400000000

@[reducible] def Tz.Valid : Tz → Prop
  | .naive => True
  | .utc => True
  | .fixed o => o ≠ 0 ∧ OffInRange o
  | .zone o0 o1 _ => OffInRange o0 ∧ OffInRange o1

instance (t : Tz) : Decidable t.Valid := by
  cases t <;> unfold Tz.Valid <;> infer_instance

structure DT where
  y : Nat
  mo : Nat
  d : Nat
  h : Nat
  mi : Nat
  s : Nat
  us : Nat
  tz : Tz
  deriving DecidableEq, Repr

def daysInMonth (y m : Nat) : Nat :=
  if m = 2 then (if y % 4 = 0 ∧ (y % 100 ≠ 0 ∨ y % 400 = 0) then 29 else 28)
  else if m = 4 ∨ m = 6 ∨ m = 9 ∨ m = 11 then 30 else 31

/-- What `datetime(...)` accepts. -/
@[reducible] def DT.Valid (t : DT) : Prop :=
  1 ≤ t.y ∧ t.y ≤ 9999 ∧ 1 ≤ t.mo ∧ t.mo ≤ 12 ∧ 1 ≤ t.d ∧ t.d ≤ daysInMonth t.y t.mo ∧
  t.h < 24 ∧ t.mi < 60 ∧ t.s < 60 ∧ t.us < 1000000 ∧ t.tz.Valid

instance (t : DT) : Decidable t.Valid := by unfold DT.Valid; infer_instance

/-! ## `isoformat()` -/

def d2 (n : Nat) : Text := [48 + n / 10 % 10, 48 + n % 10]
def d4 (n : Nat) : Text := [48 + n / 1000 % 10, 48 + n / 100 % 10, 48 + n / 10 % 10, 48 + n % 10]
def d6 (n : Nat) : Text :=
  [48 + n / 100000 % 10, 48 + n / 10000 % 10, 48 + n / 1000 % 10, 48 + n / 100 % 10, 48 + n / 10 % 10, 48 + n % 10]

/-- `.ffffff`, printed only when the microsecond part is not zero. -/
def frac (us : Nat) : Text := if us = 0 then [] else 46 :: d6 us

/-- CPython `_format_offset`: `±HH:MM`, then `:SS` when seconds or microseconds are present, then `.ffffff`. -/
def fmtOffset (o : Int) : Text :=
  let a := o.natAbs
  (if o < 0 then 45 else 43) :: (d2 (a / 3600000000) ++ 58 :: (d2 (a / 60000000 % 60) ++
    (if a % 60000000 = 0 then [] else 58 :: (d2 (a / 1000000 % 60) ++ frac (a % 1000000)))))

def fmtTz : Tz → Text
  | .naive => []
  | t => fmtOffset t.off

/-- `datetime.isoformat()` with the default `T` separator. -/
def toIso (t : DT) : Text :=
  d4 t.y ++ 45 :: (d2 t.mo ++ 45 :: (d2 t.d ++ 84 :: (d2 t.h ++ 58 :: (d2 t.mi ++ 58 :: (d2 t.s ++
    (frac t.us ++ fmtTz t.tz))))))

/-! ## `fromisoformat()` on the language `isoformat()` prints -/

def dig (c : Nat) : Option Nat := if 48 ≤ c ∧ c ≤ 57 then some (c - 48) else none

def rd2 : Text → Option (Nat × Text)
  | a :: b :: r =>
    match dig a, dig b with
    | some x, some y => some (10 * x + y, r)
    | _, _ => none
  | _ => none

def rd4 : Text → Option (Nat × Text)
  | a :: b :: c :: d :: r =>
    match dig a, dig b, dig c, dig d with
    | some x, some y, some z, some w => some (1000 * x + 100 * y + 10 * z + w, r)
    | _, _, _, _ => none
  | _ => none

def rd6 : Text → Option (Nat × Text)
  | a :: b :: c :: d :: e :: f :: r =>
    match dig a, dig b, dig c, dig d, dig e, dig f with
    | some x, some y, some z, some w, some v, some u =>
      some (100000 * x + 10000 * y + 1000 * z + 100 * w + 10 * v + u, r)
    | _, _, _, _, _, _ => none
  | _ => none

def lit (c : Nat) : Text → Option Text
  | x :: r => if x = c then some r else none
  | [] => none

/-- optional `.ffffff` -/
def rdFrac : Text → Option (Nat × Text)
  | [] => some (0, [])
  | c :: r => if c = 46 then rd6 r else some (0, c :: r)

/-- optional `:SS[.ffffff]` at the end of an offset -/
def parseTzSec : Text → Option (Nat × Nat)
  | [] => some (0, 0)
  | c :: r =>
    if c = 58 then
      (rd2 r).bind fun p => (rdFrac p.2).bind fun q =>
        match q.2 with
        | [] => some (p.1, q.1)
        | _ :: _ => none
    else none

/-- The offset part. CPython 3.12 `tzinfo_from_isoformat_results`: when the `HH:MM:SS` part is zero the result is
    `timezone.utc` *whatever the microseconds say*; otherwise `timezone(timedelta(seconds, microseconds))`, which
    must lie strictly inside ±24 h. Component ranges are not checked (`+05:60` is `+06:00`). -/
def parseTz : Text → Option Tz
  | [] => some .naive
  | c :: r =>
    if c = 43 ∨ c = 45 then
      (rd2 r).bind fun p => (lit 58 p.2).bind fun r1 => (rd2 r1).bind fun q => (parseTzSec q.2).bind fun su =>
        let secs := p.1 * 3600 + q.1 * 60 + su.1
        if secs = 0 then some .utc
        else if secs * 1000000 + su.2 < 86400000000 then
          some (.fixed (if c = 45 then -((secs * 1000000 + su.2 : Nat) : Int) else ((secs * 1000000 + su.2 : Nat) : Int)))
        else none
    else none

/-- `YYYY-MM-DDTHH:MM:SS[.ffffff][±HH:MM[:SS[.ffffff]]]`; anything else is not in the modelled language. -/
def parseIso (t : Text) : Option DT :=
  (rd4 t).bind fun y => (lit 45 y.2).bind fun t1 => (rd2 t1).bind fun mo => (lit 45 mo.2).bind fun t2 =>
  (rd2 t2).bind fun d => (lit 84 d.2).bind fun t3 => (rd2 t3).bind fun h => (lit 58 h.2).bind fun t4 =>
  (rd2 t4).bind fun mi => (lit 58 mi.2).bind fun t5 => (rd2 t5).bind fun s => (rdFrac s.2).bind fun us =>
  (parseTz us.2).bind fun tz =>
    let r : DT := ⟨y.1, mo.1, d.1, h.1, mi.1, s.1, us.1, tz⟩
    if r.Valid then some r else none

/-! ## Calendar: proleptic Gregorian day numbers (Howard Hinnant's `days_from_civil` / `civil_from_days`) -/

/-- first day (counted from 1 March) of year-of-era `yoe` -/
def yearStart (yoe : Nat) : Nat := 365 * yoe + yoe / 4 - yoe / 100

/-- year-of-era of day-of-era `doe` -/
def yoeOf (doe : Nat) : Nat := (doe - doe / 1460 + doe / 36524 - doe / 146096) / 365

/-- days since 0000-03-01 -/
def daysFromCivil (y m d : Nat) : Nat :=
  let y' := if m ≤ 2 then y - 1 else y
  let mp := if m > 2 then m - 3 else m + 9
  y' / 400 * 146097 + (yearStart (y' % 400) + ((153 * mp + 2) / 5 + d - 1))

def civilFromDays (z : Nat) : Nat × Nat × Nat :=
  let era := z / 146097
  let doe := z % 146097
  let yoe := yoeOf doe
  let doy := doe - yearStart yoe
  let mp := (5 * doy + 2) / 153
  let d := doy - (153 * mp + 2) / 5 + 1
  let m := if mp < 10 then mp + 3 else mp - 9
  (if m ≤ 2 then yoe + era * 400 + 1 else yoe + era * 400, m, d)

/-- days since 0001-01-01 (= Python's `toordinal() - 1`); 0001-01-01 is day 306 after 0000-03-01. -/
def ordinal0 (y m d : Nat) : Nat := daysFromCivil y m d - 306

/-- wall clock as microseconds since 0001-01-01T00:00:00 -/
def wallUs (t : DT) : Nat :=
  ordinal0 t.y t.mo t.d * 86400000000 + t.h * 3600000000 + t.mi * 60000000 + t.s * 1000000 + t.us

/-- The instant: wall clock minus UTC offset, microseconds since 0001-01-01T00:00:00Z. -/
def instant (t : DT) : Int := (wallUs t : Int) - t.tz.off

def ofWallUs (w : Nat) (tz : Tz) : DT :=
  let c := civilFromDays (w / 86400000000 + 306)
  let r := w % 86400000000
  ⟨c.1, c.2.1, c.2.2, r / 3600000000, r / 60000000 % 60, r / 1000000 % 60, r % 1000000, tz⟩

/-- The UTC value of an instant; defined only inside years 1..9999 (CPython raises OverflowError outside).
    3652059 days = 0001-01-01 .. 9999-12-31. -/
def fromInstant (i : Int) : Option DT :=
  if 0 ≤ i ∧ i < 315537897600000000 then some (ofWallUs i.toNat .utc) else none

def toUtc (t : DT) : Option DT := fromInstant (instant t)

/-- Avro `timestamp-micros`: microseconds since 1970-01-01T00:00:00Z (day 719162 after 0001-01-01). -/
def toMicros (t : DT) : Int := instant t - 62135596800000000
def fromMicros (n : Int) : Option DT := fromInstant (n + 62135596800000000)

/-! ## The field constructor -/

inductive Input where
  | obj (t : DT)                                  -- a `datetime.datetime` object
  | iso (t : Text)                                -- `str` (or `bytes`, decoded first)
  | epoch (secs : Int)                            -- `int` seconds since the epoch
  | fields (y mo d h mi s us : Nat)               -- `datetime(y, mo, d, h, mi, s, us)` (the unpacked 7-tuple)
  deriving Repr

/-- "Treat naive datetimes as UTC". -/
def naiveAsUtc (t : DT) : DT :=
  match t.tz with
  | .naive => { t with tz := .utc }
  | _ => t

/-- The object branch rebuilds the value from its wall fields and `tzinfo`; `fold` survives iff the constructor
    passes it on (flag extracted from the source). -/
def rebuildTz : Tz → Tz
  | .zone o0 o1 f => .zone o0 o1 (f && Gen.datetimeCtorKeepsFold)
  | t => t

def construct : Input → Option DT
  | .obj t => some (naiveAsUtc { t with tz := rebuildTz t.tz })
  | .iso txt => (parseIso txt).map naiveAsUtc
  | .epoch n => fromMicros (n * 1000000)
  | .fields y mo d h mi s us =>
    let r : DT := ⟨y, mo, d, h, mi, s, us, .naive⟩
    if r.Valid then some (naiveAsUtc r) else none

/-! ## Storage formats -/

inductive Packed where
  | tuple (y mo d h mi s us : Nat)
  | text (t : Text)
  deriving DecidableEq, Repr

/-- `obj.tzinfo is None or obj.tzinfo == UTC` (a ZoneInfo never compares equal to `timezone.utc`). -/
def utcEq : Tz → Bool
  | .naive => true
  | .utc => true
  | _ => false

/-- `RecordPacker.pack_obj`, datetime branch. -/
def packDt (t : DT) : Packed :=
  if utcEq t.tz && Gen.dtTupleWhenUtc then .tuple t.y t.mo t.d t.h t.mi t.s t.us else .text (toIso t)

/-- `RecordPacker.unpack_obj`, datetime branch: `fieldtypes.datetime(*value)`. -/
def unpackDt : Packed → Option DT
  | .tuple y mo d h mi s us => construct (.fields y mo d h mi s us)
  | .text t => construct (.iso t)

/-- binary record stream: pack, unpack -/
def viaBinary (t : DT) : Option DT := unpackDt (packDt t)
/-- JSON lines: `isoformat()` text, read back through the record constructor -/
def viaJson (t : DT) : Option DT := construct (.iso (toIso t))
/-- SQLite: `isoformat()` text in a TIMESTAMPTZ column, read back through the record constructor -/
def viaSqlite (t : DT) : Option DT := construct (.iso (toIso t))
/-- Avro: timestamp-micros, read back as `EPOCH + timedelta(microseconds=n)` and through the constructor -/
def viaAvro (t : DT) : Option DT := (fromMicros (toMicros t)).bind fun r => construct (.obj r)

/-- Same wall clock, `tzinfo` replaced by the fixed offset it stands for (`timezone.utc` when that is zero). -/
def normOff (o : Int) : Tz := if o = 0 then .utc else .fixed o

def fixedView (t : DT) : DT :=
  { t with tz := match t.tz with
                 | .naive => .naive
                 | tz => normOff tz.off }

/-- The domain boundary of ISO text: an offset strictly between 0 and 1 s in magnitude is printed
    (`+00:00:00.000001`) but read back as UTC by CPython. -/
@[reducible] def OffsetPrintable (t : DT) : Prop := t.tz.off = 0 ∨ 1000000 ≤ t.tz.off.natAbs

/-! ## Display (`__str__`/`__repr__`): the only place the display zone enters -/

/-- `astimezone(display).isoformat(" ")`; `dispOff` is what the display zone says about this instant
    (`none`: print as stored — `FLOW_RECORD_TZ=NONE`, or the display zone *is* the value's own tzinfo object, in
    which case CPython's `astimezone` returns the value unchanged, even for a wall time inside a DST gap). -/
def isoSpace (t : DT) : Text :=
  d4 t.y ++ 45 :: (d2 t.mo ++ 45 :: (d2 t.d ++ 32 :: (d2 t.h ++ 58 :: (d2 t.mi ++ 58 :: (d2 t.s ++
    (frac t.us ++ fmtTz t.tz))))))

def render (dispOff : Option Int) (t : DT) : Option Text :=
  match dispOff with
  | none => some (isoSpace t)
  | some o =>
    let i := instant t + o
    if 0 ≤ i ∧ i < 315537897600000000 then some (isoSpace (ofWallUs i.toNat (normOff o))) else none

end FlowRecord.DateTime
