/-!
RFC 4648 base64 (standard alphabet, `=` padding) over byte lists; text is a list of code points.
`b64enc` is what `base64.b64encode(b).decode()` returns. `b64dec` accepts exactly the padded, alphabet-only
form with a length that is a multiple of four (like CPython it does not insist on zero padding bits); CPython's
lenient skipping of foreign characters is not modelled — such input is rejected here.
-/
namespace FlowRecord.Base64

abbrev Text := List Nat

def b64char (n : Nat) : Nat :=
  if n < 26 then 65 + n else if n < 52 then 71 + n else if n < 62 then n - 4 else if n = 62 then 43 else 47

def b64val (c : Nat) : Option Nat :=
  if 65 ≤ c ∧ c ≤ 90 then some (c - 65)
  else if 97 ≤ c ∧ c ≤ 122 then some (c - 71)
  else if 48 ≤ c ∧ c ≤ 57 then some (c + 4)
  else if c = 43 then some 62
  else if c = 47 then some 63
  else none

def b64enc : List UInt8 → Text
  | [] => []
  | [a] => [b64char (a.toNat / 4), b64char (a.toNat % 4 * 16), 61, 61]
  | [a, b] => [b64char (a.toNat / 4), b64char (a.toNat % 4 * 16 + b.toNat / 16), b64char (b.toNat % 16 * 4), 61]
  | a :: b :: c :: rest =>
    b64char (a.toNat / 4) :: b64char (a.toNat % 4 * 16 + b.toNat / 16) :: b64char (b.toNat % 16 * 4 + c.toNat / 64) ::
      b64char (c.toNat % 64) :: b64enc rest

def b64dec : Text → Option (List UInt8)
  | [] => some []
  | c1 :: c2 :: c3 :: c4 :: rest =>
    match b64val c1, b64val c2 with
    | some v1, some v2 =>
      if c3 = 61 then
        (if c4 = 61 ∧ rest = [] then some [UInt8.ofNat (v1 * 4 + v2 / 16)] else none)
      else
        match b64val c3 with
        | none => none
        | some v3 =>
          if c4 = 61 then
            (if rest = [] then some [UInt8.ofNat (v1 * 4 + v2 / 16), UInt8.ofNat (v2 % 16 * 16 + v3 / 4)] else none)
          else
            match b64val c4 with
            | none => none
            | some v4 =>
              (b64dec rest).map fun r =>
                UInt8.ofNat (v1 * 4 + v2 / 16) :: UInt8.ofNat (v2 % 16 * 16 + v3 / 4) :: UInt8.ofNat (v3 % 4 * 64 + v4) :: r
    | _, _ => none
  | _ => none

end FlowRecord.Base64
