import FlowRecord.Gen.Pipeline
import FlowRecord.Gen.Selector
/-!
C10: the reader loops of the five adapters, the selector normalisation `make_selector`, and the interpreted
matcher as an explicit state that `Selector.match` threads through the records.

Everything is parametric in the record type `R`, the error type `E` and the *matcher* `R → Except E Bool`
(truthiness of `selector.match(rec)`, or the exception it raises): C07 owns what an expression means; C10 is about
where and how often the readers consult it.  Structural facts (which `yield`s are guarded, which matcher attributes
`matches` re-assigns, ...) come from `Gen.Pipeline`, regenerated from the source on every run.
-/
namespace FlowRecord.Readers
open FlowRecord

/-- What iterating a generator gives: the values yielded, then normal exhaustion (`none`) or an exception. -/
structure Run (R E : Type) where
  out : List R
  err : Option E
  deriving Repr, DecidableEq

namespace Run
variable {R E : Type}
def done : Run R E := ⟨[], none⟩
def fail (e : E) : Run R E := ⟨[], some e⟩
def cons (r : R) (k : Run R E) : Run R E := ⟨r :: k.out, k.err⟩
end Run

/-- A matcher: truthiness of `selector.match(rec)` or the exception raised. -/
abbrev Matcher (R E : Type) := R → Except E Bool

/-- `if not self.selector or self.selector.match(obj)` when the yield is guarded (`guarded`, extracted);
    an unguarded yield lets everything through. -/
def accepts {R E : Type} (guarded : Bool) (sel : Option (Matcher R E)) (r : R) : Except E Bool :=
  match guarded, sel with
  | true, some m => m r
  | _, _ => .ok true

/-- The specification side: iterate *without* selector and test each record afterwards
    (`for r in reader: if sel.match(r): keep`). A raising test ends the loop with that exception; the reader's own
    terminal exception is seen after its last record. -/
def filterAfter {R E : Type} (m : Matcher R E) : List R → Option E → Run R E
  | [], e => ⟨[], e⟩
  | r :: rs, e =>
    match m r with
    | .ok true => Run.cons r (filterAfter m rs e)
    | .ok false => filterAfter m rs e
    | .error x => Run.fail x

def filterRun {R E : Type} (m : Matcher R E) (run : Run R E) : Run R E := filterAfter m run.out run.err

/-- One step shared by every loop: a decoded record is yielded iff admitted. -/
def emit {R E : Type} (guarded : Bool) (sel : Option (Matcher R E)) (r : R) (rest : Run R E) : Run R E :=
  match accepts guarded sel r with
  | .ok true => Run.cons r rest
  | .ok false => rest
  | .error x => Run.fail x

/-! ### Binary stream: `RecordStreamReader.__iter__` -/

/-- What `self.read()` returns for one frame. `broken e`: the frame cannot be unpacked (truncated tail, garbage). -/
inductive Frame (I D P E : Type) where
  | magic
  | desc (id : I) (d : D)
  | record (id : I) (nested : List I) (payload : P)  -- `nested`: descriptors of records held in fields
  | broken (e : E)
  deriving Repr

structure StreamCfg where
  skipsHeader : Bool
  guarded : Bool
  deriving Repr, DecidableEq

/-- The loop. `reg` is the packer's descriptor registry (`packer.register`, last registration wins);
    a record frame is decoded with the descriptor registered under its identifier, `notFound` if there is none.
    End of input is `EOFError`, which the loop swallows. A repeated header is skipped when `skipsHeader`
    (otherwise it would be yielded as a non-record; modelled as `badHeader`). -/
def streamLoop {I D P R E : Type} [DecidableEq I] (cfg : StreamCfg) (mk : D → P → R) (notFound badHeader : E)
    (sel : Option (Matcher R E)) : List (I × D) → List (Frame I D P E) → Run R E
  | _, [] => Run.done
  | reg, .magic :: t =>
    if cfg.skipsHeader then streamLoop cfg mk notFound badHeader sel reg t else Run.fail badHeader
  | reg, .desc i d :: t => streamLoop cfg mk notFound badHeader sel ((i, d) :: reg) t
  | reg, .record i nested p :: t =>
    match reg.lookup i, nested.all (fun j => (reg.lookup j).isSome) with
    | some d, true => emit cfg.guarded sel (mk d p) (streamLoop cfg mk notFound badHeader sel reg t)
    | _, _ => Run.fail notFound
  | _, .broken e :: _ => Run.fail e

/-! ### JSON lines: `JsonfileReader.__iter__` -/

inductive JsonLine (I R E : Type) where
  | record (id : I) (r : R)   -- a flow.record JSON object; `id`: its `_recorddescriptor`
  | descriptor (id : I)       -- a descriptor line: registered, not yielded
  | plain (r : Except E R)    -- any other JSON object: a `json/record` is built from it (may raise)
  | bad (e : E)               -- not JSON
  deriving Repr

structure JsonCfg where
  guardRecord : Bool
  guardFallback : Bool
  deriving Repr, DecidableEq

/-- `reg`: the descriptors the JSON packer has seen (`unpack` registers them); a record line whose descriptor is
    unknown raises `notFound`. -/
def jsonLoop {I R E : Type} [DecidableEq I] (cfg : JsonCfg) (notFound : E) (sel : Option (Matcher R E)) :
    List I → List (JsonLine I R E) → Run R E
  | _, [] => Run.done
  | reg, .record i r :: t =>
    if reg.contains i then emit cfg.guardRecord sel r (jsonLoop cfg notFound sel reg t) else Run.fail notFound
  | reg, .descriptor i :: t => jsonLoop cfg notFound sel (i :: reg) t
  | reg, .plain (.ok r) :: t => emit cfg.guardFallback sel r (jsonLoop cfg notFound sel reg t)
  | _, .plain (.error e) :: _ => Run.fail e
  | _, .bad e :: _ => Run.fail e

/-! ### Avro, CSV, SQLite: `for x in items: rec = make(x); if admitted: yield rec` -/

def mapLoop {X R E : Type} (guarded : Bool) (mk : X → Except E R) (sel : Option (Matcher R E)) : List X → Run R E
  | [] => Run.done
  | x :: t =>
    match mk x with
    | .ok r => emit guarded sel r (mapLoop guarded mk sel t)
    | .error e => Run.fail e

/-- SQLite: tables in catalogue order, each read in `fetchmany(batch_size)` batches. -/
def sqliteLoop {X R E : Type} (guarded : Bool) (mk : X → Except E R) (sel : Option (Matcher R E))
    (tables : List (List (List X))) : Run R E :=
  mapLoop guarded mk sel (tables.flatMap fun batches => batches.flatMap id)

/-- `read_table`'s fetch loop: `rows = cursor.fetchmany(batch_size)`; an EMPTY fetch ends the table, anything else is
    handed on row by row. `fuel` bounds the number of fetches (`rows.length + 1` always suffices). -/
def fetchLoop {X : Type} (batch : Nat) : Nat → List X → List (List X)
  | 0, _ => []
  | fuel + 1, rows =>
    let b := rows.take batch
    if b.isEmpty then [] else b :: fetchLoop batch fuel (rows.drop batch)

/-- the batches `read_table` goes through for one table -/
def tableBatches {X : Type} (batch : Nat) (rows : List X) : List (List X) := fetchLoop batch (rows.length + 1) rows

/-! ### All five readers behind one type -/

structure Cfg where
  stream : StreamCfg
  json : JsonCfg
  avroGuarded : Bool
  csvGuarded : Bool
  sqliteGuarded : Bool
  deriving Repr, DecidableEq

def Cfg.AllGuarded (c : Cfg) : Prop :=
  c.stream.guarded = true ∧ c.json.guardRecord = true ∧ c.json.guardFallback = true ∧
  c.avroGuarded = true ∧ c.csvGuarded = true ∧ c.sqliteGuarded = true

instance (c : Cfg) : Decidable c.AllGuarded := by unfold Cfg.AllGuarded; infer_instance

/-- every `yield` of the adapter's `__iter__` is guarded by the selector pattern on the yielded object -/
def yieldsGuarded (adapter : String) : Bool :=
  match Gen.readerYields.find? (fun r => r.1 == adapter) with
  | some (_, n, g) => n ≥ 1 && n == g
  | none => false

def branchGuarded (kind : String) : Bool :=
  match Gen.jsonBranches.find? (fun r => r.1 == kind) with
  | some (_, n, g) => n ≥ 1 && n == g
  | none => false

/-- The configuration of the current source tree. -/
def genCfg : Cfg where
  stream := { skipsHeader := Gen.streamLoopSkipsHeader,
              guarded := yieldsGuarded "stream" && Gen.streamLoopRegistersUnconditionally }
  json := { guardRecord := branchGuarded "record" && Gen.jsonLoopUnpacksEveryLine,
            guardFallback := branchGuarded "fallback" && Gen.jsonLoopUnpacksEveryLine }
  avroGuarded := yieldsGuarded "avro"
  csvGuarded := yieldsGuarded "csvfile"
  sqliteGuarded := yieldsGuarded "sqlite" && !Gen.sqliteReadTableConsultsSelector

/-- An input of one of the five readers. -/
inductive Src (I D P X R E : Type) where
  | stream (frames : List (Frame I D P E))
  | json (lines : List (JsonLine I R E))
  | avro (objs : List X)
  | csv (rows : List X)
  | sqlite (tables : List (List (List X)))

structure Decoders (D P X R E : Type) where
  ofFrame : D → P → R
  ofAvro : X → Except E R
  ofCsv : X → Except E R
  ofSqlite : X → Except E R
  notFound : E
  badHeader : E

def read {I D P X R E : Type} [DecidableEq I] (cfg : Cfg) (dec : Decoders D P X R E)
    (sel : Option (Matcher R E)) : Src I D P X R E → Run R E
  | .stream fs => streamLoop cfg.stream dec.ofFrame dec.notFound dec.badHeader sel [] fs
  | .json ls => jsonLoop cfg.json dec.notFound sel [] ls
  | .avro xs => mapLoop cfg.avroGuarded dec.ofAvro sel xs
  | .csv xs => mapLoop cfg.csvGuarded dec.ofCsv sel xs
  | .sqlite ts => sqliteLoop cfg.sqliteGuarded dec.ofSqlite sel ts

/-! ### `make_selector` -/

/-- What a caller may pass as `selector=`. `interp s` / `compiled s`: a `Selector` / `CompiledSelector` object
    constructed from the text `s`. -/
inductive SelArg where
  | absent                 -- None
  | text (s : String)
  | interp (s : String)
  | compiled (s : String)
  deriving Repr, DecidableEq

/-- A normalised selector object: engine and the expression it holds (`CompiledSelector("")` holds none). -/
inductive Sel where
  | interp (expr : String)
  | compiled (expr : Option String)
  deriving Repr, DecidableEq

/-- `Selector(s)`: `expression or "True"`. -/
def mkInterp (s : String) : Sel := .interp (if s.isEmpty then Gen.selectorEmptyDefault else s)
/-- `CompiledSelector(s)`: `expression or None`. -/
def mkCompiled (s : String) : Sel := .compiled (if s.isEmpty then none else some s)

/-- The object behind an argument (for the object forms). -/
def SelArg.obj : SelArg → Option Sel
  | .interp s => some (mkInterp s)
  | .compiled s => some (mkCompiled s)
  | _ => none

/-- `make_selector(selector, force_compiled)`: falsy → None; text → the requested engine; a `Selector` is re-made
    as compiled from its expression text when forced; anything else is returned as it is. Objects are always truthy
    (neither class defines `__bool__`/`__len__`, extracted). -/
def makeSelector (a : SelArg) (force : Bool) : Option Sel :=
  match a with
  | .absent => none
  | .text s => if s.isEmpty then none else some (if force then mkCompiled s else mkInterp s)
  | .interp s =>
    match mkInterp s with
    | .interp e => some (if force then mkCompiled e else .interp e)
    | other => some other
  | .compiled s => some (mkCompiled s)

/-- Meaning of a normalised selector given the two engines (C07 owns them). -/
def Sel.matcher {R E : Type} (evalI evalC : String → Matcher R E) : Sel → Matcher R E
  | .interp e => evalI e
  | .compiled (some e) => evalC e
  | .compiled none => fun _ => .ok true

/-- What a reader does with its `selector=` argument. -/
def readerSelector {R E : Type} (evalI evalC : String → Matcher R E) (a : SelArg) : Option (Matcher R E) :=
  (makeSelector a false).map (Sel.matcher evalI evalC)

/-! ### The interpreted matcher as explicit state -/

/-- The `RecordContextMatcher` object: attribute name ↦ content. -/
abbrev MState (S : Type) := String → S

/-- `matches(rec)`: the attributes in `reset` are assigned from scratch (`fresh rec`), the others are left as the
    previous call left them; then the expression is evaluated — `eval` returns the result and the state it leaves
    behind (bound generator variables, backtrace, ...). -/
def matchesStep {R S T : Type} (reset : List String) (fresh : R → String → S)
    (eval : R → MState S → T × MState S) (st : MState S) (r : R) : T × MState S :=
  eval r (fun f => if f ∈ reset then fresh r f else st f)

/-- `Selector.match` called on a sequence of records: one matcher object, reused. -/
def runThreaded {R S T : Type} (reset : List String) (fresh : R → String → S)
    (eval : R → MState S → T × MState S) : MState S → List R → List T
  | _, [] => []
  | st, r :: rs =>
    let (res, st') := matchesStep reset fresh eval st r
    res :: runThreaded reset fresh eval st' rs

/-- A fresh `Selector` for every record. -/
def matchFresh {R S T : Type} (reset : List String) (fresh : R → String → S)
    (eval : R → MState S → T × MState S) (init : MState S) (r : R) : T :=
  (matchesStep reset fresh eval init r).1

/-- `CompiledSelector.match`: evaluates in `self.ns.copy()` when `copies` (extracted), else in `self.ns` itself. -/
def compiledStep {R N T : Type} (copies : Bool) (eval : R → N → T × N) (ns : N) (r : R) : T × N :=
  let (res, ns') := eval r ns
  (res, if copies then ns else ns')

def runCompiled {R N T : Type} (copies : Bool) (eval : R → N → T × N) : N → List R → List T
  | _, [] => []
  | ns, r :: rs =>
    let (res, ns') := compiledStep copies eval ns r
    res :: runCompiled copies eval ns' rs

/-! ### Write footprint of the matcher code (purity) -/

/-- Where an assignment in `matches`/`eval`/`_eval` lands. Only a `foreign` target can reach the record or
    anything else outside the matcher object and the local frame. -/
inductive Target where
  | selfAttr (f : String)
  | selfItem (f : String)
  | local (x : String)
  | foreign (what : String)
  deriving Repr, DecidableEq

def Target.ofRow (row : String × String) : Target :=
  if row.1 == "selfAttr" then .selfAttr row.2
  else if row.1 == "selfItem" then .selfItem row.2
  else if row.1 == "local" then .local row.2
  else .foreign row.2

def Target.isForeign : Target → Bool
  | .foreign _ => true
  | _ => false

def genTargets : List Target := Gen.matcherWriteTargets.map Target.ofRow

/-- The machine the matcher code runs on: the matcher object, the local frame, and everything else (`world`: the
    record being matched, module globals, ...). `wr` is an arbitrary effect of a foreign write. -/
structure Machine (S W : Type) where
  self : String → S
  locals : String → S
  world : W

def execWrite {S W : Type} (wr : String → S → W → W) (m : Machine S W) (t : Target) (v : S) : Machine S W :=
  match t with
  | .selfAttr f => { m with self := fun g => if g = f then v else m.self g }
  | .selfItem f => { m with self := fun g => if g = f then v else m.self g }
  | .local x => { m with locals := fun g => if g = x then v else m.locals g }
  | .foreign w => { m with world := wr w v m.world }

def execWrites {S W : Type} (wr : String → S → W → W) (m : Machine S W) : List (Target × S) → Machine S W
  | [] => m
  | (t, v) :: rest => execWrites wr (execWrite wr m t v) rest

end FlowRecord.Readers
