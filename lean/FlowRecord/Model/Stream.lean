import FlowRecord.Model.Wire
/-!
RecordStreamWriter / RecordStreamReader (stream.py): framing, lazily written header, descriptor registry on both
sides. `Frame`s are byte strings; the stream is the concatenation of `frameBytes`.
-/
namespace FlowRecord.Stream
open FlowRecord FlowRecord.Msgpack FlowRecord.Utf8 FlowRecord.Wire

/-- 4-byte big-endian length prefix + body (`struct.pack(">I", len(blob)) + blob`) -/
def frameBytes (body : Bytes) : Bytes := beEnc 4 body.length ++ body

def magicBody : Bytes := enc (.bin Gen.RECORDSTREAM_MAGIC)

structure WState where
  headerWritten : Bool
  registry : Registry
  deriving Repr, Inhabited

def WState.init : WState := { headerWritten := false, registry := [] }

def regInsert (reg : Registry) (d : Desc) : Registry :=
  ((d.name, d.hash), d) :: reg.filter (fun e => !(e.1.1 == d.name && e.1.2 == d.hash))

/-- the registration guard of `pack_obj`; which test it performs is read off the source (Gen.writerGuardKind) -/
def needsRegister (reg : Registry) (d : Desc) : Bool :=
  match lookup reg d.name d.hash with
  | none => true
  | some d' => if Gen.writerGuardKind == "descriptor-comparison" then !(decide (d' = d)) else false

/-- descriptors (in encounter order) that get registered and written while packing `obj` -/
def newDescs (reg : Registry) : List Desc → Registry × List Desc
  | [] => (reg, [])
  | d :: ds =>
    if needsRegister reg d then
      let (reg', out) := newDescs (regInsert reg d) ds
      (reg', d :: out)
    else newDescs reg ds

/-- `RecordStreamWriter.write(obj)`: header first if needed, descriptor frames (written re-entrantly while the
    object is being packed), then the object's own frame. `none` = packing raised. -/
def write (st : WState) (obj : PV) : Option (WState × List Bytes) :=
  let header := if st.headerWritten then [] else [magicBody]
  let r := newDescs st.registry (descsOf obj)
  match r.2.mapM (fun d => (toM (.desc d)).map enc), (toM obj).map enc with
  | some dframes, some body => some ({ headerWritten := true, registry := r.1 }, header ++ dframes ++ [body])
  | _, _ => none

def writeAll (st : WState) : List PV → Option (WState × List Bytes)
  | [] => some (st, [])
  | o :: os => do
    let (st1, f1) ← write st o
    let (st2, f2) ← writeAll st1 os
    pure (st2, f1 ++ f2)

/-- `RecordStreamWriter.write(obj)` RAISING while `obj` is packed, after `k` of its descriptors were met: the header
    (if this was the first write) and the frames of the newly registered descriptors are on the stream, the object's
    frame is not; the packer keeps the registrations. -/
def writeFailed (st : WState) (obj : PV) (k : Nat) : Option (WState × List Bytes) :=
  let header := if st.headerWritten then [] else [magicBody]
  let r := newDescs st.registry ((descsOf obj).take k)
  match r.2.mapM (fun d => (toM (.desc d)).map enc) with
  | some dframes => some ({ headerWritten := true, registry := r.1 }, header ++ dframes)
  | none => none

/-- a history of writes on one writer, each succeeding (`none`) or raising after `k` descriptors (`some k`) -/
def writeHist (st : WState) : List (PV × Option Nat) → Option (WState × List Bytes)
  | [] => some (st, [])
  | (o, none) :: os => do
    let (st1, f1) ← write st o
    let (st2, f2) ← writeHist st1 os
    pure (st2, f1 ++ f2)
  | (o, some k) :: os => do
    let (st1, f1) ← writeFailed st o k
    let (st2, f2) ← writeHist st1 os
    pure (st2, f1 ++ f2)

def streamOf (frames : List Bytes) : Bytes := frames.flatMap frameBytes

/-! ### abstract frame view (C03): what a history of writes emits and what a reader makes of it,
    before any byte encoding -/

inductive AFrame where
  | desc : Desc → AFrame
  | obj : PV → AFrame
  deriving Repr, BEq

/-- frames of one `write` after the header: descriptor frames for what gets registered, then the object -/
def emit (reg : Registry) (o : PV) : Registry × List AFrame :=
  let r := newDescs reg (descsOf o)
  (r.1, r.2.map AFrame.desc ++ [AFrame.obj o])

def emitAll (reg : Registry) : List PV → Registry × List AFrame
  | [] => (reg, [])
  | o :: os =>
    let r1 := emit reg o
    let r2 := emitAll r1.1 os
    (r2.1, r1.2 ++ r2.2)

/-- A write that RAISES while the object is being packed (a value msgpack refuses, e.g. text with a lone surrogate):
    the descriptors met before the failing value — a prefix of `descsOf o`, `k` of them — were registered and their
    frames written by the registration callback; no object frame follows. -/
def emitFailed (reg : Registry) (o : PV) (k : Nat) : Registry × List AFrame :=
  let r := newDescs reg ((descsOf o).take k)
  (r.1, r.2.map AFrame.desc)

/-- a history of writes, each succeeding (`none`) or raising after `k` descriptors were met (`some k`); the caller
    carries on with the same writer -/
def emitHist (reg : Registry) : List (PV × Option Nat) → Registry × List AFrame
  | [] => (reg, [])
  | (o, none) :: os =>
    let r1 := emit reg o
    let r2 := emitHist r1.1 os
    (r2.1, r1.2 ++ r2.2)
  | (o, some k) :: os =>
    let r1 := emitFailed reg o k
    let r2 := emitHist r1.1 os
    (r2.1, r1.2 ++ r2.2)

/-- the reader on abstract frames: descriptor frames are registered; for every object frame, the descriptors with
    which its records (own, nested, grouped members — in `descsOf` order) are decoded -/
def consume (reg : Registry) : List AFrame → List (PV × List (Option Desc))
  | [] => []
  | .desc d :: fs => consume (regInsert reg d) fs
  | .obj o :: fs => (o, (descsOf o).map (fun d => lookup reg d.name d.hash)) :: consume reg fs

/-- registry of the reader after a frame list -/
def consumeReg (reg : Registry) : List AFrame → Registry
  | [] => reg
  | .desc d :: fs => consumeReg (regInsert reg d) fs
  | .obj _ :: fs => consumeReg reg fs

/-- no two *different* descriptors inside one object share an identifier -/
def NoInnerCollision (ds : List Desc) : Prop :=
  ∀ a ∈ ds, ∀ b ∈ ds, a.name = b.name → a.hash = b.hash → a = b

/-! ### reader -/

inductive End where
  | eof                      -- clean end: fewer than 4 bytes left
  | error (e : Err)          -- iteration raised
  | notAStream               -- readheader: IOError
  deriving Repr, BEq, DecidableEq

/-- `readheader`: read 4 + 2 + len(magic) bytes, must end with the magic -/
def headerLen : Nat := 4 + 2 + Gen.RECORDSTREAM_MAGIC.length

def readHeader (bs : Bytes) : Option Bytes :=
  let h := bs.take headerLen
  if Gen.RECORDSTREAM_MAGIC.reverse.isPrefixOf h.reverse then some (bs.drop headerLen) else none

/-- split off one frame: `none` = fewer than 4 length bytes (EOFError), body may be short -/
def nextFrame (bs : Bytes) : Option (Bytes × Bytes) :=
  if bs.length < 4 then none
  else
    let size := beDec (bs.take 4)
    let rest := bs.drop 4
    some (rest.take size, rest.drop size)

/-- Frame-level view of reading: all complete frames, and the unread remainder (fewer than 4 length bytes, or a
    length followed by a short body). Fuel = number of bytes. -/
def splitFrames : Nat → Bytes → List Bytes × Bytes
  | 0, bs => ([], bs)
  | fuel + 1, bs =>
    match nextFrame bs with
    | none => ([], bs)
    | some (body, rest) =>
      if body.length < beDec (bs.take 4) then ([], bs)
      else
        let r := splitFrames fuel rest
        (body :: r.1, r.2)

/-- What is left of a frame when the file ends inside it. -/
def IsPartialFrame (p : Bytes) : Prop :=
  p.length < 4 ∨ ∃ n body, n < 4294967296 ∧ p = beEnc 4 n ++ body ∧ body.length < n

def decodeFrame (reg : Registry) (body : Bytes) : Except Err RV :=
  match decode body with
  | .ok v => fromM reg (body.length + 2) v
  | .incomplete => .error .incomplete
  | .invalid => .error .invalid

/-- `RecordStreamReader.__iter__` on the bytes after the header; fuel = number of bytes (each frame consumes ≥ 4).
    The identifier hash of a received descriptor is computed by `hashOf` (SHA-256 based in the real code;
    arbitrary here). -/
def readFramesH (hashOf : PyStr → List (PyStr × PyStr) → Nat) : Nat → Registry → Bytes → List RV × End
  | 0, _, _ => ([], .eof)
  | fuel + 1, reg, bs =>
    match nextFrame bs with
    | none => ([], .eof)
    | some (body, rest) =>
      match decodeFrame reg body with
      | .error e => ([], .error e)
      | .ok (.bytes b) =>
        if b == Gen.RECORDSTREAM_MAGIC then readFramesH hashOf fuel reg rest
        else
          let (rs, e) := readFramesH hashOf fuel reg rest
          (.bytes b :: rs, e)
      | .ok (.desc name fields) =>
        let d : Desc := { name := name, fields := fields, hash := hashOf name fields }
        readFramesH hashOf fuel (regInsert reg d) rest
      | .ok v =>
        let (rs, e) := readFramesH hashOf fuel reg rest
        (v :: rs, e)

def readAll (hashOf : PyStr → List (PyStr × PyStr) → Nat) (bs : Bytes) : List RV × End :=
  match readHeader bs with
  | none => ([], .notAStream)
  | some rest => readFramesH hashOf rest.length [] rest

end FlowRecord.Stream
