/-!
Regular expressions as extracted from the source (the subset the repo's two name patterns use) and a
matcher with Python's anchor semantics: `^` matches at position 0, `$` matches at the end of the string
or just before a final newline. `re.match` semantics: the match starts at 0 and may end anywhere.
-/
namespace FlowRecord

inductive Rx where
  | eps : Rx
  | cls : List (Nat × Nat) → Rx           -- character class as inclusive code point ranges
  | seq : Rx → Rx → Rx
  | opt : Rx → Rx
  | star : Rx → Rx
  | bol : Rx                              -- ^
  | eol : Rx                              -- $
  deriving Repr, DecidableEq

end FlowRecord
