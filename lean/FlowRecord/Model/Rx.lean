/-!
Regular expressions as extracted from the source (the subset the repo's two name patterns use) and a
matcher with Python's anchor semantics: `^` matches at position 0, `$` matches at the end of the string
or just before a final newline. `re.match` semantics: the match starts at 0 and may end anywhere.

Strings are lists of code points (`Str`), so lone surrogates and every other Python `str` are representable.
-/
namespace FlowRecord

inductive Rx where
  | eps : Rx
  | cls : List (Nat × Nat) → Rx           -- character class as inclusive code point ranges
  | seq : Rx → Rx → Rx
  | opt : Rx → Rx
  | star : Rx → Rx
  | bol : Rx                              -- ^
  | eol : Rx                              -- $
  deriving Repr, DecidableEq

/-- A Python `str`: the list of its code points. -/
abbrev Str := List Nat

namespace Rx

/-- A position of the matcher: "still at offset 0" and the text that is left. -/
abbrev Pos := Bool × Str

/-- `x` is in the character class (inclusive code point ranges). -/
def clsMem (c : List (Nat × Nat)) (x : Nat) : Bool := c.any (fun r => r.1 ≤ x && x ≤ r.2)

/-- Python's `$` (no MULTILINE): at the very end, or just before a newline that ends the string. -/
def atEol (rest : Str) : Bool := rest == [] || rest == [10]

/-- `q` has strictly less text left than `p` (an iteration of `*` that consumed something). -/
def shorter (p q : Pos) : Bool := q.2.length < p.2.length

/-- All positions reachable by iterating `f` zero or more times; iterations that consume nothing lead
    to the same position and are dropped, so `n = |text| + 1` rounds are enough. -/
def starN (f : Pos → List Pos) : Nat → Pos → List Pos
  | 0, p => [p]
  | n+1, p => p :: ((f p).filter (shorter p)).flatMap (starN f n)

/-- All positions at which a match of `r` that starts at `p` can end (backtracking matcher, every choice). -/
def ends : Rx → Pos → List Pos
  | .eps, p => [p]
  | .cls c, p =>
    match p.2 with
    | [] => []
    | x :: xs => if clsMem c x then [(false, xs)] else []
  | .seq a b, p => (ends a p).flatMap (ends b)
  | .opt a, p => ends a p ++ [p]
  | .star a, p => starN (ends a) (p.2.length + 1) p
  | .bol, p => if p.1 then [p] else []
  | .eol, p => if atEol p.2 then [p] else []

/-- `re.compile(r).match(s) is not None`. -/
def pyMatch (r : Rx) (s : Str) : Bool := !(ends r (true, s)).isEmpty

end Rx
end FlowRecord
