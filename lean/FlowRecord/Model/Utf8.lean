import FlowRecord.Model.Msgpack
/-!
Text layer (DESIGN.md 7.3): Python `str` as a list of code points (lone surrogates allowed), and
`.encode('utf-8','surrogateescape')` / `.decode('utf-8','surrogateescape')`.
-/
namespace FlowRecord.Utf8

abbrev PyStr := List Nat

def b (n : Nat) : UInt8 := UInt8.ofNat n

/-- UTF-8 bytes of one code point under `surrogateescape`; `none` = UnicodeEncodeError. -/
def encodeCp (c : Nat) : Option Bytes :=
  if c < 0x80 then some [b c]
  else if c < 0x800 then some [b (0xC0 + c / 64), b (0x80 + c % 64)]
  else if 0xD800 ≤ c ∧ c < 0xE000 then
    (if 0xDC80 ≤ c ∧ c ≤ 0xDCFF then some [b (c - 0xDC00)] else none)
  else if c < 0x10000 then some [b (0xE0 + c / 4096), b (0x80 + c / 64 % 64), b (0x80 + c % 64)]
  else if c < 0x110000 then
    some [b (0xF0 + c / 262144), b (0x80 + c / 4096 % 64), b (0x80 + c / 64 % 64), b (0x80 + c % 64)]
  else none

def encodeSE : PyStr → Option Bytes
  | [] => some []
  | c :: cs => do
    let x ← encodeCp c
    let r ← encodeSE cs
    pure (x ++ r)

def isCont (x : UInt8) : Bool := 0x80 ≤ x.toNat && x.toNat < 0xC0

/-- second-byte ranges of the 3- and 4-byte forms (Unicode table 3-7: no overlongs, no surrogates, ≤ U+10FFFF) -/
def lo3 (n0 : Nat) : Nat := if n0 = 0xE0 then 0xA0 else 0x80
def hi3 (n0 : Nat) : Nat := if n0 = 0xED then 0xA0 else 0xC0
def lo4 (n0 : Nat) : Nat := if n0 = 0xF0 then 0x90 else 0x80
def hi4 (n0 : Nat) : Nat := if n0 = 0xF4 then 0x90 else 0xC0

/-- A well-formed UTF-8 sequence at the head (Unicode table 3-7): scalar value and number of bytes. -/
def headSeq : Bytes → Option (Nat × Nat)
  | [] => none
  | b0 :: rest =>
    let n0 := b0.toNat
    if n0 < 0x80 then some (n0, 1)
    else if n0 < 0xC2 then none
    else if n0 < 0xE0 then
      match rest with
      | b1 :: _ => if isCont b1 then some ((n0 - 0xC0) * 64 + (b1.toNat - 0x80), 2) else none
      | _ => none
    else if n0 < 0xF0 then
      match rest with
      | b1 :: b2 :: _ =>
        if lo3 n0 ≤ b1.toNat && b1.toNat < hi3 n0 && isCont b2 then
          some ((n0 - 0xE0) * 4096 + (b1.toNat - 0x80) * 64 + (b2.toNat - 0x80), 3)
        else none
      | _ => none
    else if n0 < 0xF5 then
      match rest with
      | b1 :: b2 :: b3 :: _ =>
        if lo4 n0 ≤ b1.toNat && b1.toNat < hi4 n0 && isCont b2 && isCont b3 then
          some ((n0 - 0xF0) * 262144 + (b1.toNat - 0x80) * 4096 + (b2.toNat - 0x80) * 64 + (b3.toNat - 0x80), 4)
        else none
      | _ => none
    else none

/-- `bytes.decode('utf-8','surrogateescape')`: fuel = input length. -/
def decodeFuel : Nat → Bytes → PyStr
  | 0, _ => []
  | _, [] => []
  | f + 1, b0 :: rest =>
    match headSeq (b0 :: rest) with
    | some (c, k) => c :: decodeFuel f ((b0 :: rest).drop k)
    | none => (0xDC00 + b0.toNat) :: decodeFuel f rest

def decodeSE (bs : Bytes) : PyStr := decodeFuel bs.length bs

/-- strict decoding (used for msgpack `raw=False` with unicode_errors=surrogateescape it never fails) -/
def asciiStr (s : String) : PyStr := s.toList.map Char.toNat

end FlowRecord.Utf8
