import FlowRecord.Model.Wire
import FlowRecord.Gen.Adapters
/-!
The field-type layer between a record's typed values and the packed values handed to the packer
(`FieldType._pack` / `_unpack` of flow/record/fieldtypes/__init__.py and net/ip.py):

* text, integers, booleans, floats, bytes travel as themselves;
* `digest` travels as three optional BINARY digests (`a2b_hex` of the hex text on assignment, `b2a_hex(..).decode()`
  on the way back — always lower case);
* `path` travels as `(str(path), flavour)`, `command` as `((str(executable), args), flavour)` or `(None, flavour)`;
* `net.ipaddress` travels as the bare integer (the family is inferred from its magnitude on the way back),
  `net.ipnetwork` as its text;
* typed lists travel element-wise.

What pathlib makes of a path text (`norm flavour text`) is a parameter; timestamps are C13's subject (`Model/DateTime`).
-/
namespace FlowRecord.FieldPack
open FlowRecord FlowRecord.Wire FlowRecord.Utf8

abbrev Str := PyStr      -- code points

/-- typed field values (what the property observes of a field) -/
inductive TVal where
  | unset
  | text (s : Str)                                   -- string / wstring / uri
  | int (i : Int)                                    -- varint, uint16, uint32, filesize, unix_file_mode, ports
  | bool (b : Bool)
  | float (bits : Nat)
  | bytes (b : Bytes)
  | digest (md5 sha1 sha256 : Option Str)            -- hex texts as the object holds them
  | path (flavour : Nat) (text : Str)                -- flavour = Gen.TYPE_POSIX / TYPE_WINDOWS; text = str(path)
  | command (flavour : Nat) (exe : Option Str) (args : List Str)
  | ip (version : Nat) (value : Nat)
  | ipnet (text : Str)
  | list (xs : List TVal)
  deriving Repr, BEq, Inhabited

inductive Kind where
  | text | int | bool | float | bytes | digest | path | command | ip | ipnet
  | list (k : Kind)
  deriving Repr, BEq, DecidableEq, Inhabited

/-! ### hex -/

def hexDigit (n : Nat) : Nat := if n < 10 then 48 + n else 87 + n          -- '0'..'9', 'a'..'f'

def hexVal (c : Nat) : Option Nat :=
  if 48 ≤ c ∧ c ≤ 57 then some (c - 48)
  else if 97 ≤ c ∧ c ≤ 102 then some (c - 87)
  else if 65 ≤ c ∧ c ≤ 70 then some (c - 55)
  else none

/-- `binascii.b2a_hex(b).decode()` -/
def hexlify : Bytes → Str
  | [] => []
  | b :: bs => hexDigit (b.toNat / 16) :: hexDigit (b.toNat % 16) :: hexlify bs

/-- `binascii.a2b_hex(text)`: pairs of hex digits in either case; `none` = binascii.Error -/
def unhexlify : Str → Option Bytes
  | [] => some []
  | [_] => none
  | a :: b :: rest =>
    match hexVal a, hexVal b, unhexlify rest with
    | some x, some y, some bs => some (UInt8.ofNat (16 * x + y) :: bs)
    | _, _, _ => none

def isLowerHex (s : Str) : Bool := s.all fun c => (48 ≤ c && c ≤ 57) || (97 ≤ c && c ≤ 102)

/-! ### pack / unpack -/

def optBin : Option Str → Option (Option Bytes)
  | none => some none
  | some s => (unhexlify s).map some

def binPV : Option Bytes → PV
  | none => .none
  | some b => .bytes b

mutual
  /-- `value._pack()`; `none` = the value is not of this kind / cannot be packed -/
  def packT : Kind → TVal → Option PV
    | _, .unset => some .none
    | .text, .text s => some (.str s)
    | .int, .int i => some (.int i)
    | .bool, .bool b => some (.bool b)
    | .float, .float x => some (.float x)
    | .bytes, .bytes b => some (.bytes b)
    | .digest, .digest m s1 s2 =>
      match optBin m, optBin s1, optBin s2 with
      | some a, some b, some c => some (.seq [binPV a, binPV b, binPV c])
      | _, _, _ => none
    | .path, .path fl t => some (.seq [.str t, .int fl])
    | .command, .command fl (some exe) args => some (.seq [.seq [.str exe, .seq (args.map PV.str)], .int fl])
    | .command, .command fl none _ => some (.seq [.none, .int fl])
    | .ip, .ip _ v => some (.int v)
    | .ipnet, .ipnet t => some (.str t)
    | .list k, .list xs => (packTs k xs).map PV.seq
    | _, _ => none
  def packTs : Kind → List TVal → Option (List PV)
    | _, [] => some []
    | k, x :: xs =>
      match packT k x, packTs k xs with
      | some a, some r => some (a :: r)
      | _, _ => none
end

/-! ### typed lists edited in place -/

/-- `typedlist._pack()` over the elements as Python holds them: `.inl` an element already of the element type,
    `.inr` a plain value appended in place, which `self.__type__(f)` converts first (`conv`; `none` = the constructor
    raises) - when the source does so (`Gen.typedlistPackConvertsRaw`); otherwise the model has nothing to say. -/
def packHeld {R : Type} (conv : R → Option TVal) (k : Kind) : List (TVal ⊕ R) → Option (List PV)
  | [] => some []
  | .inl t :: xs =>
    match packT k t, packHeld conv k xs with
    | some a, some r => some (a :: r)
    | _, _ => none
  | .inr r :: xs =>
    if Gen.typedlistPackConvertsRaw then
      match (conv r).bind (packT k), packHeld conv k xs with
      | some a, some r => some (a :: r)
      | _, _ => none
    else none

/-- the elements such a list stands for: every plain element as its element type -/
def heldValues {R : Type} (conv : R → Option TVal) : List (TVal ⊕ R) → Option (List TVal)
  | [] => some []
  | .inl t :: xs => (heldValues conv xs).map (t :: ·)
  | .inr r :: xs =>
    match conv r, heldValues conv xs with
    | some t, some ts => some (t :: ts)
    | _, _ => none

def hexOpt : RV → Option (Option Str)
  | .none => some none
  | .bytes b => some (if b.isEmpty then none else some (hexlify b))      -- `if data[i]` : an empty digest is falsy
  | _ => none

def strsOf : List RV → Option (List Str)
  | [] => some []
  | .str s :: xs => (strsOf xs).map (s :: ·)
  | _ :: _ => none

mutual
  /-- `cls._unpack(data)` for a value read back from the stream (`None` stays unset); `norm` is pathlib's normal
      form of a path text for a flavour -/
  def unpackT (norm : Nat → Str → Str) : Kind → RV → Option TVal
    | _, .none => some .unset
    | .text, .str s => some (.text s)
    | .int, .int i => some (.int i)
    | .bool, .bool b => some (.bool b)
    | .float, .float x => some (.float x)
    | .bytes, .bytes b => some (.bytes b)
    | .digest, .tuple [a, b, c] =>
      match hexOpt a, hexOpt b, hexOpt c with
      | some x, some y, some z => some (.digest x y z)
      | _, _, _ => none
    | .path, .tuple [.str t, .int fl] =>
      if fl = Gen.TYPE_POSIX ∨ fl = Gen.TYPE_WINDOWS then some (.path fl.toNat (norm fl.toNat t)) else none
    | .command, .tuple [.tuple [.str exe, .tuple args], .int fl] =>
      let f := if fl = Gen.TYPE_WINDOWS then Gen.TYPE_WINDOWS else Gen.TYPE_POSIX
      (strsOf args).map fun as => .command f (some (norm f exe)) as
    | .command, .tuple [.none, .int fl] =>
      some (.command (if fl = Gen.TYPE_WINDOWS then Gen.TYPE_WINDOWS else Gen.TYPE_POSIX) none [])
    | .ip, .int v =>
      if 0 ≤ v ∧ v < 4294967296 then some (.ip 4 v.toNat)
      else if 0 ≤ v ∧ v < 340282366920938463463374607431768211456 then some (.ip 6 v.toNat)
      else none
    | .ipnet, .str t => some (.ipnet t)
    | .list k, .tuple xs => (unpackTs norm k xs).map TVal.list
    | _, _ => none
  def unpackTs (norm : Nat → Str → Str) : Kind → List RV → Option (List TVal)
    | _, [] => some []
    | k, x :: xs =>
      match unpackT norm k x, unpackTs norm k xs with
      | some a, some r => some (a :: r)
      | _, _ => none
end

end FlowRecord.FieldPack
