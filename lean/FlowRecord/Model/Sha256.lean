/-!
SHA-256 (FIPS 180-4), executable, over bytes. Used for the descriptor identifier of the record-stream format:
`descriptor_hash = first four bytes (big endian) of SHA-256(name ++ concat(field name ++ field type))`.
The implementation is checked against `hashlib` on every generated descriptor (driver op `ident`) and against the
standard test vectors by kernel evaluation (`Props/C02.lean`).
-/
namespace FlowRecord.Sha256

def K : Array UInt32 := #[
  0x428a2f98, 0x71374491, 0xb5c0fbcf, 0xe9b5dba5, 0x3956c25b, 0x59f111f1, 0x923f82a4, 0xab1c5ed5,
  0xd807aa98, 0x12835b01, 0x243185be, 0x550c7dc3, 0x72be5d74, 0x80deb1fe, 0x9bdc06a7, 0xc19bf174,
  0xe49b69c1, 0xefbe4786, 0x0fc19dc6, 0x240ca1cc, 0x2de92c6f, 0x4a7484aa, 0x5cb0a9dc, 0x76f988da,
  0x983e5152, 0xa831c66d, 0xb00327c8, 0xbf597fc7, 0xc6e00bf3, 0xd5a79147, 0x06ca6351, 0x14292967,
  0x27b70a85, 0x2e1b2138, 0x4d2c6dfc, 0x53380d13, 0x650a7354, 0x766a0abb, 0x81c2c92e, 0x92722c85,
  0xa2bfe8a1, 0xa81a664b, 0xc24b8b70, 0xc76c51a3, 0xd192e819, 0xd6990624, 0xf40e3585, 0x106aa070,
  0x19a4c116, 0x1e376c08, 0x2748774c, 0x34b0bcb5, 0x391c0cb3, 0x4ed8aa4a, 0x5b9cca4f, 0x682e6ff3,
  0x748f82ee, 0x78a5636f, 0x84c87814, 0x8cc70208, 0x90befffa, 0xa4506ceb, 0xbef9a3f7, 0xc67178f2]

def H0 : List UInt32 :=
  [0x6a09e667, 0xbb67ae85, 0x3c6ef372, 0xa54ff53a, 0x510e527f, 0x9b05688c, 0x1f83d9ab, 0x5be0cd19]

def rotr (x : UInt32) (n : UInt32) : UInt32 := (x >>> n) ||| (x <<< (32 - n))

def bsig0 (x : UInt32) : UInt32 := rotr x 2 ^^^ rotr x 13 ^^^ rotr x 22
def bsig1 (x : UInt32) : UInt32 := rotr x 6 ^^^ rotr x 11 ^^^ rotr x 25
def ssig0 (x : UInt32) : UInt32 := rotr x 7 ^^^ rotr x 18 ^^^ (x >>> 3)
def ssig1 (x : UInt32) : UInt32 := rotr x 17 ^^^ rotr x 19 ^^^ (x >>> 10)
def ch (x y z : UInt32) : UInt32 := (x &&& y) ^^^ ((~~~ x) &&& z)
def maj (x y z : UInt32) : UInt32 := (x &&& y) ^^^ (x &&& z) ^^^ (y &&& z)

/-- message padding: 0x80, zeros, 64-bit big-endian bit length; the result is a multiple of 64 bytes -/
def pad (msg : List UInt8) : List UInt8 :=
  let l := msg.length
  let zeros := (119 - l % 64) % 64           -- so that l + 1 + zeros + 8 ≡ 0 (mod 64)
  let bits := l * 8
  msg ++ [0x80] ++ List.replicate zeros 0 ++
    (List.range 8).map (fun i => UInt8.ofNat (bits / 256 ^ (7 - i) % 256))

def word (a b c d : UInt8) : UInt32 :=
  (a.toUInt32 <<< 24) ||| (b.toUInt32 <<< 16) ||| (c.toUInt32 <<< 8) ||| d.toUInt32

def wordsOf : List UInt8 → List UInt32
  | a :: b :: c :: d :: rest => word a b c d :: wordsOf rest
  | _ => []

/-- the message schedule: 64 words from the 16 words of a block -/
def schedule (block : Array UInt32) : Array UInt32 :=
  (List.range 48).foldl (fun w i =>
    let t := i + 16
    w.push (ssig1 (w.getD (t - 2) 0) + w.getD (t - 7) 0 + ssig0 (w.getD (t - 15) 0) + w.getD (t - 16) 0)) block

structure St where
  a : UInt32
  b : UInt32
  c : UInt32
  d : UInt32
  e : UInt32
  f : UInt32
  g : UInt32
  h : UInt32

def round (w : Array UInt32) (s : St) (t : Nat) : St :=
  let t1 := s.h + bsig1 s.e + ch s.e s.f s.g + K.getD t 0 + w.getD t 0
  let t2 := bsig0 s.a + maj s.a s.b s.c
  { a := t1 + t2, b := s.a, c := s.b, d := s.c, e := s.d + t1, f := s.e, g := s.f, h := s.g }

def compress (hs : List UInt32) (block : List UInt32) : List UInt32 :=
  match hs with
  | [a, b, c, d, e, f, g, h] =>
    let w := schedule block.toArray
    let s := (List.range 64).foldl (round w) { a, b, c, d, e, f, g, h }
    [a + s.a, b + s.b, c + s.c, d + s.d, e + s.e, f + s.f, g + s.g, h + s.h]
  | _ => hs

def blocks (ws : List UInt32) : Nat → List (List UInt32)
  | 0 => []
  | n + 1 => if ws.isEmpty then [] else ws.take 16 :: blocks (ws.drop 16) n

def bytesOfWord (w : UInt32) : List UInt8 :=
  [(w >>> 24).toUInt8, (w >>> 16).toUInt8, (w >>> 8).toUInt8, w.toUInt8]

/-- SHA-256 of a byte string: 32 bytes -/
def sha256 (msg : List UInt8) : List UInt8 :=
  let ws := wordsOf (pad msg)
  ((blocks ws (ws.length / 16 + 1)).foldl compress H0).flatMap bytesOfWord

/-- the first four digest bytes as a big-endian number: the `descriptor_hash` of the record-stream format -/
def hash32 (msg : List UInt8) : Nat :=
  ((sha256 msg).take 4).foldl (fun acc b => acc * 256 + b.toNat) 0

end FlowRecord.Sha256
