import FlowRecord.Gen.Base
import FlowRecord.Gen.Record
/-!
C06: validation of record type definitions. Transcribes `is_valid_field_name`, `fieldtype`,
`RecordField.__init__`, `_generate_record_class` and `RecordDescriptor.__init__` of `flow/record/base.py`,
driven by the regular expressions, the whitelist and the reserved-field table extracted into `Gen`.
Also holds the *reference grammars* (ASCII identifier, slash-separated identifiers) written independently of
the regular expressions; `Props/C06.lean` proves the two coincide for every string.
-/
deriving instance DecidableEq for Except

namespace FlowRecord.Descriptor
open FlowRecord

/-- code points of a Lean string literal (the generated tables are `String`s) -/
def cps (s : String) : Str := s.toList.map Char.toNat

def reservedNames : List Str := Gen.RESERVED_FIELDS.map (fun p => cps p.1)
def reservedFields : List (Str × Str) := Gen.RESERVED_FIELDS.map (fun p => (cps p.1, cps p.2))
def whitelist : List Str := Gen.WHITELIST.map cps
def pyKeywords : List Str := Gen.pyKeywords.map cps

/-- `name.startswith("_")` -/
def startsWithUnderscore : Str → Bool
  | c :: _ => c == 95
  | [] => false

/-- `is_valid_field_name(name, check_reserved)`: reserved-name branch, underscore test, regex — in this order. -/
def isValidFieldName (name : Str) (checkReserved : Bool) : Bool :=
  if reservedNames.contains name then !checkReserved
  else if startsWithUnderscore name then false
  else Rx.pyMatch Gen.RE_VALID_FIELD_NAME name

/-- `RE_VALID_RECORD_TYPE_NAME.match(name)` -/
def isValidTypeName (name : Str) : Bool := Rx.pyMatch Gen.RE_VALID_RECORD_TYPE_NAME name

/-- `clspath.endswith("[]")` -/
def isListForm (t : Str) : Bool := [91, 93].isSuffixOf t

/-- `clspath[:-2]` when the path ends with `[]` -/
def stripList (t : Str) : Str := if isListForm t then t.take (t.length - 2) else t

/-- `s.rpartition(".")` → (namespace, class name) -/
def rpartitionDot (s : Str) : Str × Str :=
  let r := s.reverse
  let cls := (r.takeWhile (· != 46)).reverse
  let rest := r.dropWhile (· != 46)
  (rest.drop 1 |>.reverse, cls)

/-- What `fieldtype()` touches outside its own frame. -/
inductive Effect where
  | importModule (path : Str)
  | getattr (name : Str)
  deriving Repr, DecidableEq

inductive DescErr where
  | nameRequired          -- RecordDescriptorError("Record name is required")
  | invalidFieldName      -- RecordDescriptorError (field name)
  | invalidFieldType      -- AttributeError("Invalid field type")
  | invalidTypeName       -- RecordDescriptorError("Invalid record type name")
  | execFails             -- the generated source is refused by CPython (SyntaxError / NameError / TypeError)
  deriving Repr, DecidableEq

/-- A resolved field type: whitelisted base path and the list flag. -/
structure FT where
  base : Str
  isList : Bool
  deriving Repr, DecidableEq

def baseModule : Str := cps "flow.record.fieldtypes"

/-- `fieldtype(clspath)`: strip the list suffix, test the whitelist, and only then import / getattr. -/
def fieldtype (t : Str) : List Effect × Except DescErr FT :=
  let isList := isListForm t
  let base := stripList t
  if whitelist.contains base then
    let (ns, cls) := rpartitionDot base
    let modPath := if ns.isEmpty then baseModule else baseModule ++ [46] ++ ns
    ([.importModule modPath, .getattr cls] ++ (if isList then [.importModule baseModule] else []),
     .ok ⟨base, isList⟩)
  else ([], .error .invalidFieldType)

/-- A definition as it reaches `RecordDescriptor(name, fields)`: fields are (type, name) pairs. -/
structure Desc where
  name : Str
  fields : List (Str × Str)
  deriving Repr, DecidableEq

/-- `OrderedDict.__setitem__`: a new key is appended, an existing key keeps its position. -/
def odSet {α : Type} (m : List (Str × α)) (k : Str) (v : α) : List (Str × α) :=
  match m with
  | [] => [(k, v)]
  | (k', v') :: rest => if k' = k then (k, v) :: rest else (k', v') :: odSet rest k v

/-- association-list lookup (`dict.get` / first match) -/
def alGet {α : Type} (m : List (Str × α)) (k : Str) : Option α := (m.find? (·.1 == k)).map (·.2)

/-- keys of an association list, in order -/
def keys {α : Type} (m : List (Str × α)) : List Str := m.map (·.1)

/-- reference: the distinct elements in order of first appearance -/
def firstOcc : List Str → List Str
  | [] => []
  | k :: ks => k :: (firstOcc ks).filter (· != k)

/-- `OrderedDict(pairs)` -/
def odOfList {α : Type} (ps : List (Str × α)) : List (Str × α) := ps.foldl (fun m p => odSet m p.1 p.2) []

/-- `all_fields`: OrderedDict of the declared fields (name → type name), then `.update(required fields)`. -/
def allFields (d : Desc) : List (Str × Str) :=
  reservedFields.foldl (fun m p => odSet m p.1 p.2) (odOfList (d.fields.map fun f => (f.2, f.1)))

/-- `__slots__` of the generated class -/
def slots (d : Desc) : List Str := (allFields d).map (·.1)

/-- `name.replace("/", "_")` -/
def className (name : Str) : Str := name.map (fun c => if c = 47 then 95 else c)

/-- CPython accepts the generated source: no name carries the newline that `$` lets through, and the class
    name is not a Python keyword. (CPython's parser — enumerated by the harness, not proved.) -/
def execOk (d : Desc) : Bool :=
  !d.name.contains 10 && d.fields.all (fun f => !f.2.contains 10) && !pyKeywords.contains (className d.name)

/-- effects of resolving all field types, in order, stopping at the first failure -/
def resolveFields : List (Str × Str) → List Effect × Except DescErr (List FT)
  | [] => ([], .ok [])
  | (t, _) :: rest =>
    match fieldtype t with
    | (eff, .error e) => (eff, .error e)
    | (eff, .ok ft) =>
      match resolveFields rest with
      | (eff', .error e) => (eff ++ eff', .error e)
      | (eff', .ok fts) => (eff ++ eff', .ok (ft :: fts))

/-- `RecordDescriptor(name, fields)` → `_generate_record_class`: validation order as in the source. -/
def construct (d : Desc) : List Effect × Except DescErr (List Str) :=
  if d.name.isEmpty then ([], .error .nameRequired)
  else if d.fields.any (fun f => !isValidFieldName f.2 true) then ([], .error .invalidFieldName)
  else
    match resolveFields d.fields with
    | (eff, .error e) => (eff, .error e)
    | (eff, .ok _) =>
      if !isValidTypeName d.name then (eff, .error .invalidTypeName)
      else if !execOk d then (eff, .error .execFails)
      else (eff, .ok (slots d))

def accepts (d : Desc) : Bool := match (construct d).2 with | .ok _ => true | .error _ => false

/-! ### Reference grammars (independent of the regular expressions) -/

def isAlpha (c : Nat) : Bool := (65 ≤ c && c ≤ 90) || (97 ≤ c && c ≤ 122)
def isDigit (c : Nat) : Bool := 48 ≤ c && c ≤ 57
def isIdentStart (c : Nat) : Bool := isAlpha c || c == 95
def isIdentChar (c : Nat) : Bool := isAlpha c || isDigit c || c == 95

/-- ASCII identifier: a letter or underscore followed by letters, digits, underscores. -/
def isIdent : Str → Bool
  | [] => false
  | c :: cs => isIdentStart c && cs.all isIdentChar

/-- ASCII identifier that starts with a letter. -/
def isIdentL (s : Str) : Bool := isIdent s && !startsWithUnderscore s

/-- Python's `s.split(sep)` for a one-character separator. -/
def splitOn (sep : Nat) : Str → List Str
  | [] => [[]]
  | c :: cs =>
    if c = sep then [] :: splitOn sep cs
    else match splitOn sep cs with
      | seg :: rest => (c :: seg) :: rest
      | [] => [[c]]

/-- slash-separated sequence of ASCII identifiers, each starting with a letter -/
def isSlashIdents (s : Str) : Bool := (splitOn 47 s).all isIdentL

/-- the characters a validated name can consist of (besides the one trailing newline) -/
def isNameChar (c : Nat) : Bool := isIdentChar c || c == 47

end FlowRecord.Descriptor
