/-!
Selector expressions: a mirror of the Python `ast` node classes that `RecordContextMatcher._eval` handles.
`harness/selector_ast.py` produces exactly this shape from `ast.parse(expr, mode="eval")`.
Operators are named by their `ast` class (`"Add"`, `"Lt"`, `"NotIn"`, …) so that the interpreter model looks them
up in the generated tables by the same key the code uses. `other k` stands for every node class `_eval` has no
branch for (Subscript, Lambda, IfExp, Dict, Set, JoinedStr, ListComp, Starred, …), `k` being the class name.
-/
namespace FlowRecord.Selector

/-- `ast.Constant.value` -/
inductive Const
  | none
  | bool (b : Bool)
  | int (i : Int)
  | float (bits : Nat)
  | str (s : String)
  | bytes (b : List Nat)
  | ellipsis
  deriving Repr, DecidableEq, Inhabited

inductive Expr
  | const (c : Const)
  | list (elts : List Expr)
  | tuple (elts : List Expr)
  | name (id : String)
  | attr (value : Expr) (attr : String)
  /-- `ast.BoolOp`: `op` is `"And"` or `"Or"` -/
  | boolop (op : String) (values : List Expr)
  | binop (op : String) (left right : Expr)
  | unary (op : String) (operand : Expr)
  /-- `ast.Compare`: `left`, then `zip(ops, comparators)` -/
  | compare (left : Expr) (rest : List (String × Expr))
  /-- `ast.Call`: positional arguments, keyword arguments (`**x` and `*x` are mapped to `other`) -/
  | call (func : Expr) (args : List Expr) (kwargs : List (String × Expr))
  /-- `ast.GeneratorExp`: element and generators `(target name if the target is a Name, iter, ifs)` -/
  | genexp (elt : Expr) (gens : List (Option String × Expr × List Expr))
  | other (kind : String)
  deriving Repr, Inhabited

/-- one `for target in iter if …` clause -/
abbrev Comp := Option String × Expr × List Expr

/-- `resolve_attr_path`'s walk: the attribute names from the outside in, and the node the chain hangs off. -/
def attrChain : Expr → List String × Expr
  | .attr v a => let r := attrChain v; (a :: r.1, r.2)
  | e => ([], e)

/-- `s.startswith(p)` (on code points, so that it reduces in the kernel) -/
def hasPrefix (p s : String) : Bool := p.toList.isPrefixOf s.toList

def splitDotAux : List Char → List Char → List (List Char)
  | [], acc => [acc.reverse]
  | c :: cs, acc => if c == '.' then acc.reverse :: splitDotAux cs [] else splitDotAux cs (c :: acc)

/-- `s.split(".")` -/
def splitDot (s : String) : List String := (splitDotAux s.toList []).map String.ofList

end FlowRecord.Selector
