import FlowRecord.Model.Selector.Prim
/-!
A concrete `ClassTable`/`Prim` for the values the harness generates (None, bool, int, float, str, bytes, list,
tuple, records, typed matchers, a few field-type classes). Used by the driver only; its agreement with CPython is
a correspondence target (every C07/C08 case goes through it). Whatever is not modelled answers `unmodelled`,
never a guess. Floats use Lean's `Float` (IEEE double, same hardware operations as CPython's float).
-/
namespace FlowRecord.Selector
open FlowRecord

/-! ### numbers -/

def two53 : Int := 9007199254740992

inductive Num | i (v : Int) | f (v : Float)

def numOf : PVal → Option Num
  | .bool b => some (.i (if b then 1 else 0))
  | .int v => some (.i v)
  | .float bits => some (.f (Float.ofBits bits.toUInt64))
  | _ => none

def floatVal (f : Float) : PVal := .float f.toBits.toNat

def smallInt (v : Int) : Bool := -two53 ≤ v && v ≤ two53

/-- compare two numbers; `none` = outside what the model decides exactly -/
def numCmp (op : CmpOp) (a b : Num) : Option Bool :=
  let fl (x y : Float) : Bool :=
    match op with
    | .eq => x == y | .ne => x != y | .lt => x < y | .gt => x > y | .le => x ≤ y | .ge => x ≥ y
  match a, b with
  | .i x, .i y =>
    some (match op with
      | .eq => x == y | .ne => x != y | .lt => x < y | .gt => x > y | .le => x ≤ y | .ge => x ≥ y)
  | .i x, .f y => if smallInt x then some (fl (Float.ofInt x) y) else none
  | .f x, .i y => if smallInt y then some (fl x (Float.ofInt y)) else none
  | .f x, .f y => some (fl x y)

def cmpOrd {α} [BEq α] (lt : α → α → Bool) (op : CmpOp) (x y : α) : Bool :=
  match op with
  | .eq => x == y | .ne => !(x == y) | .lt => lt x y | .gt => lt y x | .le => !(lt y x) | .ge => !(lt x y)

def natListLt : List Nat → List Nat → Bool
  | [], [] => false
  | [], _ :: _ => true
  | _ :: _, [] => false
  | a :: as, b :: bs => if a < b then true else if b < a then false else natListLt as bs

/-! ### field-type classes that are not plain builtins -/

/-- how the class's `__eq__` treats an operand of a foreign type -/
inductive EqKind | objectDefault | notImplemented | answersFalse | raisesTypeErr
  deriving DecidableEq, Repr

def ftEqKind (ft : String) : EqKind :=
  if ft == "command" || ft == "net.ipaddress" || ft == "net.ipnetwork" || ft == "net.IPAddress"
      || ft == "net.IPNetwork" then .answersFalse
  else if ft == "net.ipv4.Address" then .raisesTypeErr
  else if ft == "digest" || ft == "net.ipv4.Subnet" then .objectDefault
  else .notImplemented

/-- classes with a `__contains__` that answers False for foreign operands -/
def ftContainsTolerant (ft : String) : Bool :=
  ft == "net.ipnetwork" || ft == "net.IPNetwork" || ft == "net.ipv4.Subnet"

def isNoneVal : PVal → Bool
  | .none => true
  | _ => false

/-- TypeError, flagged when the message would name NoneType -/
def tyErr (vs : List PVal) : Err := if vs.any isNoneVal then .typeErrNone else .typeErr

/-! ### records and typed matchers -/

def reservedNames : List String := Gen.RESERVED_FIELDS.map (·.1)

def recFields : PVal → List (String × String × PVal)
  | .recv _ fs => fs
  | _ => []

/-- `rec._desc.fields`: the declared fields -/
def declaredFields (r : PVal) : List (String × String × PVal) :=
  (recFields r).filter (fun f => !(reservedNames.contains f.1))

def recGet (r : PVal) (name : String) : Option PVal :=
  ((recFields r).find? (fun f => f.1 == name)).map (·.2.2)

/-- is `parts` a complete whitelisted type path / a proper prefix of one -/
def wlComplete (parts : List String) : Bool := Gen.WHITELIST.contains (".".intercalate parts)
def wlPrefix (parts : List String) : Bool :=
  Gen.WHITELIST.any (fun w => (".".intercalate parts ++ ".").isPrefixOf w)

/-- attributes of field values the model knows (`none` = AttributeError) -/
def valueAttr (v : PVal) (a : String) : Option PVal :=
  let strMeth := ["upper", "lower", "strip", "title", "encode", "format", "join", "split", "startswith", "endswith",
    "replace", "isdigit", "count", "find", "index"]
  match v with
  | .str _ => if strMeth.contains a then some (.foreign 1) else none
  | .int i =>
    if a == "real" || a == "numerator" then some (.int i)
    else if a == "imag" then some (.int 0)
    else if a == "denominator" then some (.int 1)
    else if ["bit_length", "to_bytes", "conjugate"].contains a then some (.foreign 2)
    else none
  | .bool b =>
    if a == "real" || a == "numerator" then some (.int (if b then 1 else 0))
    else if a == "imag" then some (.int 0)
    else if a == "denominator" then some (.int 1)
    else if ["bit_length", "to_bytes", "conjugate"].contains a then some (.foreign 2)
    else none
  | .list _ => if ["count", "index", "append", "pop", "copy", "sort"].contains a then some (.foreign 3) else none
  | .tuple _ => if ["count", "index"].contains a then some (.foreign 3) else none
  | .bytes _ => if ["decode", "hex", "upper", "lower", "strip"].contains a then some (.foreign 4) else none
  | .foreign k => some (.foreign (k + 1000))
  | _ => none

/-- `TypeMatcherInstance._values()` on record `r` -/
def tmValuesOf (r : PVal) (parts attrs : List String) : List PVal :=
  if !wlComplete parts then []
  else
    let ft := ".".intercalate parts
    ((declaredFields r).filter (fun f => f.2.1 == ft)).filterMap (fun f =>
      let obj := attrs.foldl (fun o a =>
        match o with
        | .missing => .missing
        | o => (match o with
                | .recv _ _ => recGet o a
                | _ => valueAttr o a).getD .missing) f.2.2
      if obj.isMissing then none else some obj)

/-- `_subrecords()`: the values of `record` fields (not None) and the members of `record[]` fields -/
def subrecordsOf (r : PVal) : List PVal :=
  (((declaredFields r).filter (fun f => f.2.1 == "record")).filterMap (fun f =>
      match f.2.2 with | .recv n fs => some (.recv n fs) | _ => none)) ++
  (((declaredFields r).filter (fun f => f.2.1 == "record[]")).flatMap (fun f =>
      match f.2.2 with | .list xs => xs | _ => []))

/-- `_op(op, other)`: some value here or in a nested record satisfies `op(v, other)` (nesting bounded by fuel) -/
def tmOp (truthy : PVal → Bool) (op : PVal → Except Err PVal) (parts attrs : List String) : Nat → PVal → Except Err Bool
  | 0, _ => .error .unmodelled
  | fuel + 1, r =>
    let rec own : List PVal → Except Err Bool
      | [] => .ok false
      | v :: vs => match op v with
        | .error e => .error e
        | .ok x => if truthy x then .ok true else own vs
    let rec subs : List PVal → Except Err Bool
      | [] => .ok false
      | s :: ss => match tmOp truthy op parts attrs fuel s with
        | .error e => .error e
        | .ok true => .ok true
        | .ok false => subs ss
    match own (tmValuesOf r parts attrs) with
    | .error e => .error e
    | .ok true => .ok true
    | .ok false => subs (subrecordsOf r)

/-! ### the concrete class table (fuel = nesting depth of containers) -/

def identC : PVal → PVal → Bool
  | .none, .none => true
  | .bool a, .bool b => a == b
  | .builtin a, .builtin b => a == b
  | .ftype a, .ftype b => a == b
  | .typeRoot, .typeRoot => true
  | .foreign a, .foreign b => a == b
  | _, _ => false

def truthyC : PVal → Bool
  | .none => false
  | .bool b => b
  | .int i => i != 0
  | .float bits => let f := Float.ofBits bits.toUInt64; !(f == 0.0)
  | .str s => !s.isEmpty
  | .bytes b => !b.isEmpty
  | .list xs => !xs.isEmpty
  | .tuple xs => !xs.isEmpty
  | .strset xs => !xs.isEmpty
  | .missing => sentinelTruthy
  | .fval "dictlist" (.list xs) => !xs.isEmpty
  | _ => true

def subStr (needle hay : String) : Bool := needle.isEmpty || (hay.splitOn needle).length > 1

def subList : List Nat → List Nat → Bool
  | needle, [] => needle.isEmpty
  | needle, b :: hay => needle.isPrefixOf (b :: hay) || subList needle hay

/-- elementwise sequence comparison as CPython does it: skip the common prefix (identity or `==`), then compare
    the first differing pair with `op`, or the lengths -/
def seqCmp (rc : CmpOp → PVal → PVal → Except Err PVal) (ident : PVal → PVal → Bool) (op : CmpOp) :
    List PVal → List PVal → Except Err PVal
  | [], [] => .ok (.bool (op == .eq || op == .le || op == .ge))
  | [], _ :: _ => .ok (.bool (op == .ne || op == .lt || op == .le))
  | _ :: _, [] => .ok (.bool (op == .ne || op == .gt || op == .ge))
  | a :: as, b :: bs =>
    if ident a b then seqCmp rc ident op as bs
    else
      match rc .eq a b with
      | .error e => .error e
      | .ok v =>
        if truthyC v then seqCmp rc ident op as bs
        else
          match op with
          | .eq => .ok (.bool false)
          | .ne => .ok (.bool true)
          | _ => rc op a b

def exceptToMeth : Except Err PVal → MethRes
  | .ok v => .val v
  | .error e => .raise e

def cT : Nat → PVal → ClassTable
  | 0, _ =>
    { cmp := fun _ _ _ => .raise .unmodelled, contains := fun _ => some (fun _ => .error .unmodelled),
      iter := fun _ => some (.error .unmodelled), truthy := truthyC, ident := identC }
  | fuel + 1, rec =>
    let T := cT fuel rec
    { truthy := truthyC
      ident := identC
      cmp := fun a op b =>
        match numOf a, numOf b with
        | some x, some y => (match numCmp op x y with | some r => .val (.bool r) | none => .raise .unmodelled)
        | _, _ =>
          match a, b with
          | .none, .none => (match op with | .eq => .val (.bool true) | .ne => .val (.bool false) | _ => .notImpl)
          | .str x, .str y => .val (.bool (cmpOrd (fun p q => p < q) op x y))
          | .bytes x, .bytes y => .val (.bool (cmpOrd natListLt op x y))
          | .list x, .list y => exceptToMeth (seqCmp (richcmp T) (isId T) op x y)
          | .tuple x, .tuple y => exceptToMeth (seqCmp (richcmp T) (isId T) op x y)
          | .strset x, .strset y =>
            (match op with
             | .eq => .val (.bool (x.all y.contains && y.all x.contains))
             | .ne => .val (.bool !(x.all y.contains && y.all x.contains))
             | _ => .raise .unmodelled)
          | .recv n fs, other =>
            (match op, other with
             | .eq, .recv _ _ => .raise .unmodelled
             | .ne, .recv _ _ => .raise .unmodelled
             | .eq, _ => .val (.bool false)
             | .ne, _ => .val (.bool true)
             | _, _ => let _ := (n, fs); .notImpl)
          | .tmatch parts attrs, other =>
            (match tmOp truthyC (fun v => richcmp T op v other) parts attrs 8 rec with
             | .ok r => .val (.bool r)
             | .error e => .raise e)
          | .fval ft p, other =>
            (match other with
             | .fval ft2 p2 =>
               if ft == ft2 && ft == "datetime" then
                 (match p, p2 with
                  | .int x, .int y =>
                    .val (.bool (cmpOrd (fun (p q : Int) => p < q) op x y))
                  | _, _ => .raise .unmodelled)
               else .raise .unmodelled
             | .missing =>
               (match ftEqKind ft, op with
                | .answersFalse, .eq => .val (.bool false)
                | .answersFalse, .ne => .val (.bool true)
                | .raisesTypeErr, .eq => .raise .typeErr
                | .raisesTypeErr, .ne => .raise .typeErr
                | _, _ => .notImpl)
             | _ => .raise .unmodelled)
          | x, y =>
            match x, y with
            | .missing, _ => .raise .unmodelled
            | _, .fval _ _ => .notImpl
            | _, .tmatch _ _ => .notImpl
            | _, _ =>
              (match op with
               | .eq => if identC x y then .val (.bool true) else .notImpl
               | .ne => if identC x y then .val (.bool false) else .notImpl
               | _ => .notImpl)
      contains := fun c =>
        match c with
        | .str s => some (fun x => match x with
            | .str y => .ok (.bool (subStr y s))
            | other => .error (tyErr [other]))
        | .bytes s => some (fun x => match x with
            | .bytes y => .ok (.bool (subList y s))
            | .int i => if 0 ≤ i && i < 256 then .ok (.bool (s.contains i.toNat)) else .error .valueErr
            | .bool b => .ok (.bool (s.contains (if b then 1 else 0)))
            | other => .error (tyErr [other]))
        | .strset s => some (fun x => match x with
            | .str y => .ok (.bool (s.contains y))
            | .list _ => .error .typeErr
            | _ => .ok (.bool false))
        | .tmatch parts attrs => some (fun x =>
            (tmOp truthyC (fun v => (pyIn T x v).map PVal.bool) parts attrs 8 rec).map PVal.bool)
        | .fval ft _ =>
          if ftContainsTolerant ft then
            some (fun x => match x with | .missing => .ok (.bool false) | _ => .error .unmodelled)
          else if ft == "dictlist" then some (fun _ => .error .unmodelled)
          else none
        | .foreign _ => some (fun _ => .error .unmodelled)
        | _ => none
      iter := fun c =>
        match c with
        | .str s => some (.ok (s.toList.map (fun ch => .str (String.singleton ch))))
        | .bytes b => some (.ok (b.map (fun n => .int (Int.ofNat n))))
        | .strset s => some (.ok (s.map .str))
        | .list xs => some (.ok xs)
        | .tuple xs => some (.ok xs)
        | .tmatch parts _ =>
          some (.ok (((declaredFields rec).filter (fun f => wlComplete parts && f.2.1 == ".".intercalate parts)).map
            (fun f => .str f.1)))
        | .gen => some (.error .unmodelled)
        | .foreign _ => some (.error .unmodelled)
        | .fval "dictlist" _ => some (.error .unmodelled)
        | _ => none }

def classTable (rec : PVal) : ClassTable := cT 12 rec

/-! ### arithmetic -/

def repeatList {α} (xs : List α) : Nat → List α
  | 0 => []
  | n + 1 => xs ++ repeatList xs n

def floatOf : Num → Option Float
  | .i v => if smallInt v then some (Float.ofInt v) else none
  | .f v => some v

/-- Python's float `%`: the result takes the sign of the divisor -/
def floatMod (x y : Float) : Float :=
  let m := x - y * Float.floor (x / y)
  m

def arithC (op : ArithOp) (a b : PVal) : Except Err PVal :=
  let te : Except Err PVal := .error (tyErr [a, b])
  match numOf a, numOf b with
  | some (.i x), some (.i y) =>
    (match op with
     | .add => .ok (.int (x + y))
     | .mul => .ok (.int (x * y))
     | .mod => if y == 0 then .error .zeroDiv else .ok (.int (Int.fmod x y))
     | .truediv =>
       if y == 0 then .error .zeroDiv
       else if smallInt x && smallInt y then .ok (floatVal (Float.ofInt x / Float.ofInt y)) else .error .unmodelled
     | .and_ =>
       (match a, b with
        | .bool p, .bool q => .ok (.bool (p && q))
        | _, _ => if 0 ≤ x && 0 ≤ y then .ok (.int (Int.ofNat (x.toNat &&& y.toNat))) else .error .unmodelled)
     | .or_ =>
       (match a, b with
        | .bool p, .bool q => .ok (.bool (p || q))
        | _, _ => if 0 ≤ x && 0 ≤ y then .ok (.int (Int.ofNat (x.toNat ||| y.toNat))) else .error .unmodelled))
  | some x, some y =>
    (match floatOf x, floatOf y with
     | some p, some q =>
       (match op with
        | .add => .ok (floatVal (p + q))
        | .mul => .ok (floatVal (p * q))
        | .truediv => if q == 0.0 then .error .zeroDiv else .ok (floatVal (p / q))
        | .mod => if q == 0.0 then .error .zeroDiv else .error .unmodelled
        | _ => .error .typeErr)
     | _, _ => .error .unmodelled)
  | _, _ =>
    match op, a, b with
    | .add, .str x, .str y => .ok (.str (x ++ y))
    | .add, .bytes x, .bytes y => .ok (.bytes (x ++ y))
    | .add, .list x, .list y => .ok (.list (x ++ y))
    | .add, .tuple x, .tuple y => .ok (.tuple (x ++ y))
    | .mul, x, y =>
      let rep (seq : PVal) (n : Int) : Except Err PVal :=
        if n ≥ 1000 then .error .unmodelled
        else match seq with
          | .str v => .ok (.str (String.join (repeatList [v] n.toNat)))
          | .bytes v => .ok (.bytes (repeatList v n.toNat))
          | .list v => .ok (.list (repeatList v n.toNat))
          | .tuple v => .ok (.tuple (repeatList v n.toNat))
          | _ => te
      let asInt (v : PVal) : Option Int := match v with
        | .int n => some n | .bool b => some (if b then 1 else 0) | _ => none
      let isSeq (v : PVal) : Bool := match v with
        | .str _ => true | .bytes _ => true | .list _ => true | .tuple _ => true | _ => false
      (match isSeq x, asInt y, asInt x, isSeq y with
       | true, some n, _, _ => rep x n
       | _, _, some n, true => rep y n
       | _, _, _, _ =>
         match x, y with
         | .fval _ _, _ => .error .unmodelled
         | _, .fval _ _ => .error .unmodelled
         | .strset _, _ => .error .unmodelled
         | _, .strset _ => .error .unmodelled
         | _, _ => te)
    | .mod, .str _, _ => .error .unmodelled
    | .mod, .bytes _, _ => .error .unmodelled
    | _, .fval _ _, _ => .error .unmodelled
    | _, _, .fval _ _ => .error .unmodelled
    | _, .strset _, _ => .error .unmodelled
    | _, _, .strset _ => .error .unmodelled
    | _, _, _ => te

/-! ### the whitelisted helpers and builtins -/

def asciiOnly (s : String) : Bool := s.toList.all (fun c => c.toNat < 128)

def lowerC : PVal → Except Err PVal
  | .str s => if asciiOnly s then .ok (.str s.toLower) else .error .unmodelled
  | .fval _ _ => .error .unmodelled
  | v => .ok v

def upperC : PVal → Except Err PVal
  | .str s => if asciiOnly s then .ok (.str s.toUpper) else .error .unmodelled
  | .fval _ _ => .error .unmodelled
  | v => .ok v

def strOf : PVal → Except Err PVal
  | .str s => .ok (.str s)
  | .int i => .ok (.str (toString i))
  | .bool b => .ok (.str (if b then "True" else "False"))
  | .none => .ok (.str "None")
  | _ => .error .unmodelled

def listOfStrs : List PVal → Option (List String)
  | [] => some []
  | .str s :: rest => (listOfStrs rest).map (s :: ·)
  | _ => none

def mapM' {α β} (f : α → Except Err β) : List α → Except Err (List β)
  | [] => .ok []
  | x :: xs => match f x with
    | .error e => .error e
    | .ok y => (mapM' f xs).map (y :: ·)

def anyTruthy (T : ClassTable) : List PVal → Bool
  | [] => false
  | v :: vs => truthyOf T v || anyTruthy T vs

def allTruthy (T : ClassTable) : List PVal → Bool
  | [] => true
  | v :: vs => truthyOf T v && allTruthy T vs

/-- the loop shared by `field_equals` / `field_contains` (word_boundary=False): missing fields are skipped -/
def fieldLoop (T : ClassTable) (r : PVal) (test : PVal → PVal → Except Err Bool) (nocase : Bool)
    (strings : List PVal) : List PVal → Except Err Bool
  | [] => .ok false
  | f :: fs =>
    match f with
    | .str fname =>
      (match recGet r fname with
       | none => fieldLoop T r test nocase strings fs
       | some fv0 =>
         match (if nocase then lowerC fv0 else .ok fv0) with
         | .error e => .error e
         | .ok fv =>
           let rec inner : List PVal → Except Err Bool
             | [] => .ok false
             | s :: ss => match test s fv with
               | .error e => .error e
               | .ok true => .ok true
               | .ok false => inner ss
           match inner strings with
           | .error e => .error e
           | .ok true => .ok true
           | .ok false => fieldLoop T r test nocase strings fs)
    | _ => .error .unmodelled

/-- a regular expression that is just a literal: letters, digits, space, `_`, `/`, `-` (no metacharacter) -/
def plainPattern (p : String) : Bool :=
  p.toList.all fun c => c.isAlphanum || c == ' ' || c == '_' || c == '/' || c == '-'

def kwBool (kw : List (String × PVal)) (k : String) (dflt : Bool) : Except Err Bool :=
  match kw.lookup k with
  | none => .ok dflt
  | some (.bool b) => .ok b
  | some _ => .error .unmodelled

def callC (T : ClassTable) (_rec : PVal) (f : PVal) (args : List PVal) (kw : List (String × PVal)) : Except Err PVal :=
  if (kw.lookup "**").isSome then .error .typeErr else
  match f, args with
  | .builtin "lower", [x] => if kw.isEmpty then lowerC x else .error .typeErr
  | .builtin "upper", [x] => if kw.isEmpty then upperC x else .error .typeErr
  | .builtin "str", [x] => if kw.isEmpty then strOf x else .error .unmodelled
  | .builtin "name", [x] =>
    (match x with | .recv n _ => .ok (.str n) | .fval _ _ => .error .unmodelled | _ => .ok (.str "UnknownRecord"))
  | .builtin "names", [x] =>
    (match x with | .recv n _ => .ok (.strset [n]) | .fval _ _ => .error .unmodelled
                  | _ => .ok (.list [.str "UnknownRecord"]))
  | .builtin "has_field", [r, fld] =>
    (match r, fld with
     | .recv _ _, .str s => .ok (.bool ((declaredFields r).any (fun f => f.1 == s)))
     | .recv _ _, _ => .error .unmodelled
     | _, _ => .error .attrErr)
  | .builtin "any", [x] =>
    (match x with
     | .list xs => .ok (.bool (anyTruthy T xs))
     | .tuple xs => .ok (.bool (anyTruthy T xs))
     | .none => .error .typeErrNone
     | .int _ => .error .typeErr
     | .bool _ => .error .typeErr
     | _ => .error .unmodelled)
  | .builtin "all", [x] =>
    (match x with
     | .list xs => .ok (.bool (allTruthy T xs))
     | .tuple xs => .ok (.bool (allTruthy T xs))
     | .none => .error .typeErrNone
     | .int _ => .error .typeErr
     | .bool _ => .error .typeErr
     | _ => .error .unmodelled)
  | .builtin "field_equals", r :: fields :: strings :: rest =>
    (match r, T.iter fields, T.iter strings, rest with
     | .recv _ _, some (.ok fs), some (.ok ss), [] =>
       (match kwBool kw "nocase" true with
        | .error e => .error e
        | .ok nocase =>
          match (if nocase then mapM' lowerC ss else .ok ss) with
          | .error e => .error e
          | .ok ss' =>
            (fieldLoop T r (fun s fv => (richcmp T .eq s fv).map (truthyOf T)) nocase ss' fs).map PVal.bool)
     | _, _, _, _ => .error .unmodelled)
  | .builtin "field_contains", r :: fields :: strings :: rest =>
    (match r, T.iter fields, T.iter strings, rest, kw.lookup "word_boundary" with
     | .recv _ _, some (.ok fs), some (.ok ss), [], none =>
       (match kwBool kw "nocase" true with
        | .error e => .error e
        | .ok nocase =>
          match (if nocase then mapM' lowerC ss else .ok ss) with
          | .error e => .error e
          | .ok ss' => (fieldLoop T r (fun s fv => pyIn T s fv) nocase ss' fs).map PVal.bool)
     | _, _, _, _, _ => .error .unmodelled)
  | .builtin "field_regex", r :: fields :: pattern :: rest =>
    -- `re.search(re.compile(regex), fvalue)` for every field the record has; modelled for patterns without regex
    -- metacharacters (a plain pattern is a substring test); anything else is `re`'s business (unmodelled)
    (match r, T.iter fields, pattern, rest, kw with
     | .recv _ _, some (.ok fs), .str pat, [], [] =>
       if !plainPattern pat then .error .unmodelled else
       (fieldLoop T r (fun s fv => match s, fv with
          | .str p, .str v => .ok (subStr p v)
          | _, .none => .error .typeErrNone
          | _, .fval _ _ => .error .unmodelled
          | _, _ => .error .typeErr) false [.str pat] fs).map PVal.bool
     | _, _, _, _, _ => .error .unmodelled)
  | .ftype "string", [.str s] => .ok (.str s)
  | .ftype "wstring", [.str s] => .ok (.str s)
  | .ftype "varint", [.int i] => .ok (.int i)
  | _, _ => .error .unmodelled

/-! ### attributes and the whitelist module objects -/

def getattrC (rec : PVal) (obj : PVal) (a : String) : Option PVal :=
  match obj with
  | .recv _ _ =>
    (match recGet obj a with
     | some v => some v
     | none => if a == "_desc" then some (.foreign 900) else none)
  | .typeRoot => if wlComplete [a] || wlPrefix [a] then some (.tmatch [a] []) else some .missing
  | .tmatch parts attrs =>
    if wlComplete parts then
      (if hasPrefix "_" a then some .missing else some (.tmatch parts (attrs ++ [a])))
    else if wlComplete (parts ++ [a]) || wlPrefix (parts ++ [a]) then some (.tmatch (parts ++ [a]) [])
    else some .missing
  | .missing => let _ := rec; none
  | .ftype path =>
    -- attribute access on the `net` package object (compiled engine): the whitelisted constructor paths
    let full := if path.isEmpty then a else path ++ "." ++ a
    if wlComplete (splitDot full) || wlPrefix (splitDot full) then some (.ftype full) else none
  | v => valueAttr v a

/-- `getattr(DynamicFieldtypeModule(path), part)` -/
def modattrC (obj : PVal) (part : String) : Except Err PVal :=
  match obj with
  | .ftype path =>
    -- instance/class attributes found by normal lookup shadow `__getattr__`
    if part == "path" then .ok (.str path)
    else if part == "gettypename" then .ok (.foreign 901)
    else if hasPrefix "__" part then .error .unmodelled
    else
      let full := if path.isEmpty then part else path ++ "." ++ part
      if wlComplete (splitDot full) || wlPrefix (splitDot full) then .ok (.ftype full) else .error .attrErr
  | .str _ => .error .attrErr
  | _ => .error .unmodelled

def concretePrim (rec : PVal) : Prim :=
  let T := classTable rec
  { truthy := truthyOf T
    rich := richcmp T
    contains := fun c x => pyIn T x c
    is_ := isId T
    arith := arithC
    getattr := getattrC rec
    iter := fun v =>
      match v with
      | .list xs => .ok xs
      | .tuple xs => .ok xs
      | .none => .error .typeErrNone
      | v => match T.iter v with
        | some r => r
        | none => .error .typeErr
    call := callC T rec
    dynft := modattrC (.ftype "")
    modattr := modattrC
    tmValues := fun r m => match m with
      | .tmatch parts attrs => tmValuesOf r parts attrs
      | _ => [] }

end FlowRecord.Selector
