import FlowRecord.Model.Selector.Prim
/-!
The reference meaning of a selector expression: Python's evaluation rules written down directly (pure, lexical
environment, no mutable namespace, no operator tables from the code — the *documented* operator set `docArith` /
`docCmp`), over the same primitives `Prim` the engines use.

Two namespace views:
* `compiled = false` — the documented language over the record's field values. A field (attribute) the value does
  not have, the missing-field sentinel reaching arithmetic or membership, and a typed matcher on the left of a
  membership test have no Python meaning over plain field values: the reference says `undefined` there (C08 owns
  those cases). Calls are the documented ones (names bound at namespace construction, whitelisted constructors).
* `compiled = true` — `CompiledSelector.match`: plain `eval` in the namespace {helpers, `net`, `r` ↦ wrapped
  record, `Type`} + builtins; a missing attribute of the wrapped record is the sentinel, everything else is Python.
-/
namespace FlowRecord.Selector
open FlowRecord

abbrev Env := List (String × PVal)

structure RefCfg where
  compiled : Bool
  record : PVal

def pyBuiltinsModelled : List String := ["any", "all", "str", "repr"]
def pyBuiltinsOther : List String :=
  ["len", "int", "float", "bool", "list", "tuple", "set", "dict", "min", "max", "sum", "sorted", "abs",
   "isinstance", "type", "print", "ord", "chr", "bytes", "range", "enumerate", "zip", "map", "filter", "getattr",
   "hasattr", "setattr", "eval", "exec", "open", "id", "hash", "iter", "next", "object", "vars", "dir", "globals",
   "locals", "compile", "callable", "format", "hex", "oct", "bin", "round", "pow", "divmod", "slice", "reversed",
   "frozenset", "bytearray", "memoryview", "complex", "input", "super", "staticmethod", "classmethod", "property",
   "issubclass", "delattr", "ascii", "breakpoint", "help", "exit", "quit", "Exception", "__import__", "__name__",
   "__builtins__", "__doc__", "__debug__", "NotImplemented", "Ellipsis", "copyright", "credits", "license"]

/-- a global name -/
def refName (P : Prim) (cfg : RefCfg) (id : String) : Except Err PVal :=
  if cfg.compiled then
    if id == "r" then .ok cfg.record
    else if id == "Type" then .ok .typeRoot
    else if id == "net" then P.dynft "net"
    else if Gen.FUNCTION_WHITELIST.contains id || pyBuiltinsModelled.contains id then .ok (.builtin id)
    else if pyBuiltinsOther.contains id then .error .unmodelled
    else .error .nameErr
  else if baseKeys.contains id then .ok (baseVal cfg.record id)
  else P.dynft id

def rList (self : Env → Expr → Except Err PVal) (env : Env) : List Expr → Except Err (List PVal)
  | [] => .ok []
  | e :: es =>
    match self env e with
    | .error x => .error x
    | .ok v =>
      match rList self env es with
      | .error x => .error x
      | .ok vs => .ok (v :: vs)

def rKwargs (self : Env → Expr → Except Err PVal) (env : Env) : List (String × Expr) → Except Err (List (String × PVal))
  | [] => .ok []
  | (k, e) :: es =>
    match self env e with
    | .error x => .error x
    | .ok v =>
      match rKwargs self env es with
      | .error x => .error x
      | .ok vs => .ok ((k, v) :: vs)

/-- `a and b and …` / `a or b or …`: the first operand that decides, else the last -/
def rBool (P : Prim) (self : Env → Expr → Except Err PVal) (env : Env) (isOr : Bool) : List Expr → PVal → Except Err PVal
  | [], last => .ok last
  | e :: rest, _ =>
    match self env e with
    | .error x => .error x
    | .ok v => if P.truthy v == isOr then .ok v else rBool P self env isOr rest v

/-- one comparison link -/
def rCompare (P : Prim) (cfg : RefCfg) (op : String) (l r : PVal) : Except Err PVal :=
  match docCmp op with
  | none => .error .unmodelled
  | some (.rich o) => P.rich o l r
  | some .is_ => .ok (.bool (P.is_ l r))
  | some .isNot => .ok (.bool (!P.is_ l r))
  | some .guardedIn =>
    if !cfg.compiled && (l.isMissing || r.isMissing || l.isTmatch) then .error .undefined
    else (P.contains r l).map PVal.bool
  | some .guardedNotIn =>
    if !cfg.compiled && (l.isMissing || r.isMissing || l.isTmatch) then .error .undefined
    else (P.contains r l).map (fun b => PVal.bool (!b))

/-- `a op1 b op2 c …` = `a op1 b and b op2 c and …`, each operand evaluated once -/
def rChain (P : Prim) (cfg : RefCfg) (self : Env → Expr → Except Err PVal) (env : Env) :
    PVal → List (String × Expr) → PVal → Except Err PVal
  | _, [], result => .ok result
  | left, (op, c) :: rest, _ =>
    match self env c with
    | .error x => .error x
    | .ok right =>
      match rCompare P cfg op left right with
      | .error x => .error x
      | .ok res => if !P.truthy res then .ok res else rChain P cfg self env right rest res

def rIfs (P : Prim) (self : Env → Expr → Except Err PVal) (env : Env) : List Expr → Except Err Bool
  | [] => .ok true
  | c :: cs =>
    match self env c with
    | .error x => .error x
    | .ok v => if P.truthy v then rIfs P self env cs else .ok false

def rForVals (body : PVal → Except Err (Option Bool)) : List PVal → Except Err (Option Bool)
  | [] => .ok none
  | v :: vs =>
    match body v with
    | .error x => .error x
    | .ok (some b) => .ok (some b)
    | .ok none => rForVals body vs

/-- the nested `for` clauses of a generator expression consumed by `any` / `all` -/
def rLoop (P : Prim) (cfg : RefCfg) (self : Env → Expr → Except Err PVal) (c : Consumer) (elt : Expr) :
    List Comp → Env → Except Err (Option Bool)
  | [], env =>
    match self env elt with
    | .error x => .error x
    | .ok v => .ok (c.step (P.truthy v))
  | (tgt, iter, ifs) :: rest, env =>
    match tgt with
    | none => .error .unmodelled
    | some x =>
      match self env iter with
      | .error e => .error e
      | .ok itv =>
        if !cfg.compiled && itv.isMissing then .error .undefined
        else
          match P.iter itv with
          | .error e => .error e
          | .ok vals =>
            rForVals (fun val =>
              let env' := (x, val) :: env
              match rIfs P self env' ifs with
              | .error e => .error e
              | .ok false => .ok none
              | .ok true => rLoop P cfg self c elt rest env') vals

/-- the constructor object behind a whitelisted dotted path -/
def rResolve (P : Prim) : PVal → List String → Except Err PVal
  | obj, [] => .ok obj
  | obj, part :: parts =>
    match P.modattr obj part with
    | .error e => .error e
    | .ok nxt => rResolve P nxt parts

def rCall (P : Prim) (cfg : RefCfg) (self : Env → Expr → Except Err PVal) (env : Env)
    (func : Expr) (args : List Expr) (kwargs : List (String × Expr)) : Except Err PVal :=
  let target : Except Err PVal :=
    if cfg.compiled then self env func
    else
      match resolveAttrPath func with
      | none => .error .invalidOp
      | some fname =>
        if allowedCalls.contains fname then .ok (.builtin fname)
        else if Gen.WHITELIST.contains fname then rResolve P (.ftype "") (fname.splitOn ".")
        else .error .invalidOp
  match target with
  | .error e => .error e
  | .ok f =>
    let consumer := match f with | .builtin n => consumerOf n | _ => none
    match consumer, args, kwargs with
    | some c, [.genexp elt gens], [] =>
      (match rLoop P cfg self c elt gens env with
       | .error e => .error e
       | .ok r => .ok (.bool (r.getD c.default)))
    | _, _, _ =>
      match rList self env args with
      | .error e => .error e
      | .ok a =>
        match rKwargs self env kwargs with
        | .error e => .error e
        | .ok k => P.call f a k

def refStep (P : Prim) (cfg : RefCfg) (self : Env → Expr → Except Err PVal) (env : Env) (e : Expr) : Except Err PVal :=
  match e with
  | .const c => .ok (constVal c)
  | .list es => (rList self env es).map PVal.list
  | .tuple es => (rList self env es).map PVal.tuple
  | .name id =>
    (match env.lookup id with
     | some v => .ok v
     | none => refName P cfg id)
  | .attr v a =>
    if !cfg.compiled && a.startsWith "__" then .error .invalidOp
    else
      match self env v with
      | .error x => .error x
      | .ok obj =>
        match P.getattr obj a with
        | some r => .ok r
        | none =>
          if cfg.compiled then
            (match obj with | .recv _ _ => .ok .missing | _ => .error .attrErr)
          else .error .undefined
  | .boolop op vs => rBool P self env (op == "Or") vs .none
  | .binop op l r =>
    (match self env l with
     | .error x => .error x
     | .ok lv =>
       match self env r with
       | .error x => .error x
       | .ok rv =>
         if !cfg.compiled && (lv.isMissing || rv.isMissing) then .error .undefined
         else
           match docArith op with
           | some a => P.arith a lv rv
           | none => .error .unmodelled)
  | .unary op x =>
    if op == "Not" then
      (match self env x with
       | .error e => .error e
       | .ok v => .ok (.bool (!P.truthy v)))
    else .error .unmodelled
  | .compare l rest =>
    (match self env l with
     | .error x => .error x
     | .ok lv => rChain P cfg self env lv rest (.bool true))
  | .call f args kwargs => rCall P cfg self env f args kwargs
  | .genexp _ _ => .ok .gen
  | .other _ => .error .unmodelled

def refEval (P : Prim) (cfg : RefCfg) : Nat → Env → Expr → Except Err PVal
  | 0 => fun _ _ => .error .fuel
  | fuel + 1 => refStep P cfg (refEval P cfg fuel)

/-- the documented meaning over the record's field values -/
def refMatch (P : Prim) (fuel : Nat) (rec : PVal) (e : Expr) : Except Err PVal :=
  refEval P { compiled := false, record := rec } fuel [] e

/-- `CompiledSelector.match` -/
def compiledMatch (P : Prim) (fuel : Nat) (rec : PVal) (e : Expr) : Except Err PVal :=
  refEval P { compiled := true, record := rec } fuel [] e

end FlowRecord.Selector
