import FlowRecord.Model.Selector.Prim
/-!
The reference meaning of a selector expression: Python's evaluation rules written down directly (pure, lexical
environment, no mutable namespace, no operator tables from the code — the *documented* operator set `docArith` /
`docCmp`), over the same primitives `Prim` the engines use.

Two namespace views:
* `compiled = false` — the documented language over the record's field values. A field (attribute) the value does
  not have, the missing-field sentinel reaching arithmetic or membership, and a typed matcher on the left of a
  membership test have no Python meaning over plain field values: the reference says `undefined` there (C08 owns
  those cases). Calls are the documented ones (names bound at namespace construction, whitelisted constructors).
* `compiled = true` — `CompiledSelector.match`: plain `eval` in the namespace {helpers, `net`, `r` ↦ wrapped
  record, `Type`} + builtins; a missing attribute of the wrapped record is the sentinel, everything else is Python.
-/
namespace FlowRecord.Selector
open FlowRecord

abbrev Env := List (String × PVal)

structure RefCfg where
  compiled : Bool
  record : PVal

def pyBuiltinsModelled : List String := ["any", "all", "str", "repr"]
def pyBuiltinsOther : List String :=
  ["len", "int", "float", "bool", "list", "tuple", "set", "dict", "min", "max", "sum", "sorted", "abs",
   "isinstance", "type", "print", "ord", "chr", "bytes", "range", "enumerate", "zip", "map", "filter", "getattr",
   "hasattr", "setattr", "eval", "exec", "open", "id", "hash", "iter", "next", "object", "vars", "dir", "globals",
   "locals", "compile", "callable", "format", "hex", "oct", "bin", "round", "pow", "divmod", "slice", "reversed",
   "frozenset", "bytearray", "memoryview", "complex", "input", "super", "staticmethod", "classmethod", "property",
   "issubclass", "delattr", "ascii", "breakpoint", "help", "exit", "quit", "Exception", "__import__", "__name__",
   "__builtins__", "__doc__", "__debug__", "NotImplemented", "Ellipsis", "copyright", "credits", "license"]

/-- a global name -/
def refName (P : Prim) (cfg : RefCfg) (id : String) : Except Err PVal :=
  if cfg.compiled then
    if id == "r" then .ok cfg.record
    else if id == "Type" then .ok .typeRoot
    else if id == "net" then P.dynft "net"
    else if Gen.FUNCTION_WHITELIST.contains id || pyBuiltinsModelled.contains id then .ok (.builtin id)
    else if pyBuiltinsOther.contains id then .error .unmodelled
    else .error .nameErr
  else if baseKeys.contains id then .ok (baseVal cfg.record id)
  else P.dynft id

def rList (self : Env → Expr → Except Err PVal) (env : Env) : List Expr → Except Err (List PVal)
  | [] => pure []
  | e :: es => do
    let v ← self env e
    let vs ← rList self env es
    pure (v :: vs)

def rKwargs (self : Env → Expr → Except Err PVal) (env : Env) : List (String × Expr) → Except Err (List (String × PVal))
  | [] => pure []
  | (k, e) :: es => do
    let v ← self env e
    let vs ← rKwargs self env es
    pure ((k, v) :: vs)

/-- `a and b and …` / `a or b or …`: the first operand that decides, else the last -/
def rBool (P : Prim) (self : Env → Expr → Except Err PVal) (env : Env) (isOr : Bool) : List Expr → PVal → Except Err PVal
  | [], last => pure last
  | e :: rest, _ => do
    let v ← self env e
    if P.truthy v == isOr then pure v else rBool P self env isOr rest v

/-- one comparison link -/
def rCompare (P : Prim) (cfg : RefCfg) (op : String) (l r : PVal) : Except Err PVal :=
  match docCmp op with
  | none => .error .unmodelled
  | some (.rich o) => P.rich o l r
  | some .is_ => .ok (.bool (P.is_ l r))
  | some .isNot => .ok (.bool (!P.is_ l r))
  | some .guardedIn =>
    if !cfg.compiled && (l.isMissing || r.isMissing || l.isTmatch) then .error .undefined
    else (P.contains r l).map PVal.bool
  | some .guardedNotIn =>
    if !cfg.compiled && (l.isMissing || r.isMissing || l.isTmatch) then .error .undefined
    else (P.contains r l).map (fun b => PVal.bool (!b))

/-- `a op1 b op2 c …` = `a op1 b and b op2 c and …`, each operand evaluated once -/
def rChain (P : Prim) (cfg : RefCfg) (self : Env → Expr → Except Err PVal) (env : Env) :
    PVal → List (String × Expr) → PVal → Except Err PVal
  | _, [], result => pure result
  | left, (op, c) :: rest, _ => do
    let right ← self env c
    let res ← rCompare P cfg op left right
    if !P.truthy res then pure res else rChain P cfg self env right rest res

def rIfs (P : Prim) (self : Env → Expr → Except Err PVal) (env : Env) : List Expr → Except Err Bool
  | [] => pure true
  | c :: cs => do
    let v ← self env c
    if P.truthy v then rIfs P self env cs else pure false

def rForVals (body : PVal → Except Err (Option Bool)) : List PVal → Except Err (Option Bool)
  | [] => pure none
  | v :: vs => do
    match ← body v with
    | some b => pure (some b)
    | none => rForVals body vs

/-- the nested `for` clauses of a generator expression consumed by `any` / `all` -/
def rLoop (P : Prim) (cfg : RefCfg) (self : Env → Expr → Except Err PVal) (c : Consumer) (elt : Expr) :
    List Comp → Env → Except Err (Option Bool)
  | [], env => do
    let v ← self env elt
    pure (c.step (P.truthy v))
  | (tgt, iter, ifs) :: rest, env =>
    match tgt with
    | none => .error .unmodelled
    | some x => do
      let itv ← self env iter
      if !cfg.compiled && itv.isMissing then .error .undefined
      else do
        let vals ← P.iter itv
        rForVals (fun val => do
          if ← rIfs P self ((x, val) :: env) ifs then rLoop P cfg self c elt rest ((x, val) :: env)
          else pure none) vals

/-- the constructor object behind a whitelisted dotted path -/
def rResolve (P : Prim) : PVal → List String → Except Err PVal
  | obj, [] => .ok obj
  | obj, part :: parts =>
    match P.modattr obj part with
    | .error e => .error e
    | .ok nxt => rResolve P nxt parts

/-- the callable of a call, and whether it is `any`/`all` consuming a generator expression -/
def rTarget (P : Prim) (cfg : RefCfg) (self : Env → Expr → Except Err PVal) (env : Env)
    (func : Expr) (args : List Expr) (kwargs : List (String × Expr)) :
    Except Err (PVal × Option (Consumer × Expr × List Comp)) :=
  if cfg.compiled then do
    -- Python evaluates the target expression (a bare name is a namespace lookup, not a sub-evaluation)
    let f ← match func with
      | .name id => (match env.lookup id with | some v => .ok v | none => refName P cfg id)
      | _ => self env func
    pure (f, match f with | .builtin n => consumedGenexp n args kwargs | _ => none)
  else
    match resolveAttrPath func with
    | none => .error .invalidOp
    | some fname =>
      if allowedCalls.contains fname then .ok (.builtin fname, consumedGenexp fname args kwargs)
      else if Gen.WHITELIST.contains fname then do
        let f ← rResolve P (.ftype "") (splitDot fname)
        pure (f, none)
      else .error .invalidOp

def rCall (P : Prim) (cfg : RefCfg) (self : Env → Expr → Except Err PVal) (env : Env)
    (func : Expr) (args : List Expr) (kwargs : List (String × Expr)) : Except Err PVal := do
  let t ← rTarget P cfg self env func args kwargs
  match t.2 with
  | some (c, elt, gens) => do
    let r ← rLoop P cfg self c elt gens env
    pure (.bool (r.getD c.default))
  | none => do
    let a ← rList self env args
    let k ← rKwargs self env kwargs
    P.call t.1 a k

def refStep (P : Prim) (cfg : RefCfg) (self : Env → Expr → Except Err PVal) (env : Env) (e : Expr) : Except Err PVal :=
  match e with
  | .const c => pure (constVal c)
  | .list es => do pure (.list (← rList self env es))
  | .tuple es => do pure (.tuple (← rList self env es))
  | .name id =>
    (match env.lookup id with
     | some v => .ok v
     | none =>
       -- the documented language has no double-underscore names (in the compiled namespace they are NameErrors)
       if !cfg.compiled && !(baseKeys.contains id) && hasPrefix "__" id then .error .invalidOp
       else refName P cfg id)
  | .attr v a =>
    if !cfg.compiled && hasPrefix "__" a then .error .invalidOp
    else do
      let obj ← self env v
      match P.getattr obj a with
      | some r => pure r
      | none =>
        if cfg.compiled then
          -- `net` is the real package object in the compiled namespace: what it exposes beyond the whitelisted
          -- constructor paths is not modelled
          (match obj with | .recv _ _ => pure .missing | .ftype _ => .error .unmodelled | _ => .error .attrErr)
        else .error .undefined
  | .boolop op vs => rBool P self env (op == "Or") vs .none
  | .binop op l r => do
    let lv ← self env l
    let rv ← self env r
    if !cfg.compiled && (lv.isMissing || rv.isMissing) then .error .undefined
    else
      match docArith op with
      | some a => P.arith a lv rv
      | none => .error .unmodelled
  | .unary op x =>
    if op == "Not" then do
      let v ← self env x
      pure (.bool (!P.truthy v))
    else .error .unmodelled
  | .compare l rest => do
    let lv ← self env l
    rChain P cfg self env lv rest (.bool true)
  | .call f args kwargs => rCall P cfg self env f args kwargs
  | .genexp _ _ => pure .gen
  | .other _ => .error .unmodelled

def refEval (P : Prim) (cfg : RefCfg) : Nat → Env → Expr → Except Err PVal
  | 0 => fun _ _ => .error .fuel
  | fuel + 1 => refStep P cfg (refEval P cfg fuel)

/-- the documented meaning over the record's field values -/
def refMatch (P : Prim) (fuel : Nat) (rec : PVal) (e : Expr) : Except Err PVal :=
  refEval P { compiled := false, record := rec } fuel [] e

/-- `CompiledSelector.match` -/
def compiledMatch (P : Prim) (fuel : Nat) (rec : PVal) (e : Expr) : Except Err PVal :=
  refEval P { compiled := true, record := rec } fuel [] e

end FlowRecord.Selector
