import FlowRecord.Model.Selector.PyOps
import FlowRecord.Model.Selector.Ast
import FlowRecord.Gen.Base
/-!
`Prim`: the Python primitives both selector engines bottom out in. The C07 and C09 theorems are proved for
**every** `Prim` (for C09 that means an adversarial one: any attribute of any value may be a foreign callable);
`Concrete.lean` instantiates it for the driver.
-/
namespace FlowRecord.Selector
open FlowRecord

/-- functions of the `operator` module used by `AST_OPERATORS` for binary operators -/
inductive ArithOp | add | mul | truediv | mod | and_ | or_
  deriving DecidableEq, Repr

structure Prim where
  /-- `bool(v)` -/
  truthy : PVal → Bool
  /-- `operator.eq/ne/lt/gt/le/ge(a, b)` -/
  rich : CmpOp → PVal → PVal → Except Err PVal
  /-- `operator.contains(container, item)` -/
  contains : PVal → PVal → Except Err Bool
  /-- `a is b` -/
  is_ : PVal → PVal → Bool
  /-- `operator.add/mul/truediv/mod/and_/or_(a, b)` -/
  arith : ArithOp → PVal → PVal → Except Err PVal
  /-- `getattr(obj, name)`; `none` = AttributeError -/
  getattr : PVal → String → Option PVal
  /-- `list(iter(v))` -/
  iter : PVal → Except Err (List PVal)
  /-- invoke a callable -/
  call : PVal → List PVal → List (String × PVal) → Except Err PVal
  /-- `getattr(dynamic_fieldtype, id)` (the `Name` fallback) -/
  dynft : String → Except Err PVal
  /-- `getattr(module_object, part)` while resolving a whitelisted constructor path -/
  modattr : PVal → String → Except Err PVal
  /-- `TypeMatcherInstance._values()` of a matcher on the record (top-level fields only) -/
  tmValues : PVal → PVal → List PVal

/-- `node.value` of a Constant -/
def constVal : Const → PVal
  | .none => .none
  | .bool b => .bool b
  | .int i => .int i
  | .float b => .float b
  | .str s => .str s
  | .bytes b => .bytes b
  | .ellipsis => .foreign 0

/-! ### the namespace `RecordContextMatcher.matches` builds (from the extracted key lists) -/

/-- keys of `self.data` after `matches` has built it -/
def baseKeys : List String := Gen.matcherNamespaceKeys ++ Gen.FUNCTION_WHITELIST

/-- what each key is bound to; `r` is the record, `Type` the matcher root, every other non-constant key a callable
    bound at construction -/
def baseVal (rec : PVal) (id : String) : PVal :=
  if id == "None" then .none
  else if id == "True" then .bool true
  else if id == "False" then .bool false
  else if id == "r" then rec
  else if id == "Type" then .typeRoot
  else .builtin id

def nonCallableKeys : List String := ["None", "True", "False", "r", "Type"]

/-- keys of `self.allowed_calls`: the callables among the bindings made at namespace construction -/
def allowedCalls : List String := baseKeys.filter (fun k => !(nonCallableKeys.contains k))

/-- `".".join(parts)` -/
def joinDots : List String → String
  | [] => ""
  | [a] => a
  | a :: b :: rest => a ++ "." ++ joinDots (b :: rest)

/-- `resolve_attr_path(node)`: the dotted path of the call target, `none` unless the chain is rooted in a Name. -/
def resolveAttrPath (func : Expr) : Option String :=
  let r := attrChain func
  match r.2 with
  | .name id => some (joinDots (id :: r.1.reverse))
  | _ => none

/-- the documented operator set, as the reference evaluator understands it -/
def docArith : String → Option ArithOp
  | "Add" => some .add | "Mult" => some .mul | "Div" => some .truediv | "Mod" => some .mod
  | "BitAnd" => some .and_ | "BitOr" => some .or_
  | _ => none

/-- decoder for the right-hand sides of the generated `AST_OPERATORS` -/
def arithOfTarget : String → Option ArithOp
  | "operator.add" => some .add | "operator.mul" => some .mul | "operator.truediv" => some .truediv
  | "operator.mod" => some .mod | "operator.and_" => some .and_ | "operator.or_" => some .or_
  | _ => none

/-- documented comparison operators by `ast` class name -/
def docCmp : String → Option CmpImpl
  | "Eq" => some (.rich .eq) | "NotEq" => some (.rich .ne) | "Lt" => some (.rich .lt) | "Gt" => some (.rich .gt)
  | "LtE" => some (.rich .le) | "GtE" => some (.rich .ge) | "In" => some .guardedIn | "NotIn" => some .guardedNotIn
  | "Is" => some .is_ | "IsNot" => some .isNot
  | _ => none

def PVal.isTmatch : PVal → Bool
  | .tmatch _ _ => true
  | _ => false

/-- who consumes the generator: `any` stops at the first truthy element, `all` at the first falsy one -/
inductive Consumer | any | all
  deriving DecidableEq, Repr

/-- `some b`: the consumer has its answer; `none`: keep going -/
def Consumer.step (c : Consumer) (t : Bool) : Option Bool :=
  match c with
  | .any => if t then some true else none
  | .all => if t then none else some false

def Consumer.default : Consumer → Bool
  | .any => false
  | .all => true

def consumerOf (name : String) : Option Consumer :=
  if name == "any" then some .any else if name == "all" then some .all else none

/-- `any(<generator expression>)` / `all(<generator expression>)`: the generator is consumed by the builtin -/
def consumedGenexp (fname : String) (args : List Expr) (kwargs : List (String × Expr)) :
    Option (Consumer × Expr × List Comp) :=
  match consumerOf fname, args, kwargs with
  | some c, [.genexp elt gens], [] => some (c, elt, gens)
  | _, _, _ => none

end FlowRecord.Selector
