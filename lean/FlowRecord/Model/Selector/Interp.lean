import FlowRecord.Model.Selector.Prim
/-!
The interpreted engine: `RecordContextMatcher._eval`, transcribed branch by branch (selector.py as it is now),
instrumented with an effect trace (C09). Open recursion iterated by fuel (DESIGN Appendix A.1): `evalStep` is not
recursive, every sub-expression is evaluated through `self`; loops over Python lists are the helper functions
above it. One unit of fuel per AST level.

State: the generator variables currently bound in `self.data` (`ns`), the effect trace, and the record.
-/
namespace FlowRecord.Selector
open FlowRecord

/-- Effects the interpreter can have beyond computing a value. -/
inductive Event
  /-- a callable is invoked by the engine -/
  | call (callee : PVal)
  /-- `getattr(obj, name, NONE_OBJECT)` in the `Attribute` branch -/
  | getattr (obj : PVal) (name : String)
  /-- `getattr(<whitelist module>, part)` while resolving a whitelisted constructor -/
  | modattr (obj : PVal) (part : String)
  /-- `getattr(dynamic_fieldtype, id)`: a `Name` that is not in the namespace -/
  | fallback (id : String)
  deriving Repr

structure St where
  ns : List (String × PVal)
  trace : List Event
  record : PVal
  deriving Repr

/-- state + exception monad; the state survives an exception (`finally` clauses still run) -/
abbrev M (α : Type) := St → St × Except Err α

namespace M
def pure {α} (a : α) : M α := fun s => (s, .ok a)
def bind {α β} (m : M α) (f : α → M β) : M β := fun s =>
  match m s with
  | (s', .ok a) => f a s'
  | (s', .error e) => (s', .error e)
def throw {α} (e : Err) : M α := fun s => (s, .error e)
def log (ev : Event) : M Unit := fun s => ({ s with trace := s.trace ++ [ev] }, .ok ())
def lift {α} (r : Except Err α) : M α := fun s => (s, r)
/-- `try … finally`: `fin` runs on both paths and does not raise -/
def finally_ {α} (m : M α) (fin : St → St) : M α := fun s =>
  match m s with
  | (s', r) => (fin s', r)
end M

instance : Monad M where
  pure := M.pure
  bind := M.bind

/-! ### namespace -/

def delVar (x : String) (ns : List (String × PVal)) : List (String × PVal) := ns.filter (fun p => p.1 != x)
/-- `self.data[x] = v` -/
def setVar (x : String) (v : PVal) (ns : List (String × PVal)) : List (String × PVal) := (x, v) :: delVar x ns
def St.set (s : St) (x : String) (v : PVal) : St := { s with ns := setVar x v s.ns }
/-- `self.data[loop_index_var_name] = val` -/
def M.setVar (x : String) (v : PVal) : M Unit := fun s => (s.set x v, .ok ())
/-- `self.data.pop(x, None)` for every target -/
def St.popAll (s : St) (xs : List String) : St := { s with ns := xs.foldl (fun ns x => delVar x ns) s.ns }

/-- `id in self.data` -/
def inData (s : St) (id : String) : Bool := (s.ns.lookup id).isSome || baseKeys.contains id

/-- `self.data[id]` -/
def dataGet (s : St) (id : String) : Option PVal :=
  match s.ns.lookup id with
  | some v => some v
  | none => if baseKeys.contains id then some (baseVal s.record id) else none

/-! ### loops over child lists (each child goes through `self`) -/

/-- `list(map(self.eval, elts))` -/
def evalList (self : Expr → M PVal) : List Expr → M (List PVal)
  | [] => pure []
  | e :: es => do
    let v ← self e
    let vs ← evalList self es
    pure (v :: vs)

/-- `dict((kw.arg, self.eval(kw.value)) for kw in node.keywords)` -/
def evalKwargs (self : Expr → M PVal) : List (String × Expr) → M (List (String × PVal))
  | [] => pure []
  | (k, e) :: es => do
    let v ← self e
    let vs ← evalKwargs self es
    pure ((k, v) :: vs)

/-- the `BoolOp` loop: Python's value semantics with short-circuit; a TypeError that mentions NoneType counts as
    the value False -/
def evalBool (P : Prim) (self : Expr → M PVal) (stopOn : Bool) : List Expr → PVal → M PVal
  | [], last => pure last
  | e :: rest, _ => fun st =>
    match self e st with
    | (st', .ok v) => if P.truthy v == stopOn then (st', .ok v) else evalBool P self stopOn rest v st'
    | (st', .error .typeErrNone) =>
      if false == stopOn then (st', .ok (.bool false)) else evalBool P self stopOn rest (.bool false) st'
    | (st', .error e) => (st', .error e)

/-- `any(comp(v, right) for v in left._values())` -/
def anyValues (P : Prim) (comp : PVal → PVal → Except Err PVal) (right : PVal) : List PVal → Except Err Bool
  | [] => .ok false
  | v :: vs =>
    match comp v right with
    | .error e => .error e
    | .ok r => if P.truthy r then .ok true else anyValues P comp right vs

/-- `AST_COMPARATORS[type(op)]` applied: through the generated table -/
def tableCompare (P : Prim) (astName : String) : Except Err (PVal → PVal → Except Err PVal) :=
  match Gen.comparatorShapes.lookup astName with
  | none => .error .keyErr
  | some tgt =>
    match cmpImplOfTarget tgt with
    | none => .error .unmodelled
    | some (.rich o) => .ok (P.rich o)
    | some .is_ => .ok (fun l r => .ok (.bool (P.is_ l r)))
    | some .isNot => .ok (fun l r => .ok (.bool (!P.is_ l r)))
    | some .guardedIn => .ok (fun l r =>
        if l.isMissing || r.isMissing then .ok (.bool false) else (P.contains r l).map PVal.bool)
    | some .guardedNotIn => .ok (fun l r =>
        if l.isMissing || r.isMissing then .ok (.bool false) else (P.contains r l).map (fun b => PVal.bool (b == false)))

/-- one link of a `Compare`: `comp = AST_COMPARATORS[type(op)]`, then the typed-matcher special case for `in` /
    `not in` (`any(comp(v, right) for v in left._values())`), else `comp(left, right)` -/
def linkCompare (P : Prim) (op : String) (left right : PVal) : M PVal := fun st =>
  match tableCompare P op with
  | .error e => (st, .error e)
  | .ok comp =>
    if (op == "In" || op == "NotIn") && left.isTmatch then
      (st, (anyValues P comp right (P.tmValues st.record left)).map PVal.bool)
    else (st, comp left right)

/-- the `Compare` loop: every link of the chain, left to right, stopping at the first falsy result -/
def evalChain (P : Prim) (self : Expr → M PVal) : PVal → List (String × Expr) → PVal → M PVal
  | _, [], result => pure result
  | left, (op, c) :: rest, _ => do
    let right ← self c
    let result ← linkCompare P op left right
    if !P.truthy result then pure result else evalChain P self right rest result

/-- `all(self.eval(cond) for cond in gen.ifs)` -/
def evalIfs (P : Prim) (self : Expr → M PVal) : List Expr → M Bool
  | [] => pure true
  | c :: cs => do
    let v ← self c
    if P.truthy v then evalIfs P self cs else pure false

/-- `for val in resolved_gen:` with an early exit once the consumer is satisfied -/
def forVals (body : PVal → M (Option Bool)) : List PVal → M (Option Bool)
  | [] => pure none
  | v :: vs => do
    match ← body v with
    | some b => pure (some b)
    | none => forVals body vs

/-- `recursive_generator` + the `for val in values: yield self.eval(node.elt)` loop, fused with the consumer.
    Generators are processed outermost first; the inner `iter` is re-evaluated for every outer value. -/
def loopGens (P : Prim) (self : Expr → M PVal) (c : Consumer) (elt : Expr) : List Comp → M (Option Bool)
  | [] => do
    let v ← self elt
    pure (c.step (P.truthy v))
  | (tgt, iter, ifs) :: rest => do
    let itv ← self iter
    if itv.isMissing then pure none
    else do
      let vals ← M.lift (P.iter itv)
      forVals (fun val => do
        M.setVar (tgt.getD "") val
        if ← evalIfs P self ifs then loopGens P self c elt rest else pure none) vals

/-- `generator_expr()`: refuse targets that are already bound, run the loops, always pop the targets afterwards -/
def runGenexp (P : Prim) (self : Expr → M PVal) (c : Consumer) (elt : Expr) (gens : List Comp) : M PVal := fun st =>
  if gens.any (fun g => g.1.isNone) then (st, .error .attrErr)
  else if gens.any (fun g => inData st (g.1.getD "")) then (st, .error .invalidOp)
  else
    M.finally_ (do
      let r ← loopGens P self c elt gens
      pure (.bool (r.getD c.default))) (fun s => s.popAll (gens.map (fun g => g.1.getD ""))) st

/-- `for part in func_name.split("."): func = getattr(func, part)` starting from `dynamic_fieldtype` -/
def resolveWhitelisted (P : Prim) : PVal → List String → M PVal
  | obj, [] => pure obj
  | obj, part :: parts => do
    M.log (.modattr obj part)
    let nxt ← M.lift (P.modattr obj part)
    resolveWhitelisted P nxt parts

/-- `ast` class of the node (as listed in the `isinstance` chain of `_eval`) -/
def Expr.kind : Expr → String
  | .const _ => "Constant" | .list _ => "List" | .tuple _ => "Tuple" | .name _ => "Name" | .attr _ _ => "Attribute"
  | .boolop _ _ => "BoolOp" | .binop _ _ _ => "BinOp" | .unary _ _ => "UnaryOp" | .compare _ _ => "Compare"
  | .call _ _ _ => "Call" | .genexp _ _ => "GeneratorExp" | .other k => k

def isNameOrAttr : Expr → Bool
  | .name _ => true
  | .attr _ _ => true
  | _ => false

/-- The `Call` branch. -/
def evalCall (P : Prim) (self : Expr → M PVal) (func : Expr) (args : List Expr) (kwargs : List (String × Expr)) :
    M PVal :=
  if !isNameOrAttr func then M.throw .invalidOp
  else
    match resolveAttrPath func with
    | none => M.throw .invalidOp
    | some fname =>
      if allowedCalls.contains fname then
        match consumedGenexp fname args kwargs with
        | some (c, elt, gens) => do
          M.log (.call (.builtin fname))
          runGenexp P self c elt gens
        | none => do
          let a ← evalList self args
          let k ← evalKwargs self kwargs
          M.log (.call (.builtin fname))
          M.lift (P.call (.builtin fname) a k)
      else if Gen.WHITELIST.contains fname then do
        let f ← resolveWhitelisted P (.ftype "") (splitDot fname)
        let a ← evalList self args
        let k ← evalKwargs self kwargs
        M.log (.call f)
        M.lift (P.call f a k)
      else M.throw .invalidOp

/-- `AST_OPERATORS[type(node.op)]` for a BinOp, through the generated table (a missing key is a KeyError; `not_`
    called with two arguments is a TypeError) -/
def tableArith (op : String) : Except Err ArithOp :=
  match Gen.AST_OPERATORS.lookup op with
  | none => .error .keyErr
  | some tgt =>
    match arithOfTarget tgt with
    | some a => .ok a
    | none => .error (if tgt == "operator.not_" then .typeErr else .unmodelled)

/-- the Name branch refuses a name that is not in the namespace and starts with the extracted prefix (`__`) before
    it falls back to `getattr(dynamic_fieldtype, id)` — as far as the current source does so -/
def nameRefused (id : String) : Bool := Gen.nameFallbackRefusesDunder && hasPrefix Gen.nameRefusedPrefix id

/-- One level of `_eval`. -/
def evalStep (P : Prim) (self : Expr → M PVal) (e : Expr) : M PVal :=
  if !(Gen.evalNodeKinds.contains e.kind) then M.throw .typeErr
  else
    match e with
    | .const c => pure (constVal c)
    | .list es => do pure (.list (← evalList self es))
    | .tuple es => do pure (.tuple (← evalList self es))
    | .name id => fun st =>
      if inData st id then (st, .ok ((dataGet st id).getD .none))
      else if nameRefused id then (st, .error .invalidOp)
      else (M.bind (M.log (.fallback id)) (fun _ => M.lift (P.dynft id))) st
    | .attr v a =>
      if hasPrefix Gen.attrRefusedPrefix a then M.throw .invalidOp
      else do
        let obj ← self v
        M.log (.getattr obj a)
        pure ((P.getattr obj a).getD .missing)
    | .boolop op vs => evalBool P self (op == "Or") vs .none
    | .binop op l r => do
      let lv ← self l
      let rv ← self r
      if binopGuard lv rv then pure (.bool false)
      else
        match tableArith op with
        | .ok a => M.lift (P.arith a lv rv)
        | .error e => M.throw e
    | .unary op x =>
      match Gen.AST_OPERATORS.lookup op with
      | none => M.throw .keyErr
      | some tgt =>
        if tgt == "operator.not_" then do
          let v ← self x
          pure (.bool (!P.truthy v))
        else do
          let _ ← self x
          M.throw (if (arithOfTarget tgt).isSome then .typeErr else .unmodelled)
    | .compare l rest => do
      let lv ← self l
      evalChain P self lv rest (.bool true)
    | .call f args kwargs => evalCall P self f args kwargs
    | .genexp _ _ => pure .gen
    | .other _ => M.throw .unmodelled

/-- the structural facts the transcription above relies on, as extracted from the current source -/
def flagsOk : Bool :=
  Gen.compareIteratesAllOps && !Gen.compareReadsOnlyFirstOp && !Gen.boolOpCoercesToBool && Gen.boolOpShortCircuits &&
  Gen.callTargetFromStaticTables && Gen.callRefusalPrecedesArgs && !Gen.callWhitelistConsultsLiveNamespace &&
  Gen.allowedCallsFixedAtNamespaceConstruction && Gen.callTargetMustResolveToName && Gen.genexpVarsScoped &&
  Gen.genexpRefusesShadowing && Gen.attrRefusedBeforeEval && Gen.evalRejectsOtherNodes && Gen.matchesRebuildsNamespace &&
  Gen.nameFallbackRefusesDunder

def interp (P : Prim) : Nat → Expr → M PVal
  | 0 => fun _ => M.throw .fuel
  | fuel + 1 => evalStep P (interp P fuel)

/-- `RecordContextMatcher.matches(rec)`: fresh namespace, evaluate the expression body -/
def interpMatch (P : Prim) (fuel : Nat) (rec : PVal) (e : Expr) : St × Except Err PVal :=
  if flagsOk then interp P fuel e { ns := [], trace := [], record := rec }
  else ({ ns := [], trace := [], record := rec }, .error .unmodelled)

end FlowRecord.Selector
