import FlowRecord.Gen.Selector
/-!
Selector value domain and Python's operator dispatch (DESIGN 7.7).

* `PVal` — the values a selector expression can produce.
* `ClassTable` — the special methods of every value *other than* the missing-field sentinel
  (a parameter: the C08 theorems hold for every class table).
* the sentinel's methods are **the generated table** `Gen.noneObjectMethods` (`sentinelCmp`, `sentinelContains`),
  with `object`'s defaults for what the class does not define.
* `richcmp` — `a.__op__(b)`, on NotImplemented the reflected `b.__rop__(a)`, then identity for `==`/`!=`,
  TypeError for orderings; `pyIn` — `x in c` (`__contains__`, else iteration with `is`/`==`, else TypeError).
-/
namespace FlowRecord.Selector
open FlowRecord

/-- Exception classes the model distinguishes. `typeErrNone` = a TypeError whose message mentions
    "NoneType" (the interpreted BoolOp swallows exactly those). `undefined` = outside the domain of the reference
    meaning (the sentinel reached an arithmetic/membership primitive). `unmodelled` = the model declines. -/
inductive Err
  | typeErr | typeErrNone | keyErr | attrErr | invalidOp | valueErr | zeroDiv | nameErr | undefined | unmodelled
  | other | fuel
  deriving DecidableEq, Repr, Inhabited

def Err.name : Err → String
  | .typeErr => "TypeError" | .typeErrNone => "TypeError" | .keyErr => "KeyError" | .attrErr => "AttributeError"
  | .invalidOp => "InvalidOperation" | .valueErr => "ValueError" | .zeroDiv => "ZeroDivisionError"
  | .nameErr => "NameError" | .undefined => "undefined" | .unmodelled => "unmodelled" | .other => "Exception" | .fuel => "fuel"

/-- Selector values. `missing` is `NONE_OBJECT` (one object: every missing field is the same sentinel).
    `recv` is a record (name, fields as (field name, type name, value)); `builtin n` is a callable bound in the
    matcher namespace at construction (`str`, `any`, `lower`, …); `ftype p` is `dynamic_fieldtype.<p>`
    (a field-type constructor or a package such as `net`); `tmatch` is `Type.<parts>.<attrs>`;
    `foreign k` is any other callable/object (bound methods of values, canaries); `fval t v` is a value of
    field type `t` whose class is not a plain builtin (payload `v`); `gen` is an unconsumed generator object. -/
inductive PVal
  | none
  | bool (b : Bool)
  | int (i : Int)
  | float (bits : Nat)
  | str (s : String)
  | bytes (b : List Nat)
  | list (xs : List PVal)
  | tuple (xs : List PVal)
  | strset (xs : List String)
  | missing
  | recv (name : String) (fields : List (String × String × PVal))
  | builtin (name : String)
  | ftype (path : String)
  | typeRoot
  | tmatch (parts : List String) (attrs : List String)
  | foreign (k : Nat)
  | fval (ftype : String) (v : PVal)
  | gen
  deriving Repr, Inhabited

def PVal.isNone : PVal → Bool
  | .none => true
  | _ => false

def PVal.isMissing : PVal → Bool
  | .missing => true
  | _ => false

inductive CmpOp | eq | ne | lt | gt | le | ge
  deriving DecidableEq, Repr

def CmpOp.all : List CmpOp := [.eq, .ne, .lt, .gt, .le, .ge]

/-- the reflected operation (`a < b` falls back to `b > a`) -/
def CmpOp.swap : CmpOp → CmpOp
  | .eq => .eq | .ne => .ne | .lt => .gt | .gt => .lt | .le => .ge | .ge => .le

/-- the special method Python looks up for the operator -/
def CmpOp.dunder : CmpOp → String
  | .eq => "__eq__" | .ne => "__ne__" | .lt => "__lt__" | .gt => "__gt__" | .le => "__le__" | .ge => "__ge__"

/-- Result of calling one special method. -/
inductive MethRes
  | notImpl
  | val (v : PVal)
  | raise (e : Err)
  deriving Repr

/-- Special methods of the values other than the sentinel. -/
structure ClassTable where
  /-- `type(a).__op__(a, b)` (`notImpl` also when neither the class nor `object` answers) -/
  cmp : PVal → CmpOp → PVal → MethRes
  /-- `type(c).__contains__` if the class has one -/
  contains : PVal → Option (PVal → Except Err PVal)
  /-- `list(iter(c))` if the class is iterable -/
  iter : PVal → Option (Except Err (List PVal))
  /-- `bool(v)` -/
  truthy : PVal → Bool
  /-- `a is b` for two non-sentinel values -/
  ident : PVal → PVal → Bool

/-! ### the sentinel, read off the generated method table -/

/-- Source text of the value returned by `NoneObject.<name>`, if the class defines the method. -/
def sentinelRaw (name : String) : Option String := Gen.noneObjectMethods.lookup name

/-- A method whose body is `return <constant>`. -/
def constRes : String → MethRes
  | "False" => .val (.bool false)
  | "True" => .val (.bool true)
  | "None" => .val .none
  | "0" => .val (.int 0)
  | "NotImplemented" => .notImpl
  | _ => .raise .unmodelled

/-- truthiness of the constants a sentinel method can return -/
def constTruthy : PVal → Bool
  | .bool b => b
  | .int i => i != 0
  | _ => false

def MethRes.negate : MethRes → MethRes
  | .val v => .val (.bool (!constTruthy v))
  | r => r

/-- `NoneObject.__op__(sentinel, other)`: the class's own method when the table has one, else what `object`
    provides: `__eq__` answers only for the identical object, `__ne__` inverts the class's `__eq__`, orderings
    are NotImplemented. -/
def sentinelCmp (op : CmpOp) (other : PVal) : MethRes :=
  match sentinelRaw op.dunder with
  | some r => constRes r
  | none =>
    match op with
    | .eq => if other.isMissing then .val (.bool true) else .notImpl
    | .ne =>
      match sentinelRaw "__eq__" with
      | some r => (constRes r).negate
      | none => if other.isMissing then .val (.bool false) else .notImpl
    | _ => .notImpl

/-- `bool(sentinel)`: `__bool__`, else `__len__() != 0`, else True. -/
def sentinelTruthy : Bool :=
  match sentinelRaw "__bool__" with
  | some r => (match constRes r with | .val v => constTruthy v | _ => true)
  | none =>
    match sentinelRaw "__len__" with
    | some r => (match constRes r with | .val v => constTruthy v | _ => true)
    | none => true

/-- `x in sentinel`. Without `__contains__` Python would iterate, and the class has no `__iter__`: TypeError. -/
def sentinelContains : Except Err Bool :=
  match sentinelRaw "__contains__" with
  | some r =>
    (match constRes r with
     | .val v => .ok (constTruthy v)
     | .notImpl => .ok true
     | .raise e => .error e)
  | none => .error .typeErr

/-! ### dispatch -/

def truthyOf (T : ClassTable) : PVal → Bool
  | .missing => sentinelTruthy
  | .none => false
  | .bool b => b
  | v => T.truthy v

/-- `a is b` -/
def isId (T : ClassTable) : PVal → PVal → Bool
  | .missing, .missing => true
  | .missing, _ => false
  | _, .missing => false
  | a, b => T.ident a b

/-- `type(a).__op__(a, b)` -/
def slot (T : ClassTable) (a : PVal) (op : CmpOp) (b : PVal) : MethRes :=
  match a with
  | .missing => sentinelCmp op b
  | _ => T.cmp a op b

/-- Python's rich comparison `a <op> b`. -/
def richcmp (T : ClassTable) (op : CmpOp) (a b : PVal) : Except Err PVal :=
  match slot T a op b with
  | .val v => .ok v
  | .raise e => .error e
  | .notImpl =>
    match slot T b op.swap a with
    | .val v => .ok v
    | .raise e => .error e
    | .notImpl =>
      match op with
      | .eq => .ok (.bool (isId T a b))
      | .ne => .ok (.bool (!isId T a b))
      | _ => .error (if a.isNone || b.isNone then .typeErrNone else .typeErr)

/-- membership by iteration: `any(el is x or el == x for el in xs)` -/
def listContains (T : ClassTable) (x : PVal) : List PVal → Except Err Bool
  | [] => .ok false
  | el :: rest =>
    if isId T el x then .ok true
    else
      match richcmp T .eq el x with
      | .error e => .error e
      | .ok v => if truthyOf T v then .ok true else listContains T x rest

/-- `x in c` (`operator.contains(c, x)`) -/
def pyIn (T : ClassTable) (x c : PVal) : Except Err Bool :=
  match c with
  | .missing => sentinelContains
  | .list xs => listContains T x xs
  | .tuple xs => listContains T x xs
  | _ =>
    match T.contains c with
    | some f => (f x).map (truthyOf T)
    | none =>
      match T.iter c with
      | some (.ok xs) => listContains T x xs
      | some (.error e) => .error e
      | none => .error (if c.isNone then .typeErrNone else .typeErr)

/-- `x not in c`: Python negates the result of `in`. -/
def pyNotIn (T : ClassTable) (x c : PVal) : Except Err Bool := (pyIn T x c).map (!·)

/-! ### the eight comparison operators of the selector language, per engine -/

inductive SelOp | cmp (op : CmpOp) | isin | notin
  deriving DecidableEq, Repr

def SelOp.all : List SelOp :=
  [.cmp .eq, .cmp .ne, .cmp .lt, .cmp .gt, .cmp .le, .cmp .ge, .isin, .notin]

/-- the `ast` class of the operator (key of `AST_COMPARATORS`) -/
def SelOp.astName : SelOp → String
  | .cmp .eq => "Eq" | .cmp .ne => "NotEq" | .cmp .lt => "Lt" | .cmp .gt => "Gt" | .cmp .le => "LtE"
  | .cmp .ge => "GtE" | .isin => "In" | .notin => "NotIn"

/-- Compiled engine: plain Python. -/
def compiledCompare (T : ClassTable) (op : SelOp) (l r : PVal) : Except Err PVal :=
  match op with
  | .cmp o => richcmp T o l r
  | .isin => (pyIn T l r).map PVal.bool
  | .notin => (pyNotIn T l r).map PVal.bool

/-- What an entry of `AST_COMPARATORS` does. -/
inductive CmpImpl
  | rich (op : CmpOp) | is_ | isNot | guardedIn | guardedNotIn
  deriving DecidableEq, Repr

/-- Decoder for the table's right-hand sides as extracted into `Gen.comparatorShapes` (operator-module name, or
    the structural reading of the sentinel-guarded lambdas). -/
def cmpImplOfTarget : String → Option CmpImpl
  | "operator.eq" => some (.rich .eq)
  | "operator.ne" => some (.rich .ne)
  | "operator.lt" => some (.rich .lt)
  | "operator.gt" => some (.rich .gt)
  | "operator.le" => some (.rich .le)
  | "operator.ge" => some (.rich .ge)
  | "operator.is_" => some .is_
  | "operator.is_not" => some .isNot
  | "guarded:contains" => some .guardedIn
  | "guarded:not-contains" => some .guardedNotIn
  | _ => none

def applyCmpImpl (T : ClassTable) (impl : CmpImpl) (l r : PVal) : Except Err PVal :=
  match impl with
  | .rich o => richcmp T o l r
  | .is_ => .ok (.bool (isId T l r))
  | .isNot => .ok (.bool (!isId T l r))
  | .guardedIn => if l.isMissing || r.isMissing then .ok (.bool false) else (pyIn T l r).map PVal.bool
  | .guardedNotIn =>
    if l.isMissing || r.isMissing then .ok (.bool false) else (pyIn T l r).map (fun b => PVal.bool (b == false))

/-- Interpreted engine: `AST_COMPARATORS[type(op)](left, right)` through the generated table. -/
def interpCompare (T : ClassTable) (astName : String) (l r : PVal) : Except Err PVal :=
  match Gen.comparatorShapes.lookup astName with
  | none => .error .keyErr
  | some tgt =>
    match cmpImplOfTarget tgt with
    | none => .error .unmodelled
    | some impl => applyCmpImpl T impl l r

inductive Engine | interpreted | compiled
  deriving DecidableEq, Repr

inductive Pos | left | right
  deriving DecidableEq, Repr

/-- One cell of the C08 table: `r.missing <op> v` (`left`) or `v <op> r.missing` (`right`). -/
def cell (T : ClassTable) (eng : Engine) (op : SelOp) (pos : Pos) (v : PVal) : Except Err PVal :=
  let l := match pos with | .left => PVal.missing | .right => v
  let r := match pos with | .left => v | .right => PVal.missing
  match eng with
  | .compiled => compiledCompare T op l r
  | .interpreted => interpCompare T op.astName l r

/-- The other operand leaves comparisons with the sentinel to the sentinel: its own methods return
    NotImplemented for it (true of every builtin type). -/
def Foreign (T : ClassTable) (v : PVal) : Prop := ∀ op, slot T v op .missing = .notImpl

/-- The interpreted engine's BinOp guard: `if isinstance(left, NoneObject) or isinstance(right, NoneObject): return False`. -/
def binopGuard (l r : PVal) : Bool := l.isMissing || r.isMissing

end FlowRecord.Selector
