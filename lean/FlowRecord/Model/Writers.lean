import FlowRecord.Gen.Adapters
/-!
C17: writer lifecycles.

* `Life` — one generic machine `{buffer, disk, headerOnDisk, open, …}` for a writer adapter, with the public calls
  `write r | flush | close | exit` (`__exit__` = `flush(); close()`), instantiated per adapter by `Flags` transcribed
  from the adapter classes; the flags a one-line change would flip are extracted (`Gen.avroCloseFlushes`,
  `Gen.sqliteCloseFlushes`, `Gen.streamCloseWritesHeader`, `Gen.streamFlushWritesHeader`, …).
  `disk` is what has been handed to the file object (CPython's `close()` of a file flushes its own buffer: OS/CPython
  behaviour, not modelled); `buffer` is what the *adapter* still holds (fastavro's block, SQLite's open transaction).
* `Split` — `SplitWriter`: parts opened eagerly, each part a `Life`.
* `Tmpl` — `PathTemplateWriter`: a file system as an association list in creation order, rotation of an existing
  target to a stamped name, `-<n>` appended while the stamped name is taken.
-/
namespace FlowRecord.Writers
open FlowRecord

/-! ### the lifecycle machine -/

structure Flags where
  /-- an output without the container header is not a valid (empty) output -/
  needsHeader : Bool
  /-- the first `write` emits the header (stream magic frame, Avro container header) -/
  writeEmitsHeader : Bool
  flushEmitsHeader : Bool
  closeEmitsHeader : Bool
  /-- `write` keeps the record in a buffer of the adapter (Avro block, SQLite transaction) -/
  writeBuffers : Bool
  /-- `close` hands that buffer to the file before closing it -/
  closeFlushes : Bool
  /-- `flush` on a closed writer raises (AvroWriter: builds a new fastavro Writer on `None`) -/
  flushAfterCloseRaises : Bool
  /-- a `flush` before the first `write` fixes the container's schema (AvroWriter creates a Writer for the schema
      "empty"): the next `write` raises (fastavro refuses to start a second container in the file) and every later
      `write` is stored through the empty schema, i.e. as a record without any field -/
  headerOnlyFlushPoisons : Bool
  deriving DecidableEq, Repr

/-- What is stored for a record: the record, or — through a poisoned Avro writer — a record without fields. -/
inductive Stored (R : Type) where
  | full (r : R)
  | hollow
  deriving DecidableEq, Repr

structure Life (R : Type) where
  buffer : List (Stored R)
  disk : List (Stored R)
  headerOnDisk : Bool
  isOpen : Bool
  /-- a `write` has configured the writer (descriptor / schema chosen) -/
  started : Bool
  /-- the header on disk was produced by a `flush` before any `write` (see `headerOnlyFlushPoisons`) -/
  poisoned : Bool
  deriving DecidableEq, Repr

def Life.init {R : Type} : Life R :=
  { buffer := [], disk := [], headerOnDisk := false, isOpen := true, started := false, poisoned := false }

inductive Op (R : Type) where
  | write (r : R)
  | flush
  | close
  | exit
  /-- a `write` the adapter REFUSES (the value cannot be stored: an integer outside 64 bits for SQLite, text with a
      lone surrogate for the stream packer): it raises and stores nothing; what it may have done before the refusal -
      emitted the header, committed the adapter's buffer because the record type was new (`commits`) - stays -/
  | bad (commits : Bool)
  deriving DecidableEq, Repr

inductive Outcome where
  | ok
  | raised
  deriving DecidableEq, Repr

/-- move the adapter's buffer to the file -/
def Life.drain {R : Type} (s : Life R) : Life R := { s with disk := s.disk ++ s.buffer, buffer := [] }

def doWrite {R : Type} (F : Flags) (s : Life R) (r : R) : Life R × Outcome :=
  if !s.isOpen then (s, .raised)
  else if s.poisoned && !s.started then ({ s with started := true }, .raised)
  else
    let item : Stored R := if s.poisoned then .hollow else .full r
    let s1 := { s with started := true, headerOnDisk := s.headerOnDisk || F.writeEmitsHeader }
    (if F.writeBuffers then { s1 with buffer := s1.buffer ++ [item] } else { s1 with disk := s1.disk ++ [item] }, .ok)

def doFlush {R : Type} (F : Flags) (s : Life R) : Life R × Outcome :=
  if !s.isOpen then (s, if F.flushAfterCloseRaises then .raised else .ok)
  else
    let s1 := { s.drain with headerOnDisk := s.headerOnDisk || F.flushEmitsHeader }
    (if F.headerOnlyFlushPoisons && !s.started then { s1 with poisoned := true } else s1, .ok)

def doClose {R : Type} (F : Flags) (s : Life R) : Life R × Outcome :=
  if !s.isOpen then (s, .ok)
  else
    let s1 := if F.closeFlushes then { s.drain with headerOnDisk := s.headerOnDisk || F.closeEmitsHeader }
              else { s with buffer := [] }
    ({ s1 with isOpen := false }, .ok)

/-- `AbstractWriter.__exit__`: `self.flush(); self.close()` — `close` is not reached when `flush` raises. -/
def doExit {R : Type} (F : Flags) (s : Life R) : Life R × Outcome :=
  if Gen.exitFlushesThenCloses then
    match doFlush F s with
    | (s1, .ok) => doClose F s1
    | r => r
  else doClose F s

def doBad {R : Type} (F : Flags) (s : Life R) (commits : Bool) : Life R × Outcome :=
  if !s.isOpen then (s, .raised)
  else
    let s1 := if commits then s.drain else s
    ({ s1 with headerOnDisk := s.headerOnDisk || F.writeEmitsHeader }, .raised)

def step {R : Type} (F : Flags) (s : Life R) : Op R → Life R × Outcome
  | .write r => doWrite F s r
  | .flush => doFlush F s
  | .close => doClose F s
  | .exit => doExit F s
  | .bad c => doBad F s c

def run {R : Type} (F : Flags) (s : Life R) (ops : List (Op R)) : Life R := ops.foldl (fun s op => (step F s op).1) s

def outcomes {R : Type} (F : Flags) (s : Life R) : List (Op R) → List Outcome
  | [] => []
  | op :: ops => (step F s op).2 :: outcomes F (step F s op).1 ops

/-- the output can be opened by the matching reader -/
def Life.valid {R : Type} (F : Flags) (s : Life R) : Bool := s.headerOnDisk || !F.needsHeader

/-- the records accepted (write returned normally) while the writer was open, in order -/
def accepted {R : Type} (F : Flags) (s : Life R) : List (Op R) → List R
  | [] => []
  | op :: ops =>
    match op, (step F s op).2 with
    | .write r, .ok => r :: accepted F (step F s op).1 ops
    | _, _ => accepted F (step F s op).1 ops

/-- a `flush` (or `exit`) reaches an open writer that no `write` has configured yet -/
def flushBeforeFirstWrite {R : Type} : List (Op R) → Bool
  | [] => false
  | .write _ :: _ => false
  | .flush :: _ => true
  | .exit :: _ => false     -- exit closes: nothing can be written afterwards
  | .close :: _ => false
  | .bad _ :: ops => flushBeforeFirstWrite ops

def isClosing {R : Type} : Op R → Bool
  | .close => true
  | .exit => true
  | _ => false

/-! ### the adapters (flags transcribed from the classes; extracted where a small edit flips them) -/

/-- `StreamWriter` / `RecordStreamWriter`, plain or compressed -/
def streamFlags : Flags :=
  { needsHeader := true, writeEmitsHeader := Gen.streamWriteWritesHeader, flushEmitsHeader := Gen.streamFlushWritesHeader,
    closeEmitsHeader := Gen.streamCloseWritesHeader, writeBuffers := false, closeFlushes := true,
    flushAfterCloseRaises := false, headerOnlyFlushPoisons := false }

/-- `JsonfileWriter`, `CsvfileWriter`, `LineWriter`, `TextWriter`: text straight into the file object, no header -/
def plainFlags : Flags :=
  { needsHeader := false, writeEmitsHeader := false, flushEmitsHeader := false, closeEmitsHeader := false,
    writeBuffers := false, closeFlushes := true, flushAfterCloseRaises := false, headerOnlyFlushPoisons := false }

/-- `AvroWriter` -/
def avroFlags : Flags :=
  { needsHeader := true, writeEmitsHeader := true, flushEmitsHeader := Gen.avroFlushCreatesWriter,
    closeEmitsHeader := Gen.avroCloseFlushes,
    writeBuffers := true, closeFlushes := Gen.avroCloseFlushes, flushAfterCloseRaises := Gen.avroFlushCreatesWriter,
    headerOnlyFlushPoisons := Gen.avroFlushCreatesWriter }

/-- `SqliteWriter` (lifecycle only; transactions are C18's model). A database file without tables is a valid
    empty database, so no header is needed. -/
def sqliteFlags : Flags :=
  { needsHeader := false, writeEmitsHeader := false, flushEmitsHeader := false, closeEmitsHeader := false,
    writeBuffers := true, closeFlushes := Gen.sqliteCloseFlushes, flushAfterCloseRaises := false,
    headerOnlyFlushPoisons := false }

def flagsOf (adapter : String) : Option Flags :=
  match adapter with
  | "stream" => some streamFlags
  | "jsonfile" => some plainFlags
  | "csvfile" => some plainFlags
  | "line" => some plainFlags
  | "text" => some plainFlags
  | "avro" => some avroFlags
  | "sqlite" => some sqliteFlags
  | _ => none

/-! ### SplitWriter -/

abbrev Name := List Char

/-- `str.rjust(width, fill)`: never truncates -/
def rjust (s : Name) (width : Nat) (fill : Char) : Name := List.replicate (width - s.length) fill ++ s

/-- decimal digits of a natural number, most significant first (`str(n)`) -/
def digitsAux : Nat → Nat → List Nat → List Nat
  | 0, _, acc => acc
  | fuel + 1, n, acc => if n < 10 then n :: acc else digitsAux fuel (n / 10) (n % 10 :: acc)

def digits (n : Nat) : List Nat := digitsAux (n + 1) n []

def digitChar (d : Nat) : Char := Char.ofNat (48 + d)

def natStr (n : Nat) : Name := (digits n).map digitChar

/-- `PurePath.suffix` of a final path component (Python 3.12): from the last dot, unless that dot is the first or
    the last character -/
def rfindDot (name : Name) : Option Nat :=
  let idxs := (List.range name.length).filter (fun i => name[i]? == some '.')
  idxs.getLast?

def suffixOf (name : Name) : Name :=
  match rfindDot name with
  | some i => if 0 < i && i + 1 < name.length then name.drop i else []
  | none => []

/-- `_next_path` on the final component: `path.with_suffix(f".{suffix}{path.suffix}")` with the zero-padded index -/
def partName (name : Name) (suffixLen idx : Nat) : Name :=
  let sfx := suffixOf name
  name.take (name.length - sfx.length) ++ ['.'] ++ rjust (natStr idx) suffixLen '0' ++ sfx

structure Split (R : Type) where
  written : Nat
  fileCount : Nat
  limit : Nat
  /-- closed parts, in order: (index used for the name, final lifecycle state) -/
  done : List (Nat × Life R)
  /-- the part being written (`self.writer`), `none` after `close` -/
  cur : Option (Nat × Life R)
  deriving Repr

def Split.init {R : Type} (limit : Nat) : Split R :=
  { written := 0, fileCount := 1, limit := limit, done := [], cur := some (0, Life.init) }

/-- The rotation of `SplitWriter.write` as extracted is the one modelled below: test `self.written >= self.count`, then
    `flush(); close(); written = 0; writer = RecordWriter(_next_path())`, and `_next_path` pads the running index with
    `rjust(suffix_length, "0")` into `with_suffix`. -/
def splitShapeOk : Bool :=
  Gen.splitRotateTest == "self.written >= self.count" &&
  Gen.splitRotateSequence == ["self.flush()", "self.close()", "self.written = 0", "self.writer = RecordWriter("] &&
  Gen.splitNextPathShape

/-- `SplitWriter.write / flush / close`; `exit` = `flush(); close()` -/
def splitStep {R : Type} (F : Flags) (s : Split R) : Op R → Split R × Outcome
  | .write r =>
    match s.cur with
    | none => (s, .raised)
    | some (i, w) =>
      match doWrite F w r with
      | (w1, .raised) => ({ s with cur := some (i, w1) }, .raised)
      | (w1, .ok) =>
        if decide (s.written + 1 ≥ s.limit) && splitShapeOk then
          -- self.flush(); self.close(); self.written = 0; self.writer = RecordWriter(self._next_path(), …)
          let w2 := (doClose F (doFlush F w1).1).1
          ({ s with written := 0, done := s.done ++ [(i, w2)], cur := some (s.fileCount, Life.init),
                    fileCount := s.fileCount + 1 }, .ok)
        else ({ s with written := s.written + 1, cur := some (i, w1) }, .ok)
  | .flush =>
    match s.cur with
    | none => (s, .ok)
    | some (i, w) => let r := doFlush F w; ({ s with cur := some (i, r.1) }, r.2)
  | .close =>
    match s.cur with
    | none => (s, .ok)
    | some (i, w) => ({ s with done := s.done ++ [(i, (doClose F w).1)], cur := none }, .ok)
  | .exit =>
    match s.cur with
    | none => (s, .ok)
    | some (i, w) => ({ s with done := s.done ++ [(i, (doClose F (doFlush F w).1).1)], cur := none }, .ok)
  | .bad c =>
    -- the part writer refuses the record: `written` is not advanced, no rotation
    match s.cur with
    | none => (s, .raised)
    | some (i, w) => ({ s with cur := some (i, (doBad F w c).1) }, .raised)

def splitRun {R : Type} (F : Flags) (s : Split R) (ops : List (Op R)) : Split R :=
  ops.foldl (fun s op => (splitStep F s op).1) s

/-- all parts, closed ones first -/
def Split.parts {R : Type} (s : Split R) : List (Nat × Life R) :=
  s.done ++ (match s.cur with | some p => [p] | none => [])

/-! ### raw concatenation of stream parts, at the level of frames -/

/-- a frame of a record stream: the magic header, a descriptor, or a record that refers to its descriptor -/
inductive Frame (D R : Type) where
  | magic
  | desc (d : D)
  | record (d : D) (r : R)
  deriving DecidableEq, Repr

/-- `RecordStreamWriter` after the header: every record preceded by its descriptor unless this packer has already
    emitted that descriptor -/
def emitRecords {D R : Type} [DecidableEq D] (known : List D) : List (D × R) → List (Frame D R)
  | [] => []
  | (d, r) :: rest =>
    if known.contains d then Frame.record d r :: emitRecords known rest
    else Frame.desc d :: Frame.record d r :: emitRecords (d :: known) rest

/-- one part (one file): header first -/
def emitPart {D R : Type} [DecidableEq D] (recs : List (D × R)) : List (Frame D R) :=
  Frame.magic :: emitRecords [] recs

/-- `RecordStreamReader.__iter__` after `readheader`: a repeated header is skipped, a descriptor is registered, a
    record is decoded with its registered descriptor (`none`: a record whose descriptor was never registered) -/
def readFrames {D R : Type} [DecidableEq D] : List D → List (Frame D R) → Option (List (D × R))
  | _, [] => some []
  | known, .magic :: rest => readFrames known rest
  | known, .desc d :: rest => readFrames (d :: known) rest
  | known, .record d r :: rest =>
    if known.contains d then (readFrames known rest).map (fun out => (d, r) :: out) else none

/-- `readheader` + iteration over a whole file -/
def readStream {D R : Type} [DecidableEq D] : List (Frame D R) → Option (List (D × R))
  | .magic :: rest => readFrames [] rest
  | _ => none

/-! ### PathTemplateWriter -/

structure File (R : Type) where
  name : Name
  /-- ghost: the template path this file was created for by the writer (`none`: it existed before) -/
  origin : Option Name
  content : List R
  deriving DecidableEq, Repr

/-- the directory, in creation order -/
abbrev FS (R : Type) := List (File R)

def FS.has {R : Type} (fs : FS R) (n : Name) : Bool := fs.any (fun f => f.name == n)

def endsWith (sfx s : Name) : Bool := sfx.reverse.isPrefixOf s.reverse

def recordsGz : Name := ".records.gz".toList

/-- `os.path.splitext` on a file name: the extension starts at the last dot, leading dots do not count -/
def splitext (name : Name) : Name × Name :=
  let lead := (name.takeWhile (· == '.')).length
  match rfindDot name with
  | some i => if lead < i then (name.take i, name.drop i) else (name, [])
  | none => (name, [])

/-- `(fname, ext)` of `rotate_existing_file` -/
def rotParts (name : Name) : Name × Name :=
  if endsWith recordsGz name then (name.take (name.length - recordsGz.length), "records.gz".toList)
  else splitext name

/-- the `seq`-th candidate: `{fname}.{stamp}.{ext}`, then `{fname}.{stamp}-{seq}.{ext}` -/
def rotCandidate (name stamp : Name) (seq : Nat) : Name :=
  let (fname, ext) := rotParts name
  if seq = 0 then fname ++ ['.'] ++ stamp ++ ['.'] ++ ext
  else fname ++ ['.'] ++ stamp ++ ['-'] ++ natStr seq ++ ['.'] ++ ext

/-- `while os.path.exists(dst): seq += 1; dst = …` -/
def seqLoop (taken : Name → Bool) (cand : Nat → Name) : Nat → Nat → Option Nat
  | 0, _ => none
  | fuel + 1, k => if taken (cand k) then seqLoop taken cand fuel (k + 1) else some k

/-- `rotate_existing_file`: an existing target is renamed (in place in the directory listing) to the first free
    candidate. `neverOverwrite = false` is the behaviour of the pinned revision: candidate 0 unconditionally
    (`os.rename` replaces an existing destination). -/
def rotateExistingWith {R : Type} (neverOverwrite : Bool) (fs : FS R) (path stamp : Name) : Option (FS R) :=
  if !fs.has path then some fs
  else
    let pick := if neverOverwrite then seqLoop fs.has (rotCandidate path stamp) (fs.length + 1) 0 else some 0
    pick.map fun k =>
      let dst := rotCandidate path stamp k
      (fs.filter (fun f => f.name != dst || f.name == path)).map (fun f => if f.name == path then { f with name := dst } else f)

def rotateExisting {R : Type} (fs : FS R) (path stamp : Name) : Option (FS R) :=
  rotateExistingWith Gen.rotateNeverOverwrites fs path stamp

structure Tmpl (R : Type) where
  currentPath : Option Name
  fs : FS R
  deriving Repr

/-- one `PathTemplateWriter.write`: `path` is the formatted template, `stamp` the formatted clock -/
def tmplWrite {R : Type} (s : Tmpl R) (path stamp : Name) (r : R) : Option (Tmpl R) :=
  let opened : Option (FS R) :=
    if s.currentPath == some path then some s.fs
    else
      -- without the rotation, opening the path for writing would truncate what is there
      let cleared : Option (FS R) :=
        if Gen.templateRotatesBeforeOpen then rotateExisting s.fs path stamp
        else some (s.fs.filter (fun f => f.name != path))
      cleared.map (fun fs => fs ++ [{ name := path, origin := some path, content := [] }])
  opened.map fun fs =>
    { currentPath := some path,
      fs := fs.map (fun f => if f.name == path then { f with content := f.content ++ [r] } else f) }

def tmplRun {R : Type} (s : Tmpl R) : List (Name × Name × R) → Option (Tmpl R)
  | [] => some s
  | (p, st, r) :: rest => (tmplWrite s p st r).bind (fun s1 => tmplRun s1 rest)

/-! ### The template writer closed in the middle of its life

`close()` closes the current stream writer and keeps both it and `current_path`; a later `write` whose template
formats to that same path gets the closed writer back and raises before anything reaches the disk; a `write` to another
path rotates / opens as usual and the writer is alive again. -/

inductive TOp (R : Type) where
  | write (path stamp : Name) (r : R)
  | close
  deriving Repr

structure TmplC (R : Type) where
  t : Tmpl R
  closed : Bool
  deriving Repr

/-- one call: the new state and whether the call returned normally -/
def tmplStepC {R : Type} (s : TmplC R) : TOp R → Option (TmplC R × Bool)
  | .close => some ({ s with closed := true }, true)
  | .write p st r =>
    if s.closed && s.t.currentPath == some p then some (s, false)          -- the closed writer refuses; nothing changes
    else (tmplWrite s.t p st r).map fun t' => ({ t := t', closed := false }, true)

def tmplRunC {R : Type} (s : TmplC R) : List (TOp R) → Option (TmplC R × List Bool)
  | [] => some (s, [])
  | op :: rest => (tmplStepC s op).bind fun (s1, ok) => (tmplRunC s1 rest).map fun (s2, oks) => (s2, ok :: oks)

/-- the (path, record) pairs of the calls that returned normally -/
def acceptedWrites {R : Type} : List (TOp R) → List Bool → List (Name × R)
  | .write p _ r :: ops, true :: oks => (p, r) :: acceptedWrites ops oks
  | _ :: ops, _ :: oks => acceptedWrites ops oks
  | _, _ => []

/-- `PathTemplateWriter.write`, statement by statement, as the model below reads it (the regenerated
    `Gen.templateWriteBody` is compared with it in `Lemmas/Writers.lean`): the template is formatted with `name`, the
    record itself and `ts`, and `ts` is the record's own `_generated` (the clock only when the record has none) - no
    conversion to a display zone, no other state. -/
def templateWriteFrozen : List String :=
  ["ts = record._generated or datetime.datetime.now(datetime.timezone.utc)",
   "path = self.path_template.format(name=self.name, record=record, ts=ts)",
   "rs = self.record_stream_for_path(path)",
   "rs.write(record)",
   "rs.fp.flush()"]

/-- `record._generated or now(utc)` -/
def tmplTs {T : Type} (generated : Option T) (now : T) : T := generated.getD now

/-- a run of `write` calls given as (record, clock reading, rotation stamp of that moment): the path of each write is
    what `fmt` - the template with `name` fixed - makes of the record and its `ts` -/
def tmplRunRecords {R T : Type} (fmt : R → T → Name) (gen : R → Option T) (s : Tmpl R)
    (ws : List (R × T × Name)) : Option (Tmpl R) :=
  tmplRun s (ws.map fun w => (fmt w.1 (tmplTs (gen w.1) w.2.1), w.2.2, w.1))

end FlowRecord.Writers
