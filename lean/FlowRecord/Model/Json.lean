import FlowRecord.Model.DateTime
import FlowRecord.Model.Base64
import FlowRecord.Gen.Base
import FlowRecord.Gen.Formats
import FlowRecord.Gen.Record
/-!
C14: the JSON lines adapter. Transcribes `JsonRecordPacker.pack_obj` as `json.dumps(default=...)` applies it
(`toJson`, `descLine`), `JsonRecordPacker.unpack_obj` + the record constructor's coercions (`readLine`), the
writer/reader descriptor registries (`writeAll`, `readAll`) and `JsonfileReader`'s plain-JSON fallback
(`fromJsonPlain`). JSON *text* (`json.dumps` / `json.loads`) is not modelled here: the model works on parsed JSON
values; the text layer is the hypothesis `JsonTextLaws` of the theorems.
Library behaviour used as a black box is the parameter `LibLaws` (ipaddress / ipnetwork / pathlib normal forms).
-/
namespace FlowRecord.Json
open FlowRecord
open FlowRecord.DateTime (DT Text)

def cps (s : String) : Text := s.toList.map Char.toNat

/-- Parsed JSON. Integers are unbounded, floats are their IEEE-754 bit pattern, object keys keep their order. -/
inductive JVal where
  | null
  | bool (b : Bool)
  | int (i : Int)
  | float (bits : Nat)
  | str (s : Text)
  | arr (xs : List JVal)
  | obj (kvs : List (Text × JVal))

/-! ## Field values of the JSON-supported types -/

/-- A scalar field value (what a typed field, or one element of a `T[]` field, holds). -/
inductive SV where
  | str (s : Text)                                   -- string, wstring, uri
  | int (i : Int)                                    -- varint, filesize, unix_file_mode, uint16, uint32
  | float (bits : Nat)
  | bool (b : Bool)
  | dt (t : DT)
  | bytes (b : List UInt8)
  | digest (md5 sha1 sha256 : Option Text)           -- hex text as held by the digest object
  | ip (t : Text)                                    -- `str(ipaddress)`
  | net (t : Text)                                   -- `str(ipnetwork)`
  | path (t : Text)                                  -- `str(posix_path)`
  deriving DecidableEq

inductive FV where
  | none                                             -- unset
  | one (v : SV)
  | list (xs : List SV)
  deriving DecidableEq

/-- Scalar field types by JSON behaviour. `int lo hi`: optional range (uint16/uint32). -/
inductive ST where
  | text
  | int (lo hi : Option Int)
  | float
  | boolean
  | datetime
  | bytes
  | digest
  | ip
  | net
  | path
  deriving DecidableEq

def scalarTypes : List (Text × ST) := [
  (cps "string", .text), (cps "wstring", .text), (cps "uri", .text),
  (cps "varint", .int none none), (cps "filesize", .int none none), (cps "unix_file_mode", .int none none),
  (cps "uint16", .int (some Gen.uint16Min) (some Gen.uint16Max)),
  (cps "uint32", .int (some Gen.uint32Min) (some Gen.uint32Max)),
  (cps "float", .float), (cps "boolean", .boolean), (cps "datetime", .datetime), (cps "bytes", .bytes),
  (cps "digest", .digest), (cps "net.ipaddress", .ip), (cps "net.IPAddress", .ip),
  (cps "net.ipnetwork", .net), (cps "net.IPNetwork", .net), (cps "path", .path)]

def lookupT {α : Type} (k : Text) : List (Text × α) → Option α
  | [] => none
  | (k', v) :: rest => if k' = k then some v else lookupT k rest

/-- `T` or `T[]` for a JSON-supported scalar `T`: (scalar type, is a list). -/
def parseType (t : Text) : Option (ST × Bool) :=
  match lookupT t scalarTypes with
  | some st => some (st, false)
  | none =>
    if t.length ≥ 2 ∧ t.drop (t.length - 2) = [91, 93] then
      (lookupT (t.take (t.length - 2)) scalarTypes).map fun st => (st, true)
    else none

/-- Black-box library normal forms: `str(ip_address(s))`, `str(ip_network(s))`, `str(posix_path(s))`;
    `none` = the constructor raises. Idempotent: a normal form is accepted and unchanged. -/
structure LibLaws where
  ipNorm : Text → Option Text
  netNorm : Text → Option Text
  pathNorm : Text → Option Text
  ip_idem : ∀ s t, ipNorm s = some t → ipNorm t = some t
  net_idem : ∀ s t, netNorm s = some t → netNorm t = some t
  path_idem : ∀ s t, pathNorm s = some t → pathNorm t = some t

/-! ## Descriptors and records -/

structure Desc where
  name : Text
  fields : List (Text × Text)          -- (type, field name), as `get_field_tuples()`
  deriving DecidableEq

def reservedFields : List (Text × Text) := Gen.RESERVED_FIELDS.map fun p => (cps p.2, cps p.1)

/-- declared fields followed by the reserved ones: the slots of the record class, as (type, name) -/
def allFields (d : Desc) : List (Text × Text) := d.fields ++ reservedFields

def slotNames (d : Desc) : List Text := (allFields d).map (·.2)

/-- A declared field named like a Python keyword makes `RecordDescriptor` generate the `*args, **kwargs`
    constructor, which assigns every slot as given: an unset list or digest field then stays `None` instead of
    becoming `[]` / an empty digest. -/
def kwInit (d : Desc) : Bool := d.fields.any fun f => (Gen.pyKeywords.map cps).contains f.2

/-- A record: descriptor plus one value per slot (reserved slots last: `_source`, `_classification`,
    `_generated`, `_version`). -/
structure Rec where
  desc : Desc
  vals : List FV
  deriving DecidableEq

/-- The descriptor hash is a parameter: theorems hold for every hash function, colliding ones included. -/
abbrev HashFn := Desc → Nat

/-! ## Writing: `pack_obj` under `json.dumps(default=...)` -/

def optStr : Option Text → JVal
  | none => .null
  | some s => .str s

/-- A value in list-element position, or a scalar field that is not `boolean`. A `boolean` is an `int`
    subclass: `json.dumps` prints it as `1`/`0` unless `pack_obj` cast it (top-level fields only). -/
def encElem : SV → JVal
  | .str s => .str s
  | .int i => .int i
  | .float b => .float b
  | .bool b => .int (if b then 1 else 0)
  | .dt t => .str (DateTime.toIso t)
  | .bytes b => .str (Base64.b64enc b)
  | .digest m s h => .obj [(cps "md5", optStr m), (cps "sha1", optStr s), (cps "sha256", optStr h)]
  | .ip t => .str t
  | .net t => .str t
  | .path t => .str t

/-- A top-level field: "Boolean field types should be cast to a bool instead of staying ints". -/
def encField (ty : Text) (v : FV) : JVal :=
  match v with
  | .none => .null
  | .list xs => .arr (xs.map encElem)
  | .one (.bool b) => if ty = cps "boolean" ∧ Gen.jsonBooleanCast = true then .bool b else encElem (.bool b)
  | .one sv => encElem sv

def encFields : List (Text × Text) → List FV → List (Text × JVal)
  | (ty, nm) :: fs, v :: vs => (nm, encField ty v) :: encFields fs vs
  | _, _ => []

def kType : Text := cps "_type"
def kIdent : Text := cps "_recorddescriptor"
def kData : Text := cps "_data"

def markers (H : HashFn) (d : Desc) : List (Text × JVal) :=
  [(kType, .str (cps "record")), (kIdent, .arr [.str d.name, .int (H d)])]

/-- One record line: `_asdict()` in slot order, then the type markers iff descriptors are enabled. -/
def toJson (H : HashFn) (descriptors : Bool) (r : Rec) : JVal :=
  .obj (encFields (allFields r.desc) r.vals ++ (if descriptors then markers H r.desc else []))

def objKeys : JVal → List Text
  | .obj kvs => kvs.map (·.1)
  | _ => []

/-- The descriptor line: `{"_type": "recorddescriptor", "_data": [name, [[type, field], ...]]}`. -/
def descLine (d : Desc) : JVal :=
  .obj [(kType, .str (cps "recorddescriptor")),
        (kData, .arr [.str d.name, .arr (d.fields.map fun f => .arr [.str f.1, .str f.2])])]

abbrev Registry := List ((Text × Nat) × Desc)

def regGet (reg : Registry) (k : Text × Nat) : Option Desc :=
  match reg with
  | [] => none
  | (k', d) :: rest => if k' = k then some d else regGet rest k

/-- `self.descriptors[desc.identifier] = desc` (the newest binding wins). -/
def regSet (reg : Registry) (k : Text × Nat) (d : Desc) : Registry := (k, d) :: reg

def ident (H : HashFn) (d : Desc) : Text × Nat := (d.name, H d)

/-- `JsonfileWriter.write`: `pack_obj` registers an unknown (or shadowed) descriptor first, which — when
    descriptors are enabled — writes the descriptor line *before* the record line. -/
def writeRec (H : HashFn) (descriptors : Bool) (reg : Registry) (r : Rec) : Registry × List JVal :=
  if regGet reg (ident H r.desc) = some r.desc then (reg, [toJson H descriptors r])
  else (regSet reg (ident H r.desc) r.desc,
        (if descriptors then [descLine r.desc] else []) ++ [toJson H descriptors r])

def writeAll (H : HashFn) (descriptors : Bool) : Registry → List Rec → List JVal
  | _, [] => []
  | reg, r :: rs => (writeRec H descriptors reg r).2 ++ writeAll H descriptors (writeRec H descriptors reg r).1 rs

/-- A write that RAISES while the record is serialised (`json.dumps` meets a value it refuses after `pack_obj` ran):
    the descriptor was registered and — when descriptors are enabled — its line written by the registration
    callback; no record line follows. The caller may carry on with the same writer. -/
def writeFailed (H : HashFn) (descriptors : Bool) (reg : Registry) (r : Rec) : Registry × List JVal :=
  if regGet reg (ident H r.desc) = some r.desc then (reg, [])
  else (regSet reg (ident H r.desc) r.desc, if descriptors then [descLine r.desc] else [])

/-- a history of writes, each succeeding (`true`) or raising (`false`) -/
def writeHist (H : HashFn) (descriptors : Bool) : Registry → List (Rec × Bool) → List JVal
  | _, [] => []
  | reg, (r, true) :: rs => (writeRec H descriptors reg r).2 ++ writeHist H descriptors (writeRec H descriptors reg r).1 rs
  | reg, (r, false) :: rs =>
    (writeFailed H descriptors reg r).2 ++ writeHist H descriptors (writeFailed H descriptors reg r).1 rs

/-! ## Reading: `unpack_obj`, then the record constructor -/

inductive Err where
  | descriptorNotFound
  | badLine                 -- not an object / malformed markers
  | badBase64
  | typeError               -- value of the wrong JSON kind for the field type (Python: TypeError/ValueError)
  | valueError              -- out of range / invalid hex / invalid address
  | unexpectedKey           -- `recordType(**obj)` got a key that is not a slot
  | unsupportedType         -- field type outside the JSON-supported list (not modelled)
  | needsClock              -- `_generated` missing: the constructor would read the wall clock
  deriving DecidableEq, Repr

def isHexDigit (c : Nat) : Bool := (48 ≤ c && c ≤ 57) || (97 ≤ c && c ≤ 102) || (65 ≤ c && c ≤ 70)

/-- what the digest setters accept: `a2b_hex` succeeds and yields n bytes -/
def hexOk (n : Nat) : Option Text → Bool
  | none => true
  | some s => s.length == 2 * n && s.all isHexDigit

def inRange (lo hi : Option Int) (i : Int) : Bool :=
  (match lo with | some l => decide (l ≤ i) | none => true) && (match hi with | some h => decide (i ≤ h) | none => true)

def getStrOrNull : JVal → Option (Option Text)
  | .null => some none
  | .str s => some (some s)
  | _ => none

/-- The record constructor's coercion of one JSON-decoded value into scalar type `st` (`b64` = the value went
    through `base64.b64decode` in `unpack_obj` because the field's type name is in the extracted table). -/
def decElem (L : LibLaws) (st : ST) (b64 : Bool) (j : JVal) : Except Err SV :=
  match st, j with
  | .text, .str s => .ok (.str s)
  | .int lo hi, .int i => if inRange lo hi i then .ok (.int i) else .error .valueError
  | .float, .float b => .ok (.float b)
  | .boolean, .bool b => .ok (.bool b)
  | .boolean, .int i =>
    if Gen.booleanMin ≤ i ∧ i ≤ Gen.booleanMax then .ok (.bool (i != 0)) else .error .valueError
  | .datetime, .str s =>
    match DateTime.construct (.iso s) with
    | some t => .ok (.dt t)
    | none => .error .valueError
  | .bytes, .str s =>
    if b64 then
      match Base64.b64dec s with
      | some b => .ok (.bytes b)
      | none => .error .badBase64
    else .error .typeError                       -- `bytes("text")`: "Value not of bytes type"
  | .digest, .obj kvs =>
    match (lookupT (cps "md5") kvs).bind getStrOrNull, (lookupT (cps "sha1") kvs).bind getStrOrNull,
          (lookupT (cps "sha256") kvs).bind getStrOrNull with
    | some m, some s, some h =>
      if hexOk 16 m && hexOk 20 s && hexOk 32 h then .ok (.digest m s h) else .error .valueError
    | _, _, _ => .error .typeError
  | .ip, .str s => match L.ipNorm s with | some t => .ok (.ip t) | none => .error .valueError
  | .net, .str s => match L.netNorm s with | some t => .ok (.net t) | none => .error .valueError
  | .path, .str s => match L.pathNorm s with | some t => .ok (.path t) | none => .error .valueError
  | _, _ => .error .typeError

def decElems (L : LibLaws) (st : ST) (b64 : Bool) : List JVal → Except Err (List SV)
  | [] => .ok []
  | j :: js =>
    match decElem L st b64 j, decElems L st b64 js with
    | .ok v, .ok vs => .ok (v :: vs)
    | .error e, _ => .error e
    | _, .error e => .error e

/-- field type names whose JSON value is base64-decoded before the constructor sees it (extracted) -/
def b64Types : List Text := Gen.jsonUnpackB64.map fun p => cps p.1

/-- One slot: the JSON value found under the slot's name (`none`: key absent), coerced to the slot's type.
    An absent or `null` value is the type's default: unset, `[]` for lists, an empty digest — or plainly unset for
    every type when the record class uses the keyword-tolerant constructor (`kw`). -/
def decField (L : LibLaws) (kw : Bool) (ty : Text) (j : Option JVal) : Except Err FV :=
  match parseType ty with
  | none => .error .unsupportedType
  | some (st, isList) =>
    let dflt : FV :=
      if kw then .none else if isList then .list [] else if st = .digest then .one (.digest none none none) else .none
    match j with
    | none => .ok dflt
    | some .null => .ok dflt
    | some v =>
      if isList then
        match v with
        | .arr xs => (decElems L st (decide (ty ∈ b64Types)) xs).map FV.list
        | _ => .error .typeError
      else (decElem L st (decide (ty ∈ b64Types)) v).map FV.one

def decSlots (L : LibLaws) (kw : Bool) (kvs : List (Text × JVal)) : List (Text × Text) → Except Err (List FV)
  | [] => .ok []
  | (ty, nm) :: fs =>
    match decField L kw ty (lookupT nm kvs), decSlots L kw kvs fs with
    | .ok v, .ok vs => .ok (v :: vs)
    | .error e, _ => .error e
    | _, .error e => .error e

def dropKeys (ks : List Text) (kvs : List (Text × JVal)) : List (Text × JVal) := kvs.filter fun p => !(ks.contains p.1)

/-- `recordType(**obj)`: every key must be a slot; `_generated` must be present (else the clock is read);
    `_version` is always set to RECORD_VERSION whatever the line says. -/
def construct (L : LibLaws) (d : Desc) (kvs : List (Text × JVal)) : Except Err Rec :=
  if kvs.all (fun p => (slotNames d).contains p.1) then
    match decSlots L (kwInit d) kvs (allFields d) with
    | .error e => .error e
    | .ok vals =>
      match lookupT (cps "_generated") kvs with
      | none => .error .needsClock
      | some .null => .error .needsClock
      | some _ =>
        -- the last slot is `_version`
        .ok ⟨d, vals.dropLast ++ [.one (.int Gen.RECORD_VERSION)]⟩
  else .error .unexpectedKey

inductive Line where
  | record (r : Rec)
  | descriptor (d : Desc)
  | plain (kvs : List (Text × JVal))           -- an object without type markers: the plain-JSON fallback applies
  | other                                      -- any other JSON document

def fieldOfJson : JVal → Option (Text × Text)
  | .arr [.str t, .str n] => some (t, n)
  | _ => none

def descOfData : JVal → Option Desc
  | .arr [.str name, .arr fs] => (fs.mapM fieldOfJson).map fun fields => ⟨name, fields⟩
  | _ => none

/-- `JsonRecordPacker.unpack` on one parsed line. -/
def readLine (L : LibLaws) (H : HashFn) (reg : Registry) (j : JVal) : Except Err (Registry × Line) :=
  match j with
  | .obj kvs =>
    match lookupT kType kvs with
    | some (.str t) =>
      if t = cps "record" then
        match lookupT kIdent kvs with
        | some (.arr [.str name, .int h]) =>
          match regGet reg (name, h.toNat) with
          | none => .error .descriptorNotFound
          | some d => (construct L d (dropKeys [kType, kIdent] kvs)).map fun r => (reg, .record r)
        | _ => .error .badLine
      else if t = cps "recorddescriptor" then
        match (lookupT kData kvs).bind descOfData with
        | some d => .ok (if regGet reg (ident H d) = some d then reg else regSet reg (ident H d) d, .descriptor d)
        | none => .error .badLine
      else .ok (reg, .plain kvs)
    | _ => .ok (reg, .plain kvs)
  | _ => .ok (reg, .other)

/-- `JsonfileReader.__iter__` over parsed lines: the records it yields (descriptor lines update the registry). -/
def readAll (L : LibLaws) (H : HashFn) : Registry → List JVal → Except Err (List Rec)
  | _, [] => .ok []
  | reg, j :: js =>
    match readLine L H reg j with
    | .error e => .error e
    | .ok (reg', .record r) => (readAll L H reg' js).map (r :: ·)
    | .ok (reg', _) => readAll L H reg' js

/-! ## What the reader gives back: the same record, datetimes as wall clock + fixed offset -/

def canonSV : SV → SV
  | .dt t => .dt (DateTime.fixedView t)
  | v => v

def canonFV : FV → FV
  | .none => .none
  | .one v => .one (canonSV v)
  | .list xs => .list (xs.map canonSV)

def canonRec (r : Rec) : Rec := ⟨r.desc, r.vals.map canonFV⟩

/-! ## Plain-JSON fallback (`descriptors=false` output, or any foreign JSON lines) -/

/-- What a `json/record` field holds after the fallback: the scalar itself, or an opaque Python `str()` of a
    container (not modelled). -/
inductive PV where
  | none
  | str (s : Text)
  | int (i : Int)
  | float (bits : Nat)
  | bool (b : Bool)
  | opaque
  deriving DecidableEq

/-- `fieldtype_for_value(val, "string")` on a JSON-decoded value (str, float, bool, int in the extracted order;
    None, list and dict fall to the default). -/
def plainType : JVal → Text
  | .str _ => cps "string"
  | .float _ => cps "float"
  | .bool _ => cps "boolean"
  | .int _ => cps "varint"
  | _ => cps Gen.jsonFallbackDefaultType

def plainVal : JVal → PV
  | .null => .none
  | .str s => .str s
  | .int i => .int i
  | .float b => .float b
  | .bool b => .bool b
  | _ => .opaque

structure PlainRec where
  typeName : Text
  fields : List (Text × Text)                  -- (type, name) derived from the values
  vals : List PV
  source : PV
  classification : PV
  generatedIso : Option Text                   -- `_generated` text, handed to the datetime constructor

def startsUnderscore : Text → Bool
  | 95 :: _ => true
  | _ => false

/-- The fallback: keys not starting with `_` become fields typed from their values; all keys (including the
    reserved ones) are handed to the constructor; any other `_key` is refused by it. -/
def fromJsonPlain (kvs : List (Text × JVal)) : Except Err PlainRec :=
  let decl := kvs.filter fun p => !(startsUnderscore p.1)
  let under := kvs.filter fun p => startsUnderscore p.1
  if under.all (fun p => (reservedFields.map (·.2)).contains p.1) then
    .ok { typeName := cps Gen.jsonFallbackTypeName
          fields := decl.map fun p => (plainType p.2, p.1)
          vals := decl.map fun p => plainVal p.2
          source := match lookupT (cps "_source") kvs with | some v => plainVal v | none => .none
          classification := match lookupT (cps "_classification") kvs with | some v => plainVal v | none => .none
          generatedIso := match lookupT (cps "_generated") kvs with | some (.str s) => some s | _ => none }
  else .error .unexpectedKey

/-! ## The text layer (hypothesis) -/

/-- What CPython's `json.dumps(..., indent=None)` / `json.loads` are assumed to do on the values the writer
    produces: parse back to the same value, one line per document. `Plain` values: every float finite. -/
def finiteBits (b : Nat) : Bool := b < 18446744073709551616 && (b / 4503599627370496 % 2048 != 2047)

structure JsonTextLaws where
  dumps : JVal → Text
  loads : Text → Option JVal
  plain : JVal → Prop
  roundtrip : ∀ v, plain v → loads (dumps v) = some v
  oneLine : ∀ v, 10 ∉ dumps v

end FlowRecord.Json
