import FlowRecord.Model.Descriptor
/-!
C12: record equality and hashing. Transcribes `Record.__eq__`, `Record._pack(excluded_fields=…)`,
`GroupedRecord._pack`, `Record.__hash__` / `_to_hashable`, `RecordDescriptor.identifier` and the ignored-fields
global with its context manager (`flow/record/base.py`).

Values are the *packed* field values (`v._pack()`), as trees: primitive leaves (`P`, with primitive equality `E` and
hash `H` as parameters — CPython's), lists/tuples, dicts (items in canonical key order), nested records and grouped
records. A nested record is compared / hashed through its own `__eq__` / `__hash__`, i.e. with the same ignored set.
-/
namespace FlowRecord.Equality
open FlowRecord FlowRecord.Descriptor

inductive Val (P : Type) where
  | prim (p : P)
  | seq (isTuple : Bool) (xs : List (Val P))
  | dict (keys : List P) (vals : List (Val P))          -- items in canonical key order
  | record (desc : Desc) (vals : List (Val P))           -- one value per slot of the generated class
  | grouped (name : Str) (members : List (Val P))        -- members are records
  deriving Repr

/-- input of the descriptor hash: `name + "".join(f"{n}{t}" for t, n in fields)` (order from the source) -/
def hashInput (d : Desc) : Str :=
  d.name ++ (d.fields.flatMap fun f => if Gen.hashInputNameFirst then f.2 ++ f.1 else f.1 ++ f.2)

/-- `RecordDescriptor.identifier` for a digest function `h` -/
def identifier (h : Str → Nat) (d : Desc) : Str × Nat := (d.name, h (hashInput d))

/-- `_pack(excluded_fields=ig)`: the values of the slots that are not ignored, in slot order -/
def keep (ig : List Str) : List Str → List α → List α
  | n :: ns, v :: vs => if ig.contains n then keep ig ns vs else v :: keep ig ns vs
  | _, _ => []

/-- the slots `Record._pack(excluded_fields=arg)` leaves out: the argument decides; without one, nothing is left out
    unless the source consults the comparison-ignore configuration by itself (regenerated facts) -/
def packExcluded (arg : Option (List Str)) (globalIg : List Str) : List Str :=
  match arg with
  | some xs => xs
  | none => if Gen.recordPackReadsGlobalIgnore || Gen.recordPackExcludedDefault != "None" then globalIg else []

/-- what the binary packer asks `_pack` to leave out (it passes no `excluded_fields` argument: regenerated
    `Gen.packerPackArgs` / `Gen.packerPassesExcluded`) while a comparison-ignore configuration `globalIg` is in force -/
def packerExcluded (globalIg : List Str) : List Str :=
  if Gen.packerPassesExcluded then globalIg else packExcluded none globalIg

mutual
/-- drop the ignored slots of every record in the tree (each nested `__eq__` / `__hash__` applies the same global) -/
def norm {P : Type} (ig : List Str) : Val P → Val P
  | .prim p => .prim p
  | .seq t xs => .seq t (norms ig xs)
  | .dict ks vs => .dict ks (norms ig vs)
  | .record d vs => .record d (keep ig (slots d) (norms ig vs))
  | .grouped n ms => .grouped n (norms ig ms)
def norms {P : Type} (ig : List Str) : List (Val P) → List (Val P)
  | [] => []
  | v :: vs => norm ig v :: norms ig vs
end

/-- elementwise primitive equality of two key lists -/
def primsEq {P : Type} (E : P → P → Bool) : List P → List P → Bool
  | [], [] => true
  | a :: as, b :: bs => E a b && primsEq E as bs
  | _, _ => false

mutual
/-- Python `==` on packed values: same kind of container, elementwise; records by identifier and packed values -/
def veq {P : Type} (E : P → P → Bool) (h : Str → Nat) : Val P → Val P → Bool
  | .prim a, .prim b => E a b
  | .seq ta xs, .seq tb ys => ta == tb && veqs E h xs ys
  | .dict ka va, .dict kb vb => primsEq E ka kb && veqs E h va vb
  | .record da va, .record db vb => identifier h da == identifier h db && veqs E h va vb
  | .grouped na ma, .grouped nb mb => na == nb && veqs E h ma mb
  | _, _ => false
def veqs {P : Type} (E : P → P → Bool) (h : Str → Nat) : List (Val P) → List (Val P) → Bool
  | [], [] => true
  | a :: as, b :: bs => veq E h a b && veqs E h as bs
  | _, _ => false
end

/-- `a == b` for two records (plain, nested or grouped) under the ignored-fields set `ig` -/
def recEq {P : Type} (E : P → P → Bool) (h : Str → Nat) (ig : List Str) (a b : Val P) : Bool :=
  veq E h (norm ig a) (norm ig b)

/-- how CPython combines hashes (tuples, frozensets of items, strings, ints) — parameters, like `H` -/
structure Combine where
  tup : List Nat → Nat
  fro : List Nat → Nat
  str : Str → Nat
  int : Nat → Nat

def mapM' {α β : Type} (f : α → Option β) : List α → Option (List β)
  | [] => some []
  | a :: as => match f a, mapM' f as with
    | some b, some bs => some (b :: bs)
    | _, _ => none

mutual
/-- `hash(_to_hashable(x))`: lists and tuples alike become tuples, dicts frozensets of items, nested records hash
    themselves; `none` = TypeError (an unhashable leaf) -/
def vhash {P : Type} (H : P → Option Nat) (C : Combine) (h : Str → Nat) : Val P → Option Nat
  | .prim p => H p
  | .seq _ xs => (vhashes H C h xs).map C.tup
  | .dict ks vs =>
    match mapM' H ks, vhashes H C h vs with
    | some hk, some hv => some (C.fro (List.zipWith (fun a b => C.tup [a, b]) hk hv))
    | _, _ => none
  | .record d vs => (vhashes H C h vs).map fun hs => C.tup [C.tup [C.str d.name, C.int (h (hashInput d))], C.tup hs]
  | .grouped n ms => (vhashes H C h ms).map fun hs => C.tup [C.str n, C.tup hs]
def vhashes {P : Type} (H : P → Option Nat) (C : Combine) (h : Str → Nat) : List (Val P) → Option (List Nat)
  | [] => some []
  | v :: vs => match vhash H C h v, vhashes H C h vs with
    | some x, some xs => some (x :: xs)
    | _, _ => none
end

/-- `hash(record)` under the ignored-fields set `ig` -/
def hashRec {P : Type} (H : P → Option Nat) (C : Combine) (h : Str → Nat) (ig : List Str) (a : Val P) : Option Nat :=
  vhash H C h (norm ig a)

/-! ### the ignored-fields global and its context manager -/

/-- `set_ignored_fields_for_comparison` and `ignore_fields_for_comparison`, statement by statement, as `exec1` below
    reads them (compared with the regenerated `Gen.ignoreSetterBody` / `Gen.ignoreScopeBody` in `Props/C12.lean`): the
    setter REBINDS the global to a fresh set - it never edits the set in place, so a saved binding keeps its contents -
    and the context manager saves the binding, installs the override inside its `try`, restores in the `finally`. -/
def ignoreSetterFrozen : List String :=
  ["global IGNORE_FIELDS_FOR_COMPARISON", "IGNORE_FIELDS_FOR_COMPARISON = set(ignored_fields)"]

def ignoreScopeFrozen : List String :=
  ["original_ignored_fields = IGNORE_FIELDS_FOR_COMPARISON",
   "try:",
   "  set_ignored_fields_for_comparison(ignored_fields)",
   "  yield",
   "finally:",
   "  set_ignored_fields_for_comparison(original_ignored_fields)"]

inductive Cmd where
  | set (s : List Str)                       -- set_ignored_fields_for_comparison(s)
  | scope (s : List Str) (body : List Cmd)   -- with ignore_fields_for_comparison(s): body
  | raise                                    -- an exception is raised here
  | observe                                  -- a comparison happens here (reads the global)
  deriving Repr

inductive Exit where
  | normal
  | raised
  deriving Repr, DecidableEq

structure St where
  glob : List Str
  trace : List (List Str)        -- the global as read by each `observe`, in order
  deriving Repr, DecidableEq

mutual
/-- run one command: `scope` saves the global, sets it, runs the body and restores it in a `finally` -/
def exec1 : St → Cmd → St × Exit
  | st, .set s => ({ st with glob := s }, .normal)
  | st, .raise => (st, .raised)
  | st, .observe => ({ st with trace := st.trace ++ [st.glob] }, .normal)
  | st, .scope s body =>
    let original := st.glob
    let (st', ex) := execs { st with glob := s } body
    ({ st' with glob := original }, ex)
def execs : St → List Cmd → St × Exit
  | st, [] => (st, .normal)
  | st, c :: cs =>
    match exec1 st c with
    | (st', .raised) => (st', .raised)
    | (st', .normal) => execs st' cs
end

end FlowRecord.Equality
