import FlowRecord.Gen.Adapters
import FlowRecord.Gen.Base
/-!
C18: the SQLite writer (`flow/record/adapter/sqlite.py`) as a state machine.

* `work`      — the database as the writer's own connection sees it (committed content plus the open transaction;
                DESIGN.md calls the difference between `work` and `committed` the *pending* rows),
* `committed` — what every other connection sees (SQLite's isolation is the hypothesis; the harness observes it
                through a second `sqlite3` connection after every call),
* `count`, `batch`, `seen`, `isOpen` — `self.count`, `self.batch_size`, `self.descriptors_seen`, `self.con is not None`.

`SqliteWriter.write` is two steps: `ensure` (new descriptor ⇒ CREATE TABLE IF NOT EXISTS, ALTER TABLE ADD COLUMN for
missing columns, `flush`) and `insert` (`db_insert_record`, `count += 1`, `flush` every `batch` records).
SQLite resolves identifiers ASCII-case-insensitively (`sameIdent`); Python's `column_name in column_names` is exact.
The value an INSERT leaves in a cell depends on the declared type of the column (type affinity): that function is the
parameter `store` (laws: `SqliteLaws` in the proof files; concrete executable instance: `affinityStore`).
Column types come from the extracted `FIELD_MAP` (`Gen.SQLITE_COLUMN_TYPE_MAP`), reader types from `Gen.SQLITE_FIELD_MAP`.
-/
namespace FlowRecord.Sqlite
open FlowRecord

/-- A Python `str`: its code points. -/
abbrev Text := List Nat
abbrev Bytes := List UInt8

/-- A value stored in a cell, by SQLite storage class. Floats are opaque 64-bit patterns. -/
inductive DbVal where
  | null
  | integer (i : Int)
  | real (bits : Nat)
  | text (s : Text)
  | blob (b : Bytes)
  deriving DecidableEq, Repr

/-- A field value as `db_insert_record` finds it in `record._asdict()`. `DT` is the datetime type (opaque: printing
    and parsing ISO-8601 is C13's business); `other` carries `str(value)` of any other object. -/
inductive PyVal (DT : Type) where
  | none
  | bool (b : Bool)
  | int (i : Int)
  | float (bits : Nat)
  | bytes (b : Bytes)
  | str (s : Text)
  | datetime (d : DT)
  | other (strForm : Text)
  deriving DecidableEq, Repr

inductive Refusal where
  | overflow          -- OverflowError: Python int too large to convert to SQLite INTEGER
  | unicode           -- UnicodeEncodeError: a lone surrogate cannot be encoded as UTF-8
  | closed            -- AttributeError: write after close (`self.con` is None)
  | ddl               -- sqlite3.OperationalError: duplicate column name (identifiers are case-insensitive), or a table
                      -- name SQLite reserves (prefix `sqlite_`)
  | arity             -- not reachable from the real code: a row with the wrong number of values
  deriving DecidableEq, Repr

def int64Min : Int := -9223372036854775808
def int64Max : Int := 9223372036854775807

def isSurrogate (c : Nat) : Bool := 0xD800 ≤ c && c ≤ 0xDFFF

/-- IEEE-754 binary64 NaN: exponent all ones, mantissa non-zero. sqlite3_bind_double stores NaN as NULL. -/
def isNaN (bits : Nat) : Bool := (bits / 4503599627370496) % 2048 == 2047 && bits % 4503599627370496 != 0

/-- `db_insert_record`'s value mapping followed by the `sqlite3` module's parameter binding. -/
def dbValue {DT : Type} (iso : DT → Text) : PyVal DT → Except Refusal DbVal
  | .none => .ok .null
  | .bool b => .ok (.integer (if b then 1 else 0))
  | .int i => if int64Min ≤ i ∧ i ≤ int64Max then .ok (.integer i) else .error .overflow
  | .float bits => .ok (if isNaN bits then .null else .real bits)
  | .bytes b => .ok (.blob b)
  | .str s => if s.any isSurrogate then .error .unicode else .ok (.text s)
  | .datetime d => .ok (.text (iso d))
  | .other s => if s.any isSurrogate then .error .unicode else .ok (.text s)

/-- First refusal (values are converted left to right before the INSERT is executed) or all converted values. -/
def dbValues {DT : Type} (iso : DT → Text) : List (PyVal DT) → Except Refusal (List DbVal)
  | [] => .ok []
  | v :: vs =>
    match dbValue iso v with
    | .error e => .error e
    | .ok x =>
      match dbValues iso vs with
      | .error e => .error e
      | .ok xs => .ok (x :: xs)

/-! ### identifiers -/

def lowerAscii (c : Nat) : Nat := if 65 ≤ c ∧ c ≤ 90 then c + 32 else c

/-- SQLite compares table and column names ASCII-case-insensitively. -/
def sameIdent (a b : Text) : Bool := a.map lowerAscii == b.map lowerAscii

/-- `f'"{name}"'` — how every statement of the adapter embeds a table or column name. -/
def quoteIdent (n : Text) : Text := 34 :: (n ++ [34])

/-- SQL lexer for a quoted identifier: after the opening `"`, `""` stands for one `"`, a single `"` ends it.
    Returns the identifier and the rest of the statement. -/
def lexQuotedBody : Text → Option (Text × Text)
  | [] => none
  | c :: rest =>
    if c = 34 then
      match rest with
      | [] => some ([], [])
      | c2 :: rest2 =>
        if c2 = 34 then (lexQuotedBody rest2).map (fun p => (34 :: p.1, p.2)) else some ([], c2 :: rest2)
    else (lexQuotedBody rest).map (fun p => (c :: p.1, p.2))

def lexQuotedIdent : Text → Option (Text × Text)
  | [] => none
  | c :: rest => if c = 34 then lexQuotedBody rest else none

/-- The character set of valid record type and field names (`RE_VALID_RECORD_TYPE_NAME`, `RE_VALID_FIELD_NAME`):
    ASCII letters, digits, `_`, `/`. (Python's `$` also lets one trailing newline through; still no `"`.) -/
def nameChar (c : Nat) : Bool :=
  (97 ≤ c && c ≤ 122) || (65 ≤ c && c ≤ 90) || (48 ≤ c && c ≤ 57) || c == 95 || c == 47

/-! ### schema -/

/-- A record descriptor as the adapter uses it: name and `get_all_fields()` in order (reserved fields included),
    each `(field name, type name)`. -/
structure Desc where
  name : Text
  fields : List (Text × String)
  deriving DecidableEq, Repr

structure Table where
  name : Text
  /-- `(column name, declared type)` in `PRAGMA table_info` order -/
  cols : List (Text × String)
  /-- one entry per INSERT, in rowid order: the cells the statement named (any other column is NULL) -/
  rows : List (List (Text × DbVal))
  deriving DecidableEq, Repr

abbrev Tables := List Table

/-- `FIELD_MAP.get(fieldset.typename, "TEXT")`. -/
def colType (typename : String) : String :=
  match Gen.SQLITE_COLUMN_TYPE_MAP.lookup typename with
  | some t => t
  | none => "TEXT"

def colNames (t : Table) : List Text := t.cols.map (·.1)

/-- `CREATE TABLE IF NOT EXISTS` (no-op when a table of that name — case-insensitively — exists). -/
def createTable (T : Tables) (d : Desc) : Tables :=
  if T.any (fun t => sameIdent t.name d.name) then T
  else T ++ [{ name := d.name, cols := d.fields.map (fun f => (f.1, colType f.2)), rows := [] }]

/-- `update_descriptor_columns` on one table: every field whose name is not (exactly) a column name is added. -/
def addCols (t : Table) (d : Desc) : Table :=
  { t with cols := t.cols ++ (d.fields.filter (fun f => !(colNames t).contains f.1)).map (fun f => (f.1, colType f.2)) }

def updateColumns (T : Tables) (d : Desc) : Tables :=
  T.map (fun t => if sameIdent t.name d.name then addCols t d else t)

/-- The DDL `write` issues for a descriptor it has not seen. -/
def ddl (T : Tables) (d : Desc) : Tables := updateColumns (createTable T d) d

/-- SQLite refuses a CREATE TABLE / ADD COLUMN that would give a table two columns with the same name up to case. -/
def hasIdentClash : List Text → Bool
  | [] => false
  | n :: ns => ns.any (sameIdent n) || hasIdentClash ns

/-- SQLite reserves every object name beginning with `sqlite_` (ASCII-case-insensitively) for internal use:
    `CREATE TABLE "sqlite_x"` is an OperationalError ("object name reserved for internal use"). -/
def reservedName (n : Text) : Bool := (n.take 7).map lowerAscii == [115, 113, 108, 105, 116, 101, 95]

def ddlOk (T : Tables) (d : Desc) : Bool :=
  !reservedName d.name && (ddl T d).all (fun t => !(sameIdent t.name d.name) || !hasIdentClash (colNames t))

/-- declared type of a column (looked up the way SQLite resolves the name in the INSERT) -/
def declType (t : Table) (col : Text) : String :=
  match t.cols.find? (fun c => sameIdent c.1 col) with
  | some c => c.2
  | none => ""

/-- `INSERT INTO "name" (cols…) VALUES (?…)`: the row is appended to the table the name resolves to; each value is
    stored according to the declared type of its column. -/
def insertRow (store : String → DbVal → DbVal) (T : Tables) (name : Text) (cells : List (Text × DbVal)) : Tables :=
  T.map (fun t => if sameIdent t.name name then
      { t with rows := t.rows ++ [cells.map (fun c => (c.1, store (declType t c.1) c.2))] } else t)

/-! ### the writer -/

structure St where
  committed : Tables
  work : Tables
  count : Nat
  batch : Nat
  seen : List Desc
  isOpen : Bool
  deriving DecidableEq, Repr

def init (batch : Nat) : St :=
  { committed := [], work := [], count := 0, batch := batch, seen := [], isOpen := true }

/-- `tx_cycle`: COMMIT; BEGIN. -/
def commit (s : St) : St := { s with committed := s.work }

/-- The batch test of `SqliteWriter.write` as extracted is the one modelled below (`count % batch = 0`). -/
def commitTestOk : Bool := Gen.sqliteCommitTest == "self.count % self.batch_size == 0"

/-- One call of the writer, with `write` split at the point where it may commit before inserting. -/
inductive Step (DT : Type) where
  | ensure (d : Desc)
  | insert (d : Desc) (vals : List (PyVal DT))
  | flush
  | close
  deriving DecidableEq, Repr

inductive Outcome where
  | ok
  | refused (r : Refusal)
  deriving DecidableEq, Repr

structure Env (DT : Type) where
  iso : DT → Text
  store : String → DbVal → DbVal

def zipCells (d : Desc) (vals : List DbVal) : List (Text × DbVal) := (d.fields.map (·.1)).zip vals

def step {DT : Type} (E : Env DT) (s : St) : Step DT → St × Outcome
  | .ensure d =>
    if !s.isOpen then (s, .refused .closed)
    else if s.seen.contains d then (s, .ok)
    else if !ddlOk s.work d then ({ s with seen := d :: s.seen }, .refused .ddl)
    else
      let s1 := { s with work := ddl s.work d, seen := d :: s.seen }
      (if Gen.sqliteFlushOnNewDescriptor then commit s1 else s1, .ok)
  | .insert d vals =>
    if !s.isOpen then (s, .refused .closed)
    else if vals.length != d.fields.length then (s, .refused .arity)
    else match dbValues E.iso vals with
      | .error r => (s, .refused r)
      | .ok xs =>
        let s2 := { s with work := insertRow E.store s.work d.name (zipCells d xs), count := s.count + 1 }
        (if commitTestOk && s2.count % s2.batch == 0 then commit s2 else s2, .ok)
  | .flush => (if s.isOpen then commit s else s, .ok)
  | .close => ({ (if s.isOpen && Gen.sqliteCloseFlushes then commit s else s) with isOpen := false }, .ok)

/-- A call of the public API. -/
inductive Op (DT : Type) where
  | write (d : Desc) (vals : List (PyVal DT))
  | flush
  | close
  deriving DecidableEq, Repr

/-- `SqliteWriter.write` = `ensure` then `insert`. (When `ensure` is refused with `.closed` so is `insert`, on the
    same state. When SQLite refuses the DDL the real call stops with half of the DDL applied; the model is not
    faithful from there on — `accepted` below is the domain predicate and the driver flags such histories.) -/
def apply {DT : Type} (E : Env DT) (s : St) : Op DT → St × Outcome
  | .write d vals =>
    let r1 := step E s (.ensure d)
    let r2 := step E r1.1 (.insert d vals)
    (r2.1, if r1.2 = .ok then r2.2 else r1.2)
  | .flush => step E s .flush
  | .close => step E s .close

/-- The same history as a sequence of steps. -/
def expand {DT : Type} : List (Op DT) → List (Step DT)
  | [] => []
  | .write d vals :: ops => .ensure d :: .insert d vals :: expand ops
  | .flush :: ops => .flush :: expand ops
  | .close :: ops => .close :: expand ops

def runSteps {DT : Type} (E : Env DT) (s : St) (ms : List (Step DT)) : St := ms.foldl (fun s m => (step E s m).1) s

/-- Does this step commit (make `work` visible to other connections)? Commit points are exactly: `flush`, `close`,
    the DDL of a descriptor not seen before, and every `batch`-th successful insert. -/
def commits {DT : Type} (E : Env DT) (s : St) : Step DT → Bool
  | .ensure d => s.isOpen && !s.seen.contains d && ddlOk s.work d && Gen.sqliteFlushOnNewDescriptor
  | .insert d vals =>
    s.isOpen && vals.length == d.fields.length &&
      (match dbValues E.iso vals with | .ok _ => true | .error _ => false) &&
      commitTestOk && (s.count + 1) % s.batch == 0
  | .flush => s.isOpen
  | .close => s.isOpen && Gen.sqliteCloseFlushes

/-- No step of `ms`, started in `s`, commits. -/
def quiet {DT : Type} (E : Env DT) (s : St) : List (Step DT) → Bool
  | [] => true
  | m :: ms => !commits E s m && quiet E (step E s m).1 ms

def run {DT : Type} (E : Env DT) (s : St) (ops : List (Op DT)) : St := ops.foldl (fun s op => (apply E s op).1) s

/-- The states after every call (what the second connection is shown). -/
def trace {DT : Type} (E : Env DT) (s : St) : List (Op DT) → List (St × Outcome)
  | [] => []
  | op :: ops => let r := apply E s op; r :: trace E r.1 ops

/-! ### several writer sessions on one database file -/

/-- A new `SqliteWriter` on the same database file: it sees what is committed (a pending transaction of an earlier
    connection is gone), has counted nothing and has seen no descriptor yet. -/
def reopen (s : St) : St :=
  { committed := s.committed, work := s.committed, count := 0, batch := s.batch, seen := [], isOpen := true }

/-- The state before the first session: no database yet, no writer. -/
def noWriter (batch : Nat) : St :=
  { committed := [], work := [], count := 0, batch := batch, seen := [], isOpen := false }

/-- One writer session after another on one file; every session ends with `close` before the next one opens. -/
def runSessions {DT : Type} (E : Env DT) (s : St) : List (List (Op DT)) → St
  | [] => s
  | ops :: rest => runSessions E (run E (reopen s) (ops ++ [.close])) rest

/-! ### what the database should hold (no transactions, no `seen` cache) -/

/-- The cells `db_insert_record` hands to the INSERT, unless a value is refused. -/
def cellsOf {DT : Type} (E : Env DT) (d : Desc) (vals : List (PyVal DT)) : Option (List (Text × DbVal)) :=
  if vals.length != d.fields.length then none
  else match dbValues E.iso vals with
    | .ok xs => some (zipCells d xs)
    | .error _ => none

/-- The writes of a history up to its first `close`: descriptor and — unless the values were refused — the
    converted cells. -/
def writesOf {DT : Type} (E : Env DT) : List (Op DT) → List (Desc × Option (List (Text × DbVal)))
  | [] => []
  | .close :: _ => []
  | .flush :: ops => writesOf E ops
  | .write d vals :: ops =>
    (d, cellsOf E d vals) :: writesOf E ops

/-- Tables built by plain replay: DDL for every write, then the insert. No transactions, no `seen` cache. -/
def specStep (store : String → DbVal → DbVal) (T : Tables) (w : Desc × Option (List (Text × DbVal))) : Tables :=
  match w.2 with
  | some cells => insertRow store (ddl T w.1) w.1.name cells
  | none => ddl T w.1

def specTables (store : String → DbVal → DbVal) (ws : List (Desc × Option (List (Text × DbVal)))) : Tables :=
  ws.foldl (specStep store) []

/-- the writes of all sessions, in order -/
def sessionWrites {DT : Type} (E : Env DT) (ss : List (List (Op DT))) : List (Desc × Option (List (Text × DbVal))) :=
  ss.flatMap (writesOf E)

/-- SQLite accepts the DDL of every write of the history (no duplicate column name up to case). -/
def accepted (store : String → DbVal → DbVal) (T : Tables) : List (Desc × Option (List (Text × DbVal))) → Bool
  | [] => true
  | w :: ws => ddlOk T w.1 && accepted store (specStep store T w) ws

/-- rows of the table a name resolves to (SQLite's case-insensitive resolution) -/
def optRows : Option Table → List (List (Text × DbVal))
  | some t => t.rows
  | none => []

def rowsOf (T : Tables) (name : Text) : List (List (Text × DbVal)) :=
  optRows (T.find? (fun t => sameIdent t.name name))

/-! ### SQLite's type affinity, concretely (used by the driver; the theorems only use its laws) -/

def containsSub (needle : List Char) : List Char → Bool
  | [] => needle.isEmpty
  | c :: hay => needle.isPrefixOf (c :: hay) || containsSub needle hay

inductive Affinity where
  | integer | text | blob | real | numeric
  deriving DecidableEq, Repr

/-- https://sqlite.org/datatype3.html §3.1, rules 1–5 on the upper-cased declared type. -/
def affinityOf (declared : String) : Affinity :=
  let u := declared.toList.map Char.toUpper
  if containsSub "INT".toList u then .integer
  else if containsSub "CHAR".toList u || containsSub "CLOB".toList u || containsSub "TEXT".toList u then .text
  else if containsSub "BLOB".toList u || u.isEmpty then .blob
  else if containsSub "REAL".toList u || containsSub "FLOA".toList u || containsSub "DOUB".toList u then .real
  else .numeric

def digitsOfNat (n : Nat) : Text := (Nat.toDigits 10 n).map Char.toNat
def decimal (i : Int) : Text := if i < 0 then 45 :: digitsOfNat i.natAbs else digitsOfNat i.natAbs

/-- characters a numeric literal can consist of (a text without any other character might be converted) -/
def numericLooking (s : Text) : Bool :=
  !s.isEmpty && s.all (fun c => (48 ≤ c && c ≤ 57) || c == 43 || c == 45 || c == 46 || c == 101 || c == 69 ||
                                c == 32 || c == 9 || c == 10 || c == 13 || c == 12 || c == 11)

/-- Is this (declared type, value) combination inside the part of SQLite's conversion rules transcribed below? -/
def storeModelled (declared : String) : DbVal → Bool
  | .null => true
  | .blob _ => true
  | .integer _ => affinityOf declared != .real
  | .real _ => affinityOf declared == .real || affinityOf declared == .blob
  | .text s => affinityOf declared == .text || affinityOf declared == .blob || !numericLooking s

/-- the bit pattern of -0.0 -/
def negZero : Nat := 9223372036854775808

def affinityStore (declared : String) : DbVal → DbVal
  | .integer i => if affinityOf declared == .text then .text (decimal i) else .integer i
  | .real bits =>
    -- a REAL column stores integral reals as integers and hands them back as reals: -0.0 loses its sign
    if affinityOf declared == .real && bits == negZero then .real 0 else .real bits
  | v => v

/-! ### SqliteReader -/

/-- `SQLITE_FIELD_MAP.get(ftype, "string")` on the declared column type. -/
def readerType (declared : String) : String :=
  match Gen.SQLITE_FIELD_MAP.lookup declared with
  | some t => t
  | none => "string"

/-- What `SqliteReader` hands to the record constructor for one cell, after its clean-up of loosely typed values,
    and what the field type makes of it. `none` = the combination is outside the modelled domain
    (the field constructor would have to coerce across kinds). -/
def readCell {DT : Type} (parse : Text → Option DT) (ftype : String) (v : DbVal) : Option (PyVal DT) :=
  match ftype, v with
  | _, .null => some .none
  | "string", .text s => some (.str s)
  | "varint", .integer i => some (.int i)
  | "varint", .text [] => some .none
  | "float", .real b => some (.float b)
  | "bytes", .blob b => some (.bytes b)
  | "bytes", .integer 0 => some .none
  | "datetime", .text s => (parse s).map .datetime
  | _, _ => none

def isReserved (n : Text) : Bool := Gen.RESERVED_FIELDS.any (fun r => r.1.toList.map Char.toNat == n)

/-- cell of a row under a column (`SELECT *`: unnamed columns are NULL) -/
def cellOf (row : List (Text × DbVal)) (col : Text) : DbVal :=
  match row.find? (fun c => sameIdent c.1 col) with
  | some c => c.2
  | none => .null

def renderRows (t : Table) : List (List DbVal) := t.rows.map (fun row => (colNames t).map (cellOf row))

end FlowRecord.Sqlite
