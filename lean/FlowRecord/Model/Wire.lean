import FlowRecord.Model.Msgpack
import FlowRecord.Model.Utf8
import FlowRecord.Gen.Wire
import FlowRecord.Gen.Base
/-!
The packer layer (packer.py): Python values as handed to `msgpack.packb(default=pack_obj)` and what
`unpackb(ext_hook=unpack_obj, use_list=False, raw=False)` gives back. Constants come from `Gen`.
-/
namespace FlowRecord.Wire
open FlowRecord FlowRecord.Msgpack FlowRecord.Utf8

/-- A record descriptor as it travels: name, ordered (type, name) pairs, and the 32-bit hash of its identifier.
    The hash is data here: theorems quantify over *any* assignment of hashes (C03), the driver computes or is given it. -/
structure Desc where
  name : PyStr
  fields : List (PyStr × PyStr)
  hash : Nat
  deriving BEq, DecidableEq, Repr, Inhabited

/-- Python value at the packing boundary. -/
inductive PV where
  | none : PV
  | bool : Bool → PV
  | int : Int → PV
  | float : Nat → PV                       -- IEEE-754 double bit pattern
  | str : PyStr → PV
  | bytes : Bytes → PV
  | seq : List PV → PV                     -- list or tuple; read back as tuple
  | dict : List PV → PV                    -- flat key/value
  | dtUtc : List Nat → PV                  -- datetime with tzinfo None or == UTC: (y, mo, d, h, mi, s, us)
  | dtIso : PyStr → PV                     -- any other datetime: its isoformat() text
  | record : Desc → List PV → PV           -- a Record object (nested ones are packed through `default=`)
  | grouped : PyStr → List PV → PV         -- GroupedRecord: name, member records (each `record`)
  | desc : Desc → PV                       -- a RecordDescriptor object
  deriving Repr, BEq, Inhabited

def extType : Nat := Gen.RECORD_PACK_EXT_TYPE
def tRecord : Nat := Gen.RECORD_PACK_TYPE_RECORD
def tDescriptor : Nat := Gen.RECORD_PACK_TYPE_DESCRIPTOR
def tDatetime : Nat := Gen.RECORD_PACK_TYPE_DATETIME
def tVarint : Nat := Gen.RECORD_PACK_TYPE_VARINT
def tGrouped : Nat := Gen.RECORD_PACK_TYPE_GROUPEDRECORD

/-- `v.to_bytes((v.bit_length() + 7) // 8, 'big')`: minimal big-endian magnitude, empty for 0. -/
def magBytes (n : Nat) : Bytes :=
  if _h : n = 0 then [] else magBytes (n / 256) ++ [UInt8.ofNat (n % 256)]
termination_by n
decreasing_by omega

/-- Is the integer inside what msgpack packs natively? Outside, `default=` (pack_obj) is called. -/
def nativeInt (i : Int) : Bool := decide (-9223372036854775808 ≤ i) && decide (i < 18446744073709551616)

def mstr (s : PyStr) : Option MVal := (encodeSE s).map MVal.str

def envelope (sub : Nat) (payload : MVal) : MVal :=
  .ext extType (enc (.arr [.int sub, payload]))

def identM (d : Desc) : Option MVal := do
  let n ← mstr d.name
  pure (.arr [n, .int d.hash])

def fieldM (p : PyStr × PyStr) : Option MVal := do
  let a ← mstr p.1
  let b ← mstr p.2
  pure (MVal.arr [a, b])

def descPayload (d : Desc) : Option MVal := do
  let n ← mstr d.name
  let fs ← d.fields.mapM fieldM
  pure (.arr [n, .arr fs])

mutual
  /-- `packb(obj, default=pack_obj)` as a value tree; `none` = the packer raises (unencodable text). -/
  def toM : PV → Option MVal
    | .none => some .nil
    | .bool x => some (.bool x)
    | .int i =>
      if nativeInt i then some (.int i)
      else some (envelope tVarint (.arr [.bool (decide (i < 0)), .bin (magBytes i.natAbs)]))
    | .float x => some (.f64 x)
    | .str s => mstr s
    | .bytes x => some (.bin x)
    | .seq xs => (toMList xs).map MVal.arr
    | .dict xs => (toMList xs).map MVal.map
    | .dtUtc fs => some (envelope tDatetime (.arr (fs.map fun n => MVal.int (Int.ofNat n))))
    | .dtIso t => (mstr t).map fun s => envelope tDatetime (.arr [s])
    | .record d vals => do
      let i ← identM d
      let vs ← toMList vals
      pure (envelope tRecord (.arr [i, .arr vs]))
    | .grouped name ms => do
      let n ← mstr name
      let members ← toMMembers ms
      pure (envelope tGrouped (.arr [n, .arr members]))
    | .desc d => (descPayload d).map (envelope tDescriptor)
  def toMList : List PV → Option (List MVal)
    | [] => some []
    | x :: xs => do
      let a ← toM x
      let r ← toMList xs
      pure (a :: r)
  /-- members of a grouped record are already `_pack()`-ed tuples, not Record objects -/
  def toMMembers : List PV → Option (List MVal)
    | [] => some []
    | .record d vals :: xs => do
      let i ← identM d
      let vs ← toMList vals
      let r ← toMMembers xs
      pure (.arr [i, .arr vs] :: r)
    | _ :: _ => none
end

-- Descriptors in the order `pack_obj` meets them while serialising (depth first, the object itself first).
mutual
  def descsOf : PV → List Desc
    | .record d vals => d :: descsOfList vals
    | .grouped _ ms => ms.filterMap (fun m => match m with | .record d _ => some d | _ => none) ++ descsOfMembers ms
    | .seq xs => descsOfList xs
    | .dict xs => descsOfList xs
    | _ => []
  def descsOfList : List PV → List Desc
    | [] => []
    | x :: xs => descsOf x ++ descsOfList xs
  def descsOfMembers : List PV → List Desc
    | [] => []
    | .record _ vals :: xs => descsOfList vals ++ descsOfMembers xs
    | _ :: xs => descsOfMembers xs
end

/-! ### unpacking -/

inductive Err where
  | incomplete      -- msgpack: truncated input (ValueError)
  | invalid         -- msgpack: malformed / extra data
  | unknownExt      -- "Unknown ExtType"
  | unknownSub      -- "Unknown subtype"
  | noDescriptor    -- RecordDescriptorNotFound / KeyError
  | badShape        -- value of unexpected shape inside an envelope (TypeError/ValueError in the real code)
  deriving Repr, BEq, DecidableEq

/-- What the reader hands back for one frame. Values stay at the packed level (`_unpack` per field type is the
    next layer, outside this model). -/
inductive RV where
  | none : RV
  | bool : Bool → RV
  | int : Int → RV
  | float : Nat → RV
  | float32 : Nat → RV
  | str : PyStr → RV
  | bytes : Bytes → RV
  | tuple : List RV → RV
  | dict : List RV → RV
  | dt : List RV → RV                      -- arguments handed to fieldtypes.datetime(*value)
  | record : Desc → List RV → RV           -- decoded with this descriptor
  | grouped : PyStr → List RV → RV
  | desc : PyStr → List (PyStr × PyStr) → RV
  deriving Repr, BEq, Inhabited

abbrev Registry := List ((PyStr × Nat) × Desc)

def strOf : RV → Option PyStr
  | .str s => some s
  | .bytes b => some (decodeSE b)       -- to_str(bytes)
  | _ => none

def lookup (reg : Registry) (name : PyStr) (hash : Nat) : Option Desc :=
  (reg.find? (fun e => e.1.1 == name && e.1.2 == hash)).map (·.2)

/-- old, unversioned identifiers are the bare name: the descriptor registered last under that name -/
def lookupName (reg : Registry) (name : PyStr) : Option Desc :=
  (reg.find? (fun e => e.1.1 == name)).map (·.2)

/-- `self.descriptors.get(identifier_to_str(identifier))` for both identifier shapes -/
def lookupIdent (reg : Registry) : RV → Except Err Desc
  | .tuple [nm, .int h] =>
    match strOf nm with
    | some name => match lookup reg name h.toNat with
      | some d => .ok d
      | none => .error .noDescriptor
    | none => .error .badShape
  | .str name => match lookupName reg name with
    | some d => .ok d
    | none => .error .noDescriptor
  | .bytes b => match lookupName reg (decodeSE b) with
    | some d => .ok d
    | none => .error .noDescriptor
  | _ => .error .badShape

/-- `len(desc.fields)`: the declared fields form a dict keyed by field NAME, so a (type, name) pair that a
    descriptor lists twice (what `extend` with an already present field produced) counts once -/
def Desc.slotCount (d : Desc) : Nat := (d.fields.map (·.2)).eraseDups.length

/-- compatibility rule of `unpack_obj`: more values than fields + reserved ⇒ strip extras, keep the version -/
def fitValues (d : Desc) (vals : List RV) : List RV :=
  let expected := d.slotCount + Gen.RESERVED_FIELDS.length
  if vals.length > expected then
    match vals.getLast? with
    | some v => vals.take (expected - 1) ++ [v]
    | none => vals
  else vals

def fieldOf : RV → Option (PyStr × PyStr)
  | .tuple [a, b] => do
    let t ← strOf a
    let n ← strOf b
    pure (t, n)
  | _ => none

def fieldsOf (xs : List RV) : Option (List (PyStr × PyStr)) := xs.mapM fieldOf

/-- `unpack_obj` given the already-unpacked `(subtype, value)` pair. -/
def unpackEnvelope (reg : Registry) (sub : RV) (value : RV) : Except Err RV :=
  match sub with
  | .int s =>
    if s = tDatetime then
      match value with
      | .tuple args => .ok (.dt args)
      | _ => .error .badShape
    else if s = tVarint then
      match value with
      | .tuple [.bool neg, .bytes h] => .ok (.int (if neg then -(beDec h : Int) else (beDec h : Int)))
      | _ => .error .badShape
    else if s = tRecord then
      match value with
      | .tuple [ident, .tuple vals] =>
        match lookupIdent reg ident with
        | .ok d => .ok (.record d (fitValues d vals))
        | .error e => .error e
      | _ => .error .badShape
    else if s = tGrouped then
      match value with
      | .tuple [nm, .tuple members] =>
        match strOf nm with
        | some name =>
          let rs := members.mapM fun m => match m with
            | .tuple [ident, .tuple vals] =>
              match lookupIdent reg ident with
              | .ok d => Except.ok (RV.record d vals)
              | .error e => Except.error e
            | _ => Except.error Err.badShape
          match rs with
          | .ok rs => .ok (.grouped name rs)
          | .error e => .error e
        | none => .error .badShape
      | _ => .error .badShape
    else if s = tDescriptor then
      match value with
      | .tuple [nm, .tuple fs] =>
        match strOf nm, fieldsOf fs with
        | some name, some fields => .ok (.desc name fields)
        | _, _ => .error .badShape
      | _ => .error .badShape
    else .error .unknownSub
  | _ => .error .badShape

mutual
  /-- value tree → Python value, running `ext_hook` bottom-up; fuel bounds the nesting (arrays, maps and the
      msgpack documents inside extension payloads), not the width -/
  def fromM (reg : Registry) : Nat → MVal → Except Err RV
    | 0, _ => .error .invalid
    | fuel + 1, v =>
      match v with
      | .nil => .ok .none
      | .bool x => .ok (.bool x)
      | .int i => .ok (.int i)
      | .f64 x => .ok (.float x)
      | .f32 x => .ok (.float32 x)
      | .str p => .ok (.str (decodeSE p))
      | .bin p => .ok (.bytes p)
      | .arr xs => (fromMList reg fuel xs).map RV.tuple
      | .map xs => (fromMList reg fuel xs).map RV.dict
      | .ext t p =>
        if t ≠ extType then .error .unknownExt
        else
          match decode p with
          | .ok (.arr [sub, value]) =>
            match fromM reg fuel sub, fromM reg fuel value with
            | .ok s, .ok v => unpackEnvelope reg s v
            | .error e, _ => .error e
            | _, .error e => .error e
          | .ok _ => .error .badShape
          | .incomplete => .error .incomplete
          | .invalid => .error .invalid
  termination_by fuel _ => (fuel, 0)
  def fromMList (reg : Registry) : Nat → List MVal → Except Err (List RV)
    | _, [] => .ok []
    | fuel, x :: xs =>
      match fromM reg fuel x, fromMList reg fuel xs with
      | .ok a, .ok r => .ok (a :: r)
      | .error e, _ => .error e
      | _, .error e => .error e
  termination_by fuel xs => (fuel, xs.length + 1)
end

/-! ### what a written object is expected to read back as (packed level) -/

mutual
  def rvOf : PV → RV
    | .none => .none
    | .bool b => .bool b
    | .int i => .int i
    | .float x => .float x
    | .str s => .str s
    | .bytes b => .bytes b
    | .seq xs => .tuple (rvOfList xs)
    | .dict xs => .dict (rvOfList xs)
    | .dtUtc fs => .dt (fs.map fun n => RV.int (Int.ofNat n))
    | .dtIso t => .dt [.str t]
    | .record d vals => .record d (rvOfList vals)
    | .grouped name ms => .grouped name (rvOfList ms)
    | .desc d => .desc d.name d.fields
  def rvOfList : List PV → List RV
    | [] => []
    | x :: xs => rvOf x :: rvOfList xs
end

end FlowRecord.Wire
