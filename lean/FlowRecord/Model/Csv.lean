import FlowRecord.Gen.TextOut
/-!
C20 (CSV part): an executable model of CPython 3.12's `csv.writer` / `csv.reader` for the dialect the CSV adapter
uses (`excel`: quote char `"`, doubled quotes, QUOTE_MINIMAL, no escape char, `strict = False`) and of
`CsvfileWriter` / `CsvfileReader` / `Record._asdict` on top of it.

Text is a list of code points (`Nat`), so lone surrogates (undecodable bytes) are ordinary characters.
* `writeRow d lt` transcribes `Modules/_csv.c: join_append_data/csv_writerow` — a cell is quoted iff it contains the
  delimiter, the quote char or a character of the *configured* line terminator; quotes are doubled; a row holding
  one empty cell is written as `""`.
* `parse d` transcribes `parse_process_char` (states START_RECORD, START_FIELD, IN_FIELD, IN_QUOTED_FIELD,
  QUOTE_IN_QUOTED_FIELD, EAT_CRLF) fed the way a text file opened with `newline=""` feeds it: the file iterator ends
  a line after `\n`, after `\r\n`, and after a `\r` not followed by `\n`, and the reader sees an end-of-line event
  after each line. The fold keeps that as one bit of state (`pendCR`).
-/
namespace FlowRecord.Csv

abbrev Ch := Nat
abbrev Cell := List Ch
abbrev Row := List Cell

def CR : Ch := 13
def LF : Ch := 10
def QUOTE : Ch := 34
def COMMA : Ch := 44

def ofString (s : String) : List Ch := s.toList.map Char.toNat

/-! ## writer -/

/-- QUOTE_MINIMAL: the characters that force quoting. -/
def needsQuote (d : Ch) (lt : List Ch) (c : Cell) : Bool :=
  c.any (fun x => x == d || x == QUOTE || lt.contains x)

/-- `doublequote = True`. -/
def escape : Cell → List Ch
  | [] => []
  | x :: xs => if x = QUOTE then QUOTE :: QUOTE :: escape xs else x :: escape xs

def writeCell (d : Ch) (lt : List Ch) (c : Cell) : List Ch :=
  if needsQuote d lt c then QUOTE :: (escape c ++ [QUOTE]) else c

def joinCells (d : Ch) : List (List Ch) → List Ch
  | [] => []
  | [c] => c
  | c :: c2 :: cs => c ++ d :: joinCells d (c2 :: cs)

/-- `csv.writer.writerow`: no field at all -> just the terminator; one empty field -> `""`. -/
def writeRow (d : Ch) (lt : List Ch) (row : Row) : List Ch :=
  if row = [] then lt
  else if row = [[]] then QUOTE :: QUOTE :: lt
  else joinCells d (row.map (writeCell d lt)) ++ lt

def writeRows (d : Ch) (lt : List Ch) (rows : List Row) : List Ch := rows.flatMap (writeRow d lt)

/-! ## reader -/

inductive Mode where
  | startRecord | startField | inField | inQuoted | quoteInQuoted | eatCRLF
  deriving DecidableEq, Repr

/-- Parser state. `field`, `row`, `out` are accumulated in reverse. `pendCR`: the last character was a `\r` whose
    end-of-line event is still due (it comes after a following `\n`, or before any other character). `opened`:
    characters were consumed since the last end-of-line event. `err`: `_csv.Error` was raised. -/
structure St where
  mode : Mode
  field : List Ch
  row : List Cell
  out : List Row
  pendCR : Bool
  opened : Bool
  err : Bool
  deriving DecidableEq, Repr

def clean (o : List Row) : St := ⟨.startRecord, [], [], o, false, false, false⟩

def isNL (c : Ch) : Bool := c == CR || c == LF

def addCh (s : St) (c : Ch) : St := { s with field := c :: s.field }
def saveField (s : St) : St := { s with row := s.field.reverse :: s.row, field := [] }

/-- START_FIELD (also reached by falling through from START_RECORD). -/
def pStartField (d : Ch) (s : St) (c : Ch) : St :=
  if isNL c then { saveField s with mode := .eatCRLF }
  else if c = QUOTE then { s with mode := .inQuoted }
  else if c = d then { saveField s with mode := .startField }
  else { addCh s c with mode := .inField }

/-- `parse_process_char` for a real character. -/
def pchar (d : Ch) (s : St) (c : Ch) : St :=
  match s.mode with
  | .startRecord => if isNL c then { s with mode := .eatCRLF } else pStartField d s c
  | .startField => pStartField d s c
  | .inField =>
    if isNL c then { saveField s with mode := .eatCRLF }
    else if c = d then { saveField s with mode := .startField }
    else addCh s c
  | .inQuoted => if c = QUOTE then { s with mode := .quoteInQuoted } else addCh s c
  | .quoteInQuoted =>
    if c = QUOTE then { addCh s c with mode := .inQuoted }
    else if c = d then { saveField s with mode := .startField }
    else if isNL c then { saveField s with mode := .eatCRLF }
    else { addCh s c with mode := .inField }
  | .eatCRLF => if isNL c then s else { s with err := true }

/-- the record is complete: `Reader_iternext` returns the fields and resets. -/
def emit (s : St) : St := { s with mode := .startRecord, out := s.row.reverse :: s.out, row := [], field := [] }

/-- `parse_process_char(EOL)` followed by the `while (state != START_RECORD)` test of `Reader_iternext`. -/
def peol (s : St) : St :=
  match s.mode with
  | .startRecord => emit { s with opened := false }
  | .startField => emit (saveField { s with opened := false })
  | .inField => emit (saveField { s with opened := false })
  | .inQuoted => { s with opened := false }
  | .quoteInQuoted => emit (saveField { s with opened := false })
  | .eatCRLF => emit { s with opened := false }

/-- one character of a line, with the end-of-line event when the character ends the line -/
def feed (d : Ch) (s : St) (c : Ch) : St :=
  if c = LF then peol (pchar d s c)
  else if c = CR then { pchar d s c with pendCR := true, opened := true }
  else { pchar d s c with opened := true }

def step (d : Ch) (s : St) (c : Ch) : St :=
  if s.err then s
  else if s.pendCR then
    if c = LF then peol (pchar d { s with pendCR := false } c)
    else feed d (peol { s with pendCR := false }) c
  else feed d s c

def run (d : Ch) (s : St) (text : List Ch) : St := text.foldl (step d) s

/-- end of input: the pending end-of-line event, then `Reader_iternext`'s exhausted-iterator branch
    (`field_len != 0 || state == IN_QUOTED_FIELD` -> save the field and return the row). -/
def finish (s : St) : St :=
  if s.err then s
  else
    let s1 := if s.opened || s.pendCR then peol { s with pendCR := false } else s
    if s1.mode = .inQuoted then emit (saveField s1) else s1

/-- `list(csv.reader(f, delimiter=d))` for `f` a text file opened with `newline=""`; the flag is "raised". -/
def parse (d : Ch) (text : List Ch) : List Row × Bool :=
  let s := finish (run d (clean []) text)
  (s.out.reverse, s.err)

/-- `csv.reader(chunks)` over an explicit list of strings (each is one "line": its characters, then EOL). -/
def parseChunks (d : Ch) (chunks : List (List Ch)) : List Row × Bool :=
  let s := chunks.foldl (fun s l => if s.err then s else
      let s' := l.foldl (fun s c => if s.err then s else pchar d s c) s
      if s'.err then s' else peol s') (clean [])
  let s := if s.err then s else if s.mode = .inQuoted then emit (saveField s) else s
  (s.out.reverse, s.err)

/-! ## records: `_asdict`, the CSV writer's header state, the CSV reader -/

abbrev Name := List Ch

/-- a record as the text writers see it: its descriptor (name, declared (type, name) pairs) and every slot
    (declared fields then the reserved ones) with the text of its value -/
structure Rec where
  descName : Name
  descFields : List (Name × Name)
  slots : List (Name × Cell)
  deriving DecidableEq, Repr

def Rec.desc (r : Rec) : Name × List (Name × Name) := (r.descName, r.descFields)

def lookup (slots : List (Name × Cell)) (k : Name) : Option Cell := (slots.find? (fun p => p.1 == k)).map (·.2)

/-- `Record._asdict(fields, exclude)` (an `OrderedDict`: a repeated key keeps its first position). -/
def asdict (fields : Option (List Name)) (exclude : List Name) (slots : List (Name × Cell)) : List (Name × Cell) :=
  match fields with
  | some (f :: fs) =>
    ((f :: fs).eraseDups).filterMap (fun k =>
      match lookup slots k with
      | some v => if exclude.contains k then none else some (k, v)
      | none => none)
  | _ => slots.filter (fun p => !exclude.contains p.1)

structure Sel where
  fields : Option (List Name)
  exclude : List Name

def header (sel : Sel) (r : Rec) : Row := (asdict sel.fields sel.exclude r.slots).map (·.1)
def cells (sel : Sel) (r : Rec) : Row := (asdict sel.fields sel.exclude r.slots).map (·.2)

/-- `CsvfileWriter.write` iterated: `st` is `self.desc`. A header row is written when the descriptor changes. -/
def csvRows (sel : Sel) : Option (Name × List (Name × Name)) → List Rec → List Row
  | _, [] => []
  | st, r :: rs =>
    (if st = some r.desc then [cells sel r] else [header sel r, cells sel r]) ++ csvRows sel (some r.desc) rs

/-- `str.replace(pat, rep)`; the counter skips the rest of a matched occurrence. -/
def replaceAux (pat rep : List Ch) : Nat → List Ch → List Ch
  | _, [] => []
  | k + 1, _ :: cs => replaceAux pat rep k cs
  | 0, c :: cs =>
    if pat ≠ [] ∧ pat.isPrefixOf (c :: cs) then rep ++ replaceAux pat rep (pat.length - 1) cs
    else c :: replaceAux pat rep 0 cs

def replaceAll (pat rep text : List Ch) : List Ch := replaceAux pat rep 0 text

/-- `self.lineterminator = lineterminator or "\r\n"`, then the three escape replacements in order. -/
def lineTerminator (opt : Option (List Ch)) : List Ch :=
  let base := match opt with
    | some (c :: cs) => c :: cs
    | _ => ofString Gen.csvDefaultLineTerminator
  Gen.csvLineTerminatorEscapes.foldl (fun acc p => replaceAll (ofString p.1) (ofString p.2) acc) base

/-- the whole file written by `CsvfileWriter` (delimiter `,`: `DictWriter` gets no dialect argument) -/
def csvFile (sel : Sel) (ltOpt : Option (List Ch)) (recs : List Rec) : List Ch :=
  writeRows COMMA (lineTerminator ltOpt) (csvRows sel none recs)

/-- maximal runs of records of one descriptor -/
def runs : List Rec → List (List Rec)
  | [] => []
  | r :: rs =>
    match runs rs with
    | (r2 :: g) :: gs => if r.desc = r2.desc then (r :: r2 :: g) :: gs else [r] :: (r2 :: g) :: gs
    | _ => [[r]]

/-- `CsvfileReader` with the delimiter the sniffer found: first row = field names; the descriptor declares the names
    that do not start with `_`; a row becomes `dict(zip(fields, row))` (a missing cell leaves the field unset, extra
    cells are dropped). Field names are taken as they are (`normalize_fieldname` is the identity on valid names). -/
def csvRead (d : Ch) (text : List Ch) : Option (List Name × List (List (Option Cell))) :=
  match (parse d text).1 with
  | [] => none
  | hdr :: rows =>
    let declared := hdr.filter (fun n => n.head? != some 95)
    some (declared, rows.map (fun row => declared.map (fun n => lookup (hdr.zip row).reverse n)))

end FlowRecord.Csv
