import FlowRecord.Driver
def main : IO Unit := do
  FlowRecord.Driver.loop (← IO.getStdin) (← IO.getStdout)
