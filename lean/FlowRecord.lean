import FlowRecord.Driver
