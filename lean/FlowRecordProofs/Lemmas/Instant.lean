import FlowRecordProofs.Lemmas.Calendar
/-!
C13: wall-clock microseconds <-> civil fields (`wallUs` / `ofWallUs`) are inverse on years 1..9999.
-/
namespace FlowRecord.DateTime

theorem daysFromCivil_bounds (y m d : Nat) (hy1 : 1 ≤ y) (hy2 : y ≤ 9999) (hm1 : 1 ≤ m) (hm2 : m ≤ 12) (hd1 : 1 ≤ d)
    (hd2 : d ≤ daysInMonth y m) : 306 ≤ daysFromCivil y m d ∧ daysFromCivil y m d < 3652365 := by
  have hd31 : d ≤ 31 := by
    have : daysInMonth y m ≤ 31 := by unfold daysInMonth; split <;> split <;> omega
    omega
  simp only [daysFromCivil, yearStart]
  by_cases hm : m ≤ 2
  · simp only [if_pos hm, if_neg (show ¬ m > 2 by omega)]
    omega
  · simp only [if_neg hm, if_pos (show m > 2 by omega)]
    omega

theorem wallUs_lt (t : DT) (hv : t.Valid) : wallUs t < 315537897600000000 := by
  obtain ⟨hy1, hy2, hm1, hm2, hd1, hd2, hh, hmi, hs, hus, _⟩ := hv
  have := daysFromCivil_bounds t.y t.mo t.d hy1 hy2 hm1 hm2 hd1 hd2
  unfold wallUs ordinal0
  omega

theorem ofWallUs_wallUs (t : DT) (hv : t.Valid) : ofWallUs (wallUs t) t.tz = t := by
  obtain ⟨hy1, hy2, hm1, hm2, hd1, hd2, hh, hmi, hs, hus, _⟩ := hv
  have hb := daysFromCivil_bounds t.y t.mo t.d hy1 hy2 hm1 hm2 hd1 hd2
  have hc := civil_days t.y t.mo t.d hy1 hm1 hm2 hd1 hd2
  have e1 : wallUs t / 86400000000 + 306 = daysFromCivil t.y t.mo t.d := by unfold wallUs ordinal0; omega
  have e2 : wallUs t % 86400000000 = t.h * 3600000000 + t.mi * 60000000 + t.s * 1000000 + t.us := by
    unfold wallUs ordinal0; omega
  have f1 : wallUs t % 86400000000 / 3600000000 = t.h := by rw [e2]; omega
  have f2 : wallUs t % 86400000000 / 60000000 % 60 = t.mi := by rw [e2]; omega
  have f3 : wallUs t % 86400000000 / 1000000 % 60 = t.s := by rw [e2]; omega
  have f4 : wallUs t % 86400000000 % 1000000 = t.us := by rw [e2]; omega
  unfold ofWallUs
  simp only [e1, hc, f1, f2, f3, f4]

theorem wallUs_ofWallUs (w : Nat) (tz : Tz) : wallUs (ofWallUs w tz) = w := by
  have hd := days_civil (w / 86400000000 + 306)
  unfold wallUs ordinal0 ofWallUs
  simp only [hd]
  omega

theorem ofWallUs_valid (w : Nat) (tz : Tz) (hw : w < 315537897600000000) (htz : tz.Valid) : (ofWallUs w tz).Valid := by
  have hc := civil_valid (w / 86400000000 + 306) (by omega) (by omega)
  obtain ⟨c1, c2, c3, c4, c5, c6⟩ := hc
  unfold ofWallUs
  refine ⟨c1, c2, c3, c4, c5, c6, ?_, ?_, ?_, ?_, htz⟩ <;> simp only <;> omega

end FlowRecord.DateTime
