import FlowRecord.Model.Compose
import FlowRecordProofs.Lemmas.Assoc
/-!
Lemmas for C15: the merge loop as a fold over the concatenated field tuples; key order and values of the fold;
`ChainMap` lookup as lookup in the concatenation.
-/
namespace FlowRecord.Compose
open FlowRecord FlowRecord.Descriptor

theorem foldl_flatMap {α β γ : Type} (f : β → γ → β) (g : α → List γ) : ∀ (l : List α) (b : β),
    l.foldl (fun m a => (g a).foldl f m) b = (l.flatMap g).foldl f b := by
  intro l
  induction l with
  | nil => intro b; rfl
  | cons a l ih => intro b; simp only [List.foldl_cons, List.flatMap_cons, List.foldl_append]; exact ih _

/-- the nested loops of `merge_record_descriptors` are one loop over all field tuples in order -/
theorem mergeMap_flat (replace : Bool) (descs : List (List (Str × Str))) :
    mergeMap replace descs = (descs.flatMap nameTypes).foldl (mergeStep replace) [] := by
  unfold mergeMap; exact foldl_flatMap _ _ _ _

theorem keys_mergeStep (replace : Bool) (m : List (Str × Str)) (p : Str × Str) :
    keys (mergeStep replace m p) = keys (odSet m p.1 p.2) := by
  unfold mergeStep
  by_cases h : (!replace && (keys m).contains p.1) = true
  · simp only [h, if_true]
    simp only [Bool.and_eq_true, Bool.not_eq_true', List.contains_eq_mem, decide_eq_true_eq] at h
    rw [keys_odSet]; simp [h.2]
  · simp only [h]; rfl

/-- key order of any fold whose step has the keys of `odSet`: old keys, then unseen new ones by first appearance -/
theorem keys_foldl_step {α : Type} (f : List (Str × α) → Str × α → List (Str × α))
    (hf : ∀ m p, keys (f m p) = keys (odSet m p.1 p.2)) (ps : List (Str × α)) : ∀ (m : List (Str × α)),
    keys (ps.foldl f m) = keys m ++ (firstOcc (ps.map (·.1))).filter (fun x => !(keys m).contains x) := by
  induction ps with
  | nil => intro m; simp [firstOcc]
  | cons p ps ih =>
    intro m
    simp only [List.foldl_cons, List.map_cons, firstOcc]
    rw [ih, hf, keys_odSet]
    by_cases hk : p.1 ∈ keys m
    · simp only [hk, if_true]
      rw [List.filter_cons]
      have : (!(keys m).contains p.1) = false := by simp [hk]
      simp only [this, Bool.false_eq_true, if_false]
      rw [filter_ne_of_mem _ _ _ hk]
    · simp only [hk, if_false]
      rw [List.filter_cons]
      have : (!(keys m).contains p.1) = true := by simp [hk]
      simp only [this, if_true, List.append_assoc, List.singleton_append]
      congr 2
      rw [List.filter_filter]
      apply List.filter_congr
      intro x _
      by_cases hx : x = p.1
      · subst hx; simp
      · simp [hx]

theorem keys_mergeMap (replace : Bool) (descs : List (List (Str × Str))) :
    keys (mergeMap replace descs) = firstOcc ((descs.flatMap nameTypes).map (·.1)) := by
  rw [mergeMap_flat, keys_foldl_step _ (keys_mergeStep replace)]
  simp [keys]

theorem alGet_nil {α : Type} (k : Str) : alGet ([] : List (Str × α)) k = none := rfl

theorem alGet_cons {α : Type} (p : Str × α) (m : List (Str × α)) (k : Str) :
    alGet (p :: m) k = if p.1 = k then some p.2 else alGet m k := by
  unfold alGet
  by_cases h : p.1 = k
  · simp [List.find?, h]
  · have : (p.1 == k) = false := by simp [h]
    simp [List.find?, this, h]

theorem alGet_append {α : Type} (a b : List (Str × α)) (k : Str) :
    alGet (a ++ b) k = (alGet a k).or (alGet b k) := by
  induction a with
  | nil => simp [alGet_nil]
  | cons p a ih =>
    simp only [List.cons_append, alGet_cons]
    by_cases h : p.1 = k <;> simp [h, ih]

theorem alGet_isSome_iff {α : Type} (m : List (Str × α)) (k : Str) : (alGet m k).isSome = true ↔ k ∈ keys m := by
  induction m with
  | nil => simp [alGet_nil, keys]
  | cons p m ih =>
    rw [alGet_cons]
    by_cases h : p.1 = k
    · simp [h, keys]
    · have hne : ¬ k = p.1 := fun e => h e.symm
      simp only [h, if_false, ih, keys, List.map_cons, List.mem_cons, hne, false_or]

theorem alGet_eq_none_iff {α : Type} (m : List (Str × α)) (k : Str) : alGet m k = none ↔ k ∉ keys m := by
  rw [← alGet_isSome_iff]
  cases alGet m k <;> simp

/-- first wins: without `replace` an existing entry is never touched -/
theorem alGet_foldl_noreplace (ps : List (Str × Str)) : ∀ (m : List (Str × Str)) (k : Str),
    alGet (ps.foldl (mergeStep false) m) k = (alGet m k).or (alGet ps k) := by
  induction ps with
  | nil => intro m k; simp [alGet_nil]
  | cons p ps ih =>
    intro m k
    simp only [List.foldl_cons]
    rw [ih]
    unfold mergeStep
    by_cases hm : p.1 ∈ keys m
    · have hc : (keys m).contains p.1 = true := by simp [hm]
      simp only [Bool.not_false, Bool.true_and, hc, if_true]
      rw [alGet_cons]
      by_cases hk : p.1 = k
      · subst hk
        have : (alGet m p.1).isSome = true := (alGet_isSome_iff m p.1).mpr hm
        cases h : alGet m p.1 with
        | none => simp [h] at this
        | some v => simp
      · simp [hk]
    · have hc : (keys m).contains p.1 = false := by simp [hm]
      simp only [Bool.not_false, Bool.true_and, hc, Bool.false_eq_true, if_false]
      rw [alGet_odSet, alGet_cons]
      by_cases hk : k = p.1
      · subst hk
        have : alGet m p.1 = none := (alGet_eq_none_iff m p.1).mpr hm
        simp [this]
      · have hk' : ¬ p.1 = k := fun e => hk e.symm
        simp [hk, hk']

/-- last wins: with `replace` every assignment overwrites -/
theorem alGet_foldl_replace (ps : List (Str × Str)) : ∀ (m : List (Str × Str)) (k : Str),
    alGet (ps.foldl (mergeStep true) m) k = (alGet ps.reverse k).or (alGet m k) := by
  induction ps with
  | nil => intro m k; simp [alGet_nil]
  | cons p ps ih =>
    intro m k
    simp only [List.foldl_cons, List.reverse_cons]
    rw [ih, alGet_append]
    have : mergeStep true m p = odSet m p.1 p.2 := by simp [mergeStep]
    rw [this, alGet_odSet, alGet_cons, alGet_nil]
    by_cases hk : k = p.1
    · subst hk; cases alGet ps.reverse p.1 <;> simp
    · have hk' : ¬ p.1 = k := fun e => hk e.symm
      cases alGet ps.reverse k <;> simp [hk, hk']

/-- `ChainMap(*maps)[k]` is a lookup in the concatenation of the maps -/
theorem chainGet_eq {V : Type} (maps : List (List (Str × V))) (k : Str) : chainGet maps k = alGet maps.flatten k := by
  unfold chainGet
  induction maps with
  | nil => rfl
  | cons m ms ih =>
    simp only [List.findSome?_cons, List.flatten_cons, alGet_append]
    cases alGet m k <;> simp [ih]

theorem alGet_map_val {α β : Type} (m : List (Str × α)) (f : Str × α → β) (k : Str) :
    alGet (m.map fun p => (p.1, f p)) k = (m.find? (·.1 == k)).map f := by
  induction m with
  | nil => rfl
  | cons p m ih =>
    by_cases h : p.1 = k
    · simp [alGet, List.find?, h]
    · have : (p.1 == k) = false := by simp [h]
      simp only [alGet, List.map_cons, List.find?, this] at ih ⊢
      exact ih

end FlowRecord.Compose

namespace FlowRecord.Compose
open FlowRecord FlowRecord.Descriptor

theorem find_some_of_mem_keys {α : Type} (m : List (Str × α)) (k : Str) (h : k ∈ keys m) :
    ∃ p, m.find? (·.1 == k) = some p ∧ p.1 = k := by
  induction m with
  | nil => simp [keys] at h
  | cons q m ih =>
    by_cases hq : q.1 = k
    · exact ⟨q, by simp [List.find?, hq], hq⟩
    · have hb : (q.1 == k) = false := by simp [hq]
      have : k ∈ keys m := by
        simp only [keys, List.map_cons, List.mem_cons] at h
        rcases h with h | h
        · exact absurd h.symm hq
        · exact h
      obtain ⟨p, hp, hpk⟩ := ih this
      exact ⟨p, by simp [List.find?, hb, hp], hpk⟩

/-- the slot `k` of a record built by `init_from_dict`, for a key the dictionary has -/
theorem alGet_initFromDict {V : Type} (dflt : Str → V) (ver : V) (name : Str) (fields : List (Str × Str))
    (get : Str → Option V) (k : Str) (v : V) (hk : k ∈ keys (slotTypes fields)) (hv : k ≠ versionName)
    (hg : get k = some v) : alGet (initFromDict dflt ver name fields get).slots k = some v := by
  unfold initFromDict
  simp only
  rw [alGet_map_val]
  obtain ⟨p, hp, hpk⟩ := find_some_of_mem_keys _ k hk
  rw [hp]
  simp [hpk, hv, hg]

theorem alGet_initFromDict_version {V : Type} (dflt : Str → V) (ver : V) (name : Str) (fields : List (Str × Str))
    (get : Str → Option V) (hk : versionName ∈ keys (slotTypes fields)) :
    alGet (initFromDict dflt ver name fields get).slots versionName = some ver := by
  unfold initFromDict
  simp only
  rw [alGet_map_val]
  obtain ⟨p, hp, hpk⟩ := find_some_of_mem_keys _ versionName hk
  rw [hp]
  simp [hpk]

theorem keys_initFromDict {V : Type} (dflt : Str → V) (ver : V) (name : Str) (fields : List (Str × Str))
    (get : Str → Option V) : keys (initFromDict dflt ver name fields get).slots = keys (slotTypes fields) := by
  simp [initFromDict, keys, List.map_map, Function.comp_def]

theorem keys_slotTypes (fields : List (Str × Str)) (hnores : ∀ n ∈ fields.map (·.2), n ∉ reservedNames) :
    keys (slotTypes fields) = firstOcc (fields.map (·.2)) ++ reservedNames :=
  keys_allFields ⟨[], fields⟩ hnores

end FlowRecord.Compose
