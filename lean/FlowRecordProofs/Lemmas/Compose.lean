import FlowRecord.Model.Compose
import FlowRecordProofs.Lemmas.Assoc
/-!
Lemmas for C15: the merge loop as a fold over the concatenated field tuples; key order and values of the fold;
`ChainMap` lookup as lookup in the concatenation.
-/
namespace FlowRecord.Compose
open FlowRecord FlowRecord.Descriptor

theorem foldl_flatMap {α β γ : Type} (f : β → γ → β) (g : α → List γ) : ∀ (l : List α) (b : β),
    l.foldl (fun m a => (g a).foldl f m) b = (l.flatMap g).foldl f b := by
  intro l
  induction l with
  | nil => intro b; rfl
  | cons a l ih => intro b; simp only [List.foldl_cons, List.flatMap_cons, List.foldl_append]; exact ih _

/-- the nested loops of `merge_record_descriptors` are one loop over all field tuples in order -/
theorem mergeMap_flat (replace : Bool) (descs : List (List (Str × Str))) :
    mergeMap replace descs = (descs.flatMap nameTypes).foldl (mergeStep replace) [] := by
  unfold mergeMap; exact foldl_flatMap _ _ _ _

theorem keys_mergeStep (replace : Bool) (m : List (Str × Str)) (p : Str × Str) :
    keys (mergeStep replace m p) = keys (odSet m p.1 p.2) := by
  unfold mergeStep
  by_cases h : (!replace && (keys m).contains p.1) = true
  · simp only [h, if_true]
    simp only [Bool.and_eq_true, Bool.not_eq_true', List.contains_eq_mem, decide_eq_true_eq] at h
    rw [keys_odSet]; simp [h.2]
  · simp only [h]; rfl

/-- key order of any fold whose step has the keys of `odSet`: old keys, then unseen new ones by first appearance -/
theorem keys_foldl_step {α : Type} (f : List (Str × α) → Str × α → List (Str × α))
    (hf : ∀ m p, keys (f m p) = keys (odSet m p.1 p.2)) (ps : List (Str × α)) : ∀ (m : List (Str × α)),
    keys (ps.foldl f m) = keys m ++ (firstOcc (ps.map (·.1))).filter (fun x => !(keys m).contains x) := by
  induction ps with
  | nil => intro m; simp [firstOcc]
  | cons p ps ih =>
    intro m
    simp only [List.foldl_cons, List.map_cons, firstOcc]
    rw [ih, hf, keys_odSet]
    by_cases hk : p.1 ∈ keys m
    · simp only [hk, if_true]
      rw [List.filter_cons]
      have : (!(keys m).contains p.1) = false := by simp [hk]
      simp only [this, Bool.false_eq_true, if_false]
      rw [filter_ne_of_mem _ _ _ hk]
    · simp only [hk, if_false]
      rw [List.filter_cons]
      have : (!(keys m).contains p.1) = true := by simp [hk]
      simp only [this, if_true, List.append_assoc, List.singleton_append]
      congr 2
      rw [List.filter_filter]
      apply List.filter_congr
      intro x _
      by_cases hx : x = p.1
      · subst hx; simp
      · simp [hx]

theorem keys_mergeMap (replace : Bool) (descs : List (List (Str × Str))) :
    keys (mergeMap replace descs) = firstOcc ((descs.flatMap nameTypes).map (·.1)) := by
  rw [mergeMap_flat, keys_foldl_step _ (keys_mergeStep replace)]
  simp [keys]

theorem alGet_nil {α : Type} (k : Str) : alGet ([] : List (Str × α)) k = none := rfl

theorem alGet_cons {α : Type} (p : Str × α) (m : List (Str × α)) (k : Str) :
    alGet (p :: m) k = if p.1 = k then some p.2 else alGet m k := by
  unfold alGet
  by_cases h : p.1 = k
  · simp [List.find?, h]
  · have : (p.1 == k) = false := by simp [h]
    simp [List.find?, this, h]

theorem alGet_append {α : Type} (a b : List (Str × α)) (k : Str) :
    alGet (a ++ b) k = (alGet a k).or (alGet b k) := by
  induction a with
  | nil => simp [alGet_nil]
  | cons p a ih =>
    simp only [List.cons_append, alGet_cons]
    by_cases h : p.1 = k <;> simp [h, ih]

theorem alGet_isSome_iff {α : Type} (m : List (Str × α)) (k : Str) : (alGet m k).isSome = true ↔ k ∈ keys m := by
  induction m with
  | nil => simp [alGet_nil, keys]
  | cons p m ih =>
    rw [alGet_cons]
    by_cases h : p.1 = k
    · simp [h, keys]
    · have hne : ¬ k = p.1 := fun e => h e.symm
      simp only [h, if_false, ih, keys, List.map_cons, List.mem_cons, hne, false_or]

theorem alGet_eq_none_iff {α : Type} (m : List (Str × α)) (k : Str) : alGet m k = none ↔ k ∉ keys m := by
  rw [← alGet_isSome_iff]
  cases alGet m k <;> simp

/-- first wins: without `replace` an existing entry is never touched -/
theorem alGet_foldl_noreplace (ps : List (Str × Str)) : ∀ (m : List (Str × Str)) (k : Str),
    alGet (ps.foldl (mergeStep false) m) k = (alGet m k).or (alGet ps k) := by
  induction ps with
  | nil => intro m k; simp [alGet_nil]
  | cons p ps ih =>
    intro m k
    simp only [List.foldl_cons]
    rw [ih]
    unfold mergeStep
    by_cases hm : p.1 ∈ keys m
    · have hc : (keys m).contains p.1 = true := by simp [hm]
      simp only [Bool.not_false, Bool.true_and, hc, if_true]
      rw [alGet_cons]
      by_cases hk : p.1 = k
      · subst hk
        have : (alGet m p.1).isSome = true := (alGet_isSome_iff m p.1).mpr hm
        cases h : alGet m p.1 with
        | none => simp [h] at this
        | some v => simp
      · simp [hk]
    · have hc : (keys m).contains p.1 = false := by simp [hm]
      simp only [Bool.not_false, Bool.true_and, hc, Bool.false_eq_true, if_false]
      rw [alGet_odSet, alGet_cons]
      by_cases hk : k = p.1
      · subst hk
        have : alGet m p.1 = none := (alGet_eq_none_iff m p.1).mpr hm
        simp [this]
      · have hk' : ¬ p.1 = k := fun e => hk e.symm
        simp [hk, hk']

/-- last wins: with `replace` every assignment overwrites -/
theorem alGet_foldl_replace (ps : List (Str × Str)) : ∀ (m : List (Str × Str)) (k : Str),
    alGet (ps.foldl (mergeStep true) m) k = (alGet ps.reverse k).or (alGet m k) := by
  induction ps with
  | nil => intro m k; simp [alGet_nil]
  | cons p ps ih =>
    intro m k
    simp only [List.foldl_cons, List.reverse_cons]
    rw [ih, alGet_append]
    have : mergeStep true m p = odSet m p.1 p.2 := by simp [mergeStep]
    rw [this, alGet_odSet, alGet_cons, alGet_nil]
    by_cases hk : k = p.1
    · subst hk; cases alGet ps.reverse p.1 <;> simp
    · have hk' : ¬ p.1 = k := fun e => hk e.symm
      cases alGet ps.reverse k <;> simp [hk, hk']

/-- `ChainMap(*maps)[k]` is a lookup in the concatenation of the maps -/
theorem chainGet_eq {V : Type} (maps : List (List (Str × V))) (k : Str) : chainGet maps k = alGet maps.flatten k := by
  unfold chainGet
  induction maps with
  | nil => rfl
  | cons m ms ih =>
    simp only [List.findSome?_cons, List.flatten_cons, alGet_append]
    cases alGet m k <;> simp [ih]

theorem alGet_map_val {α β : Type} (m : List (Str × α)) (f : Str × α → β) (k : Str) :
    alGet (m.map fun p => (p.1, f p)) k = (m.find? (·.1 == k)).map f := by
  induction m with
  | nil => rfl
  | cons p m ih =>
    by_cases h : p.1 = k
    · simp [alGet, List.find?, h]
    · have : (p.1 == k) = false := by simp [h]
      simp only [alGet, List.map_cons, List.find?, this] at ih ⊢
      exact ih

end FlowRecord.Compose

namespace FlowRecord.Compose
open FlowRecord FlowRecord.Descriptor

theorem find_some_of_mem_keys {α : Type} (m : List (Str × α)) (k : Str) (h : k ∈ keys m) :
    ∃ p, m.find? (·.1 == k) = some p ∧ p.1 = k := by
  induction m with
  | nil => simp [keys] at h
  | cons q m ih =>
    by_cases hq : q.1 = k
    · exact ⟨q, by simp [List.find?, hq], hq⟩
    · have hb : (q.1 == k) = false := by simp [hq]
      have : k ∈ keys m := by
        simp only [keys, List.map_cons, List.mem_cons] at h
        rcases h with h | h
        · exact absurd h.symm hq
        · exact h
      obtain ⟨p, hp, hpk⟩ := ih this
      exact ⟨p, by simp [List.find?, hb, hp], hpk⟩

/-- the slot `k` of a record built by `init_from_dict`, for a key the dictionary has -/
theorem alGet_initFromDict {V : Type} (dflt : Str → V) (ver : V) (name : Str) (fields : List (Str × Str))
    (get : Str → Option V) (k : Str) (v : V) (hk : k ∈ keys (slotTypes fields)) (hv : k ≠ versionName)
    (hg : get k = some v) : alGet (initFromDict dflt ver name fields get).slots k = some v := by
  unfold initFromDict
  simp only
  rw [alGet_map_val]
  obtain ⟨p, hp, hpk⟩ := find_some_of_mem_keys _ k hk
  rw [hp]
  simp [hpk, hv, hg]

theorem alGet_initFromDict_version {V : Type} (dflt : Str → V) (ver : V) (name : Str) (fields : List (Str × Str))
    (get : Str → Option V) (hk : versionName ∈ keys (slotTypes fields)) :
    alGet (initFromDict dflt ver name fields get).slots versionName = some ver := by
  unfold initFromDict
  simp only
  rw [alGet_map_val]
  obtain ⟨p, hp, hpk⟩ := find_some_of_mem_keys _ versionName hk
  rw [hp]
  simp [hpk]

theorem keys_initFromDict {V : Type} (dflt : Str → V) (ver : V) (name : Str) (fields : List (Str × Str))
    (get : Str → Option V) : keys (initFromDict dflt ver name fields get).slots = keys (slotTypes fields) := by
  simp [initFromDict, keys, List.map_map, Function.comp_def]

theorem keys_slotTypes (fields : List (Str × Str)) (hnores : ∀ n ∈ fields.map (·.2), n ∉ reservedNames) :
    keys (slotTypes fields) = firstOcc (fields.map (·.2)) ++ reservedNames :=
  keys_allFields ⟨[], fields⟩ hnores

end FlowRecord.Compose

namespace FlowRecord.Compose
open FlowRecord FlowRecord.Descriptor

theorem flatMap_nameTypes (descs : List (List (Str × Str))) :
    descs.flatMap nameTypes = nameTypes (descs.flatMap id) := by
  induction descs with
  | nil => rfl
  | cons d ds ih =>
    simp only [List.flatMap_cons, ih, id]
    simp [nameTypes]

theorem keys_nameTypes (fs : List (Str × Str)) : (nameTypes fs).map (·.1) = fs.map (·.2) := by
  simp [nameTypes, List.map_map, Function.comp_def]

theorem firstOcc_append (a b : List Str) :
    firstOcc (a ++ b) = firstOcc a ++ (firstOcc b).filter (fun n => !(firstOcc a).contains n) := by
  induction a generalizing b with
  | nil =>
    simp only [firstOcc, List.nil_append, List.contains_nil, Bool.not_false]
    exact (List.filter_eq_self.mpr (fun _ _ => rfl)).symm
  | cons x a ih =>
    simp only [List.cons_append, firstOcc, ih, List.filter_append, List.filter_filter]
    congr 2
    apply List.filter_congr
    intro y _
    by_cases hy : y = x
    · subst hy; simp
    · simp [hy]

end FlowRecord.Compose

namespace FlowRecord.Compose
open FlowRecord FlowRecord.Descriptor

/-- lookup in a concatenation of maps: the first map that has the key decides -/
theorem alGet_flatMap_first {V α : Type} (slotsOf : α → List (Str × V)) (pre post : List α) (x : α) (k : Str) (v : V)
    (hpre : ∀ p ∈ pre, k ∉ keys (slotsOf p)) (hx : alGet (slotsOf x) k = some v) :
    alGet ((pre ++ x :: post).flatMap slotsOf) k = some v := by
  induction pre with
  | nil => simp [List.flatMap_cons, alGet_append, hx]
  | cons p pre ih =>
    simp only [List.cons_append, List.flatMap_cons, alGet_append]
    have : alGet (slotsOf p) k = none := (alGet_eq_none_iff _ _).mpr (hpre p List.mem_cons_self)
    rw [this]
    simpa using ih (fun q hq => hpre q (List.mem_cons_of_mem _ hq))

theorem mem_mergeFields_names (replace : Bool) (descs : List (List (Str × Str))) (n : Str) :
    n ∈ (mergeFields replace descs).map (·.2) ↔ n ∈ (descs.flatMap id).map (·.2) := by
  have h := keys_mergeMap replace descs
  have e : (mergeFields replace descs).map (·.2) = keys (mergeMap replace descs) := by
    simp [mergeFields, keys, List.map_map, Function.comp_def]
  rw [e, h, mem_firstOcc, flatMap_nameTypes, keys_nameTypes]

end FlowRecord.Compose

namespace FlowRecord.Compose
open FlowRecord FlowRecord.Descriptor

theorem odSet_not_mem {α : Type} (m : List (Str × α)) (k : Str) (v : α) (h : k ∉ keys m) :
    odSet m k v = m ++ [(k, v)] := by
  induction m with
  | nil => rfl
  | cons p m ih =>
    obtain ⟨k', v'⟩ := p
    have hne : ¬ k' = k := by
      intro e; apply h; simp [keys, e]
    have hm : k ∉ keys m := by
      intro hk; apply h; simp only [keys, List.map_cons, List.mem_cons]; exact Or.inr hk
    simp only [odSet, hne, if_false, ih hm, List.cons_append]

/-- first-wins fold over pairs with distinct keys: the unseen ones are appended in order -/
theorem foldl_noreplace_nodup (ps : List (Str × Str)) : ∀ (m : List (Str × Str)), (keys ps).Nodup →
    ps.foldl (mergeStep false) m = m ++ ps.filter (fun p => !(keys m).contains p.1) := by
  induction ps with
  | nil => intro m _; simp
  | cons p ps ih =>
    intro m hnd
    have hnd' : (keys ps).Nodup := (List.nodup_cons.mp hnd).2
    have hp : p.1 ∉ keys ps := (List.nodup_cons.mp hnd).1
    simp only [List.foldl_cons]
    by_cases hm : p.1 ∈ keys m
    · have hc : (keys m).contains p.1 = true := by simp [hm]
      have : mergeStep false m p = m := by
        simp only [mergeStep, hc, Bool.not_false, Bool.true_and, if_true]
      rw [this, ih m hnd', List.filter_cons]
      simp [hm]
    · have hc : (keys m).contains p.1 = false := by simp [hm]
      have : mergeStep false m p = m ++ [p] := by
        simp only [mergeStep, hc, Bool.not_false, Bool.true_and, Bool.false_eq_true, if_false]
        exact odSet_not_mem m p.1 p.2 hm
      rw [this, ih _ hnd', List.filter_cons]
      simp only [hc, Bool.not_false, if_true, List.append_assoc, List.singleton_append]
      congr 2
      apply List.filter_congr
      intro q hq
      have hqk : q.1 ∈ keys ps := List.mem_map.mpr ⟨q, hq, rfl⟩
      have : q.1 ≠ p.1 := fun e => hp (e ▸ hqk)
      simp [keys, this]

theorem filter_nameTypes (l : List (Str × Str)) (ks : List Str) :
    ((nameTypes l).filter (fun p => !ks.contains p.1)).map (fun p => (p.2, p.1)) =
      l.filter (fun f => !ks.contains f.2) := by
  induction l with
  | nil => rfl
  | cons f l ih =>
    simp only [nameTypes, List.map_cons, List.filter_cons] at ih ⊢
    by_cases h : ks.contains f.2 = true
    · simp only [h, Bool.not_true, Bool.false_eq_true, if_false]; exact ih
    · simp only [h, Bool.not_false, if_true, List.map_cons]; rw [ih]

/-- merging two descriptors with distinct names each: the first, then the unseen fields of the second -/
theorem mergeFields_two (l1 l2 : List (Str × Str)) (h1 : (l1.map (·.2)).Nodup) (h2 : (l2.map (·.2)).Nodup) :
    mergeFields false [l1, l2] = l1 ++ l2.filter (fun f => !(l1.map (·.2)).contains f.2) := by
  unfold mergeFields mergeMap
  simp only [List.foldl_cons, List.foldl_nil]
  have k1 : keys (nameTypes l1) = l1.map (·.2) := keys_nameTypes l1
  have k2 : keys (nameTypes l2) = l2.map (·.2) := keys_nameTypes l2
  rw [foldl_noreplace_nodup (nameTypes l1) [] (by rw [k1]; exact h1)]
  have hA : ([] : List (Str × Str)) ++ (nameTypes l1).filter (fun p => !(keys ([] : List (Str × Str))).contains p.1) =
      nameTypes l1 := by
    rw [List.nil_append]
    exact List.filter_eq_self.mpr (fun _ _ => by simp [keys])
  rw [hA, foldl_noreplace_nodup (nameTypes l2) _ (by rw [k2]; exact h2), k1, List.map_append, filter_nameTypes]
  congr 1
  simp [nameTypes, List.map_map, Function.comp_def]

end FlowRecord.Compose

namespace FlowRecord.Compose
open FlowRecord FlowRecord.Descriptor

/-- no declared field name of any of the records is a reserved name (validation guarantees it, C06) -/
def noReserved {V : Type} (recs : List (Rec V)) : Prop :=
  ∀ x ∈ recs, ∀ n ∈ x.fields.map (·.2), n ∉ reservedNames

/-- VALUES of an extended record, for every list of records: each slot (merged field or metadata field, other
    than the always re-stamped `_version`) holds the value found first when the records' slots are searched in
    priority order — the given order, reversed under `replace`. -/
theorem extend_values {V : Type} (none : Str → V) (ver : V) (replace : Bool) (name : Option Str)
    (r : Rec V) (others : List (Rec V)) (k : Str) (v : V) (hnr : noReserved (r :: others))
    (hk : k ∈ (mergeFields replace ((r :: others).map (·.fields))).map (·.2) ∨ k ∈ reservedNames)
    (hv : k ≠ versionName)
    (hget : alGet ((if replace then (r :: others).reverse else r :: others).flatMap (·.slots)) k = some v) :
    alGet (extendRecord none ver replace name r others).slots k = some v := by
  unfold extendRecord
  apply alGet_initFromDict _ _ _ _ _ k v _ hv
  · rw [chainGet_eq]
    have : (if replace = true then ((r :: others).map (·.slots)).reverse else (r :: others).map (·.slots)).flatten =
        (if replace then (r :: others).reverse else r :: others).flatMap (·.slots) := by
      cases replace <;> simp [List.flatMap_def, List.map_reverse]
    rw [this]; exact hget
  · rw [keys_slotTypes]
    · rcases hk with hk | hk
      · exact List.mem_append_left _ ((mem_firstOcc _ _).mpr hk)
      · exact List.mem_append_right _ hk
    · intro n hn
      rw [mem_mergeFields_names] at hn
      obtain ⟨f, hf, rfl⟩ := List.mem_map.mp hn
      obtain ⟨fs, hfs, hff⟩ := List.mem_flatMap.mp hf
      obtain ⟨x, hx, rfl⟩ := List.mem_map.mp hfs
      exact hnr x hx f.2 (List.mem_map.mpr ⟨f, hff, rfl⟩)

/-- FIRST WINS for values: the value comes from the first record that has the slot. -/
theorem extend_first_wins {V : Type} (none : Str → V) (ver : V) (name : Option Str)
    (r : Rec V) (others pre post : List (Rec V)) (x : Rec V) (k : Str) (v : V) (hnr : noReserved (r :: others))
    (hsplit : r :: others = pre ++ x :: post) (hpre : ∀ p ∈ pre, k ∉ keys p.slots) (hx : alGet x.slots k = some v)
    (hk : k ∈ (mergeFields false ((r :: others).map (·.fields))).map (·.2) ∨ k ∈ reservedNames)
    (hv : k ≠ versionName) :
    alGet (extendRecord none ver false name r others).slots k = some v := by
  apply extend_values none ver false name r others k v hnr hk hv
  simp only [Bool.false_eq_true, if_false]
  rw [hsplit]
  exact alGet_flatMap_first (·.slots) pre post x k v hpre hx

/-- LAST WINS for values under `replace=True`: the value comes from the last record that has the slot. -/
theorem extend_last_wins {V : Type} (none : Str → V) (ver : V) (name : Option Str)
    (r : Rec V) (others pre post : List (Rec V)) (x : Rec V) (k : Str) (v : V) (hnr : noReserved (r :: others))
    (hsplit : r :: others = pre ++ x :: post) (hpost : ∀ p ∈ post, k ∉ keys p.slots) (hx : alGet x.slots k = some v)
    (hk : k ∈ (mergeFields true ((r :: others).map (·.fields))).map (·.2) ∨ k ∈ reservedNames)
    (hv : k ≠ versionName) :
    alGet (extendRecord none ver true name r others).slots k = some v := by
  apply extend_values none ver true name r others k v hnr hk hv
  simp only [if_true]
  rw [hsplit]
  have : (pre ++ x :: post).reverse = post.reverse ++ x :: pre.reverse := by simp
  rw [this]
  exact alGet_flatMap_first (·.slots) post.reverse pre.reverse x k v
    (fun p hp => hpost p (List.mem_reverse.mp hp)) hx

/-- The extended record's descriptor: merged fields, the first record's name unless renamed; its slots are the
    merged names followed by the reserved metadata fields; `_version` is re-stamped. -/
theorem extend_shape {V : Type} (none : Str → V) (ver : V) (replace : Bool) (name : Option Str)
    (r : Rec V) (others : List (Rec V)) (hnr : noReserved (r :: others)) :
    let out := extendRecord none ver replace name r others
    out.name = name.getD r.name ∧
    out.fields = mergeFields replace ((r :: others).map (·.fields)) ∧
    keys out.slots = out.fields.map (·.2) ++ reservedNames ∧
    alGet out.slots versionName = some ver := by
  have hnores : ∀ n ∈ (mergeFields replace ((r :: others).map (·.fields))).map (·.2), n ∉ reservedNames := by
    intro n hn
    rw [mem_mergeFields_names] at hn
    obtain ⟨f, hf, rfl⟩ := List.mem_map.mp hn
    obtain ⟨fs, hfs, hff⟩ := List.mem_flatMap.mp hf
    obtain ⟨x, hx, rfl⟩ := List.mem_map.mp hfs
    exact hnr x hx f.2 (List.mem_map.mpr ⟨f, hff, rfl⟩)
  have hkeys := keys_slotTypes _ hnores
  have hfo : firstOcc ((mergeFields replace ((r :: others).map (·.fields))).map (·.2)) =
      (mergeFields replace ((r :: others).map (·.fields))).map (·.2) := by
    apply firstOcc_nodup_eq
    have e : (mergeFields replace ((r :: others).map (·.fields))).map (·.2) = keys (mergeMap replace ((r :: others).map (·.fields))) := by
      simp [mergeFields, keys, List.map_map, Function.comp_def]
    rw [e, keys_mergeMap]; exact firstOcc_nodup _
  refine ⟨rfl, rfl, ?_, ?_⟩
  · show keys (extendRecord none ver replace name r others).slots = _
    unfold extendRecord
    rw [keys_initFromDict, hkeys, hfo]
    rfl
  · unfold extendRecord
    apply alGet_initFromDict_version
    rw [hkeys]
    exact List.mem_append_right _ (by decide)

end FlowRecord.Compose
