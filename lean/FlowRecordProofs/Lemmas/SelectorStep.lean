import FlowRecord.Model.Selector.Interp
import FlowRecordProofs.Lemmas.SelectorPyOps
import FlowRecordProofs.Lemmas.SelectorTrace
/-! One-step evaluation facts of the interpreter model (used by C08's context theorems). For every `Prim`. -/
namespace FlowRecord.Selector
open FlowRecord

theorem kind_mem : "Name" ∈ Gen.evalNodeKinds ∧ "Attribute" ∈ Gen.evalNodeKinds ∧ "Compare" ∈ Gen.evalNodeKinds ∧
    "UnaryOp" ∈ Gen.evalNodeKinds ∧ "BoolOp" ∈ Gen.evalNodeKinds ∧ "BinOp" ∈ Gen.evalNodeKinds := by decide

theorem interp_name_r (P : Prim) (n : Nat) (st : St) (hr : st.ns.lookup "r" = none) :
    interp P (n + 1) (.name "r") st = (st, .ok st.record) := by
  have hrb : "r" ∈ baseKeys := by decide
  simp [interp, evalStep, Expr.kind, kind_mem.1, inData, dataGet, hr, hrb, baseVal]

theorem interp_attr (P : Prim) (n : Nat) (v : Expr) (a : String) (st s1 : St) (obj : PVal)
    (hd : hasPrefix "__" a = false) (hv : interp P n v st = (s1, .ok obj)) :
    interp P (n + 1) (.attr v a) st =
      ({ s1 with trace := s1.trace ++ [.getattr obj a] }, .ok ((P.getattr obj a).getD .missing)) := by
  have hp : Gen.attrRefusedPrefix = "__" := by decide
  simp [interp, evalStep, Expr.kind, kind_mem.2.1, hp, hd, bind_eq, pure_eq, M.bind, hv, M.log, M.pure]

/-- a single comparison is its one link -/
theorem interp_compare1 (P : Prim) (n : Nat) (l c : Expr) (op : String) (st s1 s2 : St) (lv rv : PVal)
    (hl : interp P n l st = (s1, .ok lv)) (hc : interp P n c s1 = (s2, .ok rv)) :
    interp P (n + 1) (.compare l [(op, c)]) st = linkCompare P op lv rv s2 := by
  have hk : Gen.evalNodeKinds.contains "Compare" = true := by decide
  show evalStep P (interp P n) (.compare l [(op, c)]) st = _
  unfold evalStep
  simp only [Expr.kind, hk, Bool.not_true, Bool.false_eq_true, if_false, bind_eq, pure_eq]
  unfold evalChain
  simp only [bind_eq, pure_eq]
  unfold M.bind
  simp only [hl, hc]
  cases h : linkCompare P op lv rv s2 with
  | mk s3 r =>
    cases r with
    | error e => rfl
    | ok res => by_cases ht : (!P.truthy res) = true <;> simp [ht, M.pure, evalChain, pure_eq]

theorem interp_not (P : Prim) (n : Nat) (x : Expr) (st s1 : St) (v : PVal) (hx : interp P n x st = (s1, .ok v)) :
    interp P (n + 1) (.unary "Not" x) st = (s1, .ok (.bool (!P.truthy v))) := by
  have ht : Gen.AST_OPERATORS.lookup "Not" = some "operator.not_" := by decide
  simp [interp, evalStep, Expr.kind, kind_mem.2.2.2.1, ht, bind_eq, pure_eq, M.bind, hx, M.pure]

/-- `x and y` when `x` is falsy: `x`'s value, `y` is not evaluated -/
theorem interp_and_false (P : Prim) (n : Nat) (x y : Expr) (st s1 : St) (v : PVal)
    (hx : interp P n x st = (s1, .ok v)) (hv : P.truthy v = false) :
    interp P (n + 1) (.boolop "And" [x, y]) st = (s1, .ok v) := by
  simp [interp, evalStep, Expr.kind, kind_mem.2.2.2.2.1, evalBool, hx, hv]

/-- `x or y` when `x` is falsy: whatever `y` gives -/
theorem interp_or_false (P : Prim) (n : Nat) (x y : Expr) (st s1 s2 : St) (v w : PVal)
    (hx : interp P n x st = (s1, .ok v)) (hv : P.truthy v = false) (hy : interp P n y s1 = (s2, .ok w)) :
    interp P (n + 1) (.boolop "Or" [x, y]) st = (s2, .ok w) := by
  by_cases hw : P.truthy w = true <;> simp [interp, evalStep, Expr.kind, kind_mem.2.2.2.2.1, evalBool, hx, hv, hy, hw, M.pure, pure_eq]

/-- a comparison link with the sentinel on the left: False, whatever the other operand (the sentinel's own hook,
    or the `In`/`NotIn` guard) -/
theorem link_missing_left (P : Prim) (T : ClassTable) (hP : ∀ o a b, P.rich o a b = richcmp T o a b) (op : SelOp)
    (v : PVal) (s : St) : linkCompare P op.astName .missing v s = (s, .ok (.bool false)) := by
  cases op with
  | cmp o =>
    cases o <;>
      simp [linkCompare, SelOp.astName, tableCompare, Gen.comparatorShapes, List.lookup, cmpImplOfTarget, PVal.isTmatch,
        hP, richcmp_missing_left]
  | isin =>
    simp [linkCompare, SelOp.astName, tableCompare, Gen.comparatorShapes, List.lookup, cmpImplOfTarget, PVal.isTmatch,
      PVal.isMissing]
  | notin =>
    simp [linkCompare, SelOp.astName, tableCompare, Gen.comparatorShapes, List.lookup, cmpImplOfTarget, PVal.isTmatch,
      PVal.isMissing]

/-- … and on the right, for an operand that leaves the comparison to the sentinel -/
theorem link_missing_right (P : Prim) (T : ClassTable) (hP : ∀ o a b, P.rich o a b = richcmp T o a b) (op : SelOp)
    (v : PVal) (hv : Foreign T v) (ht : v.isTmatch = false) (s : St) :
    linkCompare P op.astName v .missing s = (s, .ok (.bool false)) := by
  cases op with
  | cmp o =>
    cases o <;>
      simp [linkCompare, SelOp.astName, tableCompare, Gen.comparatorShapes, List.lookup, cmpImplOfTarget, ht,
        hP, richcmp_missing_right T _ v hv]
  | isin =>
    simp [linkCompare, SelOp.astName, tableCompare, Gen.comparatorShapes, List.lookup, cmpImplOfTarget, ht,
      PVal.isMissing]
  | notin =>
    simp [linkCompare, SelOp.astName, tableCompare, Gen.comparatorShapes, List.lookup, cmpImplOfTarget, ht,
      PVal.isMissing]

end FlowRecord.Selector
