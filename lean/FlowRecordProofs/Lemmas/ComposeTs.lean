import FlowRecordProofs.Lemmas.Compose
/-!
The loop invariant of `iter_timestamped_records` (C15_ts): what one round does to the re-bound record.
-/
namespace FlowRecord.Compose
open FlowRecord FlowRecord.Descriptor

/-- a field that is not called `ts` / `ts_description` -/
def notTs (f : Str × Str) : Bool := !([tsName, tsDescName].contains f.2)

/-- well-formed record: distinct declared names, none reserved, slots = declared names ++ reserved names -/
structure WF {V : Type} (r : Rec V) : Prop where
  nodup : (r.fields.map (·.2)).Nodup
  nores : ∀ n ∈ r.fields.map (·.2), n ∉ reservedNames
  slots : keys r.slots = r.fields.map (·.2) ++ reservedNames

/-- the loop invariant: the re-bound record still carries every original non-ts field with its value -/
structure TsInv {V : Type} (r c : Rec V) : Prop where
  wf : WF c
  name : c.name = r.name
  rest : c.fields.filter notTs = r.fields.filter notTs
  vals : ∀ f ∈ r.fields, notTs f = true → alGet c.slots f.2 = alGet r.slots f.2

/-- what the property says about one expanded record (for the datetime field `fname`) -/
structure TsOut {V : Type} (ver : V) (nameVal : Str → V) (r o : Rec V) (fname : Str) : Prop where
  name : o.name = r.name
  fields : o.fields = tsFields ++ r.fields.filter notTs
  ts : alGet o.slots tsName = alGet r.slots fname
  desc : alGet o.slots tsDescName = some (nameVal fname)
  keeps : ∀ f ∈ r.fields, notTs f = true → alGet o.slots f.2 = alGet r.slots f.2
  source : alGet o.slots (cps "_source") = alGet r.slots (cps "_source")
  classification : alGet o.slots (cps "_classification") = alGet r.slots (cps "_classification")
  generated : alGet o.slots (cps "_generated") = alGet r.slots (cps "_generated")
  version : alGet o.slots versionName = some ver

theorem tsInv_refl {V : Type} (r : Rec V) (h : WF r) : TsInv r r := ⟨h, rfl, rfl, fun _ _ _ => rfl⟩

theorem some_getD_of_mem {V : Type} (m : List (Str × V)) (k : Str) (d : V) (h : k ∈ keys m) :
    some ((alGet m k).getD d) = alGet m k := by
  have := (alGet_isSome_iff m k).mpr h
  cases hh : alGet m k with
  | none => simp [hh] at this
  | some v => rfl

theorem reserved_in_slots {V : Type} (r : Rec V) (h : WF r) (k : Str) (hk : k ∈ reservedNames) : k ∈ keys r.slots := by
  rw [h.slots]; exact List.mem_append_right _ hk

/-- the extracted loop facts the proof relies on (re-decided against the working tree on every build) -/
theorem ts_loop_facts :
    tsReadsRebound = false ∧ Gen.tsLoopAssigns.contains Gen.tsExtendArg = true ∧
    tsMetaFrom "_source" = some "original" ∧ tsMetaFrom "_classification" = some "original" ∧
    tsMetaFrom "_generated" = some "original" ∧ Gen.tsLoopAssigns.contains "original" = false := by decide

/-- the timestamp record the loop builds for field `fname` (after the loop facts are applied) -/
def tsRecOf {V : Type} (none : Str → V) (ver : V) (nameVal : Str → V) (r : Rec V) (fname : Str) : Rec V :=
  ⟨cps "record/timestamp", tsFields,
    [(tsName, (alGet r.slots fname).getD (none dtType)), (tsDescName, nameVal fname),
     (cps "_source", (alGet r.slots (cps "_source")).getD (none [])),
     (cps "_classification", (alGet r.slots (cps "_classification")).getD (none [])),
     (cps "_generated", (alGet r.slots (cps "_generated")).getD (none [])), (cps "_version", ver)]⟩

theorem tsStep_eq {V : Type} (none : Str → V) (ver : V) (nameVal : Str → V) (r c : Rec V) (fname : Str) :
    tsStep none ver nameVal r c fname =
      extendRecord none ver false (some r.name) (tsRecOf none ver nameVal r fname) [c] := by
  obtain ⟨h1, h2, h3, h4, h5, h6⟩ := ts_loop_facts
  unfold tsStep tsRecOf
  simp only [h1, h2, h3, h4, h5, h6, Bool.false_eq_true, if_false, if_true]

end FlowRecord.Compose

namespace FlowRecord.Compose
open FlowRecord FlowRecord.Descriptor

theorem tsKeys_facts :
    tsName ≠ tsDescName ∧ tsName ∉ reservedNames ∧ tsDescName ∉ reservedNames ∧
    (tsFields.map (·.2)) = [tsName, tsDescName] ∧ cps "_source" ∈ reservedNames ∧
    cps "_classification" ∈ reservedNames ∧ cps "_generated" ∈ reservedNames ∧ versionName ∈ reservedNames ∧
    cps "_source" ≠ versionName ∧ cps "_classification" ≠ versionName ∧ cps "_generated" ≠ versionName ∧
    tsName ≠ versionName ∧ tsDescName ≠ versionName := by decide

theorem keys_tsRecOf {V : Type} (none : Str → V) (ver : V) (nameVal : Str → V) (r : Rec V) (fname : Str) :
    keys (tsRecOf none ver nameVal r fname).slots = [tsName, tsDescName] ++ reservedNames := by
  simp only [tsRecOf, keys, List.map_cons, List.map_nil]
  decide

theorem alGet_tsRecOf {V : Type} (none : Str → V) (ver : V) (nameVal : Str → V) (r : Rec V) (fname : Str) :
    alGet (tsRecOf none ver nameVal r fname).slots tsName = some ((alGet r.slots fname).getD (none dtType)) ∧
    alGet (tsRecOf none ver nameVal r fname).slots tsDescName = some (nameVal fname) ∧
    alGet (tsRecOf none ver nameVal r fname).slots (cps "_source") = some ((alGet r.slots (cps "_source")).getD (none [])) ∧
    alGet (tsRecOf none ver nameVal r fname).slots (cps "_classification") =
      some ((alGet r.slots (cps "_classification")).getD (none [])) ∧
    alGet (tsRecOf none ver nameVal r fname).slots (cps "_generated") =
      some ((alGet r.slots (cps "_generated")).getD (none [])) := by
  have a1 : ¬ tsName = tsDescName := by decide
  have a2 : ¬ tsName = cps "_source" := by decide
  have a3 : ¬ tsDescName = cps "_source" := by decide
  have a4 : ¬ tsName = cps "_classification" := by decide
  have a5 : ¬ tsDescName = cps "_classification" := by decide
  have a6 : ¬ cps "_source" = cps "_classification" := by decide
  have a7 : ¬ tsName = cps "_generated" := by decide
  have a8 : ¬ tsDescName = cps "_generated" := by decide
  have a9 : ¬ cps "_source" = cps "_generated" := by decide
  have a10 : ¬ cps "_classification" = cps "_generated" := by decide
  simp only [tsRecOf, alGet_cons, a1, a2, a3, a4, a5, a6, a7, a8, a9, a10, if_true, if_false, and_self]

theorem notTs_iff (f : Str × Str) : notTs f = true ↔ f.2 ≠ tsName ∧ f.2 ≠ tsDescName := by
  simp [notTs]

theorem filter_notTs_eq (l : List (Str × Str)) :
    l.filter (fun f => !((tsFields.map (·.2)).contains f.2)) = l.filter notTs := by
  apply List.filter_congr
  intro f _
  simp [notTs, tsKeys_facts.2.2.2.1]

theorem ts_step {V : Type} (none : Str → V) (ver : V) (nameVal : Str → V) (r c : Rec V) (hr : WF r)
    (hinv : TsInv r c) (fname : Str) (hf : fname ∈ r.fields.map (·.2)) :
    TsOut ver nameVal r (tsStep none ver nameVal r c fname) fname ∧ TsInv r (tsStep none ver nameVal r c fname) := by
  obtain ⟨hne, hts, htd, htsn, hsrc, hcls, hgen, hver, hsv, hcv, hgv, htv, hdv⟩ := tsKeys_facts
  rw [tsStep_eq]
  have hTnodup : (tsFields.map (·.2)).Nodup := by rw [htsn]; simp [hne]
  have hfields : mergeFields false ([tsRecOf none ver nameVal r fname, c].map (·.fields)) =
      tsFields ++ c.fields.filter notTs := by
    have := mergeFields_two tsFields c.fields hTnodup hinv.wf.nodup
    rw [filter_notTs_eq] at this
    exact this
  have hnr : noReserved [tsRecOf none ver nameVal r fname, c] := by
    intro x hx n hn
    simp only [List.mem_cons, List.mem_nil_iff, or_false] at hx
    rcases hx with rfl | rfl
    · simp only [tsRecOf, htsn, List.mem_cons, List.mem_nil_iff, or_false] at hn
      rcases hn with rfl | rfl
      · exact hts
      · exact htd
    · exact hinv.wf.nores n hn
  obtain ⟨hname, hflds, hkeys, hversion⟩ := extend_shape none ver false (some r.name)
    (tsRecOf none ver nameVal r fname) [c] hnr
  -- lookups decided by the timestamp record (first in the chain)
  have fromTs : ∀ (k : Str) (v : V), alGet (tsRecOf none ver nameVal r fname).slots k = some v →
      (k ∈ [tsName, tsDescName] ∨ k ∈ reservedNames) → k ≠ versionName →
      alGet (extendRecord none ver false (some r.name) (tsRecOf none ver nameVal r fname) [c]).slots k = some v := by
    intro k v hk hmem hkv
    apply extend_first_wins none ver (some r.name) _ [c] [] [c] (tsRecOf none ver nameVal r fname) k v hnr rfl
      (fun _ h => by cases h) hk _ hkv
    rw [hfields]
    rcases hmem with hmem | hmem
    · left
      simp only [List.map_append, List.mem_append, htsn]
      exact Or.inl hmem
    · exact Or.inr hmem
  -- lookups that fall through to the re-bound record
  have fromC : ∀ f ∈ r.fields, notTs f = true →
      alGet (extendRecord none ver false (some r.name) (tsRecOf none ver nameVal r fname) [c]).slots f.2 =
        alGet r.slots f.2 := by
    intro f hfm hnt
    have hfr : f.2 ∈ keys r.slots := by
      rw [hr.slots]; exact List.mem_append_left _ (List.mem_map.mpr ⟨f, hfm, rfl⟩)
    have hres : f.2 ∉ reservedNames := hr.nores f.2 (List.mem_map.mpr ⟨f, hfm, rfl⟩)
    obtain ⟨h1, h2⟩ := (notTs_iff f).mp hnt
    cases hv : alGet r.slots f.2 with
    | none => exact absurd ((alGet_isSome_iff _ _).mpr hfr) (by simp [hv])
    | some v =>
      apply extend_first_wins none ver (some r.name) _ [c] [tsRecOf none ver nameVal r fname] [] c f.2 v hnr rfl
      · intro p hp
        simp only [List.mem_cons, List.mem_nil_iff, or_false] at hp
        subst hp
        rw [keys_tsRecOf]
        simp only [List.cons_append, List.nil_append, List.mem_cons]
        rintro (h | h | h)
        · exact h1 h
        · exact h2 h
        · exact hres h
      · rw [hinv.vals f hfm hnt]; exact hv
      · left
        rw [hfields]
        simp only [List.map_append, List.mem_append]
        right
        have : f ∈ c.fields.filter notTs := by
          rw [hinv.rest]; exact List.mem_filter.mpr ⟨hfm, hnt⟩
        exact List.mem_map.mpr ⟨f, this, rfl⟩
      · intro e
        apply hres; rw [e]; exact hver
  have hfr : fname ∈ keys r.slots := by rw [hr.slots]; exact List.mem_append_left _ hf
  have hT := alGet_tsRecOf none ver nameVal r fname
  have metaEq : ∀ k, k ∈ reservedNames → k ≠ versionName →
      alGet (tsRecOf none ver nameVal r fname).slots k = some ((alGet r.slots k).getD (none [])) →
      alGet (extendRecord none ver false (some r.name) (tsRecOf none ver nameVal r fname) [c]).slots k =
        alGet r.slots k := by
    intro k hk hkv hT
    rw [fromTs k _ hT (Or.inr hk) hkv]
    exact some_getD_of_mem _ _ _ (reserved_in_slots r hr k hk)
  have hrestfilter : (tsFields ++ c.fields.filter notTs).filter notTs = c.fields.filter notTs := by
    rw [List.filter_append, List.filter_filter]
    have : tsFields.filter notTs = [] := by decide
    rw [this, List.nil_append]
    apply List.filter_congr
    intro x _; simp
  constructor
  · refine ⟨hname, ?_, ?_, ?_, fromC, ?_, ?_, ?_, hversion⟩
    · rw [hflds, hfields, hinv.rest]
    · rw [fromTs tsName _ hT.1 (Or.inl (by simp)) htv]
      exact some_getD_of_mem _ _ _ hfr
    · exact fromTs tsDescName _ hT.2.1 (Or.inl (by simp)) hdv
    · exact metaEq _ hsrc hsv hT.2.2.1
    · exact metaEq _ hcls hcv hT.2.2.2.1
    · exact metaEq _ hgen hgv hT.2.2.2.2
  · refine ⟨⟨?_, ?_, ?_⟩, hname, ?_, fromC⟩
    · -- distinct names
      rw [hflds, hfields, List.map_append, htsn]
      have hcn : ((c.fields.filter notTs).map (·.2)).Nodup :=
        (hinv.wf.nodup).sublist (List.Sublist.map _ List.filter_sublist)
      apply List.nodup_append.mpr
      refine ⟨by simp [hne], hcn, ?_⟩
      intro a ha b hb e
      subst e
      obtain ⟨f, hfm, rfl⟩ := List.mem_map.mp hb
      have := (notTs_iff f).mp (List.mem_filter.mp hfm).2
      simp only [List.mem_cons, List.mem_nil_iff, or_false] at ha
      rcases ha with h | h
      · exact this.1 h
      · exact this.2 h
    · intro n hn
      rw [hflds, hfields, List.map_append, htsn] at hn
      rcases List.mem_append.mp hn with h | h
      · simp only [List.mem_cons, List.mem_nil_iff, or_false] at h
        rcases h with rfl | rfl
        · exact hts
        · exact htd
      · obtain ⟨f, hfm, rfl⟩ := List.mem_map.mp h
        exact hinv.wf.nores f.2 (List.mem_map.mpr ⟨f, (List.mem_filter.mp hfm).1, rfl⟩)
    · exact hkeys
    · rw [hflds, hfields, hrestfilter, hinv.rest]

end FlowRecord.Compose

namespace FlowRecord.Compose
open FlowRecord FlowRecord.Descriptor

theorem ts_loop {V : Type} (none : Str → V) (ver : V) (nameVal : Str → V) (r : Rec V) (hr : WF r) :
    ∀ (fs : List Str) (c : Rec V), TsInv r c → (∀ f ∈ fs, f ∈ r.fields.map (·.2)) →
      (tsLoop none ver nameVal r c fs).length = fs.length ∧
      ∀ (i : Nat) (o : Rec V) (f : Str), (tsLoop none ver nameVal r c fs)[i]? = some o → fs[i]? = some f →
        TsOut ver nameVal r o f := by
  intro fs
  induction fs with
  | nil => intro c _ _; exact ⟨rfl, fun i o f h => by simp [tsLoop] at h⟩
  | cons f fs ih =>
    intro c hinv hfs
    obtain ⟨hout, hinv'⟩ := ts_step none ver nameVal r c hr hinv f (hfs f List.mem_cons_self)
    obtain ⟨hlen, hrest⟩ := ih _ hinv' (fun g hg => hfs g (List.mem_cons_of_mem _ hg))
    refine ⟨by simp [tsLoop, hlen], ?_⟩
    intro i o g ho hg
    cases i with
    | zero =>
      simp only [tsLoop, List.getElem?_cons_zero, Option.some.injEq] at ho hg
      subst ho; subst hg; exact hout
    | succ i =>
      simp only [tsLoop, List.getElem?_cons_succ] at ho hg
      exact hrest i o g ho hg

theorem foldl_odSet_fresh {α : Type} (ps : List (Str × α)) : ∀ (m : List (Str × α)), (keys ps).Nodup →
    (∀ k ∈ keys ps, k ∉ keys m) → ps.foldl (fun m p => odSet m p.1 p.2) m = m ++ ps := by
  induction ps with
  | nil => intro m _ _; simp
  | cons p ps ih =>
    intro m hnd hdis
    have hnd' := List.nodup_cons.mp hnd
    simp only [List.foldl_cons]
    rw [odSet_not_mem m p.1 p.2 (hdis p.1 (by simp [keys]))]
    rw [ih _ hnd'.2]
    · simp
    · intro k hk hmem
      simp only [keys, List.map_append, List.map_cons, List.map_nil, List.mem_append, List.mem_singleton] at hmem
      rcases hmem with h | h
      · exact hdis k (by simp only [keys, List.map_cons, List.mem_cons]; exact Or.inr hk) h
      · subst h; exact hnd'.1 hk

theorem fieldMap_nodup (fields : List (Str × Str)) (h : (fields.map (·.2)).Nodup) :
    fieldMap fields = nameTypes fields := by
  unfold fieldMap odOfList
  have := foldl_odSet_fresh (nameTypes fields) [] (by rw [show keys (nameTypes fields) = fields.map (·.2) from keys_nameTypes fields]; exact h)
    (fun _ _ h => by simp [keys] at h)
  simpa using this

end FlowRecord.Compose
