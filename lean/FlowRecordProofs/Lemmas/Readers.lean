import FlowRecord.Model.Readers
/-!
Helper lemmas for C10: how `filterRun` commutes with the building blocks of the reader loops, and the invariant of
the threaded matcher run.
-/
namespace FlowRecord.Readers
variable {R E : Type}

@[simp] theorem filterRun_done (m : Matcher R E) : filterRun m (Run.done : Run R E) = Run.done := rfl
@[simp] theorem filterRun_fail (m : Matcher R E) (e : E) : filterRun m (Run.fail e : Run R E) = Run.fail e := rfl

theorem filterRun_cons (m : Matcher R E) (r : R) (k : Run R E) :
    filterRun m (Run.cons r k) =
      match m r with
      | .ok true => Run.cons r (filterRun m k)
      | .ok false => filterRun m k
      | .error x => Run.fail x := by
  simp only [filterRun, Run.cons, filterAfter]
  cases m r with
  | error x => rfl
  | ok b => cases b <;> rfl

@[simp] theorem emit_none (g : Bool) (r : R) (k : Run R E) : emit g (none : Option (Matcher R E)) r k = Run.cons r k := by
  cases g <;> simp [emit, accepts]

@[simp] theorem emit_unguarded (sel : Option (Matcher R E)) (r : R) (k : Run R E) :
    emit false sel r k = Run.cons r k := by
  cases sel <;> simp [emit, accepts]

/-- The step lemma of every loop: a guarded yield, with the rest already filtered, is the filter of the
    unconditional yield. -/
theorem emit_filter (m : Matcher R E) (g : Bool) (r : R) (k : Run R E) :
    emit true (some m) r (filterRun m k) = filterRun m (emit g none r k) := by
  rw [emit_none, filterRun_cons]
  simp only [emit, accepts]
  cases m r with
  | error x => rfl
  | ok b => cases b <;> rfl

theorem streamLoop_filter {I D P : Type} [DecidableEq I] (cfg : StreamCfg) (hg : cfg.guarded = true)
    (mk : D → P → R) (nf bh : E) (m : Matcher R E) (fs : List (Frame I D P E)) :
    ∀ reg, streamLoop cfg mk nf bh (some m) reg fs = filterRun m (streamLoop cfg mk nf bh none reg fs) := by
  induction fs with
  | nil => intro reg; simp [streamLoop]
  | cons f t ih =>
    intro reg
    cases f with
    | magic =>
      simp only [streamLoop]
      split
      · exact ih reg
      · rfl
    | desc i d => simp only [streamLoop]; exact ih _
    | record i nested p =>
      simp only [streamLoop]
      split
      · simp only [hg]; rw [ih reg]; exact emit_filter m _ _ _
      · rfl
    | broken e => simp [streamLoop]

theorem jsonLoop_filter {I : Type} [DecidableEq I] (cfg : JsonCfg) (h1 : cfg.guardRecord = true)
    (h2 : cfg.guardFallback = true) (nf : E) (m : Matcher R E) (ls : List (JsonLine I R E)) :
    ∀ reg, jsonLoop cfg nf (some m) reg ls = filterRun m (jsonLoop cfg nf none reg ls) := by
  induction ls with
  | nil => intro reg; simp [jsonLoop]
  | cons l t ih =>
    intro reg
    cases l with
    | record i r =>
      simp only [jsonLoop, h1]
      split
      · rw [ih reg]; exact emit_filter m _ _ _
      · rfl
    | descriptor i => simp only [jsonLoop]; exact ih _
    | plain x =>
      cases x with
      | ok r => simp only [jsonLoop, h2]; rw [ih reg]; exact emit_filter m _ _ _
      | error e => simp [jsonLoop]
    | bad e => simp [jsonLoop]

theorem mapLoop_filter {X : Type} (mk : X → Except E R) (m : Matcher R E) (xs : List X) :
    mapLoop true mk (some m) xs = filterRun m (mapLoop true mk none xs) := by
  induction xs with
  | nil => simp [mapLoop]
  | cons x t ih =>
    simp only [mapLoop]
    cases mk x with
    | error e => simp
    | ok r => simp only []; rw [ih]; exact emit_filter m _ _ _

/-- What a loop without selector yields does not depend on the guard flags. -/
theorem mapLoop_none_guard {X : Type} (g : Bool) (mk : X → Except E R) (xs : List X) :
    mapLoop g mk (none : Option (Matcher R E)) xs = mapLoop true mk none xs := by
  induction xs with
  | nil => simp [mapLoop]
  | cons x t ih => simp only [mapLoop, emit_none, ih]

/-- The records of a run with selector are a sublist of the input of `filterAfter`: nothing new, nothing reordered. -/
theorem filterAfter_sublist (m : Matcher R E) (rs : List R) (e : Option E) :
    (filterAfter m rs e).out.Sublist rs := by
  induction rs with
  | nil => simp [filterAfter]
  | cons r t ih =>
    simp only [filterAfter]
    cases m r with
    | error x => simp [Run.fail]
    | ok b =>
      cases b
      · exact List.Sublist.cons _ ih
      · exact List.Sublist.cons_cons _ ih

theorem filterAfter_total (m : Matcher R E) (p : R → Bool) (rs : List R) (e : Option E)
    (h : ∀ r ∈ rs, m r = .ok (p r)) : filterAfter m rs e = ⟨rs.filter p, e⟩ := by
  induction rs with
  | nil => simp [filterAfter]
  | cons r t ih =>
    have hr := h r (by simp)
    have ht := ih (fun x hx => h x (by simp [hx]))
    simp only [filterAfter, hr, ht]
    cases hp : p r <;> simp [Run.cons, List.filter, hp]

/-! ### threaded matcher -/

variable {S T : Type}

theorem matchesStep_indep (reads consts reset : List String)
    (hcover : ∀ f ∈ reads, f ∈ reset ∨ f ∈ consts)
    (fresh : R → String → S) (eval : R → MState S → T × MState S)
    (hreads : ∀ r st st', (∀ f ∈ reads, st f = st' f) → (eval r st).1 = (eval r st').1)
    (st st' : MState S) (hagree : ∀ f ∈ consts, f ∉ reset → st f = st' f) (r : R) :
    (matchesStep reset fresh eval st r).1 = (matchesStep reset fresh eval st' r).1 := by
  unfold matchesStep
  apply hreads
  intro f hf
  by_cases hr : f ∈ reset
  · simp [hr]
  · simp only [hr, if_false]
    rcases hcover f hf with h | h
    · exact absurd h hr
    · exact hagree f h hr

theorem matchesStep_keeps_consts (consts reset : List String)
    (fresh : R → String → S) (eval : R → MState S → T × MState S)
    (hconst : ∀ r st, ∀ f ∈ consts, (eval r st).2 f = st f)
    (st : MState S) (r : R) : ∀ f ∈ consts, f ∉ reset → (matchesStep reset fresh eval st r).2 f = st f := by
  intro f hf hr
  unfold matchesStep
  rw [hconst r _ f hf]
  simp [hr]

theorem runThreaded_eq_map (reads consts reset : List String)
    (hcover : ∀ f ∈ reads, f ∈ reset ∨ f ∈ consts)
    (fresh : R → String → S) (eval : R → MState S → T × MState S)
    (hreads : ∀ r st st', (∀ f ∈ reads, st f = st' f) → (eval r st).1 = (eval r st').1)
    (hconst : ∀ r st, ∀ f ∈ consts, (eval r st).2 f = st f)
    (init : MState S) (rs : List R) :
    ∀ st, (∀ f ∈ consts, f ∉ reset → st f = init f) →
      runThreaded reset fresh eval st rs = rs.map (matchFresh reset fresh eval init) := by
  induction rs with
  | nil => intro st _; rfl
  | cons r t ih =>
    intro st hst
    simp only [runThreaded, List.map_cons]
    congr 1
    · exact matchesStep_indep reads consts reset hcover fresh eval hreads st init hst r
    · apply ih
      intro f hf hr
      rw [matchesStep_keeps_consts consts reset fresh eval hconst st r f hf hr]
      exact hst f hf hr

theorem runCompiled_eq_map {N : Type} (eval : R → N → T × N) (ns : N) (rs : List R) :
    runCompiled true eval ns rs = rs.map (fun r => (eval r ns).1) := by
  induction rs with
  | nil => rfl
  | cons r t ih => simp only [runCompiled, compiledStep, List.map_cons, if_true]; rw [ih]

/-! ### write footprint -/

theorem execWrites_world {W : Type} (wr : String → S → W → W) (ws : List (Target × S))
    (h : ∀ w ∈ ws, w.1.isForeign = false) : ∀ m : Machine S W, (execWrites wr m ws).world = m.world := by
  induction ws with
  | nil => intro m; rfl
  | cons w t ih =>
    intro m
    obtain ⟨tg, v⟩ := w
    simp only [execWrites]
    rw [ih (fun x hx => h x (by simp [hx]))]
    have := h (tg, v) (by simp)
    cases tg <;> simp_all [execWrite, Target.isForeign]

theorem fetchLoop_flatten {X : Type} (batch : Nat) (hb : 1 ≤ batch) :
    ∀ (fuel : Nat) (rows : List X), rows.length < fuel → (fetchLoop batch fuel rows).flatten = rows := by
  intro fuel
  induction fuel with
  | zero => intro rows h; omega
  | succ fuel ih =>
    intro rows h
    cases rows with
    | nil => simp [fetchLoop]
    | cons x xs =>
      have hne : ((x :: xs).take batch).isEmpty = false := by
        cases batch with
        | zero => omega
        | succ b => simp
      simp only [fetchLoop, hne, Bool.false_eq_true, if_false, List.flatten_cons]
      have hlen : ((x :: xs).drop batch).length < fuel := by
        simp only [List.length_drop, List.length_cons] at h ⊢
        omega
      rw [ih _ hlen, List.take_append_drop]

theorem tableBatches_flatten {X : Type} (batch : Nat) (hb : 1 ≤ batch) (rows : List X) :
    (tableBatches batch rows).flatten = rows :=
  fetchLoop_flatten batch hb _ rows (Nat.lt_succ_self _)

end FlowRecord.Readers
