import FlowRecord.Model.TextOut
/-!
Helper lemmas for C20 (line / text writers): the format-string machine consumes a canonical template piece by
piece; the line writer's counter fold has a closed form; padding reaches the block width.
-/
namespace FlowRecord.TextOut
open FlowRecord.Csv (Ch Name Cell Rec Sel asdict ofString)

theorem frun_append (lk : Name → Option Cell) (s : FSt) (a b : List Ch) :
    frun lk s (a ++ b) = frun lk (frun lk s a) b := by simp [frun, List.foldl_append]
theorem frun_cons (lk : Name → Option Cell) (s : FSt) (c : Ch) (cs : List Ch) :
    frun lk s (c :: cs) = frun lk (fstep lk s c) cs := rfl
theorem frun_nil (lk : Name → Option Cell) (s : FSt) : frun lk s [] = s := rfl

theorem frun_escapeLit (lk : Name → Option Cell) (l : List Ch) : ∀ out : List Ch,
    frun lk ⟨.text, [], out, none⟩ (escapeLit l) = ⟨.text, [], l.reverse ++ out, none⟩ := by
  induction l with
  | nil => intro out; simp [escapeLit, frun_nil]
  | cons c cs ih =>
    intro out
    by_cases h1 : c = LBRACE
    · subst h1
      simp only [escapeLit, if_true, frun_cons]
      have : fstep lk (fstep lk ⟨.text, [], out, none⟩ LBRACE) LBRACE = ⟨.text, [], LBRACE :: out, none⟩ := by
        simp [fstep]
      rw [this, ih]; simp
    · by_cases h2 : c = RBRACE
      · subst h2
        have hne : RBRACE ≠ LBRACE := by decide
        simp only [escapeLit, hne, if_false, if_true, frun_cons]
        have : fstep lk (fstep lk ⟨.text, [], out, none⟩ RBRACE) RBRACE = ⟨.text, [], RBRACE :: out, none⟩ := by
          simp [fstep, hne]
        rw [this, ih]; simp
      · simp only [escapeLit, h1, h2, if_false, frun_cons]
        have : fstep lk ⟨.text, [], out, none⟩ c = ⟨.text, [], c :: out, none⟩ := by simp [fstep, h1, h2]
        rw [this, ih]; simp

/-- a character a (modelled) field name may contain -/
def NameCh (c : Ch) : Prop := c ≠ RBRACE ∧ c ≠ LBRACE ∧ isSpecial c = false
instance (c : Ch) : Decidable (NameCh c) := by unfold NameCh; infer_instance

/-- a field name `format_map` looks up as a key: non-empty, not a number, no brace / conversion / spec / attribute /
    index character -/
structure ValidName (n : Name) : Prop where
  nonempty : n ≠ []
  notIndex : n.all isDigit = false
  chars : ∀ c ∈ n, NameCh c

theorem frun_nameChars (lk : Name → Option Cell) (cs : List Ch) : ∀ (nm out : List Ch),
    (∀ c ∈ cs, NameCh c) →
    frun lk ⟨.name, nm, out, none⟩ cs = ⟨.name, cs.reverse ++ nm, out, none⟩ := by
  induction cs with
  | nil => intro nm out _; simp [frun_nil]
  | cons c rest ih =>
    intro nm out h
    obtain ⟨h1, h2, h3⟩ := h c List.mem_cons_self
    have : fstep lk ⟨.name, nm, out, none⟩ c = ⟨.name, c :: nm, out, none⟩ := by simp [fstep, inName, h1, h2, h3]
    rw [frun_cons, this, ih _ _ (fun x hx => h x (List.mem_cons_of_mem _ hx))]; simp

theorem frun_field (lk : Name → Option Cell) (n : Name) (hn : ValidName n) (out : List Ch) :
    frun lk ⟨.text, [], out, none⟩ (LBRACE :: (n ++ [RBRACE])) = ⟨.text, [], (expandName lk n).reverse ++ out, none⟩ := by
  cases n with
  | nil => exact absurd rfl hn.nonempty
  | cons c rest =>
    obtain ⟨h1, h2, h3⟩ := hn.chars c List.mem_cons_self
    have s1 : fstep lk ⟨.text, [], out, none⟩ LBRACE = ⟨.afterOpen, [], out, none⟩ := by simp [fstep]
    have s2 : fstep lk ⟨.afterOpen, [], out, none⟩ c = ⟨.name, [c], out, none⟩ := by simp [fstep, inName, h1, h2, h3]
    have s3 := frun_nameChars lk rest [c] out (fun x hx => hn.chars x (List.mem_cons_of_mem _ hx))
    have hd := hn.notIndex
    have s4 : fstep lk ⟨.name, rest.reverse ++ [c], out, none⟩ RBRACE
        = ⟨.text, [], (expandName lk (c :: rest)).reverse ++ out, none⟩ := by
      have hrev : (rest.reverse ++ [c]).reverse = c :: rest := by simp
      simp only [fstep, inName, closeName, hrev]
      simp [hd]
    rw [frun_cons, s1, List.cons_append, frun_cons, s2, frun_append, s3, frun_cons, s4, frun_nil]

def PiecesOk : List Piece → Prop
  | [] => True
  | .lit _ :: ps => PiecesOk ps
  | .field n :: ps => ValidName n ∧ PiecesOk ps

theorem frun_unparse (lk : Name → Option Cell) (ps : List Piece) : ∀ out : List Ch, PiecesOk ps →
    frun lk ⟨.text, [], out, none⟩ (unparse ps) = ⟨.text, [], (ps.flatMap (expand lk)).reverse ++ out, none⟩ := by
  induction ps with
  | nil => intro out _; simp [unparse, frun_nil]
  | cons p rest ih =>
    intro out h
    cases p with
    | lit s =>
      simp only [unparse, frun_append, frun_escapeLit, List.flatMap_cons, expand]
      rw [ih _ h]; simp
    | field n =>
      obtain ⟨hn, hrest⟩ := h
      have : unparse (.field n :: rest) = (LBRACE :: (n ++ [RBRACE])) ++ unparse rest := by simp [unparse]
      rw [this, frun_append, frun_field lk n hn, ih _ hrest]
      simp [List.flatMap_cons, expand]

/-! ### line writer -/

theorem le_maxList (l : List Nat) (x : Nat) (h : x ∈ l) : x ≤ maxList l := by
  induction l with
  | nil => cases h
  | cons y ys ih =>
    simp only [maxList]
    rcases List.mem_cons.mp h with h | h
    · subst h; omega
    · have := ih h; omega

theorem padLeft_length (w : Nat) (s : List Ch) (h : s.length ≤ w) : (padLeft w s).length = w := by
  simp [padLeft]; omega

theorem lineOut_closed (sel : Sel) (verbose : Bool) (recs : List Rec) : ∀ n : Nat,
    lineOut sel verbose n recs = (recs.zipIdx n).flatMap (fun p => lineBlock sel verbose (p.2 + 1) p.1) := by
  induction recs with
  | nil => intro n; simp [lineOut]
  | cons r rs ih => intro n; simp [lineOut, List.zipIdx_cons, ih]

end FlowRecord.TextOut
