import FlowRecord.Model.Json
import FlowRecordProofs.Lemmas.IsoText
import FlowRecordProofs.Lemmas.Base64
/-!
C14 helper lemmas: well-typedness predicates, scalar / field / slot round trips, key lookup in the written object.
-/
namespace FlowRecord.Json
open FlowRecord
open FlowRecord.DateTime (DT Text)

/-- A scalar value of scalar type `st` inside the property's domain. -/
def SVOk (L : LibLaws) : ST → SV → Prop
  | .text, .str _ => True
  | .int lo hi, .int i => inRange lo hi i = true
  | .float, .float _ => True
  | .boolean, .bool _ => True
  | .datetime, .dt t => t.Valid ∧ t.tz ≠ .naive ∧ DateTime.OffsetPrintable t
  | .bytes, .bytes _ => True
  | .digest, .digest m s h => hexOk 16 m = true ∧ hexOk 20 s = true ∧ hexOk 32 h = true
  | .ip, .ip t => L.ipNorm t = some t
  | .net, .net t => L.netNorm t = some t
  | .path, .path t => L.pathNorm t = some t
  | _, _ => False

/-- A field value of declared type `ty` inside the property's domain. An unset scalar is `none`; digest and list
    fields are never `none` in a record (their default is an empty digest / an empty list) unless the record class
    uses the keyword-tolerant constructor (`kw`), which keeps `None`. -/
def FieldOk (L : LibLaws) (kw : Bool) (ty : Text) (v : FV) : Prop :=
  ∃ st isList, parseType ty = some (st, isList) ∧ (st = .bytes → ty ∈ b64Types) ∧
    match v with
    | .none => kw = true ∨ (isList = false ∧ st ≠ .digest)
    | .one sv => isList = false ∧ SVOk L st sv
    | .list xs => isList = true ∧ ∀ x ∈ xs, SVOk L st x

theorem lookupT_optStr (k : Text) (m : Option Text) (rest : List (Text × JVal)) :
    (lookupT k ((k, optStr m) :: rest)).bind getStrOrNull = some m := by
  simp only [lookupT, if_true, Option.bind_some]
  cases m <;> rfl

theorem booleanBounds : Gen.booleanMin = 0 ∧ Gen.booleanMax = 1 := by decide

/-- One scalar: what the reader's coercion makes of what the writer printed (list-element position). -/
theorem decElem_encElem (L : LibLaws) (st : ST) (b64 : Bool) (v : SV) (h : SVOk L st v)
    (hb : st = .bytes → b64 = true) : decElem L st b64 (encElem v) = .ok (canonSV v) := by
  cases v with
  | str s => cases st <;> first | rfl | exact absurd h id
  | int i =>
    cases st <;> first | exact absurd h id | skip
    simp only [SVOk] at h
    simp only [encElem, decElem, h, if_true, canonSV]
  | float b => cases st <;> first | rfl | exact absurd h id
  | bool b =>
    cases st <;> first | exact absurd h id | skip
    obtain ⟨b0, b1⟩ := booleanBounds
    cases b <;> simp [encElem, decElem, canonSV, b0, b1]
  | dt t =>
    cases st <;> first | exact absurd h id | skip
    obtain ⟨hv, haw, hp⟩ := h
    simp only [encElem, decElem, DateTime.construct, DateTime.parseIso_toIso t hv hp, Option.map_some,
      DateTime.naiveAsUtc_fixedView t haw, canonSV]
  | bytes b =>
    cases st <;> first | exact absurd h id | skip
    simp only [encElem, decElem, hb rfl, if_true, Base64.b64_roundtrip, canonSV]
  | digest m s hh =>
    cases st <;> first | exact absurd h id | skip
    obtain ⟨h1, h2, h3⟩ := h
    have e1 := lookupT_optStr (cps "md5") m [(cps "sha1", optStr s), (cps "sha256", optStr hh)]
    have e2 : (lookupT (cps "sha1") [(cps "md5", optStr m), (cps "sha1", optStr s), (cps "sha256", optStr hh)]).bind
        getStrOrNull = some s := by
      have : cps "md5" ≠ cps "sha1" := by decide
      simp only [lookupT, if_neg this, if_true, Option.bind_some]
      cases s <;> rfl
    have e3 : (lookupT (cps "sha256") [(cps "md5", optStr m), (cps "sha1", optStr s), (cps "sha256", optStr hh)]).bind
        getStrOrNull = some hh := by
      have a : cps "md5" ≠ cps "sha256" := by decide
      have b : cps "sha1" ≠ cps "sha256" := by decide
      simp only [lookupT, if_neg a, if_neg b, if_true, Option.bind_some]
      cases hh <;> rfl
    simp only [encElem, decElem, e1, e2, e3, h1, h2, h3, Bool.and_self, if_true, canonSV]
  | ip t =>
    cases st <;> first | exact absurd h id | skip
    simp only [SVOk] at h
    simp only [encElem, decElem, h, canonSV]
  | net t =>
    cases st <;> first | exact absurd h id | skip
    simp only [SVOk] at h
    simp only [encElem, decElem, h, canonSV]
  | path t =>
    cases st <;> first | exact absurd h id | skip
    simp only [SVOk] at h
    simp only [encElem, decElem, h, canonSV]

theorem decElems_map (L : LibLaws) (st : ST) (b64 : Bool) (xs : List SV) (h : ∀ x ∈ xs, SVOk L st x)
    (hb : st = .bytes → b64 = true) : decElems L st b64 (xs.map encElem) = .ok (xs.map canonSV) := by
  induction xs with
  | nil => rfl
  | cons x xs ih =>
    have hx := decElem_encElem L st b64 x (h x (List.mem_cons_self ..)) hb
    have hxs := ih (fun y hy => h y (List.mem_cons_of_mem _ hy))
    simp only [List.map_cons, decElems, hx, hxs]


theorem encElem_ne_null (v : SV) : encElem v ≠ .null := by
  cases v <;> simp [encElem]

/-- One field: the value found under its key, coerced by the constructor. -/
theorem decField_encField (L : LibLaws) (kw : Bool) (ty : Text) (v : FV) (h : FieldOk L kw ty v) :
    decField L kw ty (some (encField ty v)) = .ok (canonFV v) := by
  obtain ⟨st, isList, hpt, hb, hv⟩ := h
  have hb' : st = .bytes → decide (ty ∈ b64Types) = true := fun e => decide_eq_true (hb e)
  cases v with
  | none =>
    rcases hv with hk | ⟨hl, hd⟩
    · subst hk
      simp only [decField, hpt, encField, if_true, canonFV]
    · subst hl
      cases kw <;> simp only [decField, hpt, encField, Bool.false_eq_true, if_false, if_true, if_neg hd, canonFV]
  | list xs =>
    obtain ⟨hl, hxs⟩ := hv
    subst hl
    simp only [decField, hpt, encField, if_true, decElems_map L st _ xs hxs hb', Except.map, canonFV]
  | one sv =>
    obtain ⟨hl, hsv⟩ := hv
    subst hl
    cases sv with
    | bool b =>
      have hst : st = .boolean := by cases st <;> first | rfl | exact absurd hsv id
      subst hst
      obtain ⟨b0, b1⟩ := booleanBounds
      by_cases hc : ty = cps "boolean" ∧ Gen.jsonBooleanCast = true
      · simp only [decField, hpt, encField, if_pos hc, Bool.false_eq_true, if_false, decElem, Except.map, canonFV, canonSV]
      · simp only [decField, hpt, encField, if_neg hc, Bool.false_eq_true, if_false]
        have := decElem_encElem L .boolean (decide (ty ∈ b64Types)) (.bool b) trivial (by intro e; cases e)
        cases b <;> simp_all [encElem, Except.map, canonFV, canonSV]
    | str s =>
      have := decElem_encElem L st (decide (ty ∈ b64Types)) (.str s) hsv hb'
      simp_all [decField, encField, encElem, Except.map, canonFV]
    | int i =>
      have := decElem_encElem L st (decide (ty ∈ b64Types)) (.int i) hsv hb'
      simp_all [decField, encField, encElem, Except.map, canonFV]
    | float b =>
      have := decElem_encElem L st (decide (ty ∈ b64Types)) (.float b) hsv hb'
      simp_all [decField, encField, encElem, Except.map, canonFV]
    | dt t =>
      have := decElem_encElem L st (decide (ty ∈ b64Types)) (.dt t) hsv hb'
      simp_all [decField, encField, encElem, Except.map, canonFV]
    | bytes b =>
      have := decElem_encElem L st (decide (ty ∈ b64Types)) (.bytes b) hsv hb'
      simp_all [decField, encField, encElem, Except.map, canonFV]
    | digest m s hh =>
      have := decElem_encElem L st (decide (ty ∈ b64Types)) (.digest m s hh) hsv hb'
      simp_all [decField, encField, encElem, Except.map, canonFV]
    | ip t =>
      have := decElem_encElem L st (decide (ty ∈ b64Types)) (.ip t) hsv hb'
      simp_all [decField, encField, encElem, Except.map, canonFV]
    | net t =>
      have := decElem_encElem L st (decide (ty ∈ b64Types)) (.net t) hsv hb'
      simp_all [decField, encField, encElem, Except.map, canonFV]
    | path t =>
      have := decElem_encElem L st (decide (ty ∈ b64Types)) (.path t) hsv hb'
      simp_all [decField, encField, encElem, Except.map, canonFV]


def keysOf (kvs : List (Text × JVal)) : List Text := kvs.map (·.1)

theorem lookupT_append_of_not_mem (k : Text) (xs ys : List (Text × JVal)) (h : k ∉ keysOf xs) :
    lookupT k (xs ++ ys) = lookupT k ys := by
  induction xs with
  | nil => rfl
  | cons p xs ih =>
    obtain ⟨k', v⟩ := p
    simp only [keysOf, List.map_cons, List.mem_cons, not_or] at h
    have hne : ¬ k' = k := fun e => h.1 e.symm
    simp only [List.cons_append, lookupT, if_neg hne]
    exact ih h.2

theorem keys_encFields (fs : List (Text × Text)) (vs : List FV) (h : fs.length = vs.length) :
    keysOf (encFields fs vs) = fs.map (·.2) := by
  induction fs generalizing vs with
  | nil => cases vs <;> rfl
  | cons f fs ih =>
    cases vs with
    | nil => cases h
    | cons v vs =>
      obtain ⟨ty, nm⟩ := f
      simp only [encFields, keysOf, List.map_cons]
      congr 1
      exact ih vs (by simpa using h)

/-- Under distinct names, every slot's key finds exactly the value written for that slot. -/
theorem lookup_encFields (fs : List (Text × Text)) (vs : List FV) (extra : List (Text × JVal))
    (hlen : fs.length = vs.length) (hnd : (fs.map (·.2)).Nodup) :
    ∀ p ∈ fs.zip vs, lookupT p.1.2 (encFields fs vs ++ extra) = some (encField p.1.1 p.2) := by
  induction fs generalizing vs with
  | nil => intro p hp; cases vs <;> simp at hp
  | cons f fs ih =>
    cases vs with
    | nil => cases hlen
    | cons v vs =>
      obtain ⟨ty, nm⟩ := f
      intro p hp
      simp only [List.zip_cons_cons, List.mem_cons] at hp
      simp only [List.map_cons, List.nodup_cons] at hnd
      rcases hp with hp | hp
      · subst hp
        simp only [encFields, List.cons_append, lookupT, if_true]
      · have hmem : p.1.2 ∈ fs.map (·.2) := by
          have := List.of_mem_zip hp
          exact List.mem_map_of_mem this.1
        have hne : nm ≠ p.1.2 := fun e => hnd.1 (e ▸ hmem)
        simp only [encFields, List.cons_append, lookupT, if_neg hne]
        exact ih vs (by simpa using hlen) hnd.2 p hp

/-- Decoding slot by slot, when every slot's key finds a well-typed written value. -/
theorem decSlots_of_lookup (L : LibLaws) (kw : Bool) (kvs : List (Text × JVal)) (fs : List (Text × Text)) (vs : List FV)
    (hlen : fs.length = vs.length)
    (h : ∀ p ∈ fs.zip vs, lookupT p.1.2 kvs = some (encField p.1.1 p.2) ∧ FieldOk L kw p.1.1 p.2) :
    decSlots L kw kvs fs = .ok (vs.map canonFV) := by
  induction fs generalizing vs with
  | nil => cases vs with
    | nil => rfl
    | cons v vs => cases hlen
  | cons f fs ih =>
    cases vs with
    | nil => cases hlen
    | cons v vs =>
      obtain ⟨ty, nm⟩ := f
      have h0 := h ((ty, nm), v) (by simp)
      have hrest := ih vs (by simpa using hlen) (fun p hp => h p (by simp [hp]))
      simp only [decSlots, h0.1, decField_encField L kw ty v h0.2, hrest, List.map_cons]

theorem dropKeys_append (ks : List Text) (xs ys : List (Text × JVal))
    (hx : ∀ k ∈ keysOf xs, k ∉ ks) (hy : ∀ k ∈ keysOf ys, k ∈ ks) : dropKeys ks (xs ++ ys) = xs := by
  unfold dropKeys
  rw [List.filter_append]
  have h1 : xs.filter (fun p => !(ks.contains p.1)) = xs := by
    apply List.filter_eq_self.mpr
    intro p hp
    have := hx p.1 (List.mem_map_of_mem hp)
    simp [this]
  have h2 : ys.filter (fun p => !(ks.contains p.1)) = [] := by
    apply List.filter_eq_nil_iff.mpr
    intro p hp
    have := hy p.1 (List.mem_map_of_mem hp)
    simp [this]
  rw [h1, h2, List.append_nil]



/-- A record inside the property's domain. -/
structure WellTyped (L : LibLaws) (r : Rec) : Prop where
  len : r.vals.length = (allFields r.desc).length
  fields : ∀ p ∈ (allFields r.desc).zip r.vals, FieldOk L (kwInit r.desc) p.1.1 p.2
  nodup : (slotNames r.desc).Nodup
  noMarker : kType ∉ slotNames r.desc ∧ kIdent ∉ slotNames r.desc
  reserved : ∃ pre src cls g, r.vals = pre ++ [src, cls, .one (.dt g), .one (.int Gen.RECORD_VERSION)]

theorem reservedFields_eq : reservedFields = [(cps "string", cps "_source"), (cps "string", cps "_classification"),
    (cps "datetime", cps "_generated"), (cps "varint", cps "_version")] := by decide

theorem generated_found (L : LibLaws) (r : Rec) (extra : List (Text × JVal)) (h : WellTyped L r) :
    ∃ g, lookupT (cps "_generated") (encFields (allFields r.desc) r.vals ++ extra) = some (.str (DateTime.toIso g)) := by
  obtain ⟨pre, src, cls, g, hv⟩ := h.reserved
  refine ⟨g, ?_⟩
  have hlen := h.len
  have hpre : r.desc.fields.length = pre.length := by
    rw [hv] at hlen
    simp only [allFields, reservedFields_eq, List.length_append, List.length_cons, List.length_nil] at hlen
    omega
  have hmem : ((cps "datetime", cps "_generated"), FV.one (.dt g)) ∈ (allFields r.desc).zip r.vals := by
    rw [hv]
    simp only [allFields, reservedFields_eq]
    rw [List.zip_append hpre]
    simp
  have := lookup_encFields (allFields r.desc) r.vals extra h.len.symm h.nodup _ hmem
  simpa [encField, encElem] using this

theorem construct_encFields (L : LibLaws) (r : Rec) (h : WellTyped L r) :
    construct L r.desc (encFields (allFields r.desc) r.vals) = .ok (canonRec r) := by
  have hkeys := keys_encFields (allFields r.desc) r.vals h.len.symm
  have hall : (encFields (allFields r.desc) r.vals).all (fun p => (slotNames r.desc).contains p.1) = true := by
    rw [List.all_eq_true]
    intro p hp
    have : p.1 ∈ keysOf (encFields (allFields r.desc) r.vals) := List.mem_map_of_mem hp
    rw [hkeys] at this
    simpa [slotNames] using this
  have hlook := lookup_encFields (allFields r.desc) r.vals [] h.len.symm h.nodup
  simp only [List.append_nil] at hlook
  have hdec := decSlots_of_lookup L (kwInit r.desc) (encFields (allFields r.desc) r.vals) (allFields r.desc) r.vals h.len.symm
    (fun p hp => ⟨hlook p hp, h.fields p hp⟩)
  obtain ⟨g, hg⟩ := generated_found L r [] h
  simp only [List.append_nil] at hg
  obtain ⟨pre, src, cls, g', hv⟩ := h.reserved
  simp only [construct, hall, if_true, hdec, hg]
  unfold canonRec
  congr 2
  rw [hv]
  simp [canonFV, canonSV]

theorem descOfData_descLine (d : Desc) :
    descOfData (.arr [.str d.name, .arr (d.fields.map fun f => .arr [.str f.1, .str f.2])]) = some d := by
  have key : ∀ fs : List (Text × Text),
      (fs.map fun f => JVal.arr [.str f.1, .str f.2]).mapM fieldOfJson = some fs := by
    intro fs
    induction fs with
    | nil => rfl
    | cons f fs ih => simp [List.mapM_cons, ih, fieldOfJson]
  simp only [descOfData, key, Option.map_some]

theorem kType_ne_kIdent : kType ≠ kIdent := by decide
theorem kType_ne_kData : kType ≠ kData := by decide

/-- One record line read back with a registry that binds its identifier to its descriptor. -/
theorem readLine_toJson (L : LibLaws) (H : HashFn) (reg : Registry) (r : Rec) (h : WellTyped L r)
    (hreg : regGet reg (ident H r.desc) = some r.desc) :
    readLine L H reg (toJson H true r) = .ok (reg, .record (canonRec r)) := by
  have hkeys := keys_encFields (allFields r.desc) r.vals h.len.symm
  have hk1 : kType ∉ keysOf (encFields (allFields r.desc) r.vals) := by rw [hkeys]; exact h.noMarker.1
  have hk2 : kIdent ∉ keysOf (encFields (allFields r.desc) r.vals) := by rw [hkeys]; exact h.noMarker.2
  have l1 : lookupT kType (encFields (allFields r.desc) r.vals ++ markers H r.desc) = some (.str (cps "record")) := by
    rw [lookupT_append_of_not_mem _ _ _ hk1]; simp [markers, lookupT]
  have l2 : lookupT kIdent (encFields (allFields r.desc) r.vals ++ markers H r.desc)
      = some (.arr [.str r.desc.name, .int (H r.desc)]) := by
    rw [lookupT_append_of_not_mem _ _ _ hk2]; simp [markers, lookupT, kType_ne_kIdent]
  have hdrop : dropKeys [kType, kIdent] (encFields (allFields r.desc) r.vals ++ markers H r.desc)
      = encFields (allFields r.desc) r.vals := by
    apply dropKeys_append
    · intro k hk hmem
      simp only [List.mem_cons, List.mem_nil_iff, or_false] at hmem
      rcases hmem with e | e
      · exact hk1 (e ▸ hk)
      · exact hk2 (e ▸ hk)
    · intro k hk
      simpa [markers, keysOf] using hk
  have hid : regGet reg (r.desc.name, H r.desc) = some r.desc := hreg
  simp only [readLine, toJson, if_true, l1, l2, Int.toNat_natCast, hid, hdrop, construct_encFields L r h, Except.map]



theorem regGet_regSet (reg : Registry) (k k' : Text × Nat) (d : Desc) :
    regGet (regSet reg k d) k' = if k = k' then some d else regGet reg k' := by
  simp only [regSet, regGet]

theorem readLine_descLine (L : LibLaws) (H : HashFn) (reg : Registry) (d : Desc) :
    readLine L H reg (descLine d)
      = .ok (if regGet reg (ident H d) = some d then reg else regSet reg (ident H d) d, .descriptor d) := by
  have n1 : cps "recorddescriptor" ≠ cps "record" := by decide
  have l1 : lookupT kType [(kType, JVal.str (cps "recorddescriptor")),
      (kData, .arr [.str d.name, .arr (d.fields.map fun f => .arr [.str f.1, .str f.2])])]
      = some (.str (cps "recorddescriptor")) := by simp [lookupT]
  have l2 : lookupT kData [(kType, JVal.str (cps "recorddescriptor")),
      (kData, .arr [.str d.name, .arr (d.fields.map fun f => .arr [.str f.1, .str f.2])])]
      = some (.arr [.str d.name, .arr (d.fields.map fun f => .arr [.str f.1, .str f.2])]) := by
    simp [lookupT, kType_ne_kData]
  simp only [readLine, descLine, l1, l2, if_neg n1, if_true, Option.bind_some, descOfData_descLine]

/-- The stream: whatever the hash function (collisions included), every record written is read back with its own
    descriptor, in order. -/
theorem stream_roundtrip (L : LibLaws) (H : HashFn) (rs : List Rec) :
    ∀ (wreg rreg : Registry), (∀ k, regGet wreg k = regGet rreg k) → (∀ r ∈ rs, WellTyped L r) →
      readAll L H rreg (writeAll H true wreg rs) = .ok (rs.map canonRec) := by
  induction rs with
  | nil => intro _ _ _ _; rfl
  | cons r rs ih =>
    intro wreg rreg hinv hwt
    have hr := hwt r (List.mem_cons_self ..)
    have hrs : ∀ x ∈ rs, WellTyped L x := fun x hx => hwt x (List.mem_cons_of_mem _ hx)
    by_cases hk : regGet wreg (ident H r.desc) = some r.desc
    · have hk' : regGet rreg (ident H r.desc) = some r.desc := by rw [← hinv]; exact hk
      simp only [writeAll, writeRec, if_pos hk, List.cons_append, List.nil_append, readAll,
        readLine_toJson L H rreg r hr hk', ih wreg rreg hinv hrs, Except.map, List.map_cons]
    · have hk' : ¬ regGet rreg (ident H r.desc) = some r.desc := by rw [← hinv]; exact hk
      have hinv' : ∀ k, regGet (regSet wreg (ident H r.desc) r.desc) k = regGet (regSet rreg (ident H r.desc) r.desc) k := by
        intro k; rw [regGet_regSet, regGet_regSet, hinv]
      have hnew : regGet (regSet rreg (ident H r.desc) r.desc) (ident H r.desc) = some r.desc := by
        rw [regGet_regSet, if_pos rfl]
      simp only [writeAll, writeRec, if_neg hk, if_true, List.cons_append, List.nil_append, readAll,
        readLine_descLine, if_neg hk',
        readLine_toJson L H _ r hr hnew, ih _ _ hinv' hrs, Except.map, List.map_cons]


/-- The stream with failing writes in between: a write that raised leaves at most a descriptor line behind; every
    record whose write succeeded is read back with its own descriptor, in order — the failed ones need not even be
    well-typed. -/
theorem stream_roundtrip_hist (L : LibLaws) (H : HashFn) (h : List (Rec × Bool)) :
    ∀ (wreg rreg : Registry), (∀ k, regGet wreg k = regGet rreg k) → (∀ e ∈ h, e.2 = true → WellTyped L e.1) →
      readAll L H rreg (writeHist H true wreg h) = .ok ((h.filter (·.2)).map (fun e => canonRec e.1)) := by
  induction h with
  | nil => intro _ _ _ _; rfl
  | cons e rs ih =>
    intro wreg rreg hinv hwt
    obtain ⟨r, ok⟩ := e
    have hrs : ∀ x ∈ rs, x.2 = true → WellTyped L x.1 := fun x hx => hwt x (List.mem_cons_of_mem _ hx)
    cases ok with
    | true =>
      have hr : WellTyped L r := hwt (r, true) (List.mem_cons_self ..) rfl
      by_cases hk : regGet wreg (ident H r.desc) = some r.desc
      · have hk' : regGet rreg (ident H r.desc) = some r.desc := by rw [← hinv]; exact hk
        simp only [writeHist, writeRec, if_pos hk, List.cons_append, List.nil_append, readAll,
          readLine_toJson L H rreg r hr hk', ih wreg rreg hinv hrs, Except.map, List.filter_cons, if_true, List.map_cons]
      · have hk' : ¬ regGet rreg (ident H r.desc) = some r.desc := by rw [← hinv]; exact hk
        have hinv' : ∀ k, regGet (regSet wreg (ident H r.desc) r.desc) k = regGet (regSet rreg (ident H r.desc) r.desc) k := by
          intro k; rw [regGet_regSet, regGet_regSet, hinv]
        have hnew : regGet (regSet rreg (ident H r.desc) r.desc) (ident H r.desc) = some r.desc := by
          rw [regGet_regSet, if_pos rfl]
        simp only [writeHist, writeRec, if_neg hk, if_true, List.cons_append, List.nil_append, readAll,
          readLine_descLine, if_neg hk',
          readLine_toJson L H _ r hr hnew, ih _ _ hinv' hrs, Except.map, List.filter_cons, List.map_cons]
    | false =>
      by_cases hk : regGet wreg (ident H r.desc) = some r.desc
      · simp only [writeHist, writeFailed, if_pos hk, List.nil_append, ih wreg rreg hinv hrs, List.filter_cons]
        simp
      · have hk' : ¬ regGet rreg (ident H r.desc) = some r.desc := by rw [← hinv]; exact hk
        have hinv' : ∀ k, regGet (regSet wreg (ident H r.desc) r.desc) k = regGet (regSet rreg (ident H r.desc) r.desc) k := by
          intro k; rw [regGet_regSet, regGet_regSet, hinv]
        simp only [writeHist, writeFailed, if_neg hk, if_true, List.cons_append, List.nil_append, readAll,
          readLine_descLine, if_neg hk', ih _ _ hinv' hrs, List.filter_cons]
        simp

theorem encFields_append (f1 f2 : List (Text × Text)) (v1 v2 : List FV) (h : f1.length = v1.length) :
    encFields (f1 ++ f2) (v1 ++ v2) = encFields f1 v1 ++ encFields f2 v2 := by
  induction f1 generalizing v1 with
  | nil => cases v1 with
    | nil => rfl
    | cons v vs => cases h
  | cons f fs ih =>
    cases v1 with
    | nil => cases h
    | cons v vs =>
      obtain ⟨ty, nm⟩ := f
      simp only [List.cons_append, encFields]
      rw [ih vs (by simpa using h)]

theorem filter_keep_all (xs : List (Text × JVal)) (p : Text → Bool) (h : ∀ k ∈ keysOf xs, p k = true) :
    xs.filter (fun kv => p kv.1) = xs := by
  apply List.filter_eq_self.mpr
  intro kv hkv
  exact h kv.1 (List.mem_map_of_mem hkv)

theorem filter_drop_all (xs : List (Text × JVal)) (p : Text → Bool) (h : ∀ k ∈ keysOf xs, p k = false) :
    xs.filter (fun kv => p kv.1) = [] := by
  apply List.filter_eq_nil_iff.mpr
  intro kv hkv
  simp [h kv.1 (List.mem_map_of_mem hkv)]

/-- The reserved part of a written line, spelled out. -/
theorem encFields_reserved (src cls : FV) (g : DT) :
    encFields reservedFields [src, cls, .one (.dt g), .one (.int Gen.RECORD_VERSION)]
      = [(cps "_source", encField (cps "string") src), (cps "_classification", encField (cps "string") cls),
         (cps "_generated", .str (DateTime.toIso g)), (cps "_version", .int Gen.RECORD_VERSION)] := by
  rw [reservedFields_eq]
  simp [encFields, encField, encElem]

/-- Plain-JSON fallback on a line written with descriptors disabled. -/
theorem plain_fallback (L : LibLaws) (r : Rec) (h : WellTyped L r)
    (hdecl : ∀ f ∈ r.desc.fields, startsUnderscore f.2 = false) :
    ∃ pre src cls g, r.vals = pre ++ [src, cls, .one (.dt g), .one (.int Gen.RECORD_VERSION)] ∧
      pre.length = r.desc.fields.length ∧
      fromJsonPlain (encFields (allFields r.desc) r.vals) = .ok
        { typeName := cps Gen.jsonFallbackTypeName
          fields := (encFields r.desc.fields pre).map fun kv => (plainType kv.2, kv.1)
          vals := (encFields r.desc.fields pre).map fun kv => plainVal kv.2
          source := plainVal (encField (cps "string") src)
          classification := plainVal (encField (cps "string") cls)
          generatedIso := some (DateTime.toIso g) } := by
  obtain ⟨pre, src, cls, g, hv⟩ := h.reserved
  have hlen := h.len
  have hpre : r.desc.fields.length = pre.length := by
    rw [hv] at hlen
    simp only [allFields, reservedFields_eq, List.length_append, List.length_cons, List.length_nil] at hlen
    omega
  refine ⟨pre, src, cls, g, hv, hpre.symm, ?_⟩
  have hsplit : encFields (allFields r.desc) r.vals
      = encFields r.desc.fields pre ++ [(cps "_source", encField (cps "string") src),
          (cps "_classification", encField (cps "string") cls),
          (cps "_generated", .str (DateTime.toIso g)), (cps "_version", .int Gen.RECORD_VERSION)] := by
    rw [hv]
    unfold allFields
    rw [encFields_append _ _ _ _ hpre, encFields_reserved]
  have hk := keys_encFields r.desc.fields pre hpre
  have hnu : ∀ k ∈ keysOf (encFields r.desc.fields pre), startsUnderscore k = false := by
    intro k hk'
    rw [hk] at hk'
    obtain ⟨f, hf, rfl⟩ := List.mem_map.mp hk'
    exact hdecl f hf
  have u1 : startsUnderscore (cps "_source") = true := by decide
  have u2 : startsUnderscore (cps "_classification") = true := by decide
  have u3 : startsUnderscore (cps "_generated") = true := by decide
  have u4 : startsUnderscore (cps "_version") = true := by decide
  have hd : (encFields (allFields r.desc) r.vals).filter (fun p => !(startsUnderscore p.1)) = encFields r.desc.fields pre := by
    rw [hsplit, List.filter_append, filter_keep_all _ (fun k => !(startsUnderscore k)) (by intro k hk'; simp [hnu k hk'])]
    simp [List.filter, u1, u2, u3, u4]
  have hu : (encFields (allFields r.desc) r.vals).filter (fun p => startsUnderscore p.1)
      = [(cps "_source", encField (cps "string") src), (cps "_classification", encField (cps "string") cls),
          (cps "_generated", .str (DateTime.toIso g)), (cps "_version", .int Gen.RECORD_VERSION)] := by
    rw [hsplit, List.filter_append, filter_drop_all _ startsUnderscore hnu]
    simp [List.filter, u1, u2, u3, u4]
  have hres : ([(cps "_source", encField (cps "string") src), (cps "_classification", encField (cps "string") cls),
      (cps "_generated", JVal.str (DateTime.toIso g)), (cps "_version", JVal.int Gen.RECORD_VERSION)] : List (Text × JVal)).all
      (fun p => (reservedFields.map (·.2)).contains p.1) = true := by
    rw [reservedFields_eq]
    simp only [List.all_cons, List.all_nil, List.map_cons, List.map_nil, Bool.and_true, Bool.and_eq_true]
    refine ⟨?_, ?_, ?_, ?_⟩ <;> decide
  have hnot : ∀ k, startsUnderscore k = true → k ∉ keysOf (encFields r.desc.fields pre) := by
    intro k hk1 hk2
    have := hnu k hk2
    rw [hk1] at this
    cases this
  have n12 : cps "_source" ≠ cps "_classification" := by decide
  have n13 : cps "_source" ≠ cps "_generated" := by decide
  have n23 : cps "_classification" ≠ cps "_generated" := by decide
  have ls : lookupT (cps "_source") (encFields (allFields r.desc) r.vals) = some (encField (cps "string") src) := by
    rw [hsplit, lookupT_append_of_not_mem _ _ _ (hnot _ u1)]; simp [lookupT]
  have lc : lookupT (cps "_classification") (encFields (allFields r.desc) r.vals) = some (encField (cps "string") cls) := by
    rw [hsplit, lookupT_append_of_not_mem _ _ _ (hnot _ u2)]; simp [lookupT, n12]
  have lg : lookupT (cps "_generated") (encFields (allFields r.desc) r.vals) = some (.str (DateTime.toIso g)) := by
    rw [hsplit, lookupT_append_of_not_mem _ _ _ (hnot _ u3)]; simp [lookupT, n13, n23]
  simp only [fromJsonPlain, hd, hu, hres, if_true, ls, lc, lg]


theorem fieldOk_none (L : LibLaws) (kw : Bool) {ty : Text} {st : ST} (h1 : parseType ty = some (st, false))
    (h2 : st = .bytes → ty ∈ b64Types) (h3 : st ≠ .digest) : FieldOk L kw ty .none :=
  ⟨st, false, h1, h2, Or.inr ⟨rfl, h3⟩⟩

theorem fieldOk_one (L : LibLaws) (kw : Bool) {ty : Text} {st : ST} {sv : SV} (h1 : parseType ty = some (st, false))
    (h2 : st = .bytes → ty ∈ b64Types) (h3 : SVOk L st sv) : FieldOk L kw ty (.one sv) := ⟨st, false, h1, h2, rfl, h3⟩

theorem fieldOk_list (L : LibLaws) (kw : Bool) {ty : Text} {st : ST} {xs : List SV} (h1 : parseType ty = some (st, true))
    (h2 : st = .bytes → ty ∈ b64Types) (h3 : ∀ x ∈ xs, SVOk L st x) : FieldOk L kw ty (.list xs) :=
  ⟨st, true, h1, h2, rfl, h3⟩

end FlowRecord.Json
