import FlowRecordProofs.Lemmas.StreamRoundtrip
/-! A concrete admissible history (two records of one type written by a fresh writer): the hypotheses of the stream
    theorems (C01_stream_roundtrip, C04_records_prefix) are satisfiable. -/
open FlowRecord FlowRecord.Msgpack FlowRecord.Wire FlowRecord.Stream FlowRecord.Utf8

namespace FlowRecord.StreamExample
def d : Desc := { name := [116, 47, 120], fields := [([118], [110])], hash := 7 }
def h : PyStr → List (PyStr × PyStr) → Nat := fun _ _ => 7
def o1 : PV := .record d [.int 5]
def o2 : PV := .record d [.int (-3)]

theorem s1 : strOK [116, 47, 120] := ⟨[116, 47, 120], by decide, by decide, by decide⟩
theorem s2 : strOK [118] := ⟨[118], by decide, by decide, by decide⟩
theorem s3 : strOK [110] := ⟨[110], by decide, by decide, by decide⟩

theorem dOK : DescOK d := by
  refine ⟨s1, ?_, by decide, ?_⟩
  · intro p hp
    simp [d] at hp
    subst hp
    exact ⟨s2, s3⟩
  · intro m hm
    have : descPayload d = some (.arr [.str [116, 47, 120], .arr [.arr [.str [118], .str [110]]]]) := by rfl
    rw [this] at hm
    cases hm
    decide

theorem reg1 : (newDescs [] (descsOf o1)) = ([((d.name, d.hash), d)], [d]) := by decide

theorem pv1 : PVOK [((d.name, d.hash), d)] o1 := by
  simp only [o1, PVOK, PVOKList]
  refine ⟨s1, by decide, by decide, by decide, by decide, ⟨Or.inl (by decide), trivial⟩, ?_⟩
  intro i vs hi hv
  have e1 : identM d = some (.arr [.str [116, 47, 120], .int 7]) := by rfl
  have e2 : toMList [PV.int 5] = some [.int 5] := by rfl
  rw [e1] at hi; rw [e2] at hv
  cases hi; cases hv
  decide
theorem reg2 : (newDescs [((d.name, d.hash), d)] (descsOf o2)) = ([((d.name, d.hash), d)], []) := by decide

theorem pv2 : PVOK [((d.name, d.hash), d)] o2 := by
  simp only [o2, PVOK, PVOKList]
  refine ⟨s1, by decide, by decide, by decide, by decide, ⟨Or.inl (by decide), trivial⟩, ?_⟩
  intro i vs hi hv
  have e1 : identM d = some (.arr [.str [116, 47, 120], .int 7]) := by rfl
  have e2 : toMList [PV.int (-3)] = some [.int (-3)] := by rfl
  rw [e1] at hi; rw [e2] at hv
  cases hi; cases hv
  decide

theorem hist : HistOK h [] [o1, o2] := by
  refine ⟨Or.inl ⟨d, [.int 5], rfl⟩, ?_, ?_, ?_⟩
  · rw [reg1]; intro d' hd'; simp at hd'; subst hd'; exact ⟨dOK, rfl⟩
  · rw [reg1]; exact pv1
  · rw [reg1]
    refine ⟨Or.inl ⟨d, _, rfl⟩, ?_, ?_, trivial⟩
    · rw [reg2]; intro d' hd'; simp at hd'
    · rw [reg2]; exact pv2

example : (writeAll WState.init [o1, o2]).isSome = true := by rfl
end FlowRecord.StreamExample

/-! a grouped record (one member of type `d`) written first on a fresh stream -/
namespace FlowRecord.StreamExample
def g1 : PV := .grouped [103] [.record d [.int 5]]

theorem sg : strOK [103] := ⟨[103], by decide, by decide, by decide⟩

theorem regG : (newDescs [] (descsOf g1)) = ([((d.name, d.hash), d)], [d]) := by decide

theorem pvG : PVOK [((d.name, d.hash), d)] g1 := by
  simp only [g1, PVOK, PVOKMembers, PVOKList]
  refine ⟨sg, by decide, ⟨s1, by decide, by decide, by decide, ⟨Or.inl (by decide), trivial⟩, trivial⟩, ?_⟩
  intro n members hn hm
  have e1 : mstr [103] = some (.str [103]) := by rfl
  have e2 : toMMembers [PV.record d [.int 5]] = some [.arr [.arr [.str [116, 47, 120], .int 7], .arr [.int 5]]] := by rfl
  rw [e1] at hn; rw [e2] at hm
  cases hn; cases hm
  decide

theorem histG : HistOK h [] [g1, o2] := by
  refine ⟨Or.inr ⟨_, _, rfl⟩, ?_, ?_, ?_⟩
  · rw [regG]; intro d' hd'; simp at hd'; subst hd'; exact ⟨dOK, rfl⟩
  · rw [regG]; exact pvG
  · rw [regG]
    refine ⟨Or.inl ⟨d, _, rfl⟩, ?_, ?_, trivial⟩
    · rw [reg2]; intro d' hd'; simp at hd'
    · rw [reg2]; exact pv2

example : (writeAll WState.init [g1, o2]).isSome = true := by rfl
end FlowRecord.StreamExample
