import FlowRecordProofs.Lemmas.Msgpack
import FlowRecord.Model.Stream
/-! Framing lemmas: 4-byte big-endian length prefix, frame splitting, cuts. -/
namespace FlowRecord.Stream
open FlowRecord FlowRecord.Msgpack

theorem frameBytes_length (body : Bytes) : (frameBytes body).length = 4 + body.length := by
  simp [frameBytes]

theorem nextFrame_frame (body rest : Bytes) (h : body.length < 4294967296) :
    nextFrame (frameBytes body ++ rest) = some (body, rest) := by
  unfold nextFrame frameBytes
  have hl : ¬ (beEnc 4 body.length ++ body ++ rest).length < 4 := by simp
  rw [if_neg hl]
  have e1 : (beEnc 4 body.length ++ body ++ rest).take 4 = beEnc 4 body.length := by
    rw [List.append_assoc]; exact List.take_left' (beEnc_length 4 _)
  have e2 : (beEnc 4 body.length ++ body ++ rest).drop 4 = body ++ rest := by
    rw [List.append_assoc]; exact List.drop_left' (beEnc_length 4 _)
  rw [e1, e2, beDec_beEnc 4 _ (by omega)]
  simp

theorem take4_frame (body rest : Bytes) : (frameBytes body ++ rest).take 4 = beEnc 4 body.length := by
  unfold frameBytes
  rw [List.append_assoc]; exact List.take_left' (beEnc_length 4 _)

/-- Splitting `frames ++ partial` gives back the frames and leaves the partial frame unread. -/
theorem splitFrames_stream (frames : List Bytes) (p : Bytes) (fuel : Nat)
    (hw : ∀ f ∈ frames, f.length < 4294967296) (hp : IsPartialFrame p) (hf : frames.length ≤ fuel) :
    splitFrames fuel (streamOf frames ++ p) = (frames, p) := by
  induction frames generalizing fuel with
  | nil =>
    simp only [streamOf, List.flatMap_nil, List.nil_append]
    cases fuel with
    | zero => rfl
    | succ fuel =>
      simp only [splitFrames]
      rcases hp with h | ⟨n, body, hn, rfl, hb⟩
      · simp [nextFrame, h]
      · have hl : ¬ (beEnc 4 n ++ body).length < 4 := by simp
        have e1 : (beEnc 4 n ++ body).take 4 = beEnc 4 n := List.take_left' (beEnc_length 4 _)
        have e2 : (beEnc 4 n ++ body).drop 4 = body := List.drop_left' (beEnc_length 4 _)
        simp only [nextFrame, if_neg hl, e1, e2, beDec_beEnc 4 n (by omega)]
        have : min n (List.length body) < n := by omega
        simp [this]
  | cons f fs ih =>
    cases fuel with
    | zero => simp at hf
    | succ fuel =>
      have hfl : f.length < 4294967296 := hw f (by simp)
      have hs : streamOf (f :: fs) ++ p = frameBytes f ++ (streamOf fs ++ p) := by
        simp [streamOf, List.append_assoc]
      rw [hs]
      simp only [splitFrames, nextFrame_frame f _ hfl, take4_frame, beDec_beEnc 4 _ (show f.length < 256 ^ 4 by omega)]
      rw [if_neg (by omega)]
      have := ih fuel (fun g hg => hw g (by simp [hg])) (by simp at hf; omega)
      rw [this]

/-- Every byte prefix of a stream is: some complete frames, then a partial frame. -/
theorem take_stream (frames : List Bytes) (k : Nat) (hw : ∀ f ∈ frames, f.length < 4294967296) :
    ∃ m p, m ≤ frames.length ∧ (streamOf frames).take k = streamOf (frames.take m) ++ p ∧
      (IsPartialFrame p ∨ (p = [] ∧ m = frames.length)) ∧
      (streamOf (frames.take m)).length ≤ k := by
  induction frames generalizing k with
  | nil => exact ⟨0, [], by simp, by simp [streamOf], Or.inl (Or.inl (by simp)), by simp [streamOf]⟩
  | cons f fs ih =>
    have hfl : f.length < 4294967296 := hw f (by simp)
    by_cases hk : (frameBytes f).length ≤ k
    · -- the first frame is complete
      obtain ⟨m, p, hm, ht, hpp, hlen⟩ := ih (k - (frameBytes f).length) (fun g hg => hw g (by simp [hg]))
      refine ⟨m + 1, p, by simp; omega, ?_, ?_, ?_⟩
      · have : streamOf (f :: fs) = frameBytes f ++ streamOf fs := by simp [streamOf]
        rw [this, List.take_append, List.take_of_length_le hk, ht]
        simp [streamOf, List.append_assoc]
      · rcases hpp with h | ⟨h1, h2⟩
        · exact Or.inl h
        · exact Or.inr ⟨h1, by simp [h2]⟩
      · simp only [List.take_succ_cons, streamOf, List.flatMap_cons, List.length_append]
        simp only [streamOf] at hlen
        omega
    · -- the cut falls inside the first frame
      refine ⟨0, (frameBytes f).take k, by simp, ?_, Or.inl ?_, by simp [streamOf]⟩
      · have : streamOf (f :: fs) = frameBytes f ++ streamOf fs := by simp [streamOf]
        rw [this, List.take_append_of_le_length (by omega)]
        simp [streamOf]
      · by_cases h4 : k < 4
        · left; simp; omega
        · right
          refine ⟨f.length, f.take (k - 4), hfl, ?_, ?_⟩
          · unfold frameBytes
            rw [List.take_append, List.take_of_length_le (by simp; omega)]
            simp
          · rw [frameBytes_length] at hk
            simp; omega

end FlowRecord.Stream
