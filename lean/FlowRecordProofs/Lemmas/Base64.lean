import FlowRecord.Model.Base64
/-!
C14: base64 decode after encode is the identity on every byte list (induction on 3-byte chunks).
-/
namespace FlowRecord.Base64

theorem b64val_char (n : Nat) (h : n < 64) : b64val (b64char n) = some n := by
  unfold b64char b64val
  by_cases h1 : n < 26
  · rw [if_pos h1, if_pos (by omega)]; congr 1; omega
  · rw [if_neg h1]
    by_cases h2 : n < 52
    · rw [if_pos h2, if_neg (by omega), if_pos (by omega)]; congr 1; omega
    · rw [if_neg h2]
      by_cases h3 : n < 62
      · rw [if_pos h3, if_neg (by omega), if_neg (by omega), if_pos (by omega)]; congr 1; omega
      · rw [if_neg h3]
        by_cases h4 : n = 62
        · rw [if_pos h4]; subst h4; rfl
        · rw [if_neg h4]
          have : n = 63 := by omega
          subst this; rfl

theorem b64char_ne_pad (n : Nat) (h : n < 64) : b64char n ≠ 61 := by
  unfold b64char
  split
  · omega
  · split
    · omega
    · split
      · omega
      · split <;> omega

theorem ofNat_toNat_eq (a : UInt8) (n : Nat) (h : n = a.toNat) : UInt8.ofNat n = a := by
  subst h; exact UInt8.ofNat_toNat

theorem b64_roundtrip (b : List UInt8) : b64dec (b64enc b) = some b := by
  fun_induction b64enc b with
  | case1 => rfl
  | case2 a =>
    have ha := a.toNat_lt
    simp only [b64dec, b64val_char _ (show a.toNat / 4 < 64 by omega), b64val_char _ (show a.toNat % 4 * 16 < 64 by omega),
      if_true, and_self]
    congr 2
    exact ofNat_toNat_eq a _ (by omega)
  | case3 a b =>
    have ha := a.toNat_lt
    have hb := b.toNat_lt
    have n3 := b64char_ne_pad (b.toNat % 16 * 4) (by omega)
    simp only [b64dec, b64val_char _ (show a.toNat / 4 < 64 by omega),
      b64val_char _ (show a.toNat % 4 * 16 + b.toNat / 16 < 64 by omega),
      b64val_char _ (show b.toNat % 16 * 4 < 64 by omega), if_neg n3, if_true]
    congr 2
    · exact ofNat_toNat_eq a _ (by omega)
    · congr 1; exact ofNat_toNat_eq b _ (by omega)
  | case4 a b c rest ih =>
    have ha := a.toNat_lt
    have hb := b.toNat_lt
    have hc := c.toNat_lt
    have n3 := b64char_ne_pad (b.toNat % 16 * 4 + c.toNat / 64) (by omega)
    have n4 := b64char_ne_pad (c.toNat % 64) (by omega)
    simp only [b64dec, b64val_char _ (show a.toNat / 4 < 64 by omega),
      b64val_char _ (show a.toNat % 4 * 16 + b.toNat / 16 < 64 by omega),
      b64val_char _ (show b.toNat % 16 * 4 + c.toNat / 64 < 64 by omega),
      b64val_char _ (show c.toNat % 64 < 64 by omega), if_neg n3, if_neg n4, ih, Option.map_some]
    congr 2
    · exact ofNat_toNat_eq a _ (by omega)
    · congr 1
      · exact ofNat_toNat_eq b _ (by omega)
      · congr 1; exact ofNat_toNat_eq c _ (by omega)
end FlowRecord.Base64
