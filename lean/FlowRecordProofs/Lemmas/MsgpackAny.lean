import FlowRecordProofs.Lemmas.Msgpack
/-!
M2 / M3: EVERY encoding the msgpack format allows for a value — not only the smallest class the packer picks — is
decoded to that value. `Encodes v bs` is the format specification as a relation (written independently of `enc`):
an integer may sit in any class wide enough for it, a length in any length class wide enough, fixext only for its
exact sizes. An independent writer that conforms to the format produces some `bs` with `Encodes v bs`.
-/
namespace FlowRecord.Msgpack
open FlowRecord

/-- two's complement of `i` in `k` bytes -/
def twos (k : Nat) (i : Int) : Nat := if 0 ≤ i then i.toNat else ((256 ^ k : Nat) + i).toNat

/-- every encoding of an integer -/
inductive IntEnc : Int → Bytes → Prop
  | posfix (n : Nat) (h : n < 128) : IntEnc n [UInt8.ofNat n]
  | negfix (i : Int) (h1 : -32 ≤ i) (h2 : i < 0) : IntEnc i [UInt8.ofNat (256 + i).toNat]
  | u8 (n : Nat) (h : n < 256) : IntEnc n (0xcc :: beEnc 1 n)
  | u16 (n : Nat) (h : n < 65536) : IntEnc n (0xcd :: beEnc 2 n)
  | u32 (n : Nat) (h : n < 4294967296) : IntEnc n (0xce :: beEnc 4 n)
  | u64 (n : Nat) (h : n < 18446744073709551616) : IntEnc n (0xcf :: beEnc 8 n)
  | i8 (i : Int) (h1 : -128 ≤ i) (h2 : i < 128) : IntEnc i (0xd0 :: beEnc 1 (twos 1 i))
  | i16 (i : Int) (h1 : -32768 ≤ i) (h2 : i < 32768) : IntEnc i (0xd1 :: beEnc 2 (twos 2 i))
  | i32 (i : Int) (h1 : -2147483648 ≤ i) (h2 : i < 2147483648) : IntEnc i (0xd2 :: beEnc 4 (twos 4 i))
  | i64 (i : Int) (h1 : -9223372036854775808 ≤ i) (h2 : i < 9223372036854775808) : IntEnc i (0xd3 :: beEnc 8 (twos 8 i))

inductive StrHead : Nat → Bytes → Prop
  | fix (n : Nat) (h : n < 32) : StrHead n [UInt8.ofNat (0xa0 + n)]
  | s8 (n : Nat) (h : n < 256) : StrHead n (0xd9 :: beEnc 1 n)
  | s16 (n : Nat) (h : n < 65536) : StrHead n (0xda :: beEnc 2 n)
  | s32 (n : Nat) (h : n < 4294967296) : StrHead n (0xdb :: beEnc 4 n)

inductive BinHead : Nat → Bytes → Prop
  | b8 (n : Nat) (h : n < 256) : BinHead n (0xc4 :: beEnc 1 n)
  | b16 (n : Nat) (h : n < 65536) : BinHead n (0xc5 :: beEnc 2 n)
  | b32 (n : Nat) (h : n < 4294967296) : BinHead n (0xc6 :: beEnc 4 n)

inductive ArrHead : Nat → Bytes → Prop
  | fix (n : Nat) (h : n < 16) : ArrHead n [UInt8.ofNat (0x90 + n)]
  | a16 (n : Nat) (h : n < 65536) : ArrHead n (0xdc :: beEnc 2 n)
  | a32 (n : Nat) (h : n < 4294967296) : ArrHead n (0xdd :: beEnc 4 n)

inductive MapHead : Nat → Bytes → Prop
  | fix (n : Nat) (h : n < 16) : MapHead n [UInt8.ofNat (0x80 + n)]
  | m16 (n : Nat) (h : n < 65536) : MapHead n (0xde :: beEnc 2 n)
  | m32 (n : Nat) (h : n < 4294967296) : MapHead n (0xdf :: beEnc 4 n)

inductive ExtHead : Nat → Nat → Bytes → Prop
  | f1 (t : Nat) : ExtHead t 1 [0xd4, UInt8.ofNat t]
  | f2 (t : Nat) : ExtHead t 2 [0xd5, UInt8.ofNat t]
  | f4 (t : Nat) : ExtHead t 4 [0xd6, UInt8.ofNat t]
  | f8 (t : Nat) : ExtHead t 8 [0xd7, UInt8.ofNat t]
  | f16 (t : Nat) : ExtHead t 16 [0xd8, UInt8.ofNat t]
  | e8 (t n : Nat) (h : n < 256) : ExtHead t n (0xc7 :: beEnc 1 n ++ [UInt8.ofNat t])
  | e16 (t n : Nat) (h : n < 65536) : ExtHead t n (0xc8 :: beEnc 2 n ++ [UInt8.ofNat t])
  | e32 (t n : Nat) (h : n < 4294967296) : ExtHead t n (0xc9 :: beEnc 4 n ++ [UInt8.ofNat t])

mutual
  /-- the msgpack format, as a relation between values and byte strings -/
  def Encodes : MVal → Bytes → Prop
    | .nil, bs => bs = [0xc0]
    | .bool false, bs => bs = [0xc2]
    | .bool true, bs => bs = [0xc3]
    | .int i, bs => IntEnc i bs
    | .f64 b, bs => b < 18446744073709551616 ∧ bs = 0xcb :: beEnc 8 b
    | .f32 b, bs => b < 4294967296 ∧ bs = 0xca :: beEnc 4 b
    | .str p, bs => ∃ hd, StrHead p.length hd ∧ bs = hd ++ p
    | .bin p, bs => ∃ hd, BinHead p.length hd ∧ bs = hd ++ p
    | .ext t p, bs => t < 256 ∧ ∃ hd, ExtHead t p.length hd ∧ bs = hd ++ p
    | .arr xs, bs => ∃ hd body, ArrHead xs.length hd ∧ EncodesList xs body ∧ bs = hd ++ body
    | .map xs, bs => xs.length % 2 = 0 ∧ ∃ hd body, MapHead (xs.length / 2) hd ∧ EncodesList xs body ∧ bs = hd ++ body
  def EncodesList : List MVal → Bytes → Prop
    | [], bs => bs = []
    | x :: xs, bs => ∃ bx bxs, Encodes x bx ∧ EncodesList xs bxs ∧ bs = bx ++ bxs
end

theorem signed_twos (k : Nat) (i : Int) (hk : 0 < k) (hlo : -((256 ^ k / 2 : Nat) : Int) ≤ i)
    (hhi : i < ((256 ^ k / 2 : Nat) : Int)) : signed k (twos k i) = i := by
  unfold twos
  by_cases h0 : 0 ≤ i
  · rw [if_pos h0]
    unfold signed
    have : i.toNat < 256 ^ k / 2 := by omega
    rw [if_pos this]
    omega
  · rw [if_neg h0]
    exact signed_wrap k i hk hlo (by omega)

theorem twos_lt (k : Nat) (i : Int) (hlo : -((256 ^ k / 2 : Nat) : Int) ≤ i)
    (hhi : i < ((256 ^ k / 2 : Nat) : Int)) : twos k i < 256 ^ k := by
  unfold twos
  split <;> omega

theorem decStep_intEnc (self : Bytes → Res (MVal × Bytes)) (i : Int) (bs r : Bytes) (h : IntEnc i bs) :
    decStep self (bs ++ r) = .ok (.int i, r) := by
  cases h with
  | posfix n h => simp [decStep, u8 n (by omega), h]
  | negfix i h1 h2 =>
    have hb : (256 + i).toNat < 256 := by omega
    rw [List.cons_append, List.nil_append, decStep_negfix _ _ _ (by rw [u8 _ hb]; omega), u8 _ hb]
    have e : ((256 + i).toNat : Int) = 256 + i := Int.toNat_of_nonneg (by omega)
    rw [e]
    have e2 : 256 + i - 256 = i := by omega
    rw [e2]
  | u8 n h => simp [decStep, withNum_beEnc 1 n r _ (by omega)]
  | u16 n h => simp [decStep, withNum_beEnc 2 n r _ (by omega)]
  | u32 n h => simp [decStep, withNum_beEnc 4 n r _ (by omega)]
  | u64 n h => simp [decStep, withNum_beEnc 8 n r _ (by omega)]
  | i8 i h1 h2 =>
    have hs := signed_twos 1 i (by omega) (by simp; omega) (by simp; omega)
    have hl := twos_lt 1 i (by simp; omega) (by simp; omega)
    simp [decStep, withNum_beEnc 1 _ r _ hl, hs]
  | i16 i h1 h2 =>
    have hs := signed_twos 2 i (by omega) (by simp; omega) (by simp; omega)
    have hl := twos_lt 2 i (by simp; omega) (by simp; omega)
    simp [decStep, withNum_beEnc 2 _ r _ hl, hs]
  | i32 i h1 h2 =>
    have hs := signed_twos 4 i (by omega) (by simp; omega) (by simp; omega)
    have hl := twos_lt 4 i (by simp; omega) (by simp; omega)
    simp [decStep, withNum_beEnc 4 _ r _ hl, hs]
  | i64 i h1 h2 =>
    have hs := signed_twos 8 i (by omega) (by simp; omega) (by simp; omega)
    have hl := twos_lt 8 i (by simp; omega) (by simp; omega)
    simp [decStep, withNum_beEnc 8 _ r _ hl, hs]

theorem decStep_strHead (self : Bytes → Res (MVal × Bytes)) (p hd r : Bytes) (h : StrHead p.length hd) :
    decStep self (hd ++ p ++ r) = .ok (.str p, r) := by
  cases h with
  | fix h =>
    rw [List.append_assoc, List.cons_append, List.nil_append,
      decStep_fixstr _ _ _ (by rw [u8 _ (by omega)]; omega) (by rw [u8 _ (by omega)]; omega), u8 _ (by omega)]
    simp [payload_append]
  | s8 h => simp [decStep, withNum_beEnc 1 _ (p ++ r) _ (show p.length < 256 ^ 1 by omega), payload_append]
  | s16 h => simp [decStep, withNum_beEnc 2 _ (p ++ r) _ (show p.length < 256 ^ 2 by omega), payload_append]
  | s32 h => simp [decStep, withNum_beEnc 4 _ (p ++ r) _ (show p.length < 256 ^ 4 by omega), payload_append]

theorem decStep_binHead (self : Bytes → Res (MVal × Bytes)) (p hd r : Bytes) (h : BinHead p.length hd) :
    decStep self (hd ++ p ++ r) = .ok (.bin p, r) := by
  cases h with
  | b8 h => simp [decStep, withNum_beEnc 1 _ (p ++ r) _ (show p.length < 256 ^ 1 by omega), payload_append]
  | b16 h => simp [decStep, withNum_beEnc 2 _ (p ++ r) _ (show p.length < 256 ^ 2 by omega), payload_append]
  | b32 h => simp [decStep, withNum_beEnc 4 _ (p ++ r) _ (show p.length < 256 ^ 4 by omega), payload_append]

theorem decStep_extHead (self : Bytes → Res (MVal × Bytes)) (t : Nat) (p hd r : Bytes) (ht : t < 256)
    (h : ExtHead t p.length hd) : decStep self (hd ++ p ++ r) = .ok (.ext t p, r) := by
  generalize hn : p.length = n at h
  cases h with
  | f1 => have := decExt_append t p r ht; rw [hn] at this; simp [decStep, this]
  | f2 => have := decExt_append t p r ht; rw [hn] at this; simp [decStep, this]
  | f4 => have := decExt_append t p r ht; rw [hn] at this; simp [decStep, this]
  | f8 => have := decExt_append t p r ht; rw [hn] at this; simp [decStep, this]
  | f16 => have := decExt_append t p r ht; rw [hn] at this; simp [decStep, this]
  | e8 _ h =>
    subst hn
    simp [decStep, withNum_beEnc 1 _ _ _ (show p.length < 256 ^ 1 by omega), decExt_append t p r ht]
  | e16 _ h =>
    subst hn
    simp [decStep, withNum_beEnc 2 _ _ _ (show p.length < 256 ^ 2 by omega), decExt_append t p r ht]
  | e32 _ h =>
    subst hn
    simp [decStep, withNum_beEnc 4 _ _ _ (show p.length < 256 ^ 4 by omega), decExt_append t p r ht]

theorem decStep_arrHead (self : Bytes → Res (MVal × Bytes)) (xs : List MVal) (hd body r : Bytes)
    (hh : ArrHead xs.length hd) (h : decN self xs.length (body ++ r) = .ok (xs, r)) :
    decStep self (hd ++ body ++ r) = .ok (.arr xs, r) := by
  cases hh with
  | fix hn =>
    rw [List.append_assoc, List.cons_append, List.nil_append,
      decStep_fixarr _ _ _ (by rw [u8 _ (by omega)]; omega) (by rw [u8 _ (by omega)]; omega), u8 _ (by omega)]
    simp [decArr, h]
  | a16 hn => simp [decStep, withNum_beEnc 2 _ (body ++ r) _ (show xs.length < 256 ^ 2 by omega), decArr, h]
  | a32 hn => simp [decStep, withNum_beEnc 4 _ (body ++ r) _ (show xs.length < 256 ^ 4 by omega), decArr, h]

theorem decStep_mapHead (self : Bytes → Res (MVal × Bytes)) (xs : List MVal) (hd body r : Bytes)
    (he : xs.length % 2 = 0) (hh : MapHead (xs.length / 2) hd)
    (h : decN self xs.length (body ++ r) = .ok (xs, r)) :
    decStep self (hd ++ body ++ r) = .ok (.map xs, r) := by
  have h2 : 2 * (xs.length / 2) = xs.length := by omega
  generalize hn : xs.length / 2 = n at hh
  cases hh with
  | fix hlt =>
    rw [List.append_assoc, List.cons_append, List.nil_append,
      decStep_fixmap _ _ _ (by rw [u8 _ (by omega)]; omega) (by rw [u8 _ (by omega)]; omega), u8 _ (by omega)]
    have : 128 + n - 128 = n := by omega
    rw [this, ← hn]
    simp [decMap, h2, h]
  | m16 hlt =>
    rw [← hn] at hlt ⊢
    simp [decStep, withNum_beEnc 2 _ (body ++ r) _ (show xs.length / 2 < 256 ^ 2 by omega), decMap, h2, h]
  | m32 hlt =>
    rw [← hn] at hlt ⊢
    simp [decStep, withNum_beEnc 4 _ (body ++ r) _ (show xs.length / 2 < 256 ^ 4 by omega), decMap, h2, h]

mutual
/-- M2: any conforming encoding of `v`, followed by anything, decodes to `v` and leaves what follows untouched. -/
theorem dec_encodes (v : MVal) (bs : Bytes) (f : Nat) (r : Bytes) (he : Encodes v bs) (hf : depth v ≤ f) :
    dec f (bs ++ r) = .ok (v, r) := by
  match f, hf with
  | 0, hf => have := depth_pos v; omega
  | f + 1, hf =>
    show decStep (dec f) (bs ++ r) = .ok (v, r)
    match v, he, hf with
    | .nil, he, _ => simp only [Encodes] at he; subst he; simp [decStep]
    | .bool false, he, _ => simp only [Encodes] at he; subst he; simp [decStep]
    | .bool true, he, _ => simp only [Encodes] at he; subst he; simp [decStep]
    | .int i, he, _ => simp only [Encodes] at he; exact decStep_intEnc _ i bs r he
    | .f64 b, he, _ =>
      simp only [Encodes] at he
      obtain ⟨hb, rfl⟩ := he
      simp [decStep, withNum_beEnc 8 b r _ (show b < 256 ^ 8 by omega)]
    | .f32 b, he, _ =>
      simp only [Encodes] at he
      obtain ⟨hb, rfl⟩ := he
      simp [decStep, withNum_beEnc 4 b r _ (show b < 256 ^ 4 by omega)]
    | .str p, he, _ =>
      simp only [Encodes] at he
      obtain ⟨hd, hh, rfl⟩ := he
      exact decStep_strHead _ p hd r hh
    | .bin p, he, _ =>
      simp only [Encodes] at he
      obtain ⟨hd, hh, rfl⟩ := he
      exact decStep_binHead _ p hd r hh
    | .ext t p, he, _ =>
      simp only [Encodes] at he
      obtain ⟨ht, hd, hh, rfl⟩ := he
      exact decStep_extHead _ t p hd r ht hh
    | .arr xs, he, hf =>
      simp only [Encodes] at he
      obtain ⟨hd, body, hh, hl, rfl⟩ := he
      have hdp : depthList xs ≤ f := by simp [depth] at hf; omega
      exact decStep_arrHead _ xs hd body r hh (decN_encodesList xs body f r hl hdp)
    | .map xs, he, hf =>
      simp only [Encodes] at he
      obtain ⟨hev, hd, body, hh, hl, rfl⟩ := he
      have hdp : depthList xs ≤ f := by simp [depth] at hf; omega
      exact decStep_mapHead _ xs hd body r hev hh (decN_encodesList xs body f r hl hdp)
theorem decN_encodesList (xs : List MVal) (bs : Bytes) (f : Nat) (r : Bytes) (he : EncodesList xs bs)
    (hf : depthList xs ≤ f) : decN (dec f) xs.length (bs ++ r) = .ok (xs, r) := by
  match xs, he, hf with
  | [], he, _ => simp only [EncodesList] at he; subst he; simp [decN]
  | x :: xs, he, hf =>
    simp only [EncodesList] at he
    obtain ⟨bx, bxs, h1, h2, rfl⟩ := he
    have hx : depth x ≤ f := by simp [depthList] at hf; omega
    have hxs : depthList xs ≤ f := by simp [depthList] at hf; omega
    have e1 := dec_encodes x bx f (bxs ++ r) h1 hx
    have e2 := decN_encodesList xs bxs f r h2 hxs
    simp [decN, List.append_assoc, e1, e2]
end

theorem intEnc_length_pos (i : Int) (bs : Bytes) (h : IntEnc i bs) : 1 ≤ bs.length := by
  cases h <;> simp

mutual
theorem encodes_depth_le (v : MVal) (bs : Bytes) (he : Encodes v bs) : depth v ≤ bs.length := by
  match v, he with
  | .nil, he => simp only [Encodes] at he; subst he; simp [depth]
  | .bool false, he => simp only [Encodes] at he; subst he; simp [depth]
  | .bool true, he => simp only [Encodes] at he; subst he; simp [depth]
  | .int i, he => simp only [Encodes] at he; simp only [depth]; exact intEnc_length_pos i bs he
  | .f64 b, he => simp only [Encodes] at he; obtain ⟨_, rfl⟩ := he; simp [depth]
  | .f32 b, he => simp only [Encodes] at he; obtain ⟨_, rfl⟩ := he; simp [depth]
  | .str p, he =>
    simp only [Encodes] at he; obtain ⟨hd, hh, rfl⟩ := he
    have : 1 ≤ hd.length := by cases hh <;> simp
    simp only [depth, List.length_append]; omega
  | .bin p, he =>
    simp only [Encodes] at he; obtain ⟨hd, hh, rfl⟩ := he
    have : 1 ≤ hd.length := by cases hh <;> simp
    simp only [depth, List.length_append]; omega
  | .ext t p, he =>
    simp only [Encodes] at he; obtain ⟨_, hd, hh, rfl⟩ := he
    have : 1 ≤ hd.length := by generalize p.length = n at hh; cases hh <;> simp
    simp only [depth, List.length_append]; omega
  | .arr xs, he =>
    simp only [Encodes] at he; obtain ⟨hd, body, hh, hl, rfl⟩ := he
    have : 1 ≤ hd.length := by cases hh <;> simp
    have := encodesList_depth_le xs body hl
    simp only [depth, List.length_append]; omega
  | .map xs, he =>
    simp only [Encodes] at he; obtain ⟨_, hd, body, hh, hl, rfl⟩ := he
    have : 1 ≤ hd.length := by cases hh <;> simp
    have := encodesList_depth_le xs body hl
    simp only [depth, List.length_append]; omega
theorem encodesList_depth_le (xs : List MVal) (bs : Bytes) (he : EncodesList xs bs) : depthList xs ≤ bs.length := by
  match xs, he with
  | [], he => simp [depthList]
  | x :: xs, he =>
    simp only [EncodesList] at he
    obtain ⟨bx, bxs, h1, h2, rfl⟩ := he
    have := encodes_depth_le x bx h1
    have := encodesList_depth_le xs bxs h2
    simp only [depthList, List.length_append]; omega
end

/-- M2 at the document level: `unpackb` of any conforming encoding of `v` is `v`. -/
theorem decode_encodes (v : MVal) (bs : Bytes) (he : Encodes v bs) : decode bs = .ok v := by
  unfold decode
  have h := dec_encodes v bs (bs.length + 1) [] he (by have := encodes_depth_le v bs he; omega)
  rw [List.append_nil] at h
  rw [h]

theorem intEnc_encInt (i : Int) (h1 : -9223372036854775808 ≤ i) (h2 : i < 18446744073709551616) :
    IntEnc i (encInt i) := by
  unfold encInt
  by_cases h0 : 0 ≤ i
  · obtain ⟨n, rfl⟩ := Int.eq_ofNat_of_zero_le h0
    simp only [Int.toNat_natCast, Int.natCast_nonneg, if_true]
    split
    · exact .posfix n (by omega)
    · split
      · exact .u8 n (by omega)
      · split
        · exact .u16 n (by omega)
        · split
          · exact .u32 n (by omega)
          · exact .u64 n (by omega)
  · rw [if_neg h0]
    split
    · exact .negfix i (by omega) (by omega)
    · split
      · have := IntEnc.i8 i (by omega) (by omega)
        simpa [twos, h0] using this
      · split
        · have := IntEnc.i16 i (by omega) (by omega)
          simpa [twos, h0] using this
        · split
          · have := IntEnc.i32 i (by omega) (by omega)
            simpa [twos, h0] using this
          · have := IntEnc.i64 i (by omega) (by omega)
            simpa [twos, h0] using this

theorem strHead_ok (n : Nat) (h : n < 4294967296) : StrHead n (strHead n) := by
  unfold strHead
  split
  · exact .fix n (by omega)
  · split
    · exact .s8 n (by omega)
    · split
      · exact .s16 n (by omega)
      · exact .s32 n h

theorem binHead_ok (n : Nat) (h : n < 4294967296) : BinHead n (binHead n) := by
  unfold binHead
  split
  · exact .b8 n (by omega)
  · split
    · exact .b16 n (by omega)
    · exact .b32 n h

theorem arrHead_ok (n : Nat) (h : n < 4294967296) : ArrHead n (arrHead n) := by
  unfold arrHead
  split
  · exact .fix n (by omega)
  · split
    · exact .a16 n (by omega)
    · exact .a32 n h

theorem mapHead_ok (n : Nat) (h : n < 4294967296) : MapHead n (mapHead n) := by
  unfold mapHead
  split
  · exact .fix n (by omega)
  · split
    · exact .m16 n (by omega)
    · exact .m32 n h

theorem extHead_ok (t n : Nat) (h : n < 4294967296) : ExtHead t n (extHead t n) := by
  unfold extHead
  split
  · rename_i h1; subst h1; exact .f1 t
  · split
    · rename_i h1; subst h1; exact .f2 t
    · split
      · rename_i h1; subst h1; exact .f4 t
      · split
        · rename_i h1; subst h1; exact .f8 t
        · split
          · rename_i h1; subst h1; exact .f16 t
          · split
            · exact .e8 t n (by omega)
            · split
              · exact .e16 t n (by omega)
              · exact .e32 t n h

mutual
/-- M3: what the packer emits is one of the conforming encodings. -/
theorem encodes_enc (v : MVal) (hw : WF v) : Encodes v (enc v) := by
  match v, hw with
  | .nil, _ => simp [Encodes, enc]
  | .bool false, _ => simp [Encodes, enc]
  | .bool true, _ => simp [Encodes, enc]
  | .int i, hw => simp only [Encodes, enc]; exact intEnc_encInt i hw.1 hw.2
  | .f64 b, hw => simpa [Encodes, enc, WF] using hw
  | .f32 b, hw => simpa [Encodes, enc, WF] using hw
  | .str p, hw => simp only [Encodes, enc]; exact ⟨_, strHead_ok p.length hw, rfl⟩
  | .bin p, hw => simp only [Encodes, enc]; exact ⟨_, binHead_ok p.length hw, rfl⟩
  | .ext t p, hw => simp only [Encodes, enc]; exact ⟨hw.1, _, extHead_ok t p.length hw.2, rfl⟩
  | .arr xs, hw =>
    simp only [Encodes, enc]
    exact ⟨_, _, arrHead_ok xs.length hw.1, encodesList_encList xs hw.2, rfl⟩
  | .map xs, hw =>
    simp only [Encodes, enc]
    exact ⟨hw.1, _, _, mapHead_ok (xs.length / 2) hw.2.1, encodesList_encList xs hw.2.2, rfl⟩
theorem encodesList_encList (xs : List MVal) (hw : WFList xs) : EncodesList xs (encList xs) := by
  match xs, hw with
  | [], _ => simp [EncodesList, encList]
  | x :: xs, hw =>
    simp only [EncodesList, encList]
    exact ⟨_, _, encodes_enc x hw.1, encodesList_encList xs hw.2, rfl⟩
end

end FlowRecord.Msgpack
