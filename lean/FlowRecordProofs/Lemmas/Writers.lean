import FlowRecord.Model.Writers
/-!
Helper lemmas for C17 (writer lifecycles, split, template rotation). Core Lean only.
-/
namespace FlowRecord.Writers

variable {R : Type}

@[simp] theorem flag_exit : Gen.exitFlushesThenCloses = true := by decide

/-! ### lifecycle -/

def writesIn : List (Op R) → List R
  | [] => []
  | .write r :: ops => r :: writesIn ops
  | _ :: ops => writesIn ops

theorem writesIn_append (a b : List (Op R)) : writesIn (a ++ b) = writesIn a ++ writesIn b := by
  induction a with
  | nil => rfl
  | cons op a ih => cases op <;> simp [writesIn, ih]

theorem step_closed (F : Flags) (s : Life R) (op : Op R) (h : s.isOpen = false) : (step F s op).1 = s := by
  cases op <;> simp [step, doWrite, doFlush, doClose, doExit, doBad, h]
  cases F.flushAfterCloseRaises <;> simp [h]

theorem run_closed (F : Flags) (ops : List (Op R)) : ∀ s : Life R, s.isOpen = false → run F s ops = s := by
  induction ops with
  | nil => intro s _; rfl
  | cons op ops ih =>
    intro s h
    simp only [run, List.foldl_cons]
    rw [step_closed F s op h]
    exact ih s h

theorem run_cons (F : Flags) (s : Life R) (op : Op R) (ops : List (Op R)) :
    run F s (op :: ops) = run F (step F s op).1 ops := rfl

theorem run_append (F : Flags) (s : Life R) (a b : List (Op R)) : run F s (a ++ b) = run F (run F s a) b := by
  simp [run, List.foldl_append]

/-- the invariant of an open, unpoisoned writer: everything written is in `disk ++ buffer`, in order -/
structure Healthy (F : Flags) (s : Life R) (ws : List R) : Prop where
  isOpen : s.isOpen = true
  clean : s.poisoned = false
  holds : s.disk ++ s.buffer = ws.map Stored.full
  direct : F.writeBuffers = false → s.buffer = []

theorem healthy_write (F : Flags) (s : Life R) (ws : List R) (r : R) (h : Healthy F s ws) :
    Healthy F (doWrite F s r).1 (ws ++ [r]) ∧ (doWrite F s r).1.started = true ∧ (doWrite F s r).2 = .ok := by
  obtain ⟨ho, hc, hh, hd⟩ := h
  cases hb : F.writeBuffers with
  | true =>
    refine ⟨⟨?_, ?_, ?_, ?_⟩, ?_, ?_⟩ <;> simp [doWrite, ho, hc, hb]
    rw [← List.append_assoc, hh]
  | false =>
    have hbuf := hd hb
    refine ⟨⟨?_, ?_, ?_, ?_⟩, ?_, ?_⟩ <;> simp [doWrite, ho, hc, hb, hbuf]
    rw [hbuf, List.append_nil] at hh
    rw [hh]

theorem healthy_flush (F : Flags) (s : Life R) (ws : List R) (h : Healthy F s ws)
    (hp : F.headerOnlyFlushPoisons = false ∨ s.started = true) :
    Healthy F (doFlush F s).1 ws ∧ (doFlush F s).1.started = s.started ∧ (doFlush F s).2 = .ok := by
  obtain ⟨ho, hc, hh, hd⟩ := h
  have hnp : (F.headerOnlyFlushPoisons && !s.started) = false := by
    rcases hp with h | h <;> simp [h]
  refine ⟨⟨?_, ?_, ?_, ?_⟩, ?_, ?_⟩ <;> simp [doFlush, ho, hnp, Life.drain, hc]
  simpa using hh

theorem healthy_bad (F : Flags) (s : Life R) (ws : List R) (c : Bool) (h : Healthy F s ws) :
    Healthy F (doBad F s c).1 ws ∧ (doBad F s c).1.started = s.started := by
  obtain ⟨ho, hc, hh, hd⟩ := h
  cases c with
  | false => refine ⟨⟨?_, ?_, ?_, ?_⟩, ?_⟩ <;> simp [doBad, ho, hc, hh] <;> exact hd
  | true => refine ⟨⟨?_, ?_, ?_, ?_⟩, ?_⟩ <;> simp [doBad, ho, hc, Life.drain, hh]

/-- a run of writes and flushes keeps the writer healthy -/
theorem healthy_run (F : Flags) (pre : List (Op R)) : ∀ (s : Life R) (ws : List R), Healthy F s ws →
    (∀ op ∈ pre, isClosing op = false) →
    (F.headerOnlyFlushPoisons = false ∨ s.started = true ∨ flushBeforeFirstWrite pre = false) →
    Healthy F (run F s pre) (ws ++ writesIn pre) := by
  induction pre with
  | nil => intro s ws h _ _; simpa [run, writesIn] using h
  | cons op pre ih =>
    intro s ws h hnc hp
    have hnc' : ∀ op ∈ pre, isClosing op = false := fun o ho => hnc o (List.mem_cons_of_mem _ ho)
    cases op with
    | write r =>
      obtain ⟨h1, hs1, _⟩ := healthy_write F s ws r h
      have := ih (doWrite F s r).1 (ws ++ [r]) h1 hnc' (Or.inr (Or.inl hs1))
      simpa [run_cons, step, writesIn, List.append_assoc] using this
    | flush =>
      have hp' : F.headerOnlyFlushPoisons = false ∨ s.started = true := by
        rcases hp with h | h | h
        · exact Or.inl h
        · exact Or.inr h
        · simp [flushBeforeFirstWrite] at h
      obtain ⟨h1, hs1, _⟩ := healthy_flush F s ws h hp'
      have hp1 : F.headerOnlyFlushPoisons = false ∨ (doFlush F s).1.started = true ∨ flushBeforeFirstWrite pre = false := by
        rcases hp' with h | h
        · exact Or.inl h
        · exact Or.inr (Or.inl (by rw [hs1]; exact h))
      have := ih (doFlush F s).1 ws h1 hnc' hp1
      simpa [run_cons, step, writesIn] using this
    | close => have := hnc .close List.mem_cons_self; simp [isClosing] at this
    | exit => have := hnc .exit List.mem_cons_self; simp [isClosing] at this
    | bad c =>
      obtain ⟨h1, hs1⟩ := healthy_bad F s ws c h
      have hp1 : F.headerOnlyFlushPoisons = false ∨ (doBad F s c).1.started = true ∨ flushBeforeFirstWrite pre = false := by
        rcases hp with h | h | h
        · exact Or.inl h
        · exact Or.inr (Or.inl (by rw [hs1]; exact h))
        · exact Or.inr (Or.inr (by simpa [flushBeforeFirstWrite] using h))
      have := ih (doBad F s c).1 ws h1 hnc' hp1
      simpa [run_cons, step, writesIn] using this

/-- closing a healthy writer whose `close` flushes (or that has no buffer of its own) puts everything on disk -/
theorem healthy_closing (F : Flags) (s : Life R) (ws : List R) (cl : Op R) (h : Healthy F s ws)
    (hcl : isClosing cl = true) (hF : F.closeFlushes = true ∨ F.writeBuffers = false) :
    (step F s cl).1.disk = ws.map Stored.full ∧ (step F s cl).1.buffer = [] ∧ (step F s cl).1.isOpen = false := by
  obtain ⟨ho, hc, hh, hd⟩ := h
  have key : ∀ s' : Life R, s'.isOpen = true → s'.disk ++ s'.buffer = ws.map Stored.full →
      (F.writeBuffers = false → s'.buffer = []) →
      (doClose F s').1.disk = ws.map Stored.full ∧ (doClose F s').1.buffer = [] ∧ (doClose F s').1.isOpen = false := by
    intro s' ho' hh' hd'
    cases hcf : F.closeFlushes with
    | true => simp [doClose, ho', hcf, Life.drain, hh']
    | false =>
      have hb : F.writeBuffers = false := by rcases hF with h | h; rw [hcf] at h; cases h; exact h
      have hbuf := hd' hb
      rw [hbuf, List.append_nil] at hh'
      simp [doClose, ho', hcf, hh']
  cases cl with
  | write r => simp [isClosing] at hcl
  | flush => simp [isClosing] at hcl
  | bad c => simp [isClosing] at hcl
  | close => exact key s ho hh hd
  | exit =>
    have hfl : (doFlush F s).2 = .ok := by simp [doFlush, ho]
    have hst : step F s .exit = doClose F (doFlush F s).1 := by
      simp only [step, doExit, flag_exit, if_true]
      generalize hr : doFlush F s = r at hfl
      obtain ⟨s1, o⟩ := r
      simp only at hfl
      subst hfl
      rfl
    rw [hst]
    apply key
    · simp [doFlush, ho]; split <;> simp [Life.drain, ho]
    · have : (doFlush F s).1.disk ++ (doFlush F s).1.buffer = s.disk ++ s.buffer := by
        simp [doFlush, ho]; split <;> simp [Life.drain]
      rw [this]; exact hh
    · intro _; simp [doFlush, ho]; split <;> simp [Life.drain]

/-- the header, once on disk, stays -/
theorem header_mono (F : Flags) (s : Life R) (op : Op R) (h : s.headerOnDisk = true) :
    (step F s op).1.headerOnDisk = true := by
  cases op with
  | write r =>
    simp only [step, doWrite]
    split
    · exact h
    · split
      · exact h
      · split <;> simp [h]
  | bad c =>
    simp only [step, doBad]
    split
    · exact h
    · simp [h]
  | flush =>
    simp only [step, doFlush]
    split
    · exact h
    · split <;> simp [h, Life.drain]
  | close =>
    simp only [step, doClose]
    split
    · exact h
    · split <;> simp [h, Life.drain]
  | exit =>
    have hf : (doFlush F s).1.headerOnDisk = true := by
      simp only [doFlush]
      split
      · exact h
      · split <;> simp [h, Life.drain]
    have hc : ∀ s' : Life R, s'.headerOnDisk = true → (doClose F s').1.headerOnDisk = true := by
      intro s' h'
      simp only [doClose]
      split
      · exact h'
      · split <;> simp [h', Life.drain]
    simp only [step, doExit, flag_exit, if_true]
    generalize hr : doFlush F s = r at hf
    obtain ⟨s1, o⟩ := r
    cases o with
    | ok => exact hc s1 hf
    | raised => exact hf

theorem header_mono_run (F : Flags) (ops : List (Op R)) : ∀ s : Life R, s.headerOnDisk = true →
    (run F s ops).headerOnDisk = true := by
  induction ops with
  | nil => intro s h; exact h
  | cons op ops ih => intro s h; exact ih _ (header_mono F s op h)

/-! ### decimal names: `str(n).rjust(width, "0")` determines `n` -/

def charVal (c : Char) : Nat := c.toNat - 48

/-- value of a digit list, most significant first -/
def valueOf (xs : List Nat) : Nat := xs.foldl (fun a d => a * 10 + d) 0

theorem charVal_digitChar : ∀ d < 10, charVal (digitChar d) = d := by decide

theorem digitsAux_value : ∀ (fuel n : Nat) (acc : List Nat), n < fuel →
    (digitsAux fuel n acc).foldl (fun a d => a * 10 + d) 0 = acc.foldl (fun a d => a * 10 + d) n := by
  intro fuel
  induction fuel with
  | zero => intro n acc h; omega
  | succ fuel ih =>
    intro n acc h
    unfold digitsAux
    split
    · simp
    · rename_i hn
      rw [ih (n / 10) (n % 10 :: acc) (by omega)]
      simp only [List.foldl_cons]
      congr 1
      omega

theorem valueOf_digits (n : Nat) : valueOf (digits n) = n := by
  simp [valueOf, digits, digitsAux_value (n + 1) n [] (by omega)]

theorem digitsAux_lt : ∀ (fuel n : Nat) (acc : List Nat), (∀ d ∈ acc, d < 10) → ∀ d ∈ digitsAux fuel n acc, d < 10 := by
  intro fuel
  induction fuel with
  | zero => intro n acc h d hd; exact h d (by simpa [digitsAux] using hd)
  | succ fuel ih =>
    intro n acc h d hd
    unfold digitsAux at hd
    split at hd
    · rename_i hn
      rcases List.mem_cons.mp hd with rfl | hd
      · exact hn
      · exact h d hd
    · apply ih (n / 10) (n % 10 :: acc) _ d hd
      intro d' hd'
      rcases List.mem_cons.mp hd' with rfl | hd'
      · omega
      · exact h d' hd'

theorem digits_lt (n : Nat) : ∀ d ∈ digits n, d < 10 := digitsAux_lt (n + 1) n [] (by intro d hd; cases hd)

theorem valueOf_zeros (k : Nat) (xs : List Nat) : valueOf (List.replicate k 0 ++ xs) = valueOf xs := by
  induction k with
  | zero => simp
  | succ k ih =>
    simp only [List.replicate_succ, List.cons_append]
    simp only [valueOf, List.foldl_cons] at ih ⊢
    simpa using ih

/-- reading a padded decimal name back -/
def decodeName (cs : Name) : Nat := valueOf (cs.map charVal)

theorem decode_rjust (n width : Nat) : decodeName (rjust (natStr n) width '0') = n := by
  have h0 : charVal '0' = 0 := by decide
  have hmap : (natStr n).map charVal = digits n := by
    simp only [natStr, List.map_map]
    conv => rhs; rw [← List.map_id (digits n)]
    apply List.map_congr_left
    intro d hd
    exact charVal_digitChar d (digits_lt n d hd)
  simp only [decodeName, rjust, List.map_append, List.map_replicate, h0, hmap]
  rw [valueOf_zeros, valueOf_digits]

theorem rjust_natStr_injective (width i j : Nat) (h : rjust (natStr i) width '0' = rjust (natStr j) width '0') :
    i = j := by
  have := congrArg decodeName h
  rwa [decode_rjust, decode_rjust] at this

theorem natStr_injective (i j : Nat) (h : natStr i = natStr j) : i = j := by
  have := rjust_natStr_injective 0 i j (by simp [rjust, h])
  exact this

/-- part names are pairwise distinct: the index can be read back from the name -/
theorem partName_injective (name : Name) (suffixLen i j : Nat)
    (h : partName name suffixLen i = partName name suffixLen j) : i = j := by
  simp only [partName] at h
  have h1 := List.append_cancel_right h
  have h2 := List.append_cancel_left h1
  exact rjust_natStr_injective suffixLen i j h2

/-! ### split -/

@[simp] theorem flag_split_test : splitShapeOk = true := by decide

def stored (w : Life R) : List (Stored R) := w.disk ++ w.buffer

theorem stored_doFlush (F : Flags) (w : Life R) : stored (doFlush F w).1 = stored w := by
  simp only [stored, doFlush]
  split
  · rfl
  · split <;> simp [Life.drain]

theorem stored_doClose_le (F : Flags) (w : Life R) : (stored (doClose F w).1).length ≤ (stored w).length := by
  simp only [stored, doClose]
  split
  · exact Nat.le_refl _
  · split <;> simp [Life.drain]

theorem stored_doWrite (F : Flags) (w : Life R) (r : R) :
    ((doWrite F w r).2 = .raised → stored (doWrite F w r).1 = stored w) ∧
    ((doWrite F w r).2 = .ok → (stored (doWrite F w r).1).length = (stored w).length + 1) := by
  simp only [stored, doWrite]
  split
  · simp
  · split
    · simp
    · split <;> simp <;> omega

theorem stored_doBad (F : Flags) (w : Life R) (c : Bool) : stored (doBad F w c).1 = stored w := by
  simp only [stored, doBad]
  split
  · rfl
  · cases c <;> simp [Life.drain]

/-- every part holds at most `limit` records; the open part holds fewer -/
structure SplitBounded (s : Split R) : Prop where
  done : ∀ p ∈ s.done, (stored p.2).length ≤ s.limit
  cur : ∀ p, s.cur = some p → (stored p.2).length ≤ s.written ∧ s.written < s.limit

theorem splitStep_limit (F : Flags) (s : Split R) (op : Op R) : (splitStep F s op).1.limit = s.limit := by
  cases hcur : s.cur with
  | none => cases op <;> simp [splitStep, hcur]
  | some p =>
    obtain ⟨i, w⟩ := p
    cases op with
    | flush => simp [splitStep, hcur]
    | close => simp [splitStep, hcur]
    | exit => simp [splitStep, hcur]
    | bad c => simp [splitStep, hcur]
    | write r =>
      simp only [splitStep, hcur]
      generalize doWrite F w r = res
      obtain ⟨w1, o⟩ := res
      cases o with
      | raised => rfl
      | ok => simp only; split <;> rfl

theorem splitBounded_step (F : Flags) (s : Split R) (op : Op R) (h : SplitBounded s) :
    SplitBounded (splitStep F s op).1 := by
  obtain ⟨hd, hc⟩ := h
  cases hcur : s.cur with
  | none => cases op <;> simp [splitStep, hcur] <;> exact ⟨hd, by intro p hp; rw [hcur] at hp; cases hp⟩
  | some p =>
    obtain ⟨i, w⟩ := p
    obtain ⟨hlen, hlt⟩ := hc (i, w) hcur
    simp only at hlen
    cases op with
    | flush =>
      simp only [splitStep, hcur]
      refine ⟨hd, ?_⟩
      intro p hp
      simp only [Option.some.injEq] at hp
      subst hp
      simp only [stored_doFlush]
      exact ⟨hlen, hlt⟩
    | bad c =>
      simp only [splitStep, hcur]
      refine ⟨hd, ?_⟩
      intro p hp
      simp only [Option.some.injEq] at hp
      subst hp
      simp only [stored_doBad]
      exact ⟨hlen, hlt⟩
    | close =>
      simp only [splitStep, hcur]
      refine ⟨?_, by intro p hp; cases hp⟩
      intro p hp
      rcases List.mem_append.mp hp with hp | hp
      · exact hd p hp
      · simp only [List.mem_singleton] at hp
        subst hp
        have := stored_doClose_le F w
        simp only; omega
    | exit =>
      simp only [splitStep, hcur]
      refine ⟨?_, by intro p hp; cases hp⟩
      intro p hp
      rcases List.mem_append.mp hp with hp | hp
      · exact hd p hp
      · simp only [List.mem_singleton] at hp
        subst hp
        have := stored_doClose_le F (doFlush F w).1
        rw [stored_doFlush] at this
        simp only; omega
    | write r =>
      obtain ⟨hr, hk⟩ := stored_doWrite F w r
      simp only [splitStep, hcur]
      generalize hres : doWrite F w r = res at hr hk
      obtain ⟨w1, o⟩ := res
      cases o with
      | raised =>
        simp only
        refine ⟨hd, ?_⟩
        intro p hp
        simp only [Option.some.injEq] at hp
        subst hp
        have hr' : stored w1 = stored w := hr rfl
        simp only [hr']
        exact ⟨hlen, hlt⟩
      | ok =>
        have hk' : (stored w1).length = (stored w).length + 1 := hk rfl
        simp only [flag_split_test, Bool.and_true]
        by_cases hge : s.written + 1 ≥ s.limit
        · simp only [hge, decide_true, if_true]
          refine ⟨?_, ?_⟩
          · intro p hp
            rcases List.mem_append.mp hp with hp | hp
            · exact hd p hp
            · simp only [List.mem_singleton] at hp
              subst hp
              have := stored_doClose_le F (doFlush F w1).1
              rw [stored_doFlush] at this
              simp only; omega
          · intro p hp
            simp only [Option.some.injEq] at hp
            subst hp
            simp [stored, Life.init]
            omega
        · simp only [hge, decide_false, Bool.false_eq_true, if_false]
          refine ⟨hd, ?_⟩
          intro p hp
          simp only [Option.some.injEq] at hp
          subst hp
          simp only
          omega

theorem splitRun_cons (F : Flags) (s : Split R) (op : Op R) (ops : List (Op R)) :
    splitRun F s (op :: ops) = splitRun F (splitStep F s op).1 ops := rfl

theorem splitBounded_run (F : Flags) (ops : List (Op R)) : ∀ s : Split R, SplitBounded s →
    SplitBounded (splitRun F s ops) ∧ (splitRun F s ops).limit = s.limit := by
  induction ops with
  | nil => intro s h; exact ⟨h, rfl⟩
  | cons op ops ih =>
    intro s h
    have h1 := splitBounded_step F s op h
    obtain ⟨h2, hl2⟩ := ih _ h1
    exact ⟨h2, hl2.trans (splitStep_limit F s op)⟩

/-- the indices used for the part names are 0, 1, 2, … in order -/
theorem split_indices_step (F : Flags) (s : Split R) (op : Op R)
    (h : s.parts.map (·.1) = List.range s.parts.length) (hfc : s.cur.isSome = true → s.fileCount = s.parts.length) :
    (splitStep F s op).1.parts.map (·.1) = List.range (splitStep F s op).1.parts.length ∧
    ((splitStep F s op).1.cur.isSome = true → (splitStep F s op).1.fileCount = (splitStep F s op).1.parts.length) := by
  cases hcur : s.cur with
  | none =>
    have hp : s.parts = s.done := by simp [Split.parts, hcur]
    cases op <;> simp [splitStep, hcur, Split.parts] <;> simpa [hp] using h
  | some p =>
    obtain ⟨i, w⟩ := p
    have hp : s.parts = s.done ++ [(i, w)] := by simp [Split.parts, hcur]
    have hfc' := hfc (by simp [hcur])
    rw [hp] at h hfc'
    simp only [List.map_append, List.map_cons, List.map_nil, List.length_append, List.length_cons,
      List.length_nil] at h hfc'
    cases op with
    | flush => simp only [splitStep, hcur, Split.parts]; simpa using ⟨h, hfc'⟩
    | bad c => simp only [splitStep, hcur, Split.parts]; simpa using ⟨h, hfc'⟩
    | close => simp only [splitStep, hcur, Split.parts]; simpa using h
    | exit => simp only [splitStep, hcur, Split.parts]; simpa using h
    | write r =>
      simp only [splitStep, hcur]
      generalize doWrite F w r = res
      obtain ⟨w1, o⟩ := res
      cases o with
      | raised => simp only [Split.parts]; simpa using ⟨h, hfc'⟩
      | ok =>
        simp only
        split
        · simp only [Split.parts, List.map_append, List.map_cons, List.map_nil, List.length_append,
            List.length_cons, List.length_nil]
          refine ⟨?_, fun _ => by omega⟩
          rw [List.range_succ, ← h, hfc']
        · simp only [Split.parts]; simpa using ⟨h, hfc'⟩

theorem split_indices_run (F : Flags) (ops : List (Op R)) : ∀ s : Split R,
    s.parts.map (·.1) = List.range s.parts.length → (s.cur.isSome = true → s.fileCount = s.parts.length) →
    (splitRun F s ops).parts.map (·.1) = List.range (splitRun F s ops).parts.length := by
  induction ops with
  | nil => intro s h _; exact h
  | cons op ops ih =>
    intro s h hfc
    obtain ⟨h1, h2⟩ := split_indices_step F s op h hfc
    exact ih _ h1 h2

/-! ### split: nothing lost, nothing twice -/

theorem exit_open (F : Flags) (w : Life R) (ho : w.isOpen = true) : step F w .exit = doClose F (doFlush F w).1 := by
  have hfl : (doFlush F w).2 = .ok := by simp [doFlush, ho]
  simp only [step, doExit, flag_exit, if_true]
  generalize hr : doFlush F w = r at hfl
  obtain ⟨s1, o⟩ := r
  simp only at hfl
  subst hfl
  rfl

theorem healthy_init (F : Flags) : Healthy F (Life.init : Life R) [] :=
  ⟨rfl, rfl, rfl, fun _ => rfl⟩

/-- closed parts hold `wsDone`, the open part holds `wsCur` -/
def SplitHealthy (F : Flags) (s : Split R) (ws : List R) : Prop :=
  ∃ wsDone wsCur, ws = wsDone ++ wsCur ∧ s.done.flatMap (fun p => p.2.disk) = wsDone.map Stored.full ∧
    match s.cur with
    | some p => Healthy F p.2 wsCur
    | none => wsCur = []

theorem splitHealthy_write (F : Flags) (s : Split R) (ws : List R) (r : R) (h : SplitHealthy F s ws)
    (hc : s.cur.isSome = true) (hF : F.closeFlushes = true ∨ F.writeBuffers = false) :
    SplitHealthy F (splitStep F s (.write r)).1 (ws ++ [r]) ∧ (splitStep F s (.write r)).1.cur.isSome = true := by
  obtain ⟨wsDone, wsCur, hws, hdone, hcur⟩ := h
  cases hcur' : s.cur with
  | none => rw [hcur'] at hc; cases hc
  | some p =>
    obtain ⟨i, w⟩ := p
    rw [hcur'] at hcur
    simp only at hcur
    obtain ⟨h1, hs1, hok⟩ := healthy_write F w wsCur r hcur
    simp only [splitStep, hcur']
    generalize hres : doWrite F w r = res at h1 hs1 hok
    obtain ⟨w1, o⟩ := res
    simp only at hok h1 hs1
    subst hok
    simp only [flag_split_test, Bool.and_true]
    split
    · -- the part is full: flush, close, open the next one
      have hcl := healthy_closing F w1 (wsCur ++ [r]) .exit h1 rfl hF
      rw [exit_open F w1 h1.isOpen] at hcl
      refine ⟨⟨wsDone ++ (wsCur ++ [r]), [], ?_, ?_, ?_⟩, rfl⟩
      · simp [hws, List.append_assoc]
      · simp only [List.flatMap_append, List.flatMap_cons, List.flatMap_nil, List.append_nil, List.map_append,
          hdone, hcl.1]
      · exact healthy_init F
    · refine ⟨⟨wsDone, wsCur ++ [r], ?_, hdone, ?_⟩, rfl⟩
      · simp [hws, List.append_assoc]
      · exact h1

theorem splitHealthy_writes (F : Flags) (hF : F.closeFlushes = true ∨ F.writeBuffers = false) (rs : List R) :
    ∀ (s : Split R) (ws : List R), SplitHealthy F s ws → s.cur.isSome = true →
      SplitHealthy F (splitRun F s (rs.map Op.write)) (ws ++ rs) ∧
      (splitRun F s (rs.map Op.write)).cur.isSome = true := by
  induction rs with
  | nil => intro s ws h hc; simpa [splitRun] using ⟨h, hc⟩
  | cons r rs ih =>
    intro s ws h hc
    obtain ⟨h1, hc1⟩ := splitHealthy_write F s ws r h hc hF
    have := ih _ _ h1 hc1
    simpa [splitRun_cons, List.append_assoc] using this

theorem splitHealthy_closing (F : Flags) (s : Split R) (ws : List R) (cl : Op R) (h : SplitHealthy F s ws)
    (hcl : isClosing cl = true) (hF : F.closeFlushes = true ∨ F.writeBuffers = false) :
    (splitStep F s cl).1.cur = none ∧
    (splitStep F s cl).1.done.flatMap (fun p => p.2.disk) = ws.map Stored.full := by
  obtain ⟨wsDone, wsCur, hws, hdone, hcur⟩ := h
  cases hcur' : s.cur with
  | none =>
    rw [hcur'] at hcur
    simp only at hcur
    subst hcur
    cases cl <;> simp [isClosing] at hcl <;> simp [splitStep, hcur', hdone, hws]
  | some p =>
    obtain ⟨i, w⟩ := p
    rw [hcur'] at hcur
    simp only at hcur
    have hc := healthy_closing F w wsCur cl hcur hcl hF
    cases cl with
    | write r => simp [isClosing] at hcl
    | flush => simp [isClosing] at hcl
    | bad c => simp [isClosing] at hcl
    | close =>
      simp only [step] at hc
      simp [splitStep, hcur', hdone, hws, hc.1]
    | exit =>
      rw [exit_open F w hcur.isOpen] at hc
      simp [splitStep, hcur', hdone, hws, hc.1]

/-! ### raw concatenation of stream parts -/

variable {D : Type} [DecidableEq D]

theorem read_emitRecords (rest : List (Frame D R)) (out : List (D × R))
    (hrest : ∀ known : List D, readFrames known rest = some out) :
    ∀ (recs : List (D × R)) (known0 known : List D), (∀ d, known0.contains d = true → known.contains d = true) →
      readFrames known (emitRecords known0 recs ++ rest) = some (recs ++ out) := by
  intro recs
  induction recs with
  | nil => intro known0 known _; simpa [emitRecords] using hrest known
  | cons p recs ih =>
    intro known0 known hsub
    obtain ⟨d, r⟩ := p
    by_cases hk : known0.contains d = true
    · have hk' := hsub d hk
      simp only [emitRecords, hk, if_true, List.cons_append, readFrames, hk']
      rw [ih known0 known hsub]
      rfl
    · have hk0 : known0.contains d = false := by simpa using hk
      simp only [emitRecords, hk0, Bool.false_eq_true, if_false, List.cons_append, readFrames]
      have hin : (d :: known).contains d = true := by simp
      simp only [hin, if_true]
      rw [ih (d :: known0) (d :: known) (by
        intro d' hd'
        simp only [List.contains_cons, Bool.or_eq_true] at hd' ⊢
        rcases hd' with h | h
        · exact Or.inl h
        · exact Or.inr (hsub d' h))]
      rfl

theorem read_parts (parts : List (List (D × R))) :
    ∀ known : List D, readFrames known (parts.flatMap emitPart) = some parts.flatten := by
  induction parts with
  | nil => intro known; rfl
  | cons p ps ih =>
    intro known
    simp only [List.flatMap_cons, emitPart, List.cons_append, readFrames, List.flatten_cons]
    exact read_emitRecords _ _ ih p [] known (by intro d hd; simp at hd)

/-! ### template rotation -/

@[simp] theorem flag_rotate : Gen.rotateNeverOverwrites = true := by decide
@[simp] theorem flag_rotate_first : Gen.templateRotatesBeforeOpen = true := by decide

/-- the body of `PathTemplateWriter.write` in the current source is the one `tmplTs` / `tmplRunRecords` read -/
theorem template_write_is_frozen : Gen.templateWriteBody = templateWriteFrozen := by decide +kernel

theorem seqLoop_spec (taken : Name → Bool) (cand : Nat → Name) : ∀ (fuel k r : Nat),
    seqLoop taken cand fuel k = some r → taken (cand r) = false ∧ k ≤ r := by
  intro fuel
  induction fuel with
  | zero => intro k r h; simp [seqLoop] at h
  | succ fuel ih =>
    intro k r h
    unfold seqLoop at h
    split at h
    · obtain ⟨h1, h2⟩ := ih (k + 1) r h
      exact ⟨h1, by omega⟩
    · rename_i hk
      simp only [Option.some.injEq] at h
      subst h
      exact ⟨by simpa using hk, Nat.le_refl _⟩

theorem seqLoop_none (taken : Name → Bool) (cand : Nat → Name) : ∀ (fuel k : Nat),
    seqLoop taken cand fuel k = none → ∀ j < fuel, taken (cand (k + j)) = true := by
  intro fuel
  induction fuel with
  | zero => intro k _ j hj; omega
  | succ fuel ih =>
    intro k h j hj
    unfold seqLoop at h
    split at h
    · rename_i hk
      cases j with
      | zero => simpa using hk
      | succ j =>
        have := ih (k + 1) h j (by omega)
        rwa [show k + 1 + j = k + (j + 1) by omega] at this
    · cases h

/-- pigeonhole: `n + 1` distinct candidates cannot all be among `n` names -/
theorem pigeon (cand : Nat → Name) (hinj : ∀ i j, cand i = cand j → i = j) : ∀ (n : Nat) (names : List Name) (k : Nat),
    names.length ≤ n → ¬ (∀ j ≤ n, cand (k + j) ∈ names) := by
  intro n
  induction n with
  | zero =>
    intro names k hlen hall
    have := hall 0 (Nat.le_refl _)
    have hnil : names = [] := List.eq_nil_of_length_eq_zero (by omega)
    rw [hnil] at this
    cases this
  | succ n ih =>
    intro names k hlen hall
    have hk : cand k ∈ names := by simpa using hall 0 (by omega)
    apply ih (names.erase (cand k)) (k + 1)
    · rw [List.length_erase_of_mem hk]; omega
    · intro j hj
      have hm := hall (j + 1) (by omega)
      rw [show k + (j + 1) = k + 1 + j by omega] at hm
      have hne : cand (k + 1 + j) ≠ cand k := by
        intro heq
        have := hinj _ _ heq
        omega
      exact (List.mem_erase_of_ne hne).mpr hm

theorem rotCandidate_injective (path stamp : Name) (i j : Nat)
    (h : rotCandidate path stamp i = rotCandidate path stamp j) : i = j := by
  simp only [rotCandidate] at h
  generalize rotParts path = pr at h
  obtain ⟨fname, ext⟩ := pr
  simp only at h
  cases i with
  | zero =>
    cases j with
    | zero => rfl
    | succ j =>
      simp only [Nat.succ_ne_zero, if_true, if_false, List.append_assoc] at h
      have h1 := List.append_cancel_left h
      have h2 := List.append_cancel_left h1
      have h3 := List.append_cancel_left h2
      simp at h3
  | succ i =>
    cases j with
    | zero =>
      simp only [Nat.succ_ne_zero, if_true, if_false, List.append_assoc] at h
      have h1 := List.append_cancel_left h
      have h2 := List.append_cancel_left h1
      have h3 := List.append_cancel_left h2
      simp at h3
    | succ j =>
      simp only [Nat.succ_ne_zero, if_false] at h
      have h1 := List.append_cancel_right h
      have h2 := List.append_cancel_right h1
      have h3 := List.append_cancel_left h2
      have := natStr_injective _ _ h3
      omega

def names (fs : FS R) : List Name := fs.map (·.name)

theorem has_iff (fs : FS R) (n : Name) : fs.has n = true ↔ n ∈ names fs := by
  simp only [FS.has, names, List.any_eq_true, List.mem_map, beq_iff_eq]

theorem seqLoop_total (fs : FS R) (path stamp : Name) :
    ∃ k, seqLoop fs.has (rotCandidate path stamp) (fs.length + 1) 0 = some k := by
  cases h : seqLoop fs.has (rotCandidate path stamp) (fs.length + 1) 0 with
  | some k => exact ⟨k, rfl⟩
  | none =>
    exfalso
    have hall := seqLoop_none _ _ _ _ h
    apply pigeon (rotCandidate path stamp) (rotCandidate_injective path stamp) fs.length (names fs) 0 (by simp [names])
    intro j hj
    exact (has_iff fs _).mp (hall j (by omega))

/-- `(origin, content)` of every file, in directory order: what rotation never touches -/
def tagged (fs : FS R) : List (Option Name × List R) := fs.map (fun f => (f.origin, f.content))

/-- the rename of `rotateExisting` -/
def renameTo (path dst : Name) (f : File R) : File R := if f.name == path then { f with name := dst } else f

theorem nodup_rename_names (path dst : Name) : ∀ l : List Name, l.Nodup → dst ∉ l →
    (l.map (fun n => if n = path then dst else n)).Nodup := by
  intro l
  induction l with
  | nil => intro _ _; simp
  | cons a l ih =>
    intro hnd hdst
    simp only [List.nodup_cons] at hnd
    obtain ⟨ha, hnd'⟩ := hnd
    have hdst' : dst ∉ l := fun h => hdst (List.mem_cons_of_mem _ h)
    have hda : dst ≠ a := fun h => hdst (h ▸ List.mem_cons_self)
    simp only [List.map_cons, List.nodup_cons]
    refine ⟨?_, ih hnd' hdst'⟩
    intro hin
    obtain ⟨b, hb, hgb⟩ := List.mem_map.mp hin
    by_cases hap : a = path
    · by_cases hbp : b = path
      · exact ha (hap ▸ hbp ▸ hb)
      · simp only [hap, hbp, if_true, if_false] at hgb
        exact hdst' (hgb ▸ hb)
    · by_cases hbp : b = path
      · simp only [hap, hbp, if_true, if_false] at hgb
        exact hda hgb
      · simp only [hap, hbp, if_false] at hgb
        exact ha (hgb ▸ hb)

theorem names_rename (fs : FS R) (path dst : Name) :
    names (fs.map (fun f => if f.name == path then { f with name := dst } else f)) =
      (names fs).map (fun n => if n = path then dst else n) := by
  simp only [names, List.map_map]
  apply List.map_congr_left
  intro f _
  simp only [Function.comp]
  by_cases h : f.name = path <;> simp [h]

theorem rotate_spec (fs : FS R) (path stamp : Name) (hnd : (names fs).Nodup) :
    ∃ fs', rotateExisting fs path stamp = some fs' ∧ tagged fs' = tagged fs ∧ (names fs').Nodup ∧
      fs'.has path = false := by
  unfold rotateExisting rotateExistingWith
  cases hp : fs.has path with
  | false => exact ⟨fs, by simp, rfl, hnd, hp⟩
  | true =>
    obtain ⟨k, hk⟩ := seqLoop_total fs path stamp
    obtain ⟨hfree, _⟩ := seqLoop_spec _ _ _ _ _ hk
    simp only [Bool.not_true, Bool.false_eq_true, if_false, flag_rotate, if_true, hk, Option.map_some]
    have hdst : rotCandidate path stamp k ∉ names fs := by
      intro hin
      rw [← has_iff, hfree] at hin
      cases hin
    have hne : rotCandidate path stamp k ≠ path := by
      intro heq
      rw [heq] at hdst
      exact hdst ((has_iff fs path).mp hp)
    have hfilter : fs.filter (fun f => f.name != rotCandidate path stamp k || f.name == path) = fs := by
      apply List.filter_eq_self.mpr
      intro f hf
      have : f.name ≠ rotCandidate path stamp k := by
        intro heq
        exact hdst (heq ▸ List.mem_map.mpr ⟨f, hf, rfl⟩)
      simp [this]
    refine ⟨_, rfl, ?_, ?_, ?_⟩
    · rw [hfilter]
      simp only [tagged, List.map_map]
      apply List.map_congr_left
      intro f _
      simp only [Function.comp]
      split <;> rfl
    · rw [hfilter, names_rename]
      exact nodup_rename_names path _ _ hnd hdst
    · rw [hfilter]
      apply Bool.eq_false_iff.mpr
      rw [Ne, has_iff, names_rename]
      intro hin
      obtain ⟨n, _, hn⟩ := List.mem_map.mp hin
      by_cases hnp : n = path
      · simp only [hnp, if_true] at hn; exact hne hn
      · simp only [hnp, if_false] at hn

/-- contents of the files that existed before the writer started, in directory order -/
def preOf (t : List (Option Name × List R)) : List (List R) := (t.filter (fun x => x.1.isNone)).map (·.2)

/-- the records in the files the writer created, each with the template path its file was created for,
    in creation order -/
def recsOf (t : List (Option Name × List R)) : List (Name × R) :=
  t.flatMap (fun x => match x.1 with | some p => x.2.map (fun r => (p, r)) | none => [])

structure TmplInv (s : Tmpl R) (pre : List (List R)) (ws : List (Name × R)) : Prop where
  nodup : (names s.fs).Nodup
  pre_kept : preOf (tagged s.fs) = pre
  recs : recsOf (tagged s.fs) = ws
  current : ∀ p, s.currentPath = some p → ∃ ini last, s.fs = ini ++ [last] ∧ last.name = p ∧ last.origin = some p

theorem map_append_noop (l : FS R) (path : Name) (r : R) (h : ∀ f ∈ l, f.name ≠ path) :
    l.map (fun f => if f.name == path then { f with content := f.content ++ [r] } else f) = l := by
  conv => rhs; rw [← List.map_id l]
  apply List.map_congr_left
  intro f hf
  simp [h f hf]

theorem tmplWrite_inv (s : Tmpl R) (pre : List (List R)) (ws : List (Name × R)) (path stamp : Name) (r : R)
    (h : TmplInv s pre ws) : ∃ s', tmplWrite s path stamp r = some s' ∧ TmplInv s' pre (ws ++ [(path, r)]) ∧
      s'.currentPath = some path := by
  obtain ⟨hnd, hpre, hrecs, hcur⟩ := h
  by_cases hsame : s.currentPath = some path
  · obtain ⟨ini, last, hfs, hln, hlo⟩ := hcur path hsame
    have hnd' := hnd
    rw [hfs] at hnd'
    simp only [names, List.map_append, List.map_cons, List.map_nil] at hnd'
    have hini : ∀ f ∈ ini, f.name ≠ path := by
      intro f hf heq
      have := (List.nodup_append.mp hnd').2.2 f.name (List.mem_map.mpr ⟨f, hf, rfl⟩) last.name (by simp)
      exact this (heq.trans hln.symm)
    have hfs' : s.fs.map (fun f => if f.name == path then { f with content := f.content ++ [r] } else f) =
        ini ++ [{ last with content := last.content ++ [r] }] := by
      rw [hfs, List.map_append, map_append_noop ini path r hini]
      simp [hln]
    refine ⟨{ currentPath := some path, fs := ini ++ [{ last with content := last.content ++ [r] }] }, ?_, ?_, rfl⟩
    · simp only [tmplWrite, hsame, beq_self_eq_true, if_true, Option.map_some, hfs']
    · refine ⟨?_, ?_, ?_, ?_⟩
      · simpa [names, hfs] using hnd
      · rw [← hpre, hfs]
        simp [preOf, tagged, List.filter_append, hlo]
      · rw [← hrecs, hfs]
        simp [recsOf, tagged, hlo]
      · intro p hp
        simp only [Option.some.injEq] at hp
        subst hp
        exact ⟨ini, _, rfl, hln, hlo⟩
  · obtain ⟨fs1, hrot, htag, hnd1, hno⟩ := rotate_spec s.fs path stamp hnd
    have hno' : ∀ f ∈ fs1, f.name ≠ path := by
      intro f hf heq
      have : fs1.has path = true := (has_iff fs1 path).mpr (heq ▸ List.mem_map.mpr ⟨f, hf, rfl⟩)
      rw [hno] at this
      cases this
    have hbeq : (s.currentPath == some path) = false := by simpa using hsame
    refine ⟨{ currentPath := some path, fs := fs1 ++ [{ name := path, origin := some path, content := [r] }] }, ?_, ?_, rfl⟩
    · have hnoop := map_append_noop fs1 path r hno'
      simp only [tmplWrite, hbeq, Bool.false_eq_true, if_false, flag_rotate_first, if_true, hrot, Option.map_some,
        List.map_append, hnoop]
      simp
    · refine ⟨?_, ?_, ?_, ?_⟩
      · simp only [names, List.map_append, List.map_cons, List.map_nil]
        apply List.nodup_append.mpr
        refine ⟨hnd1, by simp, ?_⟩
        intro a ha b hb
        simp only [List.mem_singleton] at hb
        subst hb
        obtain ⟨f, hf, rfl⟩ := List.mem_map.mp ha
        exact hno' f hf
      · rw [← hpre, ← htag]
        simp [preOf, tagged, List.filter_append]
      · rw [← hrecs, ← htag]
        simp [recsOf, tagged]
      · intro p hp
        simp only [Option.some.injEq] at hp
        subst hp
        exact ⟨fs1, _, rfl, rfl, rfl⟩

theorem tmplRun_inv : ∀ (writes : List (Name × Name × R)) (s : Tmpl R) (pre : List (List R)) (ws : List (Name × R)),
    TmplInv s pre ws → ∃ s', tmplRun s writes = some s' ∧
      TmplInv s' pre (ws ++ writes.map (fun w => (w.1, w.2.2))) := by
  intro writes
  induction writes with
  | nil => intro s pre ws h; exact ⟨s, rfl, by simpa using h⟩
  | cons w writes ih =>
    intro s pre ws h
    obtain ⟨p, st, r⟩ := w
    obtain ⟨s1, h1, hinv1, _⟩ := tmplWrite_inv s pre ws p st r h
    obtain ⟨s2, h2, hinv2⟩ := ih s1 pre _ hinv1
    refine ⟨s2, ?_, ?_⟩
    · simp [tmplRun, h1, h2]
    · simpa [List.append_assoc] using hinv2

theorem tmplRunC_inv : ∀ (ops : List (TOp R)) (s : TmplC R) (pre : List (List R)) (ws : List (Name × R)),
    TmplInv s.t pre ws → ∃ s' oks, tmplRunC s ops = some (s', oks) ∧ oks.length = ops.length ∧
      TmplInv s'.t pre (ws ++ acceptedWrites ops oks) := by
  intro ops
  induction ops with
  | nil => intro s pre ws h; exact ⟨s, [], rfl, rfl, by simpa [acceptedWrites] using h⟩
  | cons op ops ih =>
    intro s pre ws h
    cases op with
    | close =>
      obtain ⟨s2, oks, h2, hl, hinv2⟩ := ih { s with closed := true } pre ws h
      refine ⟨s2, true :: oks, ?_, by simp [hl], ?_⟩
      · simp [tmplRunC, tmplStepC, h2]
      · simpa [acceptedWrites] using hinv2
    | write p st r =>
      by_cases hc : (s.closed && s.t.currentPath == some p) = true
      · obtain ⟨s2, oks, h2, hl, hinv2⟩ := ih s pre ws h
        refine ⟨s2, false :: oks, ?_, by simp [hl], ?_⟩
        · simp [tmplRunC, tmplStepC, hc, h2]
        · simpa [acceptedWrites] using hinv2
      · obtain ⟨t1, h1, hinv1, _⟩ := tmplWrite_inv s.t pre ws p st r h
        obtain ⟨s2, oks, h2, hl, hinv2⟩ := ih { t := t1, closed := false } pre _ hinv1
        refine ⟨s2, true :: oks, ?_, by simp [hl], ?_⟩
        · simp [tmplRunC, tmplStepC, hc, h1, h2]
        · simpa [acceptedWrites, List.append_assoc] using hinv2

end FlowRecord.Writers
