import FlowRecord.Model.Selector.Interp
import FlowRecord.Model.Selector.Ref
/-!
Safety invariants of the instrumented interpreter (C09), generic in the invariant: a predicate on the state that
does not depend on the generator-variable namespace and is kept by logging a *good* event. Every event the
interpreter can log is shown good from side conditions that are decided on the generated tables
(`allowedCalls`, `Gen.WHITELIST`, `Gen.attrRefusedPrefix`). All lemmas hold for every `Prim`.
-/
namespace FlowRecord.Selector
open FlowRecord

structure Invariant (P : Prim) where
  inv : St → Prop
  good : Event → Prop
  ns_irrel : ∀ (s : St) (ns : List (String × PVal)), inv s → inv { s with ns := ns }
  log_ok : ∀ (s : St) (ev : Event), inv s → good ev → inv { s with trace := s.trace ++ [ev] }
  call_builtin : ∀ n, allowedCalls.contains n = true → good (.call (.builtin n))
  call_ctor : ∀ w, Gen.WHITELIST.contains w = true → ∀ v,
    rResolve P (.ftype "") (splitDot w) = .ok v → good (.call v)
  getattr_ok : ∀ obj a, hasPrefix Gen.attrRefusedPrefix a = false → good (.getattr obj a)
  fallback_ok : ∀ id, nameRefused id = false → good (.fallback id)
  modattr_ok : ∀ w, Gen.WHITELIST.contains w = true → ∀ part ∈ splitDot w, ∀ obj, good (.modattr obj part)

variable {P : Prim}

/-- `m` keeps the invariant, and every value it returns satisfies `Q`. -/
def Pres (I : Invariant P) {α : Type} (m : M α) (Q : α → Prop) : Prop :=
  ∀ st, I.inv st → I.inv (m st).1 ∧ ∀ a, (m st).2 = .ok a → Q a

theorem bind_eq {α β : Type} (m : M α) (f : α → M β) : (m >>= f) = M.bind m f := rfl
theorem pure_eq {α : Type} (a : α) : (pure a : M α) = M.pure a := rfl

theorem Pres.weaken {I : Invariant P} {α} {m : M α} {Q Q' : α → Prop} (h : Pres I m Q) (hq : ∀ a, Q a → Q' a) :
    Pres I m Q' := fun st hst => ⟨(h st hst).1, fun a ha => hq a ((h st hst).2 a ha)⟩

theorem pres_pure {I : Invariant P} {α} (a : α) {Q : α → Prop} (hq : Q a) : Pres I (M.pure a) Q := by
  intro st hst
  refine ⟨hst, ?_⟩
  intro b hb
  simp [M.pure] at hb
  exact hb ▸ hq

theorem pres_throw {I : Invariant P} {α} (e : Err) {Q : α → Prop} : Pres I (M.throw e : M α) Q := by
  intro st hst
  refine ⟨hst, ?_⟩
  intro b hb
  simp [M.throw] at hb

theorem pres_lift {I : Invariant P} {α} (r : Except Err α) : Pres I (M.lift r) (fun a => r = .ok a) := by
  intro st hst
  refine ⟨hst, ?_⟩
  intro b hb
  simpa [M.lift] using hb

theorem pres_bind {I : Invariant P} {α β} {m : M α} {f : α → M β} {Q : α → Prop} {R : β → Prop}
    (hm : Pres I m Q) (hf : ∀ a, Q a → Pres I (f a) R) : Pres I (M.bind m f) R := by
  intro st hst
  have h1 := hm st hst
  unfold M.bind
  cases hms : m st with
  | mk s' r =>
    rw [hms] at h1
    cases r with
    | error e => exact ⟨h1.1, fun a ha => by simp at ha⟩
    | ok a => exact hf a (h1.2 a rfl) s' h1.1

theorem pres_log {I : Invariant P} (ev : Event) (h : I.good ev) : Pres I (M.log ev) (fun _ => True) := by
  intro st hst
  exact ⟨I.log_ok st ev hst h, fun _ _ => trivial⟩

theorem pres_finally {I : Invariant P} {α} {m : M α} {Q : α → Prop} (xs : List String) (hm : Pres I m Q) :
    Pres I (M.finally_ m (fun s => s.popAll xs)) Q := by
  intro st hst
  have h1 := hm st hst
  unfold M.finally_
  cases hms : m st with
  | mk s' r =>
    rw [hms] at h1
    exact ⟨I.ns_irrel s' _ h1.1, h1.2⟩

/-- what we assume of the recursive knot: every sub-expression evaluation keeps the invariant -/
def SelfOK (I : Invariant P) (self : Expr → M PVal) : Prop := ∀ e, Pres I (self e) (fun _ => True)

theorem pres_evalList {I : Invariant P} {self} (hs : SelfOK I self) (es : List Expr) :
    Pres I (evalList self es) (fun _ => True) := by
  induction es with
  | nil => exact pres_pure _ trivial
  | cons e es ih =>
    unfold evalList
    simp only [bind_eq, pure_eq]
    exact pres_bind (hs e) (fun _ _ => pres_bind ih (fun _ _ => pres_pure _ trivial))

theorem pres_evalKwargs {I : Invariant P} {self} (hs : SelfOK I self) (es : List (String × Expr)) :
    Pres I (evalKwargs self es) (fun _ => True) := by
  induction es with
  | nil => exact pres_pure _ trivial
  | cons e es ih =>
    obtain ⟨k, e⟩ := e
    unfold evalKwargs
    simp only [bind_eq, pure_eq]
    exact pres_bind (hs e) (fun _ _ => pres_bind ih (fun _ _ => pres_pure _ trivial))

theorem pres_evalBool {I : Invariant P} {self} (hs : SelfOK I self) (stopOn : Bool) (es : List Expr) (last : PVal) :
    Pres I (evalBool P self stopOn es last) (fun _ => True) := by
  induction es generalizing last with
  | nil => exact pres_pure _ trivial
  | cons e es ih =>
    intro st hst
    have h1 := hs e st hst
    unfold evalBool
    cases hms : self e st with
    | mk s' r =>
      rw [hms] at h1
      cases r with
      | ok v =>
        simp only
        split
        · exact ⟨h1.1, fun _ _ => trivial⟩
        · exact ih v s' h1.1
      | error er =>
        cases er <;> simp only <;> first
          | exact ⟨h1.1, fun _ _ => trivial⟩
          | (split
             · exact ⟨h1.1, fun _ _ => trivial⟩
             · exact ih _ s' h1.1)

theorem pres_linkCompare {I : Invariant P} (op : String) (l r : PVal) :
    Pres I (linkCompare P op l r) (fun _ => True) := by
  intro st hst
  unfold linkCompare
  split
  · exact ⟨hst, fun _ _ => trivial⟩
  · split <;> exact ⟨hst, fun _ _ => trivial⟩

theorem pres_evalChain {I : Invariant P} {self} (hs : SelfOK I self) (rest : List (String × Expr))
    (left result : PVal) : Pres I (evalChain P self left rest result) (fun _ => True) := by
  induction rest generalizing left result with
  | nil => exact pres_pure _ trivial
  | cons oc rest ih =>
    obtain ⟨op, c⟩ := oc
    unfold evalChain
    simp only [bind_eq, pure_eq]
    refine pres_bind (hs c) (fun right _ => ?_)
    refine pres_bind (pres_linkCompare op left right) (fun res _ => ?_)
    split
    · exact pres_pure _ trivial
    · exact ih right res

theorem pres_evalIfs {I : Invariant P} {self} (hs : SelfOK I self) (cs : List Expr) :
    Pres I (evalIfs P self cs) (fun _ => True) := by
  induction cs with
  | nil => exact pres_pure _ trivial
  | cons c cs ih =>
    unfold evalIfs
    simp only [bind_eq, pure_eq]
    refine pres_bind (hs c) (fun v _ => ?_)
    split
    · exact ih
    · exact pres_pure _ trivial

theorem pres_forVals {I : Invariant P} {body : PVal → M (Option Bool)} (hb : ∀ v, Pres I (body v) (fun _ => True))
    (vals : List PVal) : Pres I (forVals body vals) (fun _ => True) := by
  induction vals with
  | nil => exact pres_pure _ trivial
  | cons v vs ih =>
    unfold forVals
    simp only [bind_eq, pure_eq]
    refine pres_bind (hb v) (fun r _ => ?_)
    split
    · exact pres_pure _ trivial
    · exact ih

theorem pres_loopGens {I : Invariant P} {self} (hs : SelfOK I self) (c : Consumer) (elt : Expr) (gens : List Comp) :
    Pres I (loopGens P self c elt gens) (fun _ => True) := by
  induction gens with
  | nil =>
    unfold loopGens
    simp only [bind_eq, pure_eq]
    exact pres_bind (hs elt) (fun _ _ => pres_pure _ trivial)
  | cons g rest ih =>
    obtain ⟨tgt, iter, ifs⟩ := g
    unfold loopGens
    simp only [bind_eq, pure_eq]
    refine pres_bind (hs iter) (fun itv _ => ?_)
    split
    · exact pres_pure _ trivial
    · refine pres_bind (pres_lift _) (fun vals _ => ?_)
      refine pres_forVals (fun val => ?_) vals
      refine pres_bind (Q := fun _ => True) ?_ (fun _ _ => ?_)
      · intro st hst
        exact ⟨I.ns_irrel st _ hst, fun _ _ => trivial⟩
      · refine pres_bind (pres_evalIfs hs ifs) (fun b _ => ?_)
        split
        · exact ih
        · exact pres_pure _ trivial

theorem pres_runGenexp {I : Invariant P} {self} (hs : SelfOK I self) (c : Consumer) (elt : Expr) (gens : List Comp) :
    Pres I (runGenexp P self c elt gens) (fun _ => True) := by
  intro st hst
  unfold runGenexp
  split
  · exact ⟨hst, fun _ _ => trivial⟩
  · split
    · exact ⟨hst, fun _ _ => trivial⟩
    · refine pres_finally _ ?_ st hst
      simp only [bind_eq, pure_eq]
      exact pres_bind (pres_loopGens hs c elt gens) (fun _ _ => pres_pure _ trivial)

theorem pres_resolveWhitelisted {I : Invariant P} (parts : List String)
    (hp : ∀ p ∈ parts, ∀ obj, I.good (.modattr obj p)) (obj : PVal) :
    Pres I (resolveWhitelisted P obj parts) (fun v => rResolve P obj parts = .ok v) := by
  induction parts generalizing obj with
  | nil => exact pres_pure _ rfl
  | cons p ps ih =>
    unfold resolveWhitelisted
    simp only [bind_eq, pure_eq]
    refine pres_bind (pres_log _ (hp p (by simp) obj)) (fun _ _ => ?_)
    refine pres_bind (pres_lift _) (fun nxt hn => ?_)
    refine (ih (fun q hq => hp q (by simp [hq])) nxt).weaken (fun v hv => ?_)
    simp only [rResolve, hn, hv]

theorem pres_evalCall {I : Invariant P} {self} (hs : SelfOK I self) (func : Expr) (args : List Expr)
    (kwargs : List (String × Expr)) : Pres I (evalCall P self func args kwargs) (fun _ => True) := by
  unfold evalCall
  split
  · exact pres_throw _
  · split
    · exact pres_throw _
    · rename_i fname _
      split
      · rename_i hallowed
        split
        · simp only [bind_eq, pure_eq]
          exact pres_bind (pres_log _ (I.call_builtin fname hallowed)) (fun _ _ => pres_runGenexp hs _ _ _)
        · simp only [bind_eq, pure_eq]
          refine pres_bind (pres_evalList hs args) (fun _ _ => ?_)
          refine pres_bind (pres_evalKwargs hs kwargs) (fun _ _ => ?_)
          refine pres_bind (pres_log _ (I.call_builtin fname hallowed)) (fun _ _ => ?_)
          exact (pres_lift _).weaken (fun _ _ => trivial)
      · split
        · rename_i hwl
          simp only [bind_eq, pure_eq]
          refine pres_bind (pres_resolveWhitelisted _ (fun p hp obj => I.modattr_ok fname hwl p hp obj) _) (fun f hf => ?_)
          refine pres_bind (pres_evalList hs args) (fun _ _ => ?_)
          refine pres_bind (pres_evalKwargs hs kwargs) (fun _ _ => ?_)
          refine pres_bind (pres_log _ (I.call_ctor fname hwl f hf)) (fun _ _ => ?_)
          exact (pres_lift _).weaken (fun _ _ => trivial)
        · exact pres_throw _

theorem pres_evalStep {I : Invariant P} {self} (hs : SelfOK I self) (e : Expr) :
    Pres I (evalStep P self e) (fun _ => True) := by
  unfold evalStep
  split
  · exact pres_throw _
  · cases e with
    | const c => exact pres_pure _ trivial
    | list es =>
      simp only [bind_eq, pure_eq]
      exact pres_bind (pres_evalList hs es) (fun _ _ => pres_pure _ trivial)
    | tuple es =>
      simp only [bind_eq, pure_eq]
      exact pres_bind (pres_evalList hs es) (fun _ _ => pres_pure _ trivial)
    | name id =>
      intro st hst
      simp only
      split
      · exact ⟨hst, fun _ _ => trivial⟩
      · split
        · exact ⟨hst, fun _ _ => by simp⟩
        · rename_i hnr
          exact pres_bind (pres_log _ (I.fallback_ok id (by simpa using hnr)))
            (fun _ _ => (pres_lift _).weaken (fun _ _ => trivial)) st hst
    | attr v a =>
      simp only
      split
      · exact pres_throw _
      · rename_i hna
        simp only [bind_eq, pure_eq]
        refine pres_bind (hs v) (fun obj _ => ?_)
        refine pres_bind (pres_log _ (I.getattr_ok obj a (by simpa using hna))) (fun _ _ => pres_pure _ trivial)
    | boolop op vs => exact pres_evalBool hs _ vs _
    | binop op l r =>
      simp only [bind_eq, pure_eq]
      refine pres_bind (hs l) (fun lv _ => pres_bind (hs r) (fun rv _ => ?_))
      split
      · exact pres_pure _ trivial
      · split
        · exact (pres_lift _).weaken (fun _ _ => trivial)
        · exact pres_throw _
    | unary op x =>
      simp only
      split
      · exact pres_throw _
      · split
        · simp only [bind_eq, pure_eq]
          exact pres_bind (hs x) (fun _ _ => pres_pure _ trivial)
        · simp only [bind_eq, pure_eq]
          exact pres_bind (hs x) (fun _ _ => pres_throw _)
    | compare l rest =>
      simp only [bind_eq, pure_eq]
      exact pres_bind (hs l) (fun lv _ => pres_evalChain hs rest lv _)
    | call f args kwargs => exact pres_evalCall hs f args kwargs
    | genexp elt gens => exact pres_pure _ trivial
    | other k => exact pres_throw _

theorem pres_interp (I : Invariant P) (fuel : Nat) : SelfOK I (interp P fuel) := by
  induction fuel with
  | zero => intro e; exact pres_throw _
  | succ n ih => intro e; exact pres_evalStep ih e

end FlowRecord.Selector
