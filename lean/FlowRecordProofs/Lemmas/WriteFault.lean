import FlowRecord.Model.Stream
/-! A failing or short write on the writer's file object leaves a PREFIX of the stream on disk, whatever the chunking
    of the stream into write calls. -/
namespace FlowRecord.Stream
open FlowRecord

/-- what is on disk when write call number `i` accepts only `j` of its bytes (`j = 0`: it failed outright) and
    nothing is written afterwards -/
def diskAfterFault (calls : List Bytes) (i j : Nat) : Bytes :=
  (calls.take i).flatten ++ ((calls[i]?).getD []).take j

theorem diskAfterFault_prefix (calls : List Bytes) : ∀ (i j : Nat),
    diskAfterFault calls i j = calls.flatten.take (((calls.take i).flatten).length + min j ((calls[i]?).getD []).length) := by
  induction calls with
  | nil => intro i j; simp [diskAfterFault]
  | cons c cs ih =>
    intro i j
    cases i with
    | zero =>
      simp only [diskAfterFault, List.take_zero, List.flatten_nil, List.nil_append, List.length_nil, Nat.zero_add,
        List.getElem?_cons_zero, Option.getD_some, List.flatten_cons]
      rw [List.take_append_of_le_length (by omega)]
      by_cases h : j ≤ c.length
      · rw [Nat.min_eq_left h]
      · have h' : c.length ≤ j := by omega
        rw [Nat.min_eq_right h', List.take_of_length_le h', List.take_of_length_le (Nat.le_refl _)]
    | succ i =>
      have := ih i j
      simp only [diskAfterFault] at this
      simp only [diskAfterFault, List.take_succ_cons, List.flatten_cons, List.getElem?_cons_succ, List.append_assoc,
        List.length_append]
      rw [this, Nat.add_assoc, List.take_append]
      have h1 : c.take (c.length + ((cs.take i).flatten.length + min j ((cs[i]?).getD []).length)) = c :=
        List.take_of_length_le (by omega)
      rw [h1]
      simp

/-- the two calls `RecordStreamWriter.write` makes per frame: the 4-byte length, then the blob -/
def writeCalls (frames : List Bytes) : List Bytes := frames.flatMap fun b => [beEnc 4 b.length, b]

theorem writeCalls_flatten (frames : List Bytes) : (writeCalls frames).flatten = streamOf frames := by
  induction frames with
  | nil => rfl
  | cons f fs ih =>
    simp only [writeCalls, List.flatMap_cons, streamOf, frameBytes] at ih ⊢
    simp [ih]

end FlowRecord.Stream
