import FlowRecordProofs.Lemmas.Envelope
import FlowRecordProofs.Lemmas.Framing
import FlowRecordProofs.Lemmas.Registry
/-! The stream theorem: writer frames → bytes → reader, for every admissible history (C01 at the byte level). -/
open FlowRecord FlowRecord.Msgpack FlowRecord.Utf8 FlowRecord.Wire
namespace FlowRecord.Stream

/-- a descriptor whose name and field (type, name) texts survive the text codec -/
def DescOK (d : Desc) : Prop :=
  strOK d.name ∧ (∀ p ∈ d.fields, strOK p.1 ∧ strOK p.2) ∧ d.fields.length < 4294967296 ∧
  (∀ m, descPayload d = some m → (enc (.arr [.int tDescriptor, m])).length < 4294967296)

theorem fields_mapM (fs : List (PyStr × PyStr)) (h : ∀ p ∈ fs, strOK p.1 ∧ strOK p.2) :
    ∃ ms : List MVal, fs.mapM fieldM = some ms ∧ ms.length = fs.length ∧ WFList ms ∧
      (∀ reg f, fromMList reg (f + 2) ms = .ok (fs.map fun p => RV.tuple [.str p.1, .str p.2])) := by
  induction fs with
  | nil => exact ⟨[], by simp, rfl, trivial, fun reg f => fromMList_nil reg _⟩
  | cons p ps ih =>
    obtain ⟨ms, h1, h2, h3, h4⟩ := ih (fun q hq => h q (by simp [hq]))
    obtain ⟨a, ha1, ha2, ha3⟩ := mstr_ok p.1 (h p (by simp)).1
    obtain ⟨b, hb1, hb2, hb3⟩ := mstr_ok p.2 (h p (by simp)).2
    refine ⟨.arr [.str a, .str b] :: ms, ?_, by simp [h2], ?_, ?_⟩
    · rw [List.mapM_cons]
      simp [fieldM, ha1, hb1, h1]
    · exact ⟨⟨by simp, ha2, hb2, trivial⟩, h3⟩
    · intro reg f
      rw [fromMList_cons, h4 reg f, fromM_arr, fromMList_cons, fromMList_cons, fromMList_nil, fromM_str, fromM_str,
        ha3, hb3]
      rfl

theorem fieldsOf_tuples (fs : List (PyStr × PyStr)) :
    fieldsOf (fs.map fun p => RV.tuple [.str p.1, .str p.2]) = some fs := by
  unfold fieldsOf
  induction fs with
  | nil => rfl
  | cons p ps ih =>
    rw [List.map_cons, List.mapM_cons, ih]
    simp [fieldOf, strOf]

/-- a descriptor frame is read back as the descriptor's name and ordered field list -/
theorem fromM_desc (reg : Registry) (d : Desc) (m : MVal) (f : Nat) (hok : DescOK d) (hm : toM (.desc d) = some m) :
    WF m ∧ fromM reg (f + 5) m = .ok (.desc d.name d.fields) := by
  obtain ⟨hname, hfields, hlen, hsize⟩ := hok
  obtain ⟨nb, hn1, hn2, hn3⟩ := mstr_ok d.name hname
  obtain ⟨ms, hm1, hm2, hm3, hm4⟩ := fields_mapM d.fields hfields
  have hp : descPayload d = some (.arr [.str nb, .arr ms]) := by simp [descPayload, hn1, hm1]
  simp only [toM, hp, Option.map_some, Option.some.injEq] at hm
  subst hm
  have hw : WF (.arr [.str nb, .arr ms]) := by
    simp only [WF, WFList, List.length_cons, List.length_nil]
    exact ⟨by omega, hn2, ⟨by omega, hm3⟩, trivial⟩
  have hv : fromM reg (f + 4) (.arr [.str nb, .arr ms]) =
      .ok (.tuple [.str d.name, .tuple (d.fields.map fun p => RV.tuple [.str p.1, .str p.2])]) := by
    rw [fromM_arr, fromMList_cons, fromMList_cons, fromMList_nil, fromM_str, hn3, fromM_arr, hm4 reg f]
    rfl
  constructor
  · exact ⟨by decide, hsize _ hp⟩
  · rw [fromM_envelope reg (f + 4) tDescriptor _ _ _ (by decide) hw (hsize _ hp)
      (fromM_int_sub reg (f + 3) tDescriptor) hv]
    simp only [unpackEnvelope, tDescriptor, tDatetime, tVarint, tRecord, tGrouped, Gen.RECORD_PACK_TYPE_DESCRIPTOR,
      Gen.RECORD_PACK_TYPE_DATETIME, Gen.RECORD_PACK_TYPE_VARINT, Gen.RECORD_PACK_TYPE_RECORD,
      Gen.RECORD_PACK_TYPE_GROUPEDRECORD, strOf, fieldsOf_tuples]
    simp


theorem extHead_length_ge (t n : Nat) : 2 ≤ (extHead t n).length := by
  unfold extHead; repeat (first | split | simp)

theorem enc_envelope_length (sub : Nat) (payload : MVal) :
    4 + (enc payload).length ≤ (enc (envelope sub payload)).length := by
  unfold envelope
  have h0 : enc (.arr [.int sub, payload]) = arrHead 2 ++ (encInt ↑sub ++ (enc payload ++ [])) := by
    simp [enc, encList]
  have hl : (enc (.ext extType (enc (.arr [.int sub, payload])))).length =
      (extHead extType (enc (.arr [.int sub, payload])).length).length + (enc (.arr [.int sub, payload])).length := by
    simp [enc]
  rw [hl, h0]
  have h1 := extHead_length_ge extType (arrHead 2 ++ (encInt ↑sub ++ (enc payload ++ []))).length
  have h2 := arrHead_length_pos 2
  have h3 := encInt_length_pos (sub : Int)
  simp only [List.length_append, List.length_nil] at h1 ⊢
  omega

theorem enc_arr_ge (xs : List MVal) : 1 + (encList xs).length ≤ (enc (.arr xs)).length := by
  simp only [enc, List.length_append]; have := arrHead_length_pos xs.length; omega

theorem enc_map_ge (xs : List MVal) : 1 + (encList xs).length ≤ (enc (.map xs)).length := by
  simp only [enc, List.length_append]; have := mapHead_length_pos (xs.length / 2); omega

theorem enc_pos (m : MVal) : 1 ≤ (enc m).length := by
  have := depth_le_length m; have := depth_pos m; omega

mutual
theorem need_le_length (reg : Registry) (pv : PV) (m : MVal) (hok : PVOK reg pv) (hm : toM pv = some m) :
    need pv ≤ (enc m).length := by
  match pv, hok, hm with
  | .none, _, hm => simp [toM] at hm; subst hm; simp [need, enc]
  | .bool b, _, hm => simp [toM] at hm; subst hm; cases b <;> simp [need, enc]
  | .float x, _, hm => simp [toM] at hm; subst hm; simp [need, enc]
  | .bytes b, _, hm => simp [toM] at hm; subst hm; simp only [need]; exact enc_pos _
  | .str s, hok, hm =>
    obtain ⟨b, h1, _, _⟩ := mstr_ok s hok
    simp only [toM, h1, Option.some.injEq] at hm; subst hm
    simp only [need]; exact enc_pos _
  | .int i, hok, hm =>
    simp only [toM] at hm
    split at hm
    · rename_i hn; simp at hm; subst hm
      simp only [need, hn, if_true]; exact enc_pos _
    · rename_i hn; simp at hm; subst hm
      have := enc_envelope_length tVarint (.arr [.bool (decide (i < 0)), .bin (magBytes i.natAbs)])
      simp only [need, hn]; simp; omega
  | .dtUtc fs, _, hm =>
    simp only [toM, Option.some.injEq] at hm; subst hm
    have := enc_envelope_length tDatetime (.arr (fs.map fun n => MVal.int (Int.ofNat n)))
    simp only [need]; omega
  | .dtIso t, hok, hm =>
    obtain ⟨b, h1, _, _⟩ := mstr_ok t hok.1
    simp only [toM, h1, Option.map_some, Option.some.injEq] at hm; subst hm
    have := enc_envelope_length tDatetime (.arr [.str b])
    simp only [need]; omega
  | .seq xs, hok, hm =>
    simp only [toM, Option.map_eq_some_iff] at hm
    obtain ⟨ms, h1, rfl⟩ := hm
    have := needList_le_length reg xs ms hok.2 h1
    have := enc_arr_ge ms
    simp only [need]; omega
  | .dict xs, hok, hm =>
    simp only [toM, Option.map_eq_some_iff] at hm
    obtain ⟨ms, h1, rfl⟩ := hm
    have := needList_le_length reg xs ms hok.2.2 h1
    have := enc_map_ge ms
    simp only [need]; omega
  | .record d vals, hok, hm =>
    obtain ⟨hname, _, _, _, _, hvals, _⟩ := hok
    obtain ⟨nb, hn1, _, _⟩ := mstr_ok d.name hname
    have hi : identM d = some (.arr [.str nb, .int d.hash]) := by simp [identM, hn1]
    simp only [toM, bind, Option.bind, hi] at hm
    cases hv : toMList vals with
    | none => simp [hv] at hm
    | some vs =>
      simp [hv] at hm; subst hm
      have h1 := needList_le_length reg vals vs hvals hv
      have h2 := enc_envelope_length tRecord (.arr [.arr [.str nb, .int d.hash], .arr vs])
      have h3 := enc_arr_ge [.arr [.str nb, .int d.hash], .arr vs]
      have h4 := enc_arr_ge vs
      have h5 : (encList [MVal.arr [.str nb, .int d.hash], .arr vs]).length =
          (enc (.arr [.str nb, .int d.hash])).length + (enc (.arr vs)).length := by simp [encList]
      have h6 := enc_pos (.arr [.str nb, .int d.hash])
      simp only [need]; omega
  | .grouped name ms, hok, hm =>
    obtain ⟨hname, _, hmem, _⟩ := hok
    obtain ⟨nb, hn1, _, _⟩ := mstr_ok name hname
    simp only [toM, bind, Option.bind, hn1] at hm
    cases hv : toMMembers ms with
    | none => simp [hv] at hm
    | some members =>
      simp [hv] at hm; subst hm
      have h1 := needMembers_le_length reg ms members hmem hv
      have h2 := enc_envelope_length tGrouped (.arr [.str nb, .arr members])
      have h3 := enc_arr_ge [.str nb, .arr members]
      have h4 := enc_arr_ge members
      have h5 : (encList [MVal.str nb, .arr members]).length = (enc (.str nb)).length + (enc (.arr members)).length := by
        simp [encList]
      have h6 := enc_pos (.str nb)
      simp only [need]; omega
  | .desc _, hok, _ => exact absurd hok (by simp [PVOK])
theorem needMembers_le_length (reg : Registry) (ms : List PV) (members : List MVal) (hok : PVOKMembers reg ms)
    (hm : toMMembers ms = some members) : needMembers ms ≤ (encList members).length := by
  match ms, hok, hm with
  | [], _, hm => simp [toMMembers] at hm; subst hm; simp [needMembers]
  | .record d vals :: xs, hok, hm =>
    obtain ⟨hname, _, _, _, hvals, hrest⟩ := hok
    obtain ⟨nb, hn1, _, _⟩ := mstr_ok d.name hname
    have hi : identM d = some (.arr [.str nb, .int d.hash]) := by simp [identM, hn1]
    simp only [toMMembers, bind, Option.bind, hi] at hm
    cases hv : toMList vals with
    | none => simp [hv] at hm
    | some vs =>
      cases hr : toMMembers xs with
      | none => simp [hv, hr] at hm
      | some r =>
        simp [hv, hr] at hm; subst hm
        have h1 := needList_le_length reg vals vs hvals hv
        have h2 := needMembers_le_length reg xs r hrest hr
        have h3 := enc_arr_ge [.arr [.str nb, .int d.hash], .arr vs]
        have h4 := enc_arr_ge vs
        have h5 : (encList [MVal.arr [.str nb, .int d.hash], .arr vs]).length =
            (enc (.arr [.str nb, .int d.hash])).length + (enc (.arr vs)).length := by simp [encList]
        simp only [needMembers, encList, List.length_append]; omega
  | .none :: _, hok, _ => exact absurd hok (by simp [PVOKMembers])
  | .bool _ :: _, hok, _ => exact absurd hok (by simp [PVOKMembers])
  | .int _ :: _, hok, _ => exact absurd hok (by simp [PVOKMembers])
  | .float _ :: _, hok, _ => exact absurd hok (by simp [PVOKMembers])
  | .str _ :: _, hok, _ => exact absurd hok (by simp [PVOKMembers])
  | .bytes _ :: _, hok, _ => exact absurd hok (by simp [PVOKMembers])
  | .seq _ :: _, hok, _ => exact absurd hok (by simp [PVOKMembers])
  | .dict _ :: _, hok, _ => exact absurd hok (by simp [PVOKMembers])
  | .dtUtc _ :: _, hok, _ => exact absurd hok (by simp [PVOKMembers])
  | .dtIso _ :: _, hok, _ => exact absurd hok (by simp [PVOKMembers])
  | .grouped _ _ :: _, hok, _ => exact absurd hok (by simp [PVOKMembers])
  | .desc _ :: _, hok, _ => exact absurd hok (by simp [PVOKMembers])
theorem needList_le_length (reg : Registry) (xs : List PV) (ms : List MVal) (hok : PVOKList reg xs)
    (hm : toMList xs = some ms) : needList xs ≤ (encList ms).length := by
  match xs, hok, hm with
  | [], _, hm => simp [toMList] at hm; subst hm; simp [needList]
  | x :: xs, hok, hm =>
    simp only [toMList, bind, Option.bind] at hm
    cases hx : toM x with
    | none => simp [hx] at hm
    | some a =>
      cases hr : toMList xs with
      | none => simp [hx, hr] at hm
      | some r =>
        simp [hx, hr] at hm; subst hm
        have h1 := need_le_length reg x a hok.1 hx
        have h2 := needList_le_length reg xs r hok.2 hr
        simp only [needList, encList, List.length_append]; omega
end


theorem fromM_mono (reg : Registry) (pv : PV) (m : MVal) (f : Nat) (hok : PVOK reg pv) (hm : toM pv = some m)
    (hf : (enc m).length ≤ f) : fromM reg f m = .ok (rvOf pv) :=
  fromM_toM reg pv m f hok hm (Nat.le_trans (need_le_length reg pv m hok hm) hf)

/-- a complete object frame is decoded to the object -/
theorem decodeFrame_obj (reg : Registry) (pv : PV) (m : MVal) (hok : PVOK reg pv) (hm : toM pv = some m) :
    decodeFrame reg (enc m) = .ok (rvOf pv) := by
  unfold decodeFrame
  rw [decode_enc m (toM_WF reg pv m hok hm)]
  exact fromM_mono reg pv m _ hok hm (by omega)

/-- a complete descriptor frame is decoded to the descriptor's name and fields -/
theorem decodeFrame_desc (reg : Registry) (d : Desc) (m : MVal) (hok : DescOK d) (hm : toM (.desc d) = some m) :
    decodeFrame reg (enc m) = .ok (.desc d.name d.fields) := by
  unfold decodeFrame
  have hlen : 5 ≤ (enc m).length + 2 := by
    cases hp : descPayload d with
    | none => simp [toM, hp] at hm
    | some pl =>
      simp only [toM, hp, Option.map_some, Option.some.injEq] at hm
      subst hm
      have := enc_envelope_length tDescriptor pl
      omega
  obtain ⟨g, hg⟩ : ∃ g, (enc m).length + 2 = g + 5 := ⟨(enc m).length + 2 - 5, by omega⟩
  obtain ⟨hw, hfm⟩ := fromM_desc reg d m g hok hm
  rw [decode_enc m hw, hg]
  exact hfm

/-- the header frame decodes to the magic bytes -/
theorem decodeFrame_magic (reg : Registry) : decodeFrame reg magicBody = .ok (.bytes Gen.RECORDSTREAM_MAGIC) := by
  unfold decodeFrame magicBody
  rw [decode_enc _ (by simp [WF]; decide)]
  obtain ⟨g, hg⟩ : ∃ g, (enc (.bin Gen.RECORDSTREAM_MAGIC)).length + 2 = g + 1 := ⟨_, rfl⟩
  rw [hg]
  exact (fromM_leaf reg g).2.2.2.2.2 _

/-- one reading step over a complete frame -/
theorem read_step (hashOf : PyStr → List (PyStr × PyStr) → Nat) (fuel : Nat) (reg : Registry) (body rest : Bytes)
    (hl : body.length < 4294967296) :
    readFramesH hashOf (fuel + 1) reg (frameBytes body ++ rest) =
      (match decodeFrame reg body with
       | .error e => ([], .error e)
       | .ok (.bytes b) =>
         if b == Gen.RECORDSTREAM_MAGIC then readFramesH hashOf fuel reg rest
         else ((RV.bytes b) :: (readFramesH hashOf fuel reg rest).1, (readFramesH hashOf fuel reg rest).2)
       | .ok (.desc name fields) =>
         readFramesH hashOf fuel (regInsert reg { name := name, fields := fields, hash := hashOf name fields }) rest
       | .ok v => (v :: (readFramesH hashOf fuel reg rest).1, (readFramesH hashOf fuel reg rest).2)) := by
  conv => lhs; unfold readFramesH
  rw [nextFrame_frame body rest hl]
  simp only []
  split <;> simp_all


theorem newDescs_fold (ds : List Desc) (reg : Registry) :
    (newDescs reg ds).1 = (newDescs reg ds).2.foldl regInsert reg := by
  induction ds generalizing reg with
  | nil => simp [newDescs]
  | cons d ds ih =>
    simp only [newDescs]
    split
    · simp only [List.foldl_cons]; exact ih _
    · exact ih _

theorem streamOf_cons (b : Bytes) (bs : List Bytes) : streamOf (b :: bs) = frameBytes b ++ streamOf bs := by
  simp [streamOf]

theorem streamOf_append (a b : List Bytes) : streamOf (a ++ b) = streamOf a ++ streamOf b := by
  simp [streamOf]

theorem desc_eta (d : Desc) (hashOf : PyStr → List (PyStr × PyStr) → Nat) (h : hashOf d.name d.fields = d.hash) :
    ({ name := d.name, fields := d.fields, hash := hashOf d.name d.fields } : Desc) = d := by
  cases d; simp_all

/-- reading the descriptor frames the writer emitted registers exactly those descriptors, in order -/
theorem read_descs (hashOf : PyStr → List (PyStr × PyStr) → Nat) (ds : List Desc) (bodies : List Bytes)
    (reg : Registry) (rest : Bytes) (fuel : Nat)
    (hds : ∀ d ∈ ds, DescOK d ∧ hashOf d.name d.fields = d.hash)
    (hb : ds.mapM (fun d => (toM (.desc d)).map enc) = some bodies)
    (hsz : ∀ b ∈ bodies, b.length < 4294967296) :
    readFramesH hashOf (fuel + ds.length) reg (streamOf bodies ++ rest) =
      readFramesH hashOf fuel (ds.foldl regInsert reg) rest := by
  induction ds generalizing bodies reg with
  | nil => simp at hb; subst hb; simp [streamOf]
  | cons d ds ih =>
    rw [List.mapM_cons] at hb
    cases hm : toM (.desc d) with
    | none => simp [hm] at hb
    | some m =>
      cases hr : ds.mapM (fun d => (toM (.desc d)).map enc) with
      | none => simp [hm, hr] at hb
      | some bs =>
        simp [hm, hr] at hb; subst hb
        have hd := hds d (by simp)
        rw [streamOf_cons, List.append_assoc, List.length_cons, ← Nat.add_assoc,
          read_step hashOf _ reg (enc m) _ (hsz _ (by simp)), decodeFrame_desc reg d m hd.1 hm]
        simp only [desc_eta d hashOf hd.2, List.foldl_cons]
        exact ih bs _ (fun d' hd' => hds d' (by simp [hd'])) hr (fun b hb => hsz b (by simp [hb]))

/-- what a stream carries as objects: records and grouped records -/
def IsObj (o : PV) : Prop := (∃ d vals, o = .record d vals) ∨ (∃ name ms, o = .grouped name ms)

/-- one `write` of a record, then the reader: the record's own descriptors are registered first, then the record
    comes out as written -/
theorem read_write (hashOf : PyStr → List (PyStr × PyStr) → Nat) (st st' : WState) (o : PV) (hobj : IsObj o)
    (fs : List Bytes) (rest : Bytes) (fuel : Nat)
    (hw : write st o = some (st', fs)) (hhdr : st.headerWritten = true)
    (hds : ∀ d' ∈ (newDescs st.registry (descsOf o)).2, DescOK d' ∧ hashOf d'.name d'.fields = d'.hash)
    (hok : PVOK st'.registry o)
    (hsz : ∀ b ∈ fs, b.length < 4294967296) :
    readFramesH hashOf (fuel + fs.length) st.registry (streamOf fs ++ rest) =
      (rvOf o :: (readFramesH hashOf fuel st'.registry rest).1,
       (readFramesH hashOf fuel st'.registry rest).2) := by
  unfold write at hw
  cases hdm : (newDescs st.registry (descsOf o)).2.mapM (fun d => (toM (.desc d)).map enc) with
  | none => simp [hdm] at hw
  | some dframes =>
    cases hbm : (toM o).map enc with
    | none => simp [hdm, hbm] at hw
    | some body =>
      simp only [hdm, hbm, hhdr, if_true, Option.some.injEq, Prod.mk.injEq, List.nil_append] at hw
      obtain ⟨h1, h2⟩ := hw
      subst h1 h2
      simp only [Option.map_eq_some_iff] at hbm
      obtain ⟨m, hm, rfl⟩ := hbm
      have hdl : dframes.length = (newDescs st.registry (descsOf o)).2.length := by
        clear hsz
        generalize (newDescs st.registry (descsOf o)).2 = ds at hdm
        induction ds generalizing dframes with
        | nil => simp at hdm; subst hdm; rfl
        | cons x xs ih =>
          rw [List.mapM_cons] at hdm
          cases h1 : (toM (.desc x)).map enc with
          | none => simp [h1] at hdm
          | some a =>
            cases h2 : xs.mapM (fun d => (toM (.desc d)).map enc) with
            | none => simp [h1, h2] at hdm
            | some r => simp [h1, h2] at hdm; subst hdm; simp [ih r h2]
      rw [streamOf_append, List.append_assoc, List.length_append, List.length_cons, List.length_nil, hdl,
        show fuel + ((newDescs st.registry (descsOf o)).2.length + (0 + 1)) =
          (fuel + 1) + (newDescs st.registry (descsOf o)).2.length by omega,
        read_descs hashOf _ dframes st.registry _ (fuel + 1) hds hdm (fun b hb => hsz b (by simp [hb])),
        ← newDescs_fold, streamOf_cons]
      simp only [streamOf, List.flatMap_nil, List.append_nil]
      rw [read_step hashOf fuel _ (enc m) rest (hsz _ (by simp)), decodeFrame_obj _ _ m hok hm]
      rcases hobj with ⟨d, vals, rfl⟩ | ⟨name, ms, rfl⟩ <;> simp [rvOf]


/-- An admissible history as seen from a writer's registry: every object is a record (possibly holding nested
    records) or a grouped record, every descriptor that gets emitted is encodable and is hashed by the reader as by the writer, and the
    object is admissible in the registry that is in force once its descriptors are registered. -/
def HistOK (hashOf : PyStr → List (PyStr × PyStr) → Nat) : Registry → List PV → Prop
  | _, [] => True
  | reg, o :: os =>
    IsObj o ∧
    (∀ d' ∈ (newDescs reg (descsOf o)).2, DescOK d' ∧ hashOf d'.name d'.fields = d'.hash) ∧
    PVOK (newDescs reg (descsOf o)).1 o ∧
    HistOK hashOf (newDescs reg (descsOf o)).1 os

theorem read_end (hashOf : PyStr → List (PyStr × PyStr) → Nat) (fuel : Nat) (reg : Registry) :
    readFramesH hashOf fuel reg [] = ([], .eof) := by
  cases fuel with
  | zero => unfold readFramesH; rfl
  | succ n => unfold readFramesH; simp [nextFrame]

theorem write_registry (st st' : WState) (o : PV) (fs : List Bytes) (h : write st o = some (st', fs)) :
    st'.registry = (newDescs st.registry (descsOf o)).1 ∧ st'.headerWritten = true := by
  unfold write at h
  cases hd : (newDescs st.registry (descsOf o)).2.mapM (fun d => (toM (.desc d)).map enc) with
  | none => simp [hd] at h
  | some dframes =>
    cases hb : (toM o).map enc with
    | none => simp [hd, hb] at h
    | some body =>
      simp only [hd, hb, Option.some.injEq, Prod.mk.injEq] at h
      obtain ⟨h1, _⟩ := h
      subst h1
      exact ⟨rfl, rfl⟩

/-- The stream theorem, frames after the header: for every admissible history, the reader run over the bytes the
    writer produced yields exactly the objects written, in order, each as written, and then ends cleanly. -/
theorem read_writeAll (hashOf : PyStr → List (PyStr × PyStr) → Nat) (objs : List PV) (st st' : WState)
    (frames : List Bytes) (fuel : Nat)
    (hw : writeAll st objs = some (st', frames)) (hhdr : st.headerWritten = true)
    (hok : HistOK hashOf st.registry objs) (hsz : ∀ b ∈ frames, b.length < 4294967296) :
    readFramesH hashOf (fuel + frames.length) st.registry (streamOf frames) = (rvOfList objs, .eof) := by
  induction objs generalizing st st' frames fuel with
  | nil =>
    simp [writeAll] at hw
    obtain ⟨_, rfl⟩ := hw
    simp [streamOf, read_end, rvOfList]
  | cons o os ih =>
    simp only [writeAll, bind, Option.bind] at hw
    cases h1 : write st o with
    | none => simp [h1] at hw
    | some r1 =>
      obtain ⟨st1, f1⟩ := r1
      cases h2 : writeAll st1 os with
      | none => simp [h1, h2] at hw
      | some r2 =>
        obtain ⟨st2, f2⟩ := r2
        simp [h1, h2] at hw
        obtain ⟨rfl, rfl⟩ := hw
        obtain ⟨hobj, hds, hpv, hrest⟩ := hok
        obtain ⟨hreg, hh1⟩ := write_registry st st1 _ f1 h1
        have hstep := read_write hashOf st st1 o hobj f1 (streamOf f2) (fuel + f2.length) h1 hhdr hds
          (by rw [hreg]; exact hpv) (fun b hb => hsz b (by simp [hb]))
        have ihh := ih st1 st2 f2 fuel h2 hh1 (by rw [hreg]; exact hrest) (fun b hb => hsz b (by simp [hb]))
        rw [streamOf_append, List.length_append,
          show fuel + (f1.length + f2.length) = (fuel + f2.length) + f1.length by omega, hstep, ihh]
        simp [rvOfList]

theorem length_le_streamOf (frames : List Bytes) : frames.length ≤ (streamOf frames).length := by
  induction frames with
  | nil => simp
  | cons f fs ih =>
    simp only [streamOf, List.flatMap_cons, List.length_append, frameBytes_length, List.length_cons] at ih ⊢
    omega

theorem readHeader_magic (rest : Bytes) : readHeader (frameBytes magicBody ++ rest) = some rest := by
  have hl : (frameBytes magicBody).length = headerLen := by decide
  unfold readHeader
  rw [List.take_left' hl, List.drop_left' hl]
  have : Gen.RECORDSTREAM_MAGIC.reverse.isPrefixOf (frameBytes magicBody).reverse = true := by decide
  simp [this]

/-- a fresh writer emits the header frame first; the rest is what a writer with the header already out emits -/
theorem write_fresh (reg : Registry) (o : PV) (st' : WState) (fs : List Bytes)
    (h : write { headerWritten := false, registry := reg } o = some (st', fs)) :
    ∃ fs', fs = magicBody :: fs' ∧ write { headerWritten := true, registry := reg } o = some (st', fs') := by
  unfold write at h ⊢
  cases hd : (newDescs reg (descsOf o)).2.mapM (fun d => (toM (.desc d)).map enc) with
  | none => simp [hd] at h
  | some dframes =>
    cases hb : (toM o).map enc with
    | none => simp [hd, hb] at h
    | some body =>
      simp only [hd, hb, Option.some.injEq, Prod.mk.injEq] at h
      obtain ⟨h1, h2⟩ := h
      subst h1 h2
      exact ⟨dframes ++ [body], by simp, by simp [hd, hb]⟩

/-- C01 at the byte level: for every admissible non-empty history written by a fresh writer, `readAll` over the bytes
    of the stream returns exactly the records written, in order, and ends cleanly. -/
theorem readAll_writeAll (hashOf : PyStr → List (PyStr × PyStr) → Nat) (o : PV) (os : List PV) (st' : WState)
    (frames : List Bytes)
    (hw : writeAll WState.init (o :: os) = some (st', frames))
    (hok : HistOK hashOf [] (o :: os)) (hsz : ∀ b ∈ frames, b.length < 4294967296) :
    readAll hashOf (streamOf frames) = (rvOfList (o :: os), .eof) := by
  simp only [writeAll, bind, Option.bind] at hw
  cases h1 : write WState.init o with
  | none => simp [h1] at hw
  | some r1 =>
    obtain ⟨st1, f1⟩ := r1
    cases h2 : writeAll st1 os with
    | none => simp [h1, h2] at hw
    | some r2 =>
      obtain ⟨st2, f2⟩ := r2
      simp [h1, h2] at hw
      obtain ⟨_, rfl⟩ := hw
      obtain ⟨f1', rfl, h1'⟩ := write_fresh [] o st1 f1 h1
      have hw' : writeAll { headerWritten := true, registry := [] } (o :: os) = some (st2, f1' ++ f2) := by
        simp [writeAll, bind, Option.bind, h1', h2]
      have hmain := read_writeAll hashOf (o :: os) { headerWritten := true, registry := [] } st2 (f1' ++ f2)
        ((streamOf (f1' ++ f2)).length - (f1' ++ f2).length) hw' rfl hok (fun b hb => hsz b (by
          simp only [List.cons_append, List.mem_cons]; exact Or.inr hb))
      have hfuel : (streamOf (f1' ++ f2)).length - (f1' ++ f2).length + (f1' ++ f2).length =
          (streamOf (f1' ++ f2)).length := by
        have := length_le_streamOf (f1' ++ f2); omega
      rw [hfuel] at hmain
      unfold readAll
      rw [List.cons_append, streamOf_cons, readHeader_magic]
      exact hmain

end FlowRecord.Stream
