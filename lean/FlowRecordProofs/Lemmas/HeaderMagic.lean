import FlowRecord.Model.Stream
/-! The strict header check of `RecordStreamReader.readheader`: the stream magic anywhere else than at the end of the
    19-byte header frame is refused. -/
open FlowRecord
namespace FlowRecord.Stream

theorem magic_not_suffix_shifted (X t : Bytes) (h1 : 1 ≤ t.length) (h2 : t.length ≤ 6) :
    Gen.RECORDSTREAM_MAGIC.reverse.isPrefixOf (X ++ Gen.RECORDSTREAM_MAGIC ++ t).reverse = false := by
  simp only [List.reverse_append]
  match t, h1, h2 with
  | [a], _, _ => simp [Gen.RECORDSTREAM_MAGIC, List.isPrefixOf]
  | [a, b], _, _ => simp [Gen.RECORDSTREAM_MAGIC, List.isPrefixOf]
  | [a, b, c], _, _ => simp [Gen.RECORDSTREAM_MAGIC, List.isPrefixOf]
  | [a, b, c, d], _, _ => simp [Gen.RECORDSTREAM_MAGIC, List.isPrefixOf]
  | [a, b, c, d, e], _, _ => simp [Gen.RECORDSTREAM_MAGIC, List.isPrefixOf]
  | [a, b, c, d, e, f], _, _ => simp [Gen.RECORDSTREAM_MAGIC, List.isPrefixOf]
  | _ :: _ :: _ :: _ :: _ :: _ :: _ :: _, _, h2 => simp at h2

theorem readHeader_misplaced_magic (junk tail : Bytes) (hj : junk.length < 6)
    (hl : headerLen ≤ (junk ++ Gen.RECORDSTREAM_MAGIC ++ tail).length) :
    readHeader (junk ++ Gen.RECORDSTREAM_MAGIC ++ tail) = none := by
  have hm : Gen.RECORDSTREAM_MAGIC.length = 13 := by decide
  have hh : headerLen = 19 := by decide
  simp only [List.length_append, hm, hh] at hl
  have ht : (junk ++ Gen.RECORDSTREAM_MAGIC ++ tail).take headerLen =
      junk ++ Gen.RECORDSTREAM_MAGIC ++ tail.take (6 - junk.length) := by
    rw [hh, List.take_append, List.take_of_length_le (by simp [hm]; omega)]
    congr 1
    simp only [List.length_append, hm]
    congr 1
    omega
  have hn := magic_not_suffix_shifted junk (tail.take (6 - junk.length)) (by simp [List.length_take]; omega)
    (by simp [List.length_take]; omega)
  unfold readHeader
  simp only [ht, hn]
  simp

end FlowRecord.Stream
