import FlowRecord.Model.Msgpack
/-! Helper lemmas for the msgpack model (M1: decoding the packer's output gives the value back). -/
namespace FlowRecord.Msgpack
open FlowRecord

theorem u8 (n : Nat) (h : n < 256) : (UInt8.ofNat n).toNat = n := by
  rw [UInt8.toNat_ofNat']; omega

@[simp] theorem beEnc_length (k n : Nat) : (beEnc k n).length = k := by
  induction k with
  | zero => rfl
  | succ k ih => simp [beEnc, ih]

theorem foldl_beEnc (k n acc : Nat) :
    (beEnc k n).foldl (fun a (b : UInt8) => a * 256 + b.toNat) acc = acc * 256 ^ k + n % 256 ^ k := by
  induction k generalizing acc with
  | zero => simp [beEnc, Nat.mod_one]
  | succ k ih =>
    simp only [beEnc, List.foldl_cons]
    rw [ih, u8 _ (Nat.mod_lt _ (by omega))]
    have h1 : n % 256 ^ (k + 1) = n % 256 ^ k + 256 ^ k * (n / 256 ^ k % 256) := by
      rw [Nat.pow_succ]; exact Nat.mod_mul
    rw [h1, Nat.pow_succ]
    rw [Nat.add_mul, Nat.mul_assoc, Nat.mul_comm 256 (256 ^ k), Nat.mul_comm (n / 256 ^ k % 256)]
    omega

theorem beDec_beEnc (k n : Nat) (h : n < 256 ^ k) : beDec (beEnc k n) = n := by
  unfold beDec
  rw [foldl_beEnc, Nat.mod_eq_of_lt h]; simp

theorem takeN_append (a r : Bytes) (k : Nat) (h : a.length = k) : takeN k (a ++ r) = some (a, r) := by
  unfold takeN
  have : k ≤ (a ++ r).length := by simp; omega
  rw [if_pos this, List.take_left' h, List.drop_left' h]

theorem withNum_beEnc (k n : Nat) (r : Bytes) (f : Nat → Bytes → Res (MVal × Bytes)) (h : n < 256 ^ k) :
    withNum k (beEnc k n ++ r) f = f n r := by
  unfold withNum
  rw [takeN_append _ _ _ (beEnc_length k n)]
  simp only [beDec_beEnc k n h]

theorem payload_append (p r : Bytes) (mk : Bytes → MVal) : payload p.length (p ++ r) mk = .ok (mk p, r) := by
  unfold payload
  rw [takeN_append _ _ _ rfl]


theorem decStep_negfix (self : Bytes → Res (MVal × Bytes)) (b : UInt8) (rest : Bytes) (h : 224 ≤ b.toNat) :
    decStep self (b :: rest) = .ok (.int ((b.toNat : Int) - 256), rest) := by
  simp only [decStep]
  repeat rw [if_neg (by omega)]

theorem decStep_fixstr (self : Bytes → Res (MVal × Bytes)) (b : UInt8) (rest : Bytes) (h : 160 ≤ b.toNat) (h2 : b.toNat < 192) :
    decStep self (b :: rest) = payload (b.toNat - 160) rest .str := by
  simp only [decStep]
  repeat rw [if_neg (by omega)]
  rw [if_pos (by omega)]
theorem decStep_fixarr (self : Bytes → Res (MVal × Bytes)) (b : UInt8) (rest : Bytes) (h : 144 ≤ b.toNat) (h2 : b.toNat < 160) :
    decStep self (b :: rest) = decArr self (b.toNat - 144) rest := by
  simp only [decStep]
  repeat rw [if_neg (by omega)]
  rw [if_pos (by omega)]
theorem decStep_fixmap (self : Bytes → Res (MVal × Bytes)) (b : UInt8) (rest : Bytes) (h : 128 ≤ b.toNat) (h2 : b.toNat < 144) :
    decStep self (b :: rest) = decMap self (b.toNat - 128) rest := by
  simp only [decStep]
  repeat rw [if_neg (by omega)]
  rw [if_pos (by omega)]

theorem signed_wrap (k : Nat) (i : Int) (hk : 0 < k) (hlo : -((256 ^ k / 2 : Nat) : Int) ≤ i) (hneg : i < 0) :
    signed k ((256 ^ k : Nat) + i).toNat = i := by
  unfold signed
  have hp : (256 ^ k : Nat) = 2 * (256 ^ k / 2) := by
    cases k with
    | zero => omega
    | succ k => rw [Nat.pow_succ]; omega
  have : ¬ (((256 ^ k : Nat) : Int) + i).toNat < 256 ^ k / 2 := by omega
  rw [if_neg this]
  omega

theorem decStep_int (self : Bytes → Res (MVal × Bytes)) (i : Int) (r : Bytes)
    (h1 : -9223372036854775808 ≤ i) (h2 : i < 18446744073709551616) :
    decStep self (encInt i ++ r) = .ok (.int i, r) := by
  unfold encInt
  by_cases h0 : 0 ≤ i
  · obtain ⟨n, rfl⟩ := Int.eq_ofNat_of_zero_le h0
    simp only [Int.toNat_natCast, Int.natCast_nonneg, if_true]
    split
    · rename_i h
      simp [decStep, u8 n (by omega), h]
    · split
      · simp [decStep, withNum_beEnc 1 n r _ (by omega)]
      · split
        · simp [decStep, withNum_beEnc 2 n r _ (by omega)]
        · split
          · simp [decStep, withNum_beEnc 4 n r _ (by omega)]
          · simp [decStep, withNum_beEnc 8 n r _ (by omega)]
  · rw [if_neg h0]
    split
    · have hb : (256 + i).toNat < 256 := by omega
      rw [List.cons_append, List.nil_append, decStep_negfix _ _ _ (by rw [u8 _ hb]; omega), u8 _ hb]
      have e : ((256 + i).toNat : Int) = 256 + i := Int.toNat_of_nonneg (by omega)
      rw [e]
      have e2 : 256 + i - 256 = i := by omega
      rw [e2]
    · split
      · have := signed_wrap 1 i (by omega) (by simp; omega) (by omega)
        simp at this
        simp [decStep, withNum_beEnc 1 _ r _ (show (256 + i).toNat < 256 ^ 1 by omega), this]
      · split
        · have := signed_wrap 2 i (by omega) (by simp; omega) (by omega)
          simp at this
          simp [decStep, withNum_beEnc 2 _ r _ (show (65536 + i).toNat < 256 ^ 2 by omega), this]
        · split
          · have := signed_wrap 4 i (by omega) (by simp; omega) (by omega)
            simp at this
            simp [decStep, withNum_beEnc 4 _ r _ (show (4294967296 + i).toNat < 256 ^ 4 by omega), this]
          · have := signed_wrap 8 i (by omega) (by simp; omega) (by omega)
            simp at this
            simp [decStep, withNum_beEnc 8 _ r _ (show (18446744073709551616 + i).toNat < 256 ^ 8 by omega), this]

theorem decStep_str (self : Bytes → Res (MVal × Bytes)) (p r : Bytes) (h : p.length < 4294967296) :
    decStep self (strHead p.length ++ p ++ r) = .ok (.str p, r) := by
  unfold strHead
  split
  · rename_i h32
    rw [List.append_assoc, List.cons_append, List.nil_append,
      decStep_fixstr _ _ _ (by rw [u8 _ (by omega)]; omega) (by rw [u8 _ (by omega)]; omega), u8 _ (by omega)]
    simp [payload_append]
  · split
    · simp [decStep, withNum_beEnc 1 _ (p ++ r) _ (show p.length < 256 ^ 1 by omega), payload_append]
    · split
      · simp [decStep, withNum_beEnc 2 _ (p ++ r) _ (show p.length < 256 ^ 2 by omega), payload_append]
      · simp [decStep, withNum_beEnc 4 _ (p ++ r) _ (show p.length < 256 ^ 4 by omega), payload_append]

theorem decStep_bin (self : Bytes → Res (MVal × Bytes)) (p r : Bytes) (h : p.length < 4294967296) :
    decStep self (binHead p.length ++ p ++ r) = .ok (.bin p, r) := by
  unfold binHead
  split
  · simp [decStep, withNum_beEnc 1 _ (p ++ r) _ (show p.length < 256 ^ 1 by omega), payload_append]
  · split
    · simp [decStep, withNum_beEnc 2 _ (p ++ r) _ (show p.length < 256 ^ 2 by omega), payload_append]
    · simp [decStep, withNum_beEnc 4 _ (p ++ r) _ (show p.length < 256 ^ 4 by omega), payload_append]

theorem decExt_append (t : Nat) (p r : Bytes) (ht : t < 256) :
    decExt p.length (UInt8.ofNat t :: (p ++ r)) = .ok (.ext t p, r) := by
  simp [decExt, payload_append, u8 t ht]

theorem decStep_ext (self : Bytes → Res (MVal × Bytes)) (t : Nat) (p r : Bytes) (ht : t < 256)
    (h : p.length < 4294967296) :
    decStep self (extHead t p.length ++ p ++ r) = .ok (.ext t p, r) := by
  unfold extHead
  split
  · rename_i hl; have := decExt_append t p r ht; rw [hl] at this; simp [decStep, this]
  · split
    · rename_i hl; have := decExt_append t p r ht; rw [hl] at this; simp [decStep, this]
    · split
      · rename_i hl; have := decExt_append t p r ht; rw [hl] at this; simp [decStep, this]
      · split
        · rename_i hl; have := decExt_append t p r ht; rw [hl] at this; simp [decStep, this]
        · split
          · rename_i hl; have := decExt_append t p r ht; rw [hl] at this; simp [decStep, this]
          · split
            · simp [decStep, withNum_beEnc 1 _ _ _ (show p.length < 256 ^ 1 by omega), decExt_append t p r ht]
            · split
              · simp [decStep, withNum_beEnc 2 _ _ _ (show p.length < 256 ^ 2 by omega), decExt_append t p r ht]
              · simp [decStep, withNum_beEnc 4 _ _ _ (show p.length < 256 ^ 4 by omega), decExt_append t p r ht]



theorem depth_pos (v : MVal) : 1 ≤ depth v := by
  cases v <;> simp [depth]

theorem decArr_ok (self : Bytes → Res (MVal × Bytes)) (xs : List MVal) (bs r : Bytes)
    (h : decN self xs.length bs = .ok (xs, r)) : decArr self xs.length bs = .ok (.arr xs, r) := by
  simp [decArr, h]

theorem decStep_arr (self : Bytes → Res (MVal × Bytes)) (xs : List MVal) (body r : Bytes)
    (hl : xs.length < 4294967296)
    (h : decN self xs.length (body ++ r) = .ok (xs, r)) :
    decStep self (arrHead xs.length ++ body ++ r) = .ok (.arr xs, r) := by
  unfold arrHead
  split
  · rw [List.append_assoc, List.cons_append, List.nil_append,
      decStep_fixarr _ _ _ (by rw [u8 _ (by omega)]; omega) (by rw [u8 _ (by omega)]; omega), u8 _ (by omega)]
    simp [decArr, h]
  · split
    · simp [decStep, withNum_beEnc 2 _ (body ++ r) _ (show xs.length < 256 ^ 2 by omega), decArr, h]
    · simp [decStep, withNum_beEnc 4 _ (body ++ r) _ (show xs.length < 256 ^ 4 by omega), decArr, h]

theorem decStep_map (self : Bytes → Res (MVal × Bytes)) (xs : List MVal) (body r : Bytes)
    (he : xs.length % 2 = 0) (hl : xs.length / 2 < 4294967296)
    (h : decN self xs.length (body ++ r) = .ok (xs, r)) :
    decStep self (mapHead (xs.length / 2) ++ body ++ r) = .ok (.map xs, r) := by
  have h2 : 2 * (xs.length / 2) = xs.length := by omega
  unfold mapHead
  split
  · rw [List.append_assoc, List.cons_append, List.nil_append,
      decStep_fixmap _ _ _ (by rw [u8 _ (by omega)]; omega) (by rw [u8 _ (by omega)]; omega), u8 _ (by omega)]
    simp [decMap, h2, h]
  · split
    · simp [decStep, withNum_beEnc 2 _ (body ++ r) _ (show xs.length / 2 < 256 ^ 2 by omega), decMap, h2, h]
    · simp [decStep, withNum_beEnc 4 _ (body ++ r) _ (show xs.length / 2 < 256 ^ 4 by omega), decMap, h2, h]

mutual
theorem dec_enc (v : MVal) (f : Nat) (r : Bytes) (hw : WF v) (hf : depth v ≤ f) :
    dec f (enc v ++ r) = .ok (v, r) := by
  match f, hf with
  | 0, hf => have := depth_pos v; omega
  | f + 1, hf =>
    show decStep (dec f) (enc v ++ r) = .ok (v, r)
    match v, hw, hf with
    | .nil, _, _ => simp [enc, decStep]
    | .bool false, _, _ => simp [enc, decStep]
    | .bool true, _, _ => simp [enc, decStep]
    | .int i, hw, _ => simp only [enc]; exact decStep_int _ i r hw.1 hw.2
    | .f64 b, hw, _ =>
      simp only [enc, WF] at hw ⊢
      simp [decStep, withNum_beEnc 8 b r _ (show b < 256 ^ 8 by omega)]
    | .f32 b, hw, _ =>
      simp only [enc, WF] at hw ⊢
      simp [decStep, withNum_beEnc 4 b r _ (show b < 256 ^ 4 by omega)]
    | .str p, hw, _ => simp only [enc]; exact decStep_str _ p r hw
    | .bin p, hw, _ => simp only [enc]; exact decStep_bin _ p r hw
    | .ext t p, hw, _ => simp only [enc]; exact decStep_ext _ t p r hw.1 hw.2
    | .arr xs, hw, hf =>
      simp only [enc]
      have hd : depthList xs ≤ f := by simp [depth] at hf; omega
      exact decStep_arr _ xs (encList xs) r hw.1 (decN_encList xs f r hw.2 hd)
    | .map xs, hw, hf =>
      simp only [enc]
      have hd : depthList xs ≤ f := by simp [depth] at hf; omega
      exact decStep_map _ xs (encList xs) r hw.1 hw.2.1 (decN_encList xs f r hw.2.2 hd)
theorem decN_encList (xs : List MVal) (f : Nat) (r : Bytes) (hw : WFList xs) (hf : depthList xs ≤ f) :
    decN (dec f) xs.length (encList xs ++ r) = .ok (xs, r) := by
  match xs, hw, hf with
  | [], _, _ => simp [encList, decN]
  | x :: xs, hw, hf =>
    have hx : depth x ≤ f := by simp [depthList] at hf; omega
    have hxs : depthList xs ≤ f := by simp [depthList] at hf; omega
    have h1 := dec_enc x f (encList xs ++ r) hw.1 hx
    have h2 := decN_encList xs f r hw.2 hxs
    simp [encList, decN, List.append_assoc, h1, h2]
end



theorem encInt_length_pos (i : Int) : 1 ≤ (encInt i).length := by
  unfold encInt; repeat (first | split | simp)
theorem strHead_length_pos (n : Nat) : 1 ≤ (strHead n).length := by
  unfold strHead; repeat (first | split | simp)
theorem binHead_length_pos (n : Nat) : 1 ≤ (binHead n).length := by
  unfold binHead; repeat (first | split | simp)
theorem arrHead_length_pos (n : Nat) : 1 ≤ (arrHead n).length := by
  unfold arrHead; repeat (first | split | simp)
theorem mapHead_length_pos (n : Nat) : 1 ≤ (mapHead n).length := by
  unfold mapHead; repeat (first | split | simp)
theorem extHead_length_pos (t n : Nat) : 1 ≤ (extHead t n).length := by
  unfold extHead; repeat (first | split | simp)

mutual
theorem depth_le_length (v : MVal) : depth v ≤ (enc v).length := by
  match v with
  | .nil => simp [depth, enc]
  | .bool false => simp [depth, enc]
  | .bool true => simp [depth, enc]
  | .int i => simp only [depth, enc]; exact encInt_length_pos i
  | .f64 b => simp [depth, enc]
  | .f32 b => simp [depth, enc]
  | .str p => simp only [depth, enc, List.length_append]; have := strHead_length_pos p.length; omega
  | .bin p => simp only [depth, enc, List.length_append]; have := binHead_length_pos p.length; omega
  | .ext t p => simp only [depth, enc, List.length_append]; have := extHead_length_pos t p.length; omega
  | .arr xs =>
    simp only [depth, enc, List.length_append]
    have := arrHead_length_pos xs.length; have := depthList_le_length xs; omega
  | .map xs =>
    simp only [depth, enc, List.length_append]
    have := mapHead_length_pos (xs.length / 2); have := depthList_le_length xs; omega
theorem depthList_le_length (xs : List MVal) : depthList xs ≤ (encList xs).length := by
  match xs with
  | [] => simp [depthList]
  | x :: xs =>
    simp only [depthList, encList, List.length_append]
    have := depth_le_length x; have := depthList_le_length xs; omega
end

/-- M1 at the document level: `unpackb(packb(v)) = v`. -/
theorem decode_enc (v : MVal) (hw : WF v) : decode (enc v) = .ok v := by
  unfold decode
  have h := dec_enc v ((enc v).length + 1) [] hw (by have := depth_le_length v; omega)
  rw [List.append_nil] at h
  rw [h]


end FlowRecord.Msgpack
