import FlowRecordProofs.Lemmas.StreamRoundtrip
import FlowRecordProofs.Lemmas.MsgpackPrefix
/-!
The record-level prefix theorem (C04): the reader run over ANY byte prefix of a written stream yields exactly the
records whose frames are complete inside the prefix — a prefix of the records written, unaltered — and then ends
with EOF (cut at a frame boundary or inside a length prefix), with "incomplete input" (cut inside a frame body) or
with "not a record stream" (cut inside the header).
-/
open FlowRecord FlowRecord.Msgpack FlowRecord.Utf8 FlowRecord.Wire
namespace FlowRecord.Stream

theorem nextFrame_rest_length (bs body rest : Bytes) (h : nextFrame bs = some (body, rest)) :
    4 ≤ bs.length ∧ rest.length ≤ bs.length - 4 := by
  unfold nextFrame at h
  by_cases h4 : bs.length < 4
  · simp [h4] at h
  · simp only [h4, if_false, Option.some.injEq, Prod.mk.injEq] at h
    obtain ⟨_, rfl⟩ := h
    simp only [List.length_drop]
    omega

/-- enough fuel is enough: each frame consumes at least 4 bytes -/
theorem readFramesH_fuel (hashOf : PyStr → List (PyStr × PyStr) → Nat) :
    ∀ (f1 f2 : Nat) (reg : Registry) (bs : Bytes), bs.length < 4 * f1 + 4 → bs.length < 4 * f2 + 4 →
      readFramesH hashOf f1 reg bs = readFramesH hashOf f2 reg bs := by
  intro f1
  induction f1 with
  | zero =>
    intro f2 reg bs h1 _
    cases f2 with
    | zero => rfl
    | succ m =>
      have : nextFrame bs = none := by simp [nextFrame]; omega
      simp [readFramesH, this]
  | succ n ih =>
    intro f2 reg bs h1 h2
    cases f2 with
    | zero =>
      have : nextFrame bs = none := by simp [nextFrame]; omega
      simp [readFramesH, this]
    | succ m =>
      simp only [readFramesH]
      cases hn : nextFrame bs with
      | none => rfl
      | some br =>
        obtain ⟨body, rest⟩ := br
        obtain ⟨h4, hr⟩ := nextFrame_rest_length bs body rest hn
        have e : ∀ reg', readFramesH hashOf n reg' rest = readFramesH hashOf m reg' rest :=
          fun reg' => ih m reg' rest (by omega) (by omega)
        simp only [e]

/-- a frame whose file ends inside it: EOF inside the length prefix, "incomplete input" inside the body -/
theorem read_cut_frame (hashOf : PyStr → List (PyStr × PyStr) → Nat) (fuel : Nat) (reg : Registry) (m : MVal)
    (hw : WF m) (hl : (enc m).length < 4294967296) (j : Nat) (hj : j < (frameBytes (enc m)).length) :
    readFramesH hashOf (fuel + 1) reg ((frameBytes (enc m)).take j) =
      ([], if j < 4 then End.eof else End.error .incomplete) := by
  rw [frameBytes_length] at hj
  by_cases h4 : j < 4
  · have : nextFrame ((frameBytes (enc m)).take j) = none := by
      simp [nextFrame, List.length_take, frameBytes_length]; omega
    simp [readFramesH, this, h4]
  · have ht : (frameBytes (enc m)).take j = beEnc 4 (enc m).length ++ (enc m).take (j - 4) := by
      unfold frameBytes
      rw [List.take_append, List.take_of_length_le (by simp; omega)]
      simp
    have hl4 : ¬ (beEnc 4 (enc m).length ++ (enc m).take (j - 4)).length < 4 := by simp
    have e1 : (beEnc 4 (enc m).length ++ (enc m).take (j - 4)).take 4 = beEnc 4 (enc m).length :=
      List.take_left' (beEnc_length 4 _)
    have e2 : (beEnc 4 (enc m).length ++ (enc m).take (j - 4)).drop 4 = (enc m).take (j - 4) :=
      List.drop_left' (beEnc_length 4 _)
    have hnf : nextFrame ((frameBytes (enc m)).take j) = some ((enc m).take (j - 4), []) := by
      rw [ht]
      simp only [nextFrame, if_neg hl4, e1, e2, beDec_beEnc 4 _ (show (enc m).length < 256 ^ 4 by omega)]
      have h1 : ((enc m).take (j - 4)).take (enc m).length = (enc m).take (j - 4) := by
        rw [List.take_take]; congr 1; omega
      have h2 : ((enc m).take (j - 4)).drop (enc m).length = [] := by
        apply List.drop_of_length_le; simp [List.length_take]; omega
      rw [h1, h2]
    have hd : decodeFrame reg ((enc m).take (j - 4)) = .error .incomplete := by
      simp [decodeFrame, decode_take m (j - 4) hw (by omega)]
    simp [readFramesH, hnf, hd, h4]

/-- the frames of one `write` (descriptor frames, then the object frame), cut anywhere before their end: the
    descriptors that are complete get registered, nothing is yielded, and the reader stops with EOF or
    "incomplete input" -/
theorem read_cut_group (hashOf : PyStr → List (PyStr × PyStr) → Nat) (ds : List Desc) (bodies : List Bytes)
    (mlast : MVal) (reg : Registry) (fuel k : Nat)
    (hds : ∀ d ∈ ds, DescOK d ∧ hashOf d.name d.fields = d.hash)
    (hb : ds.mapM (fun d => (toM (.desc d)).map enc) = some bodies)
    (hwl : WF mlast) (hsz : ∀ b ∈ bodies ++ [enc mlast], b.length < 4294967296)
    (hk : k < (streamOf (bodies ++ [enc mlast])).length) :
    ∃ e, (e = End.eof ∨ e = End.error .incomplete) ∧
      readFramesH hashOf (fuel + ds.length + 1) reg ((streamOf (bodies ++ [enc mlast])).take k) = ([], e) := by
  induction ds generalizing bodies reg k with
  | nil =>
    simp at hb; subst hb
    simp only [List.nil_append, streamOf, List.flatMap_cons, List.flatMap_nil, List.append_nil] at hk ⊢
    refine ⟨(if k < 4 then End.eof else End.error .incomplete), ?_,
      read_cut_frame hashOf (fuel + 0) reg mlast hwl (hsz _ (by simp)) k hk⟩
    by_cases h : k < 4 <;> simp [h]
  | cons d ds ih =>
    rw [List.mapM_cons] at hb
    cases hm : toM (.desc d) with
    | none => simp [hm] at hb
    | some m =>
      cases hr : ds.mapM (fun d => (toM (.desc d)).map enc) with
      | none => simp [hm, hr] at hb
      | some bs =>
        simp [hm, hr] at hb; subst hb
        have hd := hds d (by simp)
        have hlm : (enc m).length < 4294967296 := hsz _ (by simp)
        have hs : streamOf (enc m :: bs ++ [enc mlast]) = frameBytes (enc m) ++ streamOf (bs ++ [enc mlast]) := by
          simp [streamOf]
        rw [hs] at hk ⊢
        by_cases hk1 : k < (frameBytes (enc m)).length
        · rw [List.take_append_of_le_length (by omega)]
          have hwm : WF m := (fromM_desc reg d m 0 hd.1 hm).1
          refine ⟨(if k < 4 then End.eof else End.error .incomplete), ?_, ?_⟩
          · by_cases h : k < 4 <;> simp [h]
          · have := read_cut_frame hashOf (fuel + ds.length + 1) reg m hwm hlm k hk1
            simpa [Nat.add_assoc] using this
        · have hk1' : (frameBytes (enc m)).length ≤ k := by omega
          rw [List.take_append, List.take_of_length_le hk1']
          obtain ⟨e, he, hrd⟩ := ih bs (regInsert reg d) (k - (frameBytes (enc m)).length)
            (fun d' hd' => hds d' (by simp [hd'])) hr (fun b hb => hsz b (by
              simp only [List.cons_append, List.mem_cons]; exact Or.inr hb))
            (by simp only [List.length_append] at hk; omega)
          refine ⟨e, he, ?_⟩
          rw [show fuel + (d :: ds).length + 1 = (fuel + ds.length + 1) + 1 by simp; omega,
            read_step hashOf _ reg (enc m) _ hlm, decodeFrame_desc reg d m hd.1 hm]
          simp only [desc_eta d hashOf hd.2]
          exact hrd

theorem mapM_length {α β : Type} (f : α → Option β) : ∀ (xs : List α) (ys : List β), xs.mapM f = some ys →
    ys.length = xs.length := by
  intro xs
  induction xs with
  | nil => intro ys h; simp at h; subst h; rfl
  | cons x xs ih =>
    intro ys h
    rw [List.mapM_cons] at h
    cases h1 : f x with
    | none => simp [h1] at h
    | some a =>
      cases h2 : xs.mapM f with
      | none => simp [h1, h2] at h
      | some r => simp [h1, h2] at h; subst h; simp [ih r h2]

/-- what one `write` emits once the header is out: the new descriptors' frames, then the object's frame -/
theorem write_decompose (st st' : WState) (o : PV) (fs : List Bytes) (h : write st o = some (st', fs))
    (hhdr : st.headerWritten = true) :
    ∃ dframes m, (newDescs st.registry (descsOf o)).2.mapM (fun d => (toM (.desc d)).map enc) = some dframes ∧
      toM o = some m ∧ fs = dframes ++ [enc m] ∧ dframes.length = (newDescs st.registry (descsOf o)).2.length := by
  unfold write at h
  cases hdm : (newDescs st.registry (descsOf o)).2.mapM (fun d => (toM (.desc d)).map enc) with
  | none => simp [hdm] at h
  | some dframes =>
    cases hbm : (toM o).map enc with
    | none => simp [hdm, hbm] at h
    | some body =>
      simp only [hdm, hbm, hhdr, if_true, Option.some.injEq, Prod.mk.injEq, List.nil_append] at h
      obtain ⟨_, h2⟩ := h
      simp only [Option.map_eq_some_iff] at hbm
      obtain ⟨m, hm, rfl⟩ := hbm
      exact ⟨dframes, m, rfl, hm, h2.symm, mapM_length _ _ _ hdm⟩

/-- The record-level prefix theorem, frames after the header. For every admissible history and EVERY cut position
    `k`: the reader yields exactly the first `n` records, unaltered, where `n` is the number of records whose frames
    lie completely inside the first `k` bytes (`writeAll` of the first `n` records fits, that of the first `n+1` does
    not), and then stops with EOF or "incomplete input"; at or beyond the end of the stream it yields all records and
    ends cleanly. -/
theorem read_cut_writeAll (hashOf : PyStr → List (PyStr × PyStr) → Nat) (objs : List PV) (st st' : WState)
    (frames : List Bytes) (fuel k : Nat)
    (hw : writeAll st objs = some (st', frames)) (hhdr : st.headerWritten = true)
    (hok : HistOK hashOf st.registry objs) (hsz : ∀ b ∈ frames, b.length < 4294967296) :
    ∃ n e, n ≤ objs.length ∧ (e = End.eof ∨ e = End.error .incomplete) ∧
      readFramesH hashOf (fuel + frames.length + 1) st.registry ((streamOf frames).take k) =
        (rvOfList (objs.take n), e) ∧
      ((streamOf frames).length ≤ k → n = objs.length ∧ e = End.eof) ∧
      (∃ stn fn, writeAll st (objs.take n) = some (stn, fn) ∧ (streamOf fn).length ≤ k) ∧
      (n < objs.length → ∃ stn fn, writeAll st (objs.take (n + 1)) = some (stn, fn) ∧ k < (streamOf fn).length) := by
  induction objs generalizing st st' frames fuel k with
  | nil =>
    simp [writeAll] at hw
    obtain ⟨_, rfl⟩ := hw
    exact ⟨0, .eof, by simp, Or.inl rfl, by simp [streamOf, read_end, rvOfList], fun _ => ⟨rfl, rfl⟩,
      ⟨st, [], by simp [writeAll], by simp [streamOf]⟩, by simp⟩
  | cons o os ih =>
    simp only [writeAll, bind, Option.bind] at hw
    cases h1 : write st o with
    | none => simp [h1] at hw
    | some r1 =>
      obtain ⟨st1, f1⟩ := r1
      cases h2 : writeAll st1 os with
      | none => simp [h1, h2] at hw
      | some r2 =>
        obtain ⟨st2, f2⟩ := r2
        simp [h1, h2] at hw
        obtain ⟨rfl, rfl⟩ := hw
        obtain ⟨hobj, hds, hpv, hrest⟩ := hok
        obtain ⟨hreg, hh1⟩ := write_registry st st1 _ f1 h1
        rw [streamOf_append]
        by_cases hk : (streamOf f1).length ≤ k
        · -- the frames of the first record are complete
          obtain ⟨n, e, hn, he, hrd, hfull, ⟨stn, fn, hwn, hln⟩, hnext⟩ :=
            ih st1 st2 f2 fuel (k - (streamOf f1).length) h2 hh1 (by rw [hreg]; exact hrest)
              (fun b hb => hsz b (by simp [hb]))
          refine ⟨n + 1, e, by simp; omega, he, ?_, ?_, ?_, ?_⟩
          · rw [List.take_append, List.take_of_length_le hk]
            have hstep := read_write hashOf st st1 o hobj f1 ((streamOf f2).take (k - (streamOf f1).length))
              (fuel + f2.length + 1) h1 hhdr hds (by rw [hreg]; exact hpv) (fun b hb => hsz b (by simp [hb]))
            rw [List.length_append,
              show fuel + (f1.length + f2.length) + 1 = (fuel + f2.length + 1) + f1.length by omega, hstep, hrd]
            simp [rvOfList]
          · intro hlen
            simp only [List.length_append] at hlen
            obtain ⟨h3, h4⟩ := hfull (by omega)
            exact ⟨by simp [h3], h4⟩
          · refine ⟨stn, f1 ++ fn, ?_, ?_⟩
            · simp [writeAll, bind, Option.bind, h1, hwn]
            · rw [streamOf_append, List.length_append]; omega
          · intro hlt
            obtain ⟨stn', fn', hwn', hln'⟩ := hnext (by simp at hlt; omega)
            refine ⟨stn', f1 ++ fn', ?_, ?_⟩
            · simp [writeAll, bind, Option.bind, h1, hwn']
            · rw [streamOf_append, List.length_append]; omega
        · -- the cut falls inside the frames of the first record
          have hk' : k < (streamOf f1).length := by omega
          obtain ⟨dframes, m, hdm, hm, rfl, hdl⟩ := write_decompose st st1 _ f1 h1 hhdr
          have hwm : WF m := toM_WF st1.registry _ m (by rw [hreg]; exact hpv) hm
          obtain ⟨e, he, hrd⟩ := read_cut_group hashOf _ dframes m st.registry (fuel + f2.length + 1) k hds hdm hwm
            (fun b hb => hsz b (by simp only [List.mem_append] at hb ⊢; exact Or.inl hb)) hk'
          refine ⟨0, e, by simp, he, ?_, ?_, ⟨st, [], by simp [writeAll], by simp [streamOf]⟩, ?_⟩
          · rw [List.take_append_of_le_length (by omega)]
            rw [List.length_append, List.length_append, List.length_cons, List.length_nil, hdl,
              show fuel + ((newDescs st.registry (descsOf o)).2.length + (0 + 1) + f2.length) + 1 =
                (fuel + f2.length + 1) + (newDescs st.registry (descsOf o)).2.length + 1 by omega,
              hrd]
            simp [rvOfList]
          · intro hlen
            simp only [List.length_append] at hlen
            omega
          · intro _
            refine ⟨st1, dframes ++ [enc m], ?_, hk'⟩
            simp [writeAll, bind, Option.bind, h1]

/-- a stream cut inside its header frame is refused as "not a record stream" -/
theorem readHeader_cut : ∀ k, k < headerLen → readHeader ((frameBytes magicBody).take k) = none := by
  decide

/-- a fresh writer's output for a non-empty history = header frame + the output of a writer whose header is out -/
theorem writeAll_fresh (o : PV) (os : List PV) (st' : WState) (frames : List Bytes)
    (hw : writeAll WState.init (o :: os) = some (st', frames)) :
    ∃ fs', frames = magicBody :: fs' ∧
      writeAll { headerWritten := true, registry := [] } (o :: os) = some (st', fs') := by
  simp only [writeAll, bind, Option.bind] at hw
  cases h1 : write WState.init o with
  | none => simp [h1] at hw
  | some r1 =>
    obtain ⟨st1, f1⟩ := r1
    cases h2 : writeAll st1 os with
    | none => simp [h1, h2] at hw
    | some r2 =>
      obtain ⟨st2, f2⟩ := r2
      simp [h1, h2] at hw
      obtain ⟨rfl, rfl⟩ := hw
      obtain ⟨f1', rfl, h1'⟩ := write_fresh [] o st1 f1 h1
      exact ⟨f1' ++ f2, by simp, by simp [writeAll, bind, Option.bind, h1', h2]⟩

theorem take_cons_succ_ne (o : PV) (os : List PV) (n : Nat) : (o :: os).take (n + 1) = o :: os.take n := rfl

/-- C04 at the level of records and bytes, for a fresh writer: see `C04_records_prefix`. -/
theorem readAll_cut (hashOf : PyStr → List (PyStr × PyStr) → Nat) (o : PV) (os : List PV) (st' : WState)
    (frames : List Bytes) (k : Nat)
    (hw : writeAll WState.init (o :: os) = some (st', frames))
    (hok : HistOK hashOf [] (o :: os)) (hsz : ∀ b ∈ frames, b.length < 4294967296) :
    ∃ n e, n ≤ (o :: os).length ∧
      readAll hashOf ((streamOf frames).take k) = (rvOfList ((o :: os).take n), e) ∧
      (e = End.eof ∨ e = End.error .incomplete ∨ (e = End.notAStream ∧ n = 0 ∧ k < headerLen)) ∧
      ((streamOf frames).length ≤ k → n = (o :: os).length ∧ e = End.eof) ∧
      (0 < n → ∀ stn fn, writeAll WState.init ((o :: os).take n) = some (stn, fn) → (streamOf fn).length ≤ k) ∧
      (n < (o :: os).length → ∀ stn fn, writeAll WState.init ((o :: os).take (n + 1)) = some (stn, fn) →
        k < (streamOf fn).length) := by
  obtain ⟨fs', rfl, hw'⟩ := writeAll_fresh o os st' frames hw
  have hlen : (frameBytes magicBody).length = headerLen := by decide
  have hsz' : ∀ b ∈ fs', b.length < 4294967296 := fun b hb => hsz b (by simp [hb])
  rw [streamOf_cons]
  by_cases hk : headerLen ≤ k
  · -- the header is complete
    let X := (streamOf fs').take (k - headerLen)
    obtain ⟨n, e, hn, he, hrd, hfull, ⟨stn, fn, hwn, hln⟩, hnext⟩ :=
      read_cut_writeAll hashOf (o :: os) { headerWritten := true, registry := [] } st' fs' X.length (k - headerLen)
        hw' rfl hok hsz'
    refine ⟨n, e, hn, ?_, ?_, ?_, ?_, ?_⟩
    · rw [List.take_append, List.take_of_length_le (by omega), hlen]
      unfold readAll
      rw [readHeader_magic]
      show readFramesH hashOf X.length [] X = _
      rw [readFramesH_fuel hashOf X.length (X.length + fs'.length + 1) [] X (by omega) (by omega)]
      exact hrd
    · rcases he with h | h
      · exact Or.inl h
      · exact Or.inr (Or.inl h)
    · intro hl
      simp only [List.length_append, hlen] at hl
      exact hfull (by omega)
    · intro hpos stn2 fn2 hw2
      cases n with
      | zero => omega
      | succ n' =>
        rw [take_cons_succ_ne] at hw2 hwn
        obtain ⟨fs2, rfl, hw2'⟩ := writeAll_fresh o (os.take n') stn2 fn2 hw2
        rw [hwn] at hw2'
        simp only [Option.some.injEq, Prod.mk.injEq] at hw2'
        obtain ⟨_, rfl⟩ := hw2'
        rw [streamOf_cons, List.length_append, hlen]
        omega
    · intro hlt stn2 fn2 hw2
      obtain ⟨stn3, fn3, hw3, hl3⟩ := hnext hlt
      rw [take_cons_succ_ne] at hw2 hw3
      obtain ⟨fs2, rfl, hw2'⟩ := writeAll_fresh o (os.take n) stn2 fn2 hw2
      rw [hw3] at hw2'
      simp only [Option.some.injEq, Prod.mk.injEq] at hw2'
      obtain ⟨_, rfl⟩ := hw2'
      rw [streamOf_cons, List.length_append, hlen]
      omega
  · -- the cut falls inside the header frame
    have hk' : k < headerLen := by omega
    refine ⟨0, .notAStream, by simp, ?_, Or.inr (Or.inr ⟨rfl, rfl, hk'⟩), ?_, by simp, ?_⟩
    · rw [List.take_append_of_le_length (by omega)]
      unfold readAll
      rw [readHeader_cut k hk']
      simp [rvOfList]
    · intro hl
      simp only [List.length_append, hlen] at hl
      omega
    · intro _ stn2 fn2 hw2
      rw [take_cons_succ_ne] at hw2
      obtain ⟨fs2, rfl, _⟩ := writeAll_fresh o (os.take 0) stn2 fn2 hw2
      rw [streamOf_cons, List.length_append, hlen]
      omega

end FlowRecord.Stream
