import FlowRecordProofs.Lemmas.Msgpack
import FlowRecord.Model.Wire
/-! R1: the packer envelope layer. What `packb(default=pack_obj)` writes for an admissible packed-level value is
    unpacked by `unpackb(ext_hook=unpack_obj)` to exactly that value. -/
open FlowRecord FlowRecord.Msgpack FlowRecord.Utf8
namespace FlowRecord.Wire

/-- text that survives `.encode('utf-8','surrogateescape')` / `.decode(…)` and fits a msgpack str -/
def strOK (s : PyStr) : Prop := ∃ b, encodeSE s = some b ∧ b.length < 4294967296 ∧ decodeSE b = s

mutual
  def need : PV → Nat
    | .seq xs => 1 + needList xs
    | .dict xs => 1 + needList xs
    | .int i => if nativeInt i then 1 else 3
    | .dtUtc _ => 3
    | .dtIso _ => 3
    | .record _ vals => 3 + max 1 (needList vals)
    | .grouped _ ms => 5 + max 1 (needMembers ms)
    | .desc _ => 5
    | _ => 1
  def needList : List PV → Nat
    | [] => 0
    | x :: xs => max (need x) (needList xs)
  /-- members of a grouped record travel as bare `[identifier, values]` pairs -/
  def needMembers : List PV → Nat
    | [] => 0
    | .record _ vals :: xs => max (needList vals) (needMembers xs)
    | _ :: xs => needMembers xs
end

theorem fromM_leaf (reg : Registry) (f : Nat) :
    fromM reg (f + 1) .nil = .ok .none ∧ (∀ x, fromM reg (f + 1) (.bool x) = .ok (.bool x)) ∧
    (∀ i, fromM reg (f + 1) (.int i) = .ok (.int i)) ∧ (∀ x, fromM reg (f + 1) (.f64 x) = .ok (.float x)) ∧
    (∀ p, fromM reg (f + 1) (.str p) = .ok (.str (decodeSE p))) ∧
    (∀ p, fromM reg (f + 1) (.bin p) = .ok (.bytes p)) := by
  refine ⟨?_, ?_, ?_, ?_, ?_, ?_⟩ <;> (try intro x) <;> (unfold fromM; rfl)

theorem fromM_arr (reg : Registry) (f : Nat) (xs : List MVal) :
    fromM reg (f + 1) (.arr xs) = (fromMList reg f xs).map RV.tuple := by
  conv => lhs; unfold fromM

theorem fromM_map (reg : Registry) (f : Nat) (xs : List MVal) :
    fromM reg (f + 1) (.map xs) = (fromMList reg f xs).map RV.dict := by
  conv => lhs; unfold fromM

theorem fromM_ext (reg : Registry) (f : Nat) (p : Bytes) (sub value : MVal)
    (hd : decode p = .ok (.arr [sub, value])) :
    fromM reg (f + 1) (.ext extType p) = (match fromM reg f sub, fromM reg f value with
            | .ok s, .ok v => unpackEnvelope reg s v
            | .error e, _ => .error e
            | _, .error e => .error e) := by
  conv => lhs; unfold fromM
  simp only [hd, ne_eq, not_true_eq_false, if_false]
  cases fromM reg f sub <;> cases fromM reg f value <;> rfl

theorem fromMList_nil (reg : Registry) (f : Nat) : fromMList reg f [] = .ok [] := by unfold fromMList; rfl
theorem fromMList_cons (reg : Registry) (f : Nat) (x : MVal) (xs : List MVal) :
    fromMList reg f (x :: xs) = (match fromM reg f x, fromMList reg f xs with
      | .ok a, .ok r => .ok (a :: r)
      | .error e, _ => .error e
      | _, .error e => .error e) := by
  conv => lhs; unfold fromMList
  cases fromM reg f x <;> cases fromMList reg f xs <;> rfl


theorem beDec_magBytes (n : Nat) : beDec (magBytes n) = n := by
  induction n using Nat.strongRecOn with
  | _ n ih =>
    unfold magBytes
    split
    · rename_i h; subst h; rfl
    · rename_i h
      have h1 := ih (n / 256) (by omega)
      unfold beDec at h1 ⊢
      rw [List.foldl_append, h1]
      simp only [List.foldl_cons, List.foldl_nil]
      rw [u8 _ (Nat.mod_lt _ (by omega))]
      omega

/-- decoding an envelope: the payload document is `[sub, value]` -/
theorem fromM_envelope (reg : Registry) (f sub : Nat) (payload : MVal) (s v : RV)
    (hsub : sub < 128) (hw : WF payload) (hlen : (enc (.arr [.int sub, payload])).length < 4294967296)
    (hs : fromM reg f (.int sub) = .ok s) (hv : fromM reg f payload = .ok v) :
    fromM reg (f + 1) (envelope sub payload) = unpackEnvelope reg s v := by
  have hd : decode (enc (.arr [.int sub, payload])) = .ok (.arr [.int sub, payload]) := by
    apply decode_enc
    simp only [WF, WFList, List.length_cons, List.length_nil]
    exact ⟨by omega, ⟨by omega, by omega⟩, hw, trivial⟩
  unfold envelope
  rw [fromM_ext reg f _ _ _ hd, hs, hv]

theorem fromM_int_sub (reg : Registry) (f : Nat) (sub : Nat) : fromM reg (f + 1) (.int sub) = .ok (.int sub) :=
  (fromM_leaf reg f).2.2.1 _

/-- big integers: sign flag + magnitude bytes come back as the integer -/
theorem fromM_varint (reg : Registry) (f : Nat) (i : Int) (hl : (magBytes i.natAbs).length < 4294967296)
    (hlen : (enc (.arr [.int tVarint, .arr [.bool (decide (i < 0)), .bin (magBytes i.natAbs)]])).length < 4294967296) :
    fromM reg (f + 3) (envelope tVarint (.arr [.bool (decide (i < 0)), .bin (magBytes i.natAbs)])) = .ok (.int i) := by
  have hv : fromM reg (f + 2) (.arr [.bool (decide (i < 0)), .bin (magBytes i.natAbs)]) =
      .ok (.tuple [.bool (decide (i < 0)), .bytes (magBytes i.natAbs)]) := by
    rw [fromM_arr, fromMList_cons, fromMList_cons, fromMList_nil, (fromM_leaf reg f).2.1, (fromM_leaf reg f).2.2.2.2.2]
    rfl
  rw [fromM_envelope reg (f + 2) tVarint _ (.int tVarint) _ (by decide) (by simp [WF, WFList]; exact hl) hlen
    (fromM_int_sub reg (f + 1) tVarint) hv]
  simp only [unpackEnvelope, tVarint, tDatetime, Gen.RECORD_PACK_TYPE_VARINT, Gen.RECORD_PACK_TYPE_DATETIME]
  simp only [beDec_magBytes]
  by_cases hneg : i < 0
  · simp [hneg]; omega
  · simp [hneg]; omega


theorem mstr_ok (s : PyStr) (h : strOK s) : ∃ b, mstr s = some (.str b) ∧ b.length < 4294967296 ∧ decodeSE b = s := by
  obtain ⟨b, h1, h2, h3⟩ := h
  exact ⟨b, by simp [mstr, h1], h2, h3⟩

-- What can be written and read back unchanged (packed level): text in the image of decode/surrogateescape,
-- lengths a msgpack header can carry, envelope payloads below 4 GiB, and — for records — a registry in which the
-- record's identifier is bound to its own descriptor; a grouped record's members likewise.
mutual
  def PVOK (reg : Registry) : PV → Prop
    | .none => True
    | .bool _ => True
    | .int i => nativeInt i = true ∨ ((magBytes i.natAbs).length < 4294967296 ∧
        (enc (.arr [.int tVarint, .arr [.bool (decide (i < 0)), .bin (magBytes i.natAbs)]])).length < 4294967296)
    | .float x => x < 18446744073709551616
    | .str s => strOK s
    | .bytes b => b.length < 4294967296
    | .seq xs => xs.length < 4294967296 ∧ PVOKList reg xs
    | .dict xs => xs.length % 2 = 0 ∧ xs.length / 2 < 4294967296 ∧ PVOKList reg xs
    | .dtUtc fs => fs.length < 4294967296 ∧ (∀ n ∈ fs, n < 9223372036854775808) ∧
        (enc (.arr [.int tDatetime, .arr (fs.map fun n => MVal.int (Int.ofNat n))])).length < 4294967296
    | .dtIso t => strOK t ∧ ∀ b, mstr t = some (.str b) →
        (enc (.arr [.int tDatetime, .arr [.str b]])).length < 4294967296
    | .record d vals => strOK d.name ∧ d.hash < 18446744073709551616 ∧ lookup reg d.name d.hash = some d ∧
        vals.length ≤ d.slotCount + Gen.RESERVED_FIELDS.length ∧ vals.length < 4294967296 ∧ PVOKList reg vals ∧
        (∀ i vs, identM d = some i → toMList vals = some vs →
          (enc (.arr [.int tRecord, .arr [i, .arr vs]])).length < 4294967296)
    | .grouped name ms => strOK name ∧ ms.length < 4294967296 ∧ PVOKMembers reg ms ∧
        (∀ n members, mstr name = some n → toMMembers ms = some members →
          (enc (.arr [.int tGrouped, .arr [n, .arr members]])).length < 4294967296)
    | .desc _ => False
  def PVOKList (reg : Registry) : List PV → Prop
    | [] => True
    | x :: xs => PVOK reg x ∧ PVOKList reg xs
  /-- members of a grouped record: records whose identifiers are bound to their own descriptors (their values are not
      cut or padded to the descriptor's length on reading, unlike those of a top-level record) -/
  def PVOKMembers (reg : Registry) : List PV → Prop
    | [] => True
    | .record d vals :: xs => strOK d.name ∧ d.hash < 18446744073709551616 ∧ lookup reg d.name d.hash = some d ∧
        vals.length < 4294967296 ∧ PVOKList reg vals ∧ PVOKMembers reg xs
    | _ :: _ => False
end

-- What the packer produces for an admissible value is something msgpack can represent.
mutual
theorem toM_WF (reg : Registry) (pv : PV) (m : MVal) (hok : PVOK reg pv) (hm : toM pv = some m) : WF m := by
  match pv, hok, hm with
  | .none, _, hm => simp [toM] at hm; subst hm; trivial
  | .bool _, _, hm => simp [toM] at hm; subst hm; trivial
  | .int i, hok, hm =>
    simp only [toM] at hm
    split at hm
    · rename_i hn; simp at hm; subst hm
      simp only [nativeInt, Bool.and_eq_true, decide_eq_true_eq] at hn
      exact hn
    · rename_i hn
      simp at hm; subst hm
      rcases hok with h | ⟨_, h2⟩
      · exact absurd h hn
      · exact ⟨by decide, h2⟩
  | .float x, hok, hm => simp [toM] at hm; subst hm; exact hok
  | .str s, hok, hm =>
    obtain ⟨b, h1, h2, _⟩ := mstr_ok s hok
    simp only [toM, h1, Option.some.injEq] at hm; subst hm; exact h2
  | .bytes b, hok, hm => simp [toM] at hm; subst hm; exact hok
  | .seq xs, hok, hm =>
    simp only [toM, Option.map_eq_some_iff] at hm
    obtain ⟨ms, h1, rfl⟩ := hm
    exact ⟨by rw [toMList_length xs ms h1]; exact hok.1, toMList_WF reg xs ms hok.2 h1⟩
  | .dict xs, hok, hm =>
    simp only [toM, Option.map_eq_some_iff] at hm
    obtain ⟨ms, h1, rfl⟩ := hm
    have hl := toMList_length xs ms h1
    exact ⟨by rw [hl]; exact hok.1, by rw [hl]; exact hok.2.1, toMList_WF reg xs ms hok.2.2 h1⟩
  | .dtUtc fs, hok, hm =>
    simp [toM] at hm; subst hm
    exact ⟨by decide, hok.2.2⟩
  | .dtIso t, hok, hm =>
    obtain ⟨b, h1, _, _⟩ := mstr_ok t hok.1
    simp only [toM, h1, Option.map_some, Option.some.injEq] at hm; subst hm
    exact ⟨by decide, hok.2 b h1⟩
  | .record d vals, hok, hm =>
    simp only [toM, bind, Option.bind] at hm
    cases hi : identM d with
    | none => simp [hi] at hm
    | some i =>
      cases hv : toMList vals with
      | none => simp [hi, hv] at hm
      | some vs =>
        simp [hi, hv] at hm; subst hm
        exact ⟨by decide, hok.2.2.2.2.2.2 i vs hi hv⟩
  | .grouped name ms, hok, hm =>
    simp only [toM, bind, Option.bind] at hm
    cases hn : mstr name with
    | none => simp [hn] at hm
    | some n =>
      cases hv : toMMembers ms with
      | none => simp [hn, hv] at hm
      | some members =>
        simp [hn, hv] at hm; subst hm
        exact ⟨by decide, hok.2.2.2 n members hn hv⟩
  | .desc _, hok, _ => exact absurd hok (by simp [PVOK])
theorem toMList_WF (reg : Registry) (xs : List PV) (ms : List MVal) (hok : PVOKList reg xs)
    (hm : toMList xs = some ms) : WFList ms := by
  match xs, hok, hm with
  | [], _, hm => simp [toMList] at hm; subst hm; trivial
  | x :: xs, hok, hm =>
    simp only [toMList, bind, Option.bind] at hm
    cases hx : toM x with
    | none => simp [hx] at hm
    | some a =>
      cases hr : toMList xs with
      | none => simp [hx, hr] at hm
      | some r =>
        simp [hx, hr] at hm; subst hm
        exact ⟨toM_WF reg x a hok.1 hx, toMList_WF reg xs r hok.2 hr⟩
theorem toMList_length (xs : List PV) (ms : List MVal) (hm : toMList xs = some ms) : ms.length = xs.length := by
  match xs, hm with
  | [], hm => simp [toMList] at hm; subst hm; rfl
  | x :: xs, hm =>
    simp only [toMList, bind, Option.bind] at hm
    cases hx : toM x with
    | none => simp [hx] at hm
    | some a =>
      cases hr : toMList xs with
      | none => simp [hx, hr] at hm
      | some r =>
        simp [hx, hr] at hm; subst hm
        simp [toMList_length xs r hr]
end


/-- what the members of a grouped record look like after msgpack decoding, before `unpack_obj` -/
def memberTuples : List PV → List RV
  | [] => []
  | .record d vals :: xs =>
    RV.tuple [.tuple [.str d.name, .int d.hash], .tuple (rvOfList vals)] :: memberTuples xs
  | _ :: xs => memberTuples xs

/-- the packed members of an admissible group are representable, one per member -/
theorem toMMembers_WF (reg : Registry) : ∀ (ms : List PV) (members : List MVal), PVOKMembers reg ms →
    toMMembers ms = some members → WFList members ∧ members.length = ms.length := by
  intro ms
  induction ms with
  | nil => intro members _ hm; simp [toMMembers] at hm; subst hm; exact ⟨trivial, rfl⟩
  | cons x xs ih =>
    intro members hok hm
    cases x with
    | record d vals =>
      obtain ⟨hname, hhash, _, hlen, hvals, hrest⟩ := hok
      obtain ⟨nb, hn1, hn2, _⟩ := mstr_ok d.name hname
      have hi : identM d = some (.arr [.str nb, .int d.hash]) := by simp [identM, hn1]
      simp only [toMMembers, bind, Option.bind, hi] at hm
      cases hv : toMList vals with
      | none => simp [hv] at hm
      | some vs =>
        cases hr : toMMembers xs with
        | none => simp [hv, hr] at hm
        | some r =>
          simp [hv, hr] at hm; subst hm
          obtain ⟨h1, h2⟩ := ih r hrest hr
          have hwvs : WFList vs := toMList_WF reg vals vs hvals hv
          have hvl : vs.length = vals.length := toMList_length vals vs hv
          refine ⟨⟨?_, h1⟩, by simp [h2]⟩
          simp only [WF, WFList, List.length_cons, List.length_nil]
          exact ⟨by omega, ⟨by omega, hn2, ⟨by omega, by omega⟩, trivial⟩, ⟨by omega, hwvs⟩, trivial⟩
    | _ => simp [PVOKMembers] at hok

/-- `unpack_obj` on the decoded members: every identifier is looked up, the values are kept as they are -/
theorem members_lookup (reg : Registry) : ∀ (ms : List PV), PVOKMembers reg ms →
    (memberTuples ms).mapM (fun m => match m with
      | .tuple [ident, .tuple vals] =>
        match lookupIdent reg ident with
        | .ok d => Except.ok (RV.record d vals)
        | .error e => Except.error e
      | _ => Except.error Err.badShape) = .ok (rvOfList ms) := by
  intro ms
  induction ms with
  | nil => intro _; rfl
  | cons x xs ih =>
    intro hok
    cases x with
    | record d vals =>
      obtain ⟨_, _, hlook, _, _, hrest⟩ := hok
      have hl2 : lookup reg d.name (Int.toNat (d.hash : Int)) = some d := by simpa using hlook
      have hhead : lookupIdent reg (.tuple [.str d.name, .int d.hash]) = .ok d := by
        simp [lookupIdent, strOf, hlook]
      simp only [memberTuples, List.mapM_cons, hhead, ih hrest, rvOfList, rvOf]
      rfl
    | _ => simp [PVOKMembers] at hok

theorem unpackEnvelope_grouped (reg : Registry) (name : PyStr) (tuples : List RV) (rs : List RV)
    (h : tuples.mapM (fun m => match m with
      | .tuple [ident, .tuple vals] =>
        match lookupIdent reg ident with
        | .ok d => Except.ok (RV.record d vals)
        | .error e => Except.error e
      | _ => Except.error Err.badShape) = .ok rs) :
    unpackEnvelope reg (.int tGrouped) (.tuple [.str name, .tuple tuples]) = .ok (.grouped name rs) := by
  simp [unpackEnvelope, tGrouped, tRecord, tDatetime, tVarint, Gen.RECORD_PACK_TYPE_GROUPEDRECORD,
    Gen.RECORD_PACK_TYPE_RECORD, Gen.RECORD_PACK_TYPE_DATETIME, Gen.RECORD_PACK_TYPE_VARINT, strOf]
  split
  · rename_i rs' heq
    have e : Except.ok rs' = (Except.ok rs : Except Err (List RV)) := heq.symm.trans h
    cases e; rfl
  · rename_i e' heq
    have e : Except.error e' = (Except.ok rs : Except Err (List RV)) := heq.symm.trans h
    cases e

theorem fromM_str (reg : Registry) (f : Nat) (b : Bytes) : fromM reg (f + 1) (.str b) = .ok (.str (decodeSE b)) :=
  (fromM_leaf reg f).2.2.2.2.1 b

theorem fromMList_ints (reg : Registry) (f : Nat) (fs : List Nat) :
    fromMList reg (f + 1) (fs.map fun n => MVal.int (Int.ofNat n)) = .ok (fs.map fun n => RV.int (Int.ofNat n)) := by
  induction fs with
  | nil => exact fromMList_nil reg _
  | cons n ns ih =>
    simp only [List.map_cons]
    rw [fromMList_cons, ih, (fromM_leaf reg f).2.2.1]

theorem fitValues_id (d : Desc) (vals : List RV)
    (h : vals.length ≤ d.slotCount + Gen.RESERVED_FIELDS.length) : fitValues d vals = vals := by
  unfold fitValues
  rw [if_neg (by omega)]

theorem rvOfList_length (xs : List PV) : (rvOfList xs).length = xs.length := by
  induction xs with
  | nil => rfl
  | cons x xs ih => simp [rvOfList, ih]

mutual
/-- R1: what the packer writes for an admissible value is unpacked to exactly that value (packed level). -/
theorem fromM_toM (reg : Registry) (pv : PV) (m : MVal) (f : Nat) (hok : PVOK reg pv) (hm : toM pv = some m)
    (hf : need pv ≤ f) : fromM reg f m = .ok (rvOf pv) := by
  match pv, hok, hm, hf with
  | .none, _, hm, hf =>
    obtain ⟨f, rfl⟩ : ∃ g, f = g + 1 := ⟨f - 1, by simp [need] at hf; omega⟩
    simp [toM] at hm; subst hm; exact (fromM_leaf reg f).1
  | .bool b, _, hm, hf =>
    obtain ⟨f, rfl⟩ : ∃ g, f = g + 1 := ⟨f - 1, by simp [need] at hf; omega⟩
    simp [toM] at hm; subst hm; exact (fromM_leaf reg f).2.1 b
  | .float x, _, hm, hf =>
    obtain ⟨f, rfl⟩ : ∃ g, f = g + 1 := ⟨f - 1, by simp [need] at hf; omega⟩
    simp [toM] at hm; subst hm; exact (fromM_leaf reg f).2.2.2.1 x
  | .bytes b, _, hm, hf =>
    obtain ⟨f, rfl⟩ : ∃ g, f = g + 1 := ⟨f - 1, by simp [need] at hf; omega⟩
    simp [toM] at hm; subst hm; exact (fromM_leaf reg f).2.2.2.2.2 b
  | .str s, hok, hm, hf =>
    obtain ⟨f, rfl⟩ : ∃ g, f = g + 1 := ⟨f - 1, by simp [need] at hf; omega⟩
    obtain ⟨b, h1, _, h3⟩ := mstr_ok s hok
    simp only [toM, h1, Option.some.injEq] at hm; subst hm
    rw [fromM_str, h3]; rfl
  | .int i, hok, hm, hf =>
    simp only [toM] at hm
    split at hm
    · rename_i hn
      obtain ⟨f, rfl⟩ : ∃ g, f = g + 1 := ⟨f - 1, by simp [need, hn] at hf; omega⟩
      simp at hm; subst hm; exact (fromM_leaf reg f).2.2.1 i
    · rename_i hn
      obtain ⟨f, rfl⟩ : ∃ g, f = g + 3 := ⟨f - 3, by simp [need, hn] at hf; omega⟩
      simp at hm; subst hm
      rcases hok with h | ⟨h1, h2⟩
      · exact absurd h hn
      · exact fromM_varint reg f i h1 h2
  | .dtUtc fs, hok, hm, hf =>
    obtain ⟨f, rfl⟩ : ∃ g, f = g + 3 := ⟨f - 3, by simp [need] at hf; omega⟩
    simp only [toM, Option.some.injEq] at hm; subst hm
    have hw : WF (.arr (fs.map fun n => MVal.int (Int.ofNat n))) := by
      refine ⟨by simpa using hok.1, ?_⟩
      have : ∀ l : List Nat, (∀ n ∈ l, n < 9223372036854775808) → WFList (l.map fun n => MVal.int (Int.ofNat n)) := by
        intro l; induction l with
        | nil => intro _; trivial
        | cons a l ih =>
          intro h
          refine ⟨?_, ih (fun n hn => h n (by simp [hn]))⟩
          have := h a (by simp)
          simp only [WF, Int.ofNat_eq_natCast]; omega
      exact this fs hok.2.1
    have hv : fromM reg (f + 2) (.arr (fs.map fun n => MVal.int (Int.ofNat n))) =
        .ok (.tuple (fs.map fun n => RV.int (Int.ofNat n))) := by
      rw [fromM_arr, fromMList_ints]; rfl
    rw [fromM_envelope reg (f + 2) tDatetime _ _ _ (by decide) hw hok.2.2 (fromM_int_sub reg (f + 1) tDatetime) hv]
    simp [unpackEnvelope, tDatetime, rvOf]
  | .dtIso t, hok, hm, hf =>
    obtain ⟨f, rfl⟩ : ∃ g, f = g + 3 := ⟨f - 3, by simp [need] at hf; omega⟩
    obtain ⟨b, h1, h2, h3⟩ := mstr_ok t hok.1
    simp only [toM, h1, Option.map_some, Option.some.injEq] at hm; subst hm
    have hv : fromM reg (f + 2) (.arr [.str b]) = .ok (.tuple [.str t]) := by
      rw [fromM_arr, fromMList_cons, fromMList_nil, fromM_str, h3]; rfl
    rw [fromM_envelope reg (f + 2) tDatetime _ _ _ (by decide) (by simp [WF, WFList]; exact h2) (hok.2 b h1)
      (fromM_int_sub reg (f + 1) tDatetime) hv]
    simp [unpackEnvelope, tDatetime, rvOf]
  | .seq xs, hok, hm, hf =>
    obtain ⟨f, rfl⟩ : ∃ g, f = g + 1 := ⟨f - 1, by simp [need] at hf; omega⟩
    simp only [toM, Option.map_eq_some_iff] at hm
    obtain ⟨ms, h1, rfl⟩ := hm
    rw [fromM_arr, fromMList_toMList reg xs ms f hok.2 h1 (by simp [need] at hf; omega)]
    simp [rvOf, Except.map]
  | .dict xs, hok, hm, hf =>
    obtain ⟨f, rfl⟩ : ∃ g, f = g + 1 := ⟨f - 1, by simp [need] at hf; omega⟩
    simp only [toM, Option.map_eq_some_iff] at hm
    obtain ⟨ms, h1, rfl⟩ := hm
    rw [fromM_map, fromMList_toMList reg xs ms f hok.2.2 h1 (by simp [need] at hf; omega)]
    simp [rvOf, Except.map]
  | .record d vals, hok, hm, hf =>
    obtain ⟨hname, hhash, hlook, hfit, hlen, hvals, hsize⟩ := hok
    obtain ⟨f, rfl⟩ : ∃ g, f = g + 4 := ⟨f - 4, by simp [need] at hf; omega⟩
    have hfl : needList vals ≤ f + 1 := by simp [need] at hf; omega
    obtain ⟨nb, hn1, hn2, hn3⟩ := mstr_ok d.name hname
    have hi : identM d = some (.arr [.str nb, .int d.hash]) := by simp [identM, hn1]
    simp only [toM, bind, Option.bind, hi] at hm
    cases hv : toMList vals with
    | none => simp [hv] at hm
    | some vs =>
      simp [hv] at hm; subst hm
      have hvs := fromMList_toMList reg vals vs (f + 1) hvals hv hfl
      have hwvs : WFList vs := toMList_WF reg vals vs hvals hv
      have hvl : vs.length = vals.length := toMList_length vals vs hv
      have hw : WF (.arr [.arr [.str nb, .int d.hash], .arr vs]) := by
        simp only [WF, WFList, List.length_cons, List.length_nil]
        refine ⟨by omega, ⟨⟨by omega, hn2, ⟨by omega, by omega⟩, trivial⟩, ⟨by omega, hwvs⟩, trivial⟩⟩
      have hval : fromM reg (f + 3) (.arr [.arr [.str nb, .int d.hash], .arr vs]) =
          .ok (.tuple [.tuple [.str d.name, .int d.hash], .tuple (rvOfList vals)]) := by
        rw [fromM_arr, fromMList_cons, fromMList_cons, fromMList_nil, fromM_arr, fromM_arr, hvs,
          fromMList_cons, fromMList_cons, fromMList_nil, fromM_str, hn3, (fromM_leaf reg f).2.2.1]
        rfl
      rw [fromM_envelope reg (f + 3) tRecord _ _ _ (by decide) hw (hsize _ vs hi hv)
        (fromM_int_sub reg (f + 2) tRecord) hval]
      have hnat : (Int.ofNat d.hash).toNat = d.hash := by simp
      simp only [unpackEnvelope, tRecord, tDatetime, tVarint, Gen.RECORD_PACK_TYPE_RECORD,
        Gen.RECORD_PACK_TYPE_DATETIME, Gen.RECORD_PACK_TYPE_VARINT]
      simp only [lookupIdent, strOf]
      have hl2 : lookup reg d.name (Int.toNat (d.hash : Int)) = some d := by simpa using hlook
      simp only [hl2, rvOf, fitValues_id d (rvOfList vals) (by rw [rvOfList_length]; exact hfit)]
      simp
  | .grouped name ms, hok, hm, hf =>
    obtain ⟨hname, hlen, hmem, hsize⟩ := hok
    obtain ⟨f, rfl, hf1, hfm⟩ : ∃ g, f = g + 5 ∧ 1 ≤ g ∧ needMembers ms ≤ g :=
      ⟨f - 5, by simp [need] at hf; omega, by simp [need] at hf; omega, by simp [need] at hf; omega⟩
    obtain ⟨nb, hn1, hn2, hn3⟩ := mstr_ok name hname
    simp only [toM, bind, Option.bind, hn1] at hm
    cases hv : toMMembers ms with
    | none => simp [hv] at hm
    | some members =>
      simp [hv] at hm; subst hm
      obtain ⟨hwm, hml⟩ := toMMembers_WF reg ms members hmem hv
      have hmems := fromMList_members reg ms members f hmem hv hfm hf1
      have hw : WF (.arr [.str nb, .arr members]) := by
        simp only [WF, WFList, List.length_cons, List.length_nil]
        exact ⟨by omega, hn2, ⟨by omega, hwm⟩, trivial⟩
      have hval : fromM reg (f + 4) (.arr [.str nb, .arr members]) =
          .ok (.tuple [.str name, .tuple (memberTuples ms)]) := by
        rw [fromM_arr, fromMList_cons, fromMList_cons, fromMList_nil, fromM_str, hn3, fromM_arr, hmems]
        rfl
      rw [fromM_envelope reg (f + 4) tGrouped _ _ _ (by decide) hw (hsize _ members hn1 hv)
        (fromM_int_sub reg (f + 3) tGrouped) hval]
      rw [unpackEnvelope_grouped reg name (memberTuples ms) (rvOfList ms) (members_lookup reg ms hmem)]
      simp [rvOf]
  | .desc _, hok, _, _ => exact absurd hok (by simp [PVOK])
theorem fromMList_members (reg : Registry) (ms : List PV) (members : List MVal) (f : Nat) (hok : PVOKMembers reg ms)
    (hm : toMMembers ms = some members) (hf : needMembers ms ≤ f) (hf1 : 1 ≤ f) :
    fromMList reg (f + 2) members = .ok (memberTuples ms) := by
  match ms, hok, hm, hf with
  | [], _, hm, _ => simp [toMMembers] at hm; subst hm; exact fromMList_nil reg _
  | .record d vals :: xs, hok, hm, hf =>
    obtain ⟨hname, hhash, _, hlen, hvals, hrest⟩ := hok
    obtain ⟨g, rfl⟩ : ∃ g, f = g + 1 := ⟨f - 1, by omega⟩
    obtain ⟨nb, hn1, hn2, hn3⟩ := mstr_ok d.name hname
    have hi : identM d = some (.arr [.str nb, .int d.hash]) := by simp [identM, hn1]
    simp only [toMMembers, bind, Option.bind, hi] at hm
    cases hv : toMList vals with
    | none => simp [hv] at hm
    | some vs =>
      cases hr : toMMembers xs with
      | none => simp [hv, hr] at hm
      | some r =>
        simp [hv, hr] at hm; subst hm
        have hvs := fromMList_toMList reg vals vs (g + 1) hvals hv (by simp [needMembers] at hf; omega)
        have hrs := fromMList_members reg xs r (g + 1) hrest hr (by simp [needMembers] at hf; omega) hf1
        rw [fromMList_cons, hrs, fromM_arr, fromMList_cons, fromMList_cons, fromMList_nil, fromM_arr, fromM_arr, hvs,
          fromMList_cons, fromMList_cons, fromMList_nil, fromM_str, hn3, (fromM_leaf reg g).2.2.1]
        rfl
  | .none :: _, hok, _, _ => exact absurd hok (by simp [PVOKMembers])
  | .bool _ :: _, hok, _, _ => exact absurd hok (by simp [PVOKMembers])
  | .int _ :: _, hok, _, _ => exact absurd hok (by simp [PVOKMembers])
  | .float _ :: _, hok, _, _ => exact absurd hok (by simp [PVOKMembers])
  | .str _ :: _, hok, _, _ => exact absurd hok (by simp [PVOKMembers])
  | .bytes _ :: _, hok, _, _ => exact absurd hok (by simp [PVOKMembers])
  | .seq _ :: _, hok, _, _ => exact absurd hok (by simp [PVOKMembers])
  | .dict _ :: _, hok, _, _ => exact absurd hok (by simp [PVOKMembers])
  | .dtUtc _ :: _, hok, _, _ => exact absurd hok (by simp [PVOKMembers])
  | .dtIso _ :: _, hok, _, _ => exact absurd hok (by simp [PVOKMembers])
  | .grouped _ _ :: _, hok, _, _ => exact absurd hok (by simp [PVOKMembers])
  | .desc _ :: _, hok, _, _ => exact absurd hok (by simp [PVOKMembers])
theorem fromMList_toMList (reg : Registry) (xs : List PV) (ms : List MVal) (f : Nat) (hok : PVOKList reg xs)
    (hm : toMList xs = some ms) (hf : needList xs ≤ f) : fromMList reg f ms = .ok (rvOfList xs) := by
  match xs, hok, hm, hf with
  | [], _, hm, _ => simp [toMList] at hm; subst hm; exact fromMList_nil reg f
  | x :: xs, hok, hm, hf =>
    simp only [toMList, bind, Option.bind] at hm
    cases hx : toM x with
    | none => simp [hx] at hm
    | some a =>
      cases hr : toMList xs with
      | none => simp [hx, hr] at hm
      | some r =>
        simp [hx, hr] at hm; subst hm
        rw [fromMList_cons, fromM_toM reg x a f hok.1 hx (by simp [needList] at hf; omega),
          fromMList_toMList reg xs r f hok.2 hr (by simp [needList] at hf; omega)]
        rfl
end

end FlowRecord.Wire
