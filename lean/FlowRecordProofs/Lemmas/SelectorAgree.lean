import FlowRecord.Model.Selector.Interp
import FlowRecord.Model.Selector.Ref
import FlowRecordProofs.Lemmas.SelectorTrace
/-!
C07: the interpreter transcription and the reference meaning agree — helper lemmas.

`Supported bound e`: the documented grammar, relative to the generator variables currently bound.
`Good r`: the reference result is not one of the two outcomes on which the interpreted engine is *documented* to
differ from plain Python (`undefined`: a missing attribute / the sentinel reaching arithmetic or membership / a typed
matcher on the left of `in`; `typeErrNone`: a TypeError mentioning NoneType, which the BoolOp branch swallows).
`Agree`: for every supported expression and every state, if the reference result is `Good` then the interpreter
returns exactly that result (value *or* exception) and leaves namespace and record as they were.
All lemmas are for every `Prim`.
-/
namespace FlowRecord.Selector
open FlowRecord

def docBinops : List String := ["Add", "Mult", "Div", "Mod", "BitAnd", "BitOr"]
def docCmpops : List String := ["Eq", "NotEq", "Lt", "Gt", "LtE", "GtE", "In", "NotIn", "Is", "IsNot"]

def keys (ns : List (String × PVal)) : List String := ns.map (·.1)

/-- The documented selector language. `b` = generator variables in scope. -/
inductive Supported : List String → Expr → Prop
  | const (b c) : Supported b (.const c)
  | list (b es) : (∀ e ∈ es, Supported b e) → Supported b (.list es)
  | tuple (b es) : (∀ e ∈ es, Supported b e) → Supported b (.tuple es)
  | name (b id) : Supported b (.name id)
  | attr (b v a) : Supported b v → Supported b (.attr v a)
  | boolop (b op vs) : (∀ e ∈ vs, Supported b e) → Supported b (.boolop op vs)
  | binop (b op l r) : op ∈ docBinops → Supported b l → Supported b r → Supported b (.binop op l r)
  | not (b x) : Supported b x → Supported b (.unary "Not" x)
  | compare (b l rest) : Supported b l → (∀ p ∈ rest, p.1 ∈ docCmpops) → (∀ p ∈ rest, Supported b p.2) →
      Supported b (.compare l rest)
  /-- a call; which targets are *accepted* is C09's subject — refused targets are refused identically -/
  | call (b f args kwargs) : (∀ a ∈ args, Supported b a) → (∀ k ∈ kwargs, Supported b k.2) →
      Supported b (.call f args kwargs)
  /-- `any(elt for x in iter if …)` / `all(…)`: one `for` clause, a fresh variable name -/
  | callGen (b f fname c elt x iter ifs) : resolveAttrPath f = some fname → allowedCalls.contains fname = true →
      consumerOf fname = some c → x ∉ b → baseKeys.contains x = false → Supported b iter →
      (∀ i ∈ ifs, Supported (x :: b) i) → Supported (x :: b) elt →
      Supported b (.call f [.genexp elt [(some x, iter, ifs)]] [])

def Bad : Err → Bool
  | .typeErrNone => true
  | .undefined => true
  | _ => false

def Good {α : Type} (r : Except Err α) : Prop := ∀ e, r = .error e → Bad e = false

theorem good_ok {α : Type} (a : α) : Good (Except.ok a : Except Err α) := fun _ h => by cases h
theorem good_err {α : Type} {e : Err} (h : Good (Except.error e : Except Err α)) : Bad e = false := h e rfl
theorem good_of_err {α β : Type} {e : Err} (h : Good (Except.error e : Except Err α)) :
    Good (Except.error e : Except Err β) := fun e' h' => by cases h'; exact h e rfl

/-- what agreement means for one evaluation started in state `st` -/
def AgreeAt (I : Expr → M PVal) (R : Env → Expr → Except Err PVal) (e : Expr) (st : St) : Prop :=
  Good (R st.ns e) → (I e st).2 = R st.ns e ∧ (I e st).1.ns = st.ns ∧ (I e st).1.record = st.record

def Agree (cfg : RefCfg) (I : Expr → M PVal) (R : Env → Expr → Except Err PVal) : Prop :=
  ∀ e st, st.record = cfg.record → Supported (keys st.ns) e → AgreeAt I R e st

/-- the same for a monadic helper against its pure counterpart -/
def Matches {α : Type} (m : M α) (r : Except Err α) (st : St) : Prop :=
  Good r → (m st).2 = r ∧ (m st).1.ns = st.ns ∧ (m st).1.record = st.record

variable {P : Prim} {cfg : RefCfg} {I : Expr → M PVal} {R : Env → Expr → Except Err PVal}

/-- sequencing: if `m` matches `r` and, for every value, the continuation matches, then the bind matches -/
theorem matches_bind {α β : Type} {m : M α} {r : Except Err α} {f : α → M β} {g : α → Except Err β} {st : St}
    (hm : Matches m r st)
    (hf : ∀ a st', r = .ok a → st'.ns = st.ns → st'.record = st.record → Matches (f a) (g a) st') :
    Matches (M.bind m f) (r >>= g) st := by
  intro hG
  cases r with
  | error e =>
    have h := hm (good_of_err hG)
    unfold M.bind
    cases hms : m st with
    | mk s' x =>
      rw [hms] at h
      obtain ⟨h1, h2, h3⟩ := h
      simp only at h1
      subst h1
      exact ⟨rfl, h2, h3⟩
  | ok a =>
    have h := hm (good_ok a)
    unfold M.bind
    cases hms : m st with
    | mk s' x =>
      rw [hms] at h
      obtain ⟨h1, h2, h3⟩ := h
      simp only at h1
      subst h1
      have := hf a s' rfl h2 h3 hG
      simp only
      exact ⟨this.1, this.2.1.trans h2, this.2.2.trans h3⟩

theorem matches_pure {α : Type} (a : α) (st : St) : Matches (M.pure a) (pure a) st :=
  fun _ => ⟨rfl, rfl, rfl⟩

theorem matches_lift {α : Type} (r : Except Err α) (st : St) : Matches (M.lift r) r st :=
  fun _ => ⟨rfl, rfl, rfl⟩

theorem matches_throw {α : Type} (e : Err) (st : St) : Matches (M.throw e : M α) (.error e) st :=
  fun _ => ⟨rfl, rfl, rfl⟩

theorem agree_matches (hA : Agree cfg I R) (e : Expr) (st : St) (hr : st.record = cfg.record)
    (hS : Supported (keys st.ns) e) : Matches (I e) (R st.ns e) st := hA e st hr hS

theorem matches_evalList (hA : Agree cfg I R) (es : List Expr) (st : St) (hr : st.record = cfg.record)
    (hS : ∀ e ∈ es, Supported (keys st.ns) e) : Matches (evalList I es) (rList R st.ns es) st := by
  induction es generalizing st with
  | nil => exact matches_pure _ st
  | cons e es ih =>
    unfold evalList rList
    simp only [bind_eq, pure_eq]
    refine matches_bind (agree_matches hA e st hr (hS e (by simp))) (fun v st' _ hns hrec => ?_)
    have ih' := ih st' (hrec.trans hr) (fun x hx => hns ▸ hS x (by simp [hx]))
    rw [hns] at ih'
    exact matches_bind ih' (fun vs st'' _ _ _ => matches_pure _ st'')

theorem matches_evalKwargs (hA : Agree cfg I R) (es : List (String × Expr)) (st : St) (hr : st.record = cfg.record)
    (hS : ∀ k ∈ es, Supported (keys st.ns) k.2) : Matches (evalKwargs I es) (rKwargs R st.ns es) st := by
  induction es generalizing st with
  | nil => exact matches_pure _ st
  | cons ke es ih =>
    obtain ⟨k, e⟩ := ke
    unfold evalKwargs rKwargs
    simp only [bind_eq, pure_eq]
    refine matches_bind (agree_matches hA e st hr (hS (k, e) (by simp))) (fun v st' _ hns hrec => ?_)
    have ih' := ih st' (hrec.trans hr) (fun x hx => hns ▸ hS x (by simp [hx]))
    rw [hns] at ih'
    exact matches_bind ih' (fun vs st'' _ _ _ => matches_pure _ st'')

theorem matches_evalBool (hA : Agree cfg I R) (stopOn : Bool) (es : List Expr) (last : PVal) (st : St)
    (hr : st.record = cfg.record) (hS : ∀ e ∈ es, Supported (keys st.ns) e) :
    Matches (evalBool P I stopOn es last) (rBool P R st.ns stopOn es last) st := by
  induction es generalizing st last with
  | nil => exact matches_pure _ st
  | cons e es ih =>
    intro hG
    unfold rBool at hG ⊢
    unfold evalBool
    have hA' := hA e st hr (hS e (by simp))
    unfold AgreeAt at hA'
    cases hR : R st.ns e with
    | error x =>
      rw [hR] at hG hA'
      have hb : Bad x = false := good_err hG
      obtain ⟨h1, h2, h3⟩ := hA' (good_of_err hG)
      cases hI : I e st with
      | mk s' r =>
        rw [hI] at h1 h2 h3
        simp only at h1 h2 h3
        subst h1
        cases x <;> first | exact ⟨rfl, h2, h3⟩ | (simp [Bad] at hb)
    | ok v =>
      rw [hR] at hG hA'
      obtain ⟨h1, h2, h3⟩ := hA' (good_ok v)
      cases hI : I e st with
      | mk s' r =>
        rw [hI] at h1 h2 h3
        simp only at h1 h2 h3
        subst h1
        simp only [bind, Except.bind] at hG ⊢
        by_cases ht : (P.truthy v == stopOn) = true
        · simp only [ht, if_true] at hG ⊢
          exact ⟨rfl, h2, h3⟩
        · simp only [ht] at hG ⊢
          have := ih v s' (h3.trans hr) (fun x hx => h2 ▸ hS x (by simp [hx])) (by rw [h2]; exact hG)
          rw [h2] at this
          exact ⟨this.1, this.2.1, this.2.2.trans h3⟩

theorem link_plain (op : String) (f : PVal → PVal → Except Err PVal) (l r : PVal) (st : St)
    (ht : tableCompare P op = .ok f) (hd : rCompare P cfg op l r = f l r)
    (hn : (op == "In" || op == "NotIn") = false) : Matches (linkCompare P op l r) (rCompare P cfg op l r) st := by
  intro _
  simp [linkCompare, ht, hn, hd]

/-- Inst-level fact about the generated comparator table, lifted to every operand: for a documented operator the
    interpreter's link equals the reference's whenever the reference result is defined. -/
theorem matches_link (hc : cfg.compiled = false) (op : String) (hop : op ∈ docCmpops) (l r : PVal) (st : St) :
    Matches (linkCompare P op l r) (rCompare P cfg op l r) st := by
  simp only [docCmpops, List.mem_cons, List.mem_nil_iff, or_false] at hop
  rcases hop with h | h | h | h | h | h | h | h | h | h <;> subst h
  · exact link_plain "Eq" (P.rich .eq) l r st rfl rfl rfl
  · exact link_plain "NotEq" (P.rich .ne) l r st rfl rfl rfl
  · exact link_plain "Lt" (P.rich .lt) l r st rfl rfl rfl
  · exact link_plain "Gt" (P.rich .gt) l r st rfl rfl rfl
  · exact link_plain "LtE" (P.rich .le) l r st rfl rfl rfl
  · exact link_plain "GtE" (P.rich .ge) l r st rfl rfl rfl
  · -- In
    intro hG
    have ht : tableCompare P "In" = .ok (fun l r =>
        if l.isMissing || r.isMissing then .ok (.bool false) else (P.contains r l).map PVal.bool) := rfl
    have hd : docCmp "In" = some .guardedIn := rfl
    simp only [rCompare, hd, hc] at hG ⊢
    simp only [linkCompare, ht]
    by_cases hm : (l.isMissing || r.isMissing || l.isTmatch) = true
    · simp [hm] at hG
      exact absurd (hG _ rfl) (by simp [Bad])
    · simp only [Bool.or_eq_true, not_or, Bool.not_eq_true] at hm
      simp [hm.1.1, hm.1.2, hm.2]
  · -- NotIn
    intro hG
    have ht : tableCompare P "NotIn" = .ok (fun l r =>
        if l.isMissing || r.isMissing then .ok (.bool false)
        else (P.contains r l).map (fun b => PVal.bool (b == false))) := rfl
    have hd : docCmp "NotIn" = some .guardedNotIn := rfl
    simp only [rCompare, hd, hc] at hG ⊢
    simp only [linkCompare, ht]
    by_cases hm : (l.isMissing || r.isMissing || l.isTmatch) = true
    · simp [hm] at hG
      exact absurd (hG _ rfl) (by simp [Bad])
    · simp only [Bool.or_eq_true, not_or, Bool.not_eq_true] at hm
      simp only [hm.1.1, hm.1.2, hm.2, Bool.and_false, Bool.false_eq_true, ↓reduceIte, Bool.or_self, Bool.not_false]
      cases P.contains r l with
      | error e => simp [Except.map]
      | ok b => cases b <;> simp [Except.map]
  · exact link_plain "Is" (fun l r => .ok (.bool (P.is_ l r))) l r st rfl rfl rfl
  · exact link_plain "IsNot" (fun l r => .ok (.bool (!P.is_ l r))) l r st rfl rfl rfl

theorem matches_ite {α : Type} {c : Prop} [Decidable c] {m1 m2 : M α} {r1 r2 : Except Err α} {st : St}
    (h1 : c → Matches m1 r1 st) (h2 : ¬ c → Matches m2 r2 st) :
    Matches (if c then m1 else m2) (if c then r1 else r2) st := by
  by_cases h : c
  · simp only [if_pos h]; exact h1 h
  · simp only [if_neg h]; exact h2 h

theorem matches_evalChain (hA : Agree cfg I R) (hc : cfg.compiled = false) (rest : List (String × Expr))
    (left result : PVal) (st : St) (hr : st.record = cfg.record) (hop : ∀ p ∈ rest, p.1 ∈ docCmpops)
    (hS : ∀ p ∈ rest, Supported (keys st.ns) p.2) :
    Matches (evalChain P I left rest result) (rChain P cfg R st.ns left rest result) st := by
  induction rest generalizing st left result with
  | nil => exact matches_pure _ st
  | cons oc rest ih =>
    obtain ⟨op, c⟩ := oc
    unfold evalChain rChain
    simp only [bind_eq, pure_eq]
    refine matches_bind (agree_matches hA c st hr (hS (op, c) (by simp))) (fun right st' _ hns hrec => ?_)
    refine matches_bind (matches_link hc op (hop (op, c) (by simp)) left right st') (fun res st'' _ hns' hrec' => ?_)
    refine matches_ite (fun _ => matches_pure _ st'') (fun _ => ?_)
    have e : st''.ns = st.ns := hns'.trans hns
    have := ih right res st'' ((hrec'.trans hrec).trans hr) (fun p hp => hop p (by simp [hp]))
      (fun p hp => e ▸ hS p (by simp [hp]))
    rw [e] at this
    exact this

theorem matches_evalIfs (hA : Agree cfg I R) (cs : List Expr) (st : St) (hr : st.record = cfg.record)
    (hS : ∀ e ∈ cs, Supported (keys st.ns) e) : Matches (evalIfs P I cs) (rIfs P R st.ns cs) st := by
  induction cs generalizing st with
  | nil => exact matches_pure _ st
  | cons e es ih =>
    unfold evalIfs rIfs
    simp only [bind_eq, pure_eq]
    refine matches_bind (agree_matches hA e st hr (hS e (by simp))) (fun v st' _ hns hrec => ?_)
    refine matches_ite (fun _ => ?_) (fun _ => matches_pure _ st')
    have := ih st' (hrec.trans hr) (fun x hx => hns ▸ hS x (by simp [hx]))
    rw [hns] at this
    exact this

/-! ### generator expressions (one `for` clause) -/

theorem delVar_of_not_mem {x : String} {ns : Env} (h : x ∉ keys ns) : delVar x ns = ns := by
  induction ns with
  | nil => rfl
  | cons p ns ih =>
    simp only [keys, List.map_cons, List.mem_cons, not_or] at h
    have ih' := ih (by simpa [keys] using h.2)
    simp only [delVar, List.filter_cons]
    have : (p.1 != x) = true := by simpa [bne_iff_ne] using (fun hh => h.1 hh.symm)
    simp only [this, if_true]
    exact congrArg _ ih'

theorem delVar_cons_self (x : String) (v : PVal) (ns : Env) : delVar x ((x, v) :: ns) = delVar x ns := by
  simp [delVar]

theorem lookup_none_of_not_mem {x : String} {ns : Env} (h : x ∉ keys ns) : ns.lookup x = none := by
  induction ns with
  | nil => rfl
  | cons p ns ih =>
    obtain ⟨k, v⟩ := p
    simp only [keys, List.map_cons, List.mem_cons, not_or] at h
    have : (x == k) = false := by simpa using h.1
    simp only [List.lookup, this]
    exact ih (by simpa [keys] using h.2)

/-- agreement up to the loop variable `x`: same result, and the namespace is `ns0` once `x` is removed -/
def MatchesMod {α : Type} (x : String) (ns0 : Env) (m : M α) (r : Except Err α) (st : St) : Prop :=
  Good r → (m st).2 = r ∧ delVar x (m st).1.ns = ns0 ∧ (m st).1.record = st.record

theorem matchesMod_forVals (x : String) (ns0 : Env) (body : PVal → M (Option Bool))
    (rbody : PVal → Except Err (Option Bool))
    (rec0 : PVal) (hb : ∀ val s, delVar x s.ns = ns0 → s.record = rec0 → MatchesMod x ns0 (body val) (rbody val) s)
    (vals : List PVal) (st : St) (hst : delVar x st.ns = ns0) (hrec0 : st.record = rec0) :
    MatchesMod x ns0 (forVals body vals) (rForVals rbody vals) st := by
  induction vals generalizing st with
  | nil => intro _; exact ⟨rfl, hst, rfl⟩
  | cons v vs ih =>
    intro hG
    unfold forVals
    unfold rForVals at hG ⊢
    simp only [bind_eq, pure_eq] at hG ⊢
    cases hR : rbody v with
    | error e =>
      rw [hR] at hG
      obtain ⟨h1, h2, h3⟩ := hb v st hst hrec0 (by rw [hR]; exact good_of_err hG)
      unfold M.bind
      cases hms : body v st with
      | mk s' r =>
        rw [hms, hR] at h1
        rw [hms] at h2 h3
        simp only at h1 h2 h3
        subst h1
        exact ⟨rfl, h2, h3⟩
    | ok o =>
      rw [hR] at hG
      obtain ⟨h1, h2, h3⟩ := hb v st hst hrec0 (by rw [hR]; exact good_ok o)
      unfold M.bind
      cases hms : body v st with
      | mk s' r =>
        rw [hms, hR] at h1
        rw [hms] at h2 h3
        simp only at h1 h2 h3
        subst h1
        cases o with
        | some b => exact ⟨rfl, h2, h3⟩
        | none =>
          have := ih s' h2 (h3.trans hrec0) hG
          exact ⟨this.1, this.2.1, this.2.2.trans h3⟩

theorem matchesMod_bind {α β : Type} {x : String} {ns0 : Env} {m : M α} {r : Except Err α} {f : α → M β}
    {g : α → Except Err β} {st : St} (hm : Matches m r st)
    (hf : ∀ a st', r = .ok a → st'.ns = st.ns → st'.record = st.record → MatchesMod x ns0 (f a) (g a) st')
    (hns : delVar x st.ns = ns0) : MatchesMod x ns0 (M.bind m f) (r >>= g) st := by
  intro hG
  cases r with
  | error e =>
    have h := hm (good_of_err hG)
    unfold M.bind
    cases hms : m st with
    | mk s' y =>
      rw [hms] at h
      obtain ⟨h1, h2, h3⟩ := h
      simp only at h1 h2
      subst h1
      exact ⟨rfl, by simp only [h2]; exact hns, h3⟩
  | ok a =>
    have h := hm (good_ok a)
    unfold M.bind
    cases hms : m st with
    | mk s' y =>
      rw [hms] at h
      obtain ⟨h1, h2, h3⟩ := h
      simp only at h1
      subst h1
      have := hf a s' rfl h2 h3 hG
      simp only
      exact ⟨this.1, this.2.1, this.2.2.trans h3⟩

theorem matches_loopGens_nil (hA : Agree cfg I R) (c : Consumer) (elt : Expr) (st : St) (hr : st.record = cfg.record)
    (hS : Supported (keys st.ns) elt) : Matches (loopGens P I c elt []) (rLoop P cfg R c elt [] st.ns) st := by
  unfold loopGens rLoop
  simp only [bind_eq, pure_eq]
  exact matches_bind (agree_matches hA elt st hr hS) (fun v st' _ _ _ => matches_pure _ st')

/-- one iteration of the `for` clause: bind the variable, test the conditions, evaluate the element -/
theorem genexp_body (hA : Agree cfg I R) (c : Consumer) (elt : Expr) (x : String) (ifs : List Expr) (ns0 : Env)
    (hSi : ∀ i ∈ ifs, Supported (x :: keys ns0) i) (hSe : Supported (x :: keys ns0) elt)
    (val : PVal) (s : St) (hs : delVar x s.ns = ns0) (hr : s.record = cfg.record) :
    MatchesMod x ns0
      (M.bind (M.setVar x val) (fun _ => M.bind (evalIfs P I ifs)
        (fun b => if b = true then loopGens P I c elt [] else M.pure none)))
      (rIfs P R ((x, val) :: ns0) ifs >>= fun b =>
        if b = true then rLoop P cfg R c elt [] ((x, val) :: ns0) else pure none) s := by
  have hns1 : (s.set x val).ns = (x, val) :: ns0 := by simp [St.set, setVar, hs]
  have hk : keys (s.set x val).ns = x :: keys ns0 := by simp [hns1, keys]
  have hr1 : (s.set x val).record = cfg.record := hr
  have hM : Matches (M.bind (evalIfs P I ifs) (fun b => if b = true then loopGens P I c elt [] else M.pure none))
      (rIfs P R (s.set x val).ns ifs >>= fun b =>
        if b = true then rLoop P cfg R c elt [] (s.set x val).ns else pure none) (s.set x val) := by
    refine matches_bind (matches_evalIfs hA ifs _ hr1 (fun i hi => hk ▸ hSi i hi)) (fun b st' _ hns hrec => ?_)
    refine matches_ite (fun _ => ?_) (fun _ => matches_pure _ st')
    have := matches_loopGens_nil (P := P) hA c elt st' (hrec.trans hr1) (by rw [hns, hk]; exact hSe)
    rw [hns] at this
    exact this
  rw [hns1] at hM
  intro hG
  obtain ⟨h1, h2, h3⟩ := hM hG
  refine ⟨h1, ?_, h3⟩
  show delVar x (_ : St).ns = ns0
  have : ∀ (m : M (Option Bool)), (M.bind (M.setVar x val) (fun _ => m)) s = m (s.set x val) := fun _ => rfl
  rw [this, h2, hns1, delVar_cons_self]
  rw [← hs]
  simp [delVar, List.filter_filter]

theorem matches_runGenexp (hA : Agree cfg I R) (hc : cfg.compiled = false) (c : Consumer) (elt : Expr) (x : String)
    (iter : Expr) (ifs : List Expr) (st : St) (hr : st.record = cfg.record) (hx : x ∉ keys st.ns)
    (hbk : baseKeys.contains x = false) (hSit : Supported (keys st.ns) iter)
    (hSi : ∀ i ∈ ifs, Supported (x :: keys st.ns) i) (hSe : Supported (x :: keys st.ns) elt) :
    Matches (runGenexp P I c elt [(some x, iter, ifs)])
      (rLoop P cfg R c elt [(some x, iter, ifs)] st.ns >>= fun r => pure (.bool (r.getD c.default))) st := by
  have hd : delVar x st.ns = st.ns := delVar_of_not_mem hx
  -- the loops, up to the loop variable
  have hloop : MatchesMod x st.ns (loopGens P I c elt [(some x, iter, ifs)])
      (rLoop P cfg R c elt [(some x, iter, ifs)] st.ns) st := by
    unfold loopGens rLoop
    simp only [bind_eq, pure_eq, Option.getD_some]
    refine matchesMod_bind (agree_matches hA iter st hr hSit) (fun itv st' _ hns hrec => ?_) hd
    by_cases hm : itv.isMissing = true
    · intro hG
      simp [hc, hm] at hG
      exact absurd (hG _ rfl) (by simp [Bad])
    · simp only [hm, hc, Bool.not_false, Bool.true_and, Bool.false_eq_true, if_false]
      have hd' : delVar x st'.ns = st.ns := by rw [hns]; exact hd
      refine matchesMod_bind (matches_lift _ st') (fun vals st'' _ hns' hrec' => ?_) hd'
      refine matchesMod_forVals x st.ns _ _ cfg.record (fun val s hs hrs => ?_) vals st'' (by rw [hns']; exact hd')
        ((hrec'.trans hrec).trans hr)
      exact genexp_body hA c elt x ifs st.ns hSi hSe val s hs hrs
  intro hG
  unfold runGenexp
  have hbk' : x ∉ baseKeys := by simpa using hbk
  have hin : inData st x = false := by simp [inData, lookup_none_of_not_mem hx, hbk']
  simp only [List.any_cons, List.any_nil, Option.isNone_some, Bool.or_self, Bool.false_eq_true, if_false,
    Option.getD_some, hin, List.map_cons, List.map_nil, bind_eq, pure_eq]
  unfold M.finally_ M.bind
  cases hR : rLoop P cfg R c elt [(some x, iter, ifs)] st.ns with
  | error e =>
    rw [hR] at hG
    obtain ⟨h1, h2, h3⟩ := hloop (by rw [hR]; exact good_of_err hG)
    cases hms : loopGens P I c elt [(some x, iter, ifs)] st with
    | mk s' y =>
      rw [hms, hR] at h1
      rw [hms] at h2 h3
      simp only at h1 h2 h3
      subst h1
      refine ⟨rfl, ?_, h3⟩
      simp only [St.popAll, List.foldl_cons, List.foldl_nil]
      exact h2
  | ok o =>
    rw [hR] at hG
    obtain ⟨h1, h2, h3⟩ := hloop (by rw [hR]; exact good_ok o)
    cases hms : loopGens P I c elt [(some x, iter, ifs)] st with
    | mk s' y =>
      rw [hms, hR] at h1
      rw [hms] at h2 h3
      simp only at h1 h2 h3
      subst h1
      refine ⟨rfl, ?_, h3⟩
      simp only [St.popAll, List.foldl_cons, List.foldl_nil, M.pure]
      exact h2

/-! ### calls -/

theorem matches_log_then {α : Type} (ev : Event) {m : M α} {r : Except Err α} {st : St}
    (hm : ∀ st', st'.ns = st.ns → st'.record = st.record → Matches m r st') :
    Matches (M.bind (M.log ev) (fun _ => m)) r st := by
  intro hG
  have := hm { st with trace := st.trace ++ [ev] } rfl rfl hG
  exact this

theorem matches_resolveWhitelisted (parts : List String) (obj : PVal) (st : St) :
    Matches (resolveWhitelisted P obj parts) (rResolve P obj parts) st := by
  induction parts generalizing obj st with
  | nil => exact matches_pure _ st
  | cons p ps ih =>
    unfold resolveWhitelisted rResolve
    simp only [bind_eq, pure_eq]
    refine matches_log_then _ (fun st' _ _ => ?_)
    cases hm : P.modattr obj p with
    | error e => intro _; simp [M.bind, M.lift, hm]
    | ok nxt =>
      intro hG
      have := ih nxt st' hG
      simpa [M.bind, M.lift, hm] using this

theorem resolve_some_nameOrAttr {f : Expr} {p : String} (h : resolveAttrPath f = some p) : isNameOrAttr f = true := by
  cases f <;> simp_all [resolveAttrPath, attrChain, isNameOrAttr]

theorem consumed_none_of_supported {b : List String} {fname : String} {args : List Expr}
    {kwargs : List (String × Expr)} (h : ∀ a ∈ args, Supported b a) : consumedGenexp fname args kwargs = none := by
  cases args with
  | nil => simp [consumedGenexp]
  | cons a rest =>
    have ha := h a (by simp)
    cases ha <;> simp [consumedGenexp]

theorem matches_call_plain (hA : Agree cfg I R) (f : PVal) (args : List Expr) (kwargs : List (String × Expr))
    (st : St) (hr : st.record = cfg.record) (hSa : ∀ a ∈ args, Supported (keys st.ns) a)
    (hSk : ∀ k ∈ kwargs, Supported (keys st.ns) k.2) :
    Matches (M.bind (evalList I args) (fun a => M.bind (evalKwargs I kwargs) (fun k =>
        M.bind (M.log (.call f)) (fun _ => M.lift (P.call f a k)))))
      (rList R st.ns args >>= fun a => rKwargs R st.ns kwargs >>= fun k => P.call f a k) st := by
  refine matches_bind (matches_evalList hA args st hr hSa) (fun a st' _ hns hrec => ?_)
  have hk := matches_evalKwargs hA kwargs st' (hrec.trans hr) (fun k hk => hns ▸ hSk k hk)
  rw [hns] at hk
  refine matches_bind hk (fun k st'' _ _ _ => ?_)
  exact matches_log_then _ (fun st3 _ _ => matches_lift _ st3)

theorem matches_evalCall (hA : Agree cfg I R) (hc : cfg.compiled = false) (func : Expr) (args : List Expr)
    (kwargs : List (String × Expr)) (st : St) (hr : st.record = cfg.record)
    (hS : Supported (keys st.ns) (.call func args kwargs)) :
    Matches (evalCall P I func args kwargs) (rCall P cfg R st.ns func args kwargs) st := by
  unfold evalCall rCall rTarget
  simp only [hc, Bool.false_eq_true, if_false]
  cases hp : resolveAttrPath func with
  | none =>
    intro _
    by_cases hn : isNameOrAttr func = true <;> simp [hn, M.throw, bind, Except.bind]
  | some fname =>
    have hn := resolve_some_nameOrAttr hp
    simp only [hn, Bool.not_true, Bool.false_eq_true, if_false]
    cases hS with
    | call _ _ _ _ hSa hSk =>
      by_cases ha : allowedCalls.contains fname = true
      · have hcn : consumedGenexp fname args kwargs = none := consumed_none_of_supported hSa
        simp only [ha, if_true, hcn, bind_eq, pure_eq]
        exact matches_call_plain hA (.builtin fname) args kwargs st hr hSa hSk
      · simp only [ha, Bool.false_eq_true, if_false]
        by_cases hw : Gen.WHITELIST.contains fname = true
        · simp only [hw, if_true, bind_eq, pure_eq, bind_assoc, pure_bind]
          refine matches_bind (matches_resolveWhitelisted _ _ st) (fun f st' _ hns hrec => ?_)
          have := matches_call_plain (P := P) hA f args kwargs st' (hrec.trans hr) (fun a h => hns ▸ hSa a h)
            (fun k h => hns ▸ hSk k h)
          rw [hns] at this
          exact this
        · simp only [hw, Bool.false_eq_true, if_false]
          intro _
          simp [M.throw, bind, Except.bind]
    | callGen _ _ fname' c elt x iter ifs hp' ha hcons hx hbk hSit hSi hSe =>
      rw [hp] at hp'
      cases hp'
      have hcg : consumedGenexp fname [.genexp elt [(some x, iter, ifs)]] [] = some (c, elt, [(some x, iter, ifs)]) := by
        simp [consumedGenexp, hcons]
      simp only [ha, if_true, hcg, bind_eq, pure_eq]
      refine matches_log_then _ (fun st' hns hrec => ?_)
      have := matches_runGenexp (P := P) hA hc c elt x iter ifs st' (hrec.trans hr) (hns ▸ hx) hbk (hns ▸ hSit)
        (fun i hi => hns ▸ hSi i hi) (hns ▸ hSe)
      rw [hns] at this
      simpa [bind, Except.bind] using this

/-! ### one level of `_eval` -/

/-- Inst: every node class of the documented grammar has a branch in `_eval` -/
theorem kinds_handled : ∀ k ∈ ["Constant", "List", "Tuple", "Name", "Attribute", "BoolOp", "BinOp", "UnaryOp", "Compare",
    "Call"], Gen.evalNodeKinds.contains k = true := by decide

/-- Inst: the generated `AST_OPERATORS` maps every documented binary operator to the documented primitive -/
theorem tableArith_doc : ∀ op ∈ docBinops, ∃ a, tableArith op = .ok a ∧ docArith op = some a := by
  intro op hop
  simp only [docBinops, List.mem_cons, List.mem_nil_iff, or_false] at hop
  rcases hop with h | h | h | h | h | h <;> subst h <;> exact ⟨_, rfl, rfl⟩

theorem table_not : Gen.AST_OPERATORS.lookup "Not" = some "operator.not_" := by decide

theorem matches_evalStep (hA : Agree cfg I R) (hc : cfg.compiled = false) (e : Expr) (st : St)
    (hr : st.record = cfg.record) (hS : Supported (keys st.ns) e) :
    Matches (evalStep P I e) (refStep P cfg R st.ns e) st := by
  unfold evalStep refStep
  cases hS with
  | const _ c =>
    have hk : Gen.evalNodeKinds.contains "Constant" = true := kinds_handled "Constant" (by simp)
    simp only [Expr.kind, hk, Bool.not_true, Bool.false_eq_true, if_false, pure_eq]
    exact matches_pure _ st
  | list _ es h =>
    have hk : Gen.evalNodeKinds.contains "List" = true := kinds_handled "List" (by simp)
    simp only [Expr.kind, hk, Bool.not_true, Bool.false_eq_true, if_false, bind_eq, pure_eq]
    exact matches_bind (matches_evalList hA es st hr h) (fun vs st' _ _ _ => matches_pure _ st')
  | tuple _ es h =>
    have hk : Gen.evalNodeKinds.contains "Tuple" = true := kinds_handled "Tuple" (by simp)
    simp only [Expr.kind, hk, Bool.not_true, Bool.false_eq_true, if_false, bind_eq, pure_eq]
    exact matches_bind (matches_evalList hA es st hr h) (fun vs st' _ _ _ => matches_pure _ st')
  | name _ id =>
    have hk : Gen.evalNodeKinds.contains "Name" = true := kinds_handled "Name" (by simp)
    simp only [Expr.kind, hk, Bool.not_true, Bool.false_eq_true, if_false]
    intro _
    cases hl : st.ns.lookup id with
    | some v => simp [inData, dataGet, hl]
    | none =>
      by_cases hb : id ∈ baseKeys
      · simp [inData, dataGet, hl, hb, refName, hc, hr]
      · have hnr : nameRefused id = hasPrefix "__" id := by
          have h1 : Gen.nameFallbackRefusesDunder = true := by decide
          have h2 : Gen.nameRefusedPrefix = "__" := by decide
          simp [nameRefused, h1, h2]
        by_cases hd : hasPrefix "__" id = true <;>
          simp [inData, hl, hb, refName, hc, M.bind, M.log, M.lift, hnr, hd]
  | attr _ v a hv =>
    have hk : Gen.evalNodeKinds.contains "Attribute" = true := kinds_handled "Attribute" (by simp)
    have hp : Gen.attrRefusedPrefix = "__" := by decide
    simp only [Expr.kind, hk, Bool.not_true, Bool.false_eq_true, if_false, hp, hc,
      Bool.not_false, Bool.true_and]
    by_cases hd : hasPrefix "__" a = true
    · simp only [hd, if_true]
      exact matches_throw _ st
    · simp only [hd, Bool.false_eq_true, if_false, bind_eq, pure_eq]
      refine matches_bind (agree_matches hA v st hr hv) (fun obj st' _ _ _ => ?_)
      refine matches_log_then _ (fun st'' _ _ => ?_)
      intro hG
      cases hg : P.getattr obj a with
      | some r => exact ⟨rfl, rfl, rfl⟩
      | none =>
        rw [hg] at hG
        exact absurd (hG _ rfl) (by simp [Bad])
  | boolop _ op vs h =>
    have hk : Gen.evalNodeKinds.contains "BoolOp" = true := kinds_handled "BoolOp" (by simp)
    simp only [Expr.kind, hk, Bool.not_true, Bool.false_eq_true, if_false]
    exact matches_evalBool hA _ vs _ st hr h
  | binop _ op l r hop hl hrr =>
    have hk : Gen.evalNodeKinds.contains "BinOp" = true := kinds_handled "BinOp" (by simp)
    simp only [Expr.kind, hk, Bool.not_true, Bool.false_eq_true, if_false, bind_eq, pure_eq,
      hc, Bool.not_false, Bool.true_and]
    refine matches_bind (agree_matches hA l st hr hl) (fun lv st' _ hns hrec => ?_)
    have h2 := agree_matches hA r st' (hrec.trans hr) (hns ▸ hrr)
    rw [hns] at h2
    refine matches_bind h2 (fun rv st'' _ _ _ => ?_)
    obtain ⟨a, ha1, ha2⟩ := tableArith_doc op hop
    by_cases hg : (lv.isMissing || rv.isMissing) = true
    · intro hG
      simp [hg] at hG
      exact absurd (hG _ rfl) (by simp [Bad])
    · simp only [binopGuard, hg, Bool.false_eq_true, if_false, ha1, ha2]
      exact matches_lift _ st''
  | not _ x hx =>
    have hk : Gen.evalNodeKinds.contains "UnaryOp" = true := kinds_handled "UnaryOp" (by simp)
    simp only [Expr.kind, hk, Bool.not_true, Bool.false_eq_true, if_false, table_not,
      beq_self_eq_true, if_true, bind_eq, pure_eq]
    exact matches_bind (agree_matches hA x st hr hx) (fun v st' _ _ _ => matches_pure _ st')
  | compare _ l rest hl hops hS' =>
    have hk : Gen.evalNodeKinds.contains "Compare" = true := kinds_handled "Compare" (by simp)
    simp only [Expr.kind, hk, Bool.not_true, Bool.false_eq_true, if_false, bind_eq, pure_eq]
    refine matches_bind (agree_matches hA l st hr hl) (fun lv st' _ hns hrec => ?_)
    have := matches_evalChain (P := P) hA hc rest lv (.bool true) st' (hrec.trans hr) hops (fun p hp => hns ▸ hS' p hp)
    rw [hns] at this
    exact this
  | call _ f args kwargs hSa hSk =>
    have hk : Gen.evalNodeKinds.contains "Call" = true := kinds_handled "Call" (by simp)
    simp only [Expr.kind, hk, Bool.not_true, Bool.false_eq_true, if_false]
    exact matches_evalCall hA hc f args kwargs st hr (.call _ _ _ _ hSa hSk)
  | callGen _ f fname c elt x iter ifs h1 h2 h3 h4 h5 h6 h7 h8 =>
    have hk : Gen.evalNodeKinds.contains "Call" = true := kinds_handled "Call" (by simp)
    simp only [Expr.kind, hk, Bool.not_true, Bool.false_eq_true, if_false]
    exact matches_evalCall hA hc f _ _ st hr (.callGen _ _ fname c elt x iter ifs h1 h2 h3 h4 h5 h6 h7 h8)

/-- The induction on the evaluation depth: the transcription of `_eval` and the reference meaning agree. -/
theorem agree_interp (P : Prim) (cfg : RefCfg) (hc : cfg.compiled = false) (fuel : Nat) :
    Agree cfg (interp P fuel) (refEval P cfg fuel) := by
  induction fuel with
  | zero => intro e st _ _ _; exact ⟨rfl, rfl, rfl⟩
  | succ n ih => intro e st hr hS; exact matches_evalStep ih hc e st hr hS

end FlowRecord.Selector
