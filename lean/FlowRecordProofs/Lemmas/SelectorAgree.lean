import FlowRecord.Model.Selector.Interp
import FlowRecord.Model.Selector.Ref
import FlowRecordProofs.Lemmas.SelectorTrace
/-!
C07: the interpreter transcription and the reference meaning agree — helper lemmas.

`Supported bound e`: the documented grammar, relative to the generator variables currently bound.
`Good r`: the reference result is not one of the two outcomes on which the interpreted engine is *documented* to
differ from plain Python (`undefined`: a missing attribute / the sentinel reaching arithmetic or membership / a typed
matcher on the left of `in`; `typeErrNone`: a TypeError mentioning NoneType, which the BoolOp branch swallows).
`Agree`: for every supported expression and every state, if the reference result is `Good` then the interpreter
returns exactly that result (value *or* exception) and leaves namespace and record as they were.
All lemmas are for every `Prim`.
-/
namespace FlowRecord.Selector
open FlowRecord

def docBinops : List String := ["Add", "Mult", "Div", "Mod", "BitAnd", "BitOr"]
def docCmpops : List String := ["Eq", "NotEq", "Lt", "Gt", "LtE", "GtE", "In", "NotIn", "Is", "IsNot"]

def keys (ns : List (String × PVal)) : List String := ns.map (·.1)

/-- The documented selector language. `b` = generator variables in scope. -/
inductive Supported : List String → Expr → Prop
  | const (b c) : Supported b (.const c)
  | list (b es) : (∀ e ∈ es, Supported b e) → Supported b (.list es)
  | tuple (b es) : (∀ e ∈ es, Supported b e) → Supported b (.tuple es)
  | name (b id) : Supported b (.name id)
  | attr (b v a) : Supported b v → Supported b (.attr v a)
  | boolop (b op vs) : (∀ e ∈ vs, Supported b e) → Supported b (.boolop op vs)
  | binop (b op l r) : op ∈ docBinops → Supported b l → Supported b r → Supported b (.binop op l r)
  | not (b x) : Supported b x → Supported b (.unary "Not" x)
  | compare (b l rest) : Supported b l → (∀ p ∈ rest, p.1 ∈ docCmpops ∧ Supported b p.2) →
      Supported b (.compare l rest)
  /-- a call; which targets are *accepted* is C09's subject — refused targets are refused identically -/
  | call (b f args kwargs) : (∀ a ∈ args, Supported b a) → (∀ k ∈ kwargs, Supported b k.2) →
      Supported b (.call f args kwargs)
  /-- `any(elt for x in iter if …)` / `all(…)`: one `for` clause, a fresh variable name -/
  | callGen (b f fname c elt x iter ifs) : resolveAttrPath f = some fname → allowedCalls.contains fname = true →
      consumerOf fname = some c → x ∉ b → baseKeys.contains x = false → Supported b iter →
      (∀ i ∈ ifs, Supported (x :: b) i) → Supported (x :: b) elt →
      Supported b (.call f [.genexp elt [(some x, iter, ifs)]] [])

def Bad : Err → Bool
  | .typeErrNone => true
  | .undefined => true
  | _ => false

def Good {α : Type} (r : Except Err α) : Prop := ∀ e, r = .error e → Bad e = false

theorem good_ok {α : Type} (a : α) : Good (Except.ok a : Except Err α) := fun _ h => by cases h
theorem good_err {α : Type} {e : Err} (h : Good (Except.error e : Except Err α)) : Bad e = false := h e rfl
theorem good_of_err {α β : Type} {e : Err} (h : Good (Except.error e : Except Err α)) :
    Good (Except.error e : Except Err β) := fun e' h' => by cases h'; exact h e rfl

/-- what agreement means for one evaluation started in state `st` -/
def AgreeAt (I : Expr → M PVal) (R : Env → Expr → Except Err PVal) (e : Expr) (st : St) : Prop :=
  Good (R st.ns e) → (I e st).2 = R st.ns e ∧ (I e st).1.ns = st.ns ∧ (I e st).1.record = st.record

def Agree (cfg : RefCfg) (I : Expr → M PVal) (R : Env → Expr → Except Err PVal) : Prop :=
  ∀ e st, st.record = cfg.record → Supported (keys st.ns) e → AgreeAt I R e st

/-- the same for a monadic helper against its pure counterpart -/
def Matches {α : Type} (m : M α) (r : Except Err α) (st : St) : Prop :=
  Good r → (m st).2 = r ∧ (m st).1.ns = st.ns ∧ (m st).1.record = st.record

variable {P : Prim} {cfg : RefCfg} {I : Expr → M PVal} {R : Env → Expr → Except Err PVal}

/-- sequencing: if `m` matches `r` and, for every value, the continuation matches, then the bind matches -/
theorem matches_bind {α β : Type} {m : M α} {r : Except Err α} {f : α → M β} {g : α → Except Err β} {st : St}
    (hm : Matches m r st)
    (hf : ∀ a st', r = .ok a → st'.ns = st.ns → st'.record = st.record → Matches (f a) (g a) st') :
    Matches (M.bind m f) (match r with | .error e => .error e | .ok a => g a) st := by
  intro hG
  cases r with
  | error e =>
    have h := hm (good_of_err hG)
    unfold M.bind
    cases hms : m st with
    | mk s' x =>
      rw [hms] at h
      obtain ⟨h1, h2, h3⟩ := h
      simp only at h1
      subst h1
      exact ⟨rfl, h2, h3⟩
  | ok a =>
    have h := hm (good_ok a)
    unfold M.bind
    cases hms : m st with
    | mk s' x =>
      rw [hms] at h
      obtain ⟨h1, h2, h3⟩ := h
      simp only at h1
      subst h1
      have := hf a s' rfl h2 h3 hG
      simp only
      exact ⟨this.1, this.2.1.trans h2, this.2.2.trans h3⟩

theorem matches_pure {α : Type} (a : α) (st : St) : Matches (M.pure a) (.ok a) st :=
  fun _ => ⟨rfl, rfl, rfl⟩

theorem matches_lift {α : Type} (r : Except Err α) (st : St) : Matches (M.lift r) r st :=
  fun _ => ⟨rfl, rfl, rfl⟩

theorem matches_throw {α : Type} (e : Err) (st : St) : Matches (M.throw e : M α) (.error e) st :=
  fun _ => ⟨rfl, rfl, rfl⟩

theorem agree_matches (hA : Agree cfg I R) (e : Expr) (st : St) (hr : st.record = cfg.record)
    (hS : Supported (keys st.ns) e) : Matches (I e) (R st.ns e) st := hA e st hr hS

theorem matches_evalList (hA : Agree cfg I R) (es : List Expr) (st : St) (hr : st.record = cfg.record)
    (hS : ∀ e ∈ es, Supported (keys st.ns) e) : Matches (evalList I es) (rList R st.ns es) st := by
  induction es generalizing st with
  | nil => exact matches_pure _ st
  | cons e es ih =>
    unfold evalList rList
    simp only [bind_eq, pure_eq]
    refine matches_bind (agree_matches hA e st hr (hS e (by simp))) (fun v st' _ hns hrec => ?_)
    have ih' := ih st' (hrec.trans hr) (fun x hx => hns ▸ hS x (by simp [hx]))
    rw [hns] at ih'
    exact matches_bind ih' (fun vs st'' _ _ _ => matches_pure _ st'')

theorem matches_evalKwargs (hA : Agree cfg I R) (es : List (String × Expr)) (st : St) (hr : st.record = cfg.record)
    (hS : ∀ k ∈ es, Supported (keys st.ns) k.2) : Matches (evalKwargs I es) (rKwargs R st.ns es) st := by
  induction es generalizing st with
  | nil => exact matches_pure _ st
  | cons ke es ih =>
    obtain ⟨k, e⟩ := ke
    unfold evalKwargs rKwargs
    simp only [bind_eq, pure_eq]
    refine matches_bind (agree_matches hA e st hr (hS (k, e) (by simp))) (fun v st' _ hns hrec => ?_)
    have ih' := ih st' (hrec.trans hr) (fun x hx => hns ▸ hS x (by simp [hx]))
    rw [hns] at ih'
    exact matches_bind ih' (fun vs st'' _ _ _ => matches_pure _ st'')

end FlowRecord.Selector
