import FlowRecordProofs.Lemmas.Msgpack
/-! M5: a proper prefix of the packer's output is never a complete msgpack document. -/
namespace FlowRecord.Msgpack
open FlowRecord

theorem takeN_short (k : Nat) (bs : Bytes) (h : bs.length < k) : takeN k bs = none := by
  unfold takeN; rw [if_neg (by omega)]

theorem withNum_take (j n m : Nat) (p : Bytes) (g : Nat → Bytes → Res (MVal × Bytes)) (h : n < 256 ^ j) :
    withNum j ((beEnc j n ++ p).take m) g = if m < j then .incomplete else g n (p.take (m - j)) := by
  by_cases hm : m < j
  · rw [if_pos hm]
    unfold withNum
    rw [takeN_short]
    simp [List.length_take]; omega
  · rw [if_neg hm]
    have : (beEnc j n ++ p).take m = beEnc j n ++ p.take (m - j) := by
      rw [List.take_append, List.take_of_length_le (by simp; omega)]; simp
    rw [this, withNum_beEnc j n _ g h]

theorem payload_take (p : Bytes) (m : Nat) (mk : Bytes → MVal) (h : m < p.length) :
    payload p.length (p.take m) mk = .incomplete := by
  unfold payload
  rw [takeN_short]
  simp [List.length_take]; omega

theorem decExt_take (t : Nat) (p : Bytes) (m : Nat) (h : m < p.length + 1) :
    decExt p.length ((UInt8.ofNat t :: p).take m) = .incomplete := by
  cases m with
  | zero => simp [decExt]
  | succ m =>
    simp only [List.take_succ_cons, decExt]
    exact payload_take p m _ (by omega)

theorem take_cons_pos {α : Type} (a : α) (l : List α) (k : Nat) (h : 0 < k) : (a :: l).take k = a :: l.take (k - 1) := by
  cases k with
  | zero => omega
  | succ k => simp


theorem decStep_nil (self : Bytes → Res (MVal × Bytes)) : decStep self [] = .incomplete := rfl

/-- literal head byte followed by a j-byte number: any proper prefix is incomplete -/
theorem num_take (self : Bytes → Res (MVal × Bytes)) (hd : UInt8) (j n k : Nat) (g : Nat → Bytes → Res (MVal × Bytes))
    (hdec : ∀ rest, decStep self (hd :: rest) = withNum j rest g) (hk : k < 1 + j) (hn : n < 256 ^ j) :
    decStep self ((hd :: beEnc j n).take k) = .incomplete := by
  cases k with
  | zero => rfl
  | succ m =>
    rw [List.take_succ_cons, hdec]
    have := withNum_take j n m [] g hn
    rw [List.append_nil] at this
    rw [this, if_pos (by omega)]

/-- literal head, j-byte length, payload: any proper prefix is incomplete -/
theorem lenpayload_take (self : Bytes → Res (MVal × Bytes)) (hd : UInt8) (j k : Nat) (p : Bytes) (mk : Bytes → MVal)
    (hdec : ∀ rest, decStep self (hd :: rest) = withNum j rest fun l r => payload l r mk)
    (hk : k < 1 + j + p.length) (hn : p.length < 256 ^ j) :
    decStep self ((hd :: beEnc j p.length ++ p).take k) = .incomplete := by
  cases k with
  | zero => rfl
  | succ m =>
    rw [List.cons_append, List.take_succ_cons, hdec, withNum_take j _ m p _ hn]
    split
    · rfl
    · exact payload_take p _ mk (by omega)

theorem encInt_take (self : Bytes → Res (MVal × Bytes)) (i : Int) (k : Nat)
    (h1 : -9223372036854775808 ≤ i) (h2 : i < 18446744073709551616) (hk : k < (encInt i).length) :
    decStep self ((encInt i).take k) = .incomplete := by
  unfold encInt at hk ⊢
  by_cases h0 : 0 ≤ i
  · simp only [h0, if_true] at hk ⊢
    split at hk <;> rename_i c1
    · simp only [c1, if_true]; simp at hk; subst hk; rfl
    · simp only [c1, if_false] at hk ⊢
      split at hk <;> rename_i c2
      · simp only [c2, if_true]
        exact num_take self _ 1 _ k _ (by intro r; simp [decStep]; rfl) (by simpa using hk) (by omega)
      · simp only [c2, if_false] at hk ⊢
        split at hk <;> rename_i c3
        · simp only [c3, if_true]
          exact num_take self _ 2 _ k _ (by intro r; simp [decStep]; rfl) (by simpa using hk) (by omega)
        · simp only [c3, if_false] at hk ⊢
          split at hk <;> rename_i c4
          · simp only [c4, if_true]
            exact num_take self _ 4 _ k _ (by intro r; simp [decStep]; rfl) (by simpa using hk) (by omega)
          · simp only [c4, if_false] at hk ⊢
            exact num_take self _ 8 _ k _ (by intro r; simp [decStep]; rfl) (by simpa using hk) (by omega)
  · simp only [h0, if_false] at hk ⊢
    split at hk <;> rename_i c1
    · simp only [c1, if_true]; simp at hk; subst hk; rfl
    · simp only [c1, if_false] at hk ⊢
      split at hk <;> rename_i c2
      · simp only [c2, if_true]
        exact num_take self _ 1 _ k _ (by intro r; simp [decStep]; rfl) (by simpa using hk) (by omega)
      · simp only [c2, if_false] at hk ⊢
        split at hk <;> rename_i c3
        · simp only [c3, if_true]
          exact num_take self _ 2 _ k _ (by intro r; simp [decStep]; rfl) (by simpa using hk) (by omega)
        · simp only [c3, if_false] at hk ⊢
          split at hk <;> rename_i c4
          · simp only [c4, if_true]
            exact num_take self _ 4 _ k _ (by intro r; simp [decStep]; rfl) (by simpa using hk) (by omega)
          · simp only [c4, if_false] at hk ⊢
            exact num_take self _ 8 _ k _ (by intro r; simp [decStep]; rfl) (by simpa using hk) (by omega)


theorem str_take (self : Bytes → Res (MVal × Bytes)) (p : Bytes) (k : Nat) (h : p.length < 4294967296)
    (hk : k < (strHead p.length ++ p).length) :
    decStep self ((strHead p.length ++ p).take k) = .incomplete := by
  unfold strHead at hk ⊢
  split at hk <;> rename_i c1
  · simp only [c1, if_true]
    cases k with
    | zero => rfl
    | succ m =>
      rw [List.cons_append, List.nil_append, List.take_succ_cons,
        decStep_fixstr _ _ _ (by rw [u8 _ (by omega)]; omega) (by rw [u8 _ (by omega)]; omega), u8 _ (by omega)]
      have e : 160 + p.length - 160 = p.length := by omega
      rw [e]
      exact payload_take p m _ (by simp at hk; omega)
  · simp only [c1, if_false] at hk ⊢
    split at hk <;> rename_i c2
    · simp only [c2, if_true]
      exact lenpayload_take self _ 1 k p MVal.str (by intro r; simp [decStep]) (by simp at hk; omega) (by omega)
    · simp only [c2, if_false] at hk ⊢
      split at hk <;> rename_i c3
      · simp only [c3, if_true]
        exact lenpayload_take self _ 2 k p MVal.str (by intro r; simp [decStep]) (by simp at hk; omega) (by omega)
      · simp only [c3, if_false] at hk ⊢
        exact lenpayload_take self _ 4 k p MVal.str (by intro r; simp [decStep]) (by simp at hk; omega) (by omega)

theorem bin_take (self : Bytes → Res (MVal × Bytes)) (p : Bytes) (k : Nat) (h : p.length < 4294967296)
    (hk : k < (binHead p.length ++ p).length) :
    decStep self ((binHead p.length ++ p).take k) = .incomplete := by
  unfold binHead at hk ⊢
  split at hk <;> rename_i c1
  · simp only [c1, if_true]
    exact lenpayload_take self _ 1 k p MVal.bin (by intro r; simp [decStep]) (by simp at hk; omega) (by omega)
  · simp only [c1, if_false] at hk ⊢
    split at hk <;> rename_i c2
    · simp only [c2, if_true]
      exact lenpayload_take self _ 2 k p MVal.bin (by intro r; simp [decStep]) (by simp at hk; omega) (by omega)
    · simp only [c2, if_false] at hk ⊢
      exact lenpayload_take self _ 4 k p MVal.bin (by intro r; simp [decStep]) (by simp at hk; omega) (by omega)

/-- fixext: literal head, type byte, payload of the fixed size -/
theorem fixext_take (self : Bytes → Res (MVal × Bytes)) (hd : UInt8) (t k : Nat) (p : Bytes)
    (hdec : ∀ rest, decStep self (hd :: rest) = decExt p.length rest) (hk : k < 2 + p.length) :
    decStep self (([hd, UInt8.ofNat t] ++ p).take k) = .incomplete := by
  cases k with
  | zero => rfl
  | succ m =>
    rw [List.cons_append, List.take_succ_cons, hdec]
    exact decExt_take t p m (by omega)

/-- ext8/16/32: literal head, j-byte length, type byte, payload -/
theorem lenext_take (self : Bytes → Res (MVal × Bytes)) (hd : UInt8) (j t k : Nat) (p : Bytes)
    (hdec : ∀ rest, decStep self (hd :: rest) = withNum j rest fun l r => decExt l r)
    (hk : k < 1 + j + 1 + p.length) (hn : p.length < 256 ^ j) :
    decStep self ((hd :: beEnc j p.length ++ [UInt8.ofNat t] ++ p).take k) = .incomplete := by
  cases k with
  | zero => rfl
  | succ m =>
    rw [List.append_assoc, List.cons_append, List.take_succ_cons, hdec, withNum_take j _ m _ _ hn]
    split
    · rfl
    · exact decExt_take t p _ (by omega)

theorem ext_take (self : Bytes → Res (MVal × Bytes)) (t : Nat) (p : Bytes) (k : Nat) (h : p.length < 4294967296)
    (hk : k < (extHead t p.length ++ p).length) :
    decStep self ((extHead t p.length ++ p).take k) = .incomplete := by
  unfold extHead at hk ⊢
  split at hk <;> rename_i c1
  · simp only [c1, if_true]
    exact fixext_take self _ t k p (by intro r; simp [decStep, c1]) (by simp at hk; omega)
  · simp only [c1, if_false] at hk ⊢
    split at hk <;> rename_i c2
    · simp only [c2, if_true]
      exact fixext_take self _ t k p (by intro r; simp [decStep, c2]) (by simp at hk; omega)
    · simp only [c2, if_false] at hk ⊢
      split at hk <;> rename_i c3
      · simp only [c3, if_true]
        exact fixext_take self _ t k p (by intro r; simp [decStep, c3]) (by simp at hk; omega)
      · simp only [c3, if_false] at hk ⊢
        split at hk <;> rename_i c4
        · simp only [c4, if_true]
          exact fixext_take self _ t k p (by intro r; simp [decStep, c4]) (by simp at hk; omega)
        · simp only [c4, if_false] at hk ⊢
          split at hk <;> rename_i c5
          · simp only [c5, if_true]
            exact fixext_take self _ t k p (by intro r; simp [decStep, c5]) (by simp at hk; omega)
          · simp only [c5, if_false] at hk ⊢
            split at hk <;> rename_i c6
            · simp only [c6, if_true]
              exact lenext_take self _ 1 t k p (by intro r; simp [decStep]) (by simp at hk; omega) (by omega)
            · simp only [c6, if_false] at hk ⊢
              split at hk <;> rename_i c7
              · simp only [c7, if_true]
                exact lenext_take self _ 2 t k p (by intro r; simp [decStep]) (by simp at hk; omega) (by omega)
              · simp only [c7, if_false] at hk ⊢
                exact lenext_take self _ 4 t k p (by intro r; simp [decStep]) (by simp at hk; omega) (by omega)


theorem arrlike_fix (self : Bytes → Res (MVal × Bytes)) (hd : UInt8) (body : Bytes) (n k : Nat)
    (cont : Nat → Bytes → Res (MVal × Bytes))
    (hdec : ∀ rest, decStep self (hd :: rest) = cont n rest)
    (hbody : ∀ m, m < body.length → m < k → cont n (body.take m) = .incomplete) (hk : k < 1 + body.length) :
    decStep self (([hd] ++ body).take k) = .incomplete := by
  cases k with
  | zero => rfl
  | succ m =>
    rw [List.cons_append, List.nil_append, List.take_succ_cons, hdec]
    exact hbody m (by omega) (by omega)

theorem arrlike_len (self : Bytes → Res (MVal × Bytes)) (hd : UInt8) (j n k : Nat) (body : Bytes)
    (cont : Nat → Bytes → Res (MVal × Bytes))
    (hdec : ∀ rest, decStep self (hd :: rest) = withNum j rest cont) (hn : n < 256 ^ j)
    (hbody : ∀ m, m < body.length → m < k → cont n (body.take m) = .incomplete) (hk : k < 1 + j + body.length) :
    decStep self ((hd :: beEnc j n ++ body).take k) = .incomplete := by
  cases k with
  | zero => rfl
  | succ m =>
    rw [List.cons_append, List.take_succ_cons, hdec, withNum_take j n m body cont hn]
    split
    · rfl
    · exact hbody _ (by omega) (by omega)

theorem arr_take (self : Bytes → Res (MVal × Bytes)) (xs : List MVal) (body : Bytes) (k : Nat)
    (hl : xs.length < 4294967296)
    (hbody : ∀ m, m < body.length → m < k → decN self xs.length (body.take m) = .incomplete)
    (hk : k < (arrHead xs.length ++ body).length) :
    decStep self ((arrHead xs.length ++ body).take k) = .incomplete := by
  have hb : ∀ m, m < body.length → m < k → decArr self xs.length (body.take m) = .incomplete := by
    intro m hm hmk; simp [decArr, hbody m hm hmk]
  unfold arrHead at hk ⊢
  split at hk <;> rename_i c1
  · simp only [c1, if_true]
    have hb8 : (UInt8.ofNat (0x90 + xs.length)).toNat = 0x90 + xs.length := u8 _ (by omega)
    have hfix : ∀ rest, decStep self (UInt8.ofNat (0x90 + xs.length) :: rest) = decArr self xs.length rest := by
      intro rest
      rw [decStep_fixarr self _ rest (by omega) (by omega), hb8]
      have e : 0x90 + xs.length - 144 = xs.length := by omega
      rw [e]
    exact arrlike_fix self _ body xs.length k (fun l r => decArr self l r) hfix hb (by simp at hk; omega)
  · simp only [c1, if_false] at hk ⊢
    split at hk <;> rename_i c2
    · simp only [c2, if_true]
      exact arrlike_len self _ 2 _ k body (fun l r => decArr self l r) (by intro r; simp [decStep]) (by omega) hb
        (by simp at hk; omega)
    · simp only [c2, if_false] at hk ⊢
      exact arrlike_len self _ 4 _ k body (fun l r => decArr self l r) (by intro r; simp [decStep]) (by omega) hb
        (by simp at hk; omega)

theorem map_take (self : Bytes → Res (MVal × Bytes)) (xs : List MVal) (body : Bytes) (k : Nat)
    (he : xs.length % 2 = 0) (hl : xs.length / 2 < 4294967296)
    (hbody : ∀ m, m < body.length → m < k → decN self xs.length (body.take m) = .incomplete)
    (hk : k < (mapHead (xs.length / 2) ++ body).length) :
    decStep self ((mapHead (xs.length / 2) ++ body).take k) = .incomplete := by
  have h2 : 2 * (xs.length / 2) = xs.length := by omega
  have hb : ∀ m, m < body.length → m < k → decMap self (xs.length / 2) (body.take m) = .incomplete := by
    intro m hm hmk; simp [decMap, h2, hbody m hm hmk]
  unfold mapHead at hk ⊢
  split at hk <;> rename_i c1
  · simp only [c1, if_true]
    have hb8 : (UInt8.ofNat (0x80 + xs.length / 2)).toNat = 0x80 + xs.length / 2 := u8 _ (by omega)
    have hfix : ∀ rest, decStep self (UInt8.ofNat (0x80 + xs.length / 2) :: rest) = decMap self (xs.length / 2) rest := by
      intro rest
      rw [decStep_fixmap self _ rest (by omega) (by omega), hb8]
      have e : 0x80 + xs.length / 2 - 128 = xs.length / 2 := by omega
      rw [e]
    exact arrlike_fix self _ body (xs.length / 2) k (fun l r => decMap self l r) hfix hb (by simp at hk; omega)
  · simp only [c1, if_false] at hk ⊢
    split at hk <;> rename_i c2
    · simp only [c2, if_true]
      exact arrlike_len self _ 2 _ k body (fun l r => decMap self l r) (by intro r; simp [decStep]) (by omega) hb
        (by simp at hk; omega)
    · simp only [c2, if_false] at hk ⊢
      exact arrlike_len self _ 4 _ k body (fun l r => decMap self l r) (by intro r; simp [decStep]) (by omega) hb
        (by simp at hk; omega)

mutual
/-- M5: a proper prefix of the packer's output is never a complete document — the decoder reports `incomplete`
    (with fuel at least the nesting depth, or simply more fuel than the prefix has bytes). -/
theorem dec_take (v : MVal) (f k : Nat) (hw : WF v) (hf : depth v ≤ f ∨ k < f) (hk : k < (enc v).length) :
    dec f ((enc v).take k) = .incomplete := by
  match f, hf with
  | 0, hf => have := depth_pos v; omega
  | f + 1, hf =>
    show decStep (dec f) ((enc v).take k) = .incomplete
    match v, hw, hf, hk with
    | .nil, _, _, hk => simp [enc] at hk; subst hk; rfl
    | .bool false, _, _, hk => simp [enc] at hk; subst hk; rfl
    | .bool true, _, _, hk => simp [enc] at hk; subst hk; rfl
    | .int i, hw, _, hk => simp only [enc] at hk ⊢; exact encInt_take _ i k hw.1 hw.2 hk
    | .f64 b, hw, _, hk =>
      simp only [enc, WF] at hw hk ⊢
      exact num_take _ _ 8 b k _ (by intro r; simp [decStep]; rfl) (by simpa using hk) (by omega)
    | .f32 b, hw, _, hk =>
      simp only [enc, WF] at hw hk ⊢
      exact num_take _ _ 4 b k _ (by intro r; simp [decStep]; rfl) (by simpa using hk) (by omega)
    | .str p, hw, _, hk => simp only [enc] at hk ⊢; exact str_take _ p k hw hk
    | .bin p, hw, _, hk => simp only [enc] at hk ⊢; exact bin_take _ p k hw hk
    | .ext t p, hw, _, hk => simp only [enc] at hk ⊢; exact ext_take _ t p k hw.2 hk
    | .arr xs, hw, hf, hk =>
      simp only [enc] at hk ⊢
      have hd : ∀ m, m < k → depthList xs ≤ f ∨ m < f := by
        intro m hm; simp only [depth] at hf; omega
      exact arr_take _ xs (encList xs) k hw.1 (fun m hm hmk => decN_take xs f m hw.2 (hd m hmk) hm) hk
    | .map xs, hw, hf, hk =>
      simp only [enc] at hk ⊢
      have hd : ∀ m, m < k → depthList xs ≤ f ∨ m < f := by
        intro m hm; simp only [depth] at hf; omega
      exact map_take _ xs (encList xs) k hw.1 hw.2.1 (fun m hm hmk => decN_take xs f m hw.2.2 (hd m hmk) hm) hk
theorem decN_take (xs : List MVal) (f k : Nat) (hw : WFList xs) (hf : depthList xs ≤ f ∨ k < f)
    (hk : k < (encList xs).length) :
    decN (dec f) xs.length ((encList xs).take k) = .incomplete := by
  match xs, hw, hf, hk with
  | [], _, _, hk => simp [encList] at hk
  | x :: xs, hw, hf, hk =>
    simp only [encList, List.length_cons, decN]
    by_cases hc : k < (enc x).length
    · have hx : depth x ≤ f ∨ k < f := by simp only [depthList] at hf; omega
      rw [List.take_append_of_le_length (by omega), dec_take x f k hw.1 hx hc]
    · have e : (enc x ++ encList xs).take k = enc x ++ (encList xs).take (k - (enc x).length) := by
        rw [List.take_append, List.take_of_length_le (by omega)]
      have hx : depth x ≤ f := by
        have := depth_le_length x
        simp only [depthList] at hf; omega
      simp only [encList, List.length_append] at hk
      have hxs : depthList xs ≤ f ∨ k - (enc x).length < f := by simp only [depthList] at hf; omega
      have h2 := decN_take xs f (k - (enc x).length) hw.2 hxs (by omega)
      rw [e, dec_enc x f _ hw.1 hx]
      simp only [h2]
end

/-- M5 at the document level: `unpackb` of a truncated document fails with "incomplete input", it never yields a
    value. -/
theorem decode_take (v : MVal) (k : Nat) (hw : WF v) (hk : k < (enc v).length) :
    decode ((enc v).take k) = .incomplete := by
  unfold decode
  have hlen : ((enc v).take k).length = k := by simp [List.length_take]; omega
  rw [hlen, dec_take v (k + 1) k hw (Or.inr (by omega)) hk]

end FlowRecord.Msgpack
