import FlowRecord.Model.Equality
/-! The comparison-ignore configuration never reaches the writers (shared by C01 / C04 / C17). -/
namespace FlowRecord.Equality
open FlowRecord FlowRecord.Descriptor

theorem keep_nil {α : Type} : ∀ (names : List Str) (vals : List α), names.length = vals.length → keep [] names vals = vals
  | [], [], _ => rfl
  | [], _ :: _, h => by simp at h
  | _ :: _, [], h => by simp at h
  | n :: ns, v :: vs, h => by
    simp only [List.length_cons, Nat.add_right_cancel_iff] at h
    simp [keep, keep_nil ns vs h]

/-- whatever comparison-ignore configuration is in force, the packer asks `_pack` to leave out nothing (premises:
    the regenerated source facts that `_pack` decides by its argument alone and that the packer passes none) -/
theorem packerExcluded_nil (globalIg : List Str) : packerExcluded globalIg = [] := by
  unfold packerExcluded packExcluded
  have ha : Gen.packerPassesExcluded = false := by decide
  have hb : (Gen.recordPackReadsGlobalIgnore || Gen.recordPackExcludedDefault != "None") = false := by decide
  simp [ha, hb]

end FlowRecord.Equality
