import FlowRecord.Model.Render
import FlowRecordProofs.Lemmas.Descriptor
import FlowRecordProofs.Lemmas.Assoc
/-!
Lemmas for the rendered class source (C06): instantiating the shape-only template with identifiers cannot change the
skeleton of the text (everything that is not an identifier run).
-/
namespace FlowRecord.Render
open FlowRecord FlowRecord.Descriptor

/-- a non-empty string of identifier characters -/
def good (v : Str) : Prop := v ≠ [] ∧ v.all isIdentChar = true

theorem skel_good : ∀ (v : Str), good v → ∀ (b : Bool) (rest : Str),
    skel b (v ++ rest) = (if b then [] else [MARK]) ++ skel true rest := by
  intro v
  induction v with
  | nil => intro h; exact absurd rfl h.1
  | cons c t ih =>
    intro h b rest
    have hc : isIdentChar c = true := by have := h.2; simp only [List.all_cons, Bool.and_eq_true] at this; exact this.1
    have ht : t.all isIdentChar = true := by have := h.2; simp only [List.all_cons, Bool.and_eq_true] at this; exact this.2
    cases t with
    | nil => cases b <;> simp [skel, hc]
    | cons c' t' =>
      have key : skel true ((c' :: t') ++ rest) = skel true rest := by
        have := ih ⟨by simp, ht⟩ true rest
        simpa using this
      have step : ∀ b, skel b (c :: ((c' :: t') ++ rest)) =
          if b then skel true ((c' :: t') ++ rest) else MARK :: skel true ((c' :: t') ++ rest) := by
        intro b; cases b <;> simp [skel, hc]
      show skel b (c :: ((c' :: t') ++ rest)) = _
      rw [step, key]
      cases b <;> rfl

/-- the run state after a piece of text -/
def endSt (b : Bool) : Str → Bool
  | [] => b
  | c :: cs => endSt (isIdentChar c) cs

theorem skel_append : ∀ (s : Str) (b : Bool) (r : Str), skel b (s ++ r) = skel b s ++ skel (endSt b s) r := by
  intro s
  induction s with
  | nil => intro b r; rfl
  | cons c cs ih =>
    intro b r
    simp only [List.cons_append, skel, endSt]
    by_cases hc : isIdentChar c = true
    · cases b <;> simp [hc, ih]
    · simp [hc, ih]

theorem ident_not_special {c : Nat} (h : isIdentChar c = true) : c ≠ 10 ∧ c ≠ 92 ∧ c ≠ 39 ∧ c ≠ 9 := by
  refine ⟨?_, ?_, ?_, ?_⟩ <;> (intro e; subst e; simp [isIdentChar, isAlpha, isDigit] at h)

theorem pyRepr_good (v : Str) (h : v.all isIdentChar = true) : pyRepr v = [39] ++ v ++ [39] := by
  unfold pyRepr
  congr 2
  induction v with
  | nil => rfl
  | cons c t ih =>
    simp only [List.all_cons, Bool.and_eq_true] at h
    obtain ⟨h10, h92, h39, -⟩ := ident_not_special h.1
    simp [List.flatMap_cons, h10, h92, h39, ih h.2]

/-- SKELETON INVARIANCE: two instantiations of the same shape-only template with non-empty identifier strings
    have the same skeleton, from any run state. -/
theorem skel_inst (env env' : Nat → Str) (cls cls' : Str) (henv : ∀ i, good (env i)) (henv' : ∀ i, good (env' i))
    (hcls : good cls) (hcls' : good cls') : ∀ (toks : List Tok) (b : Bool),
    skel b (inst env cls toks) = skel b (inst env' cls' toks) := by
  intro toks
  induction toks with
  | nil => intro b; rfl
  | cons t ts ih =>
    intro b
    cases t with
    | lit s => simp only [inst, skel_append, ih]
    | name i => simp only [inst, skel_good _ (henv i), skel_good _ (henv' i), ih]
    | cls => simp only [inst, skel_good _ hcls, skel_good _ hcls', ih]
    | reprName i =>
      simp only [inst, pyRepr_good _ (henv i).2, pyRepr_good _ (henv' i).2, List.append_assoc, List.cons_append,
        List.nil_append]
      have h39 : isIdentChar 39 = false := by decide
      simp only [skel, h39, Bool.false_eq_true, if_false, skel_good _ (henv i), skel_good _ (henv' i), ih]

/-- `.replace("\t", …)` character by character -/
def tabMap (c : Nat) : Str := if c = 9 then cps Gen.tplReplaceTo else [c]

theorem replaceTabs_eq (s : Str) : replaceTabs s = s.flatMap tabMap := by
  have h : cps Gen.tplReplaceFrom = [9] := by decide
  unfold replaceTabs
  rw [h]
  rfl

theorem flatMap_tabMap_good (v : Str) (h : v.all isIdentChar = true) : v.flatMap tabMap = v := by
  induction v with
  | nil => rfl
  | cons c t ih =>
    simp only [List.all_cons, Bool.and_eq_true] at h
    have := (ident_not_special h.1).2.2.2
    simp [List.flatMap_cons, tabMap, this, ih h.2]

def tabTok : Tok → Tok
  | .lit s => .lit (s.flatMap tabMap)
  | t => t

/-- the final tab replacement only touches the literal text of the template -/
theorem replaceTabs_inst (env : Nat → Str) (cls : Str) (henv : ∀ i, good (env i)) (hcls : good cls) :
    ∀ toks : List Tok, replaceTabs (inst env cls toks) = inst env cls (toks.map tabTok) := by
  intro toks
  rw [replaceTabs_eq]
  induction toks with
  | nil => rfl
  | cons t ts ih =>
    cases t with
    | lit s => simp only [inst, List.flatMap_append, ih, List.map_cons, tabTok]
    | name i => simp only [inst, List.flatMap_append, ih, List.map_cons, tabTok, flatMap_tabMap_good _ (henv i).2]
    | cls => simp only [inst, List.flatMap_append, ih, List.map_cons, tabTok, flatMap_tabMap_good _ hcls.2]
    | reprName i =>
      simp only [inst, List.flatMap_append, ih, List.map_cons, tabTok, pyRepr_good _ (henv i).2]
      have : ([39] : Str).flatMap tabMap = [39] := by decide
      simp [this, flatMap_tabMap_good _ (henv i).2]

end FlowRecord.Render

namespace FlowRecord.Render
open FlowRecord FlowRecord.Descriptor FlowRecord.Rx

theorem segDfa_nameChars : ∀ t : Str, segDfa isAlpha isIdentChar (· == 47) t = true → t.all isNameChar = true := by
  intro t
  fun_induction segDfa isAlpha isIdentChar (· == 47) t with
  | case1 => intro _; rfl
  | case2 x => intro h; simp only [Bool.and_eq_true] at h; simp [isNameChar, h.2]
  | case3 x y rest hx ih =>
    intro h
    simp only [Bool.and_eq_true] at h
    have hx' : x = 47 := by simpa using hx
    simp [isNameChar, hx', isIdentChar, h.1, ih h.2]
  | case4 x y rest hx ih =>
    intro h
    simp only [Bool.and_eq_true] at h
    have := ih h.2
    simp only [List.all_cons, Bool.and_eq_true] at this ⊢
    exact ⟨by simp [isNameChar, h.1], this⟩

theorem identL_good (s : Str) (h : isIdentL s = true) : good s := by
  cases s with
  | nil => simp [isIdentL, isIdent] at h
  | cons y t =>
    rw [isIdentL_cons] at h
    simp only [Bool.and_eq_true] at h
    exact ⟨by simp, by simp [isIdentChar, h.1, h.2]⟩

theorem className_good (s : Str) (h : isSlashIdents s = true) : good (className s) := by
  obtain ⟨y, t, rfl, hy, hd⟩ := (isSlashIdents_iff s).mp h
  have hall : (y :: t).all isNameChar = true := by
    simp only [List.all_cons, Bool.and_eq_true]
    exact ⟨by simp [isNameChar, isIdentChar, hy], segDfa_nameChars t hd⟩
  constructor
  · simp [className]
  · unfold className
    rw [List.all_map]
    apply List.all_eq_true.mpr
    intro c hc
    have := List.all_eq_true.mp hall c hc
    simp only [Function.comp]
    by_cases h47 : c = 47
    · subst h47; decide
    · simp only [h47, if_false]
      simpa [isNameChar, h47] using this

theorem reserved_good : ∀ r ∈ reservedNames, good r := by
  have : ∀ r ∈ reservedNames, (r != [] && r.all isIdentChar) = true := by decide
  intro r hr
  have h := this r hr
  simp only [Bool.and_eq_true, bne_iff_ne, ne_eq] at h
  exact h

theorem envOf_good (d : Desc) (hv : ∀ f ∈ d.fields, isIdentL f.2 = true) : ∀ i, good (envOf (slots d) i) := by
  have hres : ∀ r ∈ reservedNames, startsWithUnderscore r = true := by decide
  have hnores : ∀ n ∈ d.fields.map (·.2), n ∉ reservedNames := by
    intro n hn hm
    obtain ⟨f, hf, rfl⟩ := List.mem_map.mp hn
    have h1 := hv f hf
    have h2 := hres f.2 hm
    simp [isIdentL, h2] at h1
  have hs : slots d = firstOcc (d.fields.map (·.2)) ++ reservedNames := keys_allFields d hnores
  have hmem : ∀ n ∈ slots d, good n := by
    intro n hn
    rw [hs] at hn
    rcases List.mem_append.mp hn with h | h
    · obtain ⟨f, hf, rfl⟩ := List.mem_map.mp ((mem_firstOcc _ _).mp h)
      exact identL_good _ (hv f hf)
    · exact reserved_good n h
  intro i
  unfold envOf
  simp only [List.getD_eq_getElem?_getD]
  cases hg : (slots d)[i]? with
  | none => exact ⟨by simp, by decide⟩
  | some n => exact hmem n (List.mem_of_getElem? hg)

end FlowRecord.Render
