import FlowRecordProofs.Lemmas.StreamRoundtrip
import FlowRecordProofs.Lemmas.StreamExample
/-! C01 at the byte level for histories in which writes RAISE (after any number of the object's descriptors were
    registered and written) and the caller carries on with the same writer. -/
open FlowRecord FlowRecord.Msgpack FlowRecord.Utf8 FlowRecord.Wire
namespace FlowRecord.Stream

/-- admissible histories with failing writes: for a succeeding write exactly the conditions of `HistOK`; for a failing
    one only that the descriptor frames it leaves behind are encodable and hashed by the reader as by the writer -/
def HistOKF (hashOf : PyStr → List (PyStr × PyStr) → Nat) : Registry → List (PV × Option Nat) → Prop
  | _, [] => True
  | reg, (o, none) :: os =>
    IsObj o ∧
    (∀ d' ∈ (newDescs reg (descsOf o)).2, DescOK d' ∧ hashOf d'.name d'.fields = d'.hash) ∧
    PVOK (newDescs reg (descsOf o)).1 o ∧
    HistOKF hashOf (newDescs reg (descsOf o)).1 os
  | reg, (o, some k) :: os =>
    (∀ d' ∈ (newDescs reg ((descsOf o).take k)).2, DescOK d' ∧ hashOf d'.name d'.fields = d'.hash) ∧
    HistOKF hashOf (newDescs reg ((descsOf o).take k)).1 os

/-- the objects whose write succeeded, in order -/
def okObjs (h : List (PV × Option Nat)) : List PV := (h.filter (fun e => e.2.isNone)).map (·.1)

theorem mapM_enc_length (ds : List Desc) (frames : List Bytes)
    (h : ds.mapM (fun d => (toM (.desc d)).map enc) = some frames) : frames.length = ds.length := by
  induction ds generalizing frames with
  | nil => simp at h; subst h; rfl
  | cons x xs ih =>
    rw [List.mapM_cons] at h
    cases h1 : (toM (.desc x)).map enc with
    | none => simp [h1] at h
    | some a =>
      cases h2 : xs.mapM (fun d => (toM (.desc d)).map enc) with
      | none => simp [h1, h2] at h
      | some r => simp [h1, h2] at h; subst h; simp [ih r h2]

theorem writeFailed_registry (st st' : WState) (o : PV) (k : Nat) (fs : List Bytes)
    (h : writeFailed st o k = some (st', fs)) :
    st'.registry = (newDescs st.registry ((descsOf o).take k)).1 ∧ st'.headerWritten = true := by
  unfold writeFailed at h
  cases hd : (newDescs st.registry ((descsOf o).take k)).2.mapM (fun d => (toM (.desc d)).map enc) with
  | none => simp [hd] at h
  | some dframes =>
    simp only [hd, Option.some.injEq, Prod.mk.injEq] at h
    obtain ⟨h1, _⟩ := h
    subst h1
    exact ⟨rfl, rfl⟩

/-- a failing write, then the reader: only registrations happen, nothing is yielded -/
theorem read_writeFailed (hashOf : PyStr → List (PyStr × PyStr) → Nat) (st st' : WState) (o : PV) (k : Nat)
    (fs : List Bytes) (rest : Bytes) (fuel : Nat)
    (hw : writeFailed st o k = some (st', fs)) (hhdr : st.headerWritten = true)
    (hds : ∀ d' ∈ (newDescs st.registry ((descsOf o).take k)).2, DescOK d' ∧ hashOf d'.name d'.fields = d'.hash)
    (hsz : ∀ b ∈ fs, b.length < 4294967296) :
    readFramesH hashOf (fuel + fs.length) st.registry (streamOf fs ++ rest) =
      readFramesH hashOf fuel st'.registry rest := by
  unfold writeFailed at hw
  cases hdm : (newDescs st.registry ((descsOf o).take k)).2.mapM (fun d => (toM (.desc d)).map enc) with
  | none => simp [hdm] at hw
  | some dframes =>
    simp only [hdm, hhdr, if_true, Option.some.injEq, Prod.mk.injEq, List.nil_append] at hw
    obtain ⟨h1, h2⟩ := hw
    subst h1 h2
    rw [mapM_enc_length _ _ hdm,
      read_descs hashOf _ dframes st.registry rest fuel hds hdm hsz, ← newDescs_fold]

/-- the stream theorem with failing writes, frames after the header -/
theorem read_writeHist (hashOf : PyStr → List (PyStr × PyStr) → Nat) (h : List (PV × Option Nat)) (st st' : WState)
    (frames : List Bytes) (fuel : Nat)
    (hw : writeHist st h = some (st', frames)) (hhdr : st.headerWritten = true)
    (hok : HistOKF hashOf st.registry h) (hsz : ∀ b ∈ frames, b.length < 4294967296) :
    readFramesH hashOf (fuel + frames.length) st.registry (streamOf frames) = (rvOfList (okObjs h), .eof) := by
  induction h generalizing st st' frames fuel with
  | nil =>
    simp [writeHist] at hw
    obtain ⟨_, rfl⟩ := hw
    simp [streamOf, read_end, rvOfList, okObjs]
  | cons e os ih =>
    obtain ⟨o, f⟩ := e
    cases f with
    | none =>
      simp only [writeHist, bind, Option.bind] at hw
      cases h1 : write st o with
      | none => simp [h1] at hw
      | some r1 =>
        obtain ⟨st1, f1⟩ := r1
        cases h2 : writeHist st1 os with
        | none => simp [h1, h2] at hw
        | some r2 =>
          obtain ⟨st2, f2⟩ := r2
          simp [h1, h2] at hw
          obtain ⟨rfl, rfl⟩ := hw
          obtain ⟨hobj, hds, hpv, hrest⟩ := hok
          obtain ⟨hreg, hh1⟩ := write_registry st st1 _ f1 h1
          have hstep := read_write hashOf st st1 o hobj f1 (streamOf f2) (fuel + f2.length) h1 hhdr hds
            (by rw [hreg]; exact hpv) (fun b hb => hsz b (by simp [hb]))
          have ihh := ih st1 st2 f2 fuel h2 hh1 (by rw [hreg]; exact hrest) (fun b hb => hsz b (by simp [hb]))
          rw [streamOf_append, List.length_append,
            show fuel + (f1.length + f2.length) = (fuel + f2.length) + f1.length by omega, hstep, ihh]
          simp [rvOfList, okObjs]
    | some k =>
      simp only [writeHist, bind, Option.bind] at hw
      cases h1 : writeFailed st o k with
      | none => simp [h1] at hw
      | some r1 =>
        obtain ⟨st1, f1⟩ := r1
        cases h2 : writeHist st1 os with
        | none => simp [h1, h2] at hw
        | some r2 =>
          obtain ⟨st2, f2⟩ := r2
          simp [h1, h2] at hw
          obtain ⟨rfl, rfl⟩ := hw
          obtain ⟨hds, hrest⟩ := hok
          obtain ⟨hreg, hh1⟩ := writeFailed_registry st st1 o k f1 h1
          have hstep := read_writeFailed hashOf st st1 o k f1 (streamOf f2) (fuel + f2.length) h1 hhdr hds
            (fun b hb => hsz b (by simp [hb]))
          have ihh := ih st1 st2 f2 fuel h2 hh1 (by rw [hreg]; exact hrest) (fun b hb => hsz b (by simp [hb]))
          rw [streamOf_append, List.length_append,
            show fuel + (f1.length + f2.length) = (fuel + f2.length) + f1.length by omega, hstep, ihh]
          simp [okObjs]

theorem writeFailed_fresh (reg : Registry) (o : PV) (k : Nat) (st' : WState) (fs : List Bytes)
    (h : writeFailed { headerWritten := false, registry := reg } o k = some (st', fs)) :
    ∃ fs', fs = magicBody :: fs' ∧ writeFailed { headerWritten := true, registry := reg } o k = some (st', fs') := by
  unfold writeFailed at h ⊢
  cases hd : (newDescs reg ((descsOf o).take k)).2.mapM (fun d => (toM (.desc d)).map enc) with
  | none => simp [hd] at h
  | some dframes =>
    simp only [hd, Option.some.injEq, Prod.mk.injEq] at h
    obtain ⟨h1, h2⟩ := h
    subst h1 h2
    exact ⟨dframes, by simp, by simp [hd]⟩

/-- C01 at the byte level with failing writes: for every admissible non-empty history of succeeding and failing
    writes on a fresh writer, `readAll` over the bytes on the stream returns exactly the objects whose write succeeded,
    in order and as written, and ends cleanly. -/
theorem readAll_writeHist (hashOf : PyStr → List (PyStr × PyStr) → Nat) (e : PV × Option Nat)
    (es : List (PV × Option Nat)) (st' : WState) (frames : List Bytes)
    (hw : writeHist WState.init (e :: es) = some (st', frames))
    (hok : HistOKF hashOf [] (e :: es)) (hsz : ∀ b ∈ frames, b.length < 4294967296) :
    readAll hashOf (streamOf frames) = (rvOfList (okObjs (e :: es)), .eof) := by
  obtain ⟨o, f⟩ := e
  -- the first call writes the header frame, whatever its outcome
  have key : ∃ frames', frames = magicBody :: frames' ∧
      writeHist { headerWritten := true, registry := [] } ((o, f) :: es) = some (st', frames') := by
    cases f with
    | none =>
      simp only [writeHist, bind, Option.bind] at hw ⊢
      cases h1 : write WState.init o with
      | none => simp [h1] at hw
      | some r1 =>
        obtain ⟨st1, f1⟩ := r1
        cases h2 : writeHist st1 es with
        | none => simp [h1, h2] at hw
        | some r2 =>
          obtain ⟨st2, f2⟩ := r2
          simp [h1, h2] at hw
          obtain ⟨rfl, rfl⟩ := hw
          obtain ⟨f1', rfl, h1'⟩ := write_fresh [] o st1 f1 h1
          exact ⟨f1' ++ f2, by simp, by simp [h1', h2]⟩
    | some k =>
      simp only [writeHist, bind, Option.bind] at hw ⊢
      cases h1 : writeFailed WState.init o k with
      | none => simp [h1] at hw
      | some r1 =>
        obtain ⟨st1, f1⟩ := r1
        cases h2 : writeHist st1 es with
        | none => simp [h1, h2] at hw
        | some r2 =>
          obtain ⟨st2, f2⟩ := r2
          simp [h1, h2] at hw
          obtain ⟨rfl, rfl⟩ := hw
          obtain ⟨f1', rfl, h1'⟩ := writeFailed_fresh [] o k st1 f1 h1
          exact ⟨f1' ++ f2, by simp, by simp [h1', h2]⟩
  obtain ⟨frames', rfl, hw'⟩ := key
  have hmain := read_writeHist hashOf ((o, f) :: es) { headerWritten := true, registry := [] } st' frames'
    ((streamOf frames').length - frames'.length) hw' rfl hok (fun b hb => hsz b (by simp [hb]))
  have hfuel : (streamOf frames').length - frames'.length + frames'.length = (streamOf frames').length := by
    have := length_le_streamOf frames'; omega
  rw [hfuel] at hmain
  unfold readAll
  rw [streamOf_cons, readHeader_magic]
  exact hmain

end FlowRecord.Stream

/-! non-vacuity: the first write of type `d` fails after its descriptor went out, the next record of the type is good -/
namespace FlowRecord.StreamExample
open FlowRecord.Stream

theorem histF : HistOKF h [] [(o1, some 1), (o2, none)] := by
  have e : (descsOf o1).take 1 = descsOf o1 := by decide
  refine ⟨?_, ?_⟩
  · rw [e, reg1]; intro d' hd'; simp at hd'; subst hd'; exact ⟨dOK, rfl⟩
  · rw [e, reg1]
    refine ⟨Or.inl ⟨d, _, rfl⟩, ?_, ?_, trivial⟩
    · rw [reg2]; intro d' hd'; simp at hd'
    · rw [reg2]; exact pv2

example : (writeHist WState.init [(o1, some 1), (o2, none)]).isSome = true := by rfl
example : okObjs [(o1, some 1), (o2, none)] = [o2] := rfl
end FlowRecord.StreamExample

