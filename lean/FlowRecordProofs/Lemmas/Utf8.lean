import FlowRecord.Model.Utf8
/-! UTF-8 with surrogateescape: S1 (encode∘decode = id on ALL byte strings) and S2 (decode∘encode = id on scalar text). -/
open FlowRecord
namespace FlowRecord.Utf8

theorem b_toNat (x : UInt8) : b x.toNat = x := by
  unfold b; exact UInt8.ofNat_toNat

theorem isCont_iff (x : UInt8) : isCont x = true ↔ 0x80 ≤ x.toNat ∧ x.toNat < 0xC0 := by
  simp [isCont]

/-- what `headSeq` recognises is exactly the UTF-8 encoding of the scalar it returns -/
theorem headSeq_spec (bs : Bytes) (c k : Nat) (h : headSeq bs = some (c, k)) :
    ∃ pre, bs = pre ++ bs.drop k ∧ pre.length = k ∧ encodeCp c = some pre ∧ 1 ≤ k := by
  match bs, h with
  | [], h => simp [headSeq] at h
  | b0 :: rest, h =>
    have hb0 := UInt8.toNat_lt b0
    simp only [headSeq] at h
    split at h
    · -- ASCII
      rename_i h1
      simp only [Option.some.injEq, Prod.mk.injEq] at h
      obtain ⟨rfl, rfl⟩ := h
      exact ⟨[b0], by simp, rfl, by simp [encodeCp, h1, b_toNat], by omega⟩
    · split at h
      · simp at h
      · split at h
        · -- two bytes
          rename_i h1 h2 h3
          match rest, h with
          | [], h => simp at h
          | b1 :: r2, h =>
            simp only at h
            split at h
            · rename_i hc
              simp only [Option.some.injEq, Prod.mk.injEq] at h
              obtain ⟨rfl, rfl⟩ := h
              have hc' := (isCont_iff b1).mp hc
              refine ⟨[b0, b1], by simp, rfl, ?_, by omega⟩
              have e1 : 0xC0 + ((b0.toNat - 0xC0) * 64 + (b1.toNat - 0x80)) / 64 = b0.toNat := by omega
              have e2 : 0x80 + ((b0.toNat - 0xC0) * 64 + (b1.toNat - 0x80)) % 64 = b1.toNat := by omega
              have g1 : ¬ ((b0.toNat - 0xC0) * 64 + (b1.toNat - 0x80) < 0x80) := by omega
              have g2 : (b0.toNat - 0xC0) * 64 + (b1.toNat - 0x80) < 0x800 := by omega
              simp only [encodeCp, g1, g2, if_true, if_false, e1, e2, b_toNat]
            · simp at h
        · split at h
          · -- three bytes
            rename_i h1 h2 h3 h4
            match rest, h with
            | [], h => simp at h
            | [_], h => simp at h
            | b1 :: b2 :: r3, h =>
              simp only at h
              split at h
              · rename_i hc
                simp only [Option.some.injEq, Prod.mk.injEq] at h
                obtain ⟨rfl, rfl⟩ := h
                simp only [Bool.and_eq_true, decide_eq_true_eq] at hc
                obtain ⟨⟨hlo, hhi⟩, hc2⟩ := hc
                have hc2' := (isCont_iff b2).mp hc2
                have hb1 := UInt8.toNat_lt b1
                refine ⟨[b0, b1, b2], by simp, rfl, ?_, by omega⟩
                have hlo' : (b0.toNat = 0xE0 → 0xA0 ≤ b1.toNat) ∧ 0x80 ≤ b1.toNat := by
                  unfold lo3 at hlo; split at hlo <;> omega
                have hhi' : (b0.toNat = 0xED → b1.toNat < 0xA0) ∧ b1.toNat < 0xC0 := by
                  unfold hi3 at hhi; split at hhi <;> omega
                have e1 : 0xE0 + ((b0.toNat - 0xE0) * 4096 + (b1.toNat - 0x80) * 64 + (b2.toNat - 0x80)) / 4096 = b0.toNat := by omega
                have e2 : 0x80 + ((b0.toNat - 0xE0) * 4096 + (b1.toNat - 0x80) * 64 + (b2.toNat - 0x80)) / 64 % 64 = b1.toNat := by omega
                have e3 : 0x80 + ((b0.toNat - 0xE0) * 4096 + (b1.toNat - 0x80) * 64 + (b2.toNat - 0x80)) % 64 = b2.toNat := by omega
                have g1 : ¬ ((b0.toNat - 0xE0) * 4096 + (b1.toNat - 0x80) * 64 + (b2.toNat - 0x80) < 0x80) := by omega
                have g2 : ¬ ((b0.toNat - 0xE0) * 4096 + (b1.toNat - 0x80) * 64 + (b2.toNat - 0x80) < 0x800) := by omega
                have g3 : ¬ (0xD800 ≤ (b0.toNat - 0xE0) * 4096 + (b1.toNat - 0x80) * 64 + (b2.toNat - 0x80) ∧
                    (b0.toNat - 0xE0) * 4096 + (b1.toNat - 0x80) * 64 + (b2.toNat - 0x80) < 0xE000) := by omega
                have g4 : (b0.toNat - 0xE0) * 4096 + (b1.toNat - 0x80) * 64 + (b2.toNat - 0x80) < 0x10000 := by omega
                simp only [encodeCp, g1, g2, g3, g4, if_true, if_false, e1, e2, e3, b_toNat]
              · simp at h
          · split at h
            · -- four bytes
              rename_i h1 h2 h3 h4 h5
              match rest, h with
              | [], h => simp at h
              | [_], h => simp at h
              | [_, _], h => simp at h
              | b1 :: b2 :: b3 :: r4, h =>
                simp only at h
                split at h
                · rename_i hc
                  simp only [Option.some.injEq, Prod.mk.injEq] at h
                  obtain ⟨rfl, rfl⟩ := h
                  simp only [Bool.and_eq_true, decide_eq_true_eq] at hc
                  obtain ⟨⟨⟨hlo, hhi⟩, hc2⟩, hc3⟩ := hc
                  have hc2' := (isCont_iff b2).mp hc2
                  have hc3' := (isCont_iff b3).mp hc3
                  refine ⟨[b0, b1, b2, b3], by simp, rfl, ?_, by omega⟩
                  have hlo' : (b0.toNat = 0xF0 → 0x90 ≤ b1.toNat) ∧ 0x80 ≤ b1.toNat := by
                    unfold lo4 at hlo; split at hlo <;> omega
                  have hhi' : (b0.toNat = 0xF4 → b1.toNat < 0x90) ∧ b1.toNat < 0xC0 := by
                    unfold hi4 at hhi; split at hhi <;> omega
                  generalize hcdef : (b0.toNat - 0xF0) * 262144 + (b1.toNat - 0x80) * 4096 + (b2.toNat - 0x80) * 64 + (b3.toNat - 0x80) = c
                  have e1 : 0xF0 + c / 262144 = b0.toNat := by omega
                  have e2 : 0x80 + c / 4096 % 64 = b1.toNat := by omega
                  have e3 : 0x80 + c / 64 % 64 = b2.toNat := by omega
                  have e4 : 0x80 + c % 64 = b3.toNat := by omega
                  have g1 : ¬ (c < 0x80) := by omega
                  have g2 : ¬ (c < 0x800) := by omega
                  have g3 : ¬ (0xD800 ≤ c ∧ c < 0xE000) := by omega
                  have g4 : ¬ (c < 0x10000) := by omega
                  have g5 : c < 0x110000 := by omega
                  simp only [encodeCp, g1, g2, g3, g4, g5, if_true, if_false, e1, e2, e3, e4, b_toNat]
                · simp at h
            · simp at h


theorem headSeq_none_ge (b0 : UInt8) (rest : Bytes) (h : headSeq (b0 :: rest) = none) : 0x80 ≤ b0.toNat := by
  simp only [headSeq] at h
  split at h
  · simp at h
  · omega

theorem encodeCp_escape (b0 : UInt8) (h : 0x80 ≤ b0.toNat) : encodeCp (0xDC00 + b0.toNat) = some [b0] := by
  have := UInt8.toNat_lt b0
  have g1 : ¬ (0xDC00 + b0.toNat < 0x80) := by omega
  have g2 : ¬ (0xDC00 + b0.toNat < 0x800) := by omega
  have g3 : 0xD800 ≤ 0xDC00 + b0.toNat ∧ 0xDC00 + b0.toNat < 0xE000 := by omega
  have g4 : 0xDC80 ≤ 0xDC00 + b0.toNat ∧ 0xDC00 + b0.toNat ≤ 0xDCFF := by omega
  have e : 0xDC00 + b0.toNat - 0xDC00 = b0.toNat := by omega
  simp only [encodeCp, g1, g2, g3, g4, if_true, if_false, e, b_toNat]
  simp

/-- S1: encoding what was decoded gives the bytes back — for EVERY byte string (valid UTF-8 or not). -/
theorem encode_decodeFuel (fuel : Nat) (bs : Bytes) (h : bs.length ≤ fuel) :
    encodeSE (decodeFuel fuel bs) = some bs := by
  induction fuel generalizing bs with
  | zero =>
    have : bs = [] := List.eq_nil_of_length_eq_zero (by omega)
    subst this; simp [decodeFuel, encodeSE]
  | succ f ih =>
    match bs, h with
    | [], _ => simp [decodeFuel, encodeSE]
    | b0 :: rest, h =>
      simp only [decodeFuel]
      cases hs : headSeq (b0 :: rest) with
      | none =>
        simp only [encodeSE, encodeCp_escape b0 (headSeq_none_ge b0 rest hs)]
        rw [ih rest (by simp at h; omega)]
        simp
      | some ck =>
        obtain ⟨c, k⟩ := ck
        obtain ⟨pre, hpre, hlen, henc, hk⟩ := headSeq_spec (b0 :: rest) c k hs
        simp only [encodeSE, henc]
        have hdl : ((b0 :: rest).drop k).length ≤ f := by
          simp only [List.length_drop, List.length_cons] at h ⊢; omega
        rw [ih _ hdl]
        simp only [bind, Option.bind, pure]
        rw [← hpre]

theorem encode_decodeSE (bs : Bytes) : encodeSE (decodeSE bs) = some bs :=
  encode_decodeFuel bs.length bs (Nat.le_refl _)


def isScalar (c : Nat) : Prop := c < 0x110000 ∧ ¬ (0xD800 ≤ c ∧ c < 0xE000)

theorem bt (n : Nat) (h : n < 256) : (b n).toNat = n := by
  unfold b; rw [UInt8.toNat_ofNat']; omega

theorem split3 (c : Nat) : c / 4096 * 4096 + c / 64 % 64 * 64 + c % 64 = c := by
  have h1 := Nat.div_add_mod c 64
  have h2 := Nat.div_add_mod (c / 64) 64
  have h3 : c / 64 / 64 = c / 4096 := by rw [Nat.div_div_eq_div_mul]
  omega

theorem split4 (c : Nat) : c / 262144 * 262144 + c / 4096 % 64 * 4096 + c / 64 % 64 * 64 + c % 64 = c := by
  have h1 := Nat.div_add_mod c 64
  have h2 := Nat.div_add_mod (c / 64) 64
  have h3 := Nat.div_add_mod (c / 64 / 64) 64
  have h4 : c / 64 / 64 = c / 4096 := by rw [Nat.div_div_eq_div_mul]
  have h5 : c / 64 / 64 / 64 = c / 262144 := by rw [Nat.div_div_eq_div_mul, Nat.div_div_eq_div_mul]
  rw [h4] at h3
  rw [h4] at h2
  have h6 : c / 4096 / 64 = c / 262144 := by rw [Nat.div_div_eq_div_mul]
  omega

/-- the decoder recognises the encoding of every scalar value, whatever follows -/
theorem headSeq_encodeCp (c : Nat) (hc : isScalar c) (rest : Bytes) :
    ∃ pre, encodeCp c = some pre ∧ headSeq (pre ++ rest) = some (c, pre.length) := by
  obtain ⟨h1, h2⟩ := hc
  unfold encodeCp
  by_cases g1 : c < 0x80
  · refine ⟨[b c], by simp [g1], ?_⟩
    simp [headSeq, bt c (by omega), g1]
  · by_cases g2 : c < 0x800
    · refine ⟨[b (0xC0 + c / 64), b (0x80 + c % 64)], by simp [g1, g2], ?_⟩
      have e0 : (b (0xC0 + c / 64)).toNat = 0xC0 + c / 64 := bt _ (by omega)
      have e1 : (b (0x80 + c % 64)).toNat = 0x80 + c % 64 := bt _ (by omega)
      have c1 : ¬ (0xC0 + c / 64 < 0x80) := by omega
      have c2 : ¬ (0xC0 + c / 64 < 0xC2) := by omega
      have c3 : 0xC0 + c / 64 < 0xE0 := by omega
      have hcont : isCont (b (0x80 + c % 64)) = true := by rw [isCont_iff, e1]; omega
      have ev : (0xC0 + c / 64 - 0xC0) * 64 + (0x80 + c % 64 - 0x80) = c := by omega
      simp [headSeq, e0, e1, c1, c2, c3, hcont]
      omega
    · have g3 : ¬ (0xD800 ≤ c ∧ c < 0xE000) := h2
      by_cases g4 : c < 0x10000
      · refine ⟨[b (0xE0 + c / 4096), b (0x80 + c / 64 % 64), b (0x80 + c % 64)], by simp [g1, g2, g3, g4], ?_⟩
        have e0 : (b (0xE0 + c / 4096)).toNat = 0xE0 + c / 4096 := bt _ (by omega)
        have e1 : (b (0x80 + c / 64 % 64)).toNat = 0x80 + c / 64 % 64 := bt _ (by omega)
        have e2 : (b (0x80 + c % 64)).toNat = 0x80 + c % 64 := bt _ (by omega)
        have c1 : ¬ (0xE0 + c / 4096 < 0x80) := by omega
        have c2 : ¬ (0xE0 + c / 4096 < 0xC2) := by omega
        have c3 : ¬ (0xE0 + c / 4096 < 0xE0) := by omega
        have c4 : 0xE0 + c / 4096 < 0xF0 := by omega
        have hlo : lo3 (0xE0 + c / 4096) ≤ 0x80 + c / 64 % 64 := by unfold lo3; split <;> omega
        have hhi : 0x80 + c / 64 % 64 < hi3 (0xE0 + c / 4096) := by unfold hi3; split <;> omega
        have hcont : isCont (b (0x80 + c % 64)) = true := by rw [isCont_iff, e2]; omega
        simp [headSeq, e0, e1, e2, c1, c2, c3, c4, hlo, hhi, hcont]
        exact split3 c
      · refine ⟨[b (0xF0 + c / 262144), b (0x80 + c / 4096 % 64), b (0x80 + c / 64 % 64), b (0x80 + c % 64)],
          by simp [g1, g2, g3, g4, h1], ?_⟩
        have e0 : (b (0xF0 + c / 262144)).toNat = 0xF0 + c / 262144 := bt _ (by omega)
        have e1 : (b (0x80 + c / 4096 % 64)).toNat = 0x80 + c / 4096 % 64 := bt _ (by omega)
        have e2 : (b (0x80 + c / 64 % 64)).toNat = 0x80 + c / 64 % 64 := bt _ (by omega)
        have e3 : (b (0x80 + c % 64)).toNat = 0x80 + c % 64 := bt _ (by omega)
        have c1 : ¬ (0xF0 + c / 262144 < 0x80) := by omega
        have c2 : ¬ (0xF0 + c / 262144 < 0xC2) := by omega
        have c3 : ¬ (0xF0 + c / 262144 < 0xE0) := by omega
        have c4 : ¬ (0xF0 + c / 262144 < 0xF0) := by omega
        have c5 : 0xF0 + c / 262144 < 0xF5 := by omega
        have hlo : lo4 (0xF0 + c / 262144) ≤ 0x80 + c / 4096 % 64 := by unfold lo4; split <;> omega
        have hhi : 0x80 + c / 4096 % 64 < hi4 (0xF0 + c / 262144) := by unfold hi4; split <;> omega
        have hc2 : isCont (b (0x80 + c / 64 % 64)) = true := by rw [isCont_iff, e2]; omega
        have hc3 : isCont (b (0x80 + c % 64)) = true := by rw [isCont_iff, e3]; omega
        simp [headSeq, e0, e1, e2, e3, c1, c2, c3, c4, c5, hlo, hhi, hc2, hc3]
        exact split4 c


theorem encodeCp_length_pos (c : Nat) (pre : Bytes) (h : encodeCp c = some pre) : 1 ≤ pre.length := by
  unfold encodeCp at h
  repeat (first | split at h | (simp at h; try (subst h; simp)))

/-- S2 for ordinary text: a string of Unicode scalar values (any plane, no surrogates) is encodable and decodes
    back to itself. -/
theorem decode_encode_scalars (s : PyStr) (hs : ∀ c ∈ s, isScalar c) :
    ∃ bs, encodeSE s = some bs ∧ ∀ f, bs.length ≤ f → decodeFuel f bs = s := by
  induction s with
  | nil => exact ⟨[], rfl, fun f _ => by cases f <;> simp [decodeFuel]⟩
  | cons c cs ih =>
    obtain ⟨rest, hr1, hr2⟩ := ih (fun x hx => hs x (by simp [hx]))
    obtain ⟨pre, hp1, hp2⟩ := headSeq_encodeCp c (hs c (by simp)) rest
    refine ⟨pre ++ rest, by simp [encodeSE, hp1, hr1], ?_⟩
    intro f hf
    have hpl := encodeCp_length_pos c pre hp1
    rw [List.length_append] at hf
    match f, hf with
    | 0, hf => omega
    | f + 1, hf =>
      match hpre : pre ++ rest with
      | [] =>
        have : (pre ++ rest).length = 0 := by rw [hpre]; rfl
        rw [List.length_append] at this; omega
      | b0 :: tl =>
        simp only [decodeFuel]
        rw [← hpre, hp2]
        simp only [List.drop_left' rfl]
        rw [hr2 f (by omega)]

/-- S1 + S2 as one characterisation: text is admissible exactly when it is the decoding of some byte string. -/
theorem decode_encode_of_decoded (bs : Bytes) : ∃ b', encodeSE (decodeSE bs) = some b' ∧ decodeSE b' = decodeSE bs :=
  ⟨bs, encode_decodeSE bs, rfl⟩

end FlowRecord.Utf8
