import FlowRecordProofs.Lemmas.MsgpackAny
import FlowRecordProofs.Lemmas.Envelope
/-! C02, envelope layer: a document whose extension payloads were written by ANOTHER conforming writer (any size
    class for every integer and length, at every nesting level inside the payloads) is unpacked to the same value. -/
open FlowRecord FlowRecord.Msgpack FlowRecord.Utf8
namespace FlowRecord.Wire

mutual
  /-- `SameDoc v v'`: the value tree `v'` is `v` with every extension payload replaced by SOME conforming encoding of
      the (recursively re-encoded) document the original payload holds. -/
  inductive SameDoc : MVal → MVal → Prop
    | nil : SameDoc .nil .nil
    | bool (b : Bool) : SameDoc (.bool b) (.bool b)
    | int (i : Int) : SameDoc (.int i) (.int i)
    | f64 (x : Nat) : SameDoc (.f64 x) (.f64 x)
    | f32 (x : Nat) : SameDoc (.f32 x) (.f32 x)
    | str (p : Bytes) : SameDoc (.str p) (.str p)
    | bin (p : Bytes) : SameDoc (.bin p) (.bin p)
    | arr {xs ys : List MVal} : SameDocList xs ys → SameDoc (.arr xs) (.arr ys)
    | map {xs ys : List MVal} : SameDocList xs ys → SameDoc (.map xs) (.map ys)
    | ext (t : Nat) {p p' : Bytes} {d d' : MVal} : decode p = .ok d → SameDoc d d' → Encodes d' p' →
        SameDoc (.ext t p) (.ext t p')
  inductive SameDocList : List MVal → List MVal → Prop
    | nil : SameDocList [] []
    | cons {x y : MVal} {xs ys : List MVal} : SameDoc x y → SameDocList xs ys → SameDocList (x :: xs) (y :: ys)
end

theorem fromM_zero (reg : Registry) (v : MVal) : fromM reg 0 v = .error .invalid := by unfold fromM; rfl

/-- what `fromM` does with the decoded payload document of an extension value -/
def afterDecode (reg : Registry) (f : Nat) : Res MVal → Except Err RV
  | .ok (.arr [sub, value]) =>
    match fromM reg f sub, fromM reg f value with
    | .ok s, .ok v => unpackEnvelope reg s v
    | .error e, _ => .error e
    | _, .error e => .error e
  | .ok _ => .error .badShape
  | .incomplete => .error .incomplete
  | .invalid => .error .invalid

theorem afterDecode_not_pair (reg : Registry) (f : Nat) (d : MVal) (h : ∀ s v, d ≠ .arr [s, v]) :
    afterDecode reg f (.ok d) = .error .badShape := by
  unfold afterDecode
  split
  · rename_i s v heq; cases heq; exact absurd rfl (h _ _)
  · rfl
  · rename_i heq; cases heq
  · rename_i heq; cases heq

theorem afterDecode_pair (reg : Registry) (f : Nat) (s v : MVal) :
    afterDecode reg f (.ok (.arr [s, v])) = (match fromM reg f s, fromM reg f v with
      | .ok a, .ok b => unpackEnvelope reg a b
      | .error e, _ => .error e
      | _, .error e => .error e) := by
  unfold afterDecode
  rfl

theorem fromM_ext_eq (reg : Registry) (f t : Nat) (p : Bytes) :
    fromM reg (f + 1) (.ext t p) = if t ≠ extType then .error .unknownExt else afterDecode reg f (decode p) := by
  conv => lhs; unfold fromM
  by_cases ht : t = extType
  · subst ht
    simp only [ne_eq, not_true_eq_false, if_false]
    generalize decode p = r
    split
    · rfl
    · rename_i a hne
      exact (afterDecode_not_pair reg f a (fun s v h => hne s v h)).symm
    · rfl
    · rfl
  · simp only [ne_eq, ht, not_false_eq_true, if_true]


theorem afterDecode_sameDoc_aux (reg : Registry) (f : Nat) {d d' : MVal} (hsd : SameDoc d d')
    (ih : ∀ {a b : MVal}, SameDoc a b → fromM reg f b = fromM reg f a) :
    afterDecode reg f (.ok d') = afterDecode reg f (.ok d) := by
  cases hsd with
  | arr hl =>
    cases hl with
    | nil => rfl
    | cons h1 hl1 =>
      cases hl1 with
      | nil => rw [afterDecode_not_pair, afterDecode_not_pair] <;> intro s v h <;> cases h
      | cons h2 hl2 =>
        cases hl2 with
        | nil => rw [afterDecode_pair, afterDecode_pair, ih h1, ih h2]
        | cons h3 hl3 => rw [afterDecode_not_pair, afterDecode_not_pair] <;> intro s v h <;> cases h
  | _ => first | rfl | (rw [afterDecode_not_pair, afterDecode_not_pair] <;> intro s v h <;> cases h)

mutual
/-- a re-encoded document is unpacked exactly like the original, fuel for fuel (the nesting is the same) -/
theorem fromM_sameDoc (reg : Registry) {v v' : MVal} (h : SameDoc v v') (f : Nat) :
    fromM reg f v' = fromM reg f v := by
  cases f with
  | zero => rw [fromM_zero, fromM_zero]
  | succ f =>
    match v, v', h with
    | _, _, .nil => rfl
    | _, _, .bool _ => rfl
    | _, _, .int _ => rfl
    | _, _, .f64 _ => rfl
    | _, _, .f32 _ => rfl
    | _, _, .str _ => rfl
    | _, _, .bin _ => rfl
    | _, _, .arr hl => rw [fromM_arr, fromM_arr, fromMList_sameDoc reg hl f]
    | _, _, .map hl => rw [fromM_map, fromM_map, fromMList_sameDoc reg hl f]
    | _, _, .ext t hd hsd he =>
      rw [fromM_ext_eq, fromM_ext_eq, hd, decode_encodes _ _ he]
      split
      · rfl
      · exact afterDecode_sameDoc_aux reg f hsd (fun hab => fromM_sameDoc reg hab f)
theorem fromMList_sameDoc (reg : Registry) {xs ys : List MVal} (h : SameDocList xs ys) (f : Nat) :
    fromMList reg f ys = fromMList reg f xs := by
  match xs, ys, h with
  | _, _, .nil => rfl
  | _, _, .cons h1 hl => rw [fromMList_cons, fromMList_cons, fromM_sameDoc reg h1 f, fromMList_sameDoc reg hl f]
end

theorem arrHead_length_pos {n : Nat} {hd : Bytes} (h : ArrHead n hd) : 1 ≤ hd.length := by
  cases h <;> simp

theorem mapHead_length_pos {n : Nat} {hd : Bytes} (h : MapHead n hd) : 1 ≤ hd.length := by
  cases h <;> simp

theorem extHead_length_two {t n : Nat} {hd : Bytes} (h : ExtHead t n hd) : 2 ≤ hd.length := by
  cases h <;> simp

theorem afterDecode_fuel_aux (reg : Registry) (f g : Nat) {d d' : MVal} (p' : Bytes) (hsd : SameDoc d d')
    (he : Encodes d' p') (hf : p'.length ≤ f) (hg : p'.length ≤ g)
    (ih : ∀ {a b : MVal}, SameDoc a b → ∀ bs : Bytes, Encodes b bs → bs.length + 1 ≤ f → bs.length + 1 ≤ g →
      fromM reg f b = fromM reg g b) :
    afterDecode reg f (.ok d') = afterDecode reg g (.ok d') := by
  cases hsd with
  | arr hl =>
    cases hl with
    | nil => rfl
    | cons h1 hl1 =>
      cases hl1 with
      | nil => rw [afterDecode_not_pair, afterDecode_not_pair] <;> intro s v h <;> cases h
      | cons h2 hl2 =>
        cases hl2 with
        | nil =>
          obtain ⟨hd, body, hhd, hbody, rfl⟩ := he
          obtain ⟨b1, r1, e1, hr1, rfl⟩ := hbody
          obtain ⟨b2, r2, e2, hr2, rfl⟩ := hr1
          have hpos := arrHead_length_pos hhd
          simp only [List.length_append] at hf hg
          rw [afterDecode_pair, afterDecode_pair, ih h1 b1 e1 (by omega) (by omega), ih h2 b2 e2 (by omega) (by omega)]
        | cons h3 hl3 => rw [afterDecode_not_pair, afterDecode_not_pair] <;> intro s v h <;> cases h
  | _ => first | rfl | (rw [afterDecode_not_pair, afterDecode_not_pair] <;> intro s v h <;> cases h)

mutual
/-- beyond the length of a conforming encoding the fuel does not matter: every nesting level costs at least a byte -/
theorem fromM_fuel_irrelevant (reg : Registry) {v v' : MVal} (h : SameDoc v v') (bs : Bytes) (he : Encodes v' bs)
    (f g : Nat) (hf : bs.length + 1 ≤ f) (hg : bs.length + 1 ≤ g) : fromM reg f v' = fromM reg g v' := by
  obtain ⟨f, rfl⟩ : ∃ k, f = k + 1 := ⟨f - 1, by omega⟩
  obtain ⟨g, rfl⟩ : ∃ k, g = k + 1 := ⟨g - 1, by omega⟩
  match v, v', h, he with
  | _, _, .nil, _ => (conv => lhs; unfold fromM); (conv => rhs; unfold fromM)
  | _, _, .bool _, _ => (conv => lhs; unfold fromM); (conv => rhs; unfold fromM)
  | _, _, .int _, _ => (conv => lhs; unfold fromM); (conv => rhs; unfold fromM)
  | _, _, .f64 _, _ => (conv => lhs; unfold fromM); (conv => rhs; unfold fromM)
  | _, _, .f32 _, _ => (conv => lhs; unfold fromM); (conv => rhs; unfold fromM)
  | _, _, .str _, _ => (conv => lhs; unfold fromM); (conv => rhs; unfold fromM)
  | _, _, .bin _, _ => (conv => lhs; unfold fromM); (conv => rhs; unfold fromM)
  | _, _, .arr hl, he =>
    obtain ⟨hd, body, hhd, hbody, rfl⟩ := he
    have hpos := arrHead_length_pos hhd
    simp only [List.length_append] at hf hg
    rw [fromM_arr, fromM_arr, fromMList_fuel_irrelevant reg hl body hbody f g (by omega) (by omega)]
  | _, _, .map hl, he =>
    obtain ⟨_, hd, body, hhd, hbody, rfl⟩ := he
    have hpos := mapHead_length_pos hhd
    simp only [List.length_append] at hf hg
    rw [fromM_map, fromM_map, fromMList_fuel_irrelevant reg hl body hbody f g (by omega) (by omega)]
  | _, _, .ext t hd hsd hep, he =>
    obtain ⟨_, hdr, hhd, rfl⟩ := he
    have h2 := extHead_length_two hhd
    simp only [List.length_append] at hf hg
    rw [fromM_ext_eq, fromM_ext_eq, decode_encodes _ _ hep]
    split
    · rfl
    · exact afterDecode_fuel_aux reg f g _ hsd hep (by omega) (by omega)
        (fun hab bs' he' h1 h2 => fromM_fuel_irrelevant reg hab bs' he' f g h1 h2)
theorem fromMList_fuel_irrelevant (reg : Registry) {xs ys : List MVal} (h : SameDocList xs ys) (body : Bytes)
    (he : EncodesList ys body) (f g : Nat) (hf : body.length + 1 ≤ f) (hg : body.length + 1 ≤ g) :
    fromMList reg f ys = fromMList reg g ys := by
  match xs, ys, h, he with
  | _, _, .nil, _ => rw [fromMList_nil, fromMList_nil]
  | _, _, .cons h1 hl, he =>
    obtain ⟨b1, r1, e1, hr1, rfl⟩ := he
    simp only [List.length_append] at hf hg
    rw [fromMList_cons, fromMList_cons, fromM_fuel_irrelevant reg h1 b1 e1 f g (by omega) (by omega),
      fromMList_fuel_irrelevant reg hl r1 hr1 f g (by omega) (by omega)]
end

end FlowRecord.Wire
