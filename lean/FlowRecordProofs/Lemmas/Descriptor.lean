import FlowRecord.Model.Descriptor
import FlowRecordProofs.Lemmas.Rx
/-!
Lemmas for C06: the two name patterns, by shape, against the reference grammars.
-/
namespace FlowRecord.Rx

theorem pyMatch_iff (r : Rx) (s : Str) : pyMatch r s = true ↔ ∃ q, q ∈ ends r (true, s) := by
  unfold pyMatch
  cases h : ends r (true, s) with
  | nil => simp
  | cons a l => simp

theorem mem_ends_seq (a b : Rx) (p q : Pos) : q ∈ ends (.seq a b) p ↔ ∃ m ∈ ends a p, q ∈ ends b m := by
  simp only [ends, List.mem_flatMap]

theorem mem_ends_eol (p q : Pos) : q ∈ ends .eol p ↔ q = p ∧ atEol p.2 = true := by
  simp only [ends]
  by_cases h : atEol p.2 = true <;> simp [h]

theorem mem_ends_bol (p q : Pos) : q ∈ ends .bol p ↔ q = p ∧ p.1 = true := by
  simp only [ends]
  by_cases h : p.1 = true <;> simp [h]

theorem mem_ends_cls (c : List (Nat × Nat)) (b : Bool) (s : Str) (q : Pos) :
    q ∈ ends (.cls c) (b, s) ↔ ∃ x xs, s = x :: xs ∧ clsMem c x = true ∧ q = (false, xs) := by
  cases s with
  | nil => simp [ends]
  | cons x xs =>
    by_cases h : clsMem c x = true
    · simp only [ends, h, if_true, List.mem_singleton]
      constructor
      · intro hq; exact ⟨x, xs, rfl, h, hq⟩
      · rintro ⟨x', xs', he, -, hq⟩
        simp only [List.cons.injEq] at he
        rw [hq, he.2]
    · simp only [ends, h]
      constructor
      · intro hq; simp at hq
      · rintro ⟨x', xs', he, hx, -⟩
        simp only [List.cons.injEq] at he
        rw [he.1] at h; exact absurd hx h

theorem mem_ends_opt (a : Rx) (p q : Pos) : q ∈ ends (.opt a) p ↔ q ∈ ends a p ∨ q = p := by
  simp [ends]

/-- `[c]*$` from any position -/
theorem tail_iff (c : List (Nat × Nat)) (b : Bool) (s : Str) :
    (∃ q, q ∈ ends (.seq (.star (.cls c)) .eol) (b, s)) ↔
      ∃ t : Str, (s = t ∨ s = t ++ [10]) ∧ t.all (clsMem c) = true := by
  rw [← star_cls_eol c s b]
  constructor
  · rintro ⟨q, hq⟩
    obtain ⟨m, hm, hq⟩ := (mem_ends_seq _ _ _ _).mp hq
    exact ⟨m, hm, ((mem_ends_eol _ _).mp hq).2⟩
  · rintro ⟨m, hm, he⟩
    exact ⟨m, (mem_ends_seq _ _ _ _).mpr ⟨m, hm, (mem_ends_eol _ _).mpr ⟨rfl, he⟩⟩⟩

/-- `[a][c]*$` from any position -/
theorem head_tail_iff (a c : List (Nat × Nat)) (b : Bool) (s : Str) :
    (∃ q, q ∈ ends (.seq (.cls a) (.seq (.star (.cls c)) .eol)) (b, s)) ↔
      ∃ (y : Nat) (t : Str), clsMem a y = true ∧ t.all (clsMem c) = true ∧ (s = y :: t ∨ s = y :: t ++ [10]) := by
  constructor
  · rintro ⟨q, hq⟩
    obtain ⟨m, hm, hq⟩ := (mem_ends_seq _ _ _ _).mp hq
    obtain ⟨x, xs, rfl, hx, rfl⟩ := (mem_ends_cls _ _ _ _).mp hm
    obtain ⟨t, ht, hall⟩ := (tail_iff c false xs).mp ⟨q, hq⟩
    refine ⟨x, t, hx, hall, ?_⟩
    rcases ht with rfl | rfl
    · exact Or.inl rfl
    · exact Or.inr rfl
  · rintro ⟨y, t, hy, hall, hs⟩
    have hxs : ∃ xs, s = y :: xs ∧ (xs = t ∨ xs = t ++ [10]) := by
      rcases hs with rfl | rfl
      · exact ⟨t, rfl, Or.inl rfl⟩
      · exact ⟨t ++ [10], rfl, Or.inr rfl⟩
    obtain ⟨xs, rfl, hxs⟩ := hxs
    obtain ⟨q, hq⟩ := (tail_iff c false xs).mpr ⟨t, hxs, hall⟩
    exact ⟨q, (mem_ends_seq _ _ _ _).mpr ⟨(false, xs), (mem_ends_cls _ _ _ _).mpr ⟨y, xs, rfl, hy, rfl⟩, hq⟩⟩

/-- `^[u]?[a][c]*$` matched from the start of the string -/
theorem field_shape_iff (u a c : List (Nat × Nat)) (s : Str) :
    pyMatch (.seq .bol (.seq (.opt (.cls u)) (.seq (.cls a) (.seq (.star (.cls c)) .eol)))) s = true ↔
      ∃ (pre : Str) (y : Nat) (t : Str), (pre = [] ∨ ∃ x, pre = [x] ∧ clsMem u x = true) ∧ clsMem a y = true ∧
        t.all (clsMem c) = true ∧ (s = pre ++ y :: t ∨ s = pre ++ y :: t ++ [10]) := by
  rw [pyMatch_iff]
  constructor
  · rintro ⟨q, hq⟩
    obtain ⟨m1, hm1, hq⟩ := (mem_ends_seq _ _ _ _).mp hq
    obtain ⟨rfl, -⟩ := (mem_ends_bol _ _).mp hm1
    obtain ⟨m2, hm2, hq⟩ := (mem_ends_seq _ _ _ _).mp hq
    rcases (mem_ends_opt _ _ _).mp hm2 with hm2 | rfl
    · obtain ⟨x, xs, rfl, hx, rfl⟩ := (mem_ends_cls _ _ _ _).mp hm2
      obtain ⟨y, t, hy, hall, hs⟩ := (head_tail_iff a c false xs).mp ⟨q, hq⟩
      refine ⟨[x], y, t, Or.inr ⟨x, rfl, hx⟩, hy, hall, ?_⟩
      rcases hs with rfl | rfl
      · exact Or.inl rfl
      · exact Or.inr rfl
    · obtain ⟨y, t, hy, hall, hs⟩ := (head_tail_iff a c true s).mp ⟨q, hq⟩
      exact ⟨[], y, t, Or.inl rfl, hy, hall, by simpa using hs⟩
  · rintro ⟨pre, y, t, hpre, hy, hall, hs⟩
    rcases hpre with rfl | ⟨x, rfl, hx⟩
    · obtain ⟨q, hq⟩ := (head_tail_iff a c true s).mpr ⟨y, t, hy, hall, by simpa using hs⟩
      exact ⟨q, (mem_ends_seq _ _ _ _).mpr ⟨(true, s), (mem_ends_bol _ _).mpr ⟨rfl, rfl⟩,
        (mem_ends_seq _ _ _ _).mpr ⟨(true, s), (mem_ends_opt _ _ _).mpr (Or.inr rfl), hq⟩⟩⟩
    · have hxs : ∃ xs, s = x :: xs ∧ (xs = y :: t ∨ xs = y :: t ++ [10]) := by
        rcases hs with rfl | rfl
        · exact ⟨y :: t, rfl, Or.inl rfl⟩
        · exact ⟨y :: t ++ [10], rfl, Or.inr rfl⟩
      obtain ⟨xs, rfl, hxs⟩ := hxs
      obtain ⟨q, hq⟩ := (head_tail_iff a c false xs).mpr ⟨y, t, hy, hall, hxs⟩
      exact ⟨q, (mem_ends_seq _ _ _ _).mpr ⟨(true, x :: xs), (mem_ends_bol _ _).mpr ⟨rfl, rfl⟩,
        (mem_ends_seq _ _ _ _).mpr ⟨(false, xs),
          (mem_ends_opt _ _ _).mpr (Or.inl ((mem_ends_cls _ _ _ _).mpr ⟨x, xs, rfl, hx, rfl⟩)), hq⟩⟩⟩

end FlowRecord.Rx

namespace FlowRecord.Rx

theorem ends_star_cls_len (c : List (Nat × Nat)) : ∀ (r : Str) (b : Bool) (m : Pos),
    m ∈ ends (.star (.cls c)) (b, r) → m.2.length ≤ r.length := by
  intro r
  induction r with
  | nil => intro b m hm; rw [ends_star_cls_nil] at hm; simp at hm; subst hm; simp
  | cons x xs ih =>
    intro b m hm
    rw [ends_star_cls_cons] at hm
    rcases List.mem_cons.mp hm with rfl | hm
    · simp
    · by_cases h : clsMem c x = true
      · simp only [h, if_true] at hm
        have := ih false m hm
        simp only [List.length_cons]; omega
      · simp [h] at hm

/-- reference automaton for `[n]*(/[a][n]*)*` read from inside a segment -/
def segDfa (a n sl : Nat → Bool) : Str → Bool
  | [] => true
  | [x] => !sl x && n x
  | x :: y :: rest => if sl x then a y && segDfa a n sl rest else n x && segDfa a n sl (y :: rest)

/-- the group `(/[a][n]*)` -/
abbrev grp (a n sl : List (Nat × Nat)) : Rx := .seq (.cls sl) (.seq (.cls a) (.star (.cls n)))

theorem mem_ends_grp (a n sl : List (Nat × Nat)) (b : Bool) (s : Str) (m : Pos) :
    m ∈ ends (grp a n sl) (b, s) ↔
      ∃ x y rest, s = x :: y :: rest ∧ clsMem sl x = true ∧ clsMem a y = true ∧ m ∈ ends (.star (.cls n)) (false, rest) := by
  constructor
  · intro hm
    obtain ⟨m1, hm1, hm⟩ := (mem_ends_seq _ _ _ _).mp hm
    obtain ⟨x, xs, rfl, hx, rfl⟩ := (mem_ends_cls _ _ _ _).mp hm1
    obtain ⟨m2, hm2, hm⟩ := (mem_ends_seq _ _ _ _).mp hm
    obtain ⟨y, rest, rfl, hy, rfl⟩ := (mem_ends_cls _ _ _ _).mp hm2
    exact ⟨x, y, rest, rfl, hx, hy, hm⟩
  · rintro ⟨x, y, rest, rfl, hx, hy, hm⟩
    exact (mem_ends_seq _ _ _ _).mpr ⟨(false, y :: rest), (mem_ends_cls _ _ _ _).mpr ⟨x, _, rfl, hx, rfl⟩,
      (mem_ends_seq _ _ _ _).mpr ⟨(false, rest), (mem_ends_cls _ _ _ _).mpr ⟨y, _, rfl, hy, rfl⟩, hm⟩⟩

/-- `(/[a][n]*)*$`: stop at `$`, or one group and then `[n]*(/[a][n]*)*$` again -/
theorem groups_iff (a n sl : List (Nat × Nat)) (b : Bool) (s : Str) :
    (∃ q, q ∈ ends (.seq (.star (grp a n sl)) .eol) (b, s)) ↔
      atEol s = true ∨ ∃ x y rest, s = x :: y :: rest ∧ clsMem sl x = true ∧ clsMem a y = true ∧
        ∃ q, q ∈ ends (.seq (.star (.cls n)) (.seq (.star (grp a n sl)) .eol)) (false, rest) := by
  constructor
  · rintro ⟨q, hq0⟩
    obtain ⟨m, hm0, hqe⟩ := (mem_ends_seq _ _ _ _).mp hq0
    rw [ends_star] at hm0
    rcases List.mem_cons.mp hm0 with rfl | hm1
    · exact Or.inl ((mem_ends_eol _ _).mp hqe).2
    · right
      obtain ⟨m', hm', hmm⟩ := List.mem_flatMap.mp hm1
      obtain ⟨x, y, rest, hs, hx, hy, hm''⟩ := (mem_ends_grp a n sl b s m').mp (List.mem_filter.mp hm').1
      exact ⟨x, y, rest, hs, hx, hy, q, (mem_ends_seq _ _ _ _).mpr ⟨m', hm'', (mem_ends_seq _ _ _ _).mpr ⟨m, hmm, hqe⟩⟩⟩
  · rintro (he | ⟨x, y, rest, rfl, hx, hy, q, hq⟩)
    · refine ⟨(b, s), (mem_ends_seq _ _ _ _).mpr ⟨(b, s), ?_, (mem_ends_eol _ _).mpr ⟨rfl, he⟩⟩⟩
      rw [ends_star]; exact List.mem_cons_self
    · obtain ⟨m', hm', hq⟩ := (mem_ends_seq _ _ _ _).mp hq
      obtain ⟨m, hm, hq⟩ := (mem_ends_seq _ _ _ _).mp hq
      refine ⟨q, (mem_ends_seq _ _ _ _).mpr ⟨m, ?_, hq⟩⟩
      rw [ends_star]
      refine List.mem_cons_of_mem _ (List.mem_flatMap.mpr ⟨m', List.mem_filter.mpr ⟨?_, ?_⟩, hm⟩)
      · exact (mem_ends_grp a n sl b _ m').mpr ⟨x, y, rest, rfl, hx, hy, hm'⟩
      · have := ends_star_cls_len n rest false m' hm'
        simp only [shorter, List.length_cons, decide_eq_true_eq]; omega

/-- `[n]*(/[a][n]*)*$` from any position: unfolding by the first character -/
theorem body_iff_nil (a n sl : List (Nat × Nat)) (b : Bool) :
    (∃ q, q ∈ ends (.seq (.star (.cls n)) (.seq (.star (grp a n sl)) .eol)) (b, [])) := by
  refine ⟨(b, []), (mem_ends_seq _ _ _ _).mpr ⟨(b, []), by rw [ends_star_cls_nil]; simp, ?_⟩⟩
  exact (mem_ends_seq _ _ _ _).mpr ⟨(b, []), by rw [ends_star]; exact List.mem_cons_self,
    (mem_ends_eol _ _).mpr ⟨rfl, by simp [atEol]⟩⟩

theorem body_iff_cons (a n sl : List (Nat × Nat)) (b : Bool) (x : Nat) (xs : Str) :
    (∃ q, q ∈ ends (.seq (.star (.cls n)) (.seq (.star (grp a n sl)) .eol)) (b, x :: xs)) ↔
      (∃ q, q ∈ ends (.seq (.star (grp a n sl)) .eol) (b, x :: xs)) ∨
      (clsMem n x = true ∧ ∃ q, q ∈ ends (.seq (.star (.cls n)) (.seq (.star (grp a n sl)) .eol)) (false, xs)) := by
  constructor
  · rintro ⟨q, hq⟩
    obtain ⟨m, hm, hq⟩ := (mem_ends_seq _ _ _ _).mp hq
    rw [ends_star_cls_cons] at hm
    rcases List.mem_cons.mp hm with rfl | hm
    · exact Or.inl ⟨q, hq⟩
    · by_cases h : clsMem n x = true
      · simp only [h, if_true] at hm
        exact Or.inr ⟨h, q, (mem_ends_seq _ _ _ _).mpr ⟨m, hm, hq⟩⟩
      · simp [h] at hm
  · rintro (⟨q, hq⟩ | ⟨h, q, hq⟩)
    · exact ⟨q, (mem_ends_seq _ _ _ _).mpr ⟨(b, x :: xs), by rw [ends_star_cls_cons]; exact List.mem_cons_self, hq⟩⟩
    · obtain ⟨m, hm, hq⟩ := (mem_ends_seq _ _ _ _).mp hq
      refine ⟨q, (mem_ends_seq _ _ _ _).mpr ⟨m, ?_, hq⟩⟩
      rw [ends_star_cls_cons]; simp only [h, if_true]; exact List.mem_cons_of_mem _ hm

end FlowRecord.Rx

namespace FlowRecord.Rx

theorem body_dfa (a n sl : List (Nat × Nat)) (hdisj : ∀ x, clsMem n x = true → clsMem sl x = false) :
    ∀ (k : Nat) (s : Str) (b : Bool), s.length ≤ k →
      ((∃ q, q ∈ ends (.seq (.star (.cls n)) (.seq (.star (grp a n sl)) .eol)) (b, s)) ↔
        ∃ t : Str, (s = t ∨ s = t ++ [10]) ∧ segDfa (clsMem a) (clsMem n) (clsMem sl) t = true) := by
  intro k
  induction k with
  | zero =>
    intro s b hk
    have : s = [] := List.eq_nil_of_length_eq_zero (by omega)
    subst this
    exact ⟨fun _ => ⟨[], Or.inl rfl, rfl⟩, fun _ => body_iff_nil a n sl b⟩
  | succ k ih =>
    intro s b hk
    cases s with
    | nil => exact ⟨fun _ => ⟨[], Or.inl rfl, rfl⟩, fun _ => body_iff_nil a n sl b⟩
    | cons x xs =>
      have hxs : xs.length ≤ k := by simp only [List.length_cons] at hk; omega
      rw [body_iff_cons, groups_iff]
      constructor
      · rintro ((he | ⟨x', y, rest, hs, hx, hy, hV⟩) | ⟨hn, hV⟩)
        · -- `$` right here: the text is a lone newline
          simp only [atEol, Bool.or_eq_true, beq_iff_eq] at he
          rcases he with he | he
          · cases he
          · exact ⟨[], Or.inr (by simpa using he), rfl⟩
        · simp only [List.cons.injEq] at hs
          obtain ⟨rfl, rfl⟩ := hs
          have hr : rest.length ≤ k := by simp only [List.length_cons] at hxs; omega
          obtain ⟨t, ht, hd⟩ := (ih rest false hr).mp hV
          refine ⟨x :: y :: t, ?_, by simp [segDfa, hx, hy, hd]⟩
          rcases ht with rfl | rfl
          · exact Or.inl rfl
          · exact Or.inr rfl
        · obtain ⟨t, ht, hd⟩ := (ih xs false hxs).mp hV
          have hsl := hdisj x hn
          refine ⟨x :: t, ?_, ?_⟩
          · rcases ht with rfl | rfl
            · exact Or.inl rfl
            · exact Or.inr rfl
          · cases t with
            | nil => simp [segDfa, hsl, hn]
            | cons y r => simp [segDfa, hsl, hn, hd]
      · rintro ⟨t, ht, hd⟩
        match t, ht, hd with
        | [], ht, _ =>
          rcases ht with ht | ht
          · cases ht
          · simp only [List.nil_append, List.cons.injEq] at ht
            left; left; simp [atEol, ht.1, ht.2]
        | [x'], ht, hd =>
          have hx : x = x' ∧ (xs = [] ∨ xs = [] ++ [10]) := by
            rcases ht with ht | ht
            · simp only [List.cons.injEq] at ht; exact ⟨ht.1, Or.inl ht.2⟩
            · simp only [List.cons_append, List.nil_append, List.cons.injEq] at ht; exact ⟨ht.1, Or.inr (by simpa using ht.2)⟩
          obtain ⟨rfl, hxs'⟩ := hx
          simp only [segDfa, Bool.and_eq_true, Bool.not_eq_true'] at hd
          right
          exact ⟨hd.2, (ih xs false hxs).mpr ⟨[], hxs', rfl⟩⟩
        | x' :: y :: r, ht, hd =>
          have hx : x = x' ∧ (xs = y :: r ∨ xs = y :: r ++ [10]) := by
            rcases ht with ht | ht
            · simp only [List.cons.injEq] at ht; exact ⟨ht.1, Or.inl (by rw [ht.2])⟩
            · simp only [List.cons_append, List.cons.injEq] at ht; exact ⟨ht.1, Or.inr (by rw [ht.2]; rfl)⟩
          obtain ⟨rfl, hxs'⟩ := hx
          simp only [segDfa] at hd
          by_cases hsl : clsMem sl x = true
          · simp only [hsl, if_true, Bool.and_eq_true] at hd
            have hrest : ∃ rest, xs = y :: rest ∧ (rest = r ∨ rest = r ++ [10]) := by
              rcases hxs' with h | h
              · exact ⟨r, h, Or.inl rfl⟩
              · exact ⟨r ++ [10], by rw [h]; rfl, Or.inr rfl⟩
            obtain ⟨rest, rfl, hrest⟩ := hrest
            have hr : rest.length ≤ k := by simp only [List.length_cons] at hxs; omega
            left; right
            exact ⟨x, y, rest, rfl, hsl, hd.1, (ih rest false hr).mpr ⟨r, hrest, hd.2⟩⟩
          · simp only [hsl, Bool.false_eq_true, if_false, Bool.and_eq_true] at hd
            right
            exact ⟨hd.1, (ih xs false hxs).mpr ⟨y :: r, hxs', hd.2⟩⟩

/-- `^[a][n]*(/[a][n]*)*$` matched from the start of the string -/
theorem type_shape_iff (a n sl : List (Nat × Nat)) (hdisj : ∀ x, clsMem n x = true → clsMem sl x = false) (s : Str) :
    pyMatch (.seq .bol (.seq (.cls a) (.seq (.star (.cls n)) (.seq (.star (grp a n sl)) .eol)))) s = true ↔
      ∃ (y : Nat) (t : Str), clsMem a y = true ∧ segDfa (clsMem a) (clsMem n) (clsMem sl) t = true ∧
        (s = y :: t ∨ s = y :: t ++ [10]) := by
  rw [pyMatch_iff]
  constructor
  · rintro ⟨q, hq⟩
    obtain ⟨m1, hm1, hq1⟩ := (mem_ends_seq _ _ _ _).mp hq
    obtain ⟨rfl, -⟩ := (mem_ends_bol _ _).mp hm1
    obtain ⟨m2, hm2, hq2⟩ := (mem_ends_seq _ _ _ _).mp hq1
    obtain ⟨y, ys, rfl, hy, rfl⟩ := (mem_ends_cls _ _ _ _).mp hm2
    obtain ⟨t, ht, hd⟩ := (body_dfa a n sl hdisj ys.length ys false (Nat.le_refl _)).mp ⟨q, hq2⟩
    refine ⟨y, t, hy, hd, ?_⟩
    rcases ht with rfl | rfl
    · exact Or.inl rfl
    · exact Or.inr rfl
  · rintro ⟨y, t, hy, hd, hs⟩
    have hys : ∃ ys, s = y :: ys ∧ (ys = t ∨ ys = t ++ [10]) := by
      rcases hs with rfl | rfl
      · exact ⟨t, rfl, Or.inl rfl⟩
      · exact ⟨t ++ [10], rfl, Or.inr rfl⟩
    obtain ⟨ys, rfl, hys⟩ := hys
    obtain ⟨q, hq⟩ := (body_dfa a n sl hdisj ys.length ys false (Nat.le_refl _)).mpr ⟨t, hys, hd⟩
    exact ⟨q, (mem_ends_seq _ _ _ _).mpr ⟨(true, y :: ys), (mem_ends_bol _ _).mpr ⟨rfl, rfl⟩,
      (mem_ends_seq _ _ _ _).mpr ⟨(false, ys), (mem_ends_cls _ _ _ _).mpr ⟨y, ys, rfl, hy, rfl⟩, hq⟩⟩⟩

end FlowRecord.Rx

namespace FlowRecord.Descriptor
open FlowRecord.Rx

theorem clsMem_alpha (y : Nat) : clsMem [(97, 122), (65, 90)] y = isAlpha y := by
  simp only [clsMem, List.any_cons, List.any_nil, isAlpha, Bool.or_false]
  rw [Bool.or_comm]

theorem clsMem_identChar (y : Nat) : clsMem [(97, 122), (65, 90), (48, 57), (95, 95)] y = isIdentChar y := by
  simp only [clsMem, List.any_cons, List.any_nil, isIdentChar, isAlpha, isDigit, Bool.or_false]
  have : (decide (95 ≤ y) && decide (y ≤ 95)) = (y == 95) := by
    rw [Bool.eq_iff_iff]; simp only [Bool.and_eq_true, decide_eq_true_eq, beq_iff_eq]; omega
  rw [this, ← Bool.or_assoc, ← Bool.or_assoc, Bool.or_comm (decide (97 ≤ y) && decide (y ≤ 122))]

theorem clsMem_single (c y : Nat) : clsMem [(c, c)] y = (y == c) := by
  simp only [clsMem, List.any_cons, List.any_nil, Bool.or_false]
  rw [Bool.eq_iff_iff]; simp only [Bool.and_eq_true, decide_eq_true_eq, beq_iff_eq]; omega

theorem splitOn_ne_nil (sep : Nat) (s : Str) : splitOn sep s ≠ [] := by
  cases s with
  | nil => simp [splitOn]
  | cons c cs =>
    simp only [splitOn]
    by_cases h : c = sep
    · simp [h]
    · simp only [h, if_false]; split <;> simp

/-- first segment consists of identifier characters, every later one is an identifier starting with a letter -/
def headTailOk : List Str → Bool
  | [] => false
  | seg :: rest => seg.all isIdentChar && rest.all isIdentL

theorem splitOn_cons_ne (sep c : Nat) (cs : Str) (h : c ≠ sep) :
    ∃ seg rest, splitOn sep cs = seg :: rest ∧ splitOn sep (c :: cs) = (c :: seg) :: rest := by
  cases hs : splitOn sep cs with
  | nil => exact absurd hs (splitOn_ne_nil sep cs)
  | cons seg rest => exact ⟨seg, rest, rfl, by simp [splitOn, h, hs]⟩

theorem isAlpha_ne_slash {y : Nat} (h : isAlpha y = true) : y ≠ 47 := by
  intro e; subst e; simp [isAlpha] at h

theorem isIdentChar_ne_slash {y : Nat} (h : isIdentChar y = true) : y ≠ 47 := by
  intro e; subst e; simp [isIdentChar, isAlpha, isDigit] at h

theorem isIdentL_cons (y : Nat) (seg : Str) : isIdentL (y :: seg) = (isAlpha y && seg.all isIdentChar) := by
  simp only [isIdentL, isIdent, isIdentStart, startsWithUnderscore]
  by_cases h : y = 95
  · subst h; simp [isAlpha]
  · have : (y == 95) = false := by simp [h]
    simp [this]

/-- the automaton agrees with the split-based reading -/
theorem segDfa_split : ∀ (t : Str),
    segDfa isAlpha isIdentChar (· == 47) t = headTailOk (splitOn 47 t) := by
  intro t
  fun_induction segDfa isAlpha isIdentChar (· == 47) t with
  | case1 => simp [splitOn, headTailOk]
  | case2 x =>
    by_cases h : x = 47
    · subst h; simp [splitOn, headTailOk, isIdentL, isIdent]
    · simp [splitOn, headTailOk, h]
  | case3 x y rest hx ih =>
    have hx' : x = 47 := by simpa using hx
    subst hx'
    by_cases hy : y = 47
    · subst hy
      simp [splitOn, headTailOk, isIdentL, isIdent, isAlpha]
    · obtain ⟨seg, rs, h1, h2⟩ := splitOn_cons_ne 47 y rest hy
      rw [ih, h1]
      have : splitOn 47 (47 :: y :: rest) = [] :: (y :: seg) :: rs := by
        rw [← h2]; simp [splitOn]
      rw [this]
      simp only [headTailOk, List.all_nil, List.all_cons, Bool.true_and, isIdentL_cons, Bool.and_assoc]
  | case4 x y rest hx ih =>
    have hx' : x ≠ 47 := by simpa using hx
    obtain ⟨seg, rs, h1, h2⟩ := splitOn_cons_ne 47 x (y :: rest) hx'
    have hb : (x == 47) = false := by simp [hx']
    rw [ih, h1, h2]
    simp only [headTailOk, List.all_cons, Bool.and_assoc]

/-- `isSlashIdents` unfolded at the first character -/
theorem isSlashIdents_iff (s : Str) :
    isSlashIdents s = true ↔ ∃ y t, s = y :: t ∧ isAlpha y = true ∧ segDfa isAlpha isIdentChar (· == 47) t = true := by
  cases s with
  | nil => simp [isSlashIdents, splitOn, isIdentL, isIdent]
  | cons y t =>
    by_cases hy : y = 47
    · subst hy
      simp [isSlashIdents, splitOn, isIdentL, isIdent, isAlpha]
    · obtain ⟨seg, rs, h1, h2⟩ := splitOn_cons_ne 47 y t hy
      simp only [isSlashIdents, h2, List.all_cons, isIdentL_cons, segDfa_split, headTailOk]
      constructor
      · intro h
        simp only [Bool.and_eq_true] at h
        exact ⟨y, t, rfl, h.1.1, by rw [h1]; simp [h.1.2, h.2]⟩
      · rintro ⟨y', t', he, hy', hd⟩
        simp only [List.cons.injEq] at he
        obtain ⟨rfl, rfl⟩ := he
        rw [h1] at hd
        simp only [Bool.and_eq_true] at hd
        simp [hy', hd.1, hd.2]

end FlowRecord.Descriptor

namespace FlowRecord.Descriptor

/-- what a successful `RecordDescriptor(...)` implies, step by step -/
theorem construct_ok (d : Desc) (sl : List Str) (h : (construct d).2 = .ok sl) :
    d.name.isEmpty = false ∧ (d.fields.any fun f => !isValidFieldName f.2 true) = false ∧
    (∃ eff fts, resolveFields d.fields = (eff, .ok fts)) ∧ isValidTypeName d.name = true ∧ execOk d = true ∧
    sl = slots d := by
  unfold construct at h
  by_cases h1 : d.name.isEmpty = true
  · simp [h1] at h
  · by_cases h2 : (d.fields.any fun f => !isValidFieldName f.2 true) = true
    · simp [h1, h2] at h
    · cases hr : resolveFields d.fields with
      | mk eff r =>
        cases r with
        | error e => simp [h1, h2, hr] at h
        | ok fts =>
          by_cases h3 : isValidTypeName d.name = true
          · by_cases h4 : execOk d = true
            · simp [h1, h2, hr, h3, h4] at h
              exact ⟨by simpa using h1, by simpa using h2, ⟨eff, fts, rfl⟩, h3, h4, h.symm⟩
            · simp [h1, h2, hr, h3, h4] at h
          · simp [h1, h2, hr, h3] at h

end FlowRecord.Descriptor
