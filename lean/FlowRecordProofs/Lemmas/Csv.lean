import FlowRecord.Model.Csv
/-!
Helper lemmas for C20: the parser-state invariant behind `C20_csv_roundtrip`.
Shape of the argument: `run` is a left fold, so it splits over `++`; a written cell takes the parser from a
"cell start" state to a "cell end" state holding exactly that cell; a delimiter saves it; the line terminator
saves the last cell and (possibly one end-of-line event later) emits the row.
-/
namespace FlowRecord.Csv

theorem run_append (d : Ch) (s : St) (a b : List Ch) : run d s (a ++ b) = run d (run d s a) b := by
  simp [run, List.foldl_append]

theorem run_cons (d : Ch) (s : St) (c : Ch) (cs : List Ch) : run d s (c :: cs) = run d (step d s c) cs := rfl
theorem run_nil (d : Ch) (s : St) : run d s [] = s := rfl

/-- the hypotheses on the delimiter: not the quote char, not a line break -/
structure DelimOk (d : Ch) : Prop where
  nq : d ≠ QUOTE
  ncr : d ≠ CR
  nlf : d ≠ LF

/-- a "plain" character: one an unquoted cell may contain -/
def Plain (d : Ch) (x : Ch) : Prop := x ≠ d ∧ x ≠ QUOTE ∧ x ≠ CR ∧ x ≠ LF

/-! ### inside a quoted cell -/

theorem step_inQuoted_ne (d : Ch) (f : List Ch) (r : List Cell) (o : List Row) (p op : Bool) (x : Ch)
    (hx : x ≠ QUOTE) :
    ∃ p' op', step d ⟨.inQuoted, f, r, o, p, op, false⟩ x = ⟨.inQuoted, x :: f, r, o, p', op', false⟩ := by
  by_cases h1 : x = LF
  · subst h1
    cases p <;> simp [step, feed, pchar, peol, addCh, LF, QUOTE]
  · by_cases h2 : x = CR
    · subst h2
      cases p <;> simp [step, feed, pchar, peol, addCh, LF, CR, QUOTE]
    · cases p <;> simp [step, feed, pchar, peol, addCh, h1, h2, hx]

theorem step_inQuoted_quote (d : Ch) (f : List Ch) (r : List Cell) (o : List Row) (p op : Bool) :
    step d ⟨.inQuoted, f, r, o, p, op, false⟩ QUOTE = ⟨.quoteInQuoted, f, r, o, false, true, false⟩ := by
  cases p <;> simp [step, feed, pchar, peol, LF, CR, QUOTE]

theorem step_quoteInQuoted_quote (d : Ch) (f : List Ch) (r : List Cell) (o : List Row) (op : Bool) :
    step d ⟨.quoteInQuoted, f, r, o, false, op, false⟩ QUOTE = ⟨.inQuoted, QUOTE :: f, r, o, false, true, false⟩ := by
  simp [step, feed, pchar, addCh, LF, CR, QUOTE]

theorem run_escape (d : Ch) (c : Cell) : ∀ (f : List Ch) (r : List Cell) (o : List Row) (p op : Bool),
    ∃ p' op', run d ⟨.inQuoted, f, r, o, p, op, false⟩ (escape c) = ⟨.inQuoted, c.reverse ++ f, r, o, p', op', false⟩ := by
  induction c with
  | nil => intro f r o p op; exact ⟨p, op, by simp [escape, run_nil]⟩
  | cons x xs ih =>
    intro f r o p op
    by_cases hx : x = QUOTE
    · subst hx
      obtain ⟨p', op', h⟩ := ih (QUOTE :: f) r o false true
      refine ⟨p', op', ?_⟩
      simp only [escape, if_true, run_cons, step_inQuoted_quote, step_quoteInQuoted_quote, h]
      simp
    · obtain ⟨p1, op1, h1⟩ := step_inQuoted_ne d f r o p op x hx
      obtain ⟨p', op', h⟩ := ih (x :: f) r o p1 op1
      refine ⟨p', op', ?_⟩
      simp only [escape, hx, if_false, run_cons, h1, h]
      simp

/-! ### unquoted cells -/

theorem step_inField_plain (d : Ch) (f : List Ch) (r : List Cell) (o : List Row) (op : Bool) (x : Ch)
    (hx : Plain d x) :
    step d ⟨.inField, f, r, o, false, op, false⟩ x = ⟨.inField, x :: f, r, o, false, true, false⟩ := by
  obtain ⟨h1, h2, h3, h4⟩ := hx
  simp [step, feed, pchar, addCh, isNL, h1, h3, h4]

theorem run_inField_plain (d : Ch) (c : Cell) : ∀ (f : List Ch) (r : List Cell) (o : List Row) (op : Bool),
    (∀ x ∈ c, Plain d x) →
    ∃ op', run d ⟨.inField, f, r, o, false, op, false⟩ c = ⟨.inField, c.reverse ++ f, r, o, false, op', false⟩ := by
  induction c with
  | nil => intro f r o op _; exact ⟨op, by simp [run_nil]⟩
  | cons x xs ih =>
    intro f r o op h
    obtain ⟨op', h'⟩ := ih (x :: f) r o true (fun y hy => h y (List.mem_cons_of_mem _ hy))
    refine ⟨op', ?_⟩
    rw [run_cons, step_inField_plain d f r o op x (h x List.mem_cons_self), h']
    simp

/-- a cell may start in START_FIELD, or in START_RECORD with nothing collected yet -/
def StartMode (m : Mode) (r : List Cell) : Prop := m = .startField ∨ (m = .startRecord ∧ r = [])

theorem step_start_plain (d : Ch) (m : Mode) (r : List Cell) (o : List Row) (op : Bool) (x : Ch)
    (hm : StartMode m r) (hx : Plain d x) :
    step d ⟨m, [], r, o, false, op, false⟩ x = ⟨.inField, [x], r, o, false, true, false⟩ := by
  obtain ⟨h1, h2, h3, h4⟩ := hx
  rcases hm with hm | ⟨hm, _⟩ <;> subst hm <;>
    simp [step, feed, pchar, pStartField, addCh, isNL, h1, h2, h3, h4]

theorem step_start_quote (d : Ch) (m : Mode) (r : List Cell) (o : List Row) (op : Bool)
    (hm : StartMode m r) :
    step d ⟨m, [], r, o, false, op, false⟩ QUOTE = ⟨.inQuoted, [], r, o, false, true, false⟩ := by
  rcases hm with hm | ⟨hm, _⟩ <;> subst hm <;>
    simp [step, feed, pchar, pStartField, isNL, QUOTE, CR, LF]

/-- the three modes in which a completed cell sits in `field`, waiting for the delimiter or the line end -/
def EndMode (m : Mode) : Prop := m = .startField ∨ m = .inField ∨ m = .quoteInQuoted

/-! ### one written cell -/

theorem needsQuote_false (d : Ch) (lt : List Ch) (c : Cell) (h : needsQuote d lt c = false) :
    ∀ x ∈ c, x ≠ d ∧ x ≠ QUOTE ∧ x ∉ lt := by
  intro x hx
  simp only [needsQuote, List.any_eq_false] at h
  have := h x hx
  simp only [Bool.or_eq_true, beq_iff_eq, List.contains_eq_mem, decide_eq_true_eq, not_or] at this
  exact ⟨this.1.1, this.1.2, this.2⟩

/-- every line-break character of the cell is a character of the configured terminator -/
def SafeCell (lt : List Ch) (c : Cell) : Prop := ∀ x ∈ c, (x = CR ∨ x = LF) → x ∈ lt
instance (lt : List Ch) (c : Cell) : Decidable (SafeCell lt c) := by unfold SafeCell; infer_instance

theorem run_writeCell (d : Ch) (lt : List Ch) (c : Cell) (m : Mode) (r : List Cell) (o : List Row) (op : Bool)
    (hm : StartMode m r) (hs : SafeCell lt c) :
    ∃ m' op', run d ⟨m, [], r, o, false, op, false⟩ (writeCell d lt c) = ⟨m', c.reverse, r, o, false, op', false⟩
      ∧ ((m' = .inField ∨ m' = .quoteInQuoted) ∨ (c = [] ∧ m' = m)) := by
  by_cases hq : needsQuote d lt c = true
  · obtain ⟨p', op', h⟩ := run_escape d c [] r o false true
    refine ⟨.quoteInQuoted, true, ?_, Or.inl (Or.inr rfl)⟩
    simp only [writeCell, hq, if_true, run_cons, run_append, step_start_quote d m r o op hm, h, run_nil,
      step_inQuoted_quote, List.append_nil]
  · have hq' : needsQuote d lt c = false := by simpa using hq
    have hp : ∀ x ∈ c, Plain d x := by
      intro x hx
      obtain ⟨h1, h2, h3⟩ := needsQuote_false d lt c hq' x hx
      refine ⟨h1, h2, ?_, ?_⟩
      · intro hc; exact h3 (hs x hx (Or.inl hc))
      · intro hc; exact h3 (hs x hx (Or.inr hc))
    cases c with
    | nil => exact ⟨m, op, by simp [writeCell, needsQuote, run_nil], Or.inr ⟨rfl, rfl⟩⟩
    | cons x xs =>
      obtain ⟨op', h⟩ := run_inField_plain d xs [x] r o true (fun y hy => hp y (List.mem_cons_of_mem _ hy))
      refine ⟨.inField, op', ?_, Or.inl (Or.inl rfl)⟩
      have hw : writeCell d lt (x :: xs) = x :: xs := by simp [writeCell, hq']
      rw [hw, run_cons, step_start_plain d m r o op x hm (hp x List.mem_cons_self), h]
      simp

/-! ### the delimiter and the line end -/

theorem step_delim (d : Ch) (hd : DelimOk d) (m : Mode) (f : List Ch) (r : List Cell) (o : List Row) (op : Bool)
    (hm : EndMode m ∨ (m = .startRecord ∧ f = [] ∧ r = [])) :
    step d ⟨m, f, r, o, false, op, false⟩ d = ⟨.startField, [], f.reverse :: r, o, false, true, false⟩ := by
  obtain ⟨h1, h2, h3⟩ := hd
  rcases hm with (hm | hm | hm) | ⟨hm, _, _⟩ <;> subst hm <;>
    simp [step, feed, pchar, pStartField, saveField, isNL, h1, h2, h3]

/-- between two rows: the parser is clean, or (terminator `\r`) becomes clean with the pending end-of-line event -/
def Between (lt : List Ch) (s : St) (o : List Row) : Prop :=
  s = clean o ∨ (lt = [CR] ∧ s.pendCR = true ∧ s.err = false ∧ peol { s with pendCR := false } = clean o)

def LtOk (lt : List Ch) : Prop := lt = [CR, LF] ∨ lt = [LF] ∨ lt = [CR]

theorem run_lineEnd (d : Ch) (hd : DelimOk d) (lt : List Ch) (hlt : LtOk lt) (m : Mode) (f : List Ch) (r : List Cell) (o : List Row)
    (op : Bool) (hm : EndMode m) :
    Between lt (run d ⟨m, f, r, o, false, op, false⟩ lt) ((f.reverse :: r).reverse :: o) := by
  have h1 : (13 : Nat) ≠ d := fun h => hd.ncr h.symm
  have h2 : (10 : Nat) ≠ d := fun h => hd.nlf h.symm
  rcases hlt with h | h | h <;> subst h <;> rcases hm with hm | hm | hm <;> subst hm <;>
    simp [Between, run, step, feed, pchar, pStartField, peol, emit, saveField, clean, isNL, CR, LF, QUOTE, h1, h2]

/-- a pending end-of-line event is delivered before any character other than `\n` -/
theorem step_between (d : Ch) (lt : List Ch) (s : St) (o : List Row) (x : Ch) (hb : Between lt s o)
    (hx : lt = [CR] → x ≠ LF) : step d s x = step d (clean o) x := by
  rcases hb with h | ⟨h1, h2, h3, h4⟩
  · rw [h]
  · have := hx h1
    rw [h3] at h4
    simp only [step, h2, h3, this, clean, if_true, if_false, Bool.false_eq_true]
    rw [h4]; rfl

/-! ### a whole row -/

theorem run_cells (d : Ch) (hd : DelimOk d) (lt : List Ch) (cs : List Cell) :
    ∀ (m : Mode) (r : List Cell) (o : List Row) (op : Bool), StartMode m r → (∀ c ∈ cs, SafeCell lt c) → cs ≠ [] →
      (m = .startRecord → cs ≠ [[]]) →
      ∃ m' f' r' op', run d ⟨m, [], r, o, false, op, false⟩ (joinCells d (cs.map (writeCell d lt)))
          = ⟨m', f', r', o, false, op', false⟩ ∧ EndMode m' ∧ (f'.reverse :: r').reverse = r.reverse ++ cs := by
  induction cs with
  | nil => intro m r o op _ _ h; exact absurd rfl h
  | cons c rest ih =>
    intro m r o op hm hs _ hne
    obtain ⟨m1, op1, h1, hm1⟩ := run_writeCell d lt c m r o op hm (hs c List.mem_cons_self)
    cases rest with
    | nil =>
      refine ⟨m1, c.reverse, r, op1, by simpa [joinCells] using h1, ?_, by simp⟩
      rcases hm1 with (h | h) | ⟨hc, hm'⟩
      · exact Or.inr (Or.inl h)
      · exact Or.inr (Or.inr h)
      · subst hc; subst hm'
        rcases hm with h | ⟨h, _⟩
        · exact Or.inl h
        · exact absurd rfl (hne h)
    | cons c2 rest2 =>
      have hend : EndMode m1 ∨ (m1 = .startRecord ∧ c.reverse = [] ∧ r = []) := by
        rcases hm1 with (h | h) | ⟨hc, hm'⟩
        · exact Or.inl (Or.inr (Or.inl h))
        · exact Or.inl (Or.inr (Or.inr h))
        · subst hc; subst hm'
          rcases hm with h | ⟨h, hr⟩
          · exact Or.inl (Or.inl h)
          · exact Or.inr ⟨h, rfl, hr⟩
      obtain ⟨m', f', r', op', h2, hm2, hrow⟩ :=
        ih .startField (c :: r) o true (Or.inl rfl) (fun x hx => hs x (List.mem_cons_of_mem _ hx))
          (by simp) (by intro h; cases h)
      refine ⟨m', f', r', op', ?_, hm2, ?_⟩
      · simp only [List.map_cons, joinCells, run_append, run_cons, h1, step_delim d hd m1 c.reverse r o op1 hend,
          List.reverse_reverse]
        simpa [List.map_cons] using h2
      · simp [hrow]

theorem writeRow_head_ne_LF (d : Ch) (hd : DelimOk d) (row : Row) (hs : ∀ c ∈ row, SafeCell [CR] c) :
    ∃ x rest, writeRow d [CR] row = x :: rest ∧ x ≠ LF := by
  unfold writeRow
  by_cases h1 : row = []
  · simp [h1, CR, LF]
  · by_cases h2 : row = [[]]
    · simp [h2, QUOTE, LF]
    · simp only [h1, h2, if_false]
      cases row with
      | nil => exact absurd rfl h1
      | cons c rest =>
        -- the first character is: the opening quote, the first plain character, or (empty cell) the delimiter /
        -- terminator that follows
        have key : ∀ tail : List Ch, (∃ y t, tail = y :: t ∧ y ≠ LF) →
            ∃ x t, writeCell d [CR] c ++ tail = x :: t ∧ x ≠ LF := by
          intro tail ⟨y, t, ht, hy⟩
          by_cases hq : needsQuote d [CR] c = true
          · exact ⟨QUOTE, escape c ++ QUOTE :: tail, by simp [writeCell, hq], by simp [QUOTE, LF]⟩
          · have hq' : needsQuote d [CR] c = false := by simpa using hq
            cases c with
            | nil => exact ⟨y, t, by simp [writeCell, needsQuote, ht], hy⟩
            | cons x xs =>
              refine ⟨x, xs ++ tail, by simp [writeCell, hq'], ?_⟩
              intro hx
              have h3 := (needsQuote_false d [CR] (x :: xs) hq' x List.mem_cons_self).2.2
              have := hs (x :: xs) List.mem_cons_self x List.mem_cons_self (Or.inr hx)
              exact h3 this
        cases rest with
        | nil => simpa [joinCells] using key [CR] ⟨CR, [], rfl, by simp [CR, LF]⟩
        | cons c2 rest2 =>
          have := key (d :: (joinCells d ((c2 :: rest2).map (writeCell d [CR])) ++ [CR])) ⟨d, _, rfl, hd.nlf⟩
          simpa [joinCells, List.append_assoc] using this

theorem run_writeRow_clean (d : Ch) (hd : DelimOk d) (lt : List Ch) (hlt : LtOk lt) (row : Row) (o : List Row)
    (hs : ∀ c ∈ row, SafeCell lt c) :
    Between lt (run d (clean o) (writeRow d lt row)) (row :: o) := by
  unfold writeRow
  by_cases h1 : row = []
  · subst h1
    rcases hlt with h | h | h <;> subst h <;>
      simp [Between, run, step, feed, pchar, peol, emit, clean, isNL, CR, LF]
  · by_cases h2 : row = [[]]
    · subst h2
      have h3 : (13 : Nat) ≠ d := fun h => hd.ncr h.symm
      have h4 : (10 : Nat) ≠ d := fun h => hd.nlf h.symm
      rcases hlt with h | h | h <;> subst h <;>
        simp [Between, run, step, feed, pchar, pStartField, peol, emit, saveField, clean, isNL, CR, LF, QUOTE, h3, h4]
    · simp only [h1, h2, if_false]
      obtain ⟨m', f', r', op', h, hm, hrow⟩ :=
        run_cells d hd lt row .startRecord [] o false (Or.inr ⟨rfl, rfl⟩) hs h1 (fun _ => h2)
      rw [run_append]
      unfold clean
      rw [h]
      have := run_lineEnd d hd lt hlt m' f' r' o op' hm
      rw [hrow] at this
      simpa using this

theorem run_writeRow (d : Ch) (hd : DelimOk d) (lt : List Ch) (hlt : LtOk lt) (row : Row) (s : St) (o : List Row)
    (hb : Between lt s o) (hs : ∀ c ∈ row, SafeCell lt c) :
    Between lt (run d s (writeRow d lt row)) (row :: o) := by
  have hclean := run_writeRow_clean d hd lt hlt row o hs
  rcases hb with h | ⟨h1, h2, h3, h4⟩
  · rw [h]; exact hclean
  · subst h1
    obtain ⟨x, rest, hw, hx⟩ := writeRow_head_ne_LF d hd row hs
    rw [hw, run_cons] at hclean ⊢
    rw [step_between d [CR] s o x (Or.inr ⟨rfl, h2, h3, h4⟩) (fun _ => hx)]
    exact hclean

theorem run_writeRows (d : Ch) (hd : DelimOk d) (lt : List Ch) (hlt : LtOk lt) (rows : List Row) :
    ∀ (s : St) (o : List Row), Between lt s o → (∀ row ∈ rows, ∀ c ∈ row, SafeCell lt c) →
      Between lt (run d s (writeRows d lt rows)) (rows.reverse ++ o) := by
  induction rows with
  | nil => intro s o hb _; simpa [writeRows, run_nil] using hb
  | cons row rest ih =>
    intro s o hb hs
    have h1 := run_writeRow d hd lt hlt row s o hb (hs row List.mem_cons_self)
    have h2 := ih _ _ h1 (fun r hr => hs r (List.mem_cons_of_mem _ hr))
    simpa [writeRows, List.flatMap_cons, run_append] using h2

theorem finish_between (lt : List Ch) (s : St) (o : List Row) (hb : Between lt s o) :
    (finish s).out = o ∧ (finish s).err = false := by
  rcases hb with h | ⟨_, h2, h3, h4⟩
  · subst h; simp [finish, clean]
  · rw [h3] at h4
    simp only [finish, h2, h3, Bool.or_true, if_true, if_false, Bool.false_eq_true]
    rw [h4]; simp [clean]

/-! ### header-on-descriptor-change: the writer's fold against the run decomposition -/

/-- what one maximal run contributes: the header of the selected field names, then one row per record -/
def runRows (sel : Sel) : List Rec → List Row
  | [] => []
  | r :: g => header sel r :: (r :: g).map (cells sel)

theorem runs_ne_nil (l : List Rec) : ∀ g ∈ runs l, g ≠ [] := by
  induction l with
  | nil => intro g hg; simp [runs] at hg
  | cons r rs ih =>
    intro g hg
    unfold runs at hg
    split at hg
    · rename_i r2 g2 gs heq
      split at hg
      · rcases List.mem_cons.mp hg with h | h
        · subst h; simp
        · exact ih g (by rw [heq]; exact List.mem_cons_of_mem _ h)
      · rcases List.mem_cons.mp hg with h | h
        · subst h; simp
        · exact ih g (by rw [heq]; exact h)
    · simp at hg; subst hg; simp

theorem runs_flatten (l : List Rec) : (runs l).flatten = l := by
  induction l with
  | nil => simp [runs]
  | cons r rs ih =>
    unfold runs
    split
    · rename_i r2 g2 gs heq
      rw [heq] at ih
      split <;> simp_all
    · rename_i hno
      cases hr : runs rs with
      | nil => rw [hr] at ih; simp at ih; subst ih; simp
      | cons g gs =>
        cases g with
        | nil => exact absurd rfl (runs_ne_nil rs [] (by rw [hr]; exact List.mem_cons_self))
        | cons r2 g2 => exact absurd hr (hno r2 g2 gs)

theorem runs_uniform (l : List Rec) : ∀ g ∈ runs l, ∀ a ∈ g, ∀ b ∈ g, a.desc = b.desc := by
  induction l with
  | nil => intro g hg; simp [runs] at hg
  | cons r rs ih =>
    intro g hg
    unfold runs at hg
    split at hg
    · rename_i r2 g2 gs heq
      have ih2 := ih (r2 :: g2) (by rw [heq]; exact List.mem_cons_self)
      split at hg
      · rename_i hd
        rcases List.mem_cons.mp hg with h | h
        · subst h
          have key : ∀ a ∈ r :: r2 :: g2, a.desc = r2.desc := by
            intro a ha
            rcases List.mem_cons.mp ha with h | h
            · subst h; exact hd
            · exact ih2 a h r2 List.mem_cons_self
          intro a ha b hb; rw [key a ha, key b hb]
        · exact ih g (by rw [heq]; exact List.mem_cons_of_mem _ h)
      · rcases List.mem_cons.mp hg with h | h
        · subst h; intro a ha b hb; simp at ha hb; subst ha; subst hb; rfl
        · exact ih g (by rw [heq]; exact h)
    · simp at hg; subst hg; intro a ha b hb; simp at ha hb; subst ha; subst hb; rfl

/-- adjacent runs have different descriptors (so the runs are maximal) -/
def AdjDiff : List (List Rec) → Prop
  | (a :: _) :: (b :: g2) :: gs => a.desc ≠ b.desc ∧ AdjDiff ((b :: g2) :: gs)
  | _ => True

theorem runs_adjDiff (l : List Rec) : AdjDiff (runs l) := by
  induction l with
  | nil => simp [runs, AdjDiff]
  | cons r rs ih =>
    unfold runs
    split
    · rename_i r2 g2 gs heq
      rw [heq] at ih
      split
      · rename_i hd
        cases gs with
        | nil => simp [AdjDiff]
        | cons g3 gs3 =>
          cases g3 with
          | nil => simp [AdjDiff]
          | cons r3 g3' =>
            simp only [AdjDiff] at ih ⊢
            exact ⟨by rw [hd]; exact ih.1, ih.2⟩
      · rename_i hd
        simp only [AdjDiff]
        exact ⟨hd, ih⟩
    · simp [AdjDiff]

theorem runs_cons_nil (r : Rec) (rs : List Rec) (h : runs rs = []) : runs (r :: rs) = [[r]] := by
  simp [runs, h]

theorem runs_cons_same (r r2 : Rec) (rs g : List Rec) (gs : List (List Rec)) (h : runs rs = (r2 :: g) :: gs)
    (hd : r.desc = r2.desc) : runs (r :: rs) = (r :: r2 :: g) :: gs := by
  simp [runs, h, hd]

theorem runs_cons_diff (r r2 : Rec) (rs g : List Rec) (gs : List (List Rec)) (h : runs rs = (r2 :: g) :: gs)
    (hd : r.desc ≠ r2.desc) : runs (r :: rs) = [r] :: (r2 :: g) :: gs := by
  simp [runs, h, hd]

theorem csvRows_runs_gen (sel : Sel) (recs : List Rec) : ∀ st : Option (Name × List (Name × Name)),
    csvRows sel st recs =
      match runs recs with
      | [] => []
      | g :: gs =>
        (match g with
          | [] => []
          | r :: _ => if st = some r.desc then g.map (cells sel) else runRows sel g) ++ gs.flatMap (runRows sel) := by
  induction recs with
  | nil => intro st; simp [csvRows, runs]
  | cons r rs ih =>
    intro st
    have ih' := ih (some r.desc)
    cases hr : runs rs with
    | nil =>
      rw [hr] at ih'
      rw [runs_cons_nil r rs hr]
      simp only [csvRows, ih']
      split <;> simp [runRows]
    | cons g gs =>
      cases g with
      | nil => exact absurd rfl (runs_ne_nil rs [] (by rw [hr]; exact List.mem_cons_self))
      | cons r2 g2 =>
        rw [hr] at ih'
        simp only at ih'
        by_cases hd : r.desc = r2.desc
        · rw [runs_cons_same r r2 rs g2 gs hr hd]
          rw [hd] at ih'
          simp only [if_true] at ih'
          simp only [csvRows, hd, ih']
          split <;> simp [runRows]
        · rw [runs_cons_diff r r2 rs g2 gs hr hd]
          have hd' : ¬ (some r.desc = some r2.desc) := by simpa using hd
          simp only [csvRows, ih', hd', if_false]
          split <;> simp [runRows]

theorem csvRows_runs (sel : Sel) (recs : List Rec) :
    csvRows sel none recs = (runs recs).flatMap (runRows sel) := by
  rw [csvRows_runs_gen]
  cases h : runs recs with
  | nil => simp
  | cons g gs =>
    cases g with
    | nil => exact absurd rfl (runs_ne_nil recs [] (by rw [h]; exact List.mem_cons_self))
    | cons r g2 => simp [List.flatMap_cons]

/-! ### the CSV reader: `dict(zip(fields, row))` -/

theorem lookup_of_unique (l : List (Name × Cell)) (k : Name) (v : Cell) (hmem : (k, v) ∈ l)
    (huniq : ∀ q ∈ l, q.1 = k → q.2 = v) : lookup l k = some v := by
  induction l with
  | nil => cases hmem
  | cons q rest ih =>
    by_cases hq : q.1 = k
    · have := huniq q List.mem_cons_self hq
      simp [lookup, hq, this]
    · have hmem' : (k, v) ∈ rest := by
        rcases List.mem_cons.mp hmem with h | h
        · exact absurd (by rw [← h]) hq
        · exact h
      have := ih hmem' (fun q' hq' => huniq q' (List.mem_cons_of_mem _ hq'))
      simp only [lookup, List.find?_cons] at this ⊢
      have hne : (q.1 == k) = false := by simpa using hq
      rw [hne]; exact this

theorem unique_of_nodup_keys (ps : List (Name × Cell)) (h : (ps.map (·.1)).Nodup) (k : Name) (v : Cell)
    (hmem : (k, v) ∈ ps) : ∀ q ∈ ps, q.1 = k → q.2 = v := by
  induction ps with
  | nil => cases hmem
  | cons p rest ih =>
    simp only [List.map_cons, List.nodup_cons] at h
    obtain ⟨hnotin, hrest⟩ := h
    intro q hq hk
    rcases List.mem_cons.mp hmem with h1 | h1 <;> rcases List.mem_cons.mp hq with h2 | h2
    · rw [h2, ← h1]
    · exfalso; apply hnotin
      have : p.1 = k := by rw [← h1]
      rw [this, ← hk]; exact List.mem_map.mpr ⟨q, h2, rfl⟩
    · exfalso; apply hnotin
      have : p.1 = k := by rw [← h2]; exact hk
      rw [this]; exact List.mem_map.mpr ⟨(k, v), h1, rfl⟩
    · exact ih hrest h1 q h2 hk

theorem zip_lookup (hdr : List Name) (row : Row) (hn : hdr.Nodup) (hlen : row.length = hdr.length) :
    hdr.map (fun n => lookup (hdr.zip row).reverse n) = row.map some := by
  have hfst : (hdr.zip row).map (·.1) = hdr := List.map_fst_zip (by omega)
  have hsnd : (hdr.zip row).map (·.2) = row := List.map_snd_zip (by omega)
  have hkeys : ((hdr.zip row).map (·.1)).Nodup := by rw [hfst]; exact hn
  have key : ∀ p ∈ hdr.zip row, lookup (hdr.zip row).reverse p.1 = some p.2 := by
    intro p hp
    apply lookup_of_unique
    · exact List.mem_reverse.mpr hp
    · intro q hq hk
      exact unique_of_nodup_keys (hdr.zip row) hkeys p.1 p.2 hp q (List.mem_reverse.mp hq) hk
  calc hdr.map (fun n => lookup (hdr.zip row).reverse n)
      = ((hdr.zip row).map (·.1)).map (fun n => lookup (hdr.zip row).reverse n) := by rw [hfst]
    _ = (hdr.zip row).map (fun p => lookup (hdr.zip row).reverse p.1) := by simp [List.map_map]
    _ = (hdr.zip row).map (fun p => some p.2) := List.map_congr_left key
    _ = ((hdr.zip row).map (·.2)).map some := by simp [List.map_map]
    _ = row.map some := by rw [hsnd]

end FlowRecord.Csv
