import FlowRecord.Model.Coerce
/-!
Lemmas for C05: every constructor returns a value of its own class; the slot-wise invariant is kept by the record
operations.
-/
namespace FlowRecord.Coerce
open FlowRecord

theorem bind_ok {ε α β : Type} (x : Except ε α) (f : α → Except ε β) (b : β) (h : (x >>= f) = .ok b) :
    ∃ a, x = .ok a ∧ f a = .ok b := by
  cases x with
  | error e => simp [bind, Except.bind] at h
  | ok a => exact ⟨a, rfl, h⟩

theorem dtOfLib_hasType (r : LibRes) (v : FVal) (h : dtOfLib r = .ok v) : hasTypeBT .datetime v = true := by
  cases r <;> simp [dtOfLib] at h <;> subst h <;> rfl

theorem objOfLib_eq (c : ObjCls) (fn : String) (x : Inp) (v : FVal) (h : objOfLib c fn x = .ok v) :
    ∃ r, v = .obj c r := by
  unfold objOfLib at h
  cases hr : x.ann.get fn <;> simp [hr] at h <;> exact ⟨_, h.symm⟩

/-- every scalar constructor returns an instance of its own class -/
theorem coerceBT_hasType (t : BT) (x : Inp) (v : FVal) (h : coerceBT t x = .ok v) : hasTypeBT t v = true := by
  cases t with
  | boolean =>
    simp only [coerceBT] at h
    obtain ⟨_, _, h⟩ := bind_ok _ _ _ h
    obtain ⟨ok, _, h⟩ := bind_ok _ _ _ h
    cases ok <;> simp [pure, Except.pure, throw, throwThe, MonadExceptOf.throw] at h
    subst h; rfl
  | uint c =>
    simp only [coerceBT] at h
    obtain ⟨n, _, h⟩ := bind_ok _ _ _ h
    cases hb : uBounds c with
    | mk lo rest =>
      cases rest with
      | mk hi fr =>
        simp only [hb] at h
        obtain ⟨ok, _, h⟩ := bind_ok _ _ _ h
        cases ok <;> simp [pure, Except.pure, throw, throwThe, MonadExceptOf.throw] at h
        subst h; simp [hasTypeBT]
  | intLike c =>
    simp only [coerceBT] at h
    obtain ⟨n, _, h⟩ := bind_ok _ _ _ h
    simp [pure, Except.pure] at h
    subst h; simp [hasTypeBT]
  | float =>
    have key : ∀ a : Ann, (match a.get "float" with
        | .tok t => (Except.ok (FVal.float t) : Except Err FVal) | .err e => .error (.lib e) | _ => .error .typeError) = .ok v →
        hasTypeBT .float v = true := by
      intro a h
      split at h <;> simp at h
      subst h; rfl
    cases x <;> simp only [coerceBT] at h <;> first | exact key _ h | cases h
  | string =>
    simp only [coerceBT] at h
    obtain ⟨s, _, h⟩ := bind_ok _ _ _ h
    simp [pure, Except.pure] at h
    subst h; rfl
  | uri =>
    simp only [coerceBT] at h
    obtain ⟨s, _, h⟩ := bind_ok _ _ _ h
    split at h
    · simp [throw, throwThe, MonadExceptOf.throw] at h
    · simp [pure, Except.pure] at h; subst h; rfl
  | bytes =>
    simp only [coerceBT] at h
    split at h
    · simp at h; subst h; rfl
    · split at h <;> cases h
  | datetime =>
    simp only [coerceBT] at h
    split at h
    all_goals first
      | exact dtOfLib_hasType _ _ h
      | (simp at h; subst h; rfl)
      | cases h
  | digest =>
    simp only [coerceBT] at h
    split at h
    · obtain ⟨m, _, h⟩ := bind_ok _ _ _ h
      obtain ⟨s1, _, h⟩ := bind_ok _ _ _ h
      obtain ⟨s2, _, h⟩ := bind_ok _ _ _ h
      simp [pure, Except.pure] at h; subst h; rfl
    · obtain ⟨m, _, h⟩ := bind_ok _ _ _ h
      obtain ⟨s1, _, h⟩ := bind_ok _ _ _ h
      obtain ⟨s2, _, h⟩ := bind_ok _ _ _ h
      simp [pure, Except.pure] at h; subst h; rfl
    · cases h
    · cases h
    · simp at h; subst h; rfl
    · simp at h; subst h; rfl
  | path => obtain ⟨r, rfl⟩ := objOfLib_eq _ _ _ _ h; rfl
  | command =>
    simp only [coerceBT] at h
    split at h
    · obtain ⟨r, rfl⟩ := objOfLib_eq _ _ _ _ h; rfl
    · cases h
  | ipaddress => obtain ⟨r, rfl⟩ := objOfLib_eq _ _ _ _ h; rfl
  | ipnetwork => obtain ⟨r, rfl⟩ := objOfLib_eq _ _ _ _ h; rfl
  | ipv4Address =>
    simp only [coerceBT] at h
    split at h
    · simp at h; subst h; rfl
    · simp at h; subst h; rfl
    · obtain ⟨r, rfl⟩ := objOfLib_eq _ _ _ _ h; rfl
  | ipv4Subnet =>
    simp only [coerceBT] at h
    split at h
    · obtain ⟨r, rfl⟩ := objOfLib_eq _ _ _ _ h; rfl
    · cases h
  | stringlist =>
    simp only [coerceBT] at h
    split at h <;> simp at h
    subst h; rfl
  | dictlist =>
    simp only [coerceBT] at h
    split at h <;> simp at h
    subst h; rfl
  | record => simp [hasTypeBT]
  | dynamic =>
    simp only [coerceBT] at h
    split at h
    all_goals first
      | (simp at h; subst h; rfl)
      | (obtain ⟨r, rfl⟩ := objOfLib_eq _ _ _ _ h; rfl)
      | cases h

theorem coerceElems_all (t : BT) : ∀ (xs : List Inp) (vs : List FVal), coerceElems t xs = .ok vs →
    vs.all (hasTypeBT t) = true := by
  intro xs
  induction xs with
  | nil => intro vs h; simp [coerceElems] at h; subst h; rfl
  | cons x xs ih =>
    intro vs h
    simp only [coerceElems] at h
    obtain ⟨v, hv, h⟩ := bind_ok _ _ _ h
    obtain ⟨vs', hvs, h⟩ := bind_ok _ _ _ h
    simp [pure, Except.pure] at h
    subst h
    simp [coerceBT_hasType t x v hv, ih vs' hvs]

/-- every constructor (scalar or typed list) returns a value of the declared type -/
theorem coerce_hasType (t : FType) (x : Inp) (v : FVal) (h : coerce t x = .ok v) : hasType t v = true := by
  cases t with
  | scalar t => exact coerceBT_hasType t x v h
  | list t =>
    simp only [coerce] at h
    split at h
    · simp at h; subst h; simp [hasType]
    · split at h
      · rename_i xs _
        cases hc : coerceElems t xs with
        | error e => simp [hc, Except.map] at h
        | ok vs =>
          simp [hc, Except.map] at h
          subst h
          simp [hasType, coerceElems_all t _ vs hc]
      · cases h

theorem default_okVal (t : FType) : okVal t (default t) = true := by
  cases t with
  | scalar t => cases t <;> simp [default, okVal, hasType, hasTypeBT]
  | list t => simp [default, okVal, hasType]

theorem okVal_of_hasType (t : FType) (v : FVal) (h : hasType t v = true) : okVal t v = true := by
  cases v <;> simp [okVal, h]

theorem initSlot_okVal (t : FType) (x : Inp) (v : FVal) (h : initSlot t x = .ok v) : okVal t v = true := by
  cases x <;> simp only [initSlot] at h <;>
    first
    | (simp at h; subst h; exact default_okVal t)
    | exact okVal_of_hasType t v (coerce_hasType t _ v h)

theorem slotsOk_set : ∀ (ts : List (Str × FType)) (vs : List FVal) (i : Nat) (k : Str) (t : FType) (fv : FVal),
    slotsOk ts vs = true → ts[i]? = some (k, t) → okVal t fv = true → slotsOk ts (vs.set i fv) = true := by
  intro ts
  induction ts with
  | nil => intro vs i k t fv _ hi; simp at hi
  | cons p ts ih =>
    intro vs i k t fv hok hi hv
    cases vs with
    | nil => simp [slotsOk] at hok
    | cons v vs =>
      obtain ⟨k0, t0⟩ := p
      simp only [slotsOk, Bool.and_eq_true] at hok
      cases i with
      | zero =>
        simp only [List.getElem?_cons_zero, Option.some.injEq, Prod.mk.injEq] at hi
        obtain ⟨-, rfl⟩ := hi
        simp [List.set, slotsOk, hv, hok.2]
      | succ i =>
        simp only [List.getElem?_cons_succ] at hi
        simp [List.set, slotsOk, hok.1, ih vs i k t fv hok.2 hi hv]

theorem initSlots_ok : ∀ (ts : List (Str × FType)) (args : List Inp) (vs : List FVal),
    initSlots ts args = .ok vs → slotsOk ts vs = true := by
  intro ts
  induction ts with
  | nil => intro args vs h; simp [initSlots] at h; subst h; rfl
  | cons p ts ih =>
    intro args vs h
    obtain ⟨k, t⟩ := p
    cases args with
    | nil =>
      simp only [initSlots] at h
      obtain ⟨v, hv, h⟩ := bind_ok _ _ _ h
      obtain ⟨vs', hvs, h⟩ := bind_ok _ _ _ h
      simp [pure, Except.pure] at h; subst h
      simp [slotsOk, initSlot_okVal t _ v hv, ih [] vs' hvs]
    | cons x xs =>
      simp only [initSlots] at h
      obtain ⟨v, hv, h⟩ := bind_ok _ _ _ h
      obtain ⟨vs', hvs, h⟩ := bind_ok _ _ _ h
      simp [pure, Except.pure] at h; subst h
      simp [slotsOk, initSlot_okVal t _ v hv, ih xs vs' hvs]

theorem replaceSlots_ok (kvs : List (Str × Inp)) : ∀ (ts : List (Str × FType)) (vs vs' : List FVal),
    slotsOk ts vs = true → replaceSlots ts vs kvs = .ok vs' → slotsOk ts vs' = true := by
  intro ts
  induction ts with
  | nil =>
    intro vs vs' hok h
    cases vs with
    | nil => simp [replaceSlots] at h; subst h; rfl
    | cons v vs => simp [slotsOk] at hok
  | cons p ts ih =>
    intro vs vs' hok h
    obtain ⟨k, t⟩ := p
    cases vs with
    | nil => simp [slotsOk] at hok
    | cons v vs =>
      simp only [slotsOk, Bool.and_eq_true] at hok
      simp only [replaceSlots] at h
      obtain ⟨nv, hnv, h⟩ := bind_ok _ _ _ h
      obtain ⟨rest, hrest, h⟩ := bind_ok _ _ _ h
      simp [pure, Except.pure] at h; subst h
      have hn : okVal t nv = true := by
        split at hnv
        · exact initSlot_okVal t _ nv hnv
        · split at hnv
          · simp at hnv; subst hnv; exact default_okVal t
          · simp at hnv; subst hnv; exact hok.1
      simp [slotsOk, hn, ih vs rest hok.2 hrest]

end FlowRecord.Coerce
