import FlowRecord.Model.Selector.Ref
import FlowRecordProofs.Lemmas.SelectorAgree
/-!
C07, compiled engine: `CompiledSelector.match` is Python's `eval` in the namespace {helpers, `net`, `r` ↦ wrapped
record, `Type`} + builtins. In the model that is `refEval` with `compiled := true`; the documented meaning over the
record's field values is `refEval` with `compiled := false`. The two differ in: which global names exist, whether a
missing attribute of the record is the sentinel or undefined, whether the sentinel may reach arithmetic /
membership, dunder attributes, and which callables may be called. `SupportedC` is the documented grammar restricted
to the names both namespaces bind; on it the two agree whenever the documented meaning is `Good`.
-/
namespace FlowRecord.Selector
open FlowRecord

/-- callables bound under the same name in both namespaces -/
def callableCommon : List String := Gen.FUNCTION_WHITELIST ++ pyBuiltinsModelled
/-- global names bound to the same object in both namespaces -/
def commonNames : List String := ["r", "Type"] ++ callableCommon

inductive SupportedC : List String → Expr → Prop
  | const (b c) : SupportedC b (.const c)
  | list (b es) : (∀ e ∈ es, SupportedC b e) → SupportedC b (.list es)
  | tuple (b es) : (∀ e ∈ es, SupportedC b e) → SupportedC b (.tuple es)
  | name (b id) : (id ∈ b ∨ commonNames.contains id = true) → SupportedC b (.name id)
  | attr (b v a) : hasPrefix "__" a = false → SupportedC b v → SupportedC b (.attr v a)
  | boolop (b op vs) : (∀ e ∈ vs, SupportedC b e) → SupportedC b (.boolop op vs)
  | binop (b op l r) : SupportedC b l → SupportedC b r → SupportedC b (.binop op l r)
  | unary (b op x) : SupportedC b x → SupportedC b (.unary op x)
  | compare (b l rest) : SupportedC b l → (∀ p ∈ rest, SupportedC b p.2) → SupportedC b (.compare l rest)
  | call (b fname args kwargs) : callableCommon.contains fname = true → fname ∉ b →
      (∀ a ∈ args, SupportedC b a) → (∀ k ∈ kwargs, SupportedC b k.2) →
      SupportedC b (.call (.name fname) args kwargs)
  | callGen (b fname c elt x iter ifs) : callableCommon.contains fname = true → fname ∉ b →
      consumerOf fname = some c → SupportedC b iter → (∀ i ∈ ifs, SupportedC (x :: b) i) → SupportedC (x :: b) elt →
      SupportedC b (.call (.name fname) [.genexp elt [(some x, iter, ifs)]] [])

variable {P : Prim} {R1 R2 : Env → Expr → Except Err PVal}

def AgreeC (R1 R2 : Env → Expr → Except Err PVal) : Prop :=
  ∀ env e, SupportedC (keys env) e → Good (R2 env e) → R1 env e = R2 env e

theorem ebind_congr {α β : Type} {r1 r2 : Except Err α} {g1 g2 : α → Except Err β}
    (hr : Good r2 → r1 = r2) (hg : ∀ a, r2 = .ok a → Good (g2 a) → g1 a = g2 a) (hG : Good (r2 >>= g2)) :
    (r1 >>= g1) = (r2 >>= g2) := by
  cases r2 with
  | error e =>
    rw [hr (good_of_err hG)]
    rfl
  | ok a =>
    rw [hr (good_ok a)]
    exact hg a rfl hG

theorem c_list (hA : AgreeC R1 R2) (env : Env) (es : List Expr) (hS : ∀ e ∈ es, SupportedC (keys env) e)
    (hG : Good (rList R2 env es)) : rList R1 env es = rList R2 env es := by
  induction es with
  | nil => rfl
  | cons e es ih =>
    unfold rList at hG ⊢
    refine ebind_congr (hA env e (hS e (by simp))) (fun v _ hG' => ?_) hG
    refine ebind_congr (ih (fun x hx => hS x (by simp [hx]))) (fun vs _ _ => rfl) hG'

theorem c_kwargs (hA : AgreeC R1 R2) (env : Env) (es : List (String × Expr))
    (hS : ∀ k ∈ es, SupportedC (keys env) k.2) (hG : Good (rKwargs R2 env es)) :
    rKwargs R1 env es = rKwargs R2 env es := by
  induction es with
  | nil => rfl
  | cons ke es ih =>
    obtain ⟨k, e⟩ := ke
    unfold rKwargs at hG ⊢
    refine ebind_congr (hA env e (hS (k, e) (by simp))) (fun v _ hG' => ?_) hG
    refine ebind_congr (ih (fun x hx => hS x (by simp [hx]))) (fun vs _ _ => rfl) hG'

theorem c_bool (hA : AgreeC R1 R2) (env : Env) (isOr : Bool) (es : List Expr) (last : PVal)
    (hS : ∀ e ∈ es, SupportedC (keys env) e) (hG : Good (rBool P R2 env isOr es last)) :
    rBool P R1 env isOr es last = rBool P R2 env isOr es last := by
  induction es generalizing last with
  | nil => rfl
  | cons e es ih =>
    unfold rBool at hG ⊢
    refine ebind_congr (hA env e (hS e (by simp))) (fun v _ hG' => ?_) hG
    by_cases ht : (P.truthy v == isOr) = true
    · simp [ht]
    · simp only [ht] at hG' ⊢
      exact ih v (fun x hx => hS x (by simp [hx])) hG'

/-- one comparison link: the documented meaning refuses the sentinel / a typed matcher in membership, Python does not -/
theorem c_compare (rec : PVal) (op : String) (l r : PVal)
    (hG : Good (rCompare P { compiled := false, record := rec } op l r)) :
    rCompare P { compiled := true, record := rec } op l r = rCompare P { compiled := false, record := rec } op l r := by
  unfold rCompare at hG ⊢
  cases hd : docCmp op with
  | none => rfl
  | some impl =>
    rw [hd] at hG
    cases impl <;> simp only [Bool.not_true, Bool.false_and, Bool.false_eq_true, if_false, Bool.not_false, Bool.true_and] at hG ⊢
    all_goals
      by_cases hm : (l.isMissing || r.isMissing || l.isTmatch) = true
      · simp only [hm, if_true] at hG
        exact absurd (hG _ rfl) (by simp [Bad])
      · simp [hm]

theorem c_chain (rec : PVal) (hA : AgreeC R1 R2) (env : Env) (rest : List (String × Expr)) (left result : PVal)
    (hS : ∀ p ∈ rest, SupportedC (keys env) p.2)
    (hG : Good (rChain P { compiled := false, record := rec } R2 env left rest result)) :
    rChain P { compiled := true, record := rec } R1 env left rest result
      = rChain P { compiled := false, record := rec } R2 env left rest result := by
  induction rest generalizing left result with
  | nil => rfl
  | cons oc rest ih =>
    obtain ⟨op, c⟩ := oc
    unfold rChain at hG ⊢
    refine ebind_congr (hA env c (hS (op, c) (by simp))) (fun right _ hG' => ?_) hG
    refine ebind_congr (c_compare rec op left right) (fun res _ hG'' => ?_) hG'
    by_cases ht : (!P.truthy res) = true
    · simp [ht]
    · simp only [ht] at hG'' ⊢
      exact ih right res (fun p hp => hS p (by simp [hp])) hG''

theorem c_ifs (hA : AgreeC R1 R2) (env : Env) (cs : List Expr) (hS : ∀ e ∈ cs, SupportedC (keys env) e)
    (hG : Good (rIfs P R2 env cs)) : rIfs P R1 env cs = rIfs P R2 env cs := by
  induction cs with
  | nil => rfl
  | cons c cs ih =>
    unfold rIfs at hG ⊢
    refine ebind_congr (hA env c (hS c (by simp))) (fun v _ hG' => ?_) hG
    by_cases ht : P.truthy v = true
    · simp only [ht, if_true] at hG' ⊢
      exact ih (fun x hx => hS x (by simp [hx])) hG'
    · simp [ht]

theorem c_forVals (b1 b2 : PVal → Except Err (Option Bool)) (hb : ∀ v, Good (b2 v) → b1 v = b2 v) (vals : List PVal)
    (hG : Good (rForVals b2 vals)) : rForVals b1 vals = rForVals b2 vals := by
  induction vals with
  | nil => rfl
  | cons v vs ih =>
    unfold rForVals at hG ⊢
    refine ebind_congr (hb v) (fun o _ hG' => ?_) hG
    cases o with
    | some b => rfl
    | none => exact ih hG'

theorem keys_cons (x : String) (v : PVal) (env : Env) : keys ((x, v) :: env) = x :: keys env := rfl

theorem c_loop1 (rec : PVal) (hA : AgreeC R1 R2) (c : Consumer) (elt : Expr) (x : String) (iter : Expr)
    (ifs : List Expr) (env : Env) (hSit : SupportedC (keys env) iter)
    (hSi : ∀ i ∈ ifs, SupportedC (x :: keys env) i) (hSe : SupportedC (x :: keys env) elt)
    (hG : Good (rLoop P { compiled := false, record := rec } R2 c elt [(some x, iter, ifs)] env)) :
    rLoop P { compiled := true, record := rec } R1 c elt [(some x, iter, ifs)] env
      = rLoop P { compiled := false, record := rec } R2 c elt [(some x, iter, ifs)] env := by
  unfold rLoop at hG ⊢
  simp only [Bool.not_true, Bool.false_and, Bool.false_eq_true, if_false, Bool.not_false, Bool.true_and] at hG ⊢
  refine ebind_congr (hA env iter hSit) (fun itv _ hG' => ?_) hG
  by_cases hm : itv.isMissing = true
  · simp only [hm, if_true] at hG'
    exact absurd (hG' _ rfl) (by simp [Bad])
  · simp only [hm, Bool.false_eq_true, if_false] at hG' ⊢
    refine ebind_congr (fun _ => rfl) (fun vals _ hG'' => ?_) hG'
    refine c_forVals _ _ (fun val hGv => ?_) vals hG''
    refine ebind_congr (c_ifs hA _ ifs (fun i hi => by rw [keys_cons]; exact hSi i hi)) (fun b _ hGb => ?_) hGv
    cases b with
    | false => rfl
    | true =>
      simp only [if_true] at hGb ⊢
      unfold rLoop at hGb ⊢
      exact ebind_congr (hA _ elt (by rw [keys_cons]; exact hSe)) (fun _ _ _ => rfl) hGb

/-- Inst: every callable common to both namespaces is an allowed call of the interpreted engine, is not one of the
    specially bound names, and is bound in the matcher namespace -/
theorem callableCommon_facts : ∀ n ∈ callableCommon,
    (n == "r") = false ∧ (n == "Type") = false ∧ (n == "net") = false ∧
    (Gen.FUNCTION_WHITELIST.contains n || pyBuiltinsModelled.contains n) = true ∧
    allowedCalls.contains n = true ∧ baseKeys.contains n = true ∧
    (n == "None") = false ∧ (n == "True") = false ∧ (n == "False") = false ∧ hasPrefix "__" n = false := by
  decide

theorem resolve_name (s : String) : resolveAttrPath (.name s) = some s := by
  simp [resolveAttrPath, attrChain, joinDots]

/-- the call target is the same handle in both namespaces -/
theorem c_target (rec : PVal) (env : Env) (fname : String) (args : List Expr) (kwargs : List (String × Expr))
    (hc : callableCommon.contains fname = true) (hb : fname ∉ keys env) :
    rTarget P { compiled := true, record := rec } R1 env (.name fname) args kwargs
      = .ok (.builtin fname, consumedGenexp fname args kwargs) ∧
    rTarget P { compiled := false, record := rec } R2 env (.name fname) args kwargs
      = .ok (.builtin fname, consumedGenexp fname args kwargs) := by
  obtain ⟨h1, h2, h3, h4, h5, _, _⟩ := callableCommon_facts fname (by simpa using hc)
  have h4' : fname ∈ Gen.FUNCTION_WHITELIST ∨ fname ∈ pyBuiltinsModelled := by simpa using h4
  have h5' : fname ∈ allowedCalls := by simpa using h5
  constructor
  · simp [rTarget, lookup_none_of_not_mem hb, refName, h1, h2, h3, h4', bind, Except.bind, pure, Except.pure]
  · simp [rTarget, resolve_name, h5']

theorem c_call (rec : PVal) (hA : AgreeC R1 R2) (env : Env) (func : Expr) (args : List Expr)
    (kwargs : List (String × Expr)) (hS : SupportedC (keys env) (.call func args kwargs))
    (hG : Good (rCall P { compiled := false, record := rec } R2 env func args kwargs)) :
    rCall P { compiled := true, record := rec } R1 env func args kwargs
      = rCall P { compiled := false, record := rec } R2 env func args kwargs := by
  cases hS with
  | call _ fname _ _ hc hb hSa hSk =>
    obtain ⟨t1, t2⟩ := c_target (P := P) (R1 := R1) (R2 := R2) rec env fname args kwargs hc hb
    unfold rCall at hG ⊢
    rw [t2] at hG
    rw [t1, t2]
    simp only [bind, Except.bind] at hG ⊢
    cases hcg : consumedGenexp fname args kwargs with
    | some t =>
      -- impossible: an argument list of supported expressions holds no bare generator expression
      exfalso
      cases args with
      | nil => simp [consumedGenexp] at hcg
      | cons a rest =>
        have ha := hSa a (by simp)
        cases ha <;> simp [consumedGenexp] at hcg
    | none =>
      rw [hcg] at hG
      simp only at hG ⊢
      refine ebind_congr (c_list hA env args hSa) (fun a _ hG' => ?_) hG
      exact ebind_congr (c_kwargs hA env kwargs hSk) (fun k _ _ => rfl) hG'
  | callGen _ fname c elt x iter ifs hc hb hcons hSit hSi hSe =>
    obtain ⟨t1, t2⟩ := c_target (P := P) (R1 := R1) (R2 := R2) rec env fname
      [.genexp elt [(some x, iter, ifs)]] [] hc hb
    have hcg : consumedGenexp fname [.genexp elt [(some x, iter, ifs)]] [] = some (c, elt, [(some x, iter, ifs)]) := by
      simp [consumedGenexp, hcons]
    unfold rCall at hG ⊢
    rw [t2] at hG
    rw [t1, t2]
    simp only [bind, Except.bind, hcg] at hG ⊢
    have := c_loop1 (P := P) rec hA c elt x iter ifs env hSit hSi hSe (by
      intro e he
      rw [he] at hG
      exact hG e rfl)
    rw [this]

theorem lookup_some_of_mem {x : String} {env : Env} (h : x ∈ keys env) : ∃ v, env.lookup x = some v := by
  induction env with
  | nil => simp [keys] at h
  | cons p env ih =>
    obtain ⟨k, v⟩ := p
    by_cases hk : x = k
    · exact ⟨v, by simp [List.lookup, hk]⟩
    · have : x ∈ keys env := by simpa [keys, hk] using h
      obtain ⟨w, hw⟩ := ih this
      have hb : (x == k) = false := by simpa using hk
      exact ⟨w, by simp [List.lookup, hb, hw]⟩

theorem c_name (rec : PVal) (env : Env) (id : String) (h : id ∈ keys env ∨ commonNames.contains id = true) :
    (match env.lookup id with
     | some v => Except.ok v
     | none =>
       if !({ compiled := true, record := rec } : RefCfg).compiled && !(baseKeys.contains id) && hasPrefix "__" id
       then Except.error Err.invalidOp else refName P { compiled := true, record := rec } id)
    = (match env.lookup id with
       | some v => Except.ok v
       | none =>
         if !({ compiled := false, record := rec } : RefCfg).compiled && !(baseKeys.contains id) && hasPrefix "__" id
         then Except.error Err.invalidOp else refName P { compiled := false, record := rec } id) := by
  cases hl : env.lookup id with
  | some v => rfl
  | none =>
    rcases h with h | h
    · obtain ⟨v, hv⟩ := lookup_some_of_mem h
      rw [hl] at hv
      cases hv
    · simp only [commonNames, List.cons_append, List.nil_append, List.contains_cons, Bool.or_eq_true, beq_iff_eq] at h
      rcases h with h | h | h
      · subst h
        have hb : "r" ∈ baseKeys := by decide
        simp [refName, hb, baseVal]
      · subst h
        have hb : "Type" ∈ baseKeys := by decide
        simp [refName, hb, baseVal]
      · obtain ⟨h1, h2, h3, h4, _, h6, h7, h8, h9, _⟩ := callableCommon_facts id (by simpa using h)
        have h4' : id ∈ Gen.FUNCTION_WHITELIST ∨ id ∈ pyBuiltinsModelled := by simpa using h4
        have h6' : id ∈ baseKeys := by simpa using h6
        simp [refName, h1, h2, h3, h4', h6', baseVal, h7, h8, h9]

theorem c_step (rec : PVal) (hA : AgreeC R1 R2) (env : Env) (e : Expr) (hS : SupportedC (keys env) e)
    (hG : Good (refStep P { compiled := false, record := rec } R2 env e)) :
    refStep P { compiled := true, record := rec } R1 env e = refStep P { compiled := false, record := rec } R2 env e := by
  unfold refStep at hG ⊢
  cases hS with
  | const _ c => rfl
  | list _ es h => exact ebind_congr (c_list hA env es h) (fun _ _ _ => rfl) hG
  | tuple _ es h => exact ebind_congr (c_list hA env es h) (fun _ _ _ => rfl) hG
  | name _ id h => exact c_name rec env id h
  | attr _ v a ha hv =>
    simp only [ha, Bool.and_false, Bool.false_eq_true, if_false, Bool.not_true, Bool.false_and, Bool.not_false,
      Bool.true_and] at hG ⊢
    refine ebind_congr (hA env v hv) (fun obj _ hG' => ?_) hG
    cases hg : P.getattr obj a with
    | some r => rfl
    | none =>
      rw [hg] at hG'
      exact absurd (hG' _ rfl) (by simp [Bad])
  | boolop _ op vs h => exact c_bool hA env _ vs _ h hG
  | binop _ op l r hl hr =>
    simp only [Bool.not_true, Bool.false_and, Bool.false_eq_true, if_false, Bool.not_false, Bool.true_and] at hG ⊢
    refine ebind_congr (hA env l hl) (fun lv _ hG' => ?_) hG
    refine ebind_congr (hA env r hr) (fun rv _ hG'' => ?_) hG'
    by_cases hm : (lv.isMissing || rv.isMissing) = true
    · simp only [hm, if_true] at hG''
      exact absurd (hG'' _ rfl) (by simp [Bad])
    · simp [hm]
  | unary _ op x hx =>
    by_cases ho : (op == "Not") = true
    · simp only [ho, if_true] at hG ⊢
      exact ebind_congr (hA env x hx) (fun _ _ _ => rfl) hG
    · simp [ho]
  | compare _ l rest hl hrest =>
    refine ebind_congr (hA env l hl) (fun lv _ hG' => ?_) hG
    exact c_chain rec hA env rest lv _ hrest hG'
  | call _ fname args kwargs h1 h2 h3 h4 => exact c_call rec hA env _ _ _ (.call _ _ _ _ h1 h2 h3 h4) hG
  | callGen _ fname c elt x iter ifs h1 h2 h3 h4 h5 h6 =>
    exact c_call rec hA env _ _ _ (.callGen _ _ c elt x iter ifs h1 h2 h3 h4 h5 h6) hG

/-- The compiled namespace view and the documented meaning agree, by induction on the evaluation depth. -/
theorem agreeC_ref (P : Prim) (rec : PVal) (fuel : Nat) :
    AgreeC (refEval P { compiled := true, record := rec } fuel) (refEval P { compiled := false, record := rec } fuel) := by
  induction fuel with
  | zero => intro env e _ _; rfl
  | succ n ih => intro env e hS hG; exact c_step rec ih env e hS hG

end FlowRecord.Selector
