import FlowRecord.Model.Stream
/-! Registry lemmas (C03): lookups after registration, writer and reader registries stay equal. -/
namespace FlowRecord.Stream
open FlowRecord FlowRecord.Wire

theorem lookup_regInsert_self (reg : Registry) (d : Desc) : lookup (regInsert reg d) d.name d.hash = some d := by
  simp [lookup, regInsert, List.find?]

theorem lookup_regInsert_other (reg : Registry) (d : Desc) (name : Utf8.PyStr) (hash : Nat)
    (h : ¬ (name = d.name ∧ hash = d.hash)) :
    lookup (regInsert reg d) name hash = lookup reg name hash := by
  unfold lookup regInsert
  have h1 : ((d.name == name) && (d.hash == hash)) = false := by
    by_cases a : d.name = name <;> by_cases b : d.hash = hash <;> simp_all
  simp only [List.find?, h1]
  congr 1
  induction reg with
  | nil => rfl
  | cons e es ih =>
    simp only [List.filter]
    by_cases he : (e.1.1 == d.name && e.1.2 == d.hash) = true
    · simp only [he, Bool.not_true]
      have : (e.1.1 == name && e.1.2 == hash) = false := by
        simp only [Bool.and_eq_true, beq_iff_eq] at he
        by_cases a : e.1.1 = name <;> by_cases b : e.1.2 = hash <;> simp_all
      simp only [List.find?, this]
      exact ih
    · simp only [Bool.not_eq_true] at he
      simp only [he, Bool.not_false, List.find?]
      split
      · rfl
      · exact ih


theorem needsRegister_false (hg : Gen.writerGuardKind = "descriptor-comparison") (reg : Registry) (d : Desc)
    (h : needsRegister reg d = false) : lookup reg d.name d.hash = some d := by
  unfold needsRegister at h
  cases hl : lookup reg d.name d.hash with
  | none => simp [hl] at h
  | some d' =>
    simp only [hl, hg, beq_self_eq_true, if_true, Bool.not_eq_false', decide_eq_true_eq] at h
    rw [h]

/-- a binding survives the registration of descriptors that do not collide with it (or are the same descriptor) -/
theorem lookup_newDescs_preserved (ds : List Desc) (reg : Registry) (d : Desc)
    (hl : lookup reg d.name d.hash = some d)
    (hc : ∀ d' ∈ ds, d'.name = d.name → d'.hash = d.hash → d' = d) :
    lookup (newDescs reg ds).1 d.name d.hash = some d := by
  induction ds generalizing reg with
  | nil => simpa [newDescs] using hl
  | cons x xs ih =>
    simp only [newDescs]
    split
    · -- x is registered
      have hx : lookup (regInsert reg x) d.name d.hash = some d := by
        by_cases hcol : d.name = x.name ∧ d.hash = x.hash
        · have : x = d := hc x (by simp) hcol.1.symm hcol.2.symm
          subst this; exact lookup_regInsert_self reg x
        · rw [lookup_regInsert_other reg x _ _ hcol]; exact hl
      have := ih (regInsert reg x) hx (fun d' hd' => hc d' (by simp [hd']))
      simpa using this
    · exact ih reg hl (fun d' hd' => hc d' (by simp [hd']))

/-- after packing an object, every descriptor it needs is bound to itself in the writer's registry -/
theorem lookup_after_newDescs (hg : Gen.writerGuardKind = "descriptor-comparison") (ds : List Desc) (reg : Registry)
    (hn : NoInnerCollision ds) :
    ∀ d ∈ ds, lookup (newDescs reg ds).1 d.name d.hash = some d := by
  induction ds generalizing reg with
  | nil => intro d hd; simp at hd
  | cons x xs ih =>
    intro d hd
    have hnx : NoInnerCollision xs := fun a ha b hb => hn a (by simp [ha]) b (by simp [hb])
    simp only [newDescs]
    rcases List.mem_cons.mp hd with rfl | hd'
    · -- d is the head
      have hc : ∀ d' ∈ xs, d'.name = d.name → d'.hash = d.hash → d' = d :=
        fun d' hd' h1 h2 => hn d' (by simp [hd']) d (by simp) h1 h2
      split
      · have := lookup_newDescs_preserved xs (regInsert reg d) d (lookup_regInsert_self reg d) hc
        simpa using this
      · rename_i hnr
        have hnr' : needsRegister reg d = false := by simpa using hnr
        exact lookup_newDescs_preserved xs reg d (needsRegister_false hg reg d hnr') hc
    · split
      · have := ih (regInsert reg x) hnx d hd'
        simpa using this
      · exact ih reg hnx d hd'

/-- the reader, fed the descriptor frames the writer emitted, ends with the writer's registry -/
theorem consumeReg_newDescs (ds : List Desc) (reg : Registry) (rest : List AFrame) :
    consumeReg reg ((newDescs reg ds).2.map AFrame.desc ++ rest) = consumeReg (newDescs reg ds).1 rest := by
  induction ds generalizing reg with
  | nil => simp [newDescs]
  | cons x xs ih =>
    simp only [newDescs]
    split
    · simp only [List.map_cons, List.cons_append, consumeReg]
      have := ih (regInsert reg x)
      simpa using this
    · exact ih reg

theorem consume_newDescs (ds : List Desc) (reg : Registry) (rest : List AFrame) :
    consume reg ((newDescs reg ds).2.map AFrame.desc ++ rest) = consume (newDescs reg ds).1 rest := by
  induction ds generalizing reg with
  | nil => simp [newDescs]
  | cons x xs ih =>
    simp only [newDescs]
    split
    · simp only [List.map_cons, List.cons_append, consume]
      have := ih (regInsert reg x)
      simpa using this
    · exact ih reg


/-- the whole history: every object is consumed with each of its descriptors bound to itself -/
theorem consume_emitAll (hg : Gen.writerGuardKind = "descriptor-comparison") (os : List PV) (reg : Registry)
    (hn : ∀ o ∈ os, NoInnerCollision (descsOf o)) :
    consume reg (emitAll reg os).2 = os.map (fun o => (o, (descsOf o).map some)) := by
  induction os generalizing reg with
  | nil => simp [emitAll, consume]
  | cons o os ih =>
    simp only [emitAll, emit, List.append_assoc, List.map_cons]
    rw [consume_newDescs]
    simp only [List.cons_append, List.nil_append, consume]
    congr 1
    · congr 1
      apply List.map_congr_left
      intro d hd
      exact lookup_after_newDescs hg (descsOf o) reg (hn o (by simp)) d hd
    · exact ih _ (fun o' ho' => hn o' (by simp [ho']))

/-- the history with failing writes in between: a write that raised leaves only descriptor frames behind, and every
    object whose write succeeded is consumed with each of its descriptors bound to itself -/
theorem consume_emitHist (hg : Gen.writerGuardKind = "descriptor-comparison") (h : List (PV × Option Nat))
    (reg : Registry) (hn : ∀ e ∈ h, e.2 = none → NoInnerCollision (descsOf e.1)) :
    consume reg (emitHist reg h).2 =
      (h.filter (fun e => e.2.isNone)).map (fun e => (e.1, (descsOf e.1).map some)) := by
  induction h generalizing reg with
  | nil => simp [emitHist, consume]
  | cons e os ih =>
    obtain ⟨o, f⟩ := e
    have hos : ∀ e ∈ os, e.2 = none → NoInnerCollision (descsOf e.1) := fun e he => hn e (by simp [he])
    cases f with
    | none =>
      simp only [emitHist, emit, List.append_assoc, List.filter_cons, Option.isNone_none, if_true, List.map_cons]
      rw [consume_newDescs]
      simp only [List.cons_append, List.nil_append, consume]
      congr 1
      · congr 1
        apply List.map_congr_left
        intro d hd
        exact lookup_after_newDescs hg (descsOf o) reg (hn (o, none) (by simp) rfl) d hd
      · exact ih _ hos
    | some k =>
      simp only [emitHist, emitFailed, List.filter_cons, Option.isNone_some]
      rw [consume_newDescs]
      simpa using ih _ hos

theorem consumeReg_emitHist (h : List (PV × Option Nat)) (reg : Registry) :
    consumeReg reg (emitHist reg h).2 = (emitHist reg h).1 := by
  induction h generalizing reg with
  | nil => simp [emitHist, consumeReg]
  | cons e os ih =>
    obtain ⟨o, f⟩ := e
    cases f with
    | none =>
      simp only [emitHist, emit, List.append_assoc]
      rw [consumeReg_newDescs]
      simp only [List.cons_append, List.nil_append, consumeReg]
      exact ih _
    | some k =>
      simp only [emitHist, emitFailed]
      rw [consumeReg_newDescs]
      exact ih _

end FlowRecord.Stream
