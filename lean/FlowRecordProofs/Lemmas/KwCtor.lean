import FlowRecord.Gen.Record
/-!
The constructor generated for record types with a field named like a Python keyword (`*args, **kwargs`): readers that
build records by keyword (JSON, Avro, SQLite, CSV) go through it. Its template is regenerated from the source
(`Gen.tplKwInit`, `Gen.tplKwUnpack`) and compared with the text whose meaning is modelled here.
-/
namespace FlowRecord.KwCtor

/-- `kwargs.get(k, v)`: the keyword argument when the key is PRESENT (whatever its value: 0, "", False, []), else the
    positional value -/
def slotValue {V : Type} (kw : Option V) (pos : V) : V := kw.getD pos

/-- the frozen template lines (the loop assigns `kwargs.get(k, v)`; `_unpack` tests `is not None`, not truthiness) -/
def frozenInit : String :=
  "\t\tfor k, v in _zip_longest(__self.__slots__, args):\n\t\t\tsetattr(__self, k, kwargs.get(k, v))\n\t\t_generated = __self._generated\n"
def frozenUnpack : String :=
  "\t\tvalues = dict([(f, __cls._field_types[f]._unpack(kwargs.get(f, v)) if kwargs.get(f, v) is not None else None) for f, v in _zip_longest(__cls.__slots__, args)])\n\t\treturn __cls(**values)"

theorem template_is_frozen : Gen.tplKwInit = frozenInit ∧ Gen.tplKwUnpack = frozenUnpack := by decide +kernel

/-- a value given by keyword is the value of the slot, also when it is falsy -/
theorem slotValue_keyword {V : Type} (x pos : V) : slotValue (some x) pos = x := rfl

theorem slotValue_positional {V : Type} (pos : V) : slotValue (none : Option V) pos = pos := rfl

end FlowRecord.KwCtor
