import FlowRecordProofs.Lemmas.Sqlite
/-! Several writer sessions on one SQLite file behave like one replay of all their writes. -/
namespace FlowRecord.Sqlite
variable {DT : Type}

theorem writesOf_append_close (E : Env DT) (ops : List (Op DT)) : writesOf E (ops ++ [.close]) = writesOf E ops := by
  induction ops with
  | nil => rfl
  | cons op ops ih => cases op <;> simp [writesOf, ih]

theorem writesOf_append_of_no_close (E : Env DT) (a b : List (Op DT)) (h : Op.close ∉ a) :
    writesOf E (a ++ b) = writesOf E a ++ writesOf E b := by
  induction a with
  | nil => rfl
  | cons op a ih =>
    have h' : Op.close ∉ a := fun hc => h (List.mem_cons_of_mem _ hc)
    cases op with
    | close => exact absurd (List.mem_cons_self) h
    | flush => simpa [writesOf] using ih h'
    | write d vals => simp [writesOf, ih h']

theorem accepted_append (store : String → DbVal → DbVal) (a b : List (Desc × Option (List (Text × DbVal)))) :
    ∀ T : Tables, accepted store T (a ++ b) = (accepted store T a && accepted store (a.foldl (specStep store) T) b) := by
  induction a with
  | nil => intro T; simp [accepted]
  | cons w a ih => intro T; simp [accepted, ih, Bool.and_assoc]

theorem reopen_run_committed (E : Env DT) (s : St) (ops : List (Op DT))
    (hacc : accepted E.store s.committed (writesOf E ops) = true) :
    (run E (reopen s) (ops ++ [.close])).committed = (writesOf E ops).foldl (specStep E.store) s.committed := by
  rw [run_committed_of_close E _ (reopen s) rfl ⟨ops, [], rfl⟩]
  have := run_work E (ops ++ [.close]) (reopen s) rfl (by intro d hd; cases hd)
    (by rw [writesOf_append_close]; exact hacc)
  rw [this, writesOf_append_close]; rfl

/-- sessions compose: the committed database after any number of sessions is the plain replay of all their writes
    onto what was there before -/
theorem runSessions_committed (E : Env DT) (ss : List (List (Op DT))) : ∀ s : St,
    accepted E.store s.committed (sessionWrites E ss) = true →
    (runSessions E s ss).committed = (sessionWrites E ss).foldl (specStep E.store) s.committed := by
  induction ss with
  | nil => intro s _; rfl
  | cons ops ss ih =>
    intro s hacc
    simp only [sessionWrites, List.flatMap_cons] at hacc ⊢
    rw [accepted_append, Bool.and_eq_true] at hacc
    obtain ⟨h1, h2⟩ := hacc
    have hc := reopen_run_committed E s ops h1
    simp only [runSessions, List.foldl_append]
    rw [← hc] at h2 ⊢
    exact ih _ h2

theorem flatMap_writesOf_of_no_close (E : Env DT) (ss : List (List (Op DT))) (h : ∀ ops ∈ ss, Op.close ∉ ops) :
    sessionWrites E ss = writesOf E ss.flatten := by
  induction ss with
  | nil => rfl
  | cons ops ss ih =>
    simp only [sessionWrites, List.flatMap_cons, List.flatten_cons]
    rw [writesOf_append_of_no_close E ops _ (h ops List.mem_cons_self)]
    congr 1
    exact ih (fun o ho => h o (List.mem_cons_of_mem _ ho))

end FlowRecord.Sqlite
