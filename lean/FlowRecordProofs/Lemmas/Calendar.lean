import FlowRecord.Model.DateTime
/-!
Calendar lemmas for C13: Hinnant's `days_from_civil` / `civil_from_days` are inverse to each other on valid dates,
and day numbers 0001-01-01 .. 9999-12-31 are exactly the valid dates of years 1..9999. Everything by `omega`
after splitting on the century / month so that each goal is linear.
-/
namespace FlowRecord.DateTime

/-- day-of-year `doy` (from 1 March) exists in year-of-era `yoe` -/
def LeapEnd (yoe doy : Nat) : Prop :=
  doy < 365 ∨ (doy = 365 ∧ (yoe + 1) % 4 = 0 ∧ ((yoe + 1) % 100 ≠ 0 ∨ yoe = 399))

theorem yoe_key (yoe doy : Nat) (h1 : yoe < 400) (h2 : LeapEnd yoe doy) :
    yoeOf (yearStart yoe + doy) = yoe := by
  unfold LeapEnd at h2
  unfold yoeOf yearStart
  generalize hdoe : 365 * yoe + yoe / 4 - yoe / 100 + doy = doe
  have hg : yoe / 100 = 0 ∨ yoe / 100 = 1 ∨ yoe / 100 = 2 ∨ yoe / 100 = 3 := by omega
  have hd : doe < 146097 := by omega
  have hc : doe / 36524 = 0 ∨ doe / 36524 = 1 ∨ doe / 36524 = 2 ∨ doe / 36524 = 3 ∨ doe / 36524 = 4 := by omega
  have hdd : doe / 146096 = 0 ∨ doe / 146096 = 1 := by omega
  rcases hg with hg | hg | hg | hg <;> rcases hc with hc | hc | hc | hc | hc <;> rcases hdd with hdd | hdd <;>
    simp only [hc, hdd] <;> omega

/-- every day of an era is some day of some year of that era -/
theorem doe_decomp (doe : Nat) (h : doe < 146097) :
    ∃ yoe doy, yoe < 400 ∧ doe = yearStart yoe + doy ∧ LeapEnd yoe doy := by
  have hc : ∃ c r1, c < 4 ∧ doe = 36524 * c + r1 ∧ (r1 < 36524 ∨ (c = 3 ∧ r1 = 36524)) := by
    by_cases h4 : doe = 146096
    · exact ⟨3, 36524, by omega, by omega, by omega⟩
    · exact ⟨doe / 36524, doe % 36524, by omega, by omega, by omega⟩
  obtain ⟨c, r1, hc4, hdoe, hr1⟩ := hc
  have hq : ∃ q r2, q < 25 ∧ r1 = 1461 * q + r2 ∧ (r2 < 1461 ∨ (q = 24 ∧ c = 3 ∧ r2 = 1461)) ∧
      (q = 24 → c = 3 ∨ r2 < 1460) := by
    by_cases h4 : r1 = 36524
    · exact ⟨24, 1460, by omega, by omega, by omega, by omega⟩
    · exact ⟨r1 / 1461, r1 % 1461, by omega, by omega, by omega, by omega⟩
  obtain ⟨q, r2, hq25, hr1', hr2, hr2'⟩ := hq
  have hy : ∃ yy doy, yy < 4 ∧ r2 = 365 * yy + doy ∧ (doy < 365 ∨ (yy = 3 ∧ doy = 365)) := by
    by_cases h4 : r2 ≥ 1460
    · exact ⟨3, r2 - 1095, by omega, by omega, by omega⟩
    · exact ⟨r2 / 365, r2 % 365, by omega, by omega, by omega⟩
  obtain ⟨yy, doy, hyy, hr2'', hdoy⟩ := hy
  have e4 : (100 * c + 4 * q + yy) / 4 = 25 * c + q := by omega
  have e100 : (100 * c + 4 * q + yy) / 100 = c := by omega
  refine ⟨100 * c + 4 * q + yy, doy, by omega, ?_, ?_⟩
  · unfold yearStart; rw [e4, e100]; omega
  · unfold LeapEnd; omega

theorem yearStart_le (yoe : Nat) (h : yoe < 400) : yearStart yoe ≤ 145731 := by
  unfold yearStart; omega

/-- month/day from day-of-year and back, for the twelve months counted from March -/
theorem month_day (mp d : Nat) (hmp : mp < 12) (hd1 : 1 ≤ d)
    (hd2 : (153 * mp + 2) / 5 + d - 1 < (153 * (mp + 1) + 2) / 5) :
    (5 * ((153 * mp + 2) / 5 + d - 1) + 2) / 153 = mp := by
  have : mp = 0 ∨ mp = 1 ∨ mp = 2 ∨ mp = 3 ∨ mp = 4 ∨ mp = 5 ∨ mp = 6 ∨ mp = 7 ∨ mp = 8 ∨ mp = 9 ∨ mp = 10 ∨ mp = 11 := by
    omega
  rcases this with h | h | h | h | h | h | h | h | h | h | h | h <;> subst h <;> omega


theorem civil_days (y m d : Nat) (hy : 1 ≤ y) (hm1 : 1 ≤ m) (hm2 : m ≤ 12) (hd1 : 1 ≤ d)
    (hd2 : d ≤ daysInMonth y m) : civilFromDays (daysFromCivil y m d) = (y, m, d) := by
  obtain ⟨y', hy'⟩ : ∃ y', y' = if m ≤ 2 then y - 1 else y := ⟨_, rfl⟩
  obtain ⟨mp, hmp⟩ : ∃ mp, mp = if m > 2 then m - 3 else m + 9 := ⟨_, rfl⟩
  have hmp12 : mp < 12 := by split at hmp <;> omega
  have hfacts : LeapEnd (y' % 400) ((153 * mp + 2) / 5 + d - 1) ∧
      (153 * mp + 2) / 5 + d - 1 < (153 * (mp + 1) + 2) / 5 := by
    have hm : m = 1 ∨ m = 2 ∨ m = 3 ∨ m = 4 ∨ m = 5 ∨ m = 6 ∨ m = 7 ∨ m = 8 ∨ m = 9 ∨ m = 10 ∨ m = 11 ∨ m = 12 := by
      omega
    unfold LeapEnd
    unfold daysInMonth at hd2
    rcases hm with h | h | h | h | h | h | h | h | h | h | h | h <;> subst h <;> simp at hmp hy' hd2 <;> subst hmp <;>
      subst hy' <;> (try split at hd2) <;> omega
  obtain ⟨hdoy, hdlt⟩ := hfacts
  simp only [daysFromCivil, civilFromDays, ← hy', ← hmp]
  have hys := yearStart_le (y' % 400) (by omega)
  have hlt : yearStart (y' % 400) + ((153 * mp + 2) / 5 + d - 1) < 146097 := by
    unfold LeapEnd at hdoy; omega
  have e1 : (y' / 400 * 146097 + (yearStart (y' % 400) + ((153 * mp + 2) / 5 + d - 1))) / 146097 = y' / 400 := by
    omega
  have e2 : (y' / 400 * 146097 + (yearStart (y' % 400) + ((153 * mp + 2) / 5 + d - 1))) % 146097
      = yearStart (y' % 400) + ((153 * mp + 2) / 5 + d - 1) := by omega
  rw [e1, e2, yoe_key _ _ (by omega) hdoy]
  have e3 : yearStart (y' % 400) + ((153 * mp + 2) / 5 + d - 1) - yearStart (y' % 400)
      = (153 * mp + 2) / 5 + d - 1 := by omega
  rw [e3, month_day mp d hmp12 hd1 hdlt]
  have e4 : (153 * mp + 2) / 5 + d - 1 - (153 * mp + 2) / 5 + 1 = d := by omega
  rw [e4]
  have e5 : (if mp < 10 then mp + 3 else mp - 9) = m := by split at hmp <;> split <;> omega
  rw [e5]
  have e6 : (if m ≤ 2 then y' % 400 + y' / 400 * 400 + 1 else y' % 400 + y' / 400 * 400) = y := by
    split at hy' <;> split <;> omega
  rw [e6]


/-- what `civilFromDays` computes, in terms of the decomposition of the day-of-era -/
theorem civil_spec (z : Nat) :
    ∃ yoe doy mp, yoe < 400 ∧ LeapEnd yoe doy ∧ z % 146097 = yearStart yoe + doy ∧ mp < 12 ∧
      (153 * mp + 2) / 5 ≤ doy ∧ doy < (153 * (mp + 1) + 2) / 5 ∧
      civilFromDays z =
        (if (if mp < 10 then mp + 3 else mp - 9) ≤ 2 then yoe + z / 146097 * 400 + 1 else yoe + z / 146097 * 400,
         if mp < 10 then mp + 3 else mp - 9, doy - (153 * mp + 2) / 5 + 1) := by
  obtain ⟨yoe, doy, hyoe, hdoe, hleap⟩ := doe_decomp (z % 146097) (by omega)
  refine ⟨yoe, doy, (5 * doy + 2) / 153, hyoe, hleap, hdoe, ?_, ?_, ?_, ?_⟩
  · unfold LeapEnd at hleap; omega
  · omega
  · omega
  · simp only [civilFromDays]
    rw [hdoe, yoe_key yoe doy hyoe hleap]
    have e3 : yearStart yoe + doy - yearStart yoe = doy := by omega
    rw [e3]

theorem days_civil (z : Nat) :
    daysFromCivil (civilFromDays z).1 (civilFromDays z).2.1 (civilFromDays z).2.2 = z := by
  obtain ⟨yoe, doy, mp, hyoe, hleap, hdoe, hmp, hlo, hhi, heq⟩ := civil_spec z
  rw [heq]
  simp only [daysFromCivil]
  generalize hm : (if mp < 10 then mp + 3 else mp - 9) = m
  have hm' : (if m > 2 then m - 3 else m + 9) = mp := by split at hm <;> split <;> omega
  have hy' : (if m ≤ 2 then (if m ≤ 2 then yoe + z / 146097 * 400 + 1 else yoe + z / 146097 * 400) - 1
      else (if m ≤ 2 then yoe + z / 146097 * 400 + 1 else yoe + z / 146097 * 400)) = yoe + z / 146097 * 400 := by
    split <;> omega
  rw [hm', hy']
  have e1 : (yoe + z / 146097 * 400) / 400 = z / 146097 := by omega
  have e2 : (yoe + z / 146097 * 400) % 400 = yoe := by omega
  rw [e1, e2]
  omega

theorem civil_valid (z : Nat) (h1 : 306 ≤ z) (h2 : z < 3652365) :
    1 ≤ (civilFromDays z).1 ∧ (civilFromDays z).1 ≤ 9999 ∧ 1 ≤ (civilFromDays z).2.1 ∧ (civilFromDays z).2.1 ≤ 12 ∧
    1 ≤ (civilFromDays z).2.2 ∧ (civilFromDays z).2.2 ≤ daysInMonth (civilFromDays z).1 (civilFromDays z).2.1 := by
  obtain ⟨yoe, doy, mp, hyoe, hleap, hdoe, hmp, hlo, hhi, heq⟩ := civil_spec z
  rw [heq]
  unfold LeapEnd at hleap
  unfold yearStart at hdoe
  unfold daysInMonth
  have hera : z / 146097 ≤ 24 := by omega
  have : mp = 0 ∨ mp = 1 ∨ mp = 2 ∨ mp = 3 ∨ mp = 4 ∨ mp = 5 ∨ mp = 6 ∨ mp = 7 ∨ mp = 8 ∨ mp = 9 ∨ mp = 10 ∨ mp = 11 := by
    omega
  rcases this with h | h | h | h | h | h | h | h | h | h | h | h <;> subst h <;> simp <;> first | omega | (split <;> omega)

end FlowRecord.DateTime
