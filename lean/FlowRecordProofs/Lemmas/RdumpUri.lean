import FlowRecord.Model.Rdump
/-!
Helper lemmas for C16's URI theorems: `splitOnce` on concatenations, `quote_plus`/`parse_qsl` on unreserved text, and
the round trip  user URI --rdump `--split`--> `split+scheme://path?count=..&suffix-length=..` --RecordAdapter--> user URI.
-/
namespace FlowRecord.Rdump
open FlowRecord


theorem isPrefixOf_cons_ne (c0 x : Char) (rest t : Str) (h : x ≠ c0) : (c0 :: rest).isPrefixOf (x :: t) = false := by
  simp only [List.isPrefixOf]
  have : (c0 == x) = false := by simpa using fun e => h e.symm
  simp [this]

theorem splitOnce_first (sep a b : Str) (c0 : Char) (rest : Str) (hsep : sep = c0 :: rest)
    (hno : ∀ c ∈ a, c ≠ c0) : splitOnce sep (a ++ sep ++ b) = some (a, b) := by
  induction a with
  | nil =>
    subst hsep
    simp [splitOnce]
  | cons x t ih =>
    have hx : x ≠ c0 := hno x (by simp)
    have ht := ih (fun c hc => hno c (by simp [hc]))
    subst hsep
    simp only [List.cons_append, splitOnce, isPrefixOf_cons_ne c0 x rest _ hx]
    have ht' : splitOnce (c0 :: rest) (t ++ c0 :: (rest ++ b)) = some (t, b) := by simpa using ht
    simp [ht']

theorem splitOnce_none (sep s : Str) (c0 : Char) (rest : Str) (hsep : sep = c0 :: rest)
    (hno : ∀ c ∈ s, c ≠ c0) : splitOnce sep s = none := by
  induction s with
  | nil => subst hsep; simp [splitOnce]
  | cons x t ih =>
    have hx : x ≠ c0 := hno x (by simp)
    subst hsep
    simp only [splitOnce, isPrefixOf_cons_ne c0 x rest _ hx]
    simp [ih (fun c hc => hno c (by simp [hc]))]

def Plain (s : Str) : Prop := ∀ c ∈ s, isUnreserved c = true

theorem quotePlus_plain (s : Str) (h : Plain s) : quotePlus s = s := by
  induction s with
  | nil => rfl
  | cons c t ih =>
    have hc := h c (by simp)
    have ht := ih (fun x hx => h x (by simp [hx]))
    simp only [quotePlus, List.flatMap_cons, hc, if_true] at ht ⊢
    simpa using ht

theorem plain_ne (s : Str) (h : Plain s) (c0 : Char) (h0 : isUnreserved c0 = false) : ∀ c ∈ s, c ≠ c0 := by
  intro c hc e
  subst e
  have := h c hc
  simp [h0] at this

theorem parseQs_nil : parseQs [] = [] := by decide

theorem parseQs_two (k1 v1 k2 v2 : Str) (hk1 : Plain k1) (hv1 : Plain v1) (hk2 : Plain k2) (hv2 : Plain v2)
    (hne1 : v1 ≠ []) (hne2 : v2 ≠ []) (hk : k1 ≠ k2) :
    parseQs (k1 ++ ['='] ++ v1 ++ ['&'] ++ k2 ++ ['='] ++ v2) = [(k1, v1), (k2, v2)] := by
  have amp : isUnreserved '&' = false := by decide
  have eq : isUnreserved '=' = false := by decide
  have h1 : ∀ c ∈ k1 ++ ['='] ++ v1, c ≠ '&' := by
    intro c hc
    simp only [List.mem_append, List.mem_singleton] at hc
    rcases hc with (hc | hc) | hc
    · exact plain_ne k1 hk1 '&' amp c hc
    · subst hc; decide
    · exact plain_ne v1 hv1 '&' amp c hc
  have h2 : ∀ c ∈ k2 ++ ['='] ++ v2, c ≠ '&' := by
    intro c hc
    simp only [List.mem_append, List.mem_singleton] at hc
    rcases hc with (hc | hc) | hc
    · exact plain_ne k2 hk2 '&' amp c hc
    · subst hc; decide
    · exact plain_ne v2 hv2 '&' amp c hc
  have s1 : splitOnce ['&'] (k1 ++ ['='] ++ v1 ++ ['&'] ++ k2 ++ ['='] ++ v2)
      = some (k1 ++ ['='] ++ v1, k2 ++ ['='] ++ v2) := by
    have := splitOnce_first ['&'] (k1 ++ ['='] ++ v1) (k2 ++ ['='] ++ v2) '&' [] rfl h1
    simpa [List.append_assoc] using this
  have s2 : splitOnce ['&'] (k2 ++ ['='] ++ v2) = none := splitOnce_none ['&'] _ '&' [] rfl h2
  have e1 : splitOnce ['='] (k1 ++ ['='] ++ v1) = some (k1, v1) :=
    splitOnce_first ['='] k1 v1 '=' [] rfl (plain_ne k1 hk1 '=' eq)
  have e2 : splitOnce ['='] (k2 ++ ['='] ++ v2) = some (k2, v2) :=
    splitOnce_first ['='] k2 v2 '=' [] rfl (plain_ne k2 hk2 '=' eq)
  unfold parseQs
  have hlen : (k1 ++ ['='] ++ v1 ++ ['&'] ++ k2 ++ ['='] ++ v2).length = (k1.length + v1.length + k2.length + v2.length + 1) + 1 + 1 := by
    simp; omega
  rw [hlen]
  simp only [parseQs.pairs, s1, s2]
  cases hf : (k1.length + v1.length + k2.length + v2.length + 1) with
  | zero => omega
  | succ f => 
    simp only [List.foldl, e1, e2]
    simp [hne1, hne2, hk]

theorem plain_count : Plain "count".toList := by unfold Plain; decide
theorem plain_suffix : Plain "suffix-length".toList := by unfold Plain; decide

theorem splitWrapS_adapter (scheme path cs ls : Str)
    (hs : ∀ c ∈ scheme, c ≠ ':' ∧ c ≠ '+')
    (hp : ∀ c ∈ path, c ≠ '?' ∧ c ≠ '#')
    (hcs : Plain cs) (hls : Plain ls) (hcs0 : cs ≠ []) (hls0 : ls ≠ []) :
    splitWrapS (scheme ++ schemeSep ++ path) cs ls
      = "split+".toList ++ scheme ++ schemeSep ++ path ++ ['?'] ++
          ("count".toList ++ ['='] ++ cs ++ ['&'] ++ "suffix-length".toList ++ ['='] ++ ls) ∧
    adapterOf (splitWrapS (scheme ++ schemeSep ++ path) cs ls)
      = ("split".toList, scheme ++ schemeSep ++ path, [("count".toList, cs), ("suffix-length".toList, ls)]) := by
  have hsep : schemeSep = ':' :: ['/', '/'] := rfl
  have w0 : splitOnce schemeSep (scheme ++ schemeSep ++ path) = some (scheme, path) :=
    splitOnce_first schemeSep scheme path ':' _ hsep (fun c hc => (hs c hc).1)
  have hpre : ∀ c ∈ "split+".toList ++ scheme, c ≠ ':' := by
    intro c hc
    rcases List.mem_append.mp hc with h | h
    · have hh : ∀ c ∈ "split+".toList, c ≠ ':' := by decide
      exact hh c h
    · exact (hs c h).1
  have hq : ∀ q : Str, splitOnce schemeSep ("split+".toList ++ scheme ++ schemeSep ++ (path ++ q))
      = some ("split+".toList ++ scheme, path ++ q) :=
    fun q => splitOnce_first schemeSep _ _ ':' _ hsep hpre
  have hhash : splitOnce ['#'] path = none := splitOnce_none ['#'] path '#' [] rfl (fun c hc => (hp c hc).2)
  have hques : splitOnce ['?'] path = none := splitOnce_none ['?'] path '?' [] rfl (fun c hc => (hp c hc).1)
  have hd : dictUpdate (dictUpdate (parseQs []) "count".toList cs) "suffix-length".toList ls
      = [("count".toList, cs), ("suffix-length".toList, ls)] := by
    rw [parseQs_nil]
    simp [dictUpdate]
  have hwrap : splitWrapS (scheme ++ schemeSep ++ path) cs ls
      = "split+".toList ++ scheme ++ schemeSep ++ path ++ ['?'] ++
          ("count".toList ++ ['='] ++ cs ++ ['&'] ++ "suffix-length".toList ++ ['='] ++ ls) := by
    have h1 := hq []
    simp only [List.append_nil] at h1
    have h1' : splitOnce schemeSep ("split+".toList ++ (scheme ++ schemeSep ++ path))
        = some ("split+".toList ++ scheme, path) := by simpa [List.append_assoc] using h1
    unfold splitWrapS
    simp only [w0, Option.isSome_some, if_true, urlparse3, h1', hhash, hques]
    have keys : Gen.rdumpSplitQueryKeys = ["count", "suffix-length"] := by decide
    simp only [keys, List.headD, List.drop, hd]
    simp only [urlencode, List.map, joinWith, quotePlus_plain _ plain_count, quotePlus_plain _ plain_suffix,
      quotePlus_plain _ hcs, quotePlus_plain _ hls]
    simp [List.append_assoc]
  refine ⟨hwrap, ?_⟩
  rw [hwrap]
  -- parse it back
  let q : Str := "count".toList ++ ['='] ++ cs ++ ['&'] ++ "suffix-length".toList ++ ['='] ++ ls
  have hqchars : ∀ c ∈ q, c ≠ '#' ∧ c ≠ '?' := by
    intro c hc
    have hu : isUnreserved '#' = false := by decide
    have hu2 : isUnreserved '?' = false := by decide
    simp only [q, List.mem_append, List.mem_singleton] at hc
    rcases hc with (((((hc | hc) | hc) | hc) | hc) | hc) | hc
    · exact ⟨plain_ne _ plain_count '#' hu c hc, plain_ne _ plain_count '?' hu2 c hc⟩
    · subst hc; decide
    · exact ⟨plain_ne _ hcs '#' hu c hc, plain_ne _ hcs '?' hu2 c hc⟩
    · subst hc; decide
    · exact ⟨plain_ne _ plain_suffix '#' hu c hc, plain_ne _ plain_suffix '?' hu2 c hc⟩
    · subst hc; decide
    · exact ⟨plain_ne _ hls '#' hu c hc, plain_ne _ hls '?' hu2 c hc⟩
  have p1 : splitOnce schemeSep ("split+".toList ++ scheme ++ schemeSep ++ path ++ ['?'] ++ q)
      = some ("split+".toList ++ scheme, path ++ ['?'] ++ q) := by
    have := hq (['?'] ++ q)
    simpa [List.append_assoc] using this
  have p2 : splitOnce ['#'] (path ++ ['?'] ++ q) = none := by
    apply splitOnce_none ['#'] _ '#' [] rfl
    intro c hc
    simp only [List.mem_append, List.mem_singleton] at hc
    rcases hc with (hc | hc) | hc
    · exact (hp c hc).2
    · subst hc; decide
    · exact (hqchars c hc).1
  have p3 : splitOnce ['?'] (path ++ ['?'] ++ q) = some (path, q) :=
    splitOnce_first ['?'] path q '?' [] rfl (fun c hc => (hp c hc).1)
  have p4 : splitOnce ['+'] ("split+".toList ++ scheme) = some ("split".toList, scheme) := by
    have := splitOnce_first ['+'] "split".toList scheme '+' [] rfl (by decide)
    simpa using this
  have p5 : parseQs q = [("count".toList, cs), ("suffix-length".toList, ls)] :=
    parseQs_two _ _ _ _ plain_count hcs plain_suffix hls hcs0 hls0 (by decide)
  show adapterOf ("split+".toList ++ scheme ++ schemeSep ++ path ++ ['?'] ++ q) = _
  simp only [adapterOf, urlparse3, p1, p2, p3, p4, p5]

theorem plain_natStr (n : Nat) : Plain (natStr n) ∧ natStr n ≠ [] := by
  have e : natStr n = Nat.toDigits 10 n := by simp [natStr, toString, Nat.repr]
  rw [e]
  refine ⟨fun c hc => ?_, Nat.toDigits_ne_nil⟩
  have := Nat.isDigit_of_mem_toDigits (by decide) (by decide) hc
  simp [isUnreserved, Char.isAlphanum, this]

end FlowRecord.Rdump
