import FlowRecordProofs.Lemmas.ComposeTs
/-!
Lemmas for the grouped view, `_replace` and projection (C15).
-/
namespace FlowRecord.Compose
open FlowRecord FlowRecord.Descriptor

/-- the "append if new" step of `GroupedRecord.__init__` is the first-wins merge step -/
theorem appendIfNew_eq (m : List (Str × Str)) (p : Str × Str) :
    (if (keys m).contains p.1 then m else m ++ [p]) = mergeStep false m p := by
  unfold mergeStep
  by_cases h : (keys m).contains p.1 = true
  · simp only [h, if_true, Bool.not_false, Bool.true_and]
  · have hm : p.1 ∉ keys m := by simpa using h
    simp only [h, Bool.false_eq_true, if_false, Bool.not_false, Bool.true_and]
    exact (odSet_not_mem m p.1 p.2 hm).symm

/-- dropping entries by a predicate on the key commutes with the first-wins fold -/
theorem filter_foldl_noreplace (P : Str → Bool) (ps : List (Str × Str)) : ∀ (m : List (Str × Str)),
    (ps.foldl (mergeStep false) m).filter (fun p => P p.1) =
      (ps.filter (fun p => P p.1)).foldl (mergeStep false) (m.filter (fun p => P p.1)) := by
  induction ps with
  | nil => intro m; rfl
  | cons p ps ih =>
    intro m
    simp only [List.foldl_cons]
    rw [ih]
    have hstep : (mergeStep false m p).filter (fun q => P q.1) =
        if P p.1 then mergeStep false (m.filter (fun q => P q.1)) p else m.filter (fun q => P q.1) := by
      rw [← appendIfNew_eq, ← appendIfNew_eq]
      by_cases hm : p.1 ∈ keys m
      · have hc : (keys m).contains p.1 = true := by simp [hm]
        simp only [hc, if_true]
        by_cases hP : P p.1 = true
        · have : p.1 ∈ keys (m.filter (fun q => P q.1)) := by
            obtain ⟨q, hq, hqk⟩ := List.mem_map.mp hm
            exact List.mem_map.mpr ⟨q, List.mem_filter.mpr ⟨hq, by simp [hqk, hP]⟩, hqk⟩
          simp [hP, this]
        · simp [hP]
      · have hc : (keys m).contains p.1 = false := by simp [hm]
        simp only [hc, Bool.false_eq_true, if_false, List.filter_append]
        by_cases hP : P p.1 = true
        · have : p.1 ∉ keys (m.filter (fun q => P q.1)) := by
            intro h
            obtain ⟨q, hq, hqk⟩ := List.mem_map.mp h
            exact hm (List.mem_map.mpr ⟨q, (List.mem_filter.mp hq).1, hqk⟩)
          simp [hP, this]
        · simp [hP]
    rw [hstep, List.filter_cons]
    by_cases hP : P p.1 = true
    · simp [hP]
    · simp [hP]

/-- flat descriptor of a group of well-formed members = first-wins merge of the members' descriptors -/
theorem groupedFields_eq {V : Type} (members : List (Rec V)) (hwf : ∀ x ∈ members, WF x) :
    groupedFields members = mergeFields false (members.map (·.fields)) := by
  unfold groupedFields mergeFields
  simp only
  have hstep : (fun (m : List (Str × Str)) (r : Rec V) =>
      ((fieldMap r.fields) ++ reservedFields).foldl (fun m p => if (keys m).contains p.1 then m else m ++ [p]) m) =
      (fun m r => ((fieldMap r.fields) ++ reservedFields).foldl (mergeStep false) m) := by
    funext m r
    congr 1
    funext m p
    exact appendIfNew_eq m p
  rw [hstep, foldl_flatMap (mergeStep false) (fun r : Rec V => fieldMap r.fields ++ reservedFields) members []]
  have hf := filter_foldl_noreplace (fun k => !reservedNames.contains k)
    (members.flatMap fun r => fieldMap r.fields ++ reservedFields) []
  simp only [List.filter_nil] at hf
  rw [hf, mergeMap_flat]
  congr 2
  -- the filtered concatenation is the concatenation of the members' name/type pairs
  clear hf hstep
  induction members with
  | nil => rfl
  | cons x xs ih =>
    simp only [List.flatMap_cons, List.map_cons, List.filter_append]
    rw [ih (fun y hy => hwf y (List.mem_cons_of_mem _ hy))]
    have hx := hwf x List.mem_cons_self
    rw [fieldMap_nodup x.fields hx.nodup]
    have h1 : (nameTypes x.fields).filter (fun p => !reservedNames.contains p.1) = nameTypes x.fields := by
      apply List.filter_eq_self.mpr
      intro p hp
      have : p.1 ∈ x.fields.map (·.2) := by
        rw [← keys_nameTypes]; exact List.mem_map.mpr ⟨p, hp, rfl⟩
      simpa using hx.nores p.1 this
    have h2 : reservedFields.filter (fun p => !reservedNames.contains p.1) = [] := by decide
    rw [h1, h2, List.append_nil]

/-- the record `_replace` builds: every slot keeps its value unless named (or is `_version`) -/
theorem alGet_replaceRec {V : Type} (ver : V) (r out : Rec V) (kvs : List (Str × V)) (h : replaceRec ver r kvs = some out)
    (k : Str) (hk : k ∈ keys r.slots) (hv : k ≠ versionName) :
    alGet out.slots k = (alGet kvs k).or (alGet r.slots k) := by
  unfold replaceRec at h
  split at h
  · cases h
  · simp only [Option.some.injEq] at h
    subst h
    simp only
    rw [alGet_map_val]
    obtain ⟨p, hp, hpk⟩ := find_some_of_mem_keys r.slots k hk
    have hr : alGet r.slots k = some p.2 := by simp [alGet, hp]
    rw [hp, hr]
    simp only [Option.map_some, hpk, hv, if_false]
    cases alGet kvs k <;> rfl

end FlowRecord.Compose
