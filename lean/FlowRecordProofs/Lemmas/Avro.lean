import FlowRecord.Model.Avro
/-!
Helper lemmas for C19: `rpartition` / `strip` / `replace` on character lists, the shape of `json.dumps` output,
schema construction over `declared ++ reserved` fields, positional decoding of the block buffer.
-/
namespace FlowRecord.Avro

/-! ### list helpers -/

theorem takeWhile_all {α} (p : α → Bool) (l : List α) : ∀ x ∈ l.takeWhile p, p x = true := by
  induction l with
  | nil => intro x hx; simp at hx
  | cons a t ih =>
    intro x hx
    by_cases ha : p a = true
    · simp only [List.takeWhile_cons, ha, if_true] at hx
      rcases List.mem_cons.mp hx with h | h
      · subst h; exact ha
      · exact ih x h
    · simp [ha] at hx

theorem dropWhile_nil_of_all {α} (p : α → Bool) (l : List α) (h : ∀ x ∈ l, p x = true) : l.dropWhile p = [] := by
  induction l with
  | nil => rfl
  | cons a t ih =>
    have ha := h a List.mem_cons_self
    simp only [List.dropWhile_cons, ha, if_true]
    exact ih (fun x hx => h x (List.mem_cons_of_mem _ hx))

theorem dropWhile_id_of_head {α} (p : α → Bool) (l : List α) (h : ∀ a, l.head? = some a → p a = false) :
    l.dropWhile p = l := by
  cases l with
  | nil => rfl
  | cons a t =>
    have := h a rfl
    simp [this]

/-- `rpartition`: without the separator the whole string is the tail; with it, the string splits at the last one -/
theorem rpartition_spec (sep : Char) (s : Text) :
    (sep ∉ s → rpartition sep s = ([], s)) ∧
    (sep ∈ s → s = (rpartition sep s).1 ++ sep :: (rpartition sep s).2 ∧ sep ∉ (rpartition sep s).2) := by
  have hsplit : (s.reverse.takeWhile (· != sep)) ++ (s.reverse.dropWhile (· != sep)) = s.reverse :=
    List.takeWhile_append_dropWhile
  have htw := takeWhile_all (· != sep) s.reverse
  constructor
  · intro hn
    have : s.reverse.dropWhile (· != sep) = [] := by
      apply dropWhile_nil_of_all
      intro x hx
      have : x ∈ s := List.mem_reverse.mp hx
      simp only [bne_iff_ne, ne_eq]
      intro hxs; subst hxs; exact hn this
    simp [rpartition, this]
  · intro hmem
    cases hdw : s.reverse.dropWhile (· != sep) with
    | nil =>
      rw [hdw, List.append_nil] at hsplit
      have := htw sep (by rw [hsplit]; exact List.mem_reverse.mpr hmem)
      simp at this
    | cons a before =>
      have hne : s.reverse.dropWhile (· != sep) ≠ [] := by rw [hdw]; simp
      have ha := List.head_dropWhile_not (· != sep) hne
      have ha' : a = sep := by
        have : (s.reverse.dropWhile (· != sep)).head hne = a := by simp [hdw]
        rw [this] at ha
        simpa using ha
      subst ha'
      rw [hdw] at hsplit
      have hs : s = before.reverse ++ a :: (s.reverse.takeWhile (· != a)).reverse := by
        have := congrArg List.reverse hsplit
        simpa using this.symm
      simp only [rpartition, hdw]
      refine ⟨hs, ?_⟩
      intro hin
      have := htw a (List.mem_reverse.mp hin)
      simp at this

theorem replaceChar_id (a b : Char) (s : Text) (h : a ∉ s) : replaceChar a b s = s := by
  induction s with
  | nil => rfl
  | cons c t ih =>
    have hc : c ≠ a := fun hc => h (by rw [hc]; exact List.mem_cons_self)
    have ht : a ∉ t := fun ht => h (List.mem_cons_of_mem _ ht)
    have := ih ht
    simp only [replaceChar, List.map_cons, hc, if_false] at this ⊢
    rw [this]

theorem replaceChar_append (a b : Char) (s t : Text) :
    replaceChar a b (s ++ t) = replaceChar a b s ++ replaceChar a b t := by simp [replaceChar]

theorem stripChar_id (a : Char) (s : Text) (h1 : s.head? ≠ some a) (h2 : s.getLast? ≠ some a) : stripChar a s = s := by
  unfold stripChar
  have e1 : s.dropWhile (· == a) = s := by
    apply dropWhile_id_of_head
    intro c hc
    simp only [beq_eq_false_iff_ne, ne_eq]
    intro hca; subst hca; exact h1 hc
  rw [e1]
  have e2 : s.reverse.dropWhile (· == a) = s.reverse := by
    apply dropWhile_id_of_head
    intro c hc
    rw [List.head?_reverse] at hc
    simp only [beq_eq_false_iff_ne, ne_eq]
    intro hca; subst hca; exact h2 hc
  rw [e2, List.reverse_reverse]

theorem stripChar_cons (a : Char) (s : Text) : stripChar a (a :: s) = stripChar a s := by
  simp [stripChar]

/-- a descriptor name the library accepts: no dot, no slash at either end (implied by RE_VALID_RECORD_TYPE_NAME) -/
structure NameOk (n : Text) : Prop where
  nodot : '.' ∉ n
  head : n.head? ≠ some '/'
  last : n.getLast? ≠ some '/'

theorem fallbackName_raw (n : Text) (h : NameOk n) :
    stripChar '/' (replaceChar '.' '/' ((rpartition '/' n).1 ++ '/' :: (rpartition '/' n).2)) = n := by
  obtain ⟨h1, h2⟩ := rpartition_spec '/' n
  by_cases hm : '/' ∈ n
  · obtain ⟨hs, _⟩ := h2 hm
    rw [← hs, replaceChar_id _ _ _ h.nodot, stripChar_id _ _ h.head h.last]
  · rw [h1 hm]
    simp only [List.nil_append]
    have : replaceChar '.' '/' ('/' :: n) = '/' :: n := by
      apply replaceChar_id
      intro hc
      rcases List.mem_cons.mp hc with hc | hc
      · cases hc
      · exact h.nodot hc
    rw [this, stripChar_cons, stripChar_id _ _ h.head h.last]

theorem fallbackName_norm (n : Text) (h : NameOk n) :
    stripChar '/' (replaceChar '.' '/' ('/' ::
      (match (rpartition '/' n).1 with
       | c :: cs => (c :: cs) ++ '.' :: (rpartition '/' n).2
       | [] => (rpartition '/' n).2))) = n := by
  obtain ⟨h1, h2⟩ := rpartition_spec '/' n
  by_cases hm : '/' ∈ n
  · obtain ⟨hs, _⟩ := h2 hm
    cases hh : (rpartition '/' n).1 with
    | nil =>
      -- the name would start with '/'
      rw [hh] at hs
      exact absurd (by rw [hs]; rfl) h.head
    | cons c cs =>
      rw [hh] at hs
      simp only
      have hdot1 : '.' ∉ (c :: cs) := fun hc => h.nodot (by rw [hs]; exact List.mem_append_left _ hc)
      have hdot2 : '.' ∉ (rpartition '/' n).2 := fun hc =>
        h.nodot (by rw [hs]; exact List.mem_append_right _ (List.mem_cons_of_mem _ hc))
      have : replaceChar '.' '/' ('/' :: ((c :: cs) ++ '.' :: (rpartition '/' n).2))
          = '/' :: ((c :: cs) ++ '/' :: (rpartition '/' n).2) := by
        have e1 := replaceChar_id '.' '/' (c :: cs) hdot1
        have e2 := replaceChar_id '.' '/' (rpartition '/' n).2 hdot2
        have : replaceChar '.' '/' ('/' :: ((c :: cs) ++ '.' :: (rpartition '/' n).2))
            = '/' :: (replaceChar '.' '/' (c :: cs) ++ '/' :: replaceChar '.' '/' (rpartition '/' n).2) := by
          simp [replaceChar]
        rw [this, e1, e2]
      rw [this, stripChar_cons, ← hs, stripChar_id _ _ h.head h.last]
  · rw [h1 hm]
    simp only
    have : replaceChar '.' '/' ('/' :: n) = '/' :: n := by
      apply replaceChar_id
      intro hc
      rcases List.mem_cons.mp hc with hc | hc
      · cases hc
      · exact h.nodot hc
    rw [this, stripChar_cons, stripChar_id _ _ h.head h.last]

theorem fastavroNorm_doc (h t : Text) (doc : Option Text) (fs : List (String × AType)) :
    (fastavroNorm ⟨some h, t, doc, fs⟩).doc = doc := by cases h <;> rfl

theorem fastavroNorm_fields (h t : Text) (doc : Option Text) (fs : List (String × AType)) :
    (fastavroNorm ⟨some h, t, doc, fs⟩).fields = fs := by cases h <;> rfl

theorem fallbackName_fastavroNorm (h t : Text) (doc : Option Text) (fs : List (String × AType)) :
    fallbackName (fastavroNorm ⟨some h, t, doc, fs⟩) =
      stripChar '/' (replaceChar '.' '/' ('/' ::
        (match h with
         | c :: cs => (c :: cs) ++ '.' :: t
         | [] => t))) := by
  cases h <;> simp [fallbackName, fastavroNorm]

/-! ### the shape of `json.dumps(desc._pack())` -/

theorem joinWith_items_last (sep : Text) (items : List Text) (hne : items ≠ [])
    (hlast : ∀ it ∈ items, ∃ pre, it = pre ++ [']']) : ∃ pre, joinWith sep items = pre ++ [']'] := by
  induction items with
  | nil => exact absurd rfl hne
  | cons x rest ih =>
    cases rest with
    | nil =>
      obtain ⟨pre, hp⟩ := hlast x List.mem_cons_self
      exact ⟨pre, by simp [joinWith, hp]⟩
    | cons y rest2 =>
      obtain ⟨pre, hp⟩ := ih (by simp) (fun it hit => hlast it (List.mem_cons_of_mem _ hit))
      exact ⟨x ++ sep ++ pre, by simp [joinWith, hp]⟩

theorem docSniff_dumps (J : JsonTextLaws) (d : Desc) : docSniff (dumps J d) = !d.fields.isEmpty := by
  have hp : Gen.avroDocPrefix.toList = ['[', '"'] := by decide
  have hs : Gen.avroDocSuffix.toList = [']', ']', ']'] := by decide
  cases hf : d.fields with
  | nil =>
    simp [docSniff, dumps, hf, hp, hs, startsWith, endsWith, quote, joinWith, List.isPrefixOf]
  | cons f rest =>
    obtain ⟨pre, hpre⟩ := joinWith_items_last [',', ' ']
      ((f :: rest).map fun f => '[' :: (quote J f.1 ++ [',', ' '] ++ quote J f.2 ++ [']'])) (by simp)
      (by
        intro it hit
        obtain ⟨g, _, hg⟩ := List.mem_map.mp hit
        exact ⟨'[' :: (quote J g.1 ++ [',', ' '] ++ quote J g.2), by rw [← hg]; simp⟩)
    simp only [docSniff, dumps, hf, hpre]
    simp [hp, hs, startsWith, endsWith, quote, List.isPrefixOf]

/-! ### schema fields over `declared ++ reserved` -/

/-- the field type has an Avro mapping (the logical branch or a non-empty table entry) -/
def Mappable (t : String) : Prop :=
  t = Gen.avroLogicalFieldType ∨ ∃ a, assoc Gen.AVRO_TYPE_MAP t = some a ∧ a ≠ ""

theorem fieldSchema_ok (t : String) (h : Mappable t) : ∃ a, fieldSchema t = .ok a := by
  unfold fieldSchema
  by_cases h1 : t = Gen.avroLogicalFieldType
  · exact ⟨.tsMicros, by simp [h1]⟩
  · rcases h with h | ⟨a, ha, hne⟩
    · exact absurd h h1
    · exact ⟨.prim a, by simp [h1, ha, hne]⟩

theorem fieldSchema_err (t : String) (h : ¬ Mappable t) : fieldSchema t = .error (.unsupportedType t) := by
  unfold fieldSchema
  by_cases h1 : t = Gen.avroLogicalFieldType
  · exact absurd (Or.inl h1) h
  · simp only [h1, if_false]
    cases ha : assoc Gen.AVRO_TYPE_MAP t with
    | none => rfl
    | some a =>
      by_cases hne : a = ""
      · simp [hne]
      · exact absurd (Or.inr ⟨a, ha, hne⟩) h

theorem fieldsSchema_append (l1 l2 : List (String × String)) :
    fieldsSchema (l1 ++ l2) =
      match fieldsSchema l1 with
      | .error e => .error e
      | .ok a => match fieldsSchema l2 with
        | .error e => .error e
        | .ok b => .ok (a ++ b) := by
  induction l1 with
  | nil => simp only [List.nil_append, fieldsSchema]; cases fieldsSchema l2 <;> rfl
  | cons p rest ih =>
    obtain ⟨t, n⟩ := p
    simp only [List.cons_append, fieldsSchema]
    cases fieldSchema t with
    | error e => rfl
    | ok a =>
      simp only [ih]
      cases fieldsSchema rest with
      | error e => rfl
      | ok x => cases fieldsSchema l2 <;> rfl

theorem fieldsSchema_ok (l : List (String × String)) (h : ∀ f ∈ l, Mappable f.1) :
    ∃ fs, fieldsSchema l = .ok fs ∧ fs.map (·.1) = l.map (·.2) := by
  induction l with
  | nil => exact ⟨[], rfl, rfl⟩
  | cons p rest ih =>
    obtain ⟨t, n⟩ := p
    obtain ⟨a, ha⟩ := fieldSchema_ok t (h (t, n) List.mem_cons_self)
    obtain ⟨fs, hfs, hn⟩ := ih (fun f hf => h f (List.mem_cons_of_mem _ hf))
    exact ⟨(n, a) :: fs, by simp [fieldsSchema, ha, hfs], by simp [hn]⟩

theorem fieldsSchema_err (l1 l2 : List (String × String)) (t n : String) (h1 : ∀ f ∈ l1, Mappable f.1)
    (h : ¬ Mappable t) : fieldsSchema (l1 ++ (t, n) :: l2) = .error (.unsupportedType t) := by
  obtain ⟨fs, hfs, _⟩ := fieldsSchema_ok l1 h1
  rw [fieldsSchema_append, hfs]
  simp [fieldsSchema, fieldSchema_err t h]

/-- the reserved part of every schema, computed from the extracted tables -/
def reservedSchema : List (String × AType) :=
  [("_source", .prim "string"), ("_classification", .prim "string"), ("_generated", .tsMicros), ("_version", .prim "long")]

theorem reserved_schema : fieldsSchema (Gen.RESERVED_FIELDS.map (fun p => (p.2, p.1))) = .ok reservedSchema := by
  rfl

theorem reserved_fallback : fallbackFields reservedSchema = .ok [] := by rfl

/-! ### the block buffer -/

theorem takeRow_emit (L : AvroLaws) (F : FloatLaws) (cols : List (String × AType)) :
    ∀ (vs : List Val) (i : Nat) (toks rest : List Val),
    emitRow L F cols vs i = (toks, none) → takeRow L cols (toks ++ rest) = some (vs.map (stored F), rest) := by
  induction cols with
  | nil =>
    intro vs i toks rest h
    cases vs with
    | nil => simp [emitRow] at h; subst h; simp [takeRow]
    | cons v vs => simp [emitRow] at h
  | cons c cols ih =>
    intro vs i toks rest h
    obtain ⟨n, t⟩ := c
    cases vs with
    | nil => simp [emitRow] at h
    | cons v vs =>
      simp only [emitRow] at h
      by_cases ha : L.accepts t v = true
      · simp only [ha, if_true] at h
        cases hr : emitRow L F cols vs (i + 1) with
        | mk toks' e' =>
          rw [hr] at h
          simp only [Prod.mk.injEq] at h
          obtain ⟨h1, h2⟩ := h
          subst h1; subst h2
          have := ih vs (i + 1) toks' rest hr
          simp [takeRow, L.stored_ok F t v ha, this]
      · simp only [ha, Bool.false_eq_true, if_false] at h
        split at h <;> simp at h

/-- all values of the record are accepted, column by column -/
def allAccepted (L : AvroLaws) : List (String × AType) → List Val → Bool
  | (_, t) :: cols, v :: vs => L.accepts t v && allAccepted L cols vs
  | [], [] => true
  | _, _ => false

theorem emitRow_ok_iff (L : AvroLaws) (F : FloatLaws) (cols : List (String × AType)) : ∀ (vs : List Val) (i : Nat),
    (emitRow L F cols vs i).2 = none ↔ allAccepted L cols vs = true := by
  induction cols with
  | nil => intro vs i; cases vs <;> simp [emitRow, allAccepted]
  | cons c cols ih =>
    intro vs i
    obtain ⟨n, t⟩ := c
    cases vs with
    | nil => simp [emitRow, allAccepted]
    | cons v vs =>
      by_cases ha : L.accepts t v = true
      · simp [emitRow, allAccepted, ha, ih vs (i + 1)]
      · simp only [emitRow, allAccepted, ha, Bool.false_eq_true, if_false, Bool.false_and, iff_false]
        split <;> simp

/-- `chunks` are the token groups of `rows`: each decodes, wherever it stands, to its row and nothing more -/
def Chunked (L : AvroLaws) (cols : List (String × AType)) : List (List Val) → List (List Val) → Prop
  | [], [] => True
  | c :: cs, r :: rs => (∀ e, takeRow L cols (c ++ e) = some (r, e)) ∧ Chunked L cols cs rs
  | _, _ => False

theorem takeRows_chunked (L : AvroLaws) (cols : List (String × AType)) (chunks : List (List Val)) :
    ∀ (rows : List (List Val)) (extra : List Val), Chunked L cols chunks rows →
      takeRows L cols rows.length (chunks.flatten ++ extra) = some rows := by
  induction chunks with
  | nil =>
    intro rows extra h
    cases rows with
    | nil => simp [takeRows]
    | cons r rs => simp [Chunked] at h
  | cons c cs ih =>
    intro rows extra h
    cases rows with
    | nil => simp [Chunked] at h
    | cons r rs =>
      obtain ⟨h1, h2⟩ := h
      have := ih rs extra h2
      simp only [List.flatten_cons, List.append_assoc, List.length_cons, takeRows, h1, this]

theorem chunked_snoc (L : AvroLaws) (cols : List (String × AType)) (chunks : List (List Val)) :
    ∀ (rows : List (List Val)) (c r : List Val), Chunked L cols chunks rows →
      (∀ e, takeRow L cols (c ++ e) = some (r, e)) → Chunked L cols (chunks ++ [c]) (rows ++ [r]) := by
  induction chunks with
  | nil =>
    intro rows c r h hc
    cases rows with
    | nil => exact ⟨hc, trivial⟩
    | cons r rs => simp [Chunked] at h
  | cons c0 cs ih =>
    intro rows c r h hc
    cases rows with
    | nil => simp [Chunked] at h
    | cons r0 rs => exact ⟨h.1, ih rs c r h.2 hc⟩

/-- the state a run of accepted writes produces: the block holds exactly `rows` -/
def Clean (L : AvroLaws) (st : WState) (cols : List (String × AType)) (rows : List (List Val)) : Prop :=
  st.cols = some cols ∧ st.count = rows.length ∧ ∃ chunks, st.buf = chunks.flatten ∧ Chunked L cols chunks rows

theorem fileRows_clean (L : AvroLaws) (st : WState) (cols : List (String × AType)) (rows : List (List Val))
    (h : Clean L st cols rows) : fileRows L st = some rows := by
  obtain ⟨h1, h2, chunks, h3, h4⟩ := h
  have := takeRows_chunked L cols chunks rows [] h4
  simp [fileRows, h1, h2, h3] at this ⊢
  exact this

/-- tokens left behind by a refused record do not change what the block decodes to -/
theorem fileRows_clean_extra (L : AvroLaws) (st : WState) (cols : List (String × AType)) (rows : List (List Val))
    (extra : List Val) (h : Clean L st cols rows) : fileRows L { st with buf := st.buf ++ extra } = some rows := by
  obtain ⟨h1, h2, chunks, h3, h4⟩ := h
  have := takeRows_chunked L cols chunks rows extra h4
  simp [fileRows, h1, h2, h3]
  exact this

end FlowRecord.Avro
