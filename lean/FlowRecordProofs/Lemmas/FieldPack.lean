import FlowRecord.Model.FieldPack
import FlowRecordProofs.Lemmas.Msgpack
/-! The field-type layer: `_unpack` inverts `_pack` for every well-formed typed value. -/
namespace FlowRecord.FieldPack
open FlowRecord FlowRecord.Wire FlowRecord.Msgpack

theorem hexVal_hexDigit (n : Nat) (h : n < 16) : hexVal (hexDigit n) = some n := by
  unfold hexDigit hexVal
  by_cases h10 : n < 10
  · simp [h10]; omega
  · simp [h10]
    have : ¬ (48 ≤ 87 + n ∧ 87 + n ≤ 57) := by omega
    simp [this]
    omega

/-- `a2b_hex(b2a_hex(b)) = b` for every byte string -/
theorem unhexlify_hexlify (bs : Bytes) : unhexlify (hexlify bs) = some bs := by
  induction bs with
  | nil => rfl
  | cons b bs ih =>
    have hb : b.toNat < 256 := b.toNat_lt
    simp only [hexlify, unhexlify, hexVal_hexDigit _ (show b.toNat / 16 < 16 by omega),
      hexVal_hexDigit _ (show b.toNat % 16 < 16 by omega), ih]
    have : 16 * (b.toNat / 16) + b.toNat % 16 = b.toNat := by omega
    simp [this]

theorem hexVal_lower (c x : Nat) (hc : ((48 ≤ c && c ≤ 57) || (97 ≤ c && c ≤ 102)) = true) (h : hexVal c = some x) :
    x < 16 ∧ hexDigit x = c := by
  unfold hexVal at h
  simp only [Bool.or_eq_true, Bool.and_eq_true, decide_eq_true_eq] at hc
  by_cases h1 : 48 ≤ c ∧ c ≤ 57
  · simp [h1] at h; subst h
    constructor
    · omega
    · unfold hexDigit; have : c - 48 < 10 := by omega
      simp [this]; omega
  · have h2 : 97 ≤ c ∧ c ≤ 102 := by rcases hc with h | h; exact absurd h h1; exact h
    simp [h1, h2] at h; subst h
    constructor
    · omega
    · unfold hexDigit; have : ¬ c - 87 < 10 := by omega
      simp [this]; omega

/-- `b2a_hex(a2b_hex(s)).decode() = s` exactly for LOWER-case hex text -/
theorem hexlify_unhexlify_lower : ∀ (s : Str) (bs : Bytes), unhexlify s = some bs → isLowerHex s = true → hexlify bs = s
  | [], bs, h, _ => by simp [unhexlify] at h; subst h; rfl
  | [_], _, h, _ => by simp [unhexlify] at h
  | a :: b :: rest, bs, h, hl => by
    simp only [isLowerHex, List.all_cons, Bool.and_eq_true] at hl
    obtain ⟨ha, hb, hr⟩ := hl
    simp only [unhexlify] at h
    cases hx : hexVal a with
    | none => simp [hx] at h
    | some x =>
      cases hy : hexVal b with
      | none => simp [hx, hy] at h
      | some y =>
        cases hz : unhexlify rest with
        | none => simp [hx, hy, hz] at h
        | some r =>
          simp only [hx, hy, hz, Option.some.injEq] at h; subst h
          obtain ⟨hx1, hx2⟩ := hexVal_lower a x ha hx
          obtain ⟨hy1, hy2⟩ := hexVal_lower b y hb hy
          have ih := hexlify_unhexlify_lower rest r hz (by simpa [isLowerHex] using hr)
          have ht : (UInt8.ofNat (16 * x + y)).toNat = 16 * x + y := u8 _ (by omega)
          simp only [hexlify, ht, ih]
          have e1 : (16 * x + y) / 16 = x := by omega
          have e2 : (16 * x + y) % 16 = y := by omega
          rw [e1, e2, hx2, hy2]

theorem unhexlify_nonempty : ∀ (s : Str) (bs : Bytes), unhexlify s = some bs → s ≠ [] → bs ≠ []
  | [], _, _, hn => absurd rfl hn
  | [_], _, h, _ => by simp [unhexlify] at h
  | a :: b :: rest, bs, h, _ => by
    simp only [unhexlify] at h
    cases hx : hexVal a <;> cases hy : hexVal b <;> cases hz : unhexlify rest <;> simp [hx, hy, hz] at h
    subst h; simp

/-- the hex text of one digest slot as the object may hold it: absent, or non-empty lower-case hex -/
def digestOK : Option Str → Prop
  | none => True
  | some s => isLowerHex s = true ∧ s ≠ []

theorem hexOpt_optBin (o : Option Str) (ob : Option Bytes) (hok : digestOK o) (h : optBin o = some ob) :
    hexOpt (rvOf (binPV ob)) = some o := by
  cases o with
  | none => simp [optBin] at h; subst h; rfl
  | some s =>
    simp only [optBin, Option.map_eq_some_iff] at h
    obtain ⟨bs, hb, rfl⟩ := h
    obtain ⟨hl, hne⟩ := hok
    have hn := unhexlify_nonempty s bs hb hne
    have : bs.isEmpty = false := by cases bs <;> simp_all
    simp [binPV, rvOf, hexOpt, this, hexlify_unhexlify_lower s bs hb hl]

theorem strsOf_map (xs : List Str) : strsOf (rvOfList (xs.map PV.str)) = some xs := by
  induction xs with
  | nil => rfl
  | cons x xs ih => simp [rvOfList, rvOf, strsOf, ih]

mutual
  /-- a typed value that the field type itself could have produced: digests in lower-case hex, paths in pathlib's
      normal form, an address whose family agrees with its magnitude, lists without unset elements -/
  def WFT (norm : Nat → Str → Str) : Kind → TVal → Prop
    | _, .unset => True
    | .text, .text _ => True
    | .int, .int _ => True
    | .bool, .bool _ => True
    | .float, .float _ => True
    | .bytes, .bytes _ => True
    | .digest, .digest m s1 s2 => digestOK m ∧ digestOK s1 ∧ digestOK s2
    | .path, .path fl t => (fl = Gen.TYPE_POSIX ∨ fl = Gen.TYPE_WINDOWS) ∧ norm fl t = t
    | .command, .command fl (some exe) _ => (fl = Gen.TYPE_POSIX ∨ fl = Gen.TYPE_WINDOWS) ∧ norm fl exe = exe
    | .command, .command fl none args => (fl = Gen.TYPE_POSIX ∨ fl = Gen.TYPE_WINDOWS) ∧ args = []
    | .ip, .ip ver v => (ver = 4 ∧ v < 4294967296) ∨
        (ver = 6 ∧ 4294967296 ≤ v ∧ v < 340282366920938463463374607431768211456)
    | .ipnet, .ipnet _ => True
    | .list k, .list xs => WFTs norm k xs
    | _, _ => False
  def WFTs (norm : Nat → Str → Str) : Kind → List TVal → Prop
    | _, [] => True
    | k, x :: xs => x ≠ .unset ∧ WFT norm k x ∧ WFTs norm k xs
end

mutual
/-- F1: for every kind of field and every well-formed value of it, unpacking what `_pack` produced (as it comes
    back from the packer layer, C01 R1) gives exactly the value. -/
theorem unpackT_packT (norm : Nat → Str → Str) (k : Kind) (v : TVal) (pv : PV) (hw : WFT norm k v)
    (hp : packT k v = some pv) : unpackT norm k (rvOf pv) = some v := by
  match k, v, hw, hp with
  | k, .unset, _, hp =>
    have : pv = .none := by cases k <;> simp [packT] at hp <;> exact hp.symm
    subst this; cases k <;> simp [rvOf, unpackT]
  | .text, .text s, _, hp => simp [packT] at hp; subst hp; simp [rvOf, unpackT]
  | .int, .int i, _, hp => simp [packT] at hp; subst hp; simp [rvOf, unpackT]
  | .bool, .bool b, _, hp => simp [packT] at hp; subst hp; simp [rvOf, unpackT]
  | .float, .float x, _, hp => simp [packT] at hp; subst hp; simp [rvOf, unpackT]
  | .bytes, .bytes b, _, hp => simp [packT] at hp; subst hp; simp [rvOf, unpackT]
  | .ipnet, .ipnet t, _, hp => simp [packT] at hp; subst hp; simp [rvOf, unpackT]
  | .digest, .digest m s1 s2, hw, hp =>
    obtain ⟨h1, h2, h3⟩ := hw
    simp only [packT] at hp
    cases ha : optBin m with
    | none => simp [ha] at hp
    | some a =>
      cases hb : optBin s1 with
      | none => simp [ha, hb] at hp
      | some b =>
        cases hc : optBin s2 with
        | none => simp [ha, hb, hc] at hp
        | some c =>
          simp [ha, hb, hc] at hp; subst hp
          simp only [rvOf, rvOfList, unpackT, hexOpt_optBin m a h1 ha, hexOpt_optBin s1 b h2 hb,
            hexOpt_optBin s2 c h3 hc]
  | .path, .path fl t, hw, hp =>
    obtain ⟨hfl, hn⟩ := hw
    simp [packT] at hp; subst hp
    have : ((fl : Int) = (Gen.TYPE_POSIX : Nat) ∨ (fl : Int) = (Gen.TYPE_WINDOWS : Nat)) := by
      rcases hfl with h | h <;> simp [h]
    simp [rvOf, rvOfList, unpackT, this, hn]
  | .command, .command fl (some exe) args, hw, hp =>
    obtain ⟨hfl, hn⟩ := hw
    simp [packT] at hp; subst hp
    simp only [rvOf, rvOfList, unpackT, strsOf_map]
    rcases hfl with h | h <;> subst h <;> simp [Gen.TYPE_POSIX, Gen.TYPE_WINDOWS] at hn ⊢ <;> exact hn
  | .command, .command fl none args, hw, hp =>
    obtain ⟨hfl, ha⟩ := hw
    subst ha
    simp [packT] at hp; subst hp
    simp only [rvOf, rvOfList, unpackT]
    rcases hfl with h | h <;> subst h <;> simp [Gen.TYPE_POSIX, Gen.TYPE_WINDOWS]
  | .ip, .ip ver v, hw, hp =>
    simp [packT] at hp; subst hp
    simp only [rvOf, unpackT]
    rcases hw with ⟨h1, h2⟩ | ⟨h1, h2, h3⟩
    · subst h1
      have : (0 : Int) ≤ (v : Int) ∧ (v : Int) < 4294967296 := by omega
      rw [if_pos this]; simp
    · subst h1
      have h4 : ¬ ((0 : Int) ≤ (v : Int) ∧ (v : Int) < 4294967296) := by omega
      have h5 : (0 : Int) ≤ (v : Int) ∧ (v : Int) < 340282366920938463463374607431768211456 := by omega
      rw [if_neg h4, if_pos h5]; simp
  | .list k, .list xs, hw, hp =>
    simp only [WFT] at hw
    simp only [packT, Option.map_eq_some_iff] at hp
    obtain ⟨ps, h1, rfl⟩ := hp
    simp only [rvOf, unpackT, unpackTs_packTs norm k xs ps hw h1]
    rfl
theorem unpackTs_packTs (norm : Nat → Str → Str) (k : Kind) (xs : List TVal) (ps : List PV) (hw : WFTs norm k xs)
    (hp : packTs k xs = some ps) : unpackTs norm k (rvOfList ps) = some xs := by
  match xs, hw, hp with
  | [], _, hp => simp [packTs] at hp; subst hp; simp [rvOfList, unpackTs]
  | x :: xs, hw, hp =>
    obtain ⟨_, hx, hxs⟩ := hw
    simp only [packTs] at hp
    cases h1 : packT k x with
    | none => simp [h1] at hp
    | some a =>
      cases h2 : packTs k xs with
      | none => simp [h1, h2] at hp
      | some r =>
        simp [h1, h2] at hp; subst hp
        simp [rvOfList, unpackTs, unpackT_packT norm k x a hx h1, unpackTs_packTs norm k xs r hxs h2]
end

/-- a typed list that received plain elements in place packs to exactly what the list of the converted elements
    packs to (given that the source converts before packing: the regenerated flag) -/
theorem packHeld_eq {R : Type} (conv : R → Option TVal) (k : Kind) (hgen : Gen.typedlistPackConvertsRaw = true) :
    ∀ (xs : List (TVal ⊕ R)) (ts : List TVal), heldValues conv xs = some ts → packHeld conv k xs = packTs k ts
  | [], ts, h => by simp [heldValues] at h; subst h; simp [packHeld, packTs]
  | .inl t :: xs, ts, h => by
    simp only [heldValues, Option.map_eq_some_iff] at h
    obtain ⟨ts', h1, rfl⟩ := h
    simp only [packHeld, packTs, packHeld_eq conv k hgen xs ts' h1]
  | .inr r :: xs, ts, h => by
    simp only [heldValues] at h
    cases hc : conv r with
    | none => simp [hc] at h
    | some t =>
      cases hv : heldValues conv xs with
      | none => simp [hc, hv] at h
      | some ts' =>
        simp [hc, hv] at h; subst h
        simp only [packHeld, hgen, if_true, hc, Option.bind_some, packTs, packHeld_eq conv k hgen xs ts' hv]

end FlowRecord.FieldPack
