import FlowRecord.Model.Descriptor
/-!
Ordered-dictionary lemmas (`odSet` = `OrderedDict.__setitem__`): key order is order of first appearance,
the value is the one assigned last.
-/
namespace FlowRecord.Descriptor

theorem keys_odSet {α : Type} (m : List (Str × α)) (k : Str) (v : α) :
    keys (odSet m k v) = if k ∈ keys m then keys m else keys m ++ [k] := by
  induction m with
  | nil => simp [odSet, keys]
  | cons p m ih =>
    obtain ⟨k', v'⟩ := p
    simp only [odSet]
    by_cases h : k' = k
    · subst h; simp [keys]
    · have hne : ¬ k = k' := fun e => h e.symm
      simp only [h, if_false]
      simp only [keys, List.map_cons, List.mem_cons, hne, false_or] at ih ⊢
      rw [ih]
      split <;> simp_all

theorem alGet_odSet {α : Type} (m : List (Str × α)) (k : Str) (v : α) (k' : Str) :
    alGet (odSet m k v) k' = if k' = k then some v else alGet m k' := by
  induction m with
  | nil =>
    by_cases h : k' = k
    · subst h; simp [odSet, alGet]
    · have : (k == k') = false := by simp; exact fun e => h e.symm
      simp [odSet, alGet, h, this]
  | cons p m ih =>
    obtain ⟨k0, v0⟩ := p
    simp only [odSet]
    by_cases h0 : k0 = k
    · subst h0
      by_cases h : k' = k0
      · subst h; simp [alGet]
      · have : (k0 == k') = false := by simp; exact fun e => h e.symm
        simp [alGet, List.find?, h, this]
    · simp only [h0, if_false]
      by_cases h1 : k0 = k'
      · subst h1
        have : ¬ k0 = k := h0
        simp [alGet, List.find?, this]
      · have hb : (k0 == k') = false := by simp [h1]
        simp only [alGet, List.find?, hb] at ih ⊢
        exact ih

theorem nodup_keys_odSet {α : Type} (m : List (Str × α)) (k : Str) (v : α) (h : (keys m).Nodup) :
    (keys (odSet m k v)).Nodup := by
  rw [keys_odSet]
  split
  · exact h
  · rename_i hk
    exact List.nodup_append.mpr ⟨h, by simp, by
      intro a ha b hb
      simp only [List.mem_singleton] at hb
      subst hb; intro e; subst e; exact hk ha⟩

theorem filter_ne_of_mem (l : List Str) (acc : List Str) (k : Str) (hk : k ∈ acc) :
    (l.filter (· != k)).filter (fun x => !acc.contains x) = l.filter (fun x => !acc.contains x) := by
  rw [List.filter_filter]
  apply List.filter_congr
  intro x _
  by_cases hx : x = k
  · subst hx; simp [hk]
  · simp [hx]

/-- keys after assigning a list of pairs one by one: the old keys, then the unseen new ones in order of
    first appearance -/
theorem keys_foldl_odSet {α : Type} (ps : List (Str × α)) : ∀ (m : List (Str × α)),
    keys (ps.foldl (fun m p => odSet m p.1 p.2) m) =
      keys m ++ (firstOcc (ps.map (·.1))).filter (fun x => !(keys m).contains x) := by
  induction ps with
  | nil => intro m; simp [firstOcc]
  | cons p ps ih =>
    intro m
    simp only [List.foldl_cons, List.map_cons, firstOcc]
    rw [ih, keys_odSet]
    by_cases hk : p.1 ∈ keys m
    · simp only [hk, if_true]
      rw [List.filter_cons]
      have : (!(keys m).contains p.1) = false := by simp [hk]
      simp only [this, Bool.false_eq_true, if_false]
      rw [filter_ne_of_mem _ _ _ hk]
    · simp only [hk, if_false]
      rw [List.filter_cons]
      have : (!(keys m).contains p.1) = true := by simp [hk]
      simp only [this, if_true, List.append_assoc, List.singleton_append]
      congr 2
      rw [List.filter_filter]
      apply List.filter_congr
      intro x _
      by_cases hx : x = p.1
      · subst hx; simp
      · simp [hx]

theorem keys_odOfList {α : Type} (ps : List (Str × α)) : keys (odOfList ps) = firstOcc (ps.map (·.1)) := by
  unfold odOfList
  rw [keys_foldl_odSet]
  simp [keys]

theorem firstOcc_nodup_eq : ∀ (l : List Str), l.Nodup → firstOcc l = l := by
  intro l
  induction l with
  | nil => intro _; rfl
  | cons k ks ih =>
    intro h
    have hk := List.nodup_cons.mp h
    simp only [firstOcc, ih hk.2]
    congr 1
    apply List.filter_eq_self.mpr
    intro x hx
    simp only [bne_iff_ne, ne_eq]
    intro e; subst e; exact hk.1 hx

theorem mem_firstOcc (l : List Str) (x : Str) : x ∈ firstOcc l ↔ x ∈ l := by
  induction l with
  | nil => simp [firstOcc]
  | cons k ks ih =>
    simp only [firstOcc, List.mem_cons, List.mem_filter, ih, bne_iff_ne, ne_eq]
    by_cases h : x = k <;> simp [h]

theorem firstOcc_nodup (l : List Str) : (firstOcc l).Nodup := by
  induction l with
  | nil => simp [firstOcc]
  | cons k ks ih =>
    simp only [firstOcc]
    apply List.nodup_cons.mpr
    constructor
    · simp
    · exact ih.sublist List.filter_sublist

end FlowRecord.Descriptor

namespace FlowRecord.Descriptor

/-- slot names of the generated class: distinct declared names in order of first appearance, then the reserved
    names — provided no declared name is reserved (validation guarantees it). -/
theorem keys_allFields (d : Desc) (hnores : ∀ n ∈ d.fields.map (·.2), n ∉ reservedNames) :
    keys (allFields d) = firstOcc (d.fields.map (·.2)) ++ reservedNames := by
  unfold allFields
  rw [keys_foldl_odSet reservedFields (odOfList (d.fields.map fun f => (f.2, f.1)))]
  rw [keys_odOfList (d.fields.map fun f => (f.2, f.1))]
  simp only [List.map_map]
  have e1 : ((fun p : Str × Str => p.1) ∘ fun f : Str × Str => (f.2, f.1)) = (·.2) := rfl
  rw [e1]
  congr 1
  have e2 : reservedFields.map (·.1) = reservedNames := by
    simp [reservedFields, reservedNames, List.map_map, Function.comp_def]
  rw [e2]
  have hnd : firstOcc reservedNames = reservedNames := by decide
  rw [hnd]
  apply List.filter_eq_self.mpr
  intro r hr
  simp only [Bool.not_eq_true', List.contains_eq_mem, decide_eq_false_iff_not, mem_firstOcc]
  exact fun hm => hnores r hm hr

end FlowRecord.Descriptor
