import FlowRecord.Model.Sqlite
/-!
Helper lemmas for C18 (SQLite writer state machine). Core Lean only.
-/
namespace FlowRecord.Sqlite

/-! ### identifiers -/

theorem sameIdent_iff (a b : Text) : sameIdent a b = true ↔ a.map lowerAscii = b.map lowerAscii := by
  simp [sameIdent]

theorem sameIdent_refl (a : Text) : sameIdent a a = true := by simp [sameIdent]

theorem sameIdent_symm {a b : Text} (h : sameIdent a b = true) : sameIdent b a = true := by
  rw [sameIdent_iff] at *; exact h.symm

theorem sameIdent_trans {a b c : Text} (h1 : sameIdent a b = true) (h2 : sameIdent b c = true) :
    sameIdent a c = true := by
  rw [sameIdent_iff] at *; exact h1.trans h2

/-- resolving `m` and `n` against the same table name: they agree iff `m` and `n` are the same identifier -/
theorem sameIdent_congr_right {t m n : Text} (h : sameIdent t n = true) : sameIdent t m = sameIdent m n := by
  cases hm : sameIdent t m with
  | true => exact (sameIdent_trans (sameIdent_symm hm) h).symm
  | false =>
    cases hmn : sameIdent m n with
    | false => rfl
    | true => rw [sameIdent_trans h (sameIdent_symm hmn)] at hm; exact hm.symm

theorem lexQuotedBody_other (c : Nat) (rest : Text) (h : c ≠ 34) :
    lexQuotedBody (c :: rest) = (lexQuotedBody rest).map (fun p => (c :: p.1, p.2)) := by
  rw [lexQuotedBody.eq_def]; simp [h]

theorem lexQuotedBody_end_nil : lexQuotedBody [34] = some ([], []) := by
  rw [lexQuotedBody.eq_def]; simp

theorem lexQuotedBody_end_cons (c2 : Nat) (rest : Text) (h : c2 ≠ 34) :
    lexQuotedBody (34 :: c2 :: rest) = some ([], c2 :: rest) := by
  rw [lexQuotedBody.eq_def]; simp [h]

/-! ### schema: what a descriptor needs is there -/

/-- A table the name resolves to exists, and every table it resolves to has a column for every field. -/
def Covered (T : Tables) (d : Desc) : Prop :=
  (∃ t ∈ T, sameIdent t.name d.name = true) ∧
  ∀ t ∈ T, sameIdent t.name d.name = true → ∀ f ∈ d.fields, f.1 ∈ colNames t

theorem addCols_name (t : Table) (d : Desc) : (addCols t d).name = t.name := rfl
theorem addCols_rows (t : Table) (d : Desc) : (addCols t d).rows = t.rows := rfl

theorem colNames_addCols_sub (t : Table) (d : Desc) : ∀ c ∈ colNames t, c ∈ colNames (addCols t d) := by
  intro c hc
  simp only [colNames, addCols, List.map_append, List.mem_append]
  exact Or.inl hc

theorem colNames_addCols_fields (t : Table) (d : Desc) : ∀ f ∈ d.fields, f.1 ∈ colNames (addCols t d) := by
  intro f hf
  by_cases h : f.1 ∈ colNames t
  · exact colNames_addCols_sub t d _ h
  · simp only [colNames, addCols, List.map_append, List.mem_append, List.map_map]
    right
    simp only [List.mem_map, List.mem_filter]
    refine ⟨f, ⟨hf, ?_⟩, rfl⟩
    simpa [colNames] using h

theorem addCols_eq_self (t : Table) (d : Desc) (h : ∀ f ∈ d.fields, f.1 ∈ colNames t) : addCols t d = t := by
  have : d.fields.filter (fun f => !(colNames t).contains f.1) = [] := by
    simp only [List.filter_eq_nil_iff]
    intro f hf
    simp [h f hf]
  unfold addCols
  rw [this]
  cases t; simp

theorem mem_createTable {T : Tables} {d : Desc} {t : Table} (h : t ∈ createTable T d) :
    t ∈ T ∨ (t = { name := d.name, cols := d.fields.map (fun f => (f.1, colType f.2)), rows := [] } ∧
             T.any (fun t => sameIdent t.name d.name) = false) := by
  unfold createTable at h
  split at h
  · exact Or.inl h
  · rename_i hn
    simp only [List.mem_append, List.mem_singleton] at h
    rcases h with h | h
    · exact Or.inl h
    · exact Or.inr ⟨h, by simpa using hn⟩

theorem sub_createTable {T : Tables} {d : Desc} {t : Table} (h : t ∈ T) : t ∈ createTable T d := by
  unfold createTable
  split
  · exact h
  · exact List.mem_append_left _ h

theorem createTable_has (T : Tables) (d : Desc) : ∃ t ∈ createTable T d, sameIdent t.name d.name = true := by
  unfold createTable
  split
  · rename_i h
    simpa using h
  · exact ⟨_, List.mem_append_right _ (List.mem_singleton.mpr rfl), sameIdent_refl _⟩

theorem mem_ddl {T : Tables} {d : Desc} {t : Table} (h : t ∈ ddl T d) :
    ∃ t0 ∈ createTable T d, t = if sameIdent t0.name d.name then addCols t0 d else t0 := by
  simp only [ddl, updateColumns, List.mem_map] at h
  obtain ⟨t0, h0, rfl⟩ := h
  exact ⟨t0, h0, rfl⟩

theorem ddl_of_mem {T : Tables} {d : Desc} {t0 : Table} (h : t0 ∈ createTable T d) :
    (if sameIdent t0.name d.name then addCols t0 d else t0) ∈ ddl T d := by
  simp only [ddl, updateColumns, List.mem_map]
  exact ⟨t0, h, rfl⟩

theorem covered_ddl_self (T : Tables) (d : Desc) : Covered (ddl T d) d := by
  constructor
  · obtain ⟨t0, h0, hs⟩ := createTable_has T d
    refine ⟨_, ddl_of_mem h0, ?_⟩
    simp [hs, addCols_name]
  · intro t ht hs f hf
    obtain ⟨t0, h0, rfl⟩ := mem_ddl ht
    by_cases h : sameIdent t0.name d.name = true
    · simp only [h, if_true]
      exact colNames_addCols_fields t0 d f hf
    · simp only [h] at hs
      simp at hs
      exact absurd hs h

theorem covered_ddl_mono {T : Tables} {d d' : Desc} (hc : Covered T d') : Covered (ddl T d) d' := by
  obtain ⟨⟨t1, h1, hs1⟩, hall⟩ := hc
  constructor
  · refine ⟨_, ddl_of_mem (sub_createTable (d := d) h1), ?_⟩
    split <;> simp [addCols_name, hs1]
  · intro t ht hs f hf
    obtain ⟨t0, h0, rfl⟩ := mem_ddl ht
    have hname : (if sameIdent t0.name d.name then addCols t0 d else t0).name = t0.name := by
      split <;> rfl
    rw [hname] at hs
    rcases mem_createTable h0 with hin | ⟨rfl, hnone⟩
    · have := hall t0 hin hs f hf
      split
      · exact colNames_addCols_sub t0 d _ this
      · exact this
    · -- the freshly created table cannot resolve to d': a table for d' existed, hence one for d
      exfalso
      simp only at hs
      have : sameIdent t1.name d.name = true := sameIdent_trans hs1 (sameIdent_symm hs)
      rw [List.any_eq_false] at hnone
      exact absurd this (by simpa using hnone t1 h1)

theorem ddl_eq_self {T : Tables} {d : Desc} (hc : Covered T d) : ddl T d = T := by
  obtain ⟨⟨t1, h1, hs1⟩, hall⟩ := hc
  have hct : createTable T d = T := by
    unfold createTable
    have : T.any (fun t => sameIdent t.name d.name) = true := by
      simp only [List.any_eq_true]; exact ⟨t1, h1, hs1⟩
    simp [this]
  simp only [ddl, hct, updateColumns]
  conv => rhs; rw [← List.map_id T]
  apply List.map_congr_left
  intro t ht
  by_cases h : sameIdent t.name d.name = true
  · simp [h, addCols_eq_self t d (hall t ht h)]
  · simp [h]

/-! ### inserts touch rows only -/

theorem mem_insertRow {store : String → DbVal → DbVal} {T : Tables} {n : Text} {cells : List (Text × DbVal)}
    {t : Table} (h : t ∈ insertRow store T n cells) : ∃ t0 ∈ T, t.name = t0.name ∧ t.cols = t0.cols := by
  simp only [insertRow, List.mem_map] at h
  obtain ⟨t0, h0, rfl⟩ := h
  refine ⟨t0, h0, ?_⟩
  split <;> simp

theorem insertRow_of_mem {store : String → DbVal → DbVal} {T : Tables} {n : Text} {cells : List (Text × DbVal)}
    {t0 : Table} (h : t0 ∈ T) : ∃ t ∈ insertRow store T n cells, t.name = t0.name ∧ t.cols = t0.cols := by
  refine ⟨_, List.mem_map.mpr ⟨t0, h, rfl⟩, ?_⟩
  split <;> simp

theorem covered_insertRow {store : String → DbVal → DbVal} {T : Tables} {n : Text} {cells : List (Text × DbVal)}
    {d : Desc} (hc : Covered T d) : Covered (insertRow store T n cells) d := by
  obtain ⟨⟨t1, h1, hs1⟩, hall⟩ := hc
  constructor
  · obtain ⟨t, ht, hn, _⟩ := insertRow_of_mem (store := store) (n := n) (cells := cells) h1
    exact ⟨t, ht, by rw [hn]; exact hs1⟩
  · intro t ht hs f hf
    obtain ⟨t0, h0, hn, hcols⟩ := mem_insertRow ht
    rw [hn] at hs
    have := hall t0 h0 hs f hf
    simpa [colNames, hcols] using this

theorem covered_specStep_mono {store : String → DbVal → DbVal} {T : Tables}
    {w : Desc × Option (List (Text × DbVal))} {d : Desc} (hc : Covered T d) : Covered (specStep store T w) d := by
  unfold specStep
  split
  · exact covered_insertRow (covered_ddl_mono hc)
  · exact covered_ddl_mono hc

theorem covered_specStep_self (store : String → DbVal → DbVal) (T : Tables)
    (w : Desc × Option (List (Text × DbVal))) : Covered (specStep store T w) w.1 := by
  unfold specStep
  split
  · exact covered_insertRow (covered_ddl_self T w.1)
  · exact covered_ddl_self T w.1

theorem covered_foldl_mono {store : String → DbVal → DbVal} {d : Desc} :
    ∀ (ws : List (Desc × Option (List (Text × DbVal)))) (T : Tables), Covered T d →
      Covered (ws.foldl (specStep store) T) d := by
  intro ws
  induction ws with
  | nil => intro T h; exact h
  | cons w ws ih => intro T h; exact ih _ (covered_specStep_mono h)

theorem covered_foldl {store : String → DbVal → DbVal} :
    ∀ (ws : List (Desc × Option (List (Text × DbVal)))) (T : Tables), ∀ w ∈ ws,
      Covered (ws.foldl (specStep store) T) w.1 := by
  intro ws
  induction ws with
  | nil => intro T w hw; cases hw
  | cons w0 ws ih =>
    intro T w hw
    rcases List.mem_cons.mp hw with rfl | hw
    · exact covered_foldl_mono ws _ (covered_specStep_self store T w)
    · exact ih _ w hw

/-! ### the state machine -/

/-- the three structural facts extracted from `SqliteWriter` (a change in /repo breaks these, and with them the theorems) -/
@[simp] theorem flag_new_descriptor_flushes : Gen.sqliteFlushOnNewDescriptor = true := by decide
@[simp] theorem flag_close_flushes : Gen.sqliteCloseFlushes = true := by decide
@[simp] theorem flag_commit_test : commitTestOk = true := by decide

variable {DT : Type}

theorem step_closed (E : Env DT) (s : St) (m : Step DT) (h : s.isOpen = false) : (step E s m).1 = s := by
  cases m <;> simp [step, h]
  cases s; simp_all

theorem apply_closed (E : Env DT) (s : St) (op : Op DT) (h : s.isOpen = false) : (apply E s op).1 = s := by
  cases op with
  | write d vals => simp only [apply]; rw [step_closed E s _ h, step_closed E s _ h]
  | flush => exact step_closed E s _ h
  | close => exact step_closed E s _ h

theorem run_closed (E : Env DT) (ops : List (Op DT)) : ∀ (s : St), s.isOpen = false → run E s ops = s := by
  induction ops with
  | nil => intro s _; rfl
  | cons op ops ih =>
    intro s h
    simp only [run, List.foldl_cons]
    rw [apply_closed E s op h]
    exact ih s h

theorem runSteps_closed (E : Env DT) (ms : List (Step DT)) : ∀ (s : St), s.isOpen = false → runSteps E s ms = s := by
  induction ms with
  | nil => intro s _; rfl
  | cons m ms ih =>
    intro s h
    simp only [runSteps, List.foldl_cons]
    rw [step_closed E s m h]
    exact ih s h

theorem run_cons (E : Env DT) (s : St) (op : Op DT) (ops : List (Op DT)) :
    run E s (op :: ops) = run E (apply E s op).1 ops := rfl

theorem runSteps_cons (E : Env DT) (s : St) (m : Step DT) (ms : List (Step DT)) :
    runSteps E s (m :: ms) = runSteps E (step E s m).1 ms := rfl

theorem runSteps_append (E : Env DT) (s : St) (ms ms' : List (Step DT)) :
    runSteps E s (ms ++ ms') = runSteps E (runSteps E s ms) ms' := by
  simp [runSteps, List.foldl_append]

/-- the public calls are exactly their step sequences -/
theorem run_eq_runSteps (E : Env DT) (ops : List (Op DT)) : ∀ s : St, run E s ops = runSteps E s (expand ops) := by
  induction ops with
  | nil => intro s; rfl
  | cons op ops ih =>
    intro s
    cases op with
    | write d vals => simp only [run_cons, expand, runSteps_cons, apply]; exact ih _
    | flush => simp only [run_cons, expand, runSteps_cons, apply]; exact ih _
    | close => simp only [run_cons, expand, runSteps_cons, apply]; exact ih _

/-- facts about one `ensure` on an open writer -/
theorem ensure_open (E : Env DT) (s : St) (d : Desc) (ho : s.isOpen = true) :
    (step E s (.ensure d)).1.isOpen = true ∧ (step E s (.ensure d)).1.count = s.count ∧
    (step E s (.ensure d)).1.batch = s.batch := by
  simp only [step, ho]
  cases hs : s.seen.contains d <;> cases hk : ddlOk s.work d <;> simp [commit, ho]

theorem insert_open (E : Env DT) (s : St) (d : Desc) (vals : List (PyVal DT)) (ho : s.isOpen = true) :
    (step E s (.insert d vals)).1.isOpen = true ∧ (step E s (.insert d vals)).1.batch = s.batch ∧
    (step E s (.insert d vals)).1.seen = s.seen := by
  simp only [step, ho]
  by_cases ha : (vals.length != d.fields.length) = true
  · simp [ha, ho]
  · cases hv : dbValues E.iso vals with
    | error e => simp [ha, ho]
    | ok xs =>
      by_cases hb : (s.count + 1) % s.batch = 0 <;> simp [ha, hb, commit]

/-- `work` after an accepted `ensure`: the DDL has been applied (a no-op when the descriptor was seen) -/
theorem ensure_work (E : Env DT) (s : St) (d : Desc) (ho : s.isOpen = true)
    (hcov : ∀ d' ∈ s.seen, Covered s.work d') (hok : ddlOk s.work d = true) :
    (step E s (.ensure d)).1.work = ddl s.work d ∧
    (∀ d' ∈ (step E s (.ensure d)).1.seen, Covered (ddl s.work d) d') := by
  cases hs : s.seen.contains d with
  | true =>
    have hm : d ∈ s.seen := by simpa using hs
    have hself := ddl_eq_self (hcov d hm)
    have hst : (step E s (.ensure d)).1 = s := by simp [step, ho, hm]
    rw [hst, hself]
    exact ⟨rfl, hcov⟩
  | false =>
    have hm : d ∉ s.seen := by simpa using hs
    have hst : (step E s (.ensure d)).1 = commit { s with work := ddl s.work d, seen := d :: s.seen } := by
      simp [step, ho, hm, hok]
    rw [hst]
    refine ⟨rfl, ?_⟩
    intro d' hd'
    rcases List.mem_cons.mp hd' with rfl | hd'
    · exact covered_ddl_self _ _
    · exact covered_ddl_mono (hcov d' hd')

theorem insert_work (E : Env DT) (s : St) (d : Desc) (vals : List (PyVal DT)) (ho : s.isOpen = true) :
    (step E s (.insert d vals)).1.work =
      match cellsOf E d vals with
      | some cells => insertRow E.store s.work d.name cells
      | none => s.work := by
  simp only [step, ho, cellsOf]
  by_cases ha : (vals.length != d.fields.length) = true
  · simp [ha]
  · cases hv : dbValues E.iso vals with
    | error e => simp [ha]
    | ok xs => by_cases hb : (s.count + 1) % s.batch = 0 <;> simp [ha, hb, commit]

theorem covered_specStep_of_ddl {store : String → DbVal → DbVal} {T : Tables}
    {w : Desc × Option (List (Text × DbVal))} {d : Desc} (hc : Covered (ddl T w.1) d) :
    Covered (specStep store T w) d := by
  unfold specStep
  split
  · exact covered_insertRow hc
  · exact hc

/-- **work = spec**: whatever the batch size and the `seen` cache, the writer's own view is the plain replay. -/
theorem run_work (E : Env DT) (ops : List (Op DT)) : ∀ (s : St), s.isOpen = true →
    (∀ d ∈ s.seen, Covered s.work d) → accepted E.store s.work (writesOf E ops) = true →
    (run E s ops).work = (writesOf E ops).foldl (specStep E.store) s.work := by
  induction ops with
  | nil => intro s _ _ _; rfl
  | cons op ops ih =>
    intro s ho hcov hacc
    cases op with
    | close =>
      simp only [run_cons, writesOf, List.foldl_nil]
      have hc : (apply E s .close).1.isOpen = false := by simp [apply, step]
      rw [run_closed E ops _ hc]
      simp [apply, step, ho, commit]
    | flush =>
      simp only [run_cons, writesOf]
      have h1 : (apply E s .flush).1 = commit s := by simp [apply, step, ho]
      rw [h1]
      exact ih (commit s) (by simpa [commit] using ho) (by simpa [commit] using hcov) (by simpa [commit, writesOf] using hacc)
    | write d vals =>
      simp only [run_cons, writesOf, List.foldl_cons]
      simp only [writesOf, accepted, Bool.and_eq_true] at hacc
      obtain ⟨hok, hacc⟩ := hacc
      obtain ⟨hw1, hcov1⟩ := ensure_work E s d ho hcov hok
      obtain ⟨ho1, _, _⟩ := ensure_open E s d ho
      have hw2 := insert_work E (step E s (.ensure d)).1 d vals ho1
      obtain ⟨ho2, _, hseen2⟩ := insert_open E (step E s (.ensure d)).1 d vals ho1
      have happ : (apply E s (.write d vals)).1 = (step E (step E s (.ensure d)).1 (.insert d vals)).1 := rfl
      have hwork : (apply E s (.write d vals)).1.work = specStep E.store s.work (d, cellsOf E d vals) := by
        rw [happ, hw2, hw1]
        simp only [specStep]
        cases cellsOf E d vals <;> rfl
      rw [← hwork] at hacc ⊢
      apply ih
      · rw [happ]; exact ho2
      · intro d' hd'
        rw [happ, hseen2] at hd'
        rw [hwork]
        exact covered_specStep_of_ddl (w := (d, cellsOf E d vals)) (hcov1 d' hd')
      · exact hacc

theorem apply_isOpen (E : Env DT) (s : St) (op : Op DT) (ho : s.isOpen = true) (hne : op ≠ .close) :
    (apply E s op).1.isOpen = true := by
  cases op with
  | close => exact absurd rfl hne
  | flush => simp [apply, step, ho, commit]
  | write d vals =>
    obtain ⟨ho1, _, _⟩ := ensure_open E s d ho
    exact (insert_open E _ d vals ho1).1

/-- after a `close` everything is committed -/
theorem run_committed_of_close (E : Env DT) (ops : List (Op DT)) : ∀ (s : St), s.isOpen = true →
    (∃ pre suf, ops = pre ++ Op.close :: suf) → (run E s ops).committed = (run E s ops).work := by
  induction ops with
  | nil => intro s _ ⟨pre, suf, h⟩; cases pre <;> cases h
  | cons op ops ih =>
    intro s ho ⟨pre, suf, h⟩
    cases op with
    | close =>
      have hc : (apply E s .close).1.isOpen = false := by simp [apply, step]
      rw [run_cons, run_closed E ops _ hc]
      simp [apply, step, ho, commit]
    | flush =>
      rw [run_cons]
      apply ih _ (apply_isOpen E s _ ho (by intro h; cases h))
      cases pre with
      | nil => cases h
      | cons p pre => exact ⟨pre, suf, (List.cons.inj h).2⟩
    | write d vals =>
      rw [run_cons]
      apply ih _ (apply_isOpen E s _ ho (by intro h; cases h))
      cases pre with
      | nil => cases h
      | cons p pre => exact ⟨pre, suf, (List.cons.inj h).2⟩

/-! ### atomic visibility -/

theorem step_committed (E : Env DT) (s : St) (m : Step DT) :
    (commits E s m = false → (step E s m).1.committed = s.committed) ∧
    (commits E s m = true → (step E s m).1.committed = (step E s m).1.work) := by
  cases ho : s.isOpen with
  | false =>
    rw [step_closed E s m ho]
    cases m <;> simp [commits, ho]
  | true =>
    cases m with
    | flush => simp [commits, step, ho, commit]
    | close => simp [commits, step, ho, commit]
    | ensure d =>
      by_cases hm : d ∈ s.seen
      · simp [commits, step, ho, hm]
      · cases hk : ddlOk s.work d <;> simp [commits, step, ho, hm, hk, commit]
    | insert d vals =>
      by_cases ha : vals.length = d.fields.length
      · cases hv : dbValues E.iso vals with
        | error e => simp [commits, step, ho, ha, hv]
        | ok xs => by_cases hb : (s.count + 1) % s.batch = 0 <;> simp [commits, step, ho, ha, hv, hb, commit]
      · simp [commits, step, ho, ha]

theorem quiet_append (E : Env DT) (ms ms' : List (Step DT)) : ∀ s : St,
    quiet E s (ms ++ ms') = (quiet E s ms && quiet E (runSteps E s ms) ms') := by
  induction ms with
  | nil => intro s; simp [quiet, runSteps]
  | cons m ms ih => intro s; simp [quiet, runSteps_cons, ih, Bool.and_assoc]

/-! ### rows per table -/

/-- `row` is what an INSERT of `cells` leaves: same columns, every value stored under some declared type -/
def StoredAs (store : String → DbVal → DbVal) (cells row : List (Text × DbVal)) : Prop :=
  ∃ tys : Text → String, row = cells.map (fun c => (c.1, store (tys c.1) c.2))

/-- row by row -/
def RowsStored (store : String → DbVal → DbVal) :
    List (List (Text × DbVal)) → List (List (Text × DbVal)) → Prop
  | [], [] => True
  | c :: cs, r :: rs => StoredAs store c r ∧ RowsStored store cs rs
  | _, _ => False

theorem rowsStored_append {store : String → DbVal → DbVal} :
    ∀ (a b a' b' : List (List (Text × DbVal))), RowsStored store a b → RowsStored store a' b' →
      RowsStored store (a ++ a') (b ++ b') := by
  intro a
  induction a with
  | nil => intro b a' b' h h'; cases b with
    | nil => simpa using h'
    | cons _ _ => simp [RowsStored] at h
  | cons c cs ih => intro b a' b' h h'; cases b with
    | nil => simp [RowsStored] at h
    | cons r rs => exact ⟨h.1, ih rs a' b' h.2 h'⟩

theorem rowsStored_length {store : String → DbVal → DbVal} :
    ∀ (a b : List (List (Text × DbVal))), RowsStored store a b → b.length = a.length := by
  intro a
  induction a with
  | nil => intro b h; cases b with
    | nil => rfl
    | cons _ _ => simp [RowsStored] at h
  | cons c cs ih => intro b h; cases b with
    | nil => simp [RowsStored] at h
    | cons r rs => simp [ih rs h.2]

theorem find_name_preserving {T : Tables} {f : Table → Table} (hf : ∀ t, (f t).name = t.name) (n : Text) :
    (T.map f).find? (fun t => sameIdent t.name n) = (T.find? (fun t => sameIdent t.name n)).map f := by
  rw [List.find?_map]
  have : ((fun t : Table => sameIdent t.name n) ∘ f) = (fun t : Table => sameIdent t.name n) := by
    funext t
    simp [Function.comp, hf]
  rw [this]

theorem rowsOf_insertRow (store : String → DbVal → DbVal) (T : Tables) (m n : Text) (cells : List (Text × DbVal)) :
    rowsOf (insertRow store T m cells) n =
      match T.find? (fun t => sameIdent t.name n) with
      | some t => if sameIdent m n then t.rows ++ [cells.map (fun c => (c.1, store (declType t c.1) c.2))] else t.rows
      | none => [] := by
  unfold rowsOf insertRow
  rw [find_name_preserving (by intro t; split <;> rfl)]
  cases hf : T.find? (fun t => sameIdent t.name n) with
  | none => rfl
  | some t =>
    have ht : sameIdent t.name n = true := by simpa using List.find?_some hf
    simp only [Option.map_some, sameIdent_congr_right (m := m) ht, optRows]
    split <;> rfl

theorem rowsOf_ddl (T : Tables) (d : Desc) (n : Text) : rowsOf (ddl T d) n = rowsOf T n := by
  unfold rowsOf ddl updateColumns
  rw [find_name_preserving (by intro t; split <;> rfl)]
  have h1 : ∀ o : Option Table,
      optRows (o.map (fun t => if sameIdent t.name d.name then addCols t d else t)) = optRows o := by
    intro o; cases o with
    | none => rfl
    | some t => simp only [Option.map_some, optRows]; split <;> rfl
  rw [h1]
  unfold createTable
  split
  · rfl
  · rw [List.find?_append]
    cases T.find? (fun t => sameIdent t.name n) with
    | some t => rfl
    | none =>
      simp only [Option.none_or, List.find?_cons, List.find?_nil]
      split <;> rfl

theorem ddl_resolves (T : Tables) (d : Desc) : ∃ t, (ddl T d).find? (fun t => sameIdent t.name d.name) = some t := by
  obtain ⟨⟨t, ht, hs⟩, _⟩ := covered_ddl_self T d
  have : ((ddl T d).find? (fun t => sameIdent t.name d.name)).isSome = true :=
    List.find?_isSome.mpr ⟨t, ht, hs⟩
  exact Option.isSome_iff_exists.mp this

/-- the writes that land in the table `n` resolves to, in order -/
def writesFor (n : Text) (ws : List (Desc × Option (List (Text × DbVal)))) : List (List (Text × DbVal)) :=
  ws.filterMap (fun w => if sameIdent w.1.name n then w.2 else none)

theorem rowsOf_specStep (store : String → DbVal → DbVal) (T : Tables) (w : Desc × Option (List (Text × DbVal)))
    (n : Text) : ∃ extra, rowsOf (specStep store T w) n = rowsOf T n ++ extra ∧
      RowsStored store (writesFor n [w]) extra := by
  obtain ⟨d, oc⟩ := w
  cases oc with
  | none =>
    refine ⟨[], ?_, ?_⟩
    · simp [specStep, rowsOf_ddl]
    · simp [writesFor, RowsStored]
  | some cells =>
    simp only [specStep, rowsOf_insertRow]
    have hddl := rowsOf_ddl T d n
    unfold rowsOf at hddl
    cases hs : sameIdent d.name n with
    | false =>
      refine ⟨[], ?_, ?_⟩
      · simp only [List.append_nil, rowsOf]
        rw [← hddl]
        cases (ddl T d).find? (fun t => sameIdent t.name n) <;> simp [optRows]
      · simp [writesFor, hs, RowsStored]
    | true =>
      obtain ⟨t, ht⟩ := ddl_resolves T d
      have hfn : (ddl T d).find? (fun t => sameIdent t.name n) = some t := by
        have hcongr : (fun t : Table => sameIdent t.name n) = (fun t : Table => sameIdent t.name d.name) := by
          funext t
          cases h1 : sameIdent t.name n with
          | true => exact (sameIdent_trans h1 (sameIdent_symm hs)).symm
          | false =>
            cases h2 : sameIdent t.name d.name with
            | false => rfl
            | true => rw [sameIdent_trans h2 hs] at h1; exact h1.symm
        rw [hcongr]; exact ht
      refine ⟨[cells.map (fun c => (c.1, store (declType t c.1) c.2))], ?_, ?_⟩
      · rw [hfn] at hddl
        simp only [hfn, if_true, rowsOf]
        rw [← hddl]
        rfl
      · simp only [writesFor, List.filterMap_cons, hs, if_true, List.filterMap_nil, RowsStored, and_true]
        exact ⟨fun c => declType t c, rfl⟩

theorem writesFor_cons (n : Text) (w : Desc × Option (List (Text × DbVal))) (ws) :
    writesFor n (w :: ws) = writesFor n [w] ++ writesFor n ws := by
  simp only [writesFor, List.filterMap_cons, List.filterMap_nil]
  split <;> simp

theorem rowsOf_foldl (store : String → DbVal → DbVal) (n : Text) :
    ∀ (ws : List (Desc × Option (List (Text × DbVal)))) (T : Tables),
      ∃ rows, rowsOf (ws.foldl (specStep store) T) n = rowsOf T n ++ rows ∧ RowsStored store (writesFor n ws) rows := by
  intro ws
  induction ws with
  | nil => intro T; exact ⟨[], by simp, by simp [writesFor, RowsStored]⟩
  | cons w ws ih =>
    intro T
    obtain ⟨e1, h1, s1⟩ := rowsOf_specStep store T w n
    obtain ⟨e2, h2, s2⟩ := ih (specStep store T w)
    refine ⟨e1 ++ e2, ?_, ?_⟩
    · rw [List.foldl_cons, h2, h1, List.append_assoc]
    · rw [writesFor_cons]; exact rowsStored_append _ _ _ _ s1 s2

/-! ### batch size does not influence the writer's own view -/

/-- everything but `committed` and `batch` -/
def SameCore (s s' : St) : Prop :=
  s.work = s'.work ∧ s.seen = s'.seen ∧ s.isOpen = s'.isOpen ∧ s.count = s'.count

theorem step_sameCore (E : Env DT) (s s' : St) (m : Step DT) (h : SameCore s s') :
    SameCore (step E s m).1 (step E s' m).1 ∧ (step E s m).2 = (step E s' m).2 := by
  obtain ⟨hw, hs, ho, hc⟩ := h
  cases ho' : s'.isOpen with
  | false =>
    have ho1 : s.isOpen = false := by rw [ho, ho']
    rw [step_closed E s m ho1, step_closed E s' m ho']
    refine ⟨⟨hw, hs, ho, hc⟩, ?_⟩
    cases m <;> simp [step, ho1, ho']
  | true =>
    have ho1 : s.isOpen = true := by rw [ho, ho']
    cases m with
    | flush => simp [SameCore, step, ho1, ho', commit, hw, hs, hc]
    | close => simp [SameCore, step, ho1, ho', commit, hw, hs, hc]
    | ensure d =>
      by_cases hm : d ∈ s'.seen
      · have hm1 : d ∈ s.seen := by rw [hs]; exact hm
        simp [SameCore, step, ho1, ho', hm, hw, hs, hc]
      · have hm1 : d ∉ s.seen := by rw [hs]; exact hm
        cases hk : ddlOk s'.work d <;>
          simp [SameCore, step, ho1, ho', hm, hw, hs, hc, hk, commit]
    | insert d vals =>
      by_cases ha : vals.length = d.fields.length
      · cases hv : dbValues E.iso vals with
        | error e => simp [SameCore, step, ho1, ho', ha, hv, hw, hs, hc]
        | ok xs =>
          by_cases hb : (s'.count + 1) % s.batch = 0 <;> by_cases hb' : (s'.count + 1) % s'.batch = 0 <;>
            simp [SameCore, step, ho1, ho', ha, hv, hb, hb', commit, hw, hs, hc]
      · simp [SameCore, step, ho1, ho', ha, hw, hs, hc]

theorem runSteps_sameCore (E : Env DT) (ms : List (Step DT)) : ∀ (s s' : St), SameCore s s' →
    SameCore (runSteps E s ms) (runSteps E s' ms) := by
  induction ms with
  | nil => intro s s' h; exact h
  | cons m ms ih => intro s s' h; exact ih _ _ (step_sameCore E s s' m h).1

/-! ### visibility: the latest commit point -/

theorem visible_from (E : Env DT) (ms : List (Step DT)) : ∀ s0 : St,
    (quiet E s0 ms = true ∧ (runSteps E s0 ms).committed = s0.committed) ∨
    (∃ p m suf, ms = (p ++ [m]) ++ suf ∧ commits E (runSteps E s0 p) m = true ∧
      (runSteps E s0 ms).committed = (runSteps E s0 (p ++ [m])).work ∧
      quiet E (runSteps E s0 (p ++ [m])) suf = true) := by
  induction ms with
  | nil => intro s0; exact Or.inl ⟨rfl, rfl⟩
  | cons m ms ih =>
    intro s0
    rcases ih (step E s0 m).1 with ⟨hq, hc⟩ | ⟨p, m', suf, hms, hcm, hcw, hq⟩
    · cases hk : commits E s0 m with
      | false =>
        left
        refine ⟨by simp [quiet, hk, hq], ?_⟩
        rw [runSteps_cons, hc]
        exact (step_committed E s0 m).1 hk
      | true =>
        right
        refine ⟨[], m, ms, rfl, by simpa [runSteps] using hk, ?_, ?_⟩
        · rw [runSteps_cons, hc]
          exact (step_committed E s0 m).2 hk
        · simpa [runSteps] using hq
    · right
      refine ⟨m :: p, m', suf, by rw [hms]; rfl, ?_, ?_, ?_⟩
      · simpa [runSteps_cons] using hcm
      · rw [runSteps_cons, hcw]; rfl
      · simpa [runSteps_cons] using hq

/-- tables only ever get their names from the descriptors written -/
theorem specStep_names {store : String → DbVal → DbVal} {T : Tables} {w : Desc × Option (List (Text × DbVal))}
    {t : Table} (h : t ∈ specStep store T w) : (∃ t0 ∈ T, t.name = t0.name) ∨ t.name = w.1.name := by
  have hddl : ∀ t ∈ ddl T w.1, (∃ t0 ∈ T, t.name = t0.name) ∨ t.name = w.1.name := by
    intro t ht
    obtain ⟨t0, h0, rfl⟩ := mem_ddl ht
    have hn : (if sameIdent t0.name w.1.name then addCols t0 w.1 else t0).name = t0.name := by split <;> rfl
    rw [hn]
    rcases mem_createTable h0 with hin | ⟨rfl, _⟩
    · exact Or.inl ⟨t0, hin, rfl⟩
    · exact Or.inr rfl
  unfold specStep at h
  split at h
  · obtain ⟨t0, h0, hn, _⟩ := mem_insertRow h
    rw [hn]; exact hddl t0 h0
  · exact hddl t h

theorem foldl_names {store : String → DbVal → DbVal} :
    ∀ (ws : List (Desc × Option (List (Text × DbVal)))) (T : Tables) (t : Table),
      t ∈ ws.foldl (specStep store) T → (∃ t0 ∈ T, t.name = t0.name) ∨ ∃ w ∈ ws, t.name = w.1.name := by
  intro ws
  induction ws with
  | nil => intro T t h; exact Or.inl ⟨t, h, rfl⟩
  | cons w ws ih =>
    intro T t h
    rcases ih _ t h with ⟨t1, h1, hn⟩ | ⟨w', hw', hn⟩
    · rcases specStep_names h1 with ⟨t0, h0, hn0⟩ | hn0
      · exact Or.inl ⟨t0, h0, hn.trans hn0⟩
      · exact Or.inr ⟨w, List.mem_cons_self, hn.trans hn0⟩
    · exact Or.inr ⟨w', List.mem_cons_of_mem _ hw', hn⟩

/-! ### what another connection sees is a prefix, table by table, of what the writer sees -/

theorem rowsOf_insertRow_grows (store : String → DbVal → DbVal) (T : Tables) (m n : Text) (cells : List (Text × DbVal)) :
    ∃ e, rowsOf (insertRow store T m cells) n = rowsOf T n ++ e := by
  rw [rowsOf_insertRow]
  unfold rowsOf
  cases T.find? (fun t => sameIdent t.name n) with
  | none => exact ⟨[], rfl⟩
  | some t =>
    simp only [optRows]
    split
    · exact ⟨_, rfl⟩
    · exact ⟨[], by simp⟩

theorem step_work_grows (E : Env DT) (s : St) (m : Step DT) (n : Text) :
    ∃ e, rowsOf (step E s m).1.work n = rowsOf s.work n ++ e := by
  cases ho : s.isOpen with
  | false => rw [step_closed E s m ho]; exact ⟨[], by simp⟩
  | true =>
    cases m with
    | flush => exact ⟨[], by simp [step, ho, commit]⟩
    | close => exact ⟨[], by simp [step, ho, commit]⟩
    | ensure d =>
      by_cases hm : d ∈ s.seen
      · exact ⟨[], by simp [step, ho, hm]⟩
      · cases hk : ddlOk s.work d with
        | false => exact ⟨[], by simp [step, ho, hm, hk]⟩
        | true => exact ⟨[], by simp [step, ho, hm, hk, commit, rowsOf_ddl]⟩
    | insert d vals =>
      rw [insert_work E s d vals ho]
      cases cellsOf E d vals with
      | none => exact ⟨[], by simp⟩
      | some cells => exact rowsOf_insertRow_grows E.store s.work d.name n cells

theorem committed_prefix (E : Env DT) (ms : List (Step DT)) : ∀ s : St,
    (∀ n, ∃ e, rowsOf s.work n = rowsOf s.committed n ++ e) →
    ∀ n, ∃ e, rowsOf (runSteps E s ms).work n = rowsOf (runSteps E s ms).committed n ++ e := by
  induction ms with
  | nil => intro s h; exact h
  | cons m ms ih =>
    intro s h
    rw [runSteps_cons]
    apply ih
    intro n
    cases hc : commits E s m with
    | true => rw [(step_committed E s m).2 hc]; exact ⟨[], by simp⟩
    | false =>
      rw [(step_committed E s m).1 hc]
      obtain ⟨e1, h1⟩ := h n
      obtain ⟨e2, h2⟩ := step_work_grows E s m n
      exact ⟨e1 ++ e2, by rw [h2, h1, List.append_assoc]⟩

/-! ### when SQLite accepts every DDL statement: column names pairwise different up to case -/

/-- on `U` the case-insensitive comparison is plain equality -/
def CaseDistinctOn (U : List Text) : Prop := ∀ a ∈ U, ∀ b ∈ U, sameIdent a b = true → a = b

theorem noClash_of_nodup (U : List Text) (hU : CaseDistinctOn U) : ∀ l : List Text, l.Nodup → (∀ c ∈ l, c ∈ U) →
    hasIdentClash l = false := by
  intro l
  induction l with
  | nil => intro _ _; rfl
  | cons a l ih =>
    intro hnd hsub
    simp only [List.nodup_cons] at hnd
    simp only [hasIdentClash, Bool.or_eq_false_iff]
    refine ⟨?_, ih hnd.2 (fun c hc => hsub c (List.mem_cons_of_mem _ hc))⟩
    rw [List.any_eq_false]
    intro b hb hs
    have := hU a (hsub a List.mem_cons_self) b (hsub b (List.mem_cons_of_mem _ hb)) hs
    exact hnd.1 (this ▸ hb)

/-- every table has distinct column names, all from `U` -/
def ColsGood (U : List Text) (T : Tables) : Prop := ∀ t ∈ T, (colNames t).Nodup ∧ ∀ c ∈ colNames t, c ∈ U

def DescGood (U : List Text) (d : Desc) : Prop := (d.fields.map (·.1)).Nodup ∧ ∀ f ∈ d.fields, f.1 ∈ U

theorem colsGood_addCols (U : List Text) (t : Table) (d : Desc) (ht : (colNames t).Nodup ∧ ∀ c ∈ colNames t, c ∈ U)
    (hd : DescGood U d) : (colNames (addCols t d)).Nodup ∧ ∀ c ∈ colNames (addCols t d), c ∈ U := by
  have hcn : colNames (addCols t d) =
      colNames t ++ ((d.fields.filter (fun f => !(colNames t).contains f.1)).map (·.1)) := by
    simp [colNames, addCols, List.map_map, Function.comp]
  rw [hcn]
  constructor
  · apply List.nodup_append.mpr
    refine ⟨ht.1, ?_, ?_⟩
    · exact (List.filter_sublist.map _).nodup hd.1
    · intro a ha b hb heq
      obtain ⟨f, hf, rfl⟩ := List.mem_map.mp hb
      have := (List.mem_filter.mp hf).2
      simp only [Bool.not_eq_true', List.contains_eq_mem, decide_eq_false_iff_not] at this
      exact this (heq ▸ ha)
  · intro c hc
    rcases List.mem_append.mp hc with hc | hc
    · exact ht.2 c hc
    · obtain ⟨f, hf, rfl⟩ := List.mem_map.mp hc
      exact hd.2 f (List.mem_filter.mp hf).1

theorem colsGood_ddl (U : List Text) (T : Tables) (d : Desc) (hT : ColsGood U T) (hd : DescGood U d) :
    ColsGood U (ddl T d) := by
  intro t ht
  obtain ⟨t0, h0, rfl⟩ := mem_ddl ht
  have h0good : (colNames t0).Nodup ∧ ∀ c ∈ colNames t0, c ∈ U := by
    rcases mem_createTable h0 with hin | ⟨rfl, _⟩
    · exact hT t0 hin
    · constructor
      · have : colNames ({ name := d.name, cols := d.fields.map (fun f => (f.1, colType f.2)), rows := [] } : Table)
            = d.fields.map (·.1) := by
          simp only [colNames, List.map_map]
          apply List.map_congr_left
          intro f _; rfl
        rw [this]; exact hd.1
      · intro c hc
        simp only [colNames, List.map_map, List.mem_map, Function.comp] at hc
        obtain ⟨f, hf, rfl⟩ := hc
        exact hd.2 f hf
  split
  · exact colsGood_addCols U t0 d h0good hd
  · exact h0good

theorem colsGood_insertRow (U : List Text) (store : String → DbVal → DbVal) (T : Tables) (n : Text)
    (cells : List (Text × DbVal)) (hT : ColsGood U T) : ColsGood U (insertRow store T n cells) := by
  intro t ht
  obtain ⟨t0, h0, _, hcols⟩ := mem_insertRow ht
  have := hT t0 h0
  simpa [colNames, hcols] using this

theorem ddlOk_of_good (U : List Text) (hU : CaseDistinctOn U) (T : Tables) (d : Desc) (hT : ColsGood U T)
    (hd : DescGood U d) (hres : reservedName d.name = false) : ddlOk T d = true := by
  simp only [ddlOk, hres, Bool.not_false, Bool.true_and, List.all_eq_true, Bool.or_eq_true, Bool.not_eq_true']
  intro t ht
  right
  obtain ⟨h1, h2⟩ := colsGood_ddl U T d hT hd t ht
  exact noClash_of_nodup U hU _ h1 h2

/-- if all field names of a history are pairwise different up to case (and no descriptor repeats a field name) and
    no type name begins with the reserved prefix `sqlite_`, SQLite accepts every CREATE TABLE / ADD COLUMN of the history -/
theorem accepted_of_caseDistinct (U : List Text) (hU : CaseDistinctOn U) (store : String → DbVal → DbVal) :
    ∀ (ws : List (Desc × Option (List (Text × DbVal)))) (T : Tables), ColsGood U T → (∀ w ∈ ws, DescGood U w.1) →
      (∀ w ∈ ws, reservedName w.1.name = false) → accepted store T ws = true := by
  intro ws
  induction ws with
  | nil => intro T _ _ _; rfl
  | cons w ws ih =>
    intro T hT hws hres
    have hd := hws w List.mem_cons_self
    simp only [accepted, Bool.and_eq_true]
    refine ⟨ddlOk_of_good U hU T w.1 hT hd (hres w List.mem_cons_self),
      ih _ ?_ (fun w' hw' => hws w' (List.mem_cons_of_mem _ hw')) (fun w' hw' => hres w' (List.mem_cons_of_mem _ hw'))⟩
    unfold specStep
    split
    · exact colsGood_insertRow U store _ _ _ (colsGood_ddl U T w.1 hT hd)
    · exact colsGood_ddl U T w.1 hT hd

/-! ### hypotheses about the runtime (never axioms) -/

/-- What SQLite's storage layer is assumed to do with a bound value, by declared column type
    (type affinity, https://sqlite.org/datatype3.html). Exercised against the real library by the harness. -/
structure SqliteLaws (store : String → DbVal → DbVal) : Prop where
  null_kept : ∀ ty, store ty .null = .null
  blob_kept : ∀ ty b, store ty (.blob b) = .blob b
  int_kept : ∀ ty i, (ty = "INTEGER" ∨ ty = "BIGINT") → store ty (.integer i) = .integer i
  real_kept : ∀ bits, bits ≠ negZero → store "REAL" (.real bits) = .real bits
  /-- -0.0 comes back as +0.0 (numerically equal) -/
  negzero : store "REAL" (.real negZero) = .real 0
  text_kept : ∀ s, store "TEXT" (.text s) = .text s
  int_as_text : ∀ i, store "TEXT" (.integer i) = .text (decimal i)

/-- ISO-8601 printing/parsing of timestamps (C13's subject) and the fact that such a text is not a numeric literal,
    so a NUMERIC-affinity column (`TIMESTAMPTZ`) keeps it as text. -/
structure IsoLaws {DT : Type} (iso : DT → Text) (parse : Text → Option DT) (store : String → DbVal → DbVal) : Prop where
  parse_iso : ∀ d, parse (iso d) = some d
  iso_kept : ∀ d, store "TIMESTAMPTZ" (.text (iso d)) = .text (iso d)

theorem affinityStore_laws : SqliteLaws affinityStore := by
  refine ⟨?_, ?_, ?_, ?_, ?_, ?_, ?_⟩
  · intro ty; rfl
  · intro ty b; rfl
  · intro ty i h
    have h1 : affinityOf "INTEGER" = .integer := by decide
    have h2 : affinityOf "BIGINT" = .integer := by decide
    rcases h with rfl | rfl <;> simp [affinityStore, h1, h2]
  · intro b hb; simp [affinityStore, hb]
  · decide
  · intro s; rfl
  · intro i
    have h1 : affinityOf "TEXT" = .text := by decide
    simp [affinityStore, h1]

end FlowRecord.Sqlite
