import FlowRecord.Model.Rx
/-!
Lemmas about the generic matcher `Rx.ends`: unfolding of `*`, and the closed form of `[class]*$`.
-/
namespace FlowRecord.Rx

theorem flatMap_congr' {α β : Type} {f g : α → List β} : ∀ (l : List α), (∀ a ∈ l, f a = g a) →
    l.flatMap f = l.flatMap g := by
  intro l
  induction l with
  | nil => intro _; rfl
  | cons a l ih =>
    intro h
    simp only [List.flatMap_cons]
    rw [h a List.mem_cons_self, ih (fun b hb => h b (List.mem_cons_of_mem _ hb))]

theorem starN_fuel (f : Pos → List Pos) : ∀ (n m : Nat) (q : Pos), q.2.length < n → q.2.length < m →
    starN f n q = starN f m q := by
  intro n
  induction n with
  | zero => intro m q h; omega
  | succ n ih =>
    intro m q hn hm
    cases m with
    | zero => omega
    | succ m =>
      simp only [starN]
      congr 1
      apply flatMap_congr'
      intro q' hq'
      have := (List.mem_filter.mp hq').2
      simp only [shorter, decide_eq_true_eq] at this
      exact ih m q' (by omega) (by omega)

/-- `r*` is: stop here, or one iteration of `r` that consumes something, then `r*` again. -/
theorem ends_star (a : Rx) (p : Pos) :
    ends (.star a) p = p :: ((ends a p).filter (shorter p)).flatMap (ends (.star a)) := by
  have e : ∀ q, ends (.star a) q = starN (ends a) (q.2.length + 1) q := fun q => by simp only [ends]
  rw [e p]
  simp only [starN]
  congr 1
  apply flatMap_congr'
  intro q hq
  rw [e q]
  have := (List.mem_filter.mp hq).2
  simp only [shorter, decide_eq_true_eq] at this
  exact starN_fuel _ _ _ _ (by omega) (by omega)

theorem ends_star_cls_nil (c : List (Nat × Nat)) (b : Bool) :
    ends (.star (.cls c)) (b, []) = [(b, [])] := by
  rw [ends_star]; simp [ends]

theorem ends_star_cls_cons (c : List (Nat × Nat)) (b : Bool) (x : Nat) (xs : Str) :
    ends (.star (.cls c)) (b, x :: xs) =
      (b, x :: xs) :: (if clsMem c x then ends (.star (.cls c)) (false, xs) else []) := by
  rw [ends_star]
  by_cases h : clsMem c x <;> simp [ends, h, shorter]

/-- Closed form of `[c]*$`: some end position exists iff the text is a run of class characters,
    optionally followed by one final newline (Python's `$`). -/
theorem star_cls_eol (c : List (Nat × Nat)) : ∀ (s : Str) (b : Bool),
    (∃ q ∈ ends (.star (.cls c)) (b, s), atEol q.2 = true) ↔
      ∃ t : Str, (s = t ∨ s = t ++ [10]) ∧ t.all (clsMem c) = true := by
  intro s
  induction s with
  | nil =>
    intro b
    rw [ends_star_cls_nil]
    constructor
    · intro _; exact ⟨[], Or.inl rfl, rfl⟩
    · intro _; exact ⟨(b, []), by simp, by simp [atEol]⟩
  | cons x xs ih =>
    intro b
    rw [ends_star_cls_cons]
    constructor
    · rintro ⟨q, hq, he⟩
      rcases List.mem_cons.mp hq with rfl | hq
      · -- stop here: the rest must be a lone newline
        simp only [atEol, Bool.or_eq_true, beq_iff_eq] at he
        rcases he with he | he
        · cases he
        · exact ⟨[], Or.inr (by simpa using he), rfl⟩
      · by_cases h : clsMem c x
        · simp only [h, if_true] at hq
          obtain ⟨t, ht, hall⟩ := (ih false).mp ⟨q, hq, he⟩
          refine ⟨x :: t, ?_, by simp [h, hall]⟩
          rcases ht with rfl | rfl
          · exact Or.inl rfl
          · exact Or.inr rfl
        · simp [h] at hq
    · rintro ⟨t, ht, hall⟩
      cases t with
      | nil =>
        rcases ht with ht | ht
        · cases ht
        · simp only [List.nil_append, List.cons.injEq] at ht
          refine ⟨(b, x :: xs), List.mem_cons_self, ?_⟩
          simp [atEol, ht.1, ht.2]
      | cons y t =>
        have hx : x = y ∧ (xs = t ∨ xs = t ++ [10]) := by
          rcases ht with ht | ht
          · simp only [List.cons.injEq] at ht; exact ⟨ht.1, Or.inl ht.2⟩
          · simp only [List.cons_append, List.cons.injEq] at ht; exact ⟨ht.1, Or.inr ht.2⟩
        obtain ⟨rfl, hxs⟩ := hx
        simp only [List.all_cons, Bool.and_eq_true] at hall
        obtain ⟨q, hq, he⟩ := (ih false).mpr ⟨t, hxs, hall.2⟩
        exact ⟨q, List.mem_cons_of_mem _ (by simpa [hall.1] using hq), he⟩

end FlowRecord.Rx
