import FlowRecord.Model.Rdump
import FlowRecordProofs.Lemmas.Readers
/-!
Helper lemmas for C16: `record_stream` over a list of sources, `islice`, the per-record steps.
-/
namespace FlowRecord.Rdump
open FlowRecord FlowRecord.Readers

variable {R V : Type}

/-- No source ends with, and the selector never raises, something `record_stream` re-raises. -/
def Continues (handlers : List (String × String)) (sel : Option (Matcher R ErrKind)) (srcs : List (Source R)) : Prop :=
  ∀ s ∈ srcs, ∀ e, (readSource sel s).err = some e → actionIn handlers e = "next"

theorem recordStreamIn_flat (handlers : List (String × String)) (sel : Option (Matcher R ErrKind))
    (srcs : List (Source R)) (h : Continues handlers sel srcs) :
    recordStreamIn handlers sel srcs = ⟨srcs.flatMap (fun s => (readSource sel s).out), none⟩ := by
  induction srcs with
  | nil => rfl
  | cons s rest ih =>
    have ih' := ih (fun x hx => h x (by simp [hx]))
    simp only [recordStreamIn, ih', List.flatMap_cons]
    cases he : (readSource sel s).err with
    | none => rfl
    | some e =>
      have := h s (by simp) e he
      simp [this]

theorem continues_append (handlers : List (String × String)) (sel : Option (Matcher R ErrKind))
    (a b : List (Source R)) : Continues handlers sel (a ++ b) ↔ Continues handlers sel a ∧ Continues handlers sel b := by
  unfold Continues
  constructor
  · intro h; exact ⟨fun s hs => h s (by simp [hs]), fun s hs => h s (by simp [hs])⟩
  · intro ⟨ha, hb⟩ s hs
    rcases List.mem_append.mp hs with h | h
    · exact ha s h
    · exact hb s h

theorem action_io : action .io = "next" := by decide
theorem action_other : action .other = "next" := by decide

/-- With the handlers of the current source, everything but a KeyboardInterrupt lets the stream continue. -/
theorem continues_of_no_interrupt (sel : Option (Matcher R ErrKind)) (srcs : List (Source R))
    (h : ∀ s ∈ srcs, (readSource sel s).err ≠ some .interrupt) : Continues Gen.recordStreamHandlers sel srcs := by
  intro s hs e he
  cases e with
  | io => exact action_io
  | other => exact action_other
  | interrupt => exact absurd he (h s hs)

theorem readSource_total (m : Matcher R ErrKind) (p : R → Bool) (s : Source R)
    (h : ∀ r ∈ s.readable, m r = .ok (p r)) : readSource (some m) s = ⟨s.readable.filter p, s.fails⟩ :=
  filterAfter_total m p s.readable s.fails h

theorem filterAfter_congr {E : Type} (m m' : Matcher R E) (xs : List R) (e : Option E) (h : ∀ x ∈ xs, m x = m' x) :
    filterAfter m xs e = filterAfter m' xs e := by
  induction xs with
  | nil => rfl
  | cons x t ih =>
    simp only [filterAfter, h x (by simp), ih (fun y hy => h y (by simp [hy]))]

/-- A selector that raises on the record after `pre` (and is total before): the source contributes the matching
    records of `pre` and ends with that exception, whatever follows. -/
theorem filterAfter_raise {E : Type} (m : Matcher R E) (p : R → Bool) (pre : List R) (r : R) (post : List R) (x : E)
    (e : Option E) (hpre : ∀ y ∈ pre, m y = .ok (p y)) (hr : m r = .error x) :
    filterAfter m (pre ++ r :: post) e = ⟨pre.filter p, some x⟩ := by
  induction pre with
  | nil => simp [filterAfter, hr, Run.fail]
  | cons y t ih =>
    have hy := hpre y (by simp)
    have := ih (fun z hz => hpre z (by simp [hz]))
    simp only [List.cons_append, filterAfter, hy, this]
    cases hp : p y <;> simp [Run.cons, List.filter, hp]

theorem islice_spec (h : Gen.rdumpStopNoneWhenCountFalsy = true) {α : Type} (xs : List α) (skip : Nat)
    (count : Option Nat) : islice xs skip (sliceStop skip count) = sliceSpec skip count xs := by
  cases count with
  | none => rfl
  | some c =>
    cases c with
    | zero => simp [sliceStop, h, islice, sliceSpec]
    | succ n =>
      simp only [sliceStop, h, islice, sliceSpec]
      simp [List.take_drop, Nat.add_comm]

theorem perRecord_eq (o : Opts V) (r : Rec V) :
    perRecord o r = project o.fields o.exclude (overrideClassification o.classification (overrideSource o.source r)) := by
  simp [perRecord, perRecordIn, Gen.rdumpLoopOrder, applyStep]

theorem project_fields_sub (F X : List String) (r : Rec V) : ∀ f ∈ (project F X r).fields, f ∈ r.fields := by
  intro f hf
  unfold project at hf
  split at hf
  · exact hf
  · split at hf
    · simp only [List.mem_filterMap] at hf
      obtain ⟨n, _, hn⟩ := hf
      exact List.mem_of_find?_eq_some hn
    · exact (List.mem_filter.mp hf).1

theorem project_meta (F X : List String) (r : Rec V) :
    (project F X r).name = r.name ∧ (project F X r).source = r.source ∧
    (project F X r).classification = r.classification ∧ (project F X r).generated = r.generated := by
  unfold project
  split
  · simp
  · split <;> simp

theorem flatMap_congr' {α β : Type} (l : List α) (f g : α → List β) (h : ∀ x ∈ l, f x = g x) :
    l.flatMap f = l.flatMap g := by
  induction l with
  | nil => rfl
  | cons a t ih => simp [List.flatMap_cons, h a (by simp), ih (fun x hx => h x (by simp [hx]))]

theorem flatMap_singleton' {α : Type} (l : List α) : l.flatMap (fun x => [x]) = l := by
  induction l with
  | nil => rfl
  | cons a t ih => simp [List.flatMap_cons, ih]

theorem project_fields_of_F (F X : List String) (r : Rec V) (h : F ≠ []) :
    (project F X r).fields = (F.filter (fun n => !X.contains n)).filterMap
      (fun n => r.fields.find? (fun f => f.2.1 == n)) := by
  cases F with
  | nil => exact absurd rfl h
  | cons a t => simp [project]

theorem project_fields_of_X (X : List String) (r : Rec V) :
    (project [] X r).fields = r.fields.filter (fun f => !X.contains f.2.1) := by
  cases X with
  | nil =>
    have : (List.filter (fun _ : String × String × V => true) r.fields) = r.fields := by
      induction r.fields with
      | nil => rfl
      | cons a t ih => simp [ih]
    simp [project, this]
  | cons a t => simp [project]

theorem filterMap_find_names (r : Rec V) (ns : List String) :
    (ns.filterMap (fun n => r.fields.find? (fun f => f.2.1 == n))).map (·.2.1)
      = ns.filter (fun n => r.fieldNames.contains n) := by
  induction ns with
  | nil => rfl
  | cons n t ih =>
    simp only [List.filterMap_cons, List.filter_cons]
    cases hf : r.fields.find? (fun f => f.2.1 == n) with
    | none =>
      have : n ∉ r.fieldNames := by
        simp only [List.find?_eq_none] at hf
        simp only [Rec.fieldNames, List.mem_map]
        rintro ⟨f, hfm, hfn⟩
        exact hf f hfm (by simp [hfn])
      simp [this, ih]
    | some f =>
      have hn : f.2.1 = n := by
        have := List.find?_some hf
        simpa using this
      have hm : n ∈ r.fieldNames := by
        simp only [Rec.fieldNames, List.mem_map]
        exact ⟨f, List.mem_of_find?_eq_some hf, hn⟩
      simp [hm, ih, hn]

end FlowRecord.Rdump
