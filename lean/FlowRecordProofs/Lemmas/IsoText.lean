import FlowRecord.Model.DateTime
/-!
Digit and ISO-text lemmas for C13: reading back what `d2/d4/d6`, `frac`, `fmtOffset` print.
-/
namespace FlowRecord.DateTime

theorem dig_digit (k : Nat) (h : k < 10) : dig (48 + k) = some k := by
  unfold dig
  rw [if_pos (by omega)]
  congr 1; omega

theorem rd2_d2 (n : Nat) (h : n < 100) (r : Text) : rd2 (d2 n ++ r) = some (n, r) := by
  have h1 := dig_digit (n / 10 % 10) (by omega)
  have h2 := dig_digit (n % 10) (by omega)
  simp only [d2, List.cons_append, List.nil_append, rd2, h1, h2]
  congr 2; omega

theorem rd4_d4 (n : Nat) (h : n < 10000) (r : Text) : rd4 (d4 n ++ r) = some (n, r) := by
  have h1 := dig_digit (n / 1000 % 10) (by omega)
  have h2 := dig_digit (n / 100 % 10) (by omega)
  have h3 := dig_digit (n / 10 % 10) (by omega)
  have h4 := dig_digit (n % 10) (by omega)
  simp only [d4, List.cons_append, List.nil_append, rd4, h1, h2, h3, h4]
  congr 2; omega

theorem rd6_d6 (n : Nat) (h : n < 1000000) (r : Text) : rd6 (d6 n ++ r) = some (n, r) := by
  have h1 := dig_digit (n / 100000 % 10) (by omega)
  have h2 := dig_digit (n / 10000 % 10) (by omega)
  have h3 := dig_digit (n / 1000 % 10) (by omega)
  have h4 := dig_digit (n / 100 % 10) (by omega)
  have h5 := dig_digit (n / 10 % 10) (by omega)
  have h6 := dig_digit (n % 10) (by omega)
  simp only [d6, List.cons_append, List.nil_append, rd6, h1, h2, h3, h4, h5, h6]
  congr 2; omega

/-- The fraction is read back when what follows does not itself start with a `.`. -/
theorem rdFrac_frac (us : Nat) (h : us < 1000000) (r : Text) (hr : ∀ x t, r = x :: t → x ≠ 46) :
    rdFrac (frac us ++ r) = some (us, r) := by
  unfold frac
  by_cases h0 : us = 0
  · subst h0
    simp only [if_true, List.nil_append]
    cases r with
    | nil => rfl
    | cons x t => simp only [rdFrac, if_neg (hr x t rfl)]
  · simp only [if_neg h0, List.cons_append, rdFrac, if_true]
    exact rd6_d6 us h r

theorem fmtOffset_head (o : Int) : ∀ x t, fmtOffset o = x :: t → x ≠ 46 := by
  intro x t h
  unfold fmtOffset at h
  simp only [List.cons.injEq] at h
  have := h.1
  split at this <;> omega

theorem fmtTz_head (tz : Tz) : ∀ x t, fmtTz tz = x :: t → x ≠ 46 := by
  intro x t h
  cases tz with
  | naive => simp [fmtTz] at h
  | utc => exact fmtOffset_head _ x t h
  | fixed o => exact fmtOffset_head _ x t h
  | zone a b f => exact fmtOffset_head _ x t h


theorem parseTzSec_tail (a : Nat) :
    parseTzSec (if a % 60000000 = 0 then [] else 58 :: (d2 (a / 1000000 % 60) ++ frac (a % 1000000)))
      = some (a / 1000000 % 60, a % 1000000) := by
  by_cases h0 : a % 60000000 = 0
  · simp only [if_pos h0, parseTzSec]
    congr 2 <;> omega
  · simp only [if_neg h0, parseTzSec, if_true]
    rw [rd2_d2 _ (by omega)]
    have := rdFrac_frac (a % 1000000) (by omega) [] (by intro x t h; cases h)
    rw [List.append_nil] at this
    simp only [Option.bind_some, this]

theorem parseTz_fmtOffset (o : Int) (h : OffInRange o) :
    parseTz (fmtOffset o) = some (if o.natAbs < 1000000 then .utc else .fixed o) := by
  obtain ⟨h1, h2⟩ := h
  have ha : o.natAbs < 86400000000 := by omega
  have hsum : (o.natAbs / 3600000000 * 3600 + o.natAbs / 60000000 % 60 * 60 + o.natAbs / 1000000 % 60) * 1000000
      + o.natAbs % 1000000 = o.natAbs := by omega
  have hsec : (o.natAbs / 3600000000 * 3600 + o.natAbs / 60000000 % 60 * 60 + o.natAbs / 1000000 % 60 = 0)
      ↔ o.natAbs < 1000000 := by omega
  by_cases hn : o < 0
  · unfold fmtOffset
    simp only [if_pos hn, parseTz, Nat.reduceEqDiff, or_true, if_true]
    rw [rd2_d2 _ (by omega)]
    simp only [Option.bind_some, lit, if_true]
    rw [rd2_d2 _ (by omega)]
    simp only [Option.bind_some, parseTzSec_tail, hsum, hsec]
    by_cases hz : o.natAbs < 1000000
    · rw [if_pos hz, if_pos hz]
    · rw [if_neg hz, if_pos ha, if_neg hz]
      congr 2; omega
  · unfold fmtOffset
    simp only [if_neg hn, parseTz, Nat.reduceEqDiff, true_or, if_true]
    rw [rd2_d2 _ (by omega)]
    simp only [Option.bind_some, lit, if_true]
    rw [rd2_d2 _ (by omega)]
    simp only [Option.bind_some, parseTzSec_tail, hsum, hsec]
    by_cases hz : o.natAbs < 1000000
    · rw [if_pos hz, if_pos hz]
    · rw [if_neg hz, if_pos ha, if_neg hz]
      congr 2; simp only [if_false]; omega

def fixedTz : Tz → Tz
  | .naive => .naive
  | tz => normOff tz.off

theorem fixedView_eq (t : DT) : fixedView t = { t with tz := fixedTz t.tz } := by
  unfold fixedView fixedTz
  cases t.tz <;> rfl

theorem parseTz_fmtTz (tz : Tz) (hv : tz.Valid) (hp : tz.off = 0 ∨ 1000000 ≤ tz.off.natAbs) :
    parseTz (fmtTz tz) = some (fixedTz tz) := by
  have key : ∀ o : Int, OffInRange o → (o = 0 ∨ 1000000 ≤ o.natAbs) → parseTz (fmtOffset o) = some (normOff o) := by
    intro o ho hp
    rw [parseTz_fmtOffset o ho]
    unfold normOff
    by_cases h0 : o = 0
    · subst h0; simp
    · rw [if_neg (by omega), if_neg h0]
  cases tz with
  | naive => rfl
  | utc => exact key 0 (by constructor <;> omega) (Or.inl rfl)
  | fixed o => exact key o hv.2 hp
  | zone a b f =>
    apply key _ _ hp
    simp only [Tz.off]
    split
    · exact hv.2
    · exact hv.1

theorem fixedTz_valid (tz : Tz) (hv : tz.Valid) : (fixedTz tz).Valid := by
  have key : ∀ o : Int, OffInRange o → (normOff o).Valid := by
    intro o ho
    unfold normOff
    by_cases h0 : o = 0
    · rw [if_pos h0]; trivial
    · rw [if_neg h0]; exact ⟨h0, ho⟩
  cases tz with
  | naive => trivial
  | utc => trivial
  | fixed o => exact key o hv.2
  | zone a b f =>
    apply key
    simp only [Tz.off]
    split
    · exact hv.2
    · exact hv.1

theorem parseIso_toIso (t : DT) (hv : t.Valid) (hp : OffsetPrintable t) :
    parseIso (toIso t) = some (fixedView t) := by
  obtain ⟨hy1, hy2, hm1, hm2, hd1, hd2, hh, hmi, hs, hus, htz⟩ := hv
  have hdm : t.d < 100 := by
    have : daysInMonth t.y t.mo ≤ 31 := by unfold daysInMonth; split <;> split <;> omega
    omega
  unfold toIso parseIso
  rw [rd4_d4 _ (by omega)]
  simp only [Option.bind_some, lit, if_true]
  rw [rd2_d2 _ (by omega)]
  simp only [Option.bind_some, if_true]
  rw [rd2_d2 _ hdm]
  simp only [Option.bind_some, if_true]
  rw [rd2_d2 _ (by omega)]
  simp only [Option.bind_some, if_true]
  rw [rd2_d2 _ (by omega)]
  simp only [Option.bind_some, if_true]
  rw [rd2_d2 _ (by omega)]
  simp only [Option.bind_some]
  rw [rdFrac_frac _ hus _ (fmtTz_head t.tz)]
  simp only [Option.bind_some]
  rw [parseTz_fmtTz t.tz htz hp]
  simp only [Option.bind_some]
  rw [if_pos, fixedView_eq]
  exact ⟨hy1, hy2, hm1, hm2, hd1, hd2, hh, hmi, hs, hus, fixedTz_valid t.tz htz⟩
theorem normOff_off (o : Int) : (normOff o).off = o := by
  unfold normOff
  by_cases h : o = 0
  · rw [if_pos h, h]; rfl
  · rw [if_neg h]; rfl

theorem normOff_aware (o : Int) : normOff o ≠ .naive := by
  unfold normOff
  by_cases h : o = 0
  · rw [if_pos h]; exact Tz.noConfusion
  · rw [if_neg h]; exact Tz.noConfusion

theorem fixedTz_off (tz : Tz) : (fixedTz tz).off = tz.off := by
  cases tz with
  | naive => rfl
  | utc => exact normOff_off _
  | fixed o => exact normOff_off _
  | zone a b f => exact normOff_off _

theorem fixedTz_aware (tz : Tz) (h : tz ≠ .naive) : fixedTz tz ≠ .naive := by
  cases tz with
  | naive => exact absurd rfl h
  | utc => exact normOff_aware _
  | fixed o => exact normOff_aware _
  | zone a b f => exact normOff_aware _

theorem naiveAsUtc_of_aware (t : DT) (h : t.tz ≠ .naive) : naiveAsUtc t = t := by
  unfold naiveAsUtc
  split
  · rename_i heq; exact absurd heq h
  · rfl

theorem naiveAsUtc_aware (t : DT) : (naiveAsUtc t).tz ≠ .naive := by
  unfold naiveAsUtc
  split
  · exact Tz.noConfusion
  · assumption

theorem naiveAsUtc_fixedView (t : DT) (h : t.tz ≠ .naive) : naiveAsUtc (fixedView t) = fixedView t := by
  apply naiveAsUtc_of_aware
  rw [fixedView_eq]
  exact fixedTz_aware t.tz h

theorem fixedView_utc (t : DT) (h : t.tz = .utc) : fixedView t = t := by
  rw [fixedView_eq, h]
  cases t
  simp_all [fixedTz, normOff, Tz.off]

end FlowRecord.DateTime
