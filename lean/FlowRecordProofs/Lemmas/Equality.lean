import FlowRecord.Model.Equality
/-!
Lemmas for C12: structural properties of `veq` / `vhash` over packed-value trees, for every primitive equality and
hash that satisfy CPython's contract (`HashLaws`, a hypothesis — never an axiom).
-/
namespace FlowRecord.Equality
open FlowRecord FlowRecord.Descriptor

/-- CPython's contract for the primitive leaves (str, int, float, bytes, bool, None, datetime, …):
    `==` is reflexive on identical objects, symmetric, and equal objects have equal hashes. -/
structure HashLaws {P : Type} (E : P → P → Bool) (H : P → Option Nat) : Prop where
  refl : ∀ p, E p p = true
  symm : ∀ a b, E a b = E b a
  hash_eq : ∀ a b, E a b = true → H a = H b

variable {P : Type}

theorem primsEq_refl (E : P → P → Bool) (hE : ∀ p, E p p = true) : ∀ ks : List P, primsEq E ks ks = true
  | [] => rfl
  | k :: ks => by simp [primsEq, hE k, primsEq_refl E hE ks]

theorem primsEq_symm (E : P → P → Bool) (hE : ∀ a b, E a b = E b a) : ∀ as bs : List P, primsEq E as bs = primsEq E bs as
  | [], [] => rfl
  | [], _ :: _ => rfl
  | _ :: _, [] => rfl
  | a :: as, b :: bs => by simp [primsEq, hE a b, primsEq_symm E hE as bs]

theorem primsEq_hash (E : P → P → Bool) (H : P → Option Nat) (hH : ∀ a b, E a b = true → H a = H b) :
    ∀ as bs : List P, primsEq E as bs = true → mapM' H as = mapM' H bs
  | [], [], _ => rfl
  | [], _ :: _, h => by simp [primsEq] at h
  | _ :: _, [], h => by simp [primsEq] at h
  | a :: as, b :: bs, h => by
    simp only [primsEq, Bool.and_eq_true] at h
    simp only [mapM', hH a b h.1, primsEq_hash E H hH as bs h.2]

mutual
theorem veq_refl (E : P → P → Bool) (h : Str → Nat) (hE : ∀ p, E p p = true) : ∀ v : Val P, veq E h v v = true
  | .prim p => by simp [veq, hE p]
  | .seq t xs => by simp [veq, veqs_refl E h hE xs]
  | .dict ks vs => by simp [veq, primsEq_refl E hE ks, veqs_refl E h hE vs]
  | .record d vs => by simp [veq, veqs_refl E h hE vs]
  | .grouped n ms => by simp [veq, veqs_refl E h hE ms]
theorem veqs_refl (E : P → P → Bool) (h : Str → Nat) (hE : ∀ p, E p p = true) : ∀ vs : List (Val P), veqs E h vs vs = true
  | [] => rfl
  | v :: vs => by simp [veqs, veq_refl E h hE v, veqs_refl E h hE vs]
end

mutual
theorem veq_symm (E : P → P → Bool) (h : Str → Nat) (hE : ∀ a b, E a b = E b a) :
    ∀ a b : Val P, veq E h a b = veq E h b a
  | .prim a, b => by cases b <;> simp [veq, hE a]
  | .seq t xs, b => by
    cases b with
    | seq t' ys => simp only [veq, veqs_symm E h hE xs ys]; rw [Bool.beq_comm]
    | _ => simp [veq]
  | .dict ks vs, b => by
    cases b with
    | dict ks' vs' => simp only [veq, veqs_symm E h hE vs vs', primsEq_symm E hE ks ks']
    | _ => simp [veq]
  | .record d vs, b => by
    cases b with
    | record d' vs' => simp only [veq, veqs_symm E h hE vs vs']; rw [Bool.beq_comm]
    | _ => simp [veq]
  | .grouped n ms, b => by
    cases b with
    | grouped n' ms' => simp only [veq, veqs_symm E h hE ms ms']; rw [Bool.beq_comm]
    | _ => simp [veq]
theorem veqs_symm (E : P → P → Bool) (h : Str → Nat) (hE : ∀ a b, E a b = E b a) :
    ∀ as bs : List (Val P), veqs E h as bs = veqs E h bs as
  | [], [] => rfl
  | [], _ :: _ => rfl
  | _ :: _, [] => rfl
  | a :: as, b :: bs => by simp only [veqs, veq_symm E h hE a b, veqs_symm E h hE as bs]
end

mutual
theorem veq_hash (E : P → P → Bool) (H : P → Option Nat) (C : Combine) (h : Str → Nat)
    (hH : ∀ a b, E a b = true → H a = H b) : ∀ a b : Val P, veq E h a b = true → vhash H C h a = vhash H C h b
  | .prim a, b, he => by
    cases b with
    | prim b => simp only [veq] at he; simp only [vhash, hH a b he]
    | _ => simp [veq] at he
  | .seq t xs, b, he => by
    cases b with
    | seq t' ys =>
      simp only [veq, Bool.and_eq_true] at he
      simp only [vhash, veqs_hash E H C h hH xs ys he.2]
    | _ => simp [veq] at he
  | .dict ks vs, b, he => by
    cases b with
    | dict ks' vs' =>
      simp only [veq, Bool.and_eq_true] at he
      simp only [vhash, veqs_hash E H C h hH vs vs' he.2, primsEq_hash E H hH ks ks' he.1]
    | _ => simp [veq] at he
  | .record d vs, b, he => by
    cases b with
    | record d' vs' =>
      simp only [veq, Bool.and_eq_true, beq_iff_eq, identifier, Prod.mk.injEq] at he
      simp only [vhash, veqs_hash E H C h hH vs vs' he.2, he.1.1, he.1.2]
    | _ => simp [veq] at he
  | .grouped n ms, b, he => by
    cases b with
    | grouped n' ms' =>
      simp only [veq, Bool.and_eq_true, beq_iff_eq] at he
      simp only [vhash, veqs_hash E H C h hH ms ms' he.2, he.1]
    | _ => simp [veq] at he
theorem veqs_hash (E : P → P → Bool) (H : P → Option Nat) (C : Combine) (h : Str → Nat)
    (hH : ∀ a b, E a b = true → H a = H b) :
    ∀ as bs : List (Val P), veqs E h as bs = true → vhashes H C h as = vhashes H C h bs
  | [], [], _ => rfl
  | [], _ :: _, he => by simp [veqs] at he
  | _ :: _, [], he => by simp [veqs] at he
  | a :: as, b :: bs, he => by
    simp only [veqs, Bool.and_eq_true] at he
    simp only [vhashes, veq_hash E H C h hH a b he.1, veqs_hash E H C h hH as bs he.2]
end

/-- two lists have the same length and are related elementwise -/
def Pairwise2 {α β : Type} (R : α → β → Prop) : List α → List β → Prop
  | [], [] => True
  | a :: as, b :: bs => R a b ∧ Pairwise2 R as bs
  | _, _ => False

/-- `veqs` is pairwise `veq` -/
theorem veqs_iff (E : P → P → Bool) (h : Str → Nat) : ∀ as bs : List (Val P),
    veqs E h as bs = true ↔ Pairwise2 (fun a b => veq E h a b = true) as bs
  | [], [] => by simp [veqs, Pairwise2]
  | [], _ :: _ => by simp [veqs, Pairwise2]
  | _ :: _, [] => by simp [veqs, Pairwise2]
  | a :: as, b :: bs => by simp [veqs, Pairwise2, veqs_iff E h as bs]

end FlowRecord.Equality

namespace FlowRecord.Equality
open FlowRecord FlowRecord.Descriptor
variable {P : Type}

mutual
/-- every primitive leaf and every dict key of the tree is hashable -/
def hashable (H : P → Option Nat) : Val P → Bool
  | .prim p => (H p).isSome
  | .seq _ xs => hashables H xs
  | .dict ks vs => ks.all (fun k => (H k).isSome) && hashables H vs
  | .record _ vs => hashables H vs
  | .grouped _ ms => hashables H ms
def hashables (H : P → Option Nat) : List (Val P) → Bool
  | [] => true
  | v :: vs => hashable H v && hashables H vs
end

theorem mapM'_isSome (H : P → Option Nat) : ∀ ks : List P, ks.all (fun k => (H k).isSome) = true →
    (mapM' H ks).isSome = true
  | [], _ => rfl
  | k :: ks, h => by
    simp only [List.all_cons, Bool.and_eq_true] at h
    have h2 := mapM'_isSome H ks h.2
    cases hk : H k with
    | none => simp [hk] at h
    | some x =>
      cases hm : mapM' H ks with
      | none => simp [hm] at h2
      | some xs => simp [mapM', hk, hm]

mutual
theorem vhash_isSome (H : P → Option Nat) (C : Combine) (h : Str → Nat) :
    ∀ v : Val P, hashable H v = true → (vhash H C h v).isSome = true
  | .prim p, hv => by simpa [hashable, vhash] using hv
  | .seq t xs, hv => by
    have := vhashes_isSome H C h xs (by simpa [hashable] using hv)
    cases hx : vhashes H C h xs with
    | none => simp [hx] at this
    | some l => simp [vhash, hx]
  | .dict ks vs, hv => by
    simp only [hashable, Bool.and_eq_true] at hv
    have h1 := mapM'_isSome H ks hv.1
    have h2 := vhashes_isSome H C h vs hv.2
    cases hk : mapM' H ks with
    | none => simp [hk] at h1
    | some l1 =>
      cases hx : vhashes H C h vs with
      | none => simp [hx] at h2
      | some l2 => simp [vhash, hk, hx]
  | .record d vs, hv => by
    have := vhashes_isSome H C h vs (by simpa [hashable] using hv)
    cases hx : vhashes H C h vs with
    | none => simp [hx] at this
    | some l => simp [vhash, hx]
  | .grouped n ms, hv => by
    have := vhashes_isSome H C h ms (by simpa [hashable] using hv)
    cases hx : vhashes H C h ms with
    | none => simp [hx] at this
    | some l => simp [vhash, hx]
theorem vhashes_isSome (H : P → Option Nat) (C : Combine) (h : Str → Nat) :
    ∀ vs : List (Val P), hashables H vs = true → (vhashes H C h vs).isSome = true
  | [], _ => rfl
  | v :: vs, hv => by
    simp only [hashables, Bool.and_eq_true] at hv
    have h1 := vhash_isSome H C h v hv.1
    have h2 := vhashes_isSome H C h vs hv.2
    cases hx : vhash H C h v with
    | none => simp [hx] at h1
    | some a =>
      cases hy : vhashes H C h vs with
      | none => simp [hy] at h2
      | some l => simp [vhashes, hx, hy]
end

theorem hashables_keep (H : P → Option Nat) (ig : List Str) : ∀ (ns : List Str) (vs : List (Val P)),
    hashables H vs = true → hashables H (keep ig ns vs) = true
  | [], _, _ => by simp [keep, hashables]
  | _ :: _, [], _ => by simp [keep, hashables]
  | n :: ns, v :: vs, hv => by
    simp only [hashables, Bool.and_eq_true] at hv
    simp only [keep]
    split
    · exact hashables_keep H ig ns vs hv.2
    · simp [hashables, hv.1, hashables_keep H ig ns vs hv.2]

mutual
theorem hashable_norm (H : P → Option Nat) (ig : List Str) : ∀ v : Val P, hashable H v = true → hashable H (norm ig v) = true
  | .prim p, hv => by simpa [norm] using hv
  | .seq t xs, hv => by simp only [norm, hashable] at hv ⊢; exact hashables_norms H ig xs hv
  | .dict ks vs, hv => by
    simp only [norm, hashable, Bool.and_eq_true] at hv ⊢
    exact ⟨hv.1, hashables_norms H ig vs hv.2⟩
  | .record d vs, hv => by
    simp only [norm, hashable] at hv ⊢
    exact hashables_keep H ig _ _ (hashables_norms H ig vs hv)
  | .grouped n ms, hv => by simp only [norm, hashable] at hv ⊢; exact hashables_norms H ig ms hv
theorem hashables_norms (H : P → Option Nat) (ig : List Str) :
    ∀ vs : List (Val P), hashables H vs = true → hashables H (norms ig vs) = true
  | [], _ => rfl
  | v :: vs, hv => by
    simp only [hashables, Bool.and_eq_true] at hv
    simp [norms, hashables, hashable_norm H ig v hv.1, hashables_norms H ig vs hv.2]
end

end FlowRecord.Equality
