import FlowRecord.Model.Selector.PyOps
/-! Dispatch lemmas for C08: the finite facts about the generated tables (`decide`/`rfl`) and their lifting to
    every other operand. -/
namespace FlowRecord.Selector
open FlowRecord

/-- What the documentation says each comparison operator of the interpreted engine does. -/
def docImpl : SelOp → CmpImpl
  | .cmp o => .rich o
  | .isin => .guardedIn
  | .notin => .guardedNotIn

/-- Finite fact about the generated `AST_COMPARATORS`: every operator maps to its documented implementation. -/
theorem interpCompare_doc (T : ClassTable) (op : SelOp) (l r : PVal) :
    interpCompare T op.astName l r = applyCmpImpl T (docImpl op) l r := by
  cases op with
  | cmp o => cases o <;> rfl
  | isin => rfl
  | notin => rfl

/-- Finite fact about the generated `NoneObject` method table: all six comparison hooks exist and return False. -/
theorem sentinel_hooks : ∀ op ∈ CmpOp.all, sentinelRaw op.dunder = some "False" := by decide

theorem sentinel_contains_hook : sentinelRaw "__contains__" = some "False" := by decide

theorem sentinelCmp_false (op : CmpOp) (other : PVal) : sentinelCmp op other = .val (.bool false) := by
  have h := sentinel_hooks op (by cases op <;> simp [CmpOp.all])
  simp [sentinelCmp, h, constRes]

theorem sentinelContains_false : sentinelContains = .ok false := by
  simp [sentinelContains, sentinel_contains_hook, constRes, constTruthy]

/-- sentinel on the left: its own hook answers, whatever the other operand is -/
theorem richcmp_missing_left (T : ClassTable) (op : CmpOp) (v : PVal) :
    richcmp T op .missing v = .ok (.bool false) := by
  simp [richcmp, slot, sentinelCmp_false]

/-- sentinel on the right: the other operand declines, the reflected hook of the sentinel answers -/
theorem richcmp_missing_right (T : ClassTable) (op : CmpOp) (v : PVal) (hv : Foreign T v) :
    richcmp T op v .missing = .ok (.bool false) := by
  have h1 := hv op
  unfold richcmp
  rw [h1]
  simp [slot, sentinelCmp_false]

theorem pyIn_missing_right (T : ClassTable) (x : PVal) : pyIn T x .missing = .ok false := by
  simp [pyIn, sentinelContains_false]

/-- `sentinel in [..]`: every element declines `==`, the sentinel's reflected `__eq__` says False -/
theorem listContains_missing (T : ClassTable) (xs : List PVal)
    (h : ∀ x ∈ xs, Foreign T x ∧ x.isMissing = false) : listContains T .missing xs = .ok false := by
  induction xs with
  | nil => rfl
  | cons el rest ih =>
    have hel := h el (by simp)
    have hid : isId T el .missing = false := by
      cases el <;> simp_all [isId, PVal.isMissing]
    have hcmp := richcmp_missing_right T .eq el hel.1
    simp only [listContains, hid, hcmp]
    simp only [truthyOf]
    exact ih (fun x hx => h x (by simp [hx]))

end FlowRecord.Selector
