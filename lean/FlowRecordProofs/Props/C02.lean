import FlowRecordProofs.Lemmas.FieldPack
import FlowRecordProofs.Lemmas.Msgpack
import FlowRecordProofs.Lemmas.Framing
import FlowRecordProofs.Lemmas.MsgpackAny
import FlowRecordProofs.Lemmas.SameDoc
import FlowRecordProofs.Lemmas.StreamRoundtrip
import FlowRecord.Model.Stream
import FlowRecord.Spec.Wire
/-!
C02 — written bytes conform to the frozen RecordStream wire format. Property theorems only.
-/
open FlowRecord FlowRecord.Msgpack FlowRecord.Stream FlowRecord.Wire

/-- Inst: every wire constant read off the current source equals the frozen, hand-typed specification.
    (A symmetric edit of writer and reader keeps all round-trip tests green and breaks exactly this.) -/
theorem C02_constants_frozen :
    Gen.RECORDSTREAM_MAGIC = Spec.magic ∧ Gen.RECORD_PACK_EXT_TYPE = Spec.extType ∧
    Gen.RECORD_PACK_TYPE_RECORD = Spec.subRecord ∧ Gen.RECORD_PACK_TYPE_DESCRIPTOR = Spec.subDescriptor ∧
    Gen.RECORD_PACK_TYPE_FIELDTYPE = Spec.subFieldtype ∧ Gen.RECORD_PACK_TYPE_DATETIME = Spec.subDatetime ∧
    Gen.RECORD_PACK_TYPE_VARINT = Spec.subVarint ∧ Gen.RECORD_PACK_TYPE_GROUPEDRECORD = Spec.subGrouped ∧
    Gen.RECORD_VERSION = Spec.recordVersion ∧ Gen.RESERVED_FIELDS = Spec.reservedFields ∧
    Gen.lenFormatWrite = Spec.lengthFormat ∧ Gen.lenFormatRead = Spec.lengthFormat ∧
    Gen.lenPrefixBytes = Spec.lengthBytes := by
  decide

/-- Inst: the descriptor identifier is computed over name ++ concat(fieldname ++ fieldtype), first 4 digest bytes,
    big endian; packb/unpackb options are the published ones; the datetime/varint encodings have the published
    shape (7-tuple when UTC else ISO text; sign flag + big-endian magnitude). -/
theorem C02_identifier_and_options_frozen :
    Gen.hashInputNameFirst = Spec.hashNameFirst ∧ Gen.hashDigestBytes = Spec.hashDigestBytes ∧
    Gen.hashBigEndian = Spec.hashBigEndian ∧ Gen.packbOptions = Spec.packOptions ∧
    Gen.unpackbOptions = Spec.unpackOptions ∧ Gen.unpackUsesTuples = true ∧ Gen.unpackHasExtHook = true ∧
    Gen.dtTupleWhenUtc = true ∧ Gen.dtIsoOtherwise = true ∧ Gen.varintSignMagnitude = true ∧
    Gen.packObjOrder = ["datetime", "int", "GroupedRecord", "Record", "RecordDescriptor"] := by
  decide

/-- The model's SHA-256 (the one behind `Spec.descriptorHash`) reproduces the standard test vectors - checked by the
    kernel's own evaluation of the definition: the empty message, "abc", and the two-block message of FIPS 180-4. -/
theorem C02_sha256_vectors :
    Sha256.sha256 [] =
      [0xe3, 0xb0, 0xc4, 0x42, 0x98, 0xfc, 0x1c, 0x14, 0x9a, 0xfb, 0xf4, 0xc8, 0x99, 0x6f, 0xb9, 0x24,
       0x27, 0xae, 0x41, 0xe4, 0x64, 0x9b, 0x93, 0x4c, 0xa4, 0x95, 0x99, 0x1b, 0x78, 0x52, 0xb8, 0x55] ∧
    Sha256.sha256 [97, 98, 99] =
      [0xba, 0x78, 0x16, 0xbf, 0x8f, 0x01, 0xcf, 0xea, 0x41, 0x41, 0x40, 0xde, 0x5d, 0xae, 0x22, 0x23,
       0xb0, 0x03, 0x61, 0xa3, 0x96, 0x17, 0x7a, 0x9c, 0xb4, 0x10, 0xff, 0x61, 0xf2, 0x00, 0x15, 0xad] ∧
    Sha256.sha256 "abcdbcdecdefdefgefghfghighijhijkijkljklmklmnlmnomnopnopq".toUTF8.toList =
      [0x24, 0x8d, 0x6a, 0x61, 0xd2, 0x06, 0x38, 0xb8, 0xe5, 0xc0, 0x26, 0x93, 0x0c, 0x3e, 0x60, 0x39,
       0xa3, 0x3c, 0xe4, 0x59, 0x64, 0xff, 0x21, 0x67, 0xf6, 0xec, 0xed, 0xd4, 0x19, 0xdb, 0x06, 0xc1] := by
  decide +kernel

/-- The identifier rule as published, on the descriptor every golden stream starts with: `test/golden`-style names
    are hashed as `name ++ concat(fieldname ++ fieldtype)`; here the identifier of `t/x [(string, a)]`. -/
theorem C02_identifier_example :
    Spec.descriptorHash [116, 47, 120] [([115, 116, 114, 105, 110, 103], [97])] =
      some (Sha256.hash32 [116, 47, 120, 97, 115, 116, 114, 105, 110, 103]) := by
  decide +kernel

/-- The header frame the model's writer emits first is the published one: length 15, bin8, 13, "RECORDSTREAM\n". -/
theorem C02_header_frame : frameBytes magicBody = Spec.headerFrame := by decide

/-- Every frame the writer produces is a 4-byte big-endian length followed by ONE msgpack value: an independent
    reader that splits at the length and decodes one document gets exactly the value that was packed, for every
    well-formed value and whatever follows. -/
theorem C02_frame_is_length_plus_document (v : MVal) (rest : Bytes) (hw : WF v)
    (hl : (enc v).length < 4294967296) :
    nextFrame (frameBytes (enc v) ++ rest) = some (enc v, rest) ∧ decode (enc v) = .ok v :=
  ⟨nextFrame_frame _ _ hl, decode_enc v hw⟩

/-- The extension envelope: the payload of the type-14 extension is itself one msgpack document
    `[sub-type, payload]`, which decodes back to exactly that pair. -/
theorem C02_envelope_document (sub : Nat) (p : MVal) (hs : sub < 128) (hp : WF p) :
    envelope sub p = .ext Spec.extType (enc (.arr [.int sub, p])) ∧
    decode (enc (.arr [.int sub, p])) = .ok (.arr [.int sub, p]) := by
  constructor
  · rfl
  · apply decode_enc
    simp only [WF, WFList, List.length_cons, List.length_nil]
    refine ⟨by omega, ⟨by omega, by omega⟩, hp, trivial⟩

/-- The big-integer encoding: sign flag and minimal big-endian magnitude, inverse of `int.from_bytes(·, 'big')`
    for every natural number (so for every integer, with the sign flag). -/
theorem C02_varint_magnitude (n : Nat) : beDec (magBytes n) = n := by
  induction n using Nat.strongRecOn with
  | _ n ih =>
    unfold magBytes
    split
    · rename_i h; subst h; rfl
    · rename_i h
      have h1 := ih (n / 256) (by omega)
      unfold beDec at h1 ⊢
      rw [List.foldl_append, h1]
      simp only [List.foldl_cons, List.foldl_nil]
      rw [u8 _ (Nat.mod_lt _ (by omega))]
      omega

/-- Records carrying extra trailing metadata fields keep their declared fields and the version (`slotCount`: a field
    name a descriptor lists twice counts once, as in `len(desc.fields)`); records without
    a version field are passed through unchanged (compatibility rule). -/
theorem C02_compat_fit (d : Desc) (vals extra : List RV) (version : RV)
    (h : vals.length = d.slotCount + Gen.RESERVED_FIELDS.length - 1) (he : extra ≠ []) :
    fitValues d (vals ++ extra ++ [version]) = vals ++ [version] := by
  unfold fitValues
  have hx : 0 < extra.length := List.length_pos_iff.mpr he
  have hr : Gen.RESERVED_FIELDS.length = 4 := by decide
  have hlen : (vals ++ extra ++ [version]).length > d.slotCount + Gen.RESERVED_FIELDS.length := by
    simp only [List.length_append, List.length_cons, List.length_nil]; omega
  rw [if_pos hlen]
  have hlast : (vals ++ extra ++ [version]).getLast? = some version := by simp
  rw [hlast]
  have : d.slotCount + Gen.RESERVED_FIELDS.length - 1 = vals.length := by omega
  rw [this, List.append_assoc, List.take_left' rfl]

theorem C02_compat_unversioned (d : Desc) (vals : List RV)
    (h : vals.length ≤ d.slotCount + Gen.RESERVED_FIELDS.length) : fitValues d vals = vals := by
  unfold fitValues
  rw [if_neg (by omega)]


/-- M2 — conforming streams an INDEPENDENT writer may produce are read: `Encodes v bs` is the msgpack format as a
    relation (any integer class wide enough for the value, any length class wide enough for the length, fixext for its
    exact sizes, float32 or float64 — not just the smallest class, which is all the library's own writer ever emits).
    Every such encoding of every value, to any nesting depth, followed by anything, is decoded to exactly that value
    and leaves what follows untouched. -/
theorem C02_any_conforming_encoding_is_read (v : MVal) (bs rest : Bytes) (he : Encodes v bs) :
    dec (depth v) (bs ++ rest) = .ok (v, rest) :=
  dec_encodes v bs (depth v) rest he (Nat.le_refl _)

/-- … as one document (`unpackb`), and as one frame of a stream: the reader's frame splitter hands the decoder exactly
    the conforming body, which decodes to the value. -/
theorem C02_conforming_frame_is_read (v : MVal) (bs rest : Bytes) (he : Encodes v bs) (hl : bs.length < 4294967296) :
    nextFrame (frameBytes bs ++ rest) = some (bs, rest) ∧ decode bs = .ok v :=
  ⟨nextFrame_frame _ _ hl, decode_encodes v bs he⟩

/-- M3 — the library's writer conforms: what the packer emits for any well-formed value is one of the encodings the
    format allows (so M1 is the special case of M2 for the writer's own output). -/
theorem C02_writer_output_conforms (v : MVal) (hw : WF v) : Encodes v (enc v) :=
  encodes_enc v hw

/-- The format is unambiguous: no byte string is a conforming encoding of two different values. -/
theorem C02_encoding_unambiguous (v w : MVal) (bs : Bytes) (hv : Encodes v bs) (hw : Encodes w bs) : v = w := by
  have h1 := decode_encodes v bs hv
  have h2 := decode_encodes w bs hw
  rw [h1] at h2
  cases h2
  rfl

/-- M2 at the ENVELOPE layer. The payload of an extension value is itself a msgpack document, and an independent
    writer may encode it - and the payloads nested inside it, to any depth - with any admissible size classes.
    `SameDoc v v'` says `v'` is `v` with every extension payload replaced by SOME conforming encoding of the
    (recursively re-encoded) document the original payload holds. Such a document is unpacked to exactly the same
    value, for every registry and every fuel (the nesting is unchanged, so no more fuel is needed). -/
theorem C02_reencoded_payloads_same_value (reg : Registry) (v v' : MVal) (h : SameDoc v v') (f : Nat) :
    fromM reg f v' = fromM reg f v :=
  fromM_sameDoc reg h f

/-- ... and so is the whole frame: take what the library would write for an admissible object (`toM pv = m`), let an
    independent conforming writer re-encode it at every level (`SameDoc m m'`, `Encodes m' bs'`); the reader decodes
    the frame `bs'` to exactly the object, `rvOf pv` - the fuel the reader derives from the frame length suffices. -/
theorem C02_reencoded_frame_is_read (reg : Registry) (pv : PV) (m m' : MVal) (bs' : Bytes) (hok : PVOK reg pv)
    (hm : toM pv = some m) (h : SameDoc m m') (he : Encodes m' bs') :
    decodeFrame reg bs' = .ok (rvOf pv) := by
  unfold decodeFrame
  rw [decode_encodes m' bs' he]
  have hfuel := fromM_fuel_irrelevant reg h bs' he (bs'.length + 2) (max (need pv) (bs'.length + 2))
    (by omega) (by omega)
  simp only []
  rw [hfuel, fromM_sameDoc reg h]
  exact fromM_toM reg pv m _ hok hm (Nat.le_max_left _ _)

-- non-vacuity: non-minimal encodings the packer never emits are conforming (5 as uint16; "a" as str32; [nil] as array16)
example : Encodes (.int 5) (0xcd :: beEnc 2 5) := IntEnc.u16 5 (by omega)
example : Encodes (.int (-1)) (0xd3 :: beEnc 8 (twos 8 (-1))) := IntEnc.i64 (-1) (by omega) (by omega)
example : Encodes (.str [97]) ((0xdb :: beEnc 4 1) ++ [97]) := ⟨_, StrHead.s32 1 (by omega), rfl⟩
example : Encodes (.arr [.nil]) ((0xdc :: beEnc 2 1) ++ [0xc0]) :=
  ⟨_, _, ArrHead.a16 1 (by omega), ⟨[0xc0], [], rfl, rfl, rfl⟩, rfl⟩
example : decode (0xcd :: beEnc 2 5) = .ok (.int 5) := decode_encodes _ _ (IntEnc.u16 5 (by omega))

-- non-vacuity of the envelope-layer theorems: the payload document [5, nil], which the library writes as 92 05 c0, is
-- re-encoded with an array16 head and a uint16 integer (dc 00 02 cd 00 05 c0) - the two extension values are `SameDoc`
example : SameDoc (.ext 14 (enc (.arr [.int 5, .nil]))) (.ext 14 ((0xdc :: beEnc 2 2) ++ ((0xcd :: beEnc 2 5) ++ [0xc0]))) :=
  .ext 14 (d := .arr [.int 5, .nil]) (d' := .arr [.int 5, .nil])
    (decode_enc _ (by simp [WF, WFList]))
    (.arr (.cons (.int 5) (.cons .nil .nil)))
    ⟨_, _, ArrHead.a16 2 (by omega), ⟨_, _, IntEnc.u16 5 (by omega), ⟨[0xc0], [], rfl, rfl, rfl⟩, rfl⟩, rfl⟩


/-- FIELD VALUES on the wire: a typed list that received plain elements in place is written with the published
    encoding of the converted elements (the same packed value as the list that held them from the start); the
    premise that `typedlist._pack` converts before packing is the regenerated source fact. -/
theorem C02_inplace_elements_encoding {R : Type} (conv : R → Option FlowRecord.FieldPack.TVal)
    (k : FlowRecord.FieldPack.Kind) (xs : List (FlowRecord.FieldPack.TVal ⊕ R)) (ts : List FlowRecord.FieldPack.TVal)
    (h : FlowRecord.FieldPack.heldValues conv xs = some ts) :
    (FlowRecord.FieldPack.packHeld conv k xs).map FlowRecord.Wire.PV.seq
      = FlowRecord.FieldPack.packT (.list k) (.list ts) := by
  rw [FlowRecord.FieldPack.packHeld_eq conv k (by decide) xs ts h]
  simp [FlowRecord.FieldPack.packT]
