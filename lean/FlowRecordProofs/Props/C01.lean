import FlowRecordProofs.Lemmas.Msgpack
import FlowRecordProofs.Lemmas.Envelope
import FlowRecordProofs.Lemmas.Framing
import FlowRecordProofs.Lemmas.StreamRoundtrip
import FlowRecord.Model.Stream
/-!
C01 — record stream round-trip preserves every record exactly. Property theorems only.
-/
open FlowRecord FlowRecord.Msgpack FlowRecord.Wire FlowRecord.Stream

/-- M1: what the msgpack packer writes for any well-formed value tree (any depth, every size class, integers in
    [-2^63, 2^64)) is decoded back to exactly that value, with whatever follows it left untouched. -/
theorem C01_msgpack_roundtrip (v : MVal) (rest : Bytes) (hw : WF v) :
    dec (depth v) (enc v ++ rest) = .ok (v, rest) :=
  dec_enc v (depth v) rest hw (Nat.le_refl _)

/-- M1 at the document level: `unpackb (packb v) = v`. -/
theorem C01_msgpack_document (v : MVal) (hw : WF v) : decode (enc v) = .ok v :=
  decode_enc v hw

/-- R1, the packer layer: for every admissible packed-level value — None, booleans, integers of ANY size (native or
    through the sign-magnitude big-integer envelope), float bit patterns, text in the image of
    decode/surrogateescape, bytes, lists/tuples and dicts of these to any depth, timestamps in both encodings, and
    records nested in records to any depth whose identifiers are bound to their own descriptors — what the packer
    produces is unpacked to exactly that value, field for field. -/
theorem C01_packed_roundtrip (reg : Registry) (pv : PV) (m : MVal) (hok : PVOK reg pv) (hm : toM pv = some m) :
    fromM reg (need pv) m = .ok (rvOf pv) :=
  fromM_toM reg pv m (need pv) hok hm (Nat.le_refl _)

/-- … and through the bytes: encode the packed value, decode the document, unpack it. -/
theorem C01_frame_roundtrip (reg : Registry) (pv : PV) (m : MVal) (hok : PVOK reg pv) (hm : toM pv = some m) :
    (match decode (enc m) with
     | .ok v => fromM reg (need pv) v
     | _ => .error .invalid) = .ok (rvOf pv) := by
  rw [decode_enc m (toM_WF reg pv m hok hm)]
  exact fromM_toM reg pv m (need pv) hok hm (Nat.le_refl _)

/-- Integers of any magnitude and sign survive the big-integer envelope (`neg`, big-endian magnitude). -/
theorem C01_varint_any_size (i : Int) :
    (if decide (i < 0) then -(beDec (magBytes i.natAbs) : Int) else (beDec (magBytes i.natAbs) : Int)) = i := by
  rw [beDec_magBytes]
  by_cases h : i < 0 <;> simp [h] <;> omega

/-- C01 at the byte level, the composition of everything above (M1, framing, registry invariant, envelopes):
    for EVERY admissible history of records — any number of records, any interleaving of descriptors (including
    descriptors whose identifiers collide, as long as no single record tree holds two of them), records nested in
    records to any depth, every value kind of `PVOK` — written by a fresh writer, the reader run over the BYTES of the
    stream returns exactly the records written, same count, same order, each with its own descriptor and field for
    field the values written, and then ends cleanly. `hashOf` is any identifier function on which reader and
    writer agree. -/
theorem C01_stream_roundtrip (hashOf : Utf8.PyStr → List (Utf8.PyStr × Utf8.PyStr) → Nat) (o : PV) (os : List PV)
    (st' : WState) (frames : List Bytes)
    (hw : writeAll WState.init (o :: os) = some (st', frames))
    (hok : HistOK hashOf [] (o :: os)) (hsz : ∀ b ∈ frames, b.length < 4294967296) :
    readAll hashOf (streamOf frames) = (rvOfList (o :: os), .eof) :=
  readAll_writeAll hashOf o os st' frames hw hok hsz

/-- the same for a writer that has already written its header and any earlier records (streams are appendable) -/
theorem C01_stream_roundtrip_continued (hashOf : Utf8.PyStr → List (Utf8.PyStr × Utf8.PyStr) → Nat) (objs : List PV)
    (st st' : WState) (frames : List Bytes) (fuel : Nat)
    (hw : writeAll st objs = some (st', frames)) (hhdr : st.headerWritten = true)
    (hok : HistOK hashOf st.registry objs) (hsz : ∀ b ∈ frames, b.length < 4294967296) :
    readFramesH hashOf (fuel + frames.length) st.registry (streamOf frames) = (rvOfList objs, .eof) :=
  read_writeAll hashOf objs st st' frames fuel hw hhdr hok hsz

-- non-vacuity: a record with a big integer, text, a UTC timestamp and a nested list satisfies the hypotheses
namespace C01_nonvacuous
def d : Desc := { name := [116, 47, 120], fields := [([118], [110])], hash := 7 }
def reg : Registry := [((d.name, d.hash), d)]
def pv : PV := .record d [.int 1180591620717411303424, .str [97, 233], .dtUtc [2020, 1, 2, 3, 4, 5, 6], .seq [.none, .bool true]]
example : (toM pv).isSome = true := by decide
example : strOK [97, 233] := ⟨[97, 195, 169], by decide, by decide, by decide⟩
example : PVOK reg (.seq [.none, .bool true, .int (-5), .bytes [1, 2]]) := by
  simp only [PVOK, PVOKList, List.length_cons, List.length_nil]
  refine ⟨by omega, trivial, trivial, Or.inl (by decide), by omega, trivial⟩
end C01_nonvacuous
