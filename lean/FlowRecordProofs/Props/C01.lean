import FlowRecordProofs.Lemmas.PackIgnore
import FlowRecordProofs.Lemmas.Msgpack
import FlowRecordProofs.Lemmas.Envelope
import FlowRecordProofs.Lemmas.Framing
import FlowRecordProofs.Lemmas.StreamRoundtrip
import FlowRecordProofs.Lemmas.Utf8
import FlowRecordProofs.Lemmas.StreamExample
import FlowRecordProofs.Lemmas.FieldPack
import FlowRecordProofs.Lemmas.StreamFailed
import FlowRecord.Model.Stream
/-!
C01 — record stream round-trip preserves every record exactly. Property theorems only.
-/
open FlowRecord FlowRecord.Msgpack FlowRecord.Wire FlowRecord.Stream

/-- M1: what the msgpack packer writes for any well-formed value tree (any depth, every size class, integers in
    [-2^63, 2^64)) is decoded back to exactly that value, with whatever follows it left untouched. -/
theorem C01_msgpack_roundtrip (v : MVal) (rest : Bytes) (hw : WF v) :
    dec (depth v) (enc v ++ rest) = .ok (v, rest) :=
  dec_enc v (depth v) rest hw (Nat.le_refl _)

/-- M1 at the document level: `unpackb (packb v) = v`. -/
theorem C01_msgpack_document (v : MVal) (hw : WF v) : decode (enc v) = .ok v :=
  decode_enc v hw

/-- R1, the packer layer: for every admissible packed-level value — None, booleans, integers of ANY size (native or
    through the sign-magnitude big-integer envelope), float bit patterns, text in the image of
    decode/surrogateescape, bytes, lists/tuples and dicts of these to any depth, timestamps in both encodings,
    records nested in records to any depth and grouped records, whose identifiers are bound to their own descriptors
    — what the packer
    produces is unpacked to exactly that value, field for field. -/
theorem C01_packed_roundtrip (reg : Registry) (pv : PV) (m : MVal) (hok : PVOK reg pv) (hm : toM pv = some m) :
    fromM reg (need pv) m = .ok (rvOf pv) :=
  fromM_toM reg pv m (need pv) hok hm (Nat.le_refl _)

/-- … and through the bytes: encode the packed value, decode the document, unpack it. -/
theorem C01_frame_roundtrip (reg : Registry) (pv : PV) (m : MVal) (hok : PVOK reg pv) (hm : toM pv = some m) :
    (match decode (enc m) with
     | .ok v => fromM reg (need pv) v
     | _ => .error .invalid) = .ok (rvOf pv) := by
  rw [decode_enc m (toM_WF reg pv m hok hm)]
  exact fromM_toM reg pv m (need pv) hok hm (Nat.le_refl _)

/-- Integers of any magnitude and sign survive the big-integer envelope (`neg`, big-endian magnitude). -/
theorem C01_varint_any_size (i : Int) :
    (if decide (i < 0) then -(beDec (magBytes i.natAbs) : Int) else (beDec (magBytes i.natAbs) : Int)) = i := by
  rw [beDec_magBytes]
  by_cases h : i < 0 <;> simp [h] <;> omega

/-- C01 at the byte level, the composition of everything above (M1, framing, registry invariant, envelopes):
    for EVERY admissible history of records and grouped records — any number of them, any interleaving of descriptors
    (including descriptors whose identifiers collide, as long as no single record tree holds two of them), records
    nested in records to any depth, groups of any number of member records, every value kind of `PVOK` — written by
    a fresh writer, the reader run over the BYTES of the
    stream returns exactly the records written, same count, same order, each with its own descriptor and field for
    field the values written, and then ends cleanly. `hashOf` is any identifier function on which reader and
    writer agree. -/
theorem C01_stream_roundtrip (hashOf : Utf8.PyStr → List (Utf8.PyStr × Utf8.PyStr) → Nat) (o : PV) (os : List PV)
    (st' : WState) (frames : List Bytes)
    (hw : writeAll WState.init (o :: os) = some (st', frames))
    (hok : HistOK hashOf [] (o :: os)) (hsz : ∀ b ∈ frames, b.length < 4294967296) :
    readAll hashOf (streamOf frames) = (rvOfList (o :: os), .eof) :=
  readAll_writeAll hashOf o os st' frames hw hok hsz

/-- the same for a writer that has already written its header and any earlier records (streams are appendable) -/
theorem C01_stream_roundtrip_continued (hashOf : Utf8.PyStr → List (Utf8.PyStr × Utf8.PyStr) → Nat) (objs : List PV)
    (st st' : WState) (frames : List Bytes) (fuel : Nat)
    (hw : writeAll st objs = some (st', frames)) (hhdr : st.headerWritten = true)
    (hok : HistOK hashOf st.registry objs) (hsz : ∀ b ∈ frames, b.length < 4294967296) :
    readFramesH hashOf (fuel + frames.length) st.registry (streamOf frames) = (rvOfList objs, .eof) :=
  read_writeAll hashOf objs st st' frames fuel hw hhdr hok hsz

/-- The stream theorem with FAILING writes in between: a write may raise while its object is being packed, after any
    number `k` of the object's descriptors were registered (their frames are on the stream, the object's frame is not),
    and the caller carries on with the same writer. For every admissible history of that kind on a fresh writer, the
    reader returns exactly the objects whose write succeeded - same order, each as written - and ends cleanly; the
    failed objects themselves are unconstrained. -/
theorem C01_stream_roundtrip_failed_writes (hashOf : Utf8.PyStr → List (Utf8.PyStr × Utf8.PyStr) → Nat)
    (e : PV × Option Nat) (es : List (PV × Option Nat)) (st' : WState) (frames : List Bytes)
    (hw : writeHist WState.init (e :: es) = some (st', frames))
    (hok : HistOKF hashOf [] (e :: es)) (hsz : ∀ b ∈ frames, b.length < 4294967296) :
    readAll hashOf (streamOf frames) = (rvOfList (okObjs (e :: es)), .eof) :=
  readAll_writeHist hashOf e es st' frames hw hok hsz

/-- S1, text including undecodable bytes: for EVERY byte string — valid UTF-8 or not — decoding it with
    `surrogateescape` and encoding the result gives exactly the original bytes back. -/
theorem C01_text_undecodable_bytes (bs : Bytes) : Utf8.encodeSE (Utf8.decodeSE bs) = some bs :=
  Utf8.encode_decodeSE bs

/-- Hence every text that arose from decoding bytes (the only way undecodable bytes get into a `string` field) meets
    the text hypothesis `strOK` of the round-trip theorems. -/
theorem C01_decoded_text_admissible (bs : Bytes) (h : bs.length < 4294967296) : strOK (Utf8.decodeSE bs) :=
  ⟨bs, Utf8.encode_decodeSE bs, h, rfl⟩

/-- S2, ordinary text: every string of Unicode scalar values (all planes; no lone surrogates) is encodable and decodes
    back to exactly the same code points. -/
theorem C01_text_scalars (s : Utf8.PyStr) (hs : ∀ c ∈ s, Utf8.isScalar c) :
    ∃ bs, Utf8.encodeSE s = some bs ∧ Utf8.decodeSE bs = s := by
  obtain ⟨bs, h1, h2⟩ := Utf8.decode_encode_scalars s hs
  exact ⟨bs, h1, h2 bs.length (Nat.le_refl _)⟩

/-- The text hypothesis cannot be dropped: the two escape surrogates U+DCC3 U+DCA9 spell the valid UTF-8 sequence
    C3 A9, so they are written as those bytes and read back as the single character U+00E9. -/
theorem C01_text_counterexample :
    Utf8.encodeSE [0xDCC3, 0xDCA9] = some [0xC3, 0xA9] ∧ Utf8.decodeSE [0xC3, 0xA9] = [0xE9] := by decide

/-- F1, the field-type layer (`FieldType._pack` / `_unpack`): for every kind of field — text, integers, booleans,
    floats, bytes, digests, paths, commands, addresses, networks, and typed lists of these to any length — and every
    well-formed value of it (`WFT`: digest text in lower-case hex, path text in pathlib's normal form `norm`, an
    address whose family agrees with its magnitude, no unset list elements), unpacking what `_pack` produced, as it
    comes back from the packer layer, gives exactly the value. `norm` (pathlib) is a parameter: the theorem holds
    for every normal-form function. Together with `C01_stream_roundtrip` this is the typed round trip. -/
theorem C01_field_unpack_pack (norm : Nat → FieldPack.Str → FieldPack.Str) (k : FieldPack.Kind) (v : FieldPack.TVal)
    (pv : PV) (hw : FieldPack.WFT norm k v) (hp : FieldPack.packT k v = some pv) :
    FieldPack.unpackT norm k (rvOf pv) = some v :=
  FieldPack.unpackT_packT norm k v pv hw hp

/-- hex: `a2b_hex(b2a_hex(b)) = b` for every byte string, and `b2a_hex(a2b_hex(s)) = s` for every LOWER-case hex
    text — the reason for `digestOK` in `WFT`. -/
theorem C01_hex_roundtrip (bs : Bytes) (s : FieldPack.Str) (b2 : Bytes) :
    FieldPack.unhexlify (FieldPack.hexlify bs) = some bs ∧
    (FieldPack.unhexlify s = some b2 → FieldPack.isLowerHex s = true → FieldPack.hexlify b2 = s) :=
  ⟨FieldPack.unhexlify_hexlify bs, FieldPack.hexlify_unhexlify_lower s b2⟩

/-- Recorded finding: the lower-case hypothesis cannot be dropped. A digest given as "AB" (upper case) is packed as
    the byte AB and comes back as the text "ab". -/
theorem C01_digest_uppercase_counterexample :
    FieldPack.packT .digest (.digest (some [65, 66]) none none) = some (.seq [.bytes [0xAB], .none, .none]) ∧
    FieldPack.unpackT (fun _ t => t) .digest (rvOf (.seq [.bytes [0xAB], .none, .none]))
      = some (.digest (some [97, 98]) none none) := ⟨rfl, rfl⟩

/-- Recorded finding #1 inside the field layer: the IPv6 address ::1 is packed as the integer 1 and comes back as the
    IPv4 address 0.0.0.1 (the family is inferred from the magnitude). -/
theorem C01_ipv6_low_counterexample :
    FieldPack.packT .ip (.ip 6 1) = some (.int 1) ∧
    FieldPack.unpackT (fun _ t => t) .ip (rvOf (.int 1)) = some (.ip 4 1) := ⟨rfl, rfl⟩

-- non-vacuity: a record with a big integer, text, a UTC timestamp and a nested list satisfies the hypotheses
namespace C01_nonvacuous
def d : Desc := { name := [116, 47, 120], fields := [([118], [110])], hash := 7 }
def reg : Registry := [((d.name, d.hash), d)]
def pv : PV := .record d [.int 1180591620717411303424, .str [97, 233], .dtUtc [2020, 1, 2, 3, 4, 5, 6], .seq [.none, .bool true]]
example : (toM pv).isSome = true := by decide
example : strOK [97, 233] := ⟨[97, 195, 169], by decide, by decide, by decide⟩
example : PVOK reg (.seq [.none, .bool true, .int (-5), .bytes [1, 2]]) := by
  simp only [PVOK, PVOKList, List.length_cons, List.length_nil]
  refine ⟨by omega, trivial, trivial, Or.inl (by decide), by omega, trivial⟩
-- the hypotheses of the stream theorem are met by a concrete two-record history (Lemmas/StreamExample)
example : (writeAll WState.init [StreamExample.o1, StreamExample.o2]).isSome = true := by rfl
example : ∀ st' frames, writeAll WState.init [StreamExample.o1, StreamExample.o2] = some (st', frames) →
    (∀ b ∈ frames, b.length < 4294967296) →
    readAll StreamExample.h (streamOf frames) = (rvOfList [StreamExample.o1, StreamExample.o2], .eof) :=
  fun st' frames hw hsz => C01_stream_roundtrip _ _ _ st' frames hw StreamExample.hist hsz
-- … and by a history that starts with a grouped record
example : ∀ st' frames, writeAll WState.init [StreamExample.g1, StreamExample.o2] = some (st', frames) →
    (∀ b ∈ frames, b.length < 4294967296) →
    readAll StreamExample.h (streamOf frames) = (rvOfList [StreamExample.g1, StreamExample.o2], .eof) :=
  fun st' frames hw hsz => C01_stream_roundtrip _ _ _ st' frames hw StreamExample.histG hsz
-- the field-layer hypotheses are met by ordinary values: a lower-case digest, a list of ports, an IPv6 address
example : FieldPack.WFT (fun _ t => t) .digest (.digest (some [97, 98]) none none) := ⟨⟨by decide, by decide⟩, trivial, trivial⟩
example : FieldPack.WFT (fun _ t => t) (.list .int) (.list [.int 80, .int 443]) :=
  ⟨by simp, trivial, by simp, trivial, trivial⟩
example : FieldPack.WFT (fun _ t => t) .ip (.ip 6 4294967296) := Or.inr ⟨rfl, by decide, by decide⟩
end C01_nonvacuous

-- non-vacuity of C01_stream_roundtrip_failed_writes: a concrete history (first write of the type fails after its
-- descriptor frame, the next record is good) meets every hypothesis (Lemmas/StreamFailed.lean, `histF`)
example : ∀ st' frames, writeHist WState.init [(StreamExample.o1, some 1), (StreamExample.o2, none)] = some (st', frames) →
    (∀ b ∈ frames, b.length < 4294967296) →
    readAll StreamExample.h (streamOf frames) = (rvOfList [StreamExample.o2], .eof) :=
  fun st' frames hw hsz =>
    C01_stream_roundtrip_failed_writes StreamExample.h _ _ st' frames hw StreamExample.histF hsz



/-- THE COMPARISON-IGNORE CONFIGURATION CONCERNS == AND hash() ONLY: whatever configuration is in force
    (FLOW_RECORD_IGNORE, `set_ignored_fields_for_comparison`, a `with ignore_fields_for_comparison(...)` block around a
    de-duplicating producer), every record written to a stream is written with ALL its slots: the packer asks `Record._pack` to leave out nothing.
    Premises: the regenerated source facts (`Gen.recordPackReadsGlobalIgnore`, `recordPackExcludedDefault`,
    `packerPassesExcluded`). -/
theorem C01_ignore_configuration_never_reaches_the_writer (globalIg : List (List Nat))
    (names : List (List Nat)) {α : Type} (vals : List α) (h : names.length = vals.length) :
    FlowRecord.Equality.packerExcluded globalIg = [] ∧
    FlowRecord.Equality.keep (FlowRecord.Equality.packerExcluded globalIg) names vals = vals := by
  refine ⟨FlowRecord.Equality.packerExcluded_nil globalIg, ?_⟩
  rw [FlowRecord.Equality.packerExcluded_nil globalIg]
  exact FlowRecord.Equality.keep_nil names vals h
