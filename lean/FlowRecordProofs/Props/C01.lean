import FlowRecordProofs.Lemmas.Msgpack
import FlowRecord.Model.Stream
/-!
C01 — record stream round-trip preserves every record exactly. Property theorems only.
-/
open FlowRecord FlowRecord.Msgpack

/-- M1: what the msgpack packer writes for any well-formed value tree (any depth, every size class, integers in
    [-2^63, 2^64)) is decoded back to exactly that value, with whatever follows it left untouched. -/
theorem C01_msgpack_roundtrip (v : MVal) (rest : Bytes) (hw : WF v) :
    dec (depth v) (enc v ++ rest) = .ok (v, rest) :=
  dec_enc v (depth v) rest hw (Nat.le_refl _)

/-- M1 at the document level: `unpackb (packb v) = v`. -/
theorem C01_msgpack_document (v : MVal) (hw : WF v) : decode (enc v) = .ok v :=
  decode_enc v hw
