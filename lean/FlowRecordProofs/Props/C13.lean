import FlowRecordProofs.Lemmas.IsoText
import FlowRecordProofs.Lemmas.Instant
import FlowRecord.Gen.Formats
/-!
C13 — timestamps are timezone-aware and keep their instant everywhere.

Property theorems only (helpers: `Lemmas/IsoText.lean`, `Lemmas/Calendar.lean`, `Lemmas/Instant.lean`).
The model (`FlowRecord/Model/DateTime.lean`) is tied to /repo by `harness/props/C13.py`.
Nothing here is assumed about CPython's calendar: the day-number functions are concrete and proved inverse.
What *is* outside the model: `zoneinfo` (a zone value carries the offsets the zone assigns to its wall time).
None of `toIso`, `packDt`, `toMicros`, `instant`, `construct` takes a display-zone argument; only `render` does.
-/
open FlowRecord FlowRecord.DateTime

/-- Facts read off the current source that the model's branches transcribe: UTC values are packed as the 7-tuple,
    everything else as ISO text; the constructor passes wall fields, `tzinfo or UTC` and `fold` on, reads naive as
    UTC, epoch numbers in UTC and text through `fromisoformat`; the binary reader calls the constructor; JSON and
    SQLite store `isoformat()`, Avro `timestamp-micros`; only `__str__`/`__repr__` of one file read the display zone. -/
theorem C13_inst :
    Gen.dtTupleWhenUtc = true ∧ Gen.dtIsoOtherwise = true ∧ Gen.datetimeCtorKeepsFold = true ∧
    (∀ f ∈ Gen.displayTzReaders, f ∈ ["__str__", "__repr__"]) ∧
    Gen.displayTzFiles = ["flow/record/fieldtypes/__init__.py"] ∧
    Gen.datetimeCtorNaiveIsUtc = true ∧ Gen.datetimeCtorEpochUtc = true ∧ Gen.datetimeCtorIsoCall = true ∧
    Gen.datetimeCtorObjTz = true ∧
    Gen.datetimeCtorObjArgs = ["cls", "arg.year", "arg.month", "arg.day", "arg.hour", "arg.minute", "arg.second",
      "arg.microsecond", "tzinfo", "fold=arg.fold"] ∧
    Gen.unpackDatetimeCall = "fieldtypes.datetime(*value)" ∧
    Gen.jsonDatetimeBody = ["serial = obj.isoformat()", "return serial"] ∧
    Gen.sqliteDatetimeExpr = "value.isoformat()" ∧
    Gen.avroDatetimeSchema = "[{'type': 'long', 'logicalType': 'timestamp-micros'}, {'type': 'null'}]" ∧
    Gen.avroWritesPackdict = true := by
  decide

/-- Every value the field constructor returns — from an object, ISO text, an epoch integer or the unpacked
    7-tuple — is timezone-aware. -/
theorem C13_aware (inp : Input) (r : DT) (h : construct inp = some r) : r.tz ≠ .naive := by
  have key : ∀ t : DT, True ∨ True → (naiveAsUtc t).tz ≠ .naive := fun t _ => naiveAsUtc_aware t
  cases inp with
  | obj t =>
    simp only [construct, Option.some.injEq] at h
    subst h; exact key _ (Or.inr trivial)
  | iso txt =>
    simp only [construct, Option.map_eq_some_iff] at h
    obtain ⟨a, _, ha⟩ := h
    subst ha; exact key _ (Or.inr trivial)
  | epoch n =>
    simp only [construct, fromMicros, fromInstant] at h
    split at h
    · simp only [Option.some.injEq] at h; subst h; simp [ofWallUs]
    · cases h
  | fields y mo d hh mi s us =>
    simp only [construct] at h
    split at h
    · simp only [Option.some.injEq] at h; subst h; exact key _ (Or.inr trivial)
    · cases h

/-- Every value the constructor returns is a valid datetime (given a valid object in the object case). -/
theorem C13_construct_valid (inp : Input) (r : DT) (hin : ∀ t, inp = .obj t → t.Valid)
    (h : construct inp = some r) : r.Valid := by
  have key : ∀ t : DT, t.Valid → (naiveAsUtc t).Valid := by
    intro t hv
    unfold naiveAsUtc
    split
    · obtain ⟨a, b, c, d, e, f, g, i, j, k, _⟩ := hv; exact ⟨a, b, c, d, e, f, g, i, j, k, trivial⟩
    · exact hv
  cases inp with
  | obj t =>
    simp only [construct, Option.some.injEq] at h
    subst h
    apply key
    obtain ⟨a, b, c, d, e, f, g, i, j, k, l⟩ := hin t rfl
    refine ⟨a, b, c, d, e, f, g, i, j, k, ?_⟩
    cases htz : t.tz <;> simp only [rebuildTz] <;> rw [htz] at l <;> exact l
  | iso txt =>
    simp only [construct, Option.map_eq_some_iff] at h
    obtain ⟨a, ha, hr⟩ := h
    subst hr
    apply key
    simp only [parseIso, Option.bind_eq_some_iff] at ha
    obtain ⟨_, _, _, _, _, _, _, _, _, _, _, _, _, _, _, _, _, _, _, _, _, _, _, _, _, _, hfin⟩ := ha
    split at hfin
    · simp only [Option.some.injEq] at hfin; subst hfin; assumption
    · cases hfin
  | epoch n =>
    simp only [construct, fromMicros, fromInstant] at h
    split at h
    · simp only [Option.some.injEq] at h; subst h
      exact ofWallUs_valid _ _ (by omega) trivial
    · cases h
  | fields y mo d hh mi s us =>
    simp only [construct] at h
    split at h
    · simp only [Option.some.injEq] at h; subst h; apply key; assumption
    · cases h

/-- ISO text: for EVERY valid datetime whose offset is printable (zero, or at least one second in magnitude —
    in particular every whole-second offset, years 1 and 9999 with extreme offsets, offsets with seconds, fold and
    gap wall times) parsing what `isoformat()` prints gives back the same wall clock with the same UTC offset. -/
theorem C13_iso_roundtrip (t : DT) (hv : t.Valid) (hp : OffsetPrintable t) :
    parseIso (toIso t) = some (fixedView t) :=
  parseIso_toIso t hv hp

/-- `fixedView` keeps wall clock, UTC offset and therefore the instant. -/
theorem C13_fixedView_same (t : DT) :
    (fixedView t).y = t.y ∧ (fixedView t).mo = t.mo ∧ (fixedView t).d = t.d ∧ (fixedView t).h = t.h ∧
    (fixedView t).mi = t.mi ∧ (fixedView t).s = t.s ∧ (fixedView t).us = t.us ∧
    (fixedView t).tz.off = t.tz.off ∧ instant (fixedView t) = instant t := by
  have hoff : (fixedView t).tz.off = t.tz.off := by
    rw [fixedView_eq]; exact fixedTz_off t.tz
  refine ⟨rfl, rfl, rfl, rfl, rfl, rfl, rfl, hoff, ?_⟩
  unfold instant
  rw [hoff]
  rfl

/-- The full-strength ISO statement (no restriction on the offset). -/
def C13_iso_statement : Prop := ∀ t : DT, t.Valid → parseIso (toIso t) = some (fixedView t)

/-- It is false, of the model and of CPython: a sub-second offset whose h/m/s part is zero is printed as
    `+00:00:00.000001` and read back as UTC. This is the documented domain boundary (`OffsetPrintable`). -/
theorem C13_iso_subsecond_counterexample : ¬ C13_iso_statement := by
  intro h
  have := h ⟨2000, 1, 1, 0, 0, 0, 0, .fixed 1⟩ (by decide)
  revert this
  decide

/-- The object branch keeps wall clock and `tzinfo` — including `fold` — so the field value is the same instant
    as the datetime it was built from (naive input read as UTC). Depends on the extracted flag
    `datetimeCtorKeepsFold`: on the pinned tree (fold dropped) this statement failed for fold = 1 in an overlap. -/
theorem C13_construct_instant (t : DT) :
    construct (.obj t) = some (naiveAsUtc t) ∧ instant (naiveAsUtc t) = instant t ∧
    (naiveAsUtc t).tz.off = t.tz.off := by
  refine ⟨?_, ?_, ?_⟩
  · simp only [construct]
    have : rebuildTz t.tz = t.tz := by
      cases t.tz <;> simp [rebuildTz, Gen.datetimeCtorKeepsFold]
    rw [this]
  · unfold naiveAsUtc instant
    cases h : t.tz <;> simp [Tz.off, wallUs, h]
  · unfold naiveAsUtc
    cases h : t.tz <;> simp [Tz.off, h]

/-- Binary record stream: a UTC value travels as the 7-tuple and comes back identical; any other aware value
    travels as ISO text and comes back with the same wall clock and offset. -/
theorem C13_binary (t : DT) (hv : t.Valid) (haw : t.tz ≠ .naive) (hp : OffsetPrintable t) :
    viaBinary t = some (fixedView t) ∧ (t.tz = .utc → viaBinary t = some t) := by
  have hflag : Gen.dtTupleWhenUtc = true := by decide
  have hutc : t.tz = .utc → viaBinary t = some t := by
    intro hu
    obtain ⟨a, b, c, d, e, f, g, i, j, k, _⟩ := hv
    simp only [viaBinary, packDt, hu, utcEq, hflag, Bool.and_self, if_true, unpackDt, construct]
    rw [if_pos ⟨a, b, c, d, e, f, g, i, j, k, trivial⟩]
    simp only [naiveAsUtc, ← hu]
  refine ⟨?_, hutc⟩
  by_cases hu : t.tz = .utc
  · rw [hutc hu, fixedView_utc t hu]
  · have hne : utcEq t.tz = false := by
      cases htz : t.tz with
      | naive => exact absurd htz haw
      | utc => exact absurd htz hu
      | fixed o => rfl
      | zone a b f => rfl
    simp only [viaBinary, packDt, hne, Bool.false_and, Bool.false_eq_true, if_false, unpackDt, construct]
    rw [parseIso_toIso t hv hp, Option.map_some, naiveAsUtc_fixedView t haw]

/-- JSON lines: `isoformat()` out, record constructor in: same wall clock and UTC offset. -/
theorem C13_json (t : DT) (hv : t.Valid) (haw : t.tz ≠ .naive) (hp : OffsetPrintable t) :
    viaJson t = some (fixedView t) := by
  simp only [viaJson, construct]
  rw [parseIso_toIso t hv hp, Option.map_some, naiveAsUtc_fixedView t haw]

/-- SQLite: the same text in a TIMESTAMPTZ column. -/
theorem C13_sqlite (t : DT) (hv : t.Valid) (haw : t.tz ≠ .naive) (hp : OffsetPrintable t) :
    viaSqlite t = some (fixedView t) :=
  C13_json t hv haw hp

/-- The calendar the Avro arithmetic stands on, proved (not assumed): civil date -> day number -> civil date is
    the identity on every valid date from year 1 on, day number -> civil date -> day number is the identity on all
    day numbers, and day numbers of 0001-01-01 .. 9999-12-31 are exactly valid dates of years 1..9999. -/
theorem C13_calendar :
    (∀ y m d, 1 ≤ y → 1 ≤ m → m ≤ 12 → 1 ≤ d → d ≤ daysInMonth y m → civilFromDays (daysFromCivil y m d) = (y, m, d)) ∧
    (∀ z, daysFromCivil (civilFromDays z).1 (civilFromDays z).2.1 (civilFromDays z).2.2 = z) ∧
    (∀ z, 306 ≤ z → z < 3652365 →
      1 ≤ (civilFromDays z).1 ∧ (civilFromDays z).1 ≤ 9999 ∧ 1 ≤ (civilFromDays z).2.1 ∧ (civilFromDays z).2.1 ≤ 12 ∧
      1 ≤ (civilFromDays z).2.2 ∧ (civilFromDays z).2.2 ≤ daysInMonth (civilFromDays z).1 (civilFromDays z).2.1) :=
  ⟨civil_days, days_civil, civil_valid⟩

/-- Avro (timestamp-micros): whenever the UTC instant lies in years 1..9999, the value read back is a valid UTC
    datetime denoting exactly the same instant (to the microsecond); a UTC value comes back identical; outside
    that range reading fails (CPython: OverflowError) instead of returning a different instant. -/
theorem C13_avro (t : DT) (hv : t.Valid) :
    (0 ≤ instant t → instant t < 315537897600000000 →
      ∃ r, viaAvro t = some r ∧ r.tz = .utc ∧ r.Valid ∧ instant r = instant t) ∧
    (t.tz = .utc → viaAvro t = some t) ∧
    (¬ (0 ≤ instant t ∧ instant t < 315537897600000000) → viaAvro t = none) := by
  have hmic : fromMicros (toMicros t) = fromInstant (instant t) := by
    unfold fromMicros toMicros; congr 1; omega
  have hobj : ∀ w : Nat, construct (.obj (ofWallUs w .utc)) = some (ofWallUs w .utc) := by
    intro w; simp [construct, rebuildTz, naiveAsUtc, ofWallUs]
  refine ⟨?_, ?_, ?_⟩
  · intro h0 h1
    refine ⟨ofWallUs (instant t).toNat .utc, ?_, rfl, ofWallUs_valid _ _ (by omega) trivial, ?_⟩
    · simp only [viaAvro, hmic, fromInstant, if_pos (And.intro h0 h1), Option.bind_some, hobj]
    · have hoff : (ofWallUs (instant t).toNat .utc).tz.off = 0 := rfl
      have hw := wallUs_ofWallUs (instant t).toNat .utc
      generalize instant t = i at *
      unfold instant
      rw [hw, hoff]
      omega
  · intro hu
    have hi : instant t = (wallUs t : Int) := by unfold instant; rw [hu]; simp [Tz.off]
    have hlt := wallUs_lt t hv
    have h01 : 0 ≤ instant t ∧ instant t < 315537897600000000 := by rw [hi]; omega
    simp only [viaAvro, hmic, fromInstant, if_pos h01, Option.bind_some, hobj]
    have : (instant t).toNat = wallUs t := by rw [hi]; exact Int.toNat_natCast _
    rw [this, ← hu, ofWallUs_wallUs t hv]
  · intro hn
    simp only [viaAvro, hmic, fromInstant, if_neg hn, Option.bind_none]

/-- Epoch input: an integer number of seconds becomes the UTC datetime of exactly that instant (micros = n·10^6);
    numbers outside years 1..9999 are refused (CPython: ValueError / OverflowError), never wrapped. -/
theorem C13_epoch (n : Int) :
    (∀ r, construct (.epoch n) = some r → r.tz = .utc ∧ r.Valid ∧ toMicros r = n * 1000000) ∧
    (¬ (0 ≤ n * 1000000 + 62135596800000000 ∧ n * 1000000 + 62135596800000000 < 315537897600000000) →
      construct (.epoch n) = none) := by
  constructor
  · intro r h
    simp only [construct, fromMicros, fromInstant] at h
    split at h
    · rename_i hr
      simp only [Option.some.injEq] at h
      subst h
      refine ⟨rfl, ofWallUs_valid _ _ (by omega) trivial, ?_⟩
      have hoff : (ofWallUs (n * 1000000 + 62135596800000000).toNat .utc).tz.off = 0 := rfl
      have hw := wallUs_ofWallUs (n * 1000000 + 62135596800000000).toNat .utc
      unfold toMicros instant
      rw [hw, hoff]
      omega
    · cases h
  · intro hn
    simp only [construct, fromMicros, fromInstant, if_neg hn]

/-- End to end: whatever the input form, a constructed value with a printable offset keeps its wall clock and
    UTC offset through the binary stream, JSON and SQLite, and its instant (as a UTC value) through Avro whenever
    that instant lies in years 1..9999. -/
theorem C13_all_formats (inp : Input) (t : DT) (hin : ∀ x, inp = .obj x → x.Valid) (h : construct inp = some t)
    (hp : OffsetPrintable t) :
    viaBinary t = some (fixedView t) ∧ viaJson t = some (fixedView t) ∧ viaSqlite t = some (fixedView t) ∧
    (0 ≤ instant t → instant t < 315537897600000000 →
      ∃ r, viaAvro t = some r ∧ r.tz = .utc ∧ r.Valid ∧ instant r = instant t) := by
  have hv := C13_construct_valid inp t hin h
  have haw := C13_aware inp t h
  exact ⟨(C13_binary t hv haw hp).1, C13_json t hv haw hp, C13_sqlite t hv haw hp, (C13_avro t hv).1⟩

/-- A UTC value is determined by its instant: two valid UTC datetimes with the same instant are equal
    (so "the UTC-normalised value" of an instant is unique). -/
theorem C13_utc_unique (a b : DT) (ha : a.Valid) (hb : b.Valid) (hau : a.tz = .utc) (hbu : b.tz = .utc)
    (h : instant a = instant b) : a = b := by
  have e : wallUs a = wallUs b := by
    unfold instant at h; rw [hau, hbu] at h; simp only [Tz.off] at h; omega
  rw [← ofWallUs_wallUs a ha, ← ofWallUs_wallUs b hb, e, hau, hbu]

/-- Display: whatever offset the display zone assigns, the value that gets printed denotes the same instant as the
    stored one; storing, packing, comparing never see the display zone (they have no such argument). -/
theorem C13_display_same_instant (t : DT) (o : Int) (h0 : 0 ≤ instant t + o)
    (h1 : instant t + o < 315537897600000000) :
    render (some o) t = some (isoSpace (ofWallUs (instant t + o).toNat (normOff o))) ∧
    instant (ofWallUs (instant t + o).toNat (normOff o)) = instant t := by
  constructor
  · simp only [render, if_pos (And.intro h0 h1)]
  · have hoff : (ofWallUs (instant t + o).toNat (normOff o)).tz.off = o := normOff_off o
    have hw := wallUs_ofWallUs (instant t + o).toNat (normOff o)
    generalize instant t = i at *
    unfold instant
    rw [hw, hoff]
    omega

-- Non-vacuity: concrete values meet the hypotheses and the definitions compute what CPython prints.
namespace C13_nonvacuous
/-- 2020-10-25 02:30 Europe/Amsterdam, second occurrence (fold = 1): +02:00 for fold 0, +01:00 for fold 1. -/
def ams : DT := ⟨2020, 10, 25, 2, 30, 0, 0, .zone 7200000000 3600000000 true⟩
example : ams.Valid ∧ OffsetPrintable ams ∧ ams.tz ≠ .naive := by decide
-- "2020-10-25T02:30:00+01:00"
example : toIso ams = [50,48,50,48,45,49,48,45,50,53,84,48,50,58,51,48,58,48,48,43,48,49,58,48,48] := by decide
example : viaJson ams = some ⟨2020, 10, 25, 2, 30, 0, 0, .fixed 3600000000⟩ := by decide
example : construct (.obj ams) = some ams := by decide
/-- year 1 with +05:00: ISO keeps it, Avro cannot represent the instant -/
def y1 : DT := ⟨1, 1, 1, 0, 0, 0, 0, .fixed 18000000000⟩
example : y1.Valid ∧ OffsetPrintable y1 ∧ instant y1 < 0 := by decide
example : toMicros ⟨1970, 1, 1, 0, 0, 0, 0, .utc⟩ = 0 := by decide
example : fromMicros (-1) = some ⟨1969, 12, 31, 23, 59, 59, 999999, .utc⟩ := by decide
example : fromMicros 253402300799999999 = some ⟨9999, 12, 31, 23, 59, 59, 999999, .utc⟩ := by decide
example : fromMicros 253402300800000000 = none := by decide
end C13_nonvacuous
