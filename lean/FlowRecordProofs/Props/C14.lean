import FlowRecordProofs.Lemmas.KwCtor
import FlowRecordProofs.Lemmas.Json
import FlowRecordProofs.Lemmas.Readers
/-!
C14 — JSON lines output round-trips and is plain JSON.

Property theorems only (helpers: `Lemmas/Json.lean`, `Lemmas/Base64.lean`, C13's `Lemmas/IsoText.lean`).
The model (`FlowRecord/Model/Json.lean`, `Base64.lean`) is tied to /repo by `harness/props/C14.py`.
Hypotheses, never axioms: `LibLaws` (ipaddress / ipnetwork / pathlib normal forms are idempotent) and
`JsonTextLaws` (`json.loads (json.dumps v) = v`, one line per document). The descriptor hash is universally
quantified: every statement holds for colliding hash functions too.
-/
open FlowRecord FlowRecord.Json
open FlowRecord.DateTime (DT Text)

/-- Shapes read off the current source that the model transcribes: the isinstance order of `pack_obj`, the marker
    keys and when they are added, the boolean cast, the digest / descriptor objects, `str()` for addresses and paths,
    base64 for bytes, the field types decoded from base64 on reading (`bytes` AND `bytes[]`, unset skipped), the
    constructor call, `json.dumps(default=pack_obj, indent=...)` + newline, per-line reading, the fallback. -/
theorem C14_inst :
    Gen.jsonPackObjOrder = ["Record", "RecordDescriptor", "datetime", "fieldtypes.digest",
      "(fieldtypes.net.ipaddress, fieldtypes.net.ipnetwork)", "bytes", "fieldtypes.path", "fieldtypes.command"] ∧
    Gen.jsonRecordMarkers = [("_type", "'record'"), ("_recorddescriptor", "obj._desc.identifier")] ∧
    Gen.jsonRecordFromAsdict = true ∧ Gen.jsonBooleanCast = true ∧ Gen.jsonPackerGuardsDescriptor = true ∧
    Gen.jsonDescriptorObject = [("_type", "'recorddescriptor'"), ("_data", "obj._pack()")] ∧
    Gen.jsonDigestObject = [("md5", "obj.md5"), ("sha1", "obj.sha1"), ("sha256", "obj.sha256")] ∧
    Gen.jsonIpExpr = "str(obj)" ∧ Gen.jsonPathExpr = "str(obj)" ∧
    Gen.jsonBytesExpr = "base64.b64encode(obj).decode()" ∧ Gen.jsonDatetimeBody = ["serial = obj.isoformat()", "return serial"] ∧
    Gen.jsonUnpackB64 = [("bytes", "base64.b64decode(value)"), ("bytes[]", "[base64.b64decode(item) for item in value]")] ∧
    Gen.jsonUnpackSkipsNone = true ∧ Gen.jsonUnpackCtor = true ∧ Gen.jsonUnpackDeletesMarkers = true ∧
    Gen.jsonUnpackDescriptor = true ∧ Gen.jsonUnpackRegistersDescriptor = true ∧
    Gen.jsonDumpsCall = "json.dumps(obj, default=self.pack_obj, indent=self.indent)" ∧
    Gen.jsonWriteExpr = "record_json + '\\n'" ∧ Gen.jsonReaderPerLine = true ∧
    Gen.jsonDescriptorHandlerIffEnabled = true ∧ Gen.jsonDescriptorsTruthy = ["true", "1"] ∧
    Gen.jsonFallbackTypeName = "json/record" ∧ Gen.jsonFallbackSkipsUnderscore = true ∧
    Gen.jsonFallbackDefaultType = "string" ∧
    Gen.fieldtypeForValue = [("bytes_type", "bytes"), ("string_type", "string"), ("float_type", "float"),
      ("bool", "boolean"), ("(varint_type, int)", "varint"), ("_dt", "datetime"), ("path_type", "path")] := by
  decide

/-- Every JSON-supported scalar type name, and its list form, is understood by the model; and every type whose
    values are `bytes` is in the table of types the reader base64-decodes (scalar and list form). -/
theorem C14_types_table :
    (∀ row ∈ scalarTypes, parseType row.1 = some (row.2, false) ∧ parseType (row.1 ++ [91, 93]) = some (row.2, true)) ∧
    (∀ row ∈ scalarTypes, row.2 = .bytes → row.1 ∈ b64Types ∧ (row.1 ++ [91, 93]) ∈ b64Types) := by
  decide

/-- Base64: decoding what was encoded gives back the bytes, for ALL byte strings. -/
theorem C14_base64_roundtrip (b : List UInt8) : Base64.b64dec (Base64.b64enc b) = some b :=
  Base64.b64_roundtrip b

/-- One value of any supported type (text incl. surrogate escapes, integers of any size, float bits, boolean,
    datetime via C13, bytes, digest, ipaddress, ipnetwork, uri, POSIX path): what the reader's coercion makes of what
    the writer printed is the value itself (a datetime: same wall clock and UTC offset). -/
theorem C14_value_roundtrip (L : LibLaws) (st : ST) (b64 : Bool) (v : SV) (h : SVOk L st v)
    (hb : st = .bytes → b64 = true) : decElem L st b64 (encElem v) = .ok (canonSV v) :=
  decElem_encElem L st b64 v h hb

/-- One field — scalar, list, or unset — found under its key and coerced by the constructor. -/
theorem C14_field_roundtrip (L : LibLaws) (kw : Bool) (ty : Text) (v : FV) (h : FieldOk L kw ty v) :
    decField L kw ty (some (encField ty v)) = .ok (canonFV v) :=
  decField_encField L kw ty v h

/-- Why `bytes` / `bytes[]` must be in the reader's base64 table (finding #9, fixed): without the decoding step the
    constructor receives text and refuses it. -/
theorem C14_bytes_needs_b64 (L : LibLaws) (b : List UInt8) :
    decElem L .bytes false (encElem (.bytes b)) = .error .typeError := rfl

/-- One record line, descriptors on: read back with a registry that binds its identifier to its descriptor, the
    result is the record itself — type name, field list and every value, unset fields included. -/
theorem C14_roundtrip (L : LibLaws) (H : HashFn) (reg : Registry) (r : Rec) (h : WellTyped L r)
    (hreg : regGet reg (ident H r.desc) = some r.desc) :
    readLine L H reg (toJson H true r) = .ok (reg, .record (canonRec r)) :=
  readLine_toJson L H reg r h hreg

/-- The descriptor line precedes first use: writing a record whose descriptor the packer does not hold (or holds a
    different descriptor under the same identifier) emits the descriptor line immediately before the record line;
    afterwards the identifier is bound to it. -/
theorem C14_desc_first (H : HashFn) (reg : Registry) (r : Rec) :
    regGet (writeRec H true reg r).1 (ident H r.desc) = some r.desc ∧
    ((regGet reg (ident H r.desc) = some r.desc ∧ (writeRec H true reg r).2 = [toJson H true r]) ∨
     (regGet reg (ident H r.desc) ≠ some r.desc ∧ (writeRec H true reg r).2 = [descLine r.desc, toJson H true r])) := by
  by_cases hk : regGet reg (ident H r.desc) = some r.desc
  · have e : writeRec H true reg r = (reg, [toJson H true r]) := by simp only [writeRec, if_pos hk]
    rw [e]
    exact ⟨hk, Or.inl ⟨hk, rfl⟩⟩
  · have e : writeRec H true reg r = (regSet reg (ident H r.desc) r.desc, [descLine r.desc, toJson H true r]) := by
      simp only [writeRec, if_neg hk, if_true, List.cons_append, List.nil_append]
    rw [e]
    exact ⟨by rw [regGet_regSet, if_pos rfl], Or.inr ⟨hk, rfl⟩⟩

/-- The whole stream, for every hash function (collisions included) and every sequence of well-typed records of
    any mix of descriptors: reading what was written yields the same records, in order, each decoded with its own
    descriptor. -/
theorem C14_stream_roundtrip (L : LibLaws) (H : HashFn) (rs : List Rec) (hwt : ∀ r ∈ rs, WellTyped L r) :
    readAll L H [] (writeAll H true [] rs) = .ok (rs.map canonRec) :=
  stream_roundtrip L H rs [] [] (fun _ => rfl) hwt

/-- The same with FAILING writes in between (`json.dumps` raising on a value after the packer registered the
    descriptor — the caller catches the error and carries on with the same writer): a failed write leaves at most its
    descriptor line behind, and every record whose write succeeded is still read back, in order, with its own
    descriptor. In particular the first GOOD record of a type whose first write attempt failed finds its descriptor
    line in the file. The failed records need not be well-typed. -/
theorem C14_stream_roundtrip_failed_writes (L : LibLaws) (H : HashFn) (h : List (Rec × Bool))
    (hwt : ∀ e ∈ h, e.2 = true → WellTyped L e.1) :
    readAll L H [] (writeHist H true [] h) = .ok ((h.filter (·.2)).map (fun e => canonRec e.1)) :=
  stream_roundtrip_hist L H h [] [] (fun _ => rfl) hwt

/-- a history without failing writes is `writeAll` -/
theorem C14_writeHist_all_ok (H : HashFn) (descriptors : Bool) (rs : List Rec) (reg : Registry) :
    writeHist H descriptors reg (rs.map (fun r => (r, true))) = writeAll H descriptors reg rs := by
  induction rs generalizing reg with
  | nil => rfl
  | cons r rs ih => simp only [List.map_cons, writeHist, writeAll, ih]

/-- Keys: exactly the record's slots in order, plus `_type`, `_recorddescriptor` iff descriptors are enabled. -/
theorem C14_keys (H : HashFn) (descriptors : Bool) (r : Rec) (hlen : r.vals.length = (allFields r.desc).length) :
    objKeys (toJson H descriptors r) = slotNames r.desc ++ (if descriptors then [kType, kIdent] else []) := by
  have hk := keys_encFields (allFields r.desc) r.vals hlen.symm
  unfold keysOf at hk
  cases descriptors <;> simp [toJson, objKeys, hk, slotNames, markers]

/-- Descriptors off: the line is a plain object that the reader's fallback turns into a `json/record` whose fields
    are the declared fields in order, typed from the JSON values, each holding `plainVal` of the JSON value written —
    the scalar itself for every JSON scalar; `_source`, `_classification`, `_generated` are handed on. -/
theorem C14_plain (L : LibLaws) (H : HashFn) (r : Rec) (h : WellTyped L r)
    (hdecl : ∀ f ∈ r.desc.fields, startsUnderscore f.2 = false) :
    toJson H false r = .obj (encFields (allFields r.desc) r.vals) ∧
    ∃ pre src cls g, r.vals = pre ++ [src, cls, .one (.dt g), .one (.int Gen.RECORD_VERSION)] ∧
      pre.length = r.desc.fields.length ∧
      fromJsonPlain (encFields (allFields r.desc) r.vals) = .ok
        { typeName := cps Gen.jsonFallbackTypeName
          fields := (encFields r.desc.fields pre).map fun kv => (plainType kv.2, kv.1)
          vals := (encFields r.desc.fields pre).map fun kv => plainVal kv.2
          source := plainVal (encField (cps "string") src)
          classification := plainVal (encField (cps "string") cls)
          generatedIso := some (DateTime.toIso g) } :=
  ⟨by simp [toJson], plain_fallback L r h hdecl⟩

/-- `plainVal` keeps every JSON scalar as it is (containers become an opaque Python `str()`). -/
theorem C14_plain_scalars :
    (∀ s, plainVal (.str s) = .str s) ∧ (∀ i, plainVal (.int i) = .int i) ∧ (∀ b, plainVal (.float b) = .float b) ∧
    (∀ b, plainVal (.bool b) = .bool b) ∧ plainVal .null = .none ∧
    (∀ s, plainType (.str s) = cps "string") ∧ (∀ i, plainType (.int i) = cps "varint") ∧
    (∀ b, plainType (.float b) = cps "float") ∧ (∀ b, plainType (.bool b) = cps "boolean") :=
  ⟨fun _ => rfl, fun _ => rfl, fun _ => rfl, fun _ => rfl, rfl, fun _ => rfl, fun _ => rfl, fun _ => rfl, fun _ => rfl⟩

/-- Through the text layer: if `json.loads ∘ json.dumps` is the identity on the lines written (hypothesis
    `JsonTextLaws`, all lines `plain`), the records read from the text are the records written; no document
    contains a newline (one document per line). -/
theorem C14_text_layer (T : JsonTextLaws) (L : LibLaws) (H : HashFn) (rs : List Rec)
    (hwt : ∀ r ∈ rs, WellTyped L r) (hplain : ∀ l ∈ writeAll H true [] rs, T.plain l) :
    (((writeAll H true [] rs).map T.dumps).mapM T.loads).map (readAll L H []) = some (.ok (rs.map canonRec)) ∧
    ∀ t ∈ (writeAll H true [] rs).map T.dumps, 10 ∉ t := by
  have key : ∀ ls : List JVal, (∀ l ∈ ls, T.plain l) → (ls.map T.dumps).mapM T.loads = some ls := by
    intro ls
    induction ls with
    | nil => intro _; rfl
    | cons l ls ih =>
      intro h
      simp [List.mapM_cons, T.roundtrip l (h l (List.mem_cons_self ..)),
        ih (fun x hx => h x (List.mem_cons_of_mem _ hx))]
  constructor
  · rw [key _ hplain, Option.map_some, C14_stream_roundtrip L H rs hwt]
  · intro t ht
    obtain ⟨v, _, rfl⟩ := List.mem_map.mp ht
    exact T.oneLine v

-- Non-vacuity: the hypotheses are satisfiable and the definitions compute what the code prints.
namespace C14_nonvacuous
def idLaws : LibLaws where
  ipNorm := some
  netNorm := some
  pathNorm := some
  ip_idem := by intro s t h; cases h; rfl
  net_idem := by intro s t h; cases h; rfl
  path_idem := by intro s t h; cases h; rfl
def d0 : Desc := ⟨cps "test/j", [(cps "bytes[]", cps "data"), (cps "boolean", cps "ok"), (cps "bytes", cps "raw"),
  (cps "varint", cps "n")]⟩
def g0 : DT := ⟨2024, 1, 1, 0, 0, 0, 0, .utc⟩
/-- bytes[] with two items, a boolean, an UNSET bytes field, a 70-bit integer -/
def r0 : Rec := ⟨d0, [.list [.bytes [0, 255], .bytes []], .one (.bool true), .none, .one (.int 1180591620717411303424),
  .none, .none, .one (.dt g0), .one (.int 1)]⟩
def H0 : HashFn := fun _ => 7
example : WellTyped idLaws r0 where
  len := by decide
  nodup := by decide
  noMarker := by decide
  reserved := ⟨[.list [.bytes [0, 255], .bytes []], .one (.bool true), .none, .one (.int 1180591620717411303424)],
    .none, .none, g0, by decide⟩
  fields := by
    intro p hp
    have e : (allFields r0.desc).zip r0.vals = [((cps "bytes[]", cps "data"), FV.list [.bytes [0, 255], .bytes []]),
        ((cps "boolean", cps "ok"), .one (.bool true)), ((cps "bytes", cps "raw"), .none),
        ((cps "varint", cps "n"), .one (.int 1180591620717411303424)),
        ((cps "string", cps "_source"), .none), ((cps "string", cps "_classification"), .none),
        ((cps "datetime", cps "_generated"), .one (.dt g0)), ((cps "varint", cps "_version"), .one (.int 1))] := by
      decide
    rw [e] at hp
    simp only [List.mem_cons, List.mem_nil_iff, or_false] at hp
    rcases hp with rfl | rfl | rfl | rfl | rfl | rfl | rfl | rfl
    · exact fieldOk_list idLaws _ (st := .bytes) (by decide) (fun _ => by decide)
        (by intro x hx; simp at hx; rcases hx with rfl | rfl <;> trivial)
    · exact fieldOk_one idLaws _ (st := .boolean) (by decide) (by intro e; cases e) trivial
    · exact fieldOk_none idLaws _ (st := .bytes) (by decide) (fun _ => by decide) (by intro e; cases e)
    · exact fieldOk_one idLaws _ (st := .int none none) (by decide) (by intro e; cases e) (show inRange none none _ = true by decide)
    · exact fieldOk_none idLaws _ (st := .text) (by decide) (by intro e; cases e) (by intro e; cases e)
    · exact fieldOk_none idLaws _ (st := .text) (by decide) (by intro e; cases e) (by intro e; cases e)
    · exact fieldOk_one idLaws _ (st := .datetime) (by decide) (by intro e; cases e)
        (show g0.Valid ∧ g0.tz ≠ .naive ∧ DateTime.OffsetPrintable g0 by decide)
    · exact fieldOk_one idLaws _ (st := .int none none) (by decide) (by intro e; cases e) (show inRange none none _ = true by decide)
-- the written keys, and the full stream read back
example : objKeys (toJson H0 true r0) = [cps "data", cps "ok", cps "raw", cps "n", cps "_source", cps "_classification",
    cps "_generated", cps "_version", cps "_type", cps "_recorddescriptor"] := by decide
example : (match readAll idLaws H0 [] (writeAll H0 true [] [r0, r0]) with
    | .ok rs => decide (rs = [r0, r0]) | .error _ => false) = true := by decide
-- a failed first write of the type, then the good record: descriptor line (from the failed attempt), record line
example : writeHist H0 true [] [(r0, false), (r0, true)] = [descLine d0, toJson H0 true r0] := by
  simp [writeHist, writeFailed, writeRec, regGet, regSet, ident, r0]
example : (match readAll idLaws H0 [] (writeHist H0 true [] [(r0, false), (r0, true), (r0, false)]) with
    | .ok rs => decide (rs = [r0]) | .error _ => false) = true := by decide
-- "AP8=" is base64 of 00 ff
example : Base64.b64enc [0, 255] = [65, 80, 56, 61] := by decide
example : Base64.b64dec [65, 80, 56] = none := by decide
/-- a (tiny) text layer satisfying the hypothesis: only `null` is plain -/
def nullLaws : JsonTextLaws where
  dumps := fun _ => cps "null"
  loads := fun t => if t = cps "null" then some .null else none
  plain := fun v => v = .null
  roundtrip := by intro v h; subst h; simp
  oneLine := by intro v; decide
end C14_nonvacuous


/-- READERS BUILD RECORDS BY KEYWORD: for record types with a field named like a Python keyword the generated
    constructor assigns `kwargs.get(k, v)` - a value handed over by keyword is the slot's value also when it is falsy
    (0, "", False, an empty list), and `_unpack` tests `is not None`. The template text is regenerated from the source
    and must equal the frozen text this meaning belongs to. -/
theorem C14_keyword_constructor_keeps_values {V : Type} (x pos : V) :
    (FlowRecord.Gen.tplKwInit = FlowRecord.KwCtor.frozenInit ∧ FlowRecord.Gen.tplKwUnpack = FlowRecord.KwCtor.frozenUnpack) ∧
    FlowRecord.KwCtor.slotValue (some x) pos = x ∧ FlowRecord.KwCtor.slotValue (none : Option V) pos = pos :=
  ⟨FlowRecord.KwCtor.template_is_frozen, rfl, rfl⟩


/-- The reading half at the level of lines: `JsonfileReader.__iter__` hands EVERY line of the file to the packer (the
    regenerated `Gen.jsonLoopUnpacksEveryLine`: the loop runs over the file, its first statement unpacks the line,
    nothing skips a line or leaves the loop), so a file of record lines whose descriptors are known yields, without
    selector, exactly those records in that order and ends normally - whatever the handle, the number of lines, the
    records. -/
theorem C14_reader_yields_every_record_line {I R E : Type} [DecidableEq I] (nf : E) (reg : List I)
    (ls : List (I × R)) (h : ∀ p ∈ ls, reg.contains p.1 = true) :
    Gen.jsonLoopUnpacksEveryLine = true ∧
    Readers.jsonLoop Readers.genCfg.json nf (none : Option (Readers.Matcher R E)) reg
        (ls.map fun p => Readers.JsonLine.record p.1 p.2) = ⟨ls.map (·.2), none⟩ := by
  refine ⟨by decide, ?_⟩
  induction ls with
  | nil => simp [Readers.jsonLoop, Readers.Run.done]
  | cons p t ih =>
    have hp := h p List.mem_cons_self
    have ht := ih (fun q hq => h q (List.mem_cons_of_mem _ hq))
    simp only [List.map_cons, Readers.jsonLoop, hp, if_true, ht, Readers.emit, Readers.accepts, Readers.Run.cons]
    split <;> simp_all

example : Readers.jsonLoop Readers.genCfg.json "nf" (none : Option (Readers.Matcher Nat String)) [1]
    [.record 1 10, .descriptor 2, .record 2 20] = ⟨[10, 20], none⟩ := by decide
